#!/usr/bin/env python3
"""tools/seed_meta6.py <id> <property> <what> <needs> <check-cmd> <check-outcome> <detected_by,comma-separated or ->
Writes seeded/<id>/meta.json from seeded/<id>/confirm.log (round 6 bookkeeping)."""
import sys, json, re, os
i, prop, what, needs, cmd, outcome, det = sys.argv[1:8]
log = open('seeded/%s/confirm.log' % i).read()
def part(a, b):
    s = log.split(a, 1)[1].split(b, 1)[0]
    r = re.findall(r'test result: \w+\. (\d+) passed; (\d+) failed', s)
    return '; '.join('%s passed, %s failed' % x for x in r) or 'no result line'
m = {"property": prop, "source": "independent sub-agent given only the property text and a scratch worktree (round 6)",
     "what": what, "needs": needs,
     "confirmed_by_me": {"demo_clean": part('== demo on clean tree', '== demo with patch'),
                         "demo_patched": part('== demo with patch', '== existing suite'),
                         "existing_suite_patched": part('== existing suite with patch only', '== done')},
     "checks_run": {cmd: outcome}, "detected_by": [] if det == '-' else det.split(',')}
json.dump(m, open('seeded/%s/meta.json' % i, 'w'), indent=1)
print(json.dumps(m["confirmed_by_me"]))
