#!/bin/bash
# tools/rehearse.sh <scratch-name> <property-id> <patch.diff|-> [tier]
# Runs ./check <property-id> against a scratch copy of /repo with <patch.diff> applied (or unpatched
# when "-"), never touching /repo itself. The scratch root /tmp/rehearse-<scratch-name>/ keeps the
# relative layout {repo,verif} so the harness' relative path dependencies resolve; its cargo target
# dir is kept between calls (incremental rebuilds) -- remove the scratch root when done:
#   rm -rf /tmp/rehearse-<scratch-name>
set -u
NAME=$1; PID=$2; PATCH=$3; TIER=${4:-quick}
ROOT=/tmp/rehearse-$NAME
mkdir -p $ROOT/repo $ROOT/verif
# files restored by rsync keep their OLD mtime, which cargo's freshness check would miss: touch them
# (after rsync has finished -- it sets the old mtime when it finalises each file)
rsync -a --delete --exclude target --exclude .git --out-format='%n' /repo/ $ROOT/repo/ > $ROOT/.restored
while read f; do [ -f "$ROOT/repo/$f" ] && touch "$ROOT/repo/$f"; done < $ROOT/.restored
rsync -a --delete --exclude harness/target --exclude "harness/target-*" --exclude work --exclude replays --exclude evidence --exclude .git /verif/ $ROOT/verif/
if [ "$PATCH" != "-" ]; then
  (cd $ROOT/repo && patch -p1 --no-backup-if-mismatch < "$PATCH") || { echo "patch failed"; exit 3; }
  (cd $ROOT/repo && grep '^+++ ' "$PATCH" | sed 's#^+++ [ab]/##; s#\t.*##' | while read f; do [ -f "$f" ] && touch "$f"; done)
fi
cd $ROOT/verif && ./check $PID $TIER
RC=$?
echo "rehearse exit=$RC"
exit $RC
