#!/usr/bin/env python3
"""tools/seed_add5.py <PID> <new-id> <what> <needs> <check-cmd> <outcome-text> [detected_by,...]
Files a round-5 seeded change from /tmp/seed5/<PID>/ under /verif/seeded/<new-id>/ (patch, demo, README, confirm log, meta)."""
import json, os, re, shutil, sys
pid, nid, what, needs, cmd, outcome = sys.argv[1:7]
det = [x for x in (sys.argv[7].split(",") if len(sys.argv) > 7 else []) if x]
src = sys.argv[8] if len(sys.argv) > 8 else "/tmp/seed5/%s" % pid
dst = "/verif/seeded/%s" % nid
os.makedirs(dst, exist_ok=True)
for f in ("patch.diff", "demo.diff", "README.md", "confirm.log"):
    if os.path.exists(os.path.join(src, f)):
        shutil.copy(os.path.join(src, f), os.path.join(dst, f))
log = open(os.path.join(dst, "confirm.log")).read() if os.path.exists(os.path.join(dst, "confirm.log")) else ""
def res(section):
    m = re.search(re.escape(section) + r"(.*?)(?:\n== |\Z)", log, re.S)
    if not m: return "?"
    r = re.findall(r"test result: \w+\. (\d+) passed; (\d+) failed", m.group(1))
    return "; ".join("%s passed, %s failed" % x for x in r) if r else "?"
meta = {"property": pid, "source": "independent sub-agent given only the property text and a scratch worktree (round 5)",
        "what": what, "needs": needs,
        "confirmed_by_me": {"demo_clean": res("== demo on clean tree"), "demo_patched": res("== demo with patch"),
                            "existing_suite_patched": res("== existing suite with patch only")},
        "checks_run": {cmd: outcome}, "detected_by": det}
json.dump(meta, open(os.path.join(dst, "meta.json"), "w"), indent=1)
print(json.dumps(meta["confirmed_by_me"]))
