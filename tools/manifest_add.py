#!/usr/bin/env python3
"""tools/manifest_add.py entry.json [engine.json] : add/replace a checks[] entry (and engine) in MANIFEST.json."""
import json, sys, html
M = '/verif/MANIFEST.json'
m = json.load(open(M))
def unesc(o):
    if isinstance(o, str): return html.unescape(o)
    if isinstance(o, dict): return {k: unesc(v) for k, v in o.items()}
    if isinstance(o, list): return [unesc(x) for x in o]
    return o
e = unesc(json.load(open(sys.argv[1])))
m['checks'] = [c for c in m['checks'] if c['property_id'] != e['property_id']] + [e]
m['checks'].sort(key=lambda c: c['property_id'])
m['not_applicable'] = [n for n in m.get('not_applicable', []) if n['property_id'] != e['property_id']]
if len(sys.argv) > 2:
    g = unesc(json.load(open(sys.argv[2])))
    m['engines'] = [x for x in m.get('engines', []) if x['name'] != g['name']] + [g]
json.dump(m, open(M, 'w'), indent=1)
print('checks:', [c['property_id'] for c in m['checks']])
