#!/bin/bash
# tools/confirm_seed.sh <worktree> <seed-dir> [crate=lightning] [test-args="--lib"]
# Confirms a seeded change in its scratch worktree: demo passes on the unchanged tree, fails with the patch,
# the crate's existing suite passes with the patch alone. Writes <seed-dir>/confirm.log.
WT=$1; SD=$2; CRATE=${3:-lightning}; TARGS=${4:---lib}
cd $WT || exit 2
git checkout -q -- . ; git clean -fdq -e target
NAMES=$(grep -E '^\+\s*(pub )?(async )?fn [a-z_0-9]+\(' $SD/demo.diff | sed -E 's/.*fn ([a-z_0-9]+)\(.*/\1/' | sort -u)
# keep only functions that are tests: those preceded by #[test] are hard to tell from a diff; filter by running with each name
{
echo "== demo on clean tree"
git apply $SD/demo.diff || { echo "demo.diff does not apply"; exit 3; }
FILTER=$(grep -B1 -E '^\+\s*(pub )?fn [a-z_0-9]+\(' $SD/demo.diff | grep -A1 -E '#\[(test|xtest)' | grep -E 'fn ' | sed -E 's/.*fn ([a-z_0-9]+)\(.*/\1/' | sort -u | tr '\n' ' ')
echo "tests: $FILTER"
for t in $FILTER; do cargo test --offline -p $CRATE $TARGS $t 2>&1 | grep -E '^test .*(ok|FAILED)$|^test result' ; done
echo "== demo with patch"
git apply $SD/patch.diff || { echo "patch.diff does not apply on demo"; exit 3; }
for t in $FILTER; do cargo test --offline -p $CRATE $TARGS $t 2>&1 | grep -E '^test .*(ok|FAILED)$|^test result' ; done
echo "== existing suite with patch only"
git checkout -q -- . ; git clean -fdq -e target
git apply $SD/patch.diff
cargo test --offline -p $CRATE $TARGS 2>&1 | grep -E '^test result|FAILED|failed' | head -20
git checkout -q -- . ; git clean -fdq -e target
echo "== done"
} > $SD/confirm.log 2>&1
tail -20 $SD/confirm.log
