#!/bin/bash
# tools/trial.sh <scratch-name> <patch.diff|-> <scripts.ndjson> [engine=channet] [TraceModule=ChanTrace]
# Quick experiment: build ONE engine against a scratch copy of /repo with the patch applied, run the given
# scripts, validate the trace with the current spec. (tools/rehearse.sh runs a whole registered check instead.)
set -u
NAME=$1; PATCH=$2; [ "$PATCH" != "-" ] && PATCH=$(realpath $PATCH); SCRIPTS=$(realpath $3); ENG=${4:-channet}; MOD=${5:-ChanTrace}
ROOT=/tmp/rehearse-$NAME
mkdir -p $ROOT/repo $ROOT/verif
rsync -a --delete --exclude target --exclude .git --out-format='%n' /repo/ $ROOT/repo/ > $ROOT/.restored
while read f; do [ -f "$ROOT/repo/$f" ] && touch "$ROOT/repo/$f"; done < $ROOT/.restored
rsync -a --delete --exclude harness/target --exclude "harness/target-*" --exclude work --exclude replays --exclude evidence --exclude .git /verif/ $ROOT/verif/
if [ "$PATCH" != "-" ]; then
  (cd $ROOT/repo && patch -p1 --no-backup-if-mismatch < "$PATCH" >/dev/null) || { echo "patch failed"; exit 3; }
  (cd $ROOT/repo && grep '^+++ ' "$PATCH" | sed 's#^+++ [ab]/##; s#\t.*##' | while read f; do [ -f "$f" ] && touch "$f"; done)
fi
(cd $ROOT/verif/harness && cargo build --offline --release --bin $ENG 2>&1 | grep -E "^error|Finished" | head -3)
OUT=/verif/work/chan/trial-$NAME.ndjson
$ROOT/verif/harness/target/release/$ENG --scripts $SCRIPTS --seed 5 --out $OUT >/dev/null 2>&1
echo "summary: $(cat $OUT.summary)"
/verif/tools/tv.sh $MOD $OUT | grep -i "REJECT\|No error\|rror" | head -3
