import json,re,sys,glob
KMAP={35:"C08-3",36:"C08-4",37:"C01-d",38:"C01-e",39:"C12-3",40:"C12-4",41:"C17-3",42:"C17-4",43:"C10-d",44:"C10-e",45:"C05-d",46:"C05-e",47:"C09-d",48:"C09-e",49:"C04-3",50:"C04-4",
      51:"C03-3",52:"C03-4",53:"C06-3",54:"C06-4",55:"C02-3",56:"C02-4",57:"C07-3",58:"C07-4",59:"C11-3",60:"C11-4"}
p='/verif/seeded/confirmed.json'
d=json.load(open(p))
def res(line):
    m=re.search(r'(\d+) passed; (\d+) failed',line)
    return "%s passed, %s failed"%(m.group(1),m.group(2)) if m else line.strip()[:80]
for f in sorted(glob.glob('/tmp/confirm-all*.log')):
    cur=None
    for l in open(f):
        m=re.match(r'== \S+ (\d+) ',l)
        if m: cur=int(m.group(1)); continue
        if cur in KMAP:
            e=d.setdefault(KMAP[cur],{})
            if l.startswith('clean:'): e['demo_clean']=res(l)
            if l.startswith('patched:'): e['demo_patched']=res(l)
            if l.startswith('suite:'): e['existing_suite_patched']=res(l)
json.dump(d,open(p,'w'),indent=1)
for k in KMAP.values():
    if k in d: print(k,d[k])
