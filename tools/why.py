#!/usr/bin/env python3
import json,sys
L=[json.loads(x) for x in open(sys.argv[1])]
n=int(sys.argv[2]); ctx=int(sys.argv[3]) if len(sys.argv)>3 else 25
r=L[n-1]['run']
for i,x in enumerate(L):
    if x['run']==r and n-ctx<=i+1<=n+3:
        s=json.dumps(x)
        print(('>>> ' if i+1==n else '    ')+str(i+1), s[:int(sys.argv[4]) if len(sys.argv)>4 else 330])
