#!/usr/bin/env python3
"""Writes seeded/<id>/meta.json from the table below (kept by hand: what each seeded change is, what I
confirmed myself and which registered check was run against it with which outcome)."""
import json, os, sys

SRC = "independent sub-agent given only the property text and a scratch worktree"
SUITE = "cargo test --offline -p lightning --lib: 1523 passed, 0 failed"

T = {
 "C02-1": dict(property="C02",
   what="FundedChannel::write: OutboundHTLCState::AwaitingRemoteRevokeToRemove is written with the tag of AwaitingRemovedRemoteRevoke; after a restart "
        "the forwarder drops the downstream HTLC on the next revoke_and_ack and fails the upstream HTLC while the next hop still holds an unrevoked commitment with it",
   needs="downstream update_fail_htlc + commitment_signed crossing the forwarder's own commitment_signed; forwarder restarted in that window",
   checks={"./check C02 quick (first version)": "exit 0 -- MISSED (random 3-node schedules do not hit the window)",
           "tools/rehearse.sh seedrun2 C02 seeded/C02-1/patch.diff quick, after adding the `failwin` schedule family": "exit 1, VIOLATION lines (guard group C02: update_fail upstream while the HTLC is live downstream)"},
   detected=["C02 (after strengthening)"]),
 "C02-2": dict(property="C02",
   what="ChannelManager::internal_update_fulfill_htlc: the RAA blockers registered for the downstream channel are inserted as a new list (replacing those already there) instead of appended",
   needs="two forwarded HTLCs from two different upstream channels over one downstream channel, asynchronous persistence, the second upstream preimage write completing first",
   checks={"./check C02 quick (first version)": "exit 0 -- MISSED (line topologies only; the forget-after-durable guard looked only at the revocation just delivered)",
           "tools/rehearse.sh seedrun3 C02 seeded/C02-2/patch.diff quick, after generalising channet to arbitrary topologies (`fanin`), accumulating the settled set and adding ForwardN.tla": "exit 1, VIOLATION lines at the `persist` of the released revocation update (guard group C02)"},
   detected=["C02 (after strengthening)"]),
 "C05-a": dict(property="C05",
   what="FundedChannel::revoke_and_ack: the secret is compared with the announced commitment point only while no secret is stored yet; the shachain insert does not check odd-numbered secrets, so the 3rd, 5th, ... revocation is accepted unverified",
   needs="a forged per_commitment_secret in the 3rd (5th, ...) revoke_and_ack of a channel",
   checks={"tools/rehearse.sh seedrun C05 seeded/C05-a/patch.diff quick": "exit 1, VIOLATION lines (tamper profile: a tampered revoke_and_ack was accepted and a commitment_secret step persisted)"},
   detected=["C05"]),
 "C01-b": dict(property="C01",
   what="FundedChannel::free_holding_cell_htlcs: the held update_fee is released before the held HTLC adds, so its affordability check does not see them: the funder sends update_add + update_fee + commitment_signed for a commitment whose fee it cannot pay; the peer answers 'Funding remote cannot afford proposed new fee' and force-closes",
   needs="funder waiting for a revoke_and_ack with both a > 2x fee increase and an HTLC near its reported limit parked in the holding cell",
   checks={"tools/rehearse.sh seedrun C01 seeded/C01-b/patch.diff quick (first version)": "exit 0 -- MISSED (random schedules rarely park a fee update and a limit-sized HTLC together)",
           "same, after adding the `holdcell` schedule family": "exit 1, VIOLATION lines (guard group C01: error message / force_closed monitor step on honest traffic)"},
   detected=["C01 (after strengthening)"]),
 "C01-c": dict(property="C01",
   what="ChannelContext::validate_update_add_htlc counts the receiver's own not-yet-acknowledged and holding-cell HTLCs (include_counterparty_unknown_htlcs = true): an add inside the sender's reported limit is rejected with 'Remote HTLC add would put them under remote reserve value' and the channel is force-closed",
   needs="crossing traffic: the fundee has >= 2 (anchors) / ~8 (static) non-dust HTLCs the funder has not seen when the funder sends exactly next_outbound_htlc_limit_msat",
   checks={"tools/rehearse.sh seedrun C01 seeded/C01-c/patch.diff quick (first version, and with `holdcell`)": "exit 0 -- MISSED",
           "crosslimit scripts (k crossing HTLCs x boundary amount x funder balance classes) on a scratch copy with the patch": "rejected at the force_closed monitor step / error message (run 48 of 400); same scripts accepted on the unchanged tree"},
   detected=["C01 (after strengthening)"]),
 "C10-b": dict(property="C10",
   what="OutboundPayments::fail_htlc attaches the ReleasePaymentComplete completion action to PaymentPathFailed instead of the terminal PaymentFailed",
   needs="an outbound HTLC failed ON CHAIN on a closed channel, the user's handler answering ReplayEvent for PaymentFailed, a crash before the manager is written again",
   checks={}, detected=[]),
 "C10-c": dict(property="C10",
   what="ChannelManager::from_channel_manager_data: the stale-manager force-close path no longer fails back ShutdownResult::dropped_outbound_htlcs (HTLCs that sat in the closed channel's holding cell)",
   needs="a forward waiting in the outbound channel's holding cell when the manager is written, a later monitor update on that channel that does not free the holding cell, a crash",
   checks={"tools/rehearse.sh seedrun C10 seeded/C10-c/patch.diff quick, with the `stalehold` schedule family": "exit 1, VIOLATION lines (guard group C10 at the final projection: an HTLC pending at the crash never resolves)"},
   detected=["C10 (after strengthening)"]),
 "C07-1": dict(property="C07",
   what="ChannelMonitorImpl::provide_payment_preimage: a claim generated for a counterparty commitment with < 6 confirmations records the current height as the outpoint's creation height; a reorg of the tip only then drops the claim for good",
   needs="counterparty commitment confirmed, 1-4 blocks, preimage arrives, claim broadcast but not mined, reorg of the tip that leaves the commitment confirmed",
   checks={}, detected=[]),
 "C07-2": dict(property="C07",
   what="PackageTemplate::compute_package_feerate (ForceBump): the clamp loses its max(.., previous_feerate) floor; an anchor claim is bumped with a LOWER feerate when the estimate falls below 1/5 of the previous one",
   needs="anchor channel, holder package unconfirmed after a bump interval, fee estimate dropping sharply",
   checks={}, detected=[]),
 "C08-1": dict(property="C08",
   what="ChannelManager::can_forward_htlc_should_intercept: the CLTV-delta check uses the configured cltv_expiry_delta un-floored instead of MIN_CLTV_EXPIRY_DELTA",
   needs="forwarder configured with cltv_expiry_delta < 48 and an onion that leaves it fewer than 48 blocks",
   checks={"tools/rehearse.sh seedrun2 C08 seeded/C08-1/patch.diff quick (first version)": "exit 0 -- MISSED (the forwarder always ran with the default delta)",
           "tools/rehearse.sh c08b C08 seeded/C08-1/patch.diff quick, after restating MayForward as Eu - Ed >= max(d, MIN_CLTV_EXPIRY_DELTA) /\\ Ed > h + LATENCY_GRACE_PERIOD_BLOCKS and probing configured deltas below the floor": "exit 1, 5 VIOLATION lines (first: d=12, forward with eu=74, ed=62)"},
   detected=["C08 (after strengthening)"]),
 "C08-2": dict(property="C08",
   what="onion_payment::check_incoming_htlc_cltv: the OutgoingCLTVTooSoon check compares the incoming expiry, so it never fires",
   needs="an outgoing expiry at or below height + LATENCY_GRACE_PERIOD_BLOCKS with the incoming expiry far enough away",
   checks={"tools/rehearse.sh seedrun2 C08 seeded/C08-2/patch.diff quick (first version)": "exit 0 -- MISSED (outgoing expiry was always derived from the incoming one minus the advertised delta)",
           "tools/rehearse.sh c08b C08 seeded/C08-2/patch.diff quick, after adding sender-chosen (incoming, outgoing) expiry pairs with the outgoing one swept around the tip": "exit 1, 5 VIOLATION lines (first: forward with ed=21 at h=21)"},
   detected=["C08 (after strengthening)"]),
 "C14-1": dict(property="C14",
   what="onion_utils::decode_fulfill_attribution_data: positions are clamped instead of the hop count; beyond 20 hops hop 1's HMAC position is wrong and only the first hold time is reported",
   needs="a successful payment over a route with more than 20 hops",
   checks={"tools/rehearse.sh seedrun2 C14 seeded/C14-1/patch.diff quick": "exit 1, VIOLATION lines"}, detected=["C14"]),
 "C14-2": dict(property="C14",
   what="impl Writeable for OutboundOnionPayload (BlindedReceive): invoice_request / custom TLVs / keysend emitted without sorting by type",
   needs="blinded tail + keysend preimage (or invoice_request) + a custom TLV type on the far side of it",
   checks={"tools/rehearse.sh seedrun2 C14 seeded/C14-2/patch.diff quick": "exit 1, VIOLATION lines"}, detected=["C14"]),
 "C15-1": dict(property="C15",
   what="PeerChannelEncryptor::decrypt_message rejects msg.len() >= LN_MAX_MSG_LEN + 16 (was >): a 65535-byte message is never delivered (debug builds panic)",
   needs="a message whose plaintext is exactly 65535 bytes",
   checks={"tools/rehearse.sh seedrun2 C15 seeded/C15-1/patch.diff quick": "exit 1, VIOLATION lines"}, detected=["C15"]),
 "C15-2": dict(property="C15",
   what="PeerManager::do_attempt_write_data: on a short write the offset into the first queued message is set to, not advanced by, the bytes sent",
   needs="one message needing three or more partial writes (back-pressure)",
   checks={"tools/rehearse.sh seedrun2 C15 seeded/C15-2/patch.diff quick": "exit 1, VIOLATION lines"}, detected=["C15"]),
 "C16-1": dict(property="C16",
   what="get_route: when the CLTV budget of the forwarding hops underflows, the fallback is max_total_cltv_expiry_delta instead of max_total - final",
   needs="a tight budget: max_total_cltv_expiry_delta - final_cltv_expiry_delta < 80",
   checks={"tools/rehearse.sh seedrun2 C16 seeded/C16-1/patch.diff quick": "exit 1, VIOLATION lines"}, detected=["C16"]),
 "C16-2": dict(property="C16",
   what="get_route: used_liquidities records only value_contribution_msat, not the fees for later hops that also cross the channel",
   needs="an MPP route whose paths share a channel, with non-zero fees",
   checks={"tools/rehearse.sh seedrun2 C16 seeded/C16-2/patch.diff quick": "exit 1, VIOLATION lines"}, detected=["C16"]),
}

UPDATES = {
 "C10-a": dict(checks_add={"tools/rehearse.sh seedrun C10 seeded/C10-a/patch.diff quick, after adding the crashcross schedules, the needSent obligation and the per-node `fin` record":
                           "exit 1, VIOLATION lines (guard group C10 at `fin`: a claim the durable monitor knew was never reported as PaymentSent)"},
               detected=["C10 (after strengthening)"]),
 "C18-2": dict(checks_add={"same, after adding single-bit alterations of signed TLV streams": "exit 1, VIOLATION lines"}, detected=["C18 (after strengthening)"]),
 "C19-2": dict(checks_add={"tools/rehearse.sh ... C19 seeded/C19-2/patch.diff quick, after modelling the async KVStore's issue order": "exit 1, VIOLATION lines"}, detected=["C19 (after strengthening)"]),
}


def main():
    root = os.path.join(os.path.dirname(os.path.abspath(__file__)), "..", "seeded")
    confirmed = json.load(open(os.path.join(root, "confirmed.json"))) if os.path.exists(os.path.join(root, "confirmed.json")) else {}
    for sid, t in T.items():
        d = os.path.join(root, sid)
        if not os.path.isdir(d):
            continue
        c = confirmed.get(sid, {})
        meta = {"property": t["property"], "source": SRC, "what": t["what"], "needs": t["needs"],
                "confirmed_by_me": c or "pending", "checks_run": t["checks"], "detected_by": t["detected"]}
        old = os.path.join(d, "meta.json")
        if os.path.exists(old):
            o = json.load(open(old))
            if o.get("checks_run") and not t["checks"]:
                meta["checks_run"] = o["checks_run"]; meta["detected_by"] = o.get("detected_by", [])
        json.dump(meta, open(old, "w"), indent=1)
    for sid, u in UPDATES.items():
        p = os.path.join(root, sid, "meta.json")
        m = json.load(open(p))
        m["checks_run"].update(u["checks_add"])
        m["detected_by"] = u["detected"]
        json.dump(m, open(p, "w"), indent=1)


if __name__ == "__main__":
    main()
