#!/usr/bin/env python3
"""Writes seeded/<id>/meta.json from the table below (kept by hand: what each seeded change is, what I
confirmed myself and which registered check was run against it with which outcome)."""
import json, os, sys

SRC = "independent sub-agent given only the property text and a scratch worktree"
SUITE = "cargo test --offline -p lightning --lib: 1523 passed, 0 failed"

T = {
 "C02-1": dict(property="C02",
   what="FundedChannel::write: OutboundHTLCState::AwaitingRemoteRevokeToRemove is written with the tag of AwaitingRemovedRemoteRevoke; after a restart "
        "the forwarder drops the downstream HTLC on the next revoke_and_ack and fails the upstream HTLC while the next hop still holds an unrevoked commitment with it",
   needs="downstream update_fail_htlc + commitment_signed crossing the forwarder's own commitment_signed; forwarder restarted in that window",
   checks={"./check C02 quick (first version)": "exit 0 -- MISSED (random 3-node schedules do not hit the window)",
           "tools/rehearse.sh seedrun2 C02 seeded/C02-1/patch.diff quick, after adding the `failwin` schedule family": "exit 1, VIOLATION lines (guard group C02: update_fail upstream while the HTLC is live downstream)"},
   detected=["C02 (after strengthening)"]),
 "C02-2": dict(property="C02",
   what="ChannelManager::internal_update_fulfill_htlc: the RAA blockers registered for the downstream channel are inserted as a new list (replacing those already there) instead of appended",
   needs="two forwarded HTLCs from two different upstream channels over one downstream channel, asynchronous persistence, the second upstream preimage write completing first",
   checks={"./check C02 quick (first version)": "exit 0 -- MISSED (line topologies only; the forget-after-durable guard looked only at the revocation just delivered)",
           "tools/rehearse.sh seedrun3 C02 seeded/C02-2/patch.diff quick, after generalising channet to arbitrary topologies (`fanin`), accumulating the settled set and adding ForwardN.tla": "exit 1, VIOLATION lines at the `persist` of the released revocation update (guard group C02)"},
   detected=["C02 (after strengthening)"]),
 "C05-a": dict(property="C05",
   what="FundedChannel::revoke_and_ack: the secret is compared with the announced commitment point only while no secret is stored yet; the shachain insert does not check odd-numbered secrets, so the 3rd, 5th, ... revocation is accepted unverified",
   needs="a forged per_commitment_secret in the 3rd (5th, ...) revoke_and_ack of a channel",
   checks={"tools/rehearse.sh seedrun C05 seeded/C05-a/patch.diff quick": "exit 1, VIOLATION lines (tamper profile: a tampered revoke_and_ack was accepted and a commitment_secret step persisted)"},
   detected=["C05"]),
 "C01-b": dict(property="C01",
   what="FundedChannel::free_holding_cell_htlcs: the held update_fee is released before the held HTLC adds, so its affordability check does not see them: the funder sends update_add + update_fee + commitment_signed for a commitment whose fee it cannot pay; the peer answers 'Funding remote cannot afford proposed new fee' and force-closes",
   needs="funder waiting for a revoke_and_ack with both a > 2x fee increase and an HTLC near its reported limit parked in the holding cell",
   checks={"tools/rehearse.sh seedrun C01 seeded/C01-b/patch.diff quick (first version)": "exit 0 -- MISSED (random schedules rarely park a fee update and a limit-sized HTLC together)",
           "same, after adding the `holdcell` schedule family": "exit 1, VIOLATION lines (guard group C01: error message / force_closed monitor step on honest traffic)"},
   detected=["C01 (after strengthening)"]),
 "C01-c": dict(property="C01",
   what="ChannelContext::validate_update_add_htlc counts the receiver's own not-yet-acknowledged and holding-cell HTLCs (include_counterparty_unknown_htlcs = true): an add inside the sender's reported limit is rejected with 'Remote HTLC add would put them under remote reserve value' and the channel is force-closed",
   needs="crossing traffic: the fundee has >= 2 (anchors) / ~8 (static) non-dust HTLCs the funder has not seen when the funder sends exactly next_outbound_htlc_limit_msat",
   checks={"tools/rehearse.sh seedrun C01 seeded/C01-c/patch.diff quick (first version, and with `holdcell`)": "exit 0 -- MISSED",
           "crosslimit scripts (k crossing HTLCs x boundary amount x funder balance classes) on a scratch copy with the patch": "rejected at the force_closed monitor step / error message (run 48 of 400); same scripts accepted on the unchanged tree"},
   detected=["C01 (after strengthening)"]),
 "C10-b": dict(property="C10",
   what="OutboundPayments::fail_htlc attaches the ReleasePaymentComplete completion action to PaymentPathFailed instead of the terminal PaymentFailed",
   needs="an outbound HTLC failed ON CHAIN on a closed channel, the user's handler answering ReplayEvent for PaymentFailed, a crash before the manager is written again",
   checks={"tools/rehearse.sh seedrun C10 seeded/C10-b/patch.diff quick (first version)": "exit 0 -- MISSED (no chain, no refusing user)",
           "tools/trial.sh seedrun4 seeded/C10-b/patch.diff <chainsettle scripts with the settle-then-crash variant>": "rejected at `fin` (run 8: a payer restarted from a manager that knows the payment never reports its terminal event: PaymentFailed had been refused, PaymentPathFailed's completion action told the monitor the payment was complete); same scripts accepted on the unchanged tree"},
   detected=["C10 (after strengthening)"]),
 "C10-c": dict(property="C10",
   what="ChannelManager::from_channel_manager_data: the stale-manager force-close path no longer fails back ShutdownResult::dropped_outbound_htlcs (HTLCs that sat in the closed channel's holding cell)",
   needs="a forward waiting in the outbound channel's holding cell when the manager is written, a later monitor update on that channel that does not free the holding cell, a crash",
   checks={"tools/rehearse.sh seedrun C10 seeded/C10-c/patch.diff quick, with the `stalehold` schedule family": "exit 1, VIOLATION lines (guard group C10 at the final projection: an HTLC pending at the crash never resolves)"},
   detected=["C10 (after strengthening)"]),
 "C03-1": dict(property="C03",
   what="OutboundPayments::insert_from_monitor_on_startup: an HTLC found in a closed channel's monitor is no longer added to a payment the manager already holds as Retryable: PaymentFailed while an HTLC is in flight, no PaymentSent when the recipient's claim settles on chain, the payment drops out of list_recent_payments with a live HTLC",
   needs="payer restarts from a stale manager that knows the payment but not one of its HTLCs (automatic retry or further MPP part sent since the last manager write); channel closed at restart; on-chain settlement",
   checks={"tools/rehearse.sh seedrun2 C03 seeded/C03-1/patch.diff quick": "exit 0 -- MISSED (paynet keeps channels open and restarts stale only from idle snapshots); strengthening delegated (agent-pay2): see DESIGN.md 11.6"},
   detected=[]),
 "C03-2": dict(property="C03",
   what="ChannelMonitorImpl::provide_secret prunes counterparty_fulfilled_htlcs for every HTLC of the revoked commitment (the same mechanism as seeded C10-a, found independently)",
   needs="fulfil + commitment_signed crossing the sender's add + commitment_signed, silent peer, restart from a manager older than the fulfil, commitment buried",
   checks={"tools/rehearse.sh seedrun2 C03 seeded/C03-2/patch.diff quick": "exit 0 -- MISSED by C03 (needs a stale restart with a closed channel)",
           "same change as seeded C10-a": "caught by ./check C10 (crashcross schedules, needSent obligation at `fin`)"},
   detected=["C10"]),
 "C04-1": dict(property="C04",
   what="inbound_payment::verify: for *CustomFinalCltv secrets the low min_final_cltv_expiry_delta byte is no longer zeroed before decoding the expiry: such secrets never expire",
   needs="a secret created with Some(min_final_cltv_expiry_delta) and a block timestamp past creation + expiry + 7200",
   checks={"tools/rehearse.sh seedrun2 C04 seeded/C04-1/patch.diff quick": "exit 1, VIOLATION lines (an expired secret shown as PaymentClaimable)"},
   detected=["C04"]),
 "C04-2": dict(property="C04",
   what="ChannelManager::check_mpp_timeout: the 'set is complete, never time it out' test uses == instead of >=: an overshooting MPP already shown as PaymentClaimable is failed back with MPPTimeout on the next timer ticks",
   needs="parts whose intended sum exceeds total_msat and MPP_TIMEOUT_TICKS timer ticks between claimable and claim",
   checks={"tools/rehearse.sh seedrun2 C04 seeded/C04-2/patch.diff quick": "exit 1, VIOLATION lines"},
   detected=["C04"]),
 "C05-b": dict(property="C05",
   what="FundedChannel::commitment_signed_update_monitor, 'monitor update already in progress' branch: the guard need_commitment && !is_awaiting_remote_revoke() becomes need_commitment && !monitor_pending_commitment_signed: a second, different update_add + commitment_signed is emitted for the same commitment number while the first is unrevoked",
   needs="own commitment_signed sent with the peer's revoke_and_ack outstanding, an unrelated monitor update in flight (async persistence), a crossing commitment_signed from the peer that adds an HTLC",
   checks={"tools/rehearse.sh seedrun4 C05 seeded/C05-b/patch.diff quick (first version)": "exit 0 -- MISSED",
           "tools/trial.sh seedrun3 seeded/C05-b/patch.diff <asynccross scripts>": "rejected (run 1: the same update_add_htlc id sent a second time outside a retransmission); same scripts accepted on the unchanged tree; family added to C05 and C09"},
   detected=["C05 (after strengthening)", "C09 (after strengthening)"]),
 "C05-c": dict(property="C05",
   what="ChannelManager deserialization, handle_in_flight_updates!: 'all in-flight monitor updates completed' is decided from the first in-flight update only: the replay of the lost tail is skipped and the node revokes a commitment its monitor still holds as latest",
   needs="async persistence, >= 2 in-flight updates, a crash after only a prefix reached the disk",
   checks={"tools/rehearse.sh seedrun4 C05 seeded/C05-c/patch.diff quick (first version)": "exit 0 -- MISSED (C05 ran no restarts from snapshots written while writes were in flight; and Durable() did not require the write to have landed)",
           "tools/trial.sh seedrun3 seeded/C05-c/patch.diff <inflight scripts>": "rejected (run 206: revoke_and_ack released after a restart although its monitor update neither landed nor was replayed; then LDK's own 'updates out of order' panic); accepted on the unchanged tree; family added to C05, attribution of release-before-durable after a crash extended to C10"},
   detected=["C05 (after strengthening)", "C10 (after strengthening)"]),
 "C06-1": dict(property="C06",
   what="package.rs get_height_timer, RevokedOutput arm: cmp::max instead of cmp::min: justice claims are re-bumped only every 15 blocks and never accelerate as the CSV expiry nears",
   needs="the justice transaction stays unconfirmed until within 15 blocks of conf_height + to_self_delay",
   checks={}, detected=[]),
 "C06-2": dict(property="C06",
   what="package.rs feerate_bump, HighestOfPreviousOrNew arm: comparison flipped: rebroadcast_pending_claims keeps the stale feerate for self-funded justice claims when the estimate has risen",
   needs="the estimator rises between the first broadcast and a rebroadcast_pending_claims() call while the justice transaction is unconfirmed",
   checks={}, detected=[]),
 "C09-b": dict(property="C09",
   what="get_update_fulfill_htlc_and_commit: a preimage update that jumps ahead of held updates takes its id from blocked_monitor_updates.last() instead of .get(0): update ids reach Persist out of order",
   needs=">= 2 blocked updates on a channel (a revocation update held behind an unhandled PaymentSent event plus the update of a later commitment_signed) when a preimage is learned for that channel",
   checks={"tools/rehearse.sh seedrun C09 seeded/C09-b/patch.diff quick (first version)": "exit 0 -- MISSED (the user never refused an event)",
           "tools/trial.sh seedrun seeded/C09-b/patch.diff <blockedjump scripts>": "106 of 300 runs panic ('ChannelMonitorUpdates out of order') / are rejected at the gap-free-id guard; accepted on the unchanged tree; needs the new hold_events (ReplayEvent) support of channet"},
   detected=["C09 (after strengthening)"]),
 "C09-c": dict(property="C09",
   what="check_get_channel_ready: the 'peer disconnected -> None' and 'monitor update in progress -> remember channel_ready as pending' guards are swapped: channel_ready is never sent after the write completes (and leaks at channel_reestablish while it is pending)",
   needs="inbound channel whose first monitor write is InProgress, peers disconnected when the funding transaction reaches its depth",
   checks={"tools/rehearse.sh seedrun C09 seeded/C09-c/patch.diff quick (first version)": "exit 0 -- MISSED",
           "tools/trial.sh seedrun2 seeded/C09-c/patch.diff <opendisc scripts>": "rejected (a channel whose funding is buried is not ready at the end of a wound-down run: 'exactly the held messages are released'); accepted on the unchanged tree"},
   detected=["C09 (after strengthening)"]),
 "C11-1": dict(property="C11",
   what="ChannelMonitorImpl::best_block_updated, reorg branch: retain(entry.height <= height) became < height: a reorg delivered through Confirm::best_block_updated also drops pending on-chain events of the block it lands on",
   needs="a shallow reorg reported via best_block_updated landing exactly on the block where a commitment / HTLC / claim transaction confirmed < 6 blocks ago",
   checks={"tools/rehearse.sh seedrun2 C11 seeded/C11-1/patch.diff quick": "exit 1, 48 VIOLATION lines"}, detected=["C11"]),
 "C11-2": dict(property="C11",
   what="ChannelMonitor::get_onchain_failed_outbound_htlcs: the depth check is always true: an outbound HTLC missing from the closing commitment is failed back at startup before that commitment is buried",
   needs="a restart while the closing commitment has 1-5 confirmations",
   checks={"tools/rehearse.sh seedrun2 C11 seeded/C11-2/patch.diff quick": "exit 1, 16 VIOLATION lines"}, detected=["C11"]),
 "C12-1": dict(property="C12",
   what="impl Writeable for FundedChannel: a non-funder's pending fee update in state AwaitingRemoteRevokeToAnnounce is dropped on write (the match arm names RemoteAnnounced)",
   needs="the funder's update_fee + commitment_signed crossing the non-funder's own update; manager written and re-read in that window",
   checks={"tools/rehearse.sh seedrun3 C12 seeded/C12-1/patch.diff quick (first version)": "exit 0 -- MISSED (random reload points rarely fall into the window)",
           "tools/trial.sh seedrun4 seeded/C12-1/patch.diff <feecross scripts>": "rejected (run 1: the re-read node signs with feerate 253 where its own history prescribes 1000); accepted on the unchanged tree; a rejection after a clean reload is now attributed to C12 as well"},
   detected=["C12 (after strengthening)"]),
 "C12-2": dict(property="C12",
   what="impl Readable for ChannelLiquidity: offset_history_last_updated restored from TLV 11 in preference to TLV 9: a scorer written after its buckets decayed decays them a second time after reload",
   needs="time_passed has decayed a channel's historical buckets before the scorer is written; another time_passed after the read",
   checks={"tools/rehearse.sh seedrun3 C12 seeded/C12-2/patch.diff quick (first version)": "exit 0 -- MISSED (the scorer was written once, fresh)",
           "channet default profile on a scratch copy with the patch, after extending the scorer round trip (decay, write in the decayed state, more decay, further datapoints)": "150 of 150 runs report answers_equal = false (0 of 150 on the unchanged tree)"},
   detected=["C12 (after strengthening)"]),
 "C07-1": dict(property="C07",
   what="ChannelMonitorImpl::provide_payment_preimage: a claim generated for a counterparty commitment with < 6 confirmations records the current height as the outpoint's creation height; a reorg of the tip only then drops the claim for good",
   needs="counterparty commitment confirmed, 1-4 blocks, preimage arrives, claim broadcast but not mined, reorg of the tip that leaves the commitment confirmed",
   checks={"tools/rehearse.sh seedrun2 C07 seeded/C07-1/patch.diff quick (first version)": "exit 0 -- MISSED (no reorgs in the on-chain engine)",
           "tools/rehearse.sh seedrun3 C11 seeded/C07-1/patch.diff quick (first version)": "exit 0 -- MISSED (a broad waiver for lost pending claims hid it)",
           "C07 after adding tip reorgs + RebroadcastCovers (agent-onchain2)": "exit 1, 15 VIOLATION lines (counterparty-fresh path)",
           "C11 after adding late-preimage histories and keying the lost-claim finding by path (agent-c11)": "exit 1, 5 VIOLATION lines (KnownPreimageHtlcIsClaimed)"},
   detected=["C07 (after strengthening)", "C11 (after strengthening)"]),
 "C07-2": dict(property="C07",
   what="PackageTemplate::compute_package_feerate (ForceBump): the clamp loses its max(.., previous_feerate) floor; an anchor claim is bumped with a LOWER feerate when the estimate falls below 1/5 of the previous one",
   needs="anchor channel, holder package unconfirmed after a bump interval, fee estimate dropping sharply",
   checks={"tools/rehearse.sh seedrun2 C07 seeded/C07-2/patch.diff quick (first version)": "exit 0 -- MISSED (bump events of one claim were not compared; no collapsing fee trajectories)",
           "C07 after the rule 'target feerate of successive BumpTransactionEvents of one claim never decreases' and fee-collapse schedules (agent-onchain2)": "exit 1, 20 VIOLATION lines at `bump` events"},
   detected=["C07 (after strengthening)"]),
 "C08-1": dict(property="C08",
   what="ChannelManager::can_forward_htlc_should_intercept: the CLTV-delta check uses the configured cltv_expiry_delta un-floored instead of MIN_CLTV_EXPIRY_DELTA",
   needs="forwarder configured with cltv_expiry_delta < 48 and an onion that leaves it fewer than 48 blocks",
   checks={"tools/rehearse.sh seedrun2 C08 seeded/C08-1/patch.diff quick (first version)": "exit 0 -- MISSED (the forwarder always ran with the default delta)",
           "tools/rehearse.sh c08b C08 seeded/C08-1/patch.diff quick, after restating MayForward as Eu - Ed >= max(d, MIN_CLTV_EXPIRY_DELTA) /\\ Ed > h + LATENCY_GRACE_PERIOD_BLOCKS and probing configured deltas below the floor": "exit 1, 5 VIOLATION lines (first: d=12, forward with eu=74, ed=62)"},
   detected=["C08 (after strengthening)"]),
 "C08-2": dict(property="C08",
   what="onion_payment::check_incoming_htlc_cltv: the OutgoingCLTVTooSoon check compares the incoming expiry, so it never fires",
   needs="an outgoing expiry at or below height + LATENCY_GRACE_PERIOD_BLOCKS with the incoming expiry far enough away",
   checks={"tools/rehearse.sh seedrun2 C08 seeded/C08-2/patch.diff quick (first version)": "exit 0 -- MISSED (outgoing expiry was always derived from the incoming one minus the advertised delta)",
           "tools/rehearse.sh c08b C08 seeded/C08-2/patch.diff quick, after adding sender-chosen (incoming, outgoing) expiry pairs with the outgoing one swept around the tip": "exit 1, 5 VIOLATION lines (first: forward with ed=21 at h=21)"},
   detected=["C08 (after strengthening)"]),
 "C14-1": dict(property="C14",
   what="onion_utils::decode_fulfill_attribution_data: positions are clamped instead of the hop count; beyond 20 hops hop 1's HMAC position is wrong and only the first hold time is reported",
   needs="a successful payment over a route with more than 20 hops",
   checks={"tools/rehearse.sh seedrun2 C14 seeded/C14-1/patch.diff quick": "exit 1, VIOLATION lines"}, detected=["C14"]),
 "C14-2": dict(property="C14",
   what="impl Writeable for OutboundOnionPayload (BlindedReceive): invoice_request / custom TLVs / keysend emitted without sorting by type",
   needs="blinded tail + keysend preimage (or invoice_request) + a custom TLV type on the far side of it",
   checks={"tools/rehearse.sh seedrun2 C14 seeded/C14-2/patch.diff quick": "exit 1, VIOLATION lines"}, detected=["C14"]),
 "C15-1": dict(property="C15",
   what="PeerChannelEncryptor::decrypt_message rejects msg.len() >= LN_MAX_MSG_LEN + 16 (was >): a 65535-byte message is never delivered (debug builds panic)",
   needs="a message whose plaintext is exactly 65535 bytes",
   checks={"tools/rehearse.sh seedrun2 C15 seeded/C15-1/patch.diff quick": "exit 1, VIOLATION lines"}, detected=["C15"]),
 "C15-2": dict(property="C15",
   what="PeerManager::do_attempt_write_data: on a short write the offset into the first queued message is set to, not advanced by, the bytes sent",
   needs="one message needing three or more partial writes (back-pressure)",
   checks={"tools/rehearse.sh seedrun2 C15 seeded/C15-2/patch.diff quick": "exit 1, VIOLATION lines"}, detected=["C15"]),
 "C16-1": dict(property="C16",
   what="get_route: when the CLTV budget of the forwarding hops underflows, the fallback is max_total_cltv_expiry_delta instead of max_total - final",
   needs="a tight budget: max_total_cltv_expiry_delta - final_cltv_expiry_delta < 80",
   checks={"tools/rehearse.sh seedrun2 C16 seeded/C16-1/patch.diff quick": "exit 1, VIOLATION lines"}, detected=["C16"]),
 "C16-2": dict(property="C16",
   what="get_route: used_liquidities records only value_contribution_msat, not the fees for later hops that also cross the channel",
   needs="an MPP route whose paths share a channel, with non-zero fees",
   checks={"tools/rehearse.sh seedrun2 C16 seeded/C16-2/patch.diff quick": "exit 1, VIOLATION lines"}, detected=["C16"]),
}

UPDATES = {
 "C10-a": dict(checks_add={"tools/rehearse.sh seedrun C10 seeded/C10-a/patch.diff quick, after adding the crashcross schedules, the needSent obligation and the per-node `fin` record":
                           "exit 1, VIOLATION lines (guard group C10 at `fin`: a claim the durable monitor knew was never reported as PaymentSent)"},
               detected=["C10 (after strengthening)"]),
 "C18-2": dict(checks_add={"same, after adding single-bit alterations of signed TLV streams": "exit 1, VIOLATION lines"}, detected=["C18 (after strengthening)"]),
 "C19-2": dict(checks_add={"tools/rehearse.sh ... C19 seeded/C19-2/patch.diff quick, after modelling the async KVStore's issue order": "exit 1, VIOLATION lines"}, detected=["C19 (after strengthening)"]),
}


def main():
    root = os.path.join(os.path.dirname(os.path.abspath(__file__)), "..", "seeded")
    confirmed = json.load(open(os.path.join(root, "confirmed.json"))) if os.path.exists(os.path.join(root, "confirmed.json")) else {}
    for sid, t in T.items():
        d = os.path.join(root, sid)
        if not os.path.isdir(d):
            continue
        c = confirmed.get(sid, {})
        meta = {"property": t["property"], "source": SRC, "what": t["what"], "needs": t["needs"],
                "confirmed_by_me": c or "pending", "checks_run": t["checks"], "detected_by": t["detected"]}
        old = os.path.join(d, "meta.json")
        if os.path.exists(old):
            o = json.load(open(old))
            if o.get("checks_run") and not t["checks"]:
                meta["checks_run"] = o["checks_run"]; meta["detected_by"] = o.get("detected_by", [])
        json.dump(meta, open(old, "w"), indent=1)
    for sid, u in UPDATES.items():
        p = os.path.join(root, sid, "meta.json")
        m = json.load(open(p))
        m["checks_run"].update(u["checks_add"])
        m["detected_by"] = u["detected"]
        json.dump(m, open(p, "w"), indent=1)


if __name__ == "__main__":
    main()
