#!/usr/bin/env python3
"""Development aid (not a check): which functions of the files a property is anchored in are never executed by
the engines?  A change to code no engine reaches cannot be detected by trace validation, whatever the specification says.

  1. build the engines instrumented:   cd harness && RUSTFLAGS=-Cinstrument-coverage CARGO_TARGET_DIR=/tmp/cov/target cargo +nightly build --offline --bin ...
  2. run checks with them:             RUSTUP_TOOLCHAIN=nightly RUSTFLAGS=-Cinstrument-coverage VERIF_TARGET_DIR=/tmp/cov/target \
                                       LLVM_PROFILE_FILE=/tmp/cov/prof/%8m.profraw ./check C10 quick
  3. tools/cov_gaps.py <engine binary>... [--file regex] [--min-lines N]

Prints, per source file under /repo/lightning*/src, the functions with NO executed line (name, first line, number of
instrumented lines) and the largest unexecuted blocks inside executed functions."""
import glob, os, re, subprocess, sys

BIN = glob.glob(os.path.expanduser("~/.rustup/toolchains/nightly-*/lib/rustlib/*/bin"))[-1]
PROF = "/tmp/cov/prof"
TARGET = "/tmp/cov/target/debug"


def lcov(bins):
    subprocess.run([BIN + "/llvm-profdata", "merge", "-sparse"] + glob.glob(PROF + "/*.profraw") + ["-o", "/tmp/cov/all.profdata"], check=True)
    cmd = [BIN + "/llvm-cov", "export", "-format=lcov", "-instr-profile=/tmp/cov/all.profdata", os.path.join(TARGET, bins[0])]
    for b in bins[1:]:
        cmd += ["-object", os.path.join(TARGET, b)]
    cmd += ["--ignore-filename-regex=(registry|rustc|/verif/)"]
    out = subprocess.run(cmd, stdout=subprocess.PIPE, stderr=subprocess.DEVNULL, text=True).stdout
    files, cur = {}, None
    for ln in out.splitlines():
        if ln.startswith("SF:"):
            cur = files.setdefault(ln[3:], {})
        elif ln.startswith("DA:") and cur is not None:
            a, b = ln[3:].split(",")[:2]
            cur[int(a)] = max(cur.get(int(a), 0), int(b))
    return files


FN = re.compile(r"^(\s*)(?:pub(?:\([a-z]+\))?\s+)?(?:const\s+|async\s+|unsafe\s+)*fn\s+([A-Za-z0-9_]+)")


def functions(path):
    """[(name, first_line, last_line)] by indentation (good enough for rustfmt-ed sources)."""
    src = open(path, errors="replace").read().splitlines()
    res, stack = [], []
    for i, ln in enumerate(src, 1):
        m = FN.match(ln)
        if m:
            ind = len(m.group(1).expandtabs(4))
            while stack and stack[-1][2] >= ind:
                n, s, _ = stack.pop()
                res.append((n, s, i - 1))
            stack.append((m.group(2), i, ind))
    for n, s, _ in stack:
        res.append((n, s, len(src)))
    return sorted(res, key=lambda x: x[1])


def main():
    args = sys.argv[1:]
    fre, minl, bins = None, 8, []
    while args:
        a = args.pop(0)
        if a == "--file":
            fre = re.compile(args.pop(0))
        elif a == "--min-lines":
            minl = int(args.pop(0))
        else:
            bins.append(a)
    data = lcov(bins)
    for path in sorted(data):
        if "/src/" not in path or (fre and not fre.search(path)) or not os.path.exists(path):
            continue
        da = data[path]
        fns = functions(path)
        dead, holes = [], []
        for k, (name, s, e) in enumerate(fns):
            # innermost attribution: lines of nested functions belong to them
            inner = [(s2, e2) for (_, s2, e2) in fns if s2 > s and e2 <= e]
            mine = [l for l in range(s, e + 1) if l in da and not any(a <= l <= b for a, b in inner)]
            if not mine:
                continue
            hit = [l for l in mine if da[l] > 0]
            if not hit and len(mine) >= minl:
                dead.append((name, s, len(mine)))
            elif hit:
                # longest run of unexecuted instrumented lines
                run, best = [], []
                for l in mine:
                    if da[l] == 0:
                        run.append(l)
                    else:
                        if len(run) > len(best):
                            best = run
                        run = []
                if len(run) > len(best):
                    best = run
                if len(best) >= 3 * minl:
                    holes.append((name, best[0], best[-1], len(best)))
        tot = len(da)
        cov = sum(1 for v in da.values() if v > 0)
        print("\n%s  lines %d executed %d (%.0f%%)" % (path, tot, cov, 100.0 * cov / max(1, tot)))
        for name, s, n in dead:
            print("   never run: %-55s line %5d  (%d lines)" % (name, s, n))
        for name, a, b, n in sorted(holes, key=lambda x: -x[3])[:25]:
            print("   hole in   %-55s lines %5d-%5d (%d)" % (name, a, b, n))


main()
