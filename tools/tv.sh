#!/bin/bash
# tools/tv.sh <TraceModule> <trace.ndjson> [cfg]  -- ad-hoc trace validation with a private metadir
M=$1; T=$(realpath $2); CFG=${3:-$M.cfg}
MD=$(mktemp -d /tmp/tv.XXXXXX)
cd /verif/spec && TRACE=$T java -Xss1g -Xmx6g -Dtlc2.tool.queue.IStateQueue=StateDeque -cp /opt/veriftools/tla/tla2tools.jar:/opt/veriftools/tla/CommunityModules-deps.jar tlc2.TLC -workers 1 -metadir $MD -noGenerateSpecTE -config $CFG $M.tla 2>&1 | grep -v "^Parsing\|^Semantic\|^Linting\|^$"
rm -rf $MD
