#!/usr/bin/env python3
"""Round 4 of the independently seeded regressions: writes seeded/<id>/meta.json (same layout as tools/seed_meta.py) and
adds what I confirmed myself (seeded/<id>/confirm.log, written by the confirmation script: demonstration on the clean
tree, with the change, existing suite with the change only) to seeded/confirmed.json."""
import json, os, re

SRC = "independent sub-agent given only the property text and a scratch worktree (round 4)"
ROOT = os.path.join(os.path.dirname(os.path.abspath(__file__)), "..", "seeded")

R4 = {
 "C01-f": dict(property="C01",
   what="tx_builder.rs get_available_balances: local_nondust_htlc_count is computed with is_dust(false, ..) (the counterparty commitment's point of view): "
        "pending HTLCs that are an output on the holder's commitment only are not counted, the funder's next_outbound_htlc_limit_msat is too high by one "
        "HTLC output's fee (at twice the feerate) per such HTLC and send_htlc accepts the over-sized amount",
   needs="static_remote_key channel; the funder has >= 1 pending outbound HTLC between the HTLC-timeout and the HTLC-success trimming threshold (521..530 sat at 253 sat/kW); "
         "it then sends exactly its reported limit: the peer fails the HTLC back (FeeSpikeBuffer), with >= 8 such HTLCs it answers `error` and force-closes",
   checks={"random `limits` profile with the new amount classes only (3 seeds x 300 runs on a scratch copy with the change)": "accepted -- MISSED (the window is hit, but rarely on a quiet channel at the limit)",
           "tools/trial.sh s4c01 <patch> + `windowlimit` family (200 scripts)": "rejected (run 26: update_fail_htlc for an HTLC inside the reported limits sent on a quiet channel -- rule mustAcc); the same scripts are accepted on the unchanged tree",
           "tools/rehearse.sh r4a C01 <patch> quick": "exit 1, 7 VIOLATION lines (5 more than the same run without the change: windowlimit and limits runs rejected at the peer's update_fail_htlc / error); that baseline run also showed a false alarm of the first version of the new rule (holdcell run 143: later sends changed what the recipient decided on) -- the rule was narrowed to a lone HTLC and the trial repeated: clean accepted, change rejected"},
   detected=["C01 (after strengthening)"]),
 "C02-5": dict(property="C02",
   what="ChannelManager::handle_monitor_update_release: when one upstream preimage write completes, the outbound channel's whole actions_blocking_raa_monitor_updates entry "
        "is removed instead of only that blocker: the downstream revocation update is released while another inbound channel's preimage write is not durable",
   needs="two HTLCs from two inbound channels over one outbound channel, both claimed, one inbound preimage write completing while the other is in flight, restart with a pre-claim manager",
   checks={"tools/rehearse.sh r4b C02 <patch> quick": "exit 1, 2 VIOLATION lines (fanin runs 81, 92: guard group C02 at the `persist` of the released revocation update); baseline exit 0"},
   detected=["C02"]),
 "C05-f": dict(property="C05",
   what="ChannelContext::validate_commitment_signed: the per-HTLC-signature check became an accumulator that ORs: a commitment_signed is accepted if at least one of its HTLC "
        "signatures verifies; the node stores the not fully signed commitment and revokes the previous one",
   needs="a commitment_signed over >= 2 non-dust HTLCs in which some, not all, htlc_signatures are forged (a single bad one of one, all bad, a bad commitment signature, a wrong count are still refused)",
   checks={"./check C05 quick (first version: only revoke_and_ack was ever forged)": "MISSED by construction (no forged commitment_signed existed)",
           "tools/rehearse.sh r4a C05 <patch> quick, after the engine op tamper_cs and the tampercs family": "exit 1, 6 VIOLATION lines (tamper2 run 14, tampercs runs 3, 7, 11, 15, 24: revoke_and_ack from an endpoint that must have closed); baseline exit 0"},
   detected=["C05 (after strengthening)"]),
 "C09-f": dict(property="C09",
   what="ChainMonitor::watch_channel_internal inserts the MonitorHolder with an empty pending_monitor_updates list instead of the one holding the initial write's id: "
        "completing any later update of the channel makes the ChainMonitor report the channel complete",
   needs="initial persist_new_channel InProgress, a second update handed over while it is in flight (a peer's shutdown without upfront shutdown script), completions out of order (id 1 before id 0)",
   checks={"./check C09 quick (first version)": "MISSED by construction (the observer cleared 'first write in flight' on ANY completion of that channel; no second update before the first completes)",
           "tools/trial.sh s4c09 <patch> + `openshut` family (200 scripts), after id-aware newInfl, the op close_extra and cfg upfront_shutdown=false": "rejected (run 1: channel_ready after `complete id 1` while the first write, id 0, is still in flight); accepted on the unchanged tree",
           "tools/rehearse.sh r4c C09 <patch> quick": "exit 1, 5 VIOLATION lines; baseline exit 0"},
   detected=["C09 (after strengthening)"]),
 "C10-f": dict(property="C10",
   what="impl Writeable for FundedChannel: TLV 10 (monitor_pending_update_adds) is written iff monitor_pending_forwards is non-empty (wrong variable): an inbound HTLC made "
        "irrevocable by a revocation whose monitor update was still in flight when the manager was written is never decoded after the restart",
   needs="asynchronous persistence; manager written while the update of the peer's final revoke_and_ack is in flight; crash and restart from that manager",
   checks={"tools/rehearse.sh r4b C10 <patch> quick (first version)": "exit 0 -- MISSED (the `inflight` family switches to asynchronous persistence only after the HTLCs are irrevocable)",
           "tools/trial.sh s4c10 <patch> + `inflightadd` family (300 scripts: persistence goes asynchronous right before the revocation that commits the inbound HTLCs, manager written there, crash)": "rejected (run 4: an HTLC pending at the crash is still pending at the end of the wound-down run); accepted on the unchanged tree"},
   detected=["C10 (after strengthening)"]),
 "C12-5": dict(property="C12",
   what="impl Writeable for ChannelUpdateStatus: the four arms merged by variant name (Enabled|EnabledStaged -> 0, Disabled|DisabledStaged -> 1) instead of by what was last announced",
   needs="announced channel; peer away (or back) for fewer timer ticks than the staging threshold; manager written in that staged state, re-read; more ticks",
   checks={"./check C12 quick (first version)": "MISSED by construction (BroadcastChannelUpdate was not recorded)",
           "tools/trial.sh s4c12 <patch> + behaviours of GossipStatus.tla (200 scripts)": "rejected (run 4, at a `tick`: the channel has been live / not live for the bound and the network was not told); accepted on the unchanged tree",
           "tools/rehearse.sh r4b C12 <patch> quick": "exit 1, 5 VIOLATION lines; baseline exit 0"},
   detected=["C12 (after strengthening)"]),
 "C07-5": dict(property="C07",
   what="KeysManager::sign_spendable_outputs_psbt: the per-channel signer cache (get_or_insert_with) no longer re-derives the signer when the cached channel_keys_id differs: "
        "one spend_spendable_outputs call over outputs of two channels fails; the funds are never swept (OutputSweeper batches everything)",
   needs="a node with two unilaterally closed channels whose matured StaticPaymentOutput / DelayedPaymentOutput descriptors are swept in one call",
   checks={"./check C07 quick (first version)": "MISSED by construction (one channel per run, one descriptor per call); strengthening delegated (builder onchain5)"},
   detected=[]),
 "C08-5": dict(property="C08",
   what="FundedChannel::do_best_block_updated: the early return that emits splice_locked passes Vec::new() instead of timed_out_htlcs: holding-cell HTLCs timed out by that block are never failed back",
   needs="an HTLC parked in the outbound channel's holding cell (peer not answering) AND a splice of that channel reaching its depth on exactly the block cltv_expiry - LATENCY_GRACE_PERIOD_BLOCKS",
   checks={"./check C08 quick (first version)": "MISSED by construction (nothing else ever happened to a channel on a deadline block); strengthening delegated (builder deadlines5): DeadlinesMC gains coinciding per-block work (splice locking at offsets -1 / 0 / +1 around every deadline block)",
           "tools/rehearse.sh r4c C08 <patch> quick (with the builder's work in progress)": "exit 1, 5 VIOLATION lines; baseline exit 0"},
   detected=["C08 (after strengthening)"]),
 "C06-5": dict(property="C06",
   what="OnchainTxHandler::blocks_disconnected: entry.height > new_best_height became >=: events recorded in the fork-point block itself are treated as reorganised out: "
        "the input the cheater's HTLC-timeout spent in that block goes back into the victim's aggregated justice claim, which can never confirm again",
   needs="aggregated justice claim (to_local + offered HTLC), the cheater's HTLC-timeout confirms one input in block B while the claim is unmined, a reorg whose fork point is exactly B",
   checks={"tools/rehearse.sh r4c C06 <patch> quick": "exit 0 -- MISSED: the unwind schedules reach the violation (JusticeCovers fails in other runs than on the unchanged tree) but the classifier of the known finding split_remainder_abandoned files it under that key (a waiver that is too broad); narrowing delegated (builder onchain5)"},
   detected=[]),
 "C11-5": dict(property="C11",
   what="OnchainTxHandler::update_claims_view_from_matched_txn records the ContentiousOutpoint event at cur_height instead of conf_height",
   needs="aggregated claim of >= 2 outpoints, a counterparty transaction spending part of them delivered through transactions_confirmed BELOW the best block already announced, then a reorg between the two heights",
   checks={"tools/rehearse.sh r4c C11 <patch> quick": "exit 1, 42 VIOLATION lines; baseline exit 0 (5 KNOWN-FINDING lines)"},
   detected=["C11"]),
 "C03-5": dict(property="C03",
   what="ChannelManager::check_free_peer_holding_cells: HTLCs that could not be sent when the holding cell is freed are failed back only if that pass produced a monitor update: "
        "otherwise they are dropped, the payment stays Pending for good",
   needs="an HTLC parked behind an in-flight monitor write that has become unsendable when the write completes (config change, capacity used up meanwhile) while nothing else is released in that pass",
   checks={"./check C03 quick (first version)": "MISSED by construction (payments never met asynchronous persistence); strengthening delegated (builder pay5)"},
   detected=[]),
 "C04-5": dict(property="C04",
   what="check_mpp_timeout: the completeness test became a countdown with checked_sub and == Some(0): a payment whose parts overshoot total_msat counts as incomplete and is failed back with MPPTimeout after it was shown as claimable",
   needs="parts whose onion amounts sum to strictly more than total_msat, left unclaimed for MPP_TIMEOUT_TICKS timer ticks",
   checks={"tools/rehearse.sh r4d C04 <patch> quick": "exit 1, 10 VIOLATION lines; baseline exit 0 (1 KNOWN-FINDING line)"},
   detected=["C04"]),
 "C13-5": dict(property="C13",
   what="msgs.rs, decoders of QueryShortChannelIds and ReplyChannelRange: the `== 0` test moved to the scid byte count: an EMPTY short_channel_ids list (encoding_len = 1) no longer decodes",
   needs="a reply_channel_range / query_short_channel_ids carrying zero scids going through the byte decoder",
   checks={"tools/rehearse.sh r4e C13 <patch> quick": "exit 1, 6 VIOLATION lines (QueryShortChannelIds / ReplyChannelRange size class 0); baseline exit 0"},
   detected=["C13"]),
 "C14-5": dict(property="C14",
   what="FundedChannel::free_holding_cell_htlcs, ClaimHTLC arm: a claim released from the holding cell is sent without the stored attribution data: the sender's hold times are empty / truncated",
   needs="the fulfil reaching a hop whose upstream channel cannot generate a commitment right then (awaiting a revoke_and_ack, monitor write in flight, peer disconnected)",
   checks={"./check C14 quick (first version)": "MISSED by construction (the onion engine has no channels)",
           "tools/trial.sh s4c14 <patch> + random 3-node `default` profile (200 runs), after the PaymentPathSuccessful event records hops / hold_times and ChanTrace.tla states G14": "rejected (run 2: hold_times 0 for a 2-hop path); accepted on the unchanged tree",
           "tools/rehearse.sh r4d C14 <patch> quick": "exit 1, 15 VIOLATION lines; baseline exit 0"},
   detected=["C14 (after strengthening)"]),
 "C15-5": dict(property="C15",
   what="PeerManager::do_attempt_write_data: after send_data the completion test compares data_sent with the whole buffer's length instead of what was still pending, the offset is bumped only in the else-branch: after a short write the finished message is never popped, the queue wedges (later messages neither delivered nor the peer disconnected)",
   needs="a send_data that accepts some but not all bytes it is handed, then the socket drains",
   checks={"tools/rehearse.sh r4g C15 <patch> quick": "exit 1, 5 VIOLATION lines; baseline exit 0"},
   detected=["C15"]),
 "C16-5": dict(property="C16",
   what="router.rs CandidateRouteHop::htlc_minimum_msat, FirstHop arm: the counterparty's static outbound_htlc_minimum_msat instead of the channel's current next_outbound_htlc_minimum_msat",
   needs="a first-hop channel whose current minimum was raised by its dust exposure, a dust-sized amount, another channel that could carry it",
   checks={"tools/rehearse.sh r4h C16 <patch> quick": "exit 1, 10 VIOLATION lines (2336 of 97784 records falsified); baseline exit 0"},
   detected=["C16"]),
 "C17-5": dict(property="C17",
   what="NetworkGraph::remove_stale_channels_and_tracking_with_time: a stale direction 1 clears one_to_two instead of two_to_one",
   needs="a prune while only the second direction's update is stale and the announcement is recent",
   checks={"tools/rehearse.sh r4h C17 <patch> quick": "exit 1, 5 VIOLATION lines; baseline exit 0"},
   detected=["C17"]),
 "C18-5": dict(property="C18",
   what="lightning-invoice ser.rs encode_int_be_base32 writes the value 0 as one symbol while the length computation says 0: an invoice with expiry_time(0) or min_final_cltv_expiry_delta(0) does not parse back",
   needs="an `x` or `c` field with value exactly 0",
   checks={"tools/rehearse.sh r4i C18 <patch> quick": "exit 1, 5 VIOLATION lines; baseline exit 0"},
   detected=["C18"]),
 "C19-5": dict(property="C19",
   what="ChainMonitor::update_channel_internal: when update_monitor refuses an update the persister is handed Some(update) instead of a full monitor write: MonitorUpdatingPersister stores the refused update, recovery replays it and fails",
   needs="incremental persister, a commitment update arriving after the monitor went on chain, its id not a multiple of maximum_pending_updates, restart before the next consolidation",
   checks={"tools/rehearse.sh r4h C19 <patch> quick": "exit 0 -- MISSED (the engine drives MonitorUpdatingPersister directly, never through ChainMonitor, and never with an update the monitor refuses); strengthening delegated (builder kv5): MUP.tla gains the caller's side as ChainMonitor implements it"},
   detected=[]),
 "C20-5": dict(property="C20",
   what="SpvClient::update_chain_tip: on a partially completed sync the client adopts the tip it reached only if it has more work than the old one (was: if it differs): its chain_tip goes stale relative to where the listener was left",
   needs="a reorg whose fetch_block fails before the new branch has overtaken the old tip's work, then a poll whose best tip extends the old branch",
   checks={"tools/rehearse.sh r4f C20 <patch> quick": "exit 1, 5 VIOLATION lines; baseline exit 0"},
   detected=["C20"]),
}


def parse_confirm(path):
    if not os.path.exists(path):
        return None
    txt = open(path).read()
    parts = re.split(r"^== ", txt, flags=re.M)
    out = {}
    for p in parts:
        m = re.search(r"test result: \w+\. (\d+) passed; (\d+) failed", p)
        if not m:
            continue
        r = "%s passed, %s failed" % (m.group(1), m.group(2))
        if p.startswith("demo on clean tree"):
            out["demo_clean"] = r
        elif p.startswith("demo with patch"):
            out["demo_patched"] = r
        elif p.startswith("existing suite"):
            out["existing_suite_patched"] = r
    return out or None


def main():
    cpath = os.path.join(ROOT, "confirmed.json")
    confirmed = json.load(open(cpath)) if os.path.exists(cpath) else {}
    for sid, t in R4.items():
        d = os.path.join(ROOT, sid)
        if not os.path.isdir(d):
            continue
        c = parse_confirm(os.path.join(d, "confirm.log"))
        if c:
            confirmed[sid] = c
        meta = {"property": t["property"], "source": SRC, "what": t["what"], "needs": t["needs"],
                "confirmed_by_me": confirmed.get(sid, "pending"), "checks_run": t["checks"], "detected_by": t["detected"]}
        json.dump(meta, open(os.path.join(d, "meta.json"), "w"), indent=1)
    json.dump(confirmed, open(cpath, "w"), indent=1)


if __name__ == "__main__":
    main()
