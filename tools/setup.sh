#!/bin/bash
# Build the harness engines named in MANIFEST.json (offline). Engines still under construction do not break setup.
cd /verif/harness || exit 2
export CARGO_NET_OFFLINE=true
BINS=$(python3 -c "
import json
m=json.load(open('/verif/MANIFEST.json'))
print(' '.join('--bin '+e['name'] for e in m.get('engines',[])))")
echo "building: $BINS"
cargo build --offline $BINS --bin consts 2>&1 | tail -3
