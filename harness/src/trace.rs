//! NDJSON trace writer.
use serde_json::Value;
use std::fs::File;
use std::io::{BufWriter, Write};

pub struct TraceWriter {
	out: BufWriter<File>,
	pub lines: usize,
}

impl TraceWriter {
	pub fn create(path: &str) -> TraceWriter {
		TraceWriter { out: BufWriter::new(File::create(path).expect("create trace")), lines: 0 }
	}
	pub fn emit(&mut self, v: Value) {
		serde_json::to_writer(&mut self.out, &v).unwrap();
		self.out.write_all(b"\n").unwrap();
		self.lines += 1;
	}
	pub fn flush(&mut self) {
		self.out.flush().unwrap();
	}
}
