//! Engine `router` (C16): builds a real `NetworkGraph` from unsigned channel announcements /
//! channel updates (optionally with a `UtxoLookup` that supplies the funding capacity), optional
//! `ChannelDetails` first hops, BOLT-11 route hints, a `ProbabilisticScorer` in a seeded state
//! (wrapped in `ScorerAccountingForInFlightHtlcs`), calls the real
//! `lightning::routing::router::find_route` and records, per case, the graph *as read back from the
//! NetworkGraph read-only view*, the request and the result as one NDJSON record. The engine does
//! not judge anything: all judging is done by TLC (spec/RouterTrace.tla).
//!
//! usage: router --out TRACE [--cases FILE] [--random N] [--seed S] [--cases-out FILE]
//! (of the N random cases every fifth is a long single path, see `gen_long_case`)
//!
//! Case input (one JSON object per line; -1 = none):
//!   {"n","payer","payee","chans":[{"scid","a","b","cap"(sats),"ab":POL,"ba":POL}],
//!    "fh":{"some":bool,"list":[{"scid","peer","min","limit"}]},
//!    "hints":[[{"src","scid","base","prop","cltv","min","max"}]],
//!    "amt","max_fee","max_cltv","max_paths","max_len","final_cltv","mpp","sat","failed":[scid],
//!    "scorer":{"params":0|1|2,"seed":u64}}
//!   POL = {"has","en","base","prop","cltv","min","max"}   ("ab" = policy of node a for a->b)

use bitcoin::constants::ChainHash;
use bitcoin::secp256k1::{PublicKey, Secp256k1, SecretKey};
use bitcoin::{Amount, Network, TxOut};
use lightning::ln::chan_utils::make_funding_redeemscript;
use lightning::ln::channel_state::{ChannelCounterparty, ChannelDetails, ChannelShutdownState};
use lightning::ln::msgs::{UnsignedChannelAnnouncement, UnsignedChannelUpdate};
use lightning::ln::types::ChannelId;
use lightning::routing::gossip::{NetworkGraph, NodeId, RoutingFees};
use lightning::routing::router::{
	find_route, InFlightHtlcs, Path, PaymentParameters, RouteHint, RouteHintHop, RouteHop,
	RouteParameters, ScorerAccountingForInFlightHtlcs,
};
use lightning::routing::scoring::{
	ProbabilisticScorer, ProbabilisticScoringDecayParameters, ProbabilisticScoringFeeParameters,
	ScoreUpdate,
};
use lightning::routing::utxo::{UtxoLookup, UtxoResult};
use lightning::types::features::{
	Bolt11InvoiceFeatures, ChannelFeatures, InitFeatures, NodeFeatures,
};
use lightning::util::logger::{Logger, Record};
use lightning::util::wakers::Notifier;
use rand::rngs::StdRng;
use rand::{Rng, SeedableRng};
use serde_json::{json, Value};
use std::collections::HashMap;
use std::io::{BufRead, BufReader, Write};
use std::panic::{catch_unwind, AssertUnwindSafe};
use std::sync::Arc;
use std::time::Duration;
use vharness::trace::TraceWriter;

static LAST_PANIC: std::sync::Mutex<(String, Vec<String>)> = std::sync::Mutex::new((String::new(), Vec::new()));

struct NullLogger;
impl Logger for NullLogger {
	fn log(&self, record: Record) {
		if std::env::var("ROUTER_LOG").is_ok() {
			eprintln!("{:?} {}", record.level, record.args);
		}
	}
}

struct FixedUtxo {
	txout: TxOut,
}
impl UtxoLookup for FixedUtxo {
	fn get_utxo(&self, _chain_hash: &ChainHash, _scid: u64, _n: Arc<Notifier>) -> UtxoResult {
		UtxoResult::Sync(Ok(self.txout.clone()))
	}
}

fn node_key(i: usize) -> (SecretKey, PublicKey) {
	let secp = Secp256k1::new();
	let mut b = [0x11u8; 32];
	b[0] = 0x21;
	b[31] = (i as u8).wrapping_mul(37).wrapping_add(5);
	b[30] = i as u8 + 1;
	let sk = SecretKey::from_slice(&b).unwrap();
	let pk = PublicKey::from_secret_key(&secp, &sk);
	(sk, pk)
}

fn gi(v: &Value, k: &str) -> i64 {
	v[k].as_i64().unwrap_or_else(|| panic!("case field {} missing/not int in {}", k, v))
}
fn gb(v: &Value, k: &str) -> bool {
	v[k].as_bool().unwrap_or_else(|| panic!("case field {} missing/not bool in {}", k, v))
}

fn channel_details(
	scid: u64, peer: PublicKey, min: u64, limit: u64, announced: bool,
) -> ChannelDetails {
	#[allow(deprecated)]
	ChannelDetails {
		channel_id: ChannelId::new_zero(),
		counterparty: ChannelCounterparty {
			features: InitFeatures::empty(),
			node_id: peer,
			unspendable_punishment_reserve: 0,
			forwarding_info: None,
			outbound_htlc_minimum_msat: None,
			outbound_htlc_maximum_msat: None,
		},
		funding_txo: None,
		funding_redeem_script: None,
		channel_type: None,
		short_channel_id: Some(scid),
		outbound_scid_alias: None,
		inbound_scid_alias: None,
		channel_value_satoshis: 0,
		user_channel_id: 0,
		outbound_capacity_msat: limit,
		next_outbound_htlc_limit_msat: limit,
		next_outbound_htlc_minimum_msat: min,
		next_splice_out_maximum_sat: limit / 1000,
		inbound_capacity_msat: 42,
		unspendable_punishment_reserve: None,
		confirmations_required: None,
		confirmations: None,
		force_close_spend_delay: None,
		is_outbound: true,
		is_channel_ready: true,
		is_usable: true,
		is_announced: announced,
		inbound_htlc_minimum_msat: None,
		inbound_htlc_maximum_msat: None,
		config: None,
		feerate_sat_per_1000_weight: None,
		channel_shutdown_state: Some(ChannelShutdownState::NotShuttingDown),
		pending_inbound_htlcs: Vec::new(),
		pending_outbound_htlcs: Vec::new(),
		current_dust_exposure_msat: None,
		splice_details: None,
	}
}

/// Runs one case on the real code; returns the trace record (without "run").
fn run_case(case: &Value, seed: u64, idx: usize) -> Value {
	let logger = Arc::new(NullLogger);
	let chain_hash = ChainHash::using_genesis_block(Network::Testnet);
	let graph = Arc::new(NetworkGraph::new(Network::Testnet, Arc::clone(&logger)));

	// node universe: everything any part of the case mentions
	let mut n = gi(case, "n") as usize;
	for h in case["hints"].as_array().unwrap() {
		for hop in h.as_array().unwrap() {
			n = n.max(gi(hop, "src") as usize + 1);
		}
	}
	for f in case["fh"]["list"].as_array().unwrap() {
		n = n.max(gi(f, "peer") as usize + 1);
	}
	let keys: Vec<(SecretKey, PublicKey)> = (0..n).map(node_key).collect();
	let mut idx_of: HashMap<NodeId, usize> = HashMap::new();
	for (i, (_, pk)) in keys.iter().enumerate() {
		idx_of.insert(NodeId::from_pubkey(pk), i);
	}
	let payer = gi(case, "payer") as usize;
	let payee = gi(case, "payee") as usize;

	// ---- the public graph
	let mut gossip_log = Vec::new();
	for ch in case["chans"].as_array().unwrap() {
		let scid = gi(ch, "scid") as u64;
		let (a, b) = (gi(ch, "a") as usize, gi(ch, "b") as usize);
		let (ida, idb) = (NodeId::from_pubkey(&keys[a].1), NodeId::from_pubkey(&keys[b].1));
		let (one, two, pk1, pk2) =
			if ida < idb { (ida, idb, keys[a].1, keys[b].1) } else { (idb, ida, keys[b].1, keys[a].1) };
		let ann = UnsignedChannelAnnouncement {
			features: ChannelFeatures::empty(),
			chain_hash,
			short_channel_id: scid,
			node_id_1: one,
			node_id_2: two,
			bitcoin_key_1: one,
			bitcoin_key_2: two,
			excess_data: Vec::new(),
		};
		let cap = gi(ch, "cap");
		let r = if cap >= 0 {
			let utxo = FixedUtxo {
				txout: TxOut {
					value: Amount::from_sat(cap as u64),
					script_pubkey: make_funding_redeemscript(&pk1, &pk2).to_p2wsh(),
				},
			};
			graph.update_channel_from_unsigned_announcement(&ann, &Some(&utxo))
		} else {
			graph.update_channel_from_unsigned_announcement::<&FixedUtxo>(&ann, &None)
		};
		gossip_log.push(json!({"scid": scid, "ann_ok": r.is_ok()}));
		for (dir, from) in [("ab", a), ("ba", b)] {
			let p = &ch[dir];
			if !gb(p, "has") {
				continue;
			}
			let from_id = NodeId::from_pubkey(&keys[from].1);
			let mut flags: u8 = if from_id == one { 0 } else { 1 };
			if !gb(p, "en") {
				flags |= 2;
			}
			let upd = UnsignedChannelUpdate {
				chain_hash,
				short_channel_id: scid,
				timestamp: 100,
				message_flags: 1,
				channel_flags: flags,
				cltv_expiry_delta: gi(p, "cltv") as u16,
				htlc_minimum_msat: gi(p, "min") as u64,
				htlc_maximum_msat: gi(p, "max") as u64,
				fee_base_msat: gi(p, "base") as u32,
				fee_proportional_millionths: gi(p, "prop") as u32,
				excess_data: Vec::new(),
			};
			let r = graph.update_channel_unsigned(&upd);
			gossip_log.push(json!({"scid": scid, "dir": dir, "upd_ok": r.is_ok()}));
		}
	}

	// ---- first hops
	let fh_some = gb(&case["fh"], "some");
	let mut first_hops: Vec<ChannelDetails> = Vec::new();
	if fh_some {
		for f in case["fh"]["list"].as_array().unwrap() {
			let scid = gi(f, "scid") as u64;
			let announced = graph.read_only().channel(scid).is_some();
			first_hops.push(channel_details(
				scid,
				keys[gi(f, "peer") as usize].1,
				gi(f, "min") as u64,
				gi(f, "limit") as u64,
				announced,
			));
		}
	}
	let first_hop_refs: Vec<&ChannelDetails> = first_hops.iter().collect();

	// ---- request
	let mut hints = Vec::new();
	for h in case["hints"].as_array().unwrap() {
		let mut hops = Vec::new();
		for hop in h.as_array().unwrap() {
			let (mn, mx) = (gi(hop, "min"), gi(hop, "max"));
			hops.push(RouteHintHop {
				src_node_id: keys[gi(hop, "src") as usize].1,
				short_channel_id: gi(hop, "scid") as u64,
				fees: RoutingFees {
					base_msat: gi(hop, "base") as u32,
					proportional_millionths: gi(hop, "prop") as u32,
				},
				cltv_expiry_delta: gi(hop, "cltv") as u16,
				htlc_minimum_msat: if mn >= 0 { Some(mn as u64) } else { None },
				htlc_maximum_msat: if mx >= 0 { Some(mx as u64) } else { None },
			});
		}
		hints.push(RouteHint(hops));
	}
	let final_cltv = gi(case, "final_cltv") as u32;
	let mut pp = PaymentParameters::from_node_id(keys[payee].1, final_cltv)
		.with_route_hints(hints)
		.unwrap()
		.with_max_total_cltv_expiry_delta(gi(case, "max_cltv") as u32)
		.with_max_path_count(gi(case, "max_paths") as u8)
		.with_max_channel_saturation_power_of_half(gi(case, "sat") as u8);
	pp.max_path_length = gi(case, "max_len") as u8;
	pp.previously_failed_channels =
		case["failed"].as_array().unwrap().iter().map(|x| x.as_u64().unwrap()).collect();
	let mpp = gb(case, "mpp");
	if mpp {
		let mut f = Bolt11InvoiceFeatures::empty();
		f.set_variable_length_onion_required();
		f.set_payment_secret_required();
		f.set_basic_mpp_optional();
		pp = pp.with_bolt11_features(f).unwrap();
	}
	let max_fee = gi(case, "max_fee");
	let amt = gi(case, "amt") as u64;
	let route_params = RouteParameters {
		payment_params: pp,
		final_value_msat: amt,
		max_total_routing_fee_msat: if max_fee >= 0 { Some(max_fee as u64) } else { None },
	};

	// ---- the graph as the library sees it (read back), plus the supplied first hops / hints
	let mut edges = Vec::new();
	{
		let ro = graph.read_only();
		let mut scids: Vec<u64> = ro.channels().unordered_keys().cloned().collect();
		scids.sort();
		for scid in scids {
			let ci = ro.channel(scid).unwrap();
			let cap = ci.capacity_sats.map(|c| (c * 1000) as i64).unwrap_or(-1);
			let (i1, i2) = (idx_of[&ci.node_one] as i64, idx_of[&ci.node_two] as i64);
			for (dirinfo, rev, s, d) in
				[(&ci.one_to_two, &ci.two_to_one, i1, i2), (&ci.two_to_one, &ci.one_to_two, i2, i1)]
			{
				if let Some(u) = dirinfo {
					edges.push(json!({"scid": scid, "src": s, "dst": d, "kind": "pub", "en": u.enabled,
						"rev": rev.is_some(),
						"base": u.fees.base_msat, "prop": u.fees.proportional_millionths,
						"cltv": u.cltv_expiry_delta, "min": u.htlc_minimum_msat,
						"hmax": u.htlc_maximum_msat, "cap": cap}));
				}
			}
		}
	}
	for d in first_hops.iter() {
		edges.push(json!({"scid": d.short_channel_id.unwrap(), "src": payer as i64,
			"dst": idx_of[&NodeId::from_pubkey(&d.counterparty.node_id)] as i64, "kind": "first",
			"en": d.is_usable, "rev": true, "base": 0, "prop": 0, "cltv": 0,
			"min": d.next_outbound_htlc_minimum_msat, "hmax": d.next_outbound_htlc_limit_msat, "cap": -1}));
	}
	for h in route_params.payment_params.payee.clone_hints() {
		let hops = &h.0;
		for (k, hop) in hops.iter().enumerate() {
			let dst = if k + 1 < hops.len() {
				idx_of[&NodeId::from_pubkey(&hops[k + 1].src_node_id)]
			} else {
				payee
			};
			edges.push(json!({"scid": hop.short_channel_id,
				"src": idx_of[&NodeId::from_pubkey(&hop.src_node_id)] as i64, "dst": dst as i64,
				"kind": "hint", "en": true, "rev": true, "base": hop.fees.base_msat,
				"prop": hop.fees.proportional_millionths, "cltv": hop.cltv_expiry_delta,
				"min": hop.htlc_minimum_msat.unwrap_or(0),
				"hmax": hop.htlc_maximum_msat.map(|x| x as i64).unwrap_or(-1), "cap": -1}));
		}
	}

	// ---- scorer state
	let sc = &case["scorer"];
	let sc_seed = sc["seed"].as_u64().unwrap_or(0);
	let mut scorer = ProbabilisticScorer::new(
		ProbabilisticScoringDecayParameters::default(),
		Arc::clone(&graph),
		Arc::clone(&logger),
	);
	let mut inflight = InFlightHtlcs::new();
	if sc_seed != 0 {
		let mut r = StdRng::seed_from_u64(sc_seed);
		let pubs: Vec<&Value> =
			edges.iter().filter(|e| e["kind"] == "pub").collect();
		if !pubs.is_empty() {
			for k in 0..r.gen_range(1..7) {
				let e = pubs[r.gen_range(0..pubs.len())];
				let lim = e["hmax"].as_u64().unwrap().max(1);
				let a = match r.gen_range(0..3) {
					0 => r.gen_range(1..=lim.min(4_000_000)),
					1 => amt,
					_ => amt / 2 + 1,
				};
				let path = Path {
					hops: vec![RouteHop {
						pubkey: keys[e["dst"].as_u64().unwrap() as usize].1,
						node_features: NodeFeatures::empty(),
						short_channel_id: e["scid"].as_u64().unwrap(),
						channel_features: ChannelFeatures::empty(),
						fee_msat: a,
						cltv_expiry_delta: 40,
						maybe_announced_channel: true,
					}],
					blinded_tail: None,
				};
				if r.gen_bool(0.6) {
					scorer.payment_path_failed(&path, e["scid"].as_u64().unwrap(), Duration::from_secs(k));
				} else {
					scorer.payment_path_successful(&path, Duration::from_secs(k));
				}
			}
			for _ in 0..r.gen_range(0..4) {
				let e = pubs[r.gen_range(0..pubs.len())];
				let s = NodeId::from_pubkey(&keys[e["src"].as_u64().unwrap() as usize].1);
				let d = NodeId::from_pubkey(&keys[e["dst"].as_u64().unwrap() as usize].1);
				inflight.add_inflight_htlc(&s, &d, e["scid"].as_u64().unwrap(), r.gen_range(1..=amt.max(2)));
			}
		}
	}
	let mut fee_params = ProbabilisticScoringFeeParameters::default();
	match sc["params"].as_u64().unwrap_or(0) {
		1 => {
			fee_params.base_penalty_msat = 0;
			fee_params.base_penalty_amount_multiplier_msat = 0;
			fee_params.anti_probing_penalty_msat = 0;
			fee_params.historical_liquidity_penalty_multiplier_msat = 0;
			fee_params.historical_liquidity_penalty_amount_multiplier_msat = 0;
		},
		2 => {
			fee_params.liquidity_penalty_multiplier_msat = 30_000;
			fee_params.liquidity_penalty_amount_multiplier_msat = 192;
			fee_params.linear_success_probability = true;
		},
		_ => {},
	}
	let scorer_if = ScorerAccountingForInFlightHtlcs::new(&scorer, &inflight);

	let mut seed_bytes = [0u8; 32];
	StdRng::seed_from_u64(seed ^ (idx as u64).wrapping_mul(0x9E37_79B9_7F4A_7C15)).fill(&mut seed_bytes);

	let fh_opt: Option<&[&ChannelDetails]> = if fh_some { Some(&first_hop_refs[..]) } else { None };
	let payer_pk = keys[payer].1;
	let res = catch_unwind(AssertUnwindSafe(|| {
		find_route(&payer_pk, &route_params, &graph, fh_opt, Arc::clone(&logger), &scorer_if, &fee_params, &seed_bytes)
	}));

	let g = json!({"n": n, "payer": payer, "payee": payee, "fh": fh_some, "edges": edges});
	let req = json!({"amt": amt, "max_fee": max_fee, "max_cltv": gi(case, "max_cltv"),
		"max_paths": gi(case, "max_paths"), "max_len": gi(case, "max_len"), "final_cltv": final_cltv,
		"mpp": mpp, "sat": gi(case, "sat"), "failed": case["failed"].clone()});
	match res {
		Err(p) => {
			let msg = p
				.downcast_ref::<String>()
				.cloned()
				.or_else(|| p.downcast_ref::<&str>().map(|s| s.to_string()))
				.unwrap_or_default();
			let (loc, frames) = LAST_PANIC.lock().unwrap().clone();
			json!({"ev": "panic", "g": g, "req": req, "msg": msg, "loc": loc, "frames": frames})
		},
		Ok(Ok(route)) => {
			let mut paths = Vec::new();
			let mut blinded = false;
			for p in route.paths.iter() {
				if p.blinded_tail.is_some() {
					blinded = true;
				}
				let hops: Vec<Value> = p
					.hops
					.iter()
					.map(|h| {
						json!({"node": idx_of.get(&NodeId::from_pubkey(&h.pubkey)).map(|x| *x as i64).unwrap_or(-1),
							"scid": h.short_channel_id, "fee": h.fee_msat, "cltv": h.cltv_expiry_delta})
					})
					.collect();
				paths.push(Value::Array(hops));
			}
			json!({"ev": "case", "g": g, "req": req,
				"res": {"ok": true, "err": "", "blinded": blinded, "paths": paths}, "gossip": gossip_log})
		},
		Ok(Err(e)) => json!({"ev": "case", "g": g, "req": req,
			"res": {"ok": false, "err": e, "blinded": false, "paths": []}, "gossip": gossip_log}),
	}
}

trait CloneHints {
	fn clone_hints(&self) -> Vec<RouteHint>;
}
impl CloneHints for lightning::routing::router::Payee {
	fn clone_hints(&self) -> Vec<RouteHint> {
		match self {
			lightning::routing::router::Payee::Clear { route_hints, .. } => route_hints.clone(),
			_ => Vec::new(),
		}
	}
}

// --------------------------------------------------------------------------- random cases

fn fee_of(amt: u64, base: u64, prop: u64) -> u64 {
	base + amt * prop / 1_000_000
}

fn pick<T: Copy>(r: &mut StdRng, xs: &[T]) -> T {
	xs[r.gen_range(0..xs.len())]
}

fn around(r: &mut StdRng, x: u64) -> u64 {
	match r.gen_range(0..3) {
		0 => x.saturating_sub(1),
		1 => x,
		_ => x + 1,
	}
}

fn gen_policy(r: &mut StdRng, amt: u64, feeclass: u32) -> Value {
	let has = r.gen_bool(0.985);
	let en = r.gen_bool(0.96);
	let fc = if r.gen_bool(0.7) { feeclass } else { r.gen_range(0..3) };
	let (base, prop): (u64, u64) = match fc {
		0 => (0, 0),
		1 => (r.gen_range(0..2000), r.gen_range(0..1000)),
		_ => (pick(r, &[0u64, 1, 50_000, 200_000]), pick(r, &[0u64, 1, 999_999 / 4, 300_000, 100_000])),
	};
	let cltv = pick(r, &[0u64, 6, 18, 40, 40, 72, 144, 400]);
	let min = match r.gen_range(0..22) {
		0 | 1 => 0,
		2..=9 => 1,
		10 => around(r, amt),
		11 => amt * 2,
		12 => amt * 3 + 1,
		13 => r.gen_range(0..=amt),
		14 => amt / 3 + 1,
		_ => 1000,
	};
	let max = match r.gen_range(0..22) {
		0 => around(r, amt),
		1 => around(r, amt) + r.gen_range(0..3000),
		2 => amt / 2 + 1,
		3 => amt * 2,
		4 => amt * 4,
		5 => around(r, amt * 3),
		6 => amt * 12 + 7,
		_ => 1_000_000_000,
	};
	json!({"has": has, "en": en, "base": base, "prop": prop, "cltv": cltv, "min": min, "max": max})
}

fn gen_random_case(r: &mut StdRng) -> Value {
	let n: usize = pick(r, &[2usize, 3, 3, 4, 4, 4, 5, 5, 5, 6, 6]);
	let payer = 0usize;
	let payee = if r.gen_bool(0.003) { 0 } else { r.gen_range(1..n) };
	let amt: u64 = match r.gen_range(0..6) {
		0 => 1,
		1 => r.gen_range(2..2000),
		2 | 3 => r.gen_range(10_000..200_000),
		4 => r.gen_range(500_000..2_000_000),
		_ => pick(r, &[1000u64, 100_000, 1_000_000, 2_000_000]),
	};
	let feeclass = r.gen_range(0..3);
	// topology: a random payer->payee chain through a random subset, plus random extra channels
	let mut pairs: Vec<(usize, usize)> = Vec::new();
	if r.gen_bool(0.93) {
		let mut mids: Vec<usize> = (1..n).filter(|x| *x != payee).collect();
		// shuffle
		for i in (1..mids.len()).rev() {
			let j = r.gen_range(0..=i);
			mids.swap(i, j);
		}
		let take = r.gen_range(0..=mids.len());
		let mut prev = payer;
		for m in mids.iter().take(take) {
			pairs.push((prev, *m));
			prev = *m;
		}
		if prev != payee {
			pairs.push((prev, payee));
		}
	}
	let extra = r.gen_range(0..5);
	for _ in 0..extra {
		let a = r.gen_range(0..n);
		let b = r.gen_range(0..n);
		if a != b {
			pairs.push((a, b));
		}
	}
	// parallel duplicates
	if !pairs.is_empty() && r.gen_bool(0.3) {
		let p = pairs[r.gen_range(0..pairs.len())];
		pairs.push(p);
	}
	pairs.truncate(9);
	let mut chans: Vec<Value> = Vec::new();
	for (k, (a, b)) in pairs.iter().enumerate() {
		let ab = gen_policy(r, amt, feeclass);
		let ba = gen_policy(r, amt, feeclass);
		let mx = ab["max"].as_u64().unwrap().max(ba["max"].as_u64().unwrap());
		let cap: i64 = match r.gen_range(0..6) {
			0..=2 => -1,
			3 => ((mx + 999) / 1000) as i64,
			4 => (mx / 1000) as i64 / 2, // smaller than some htlc_max: that update is rejected by gossip
			_ => 2_000_000,
		};
		chans.push(json!({"scid": k + 1, "a": a, "b": b, "cap": cap.min(2_000_000), "ab": ab, "ba": ba}));
	}
	// first hops
	let mut fh_list = Vec::new();
	let fh_some = r.gen_bool(0.4);
	if fh_some {
		for ch in chans.iter() {
			let (a, b) = (ch["a"].as_u64().unwrap() as usize, ch["b"].as_u64().unwrap() as usize);
			if (a == payer || b == payer) && r.gen_bool(0.9) {
				let peer = if a == payer { b } else { a };
				let limit = match r.gen_range(0..5) {
					0 => around(r, amt),
					1 => around(r, amt) + r.gen_range(0..5000),
					2 => amt / 2,
					_ => 1_000_000_000,
				};
				let min = pick(r, &[0u64, 0, 1, 1, amt, amt + 1, amt * 2]);
				fh_list.push(json!({"scid": ch["scid"], "peer": peer, "min": min, "limit": limit}));
			}
		}
		if r.gen_bool(0.4) {
			let peer = r.gen_range(1..n);
			let near = around(r, amt);
			let limit = pick(r, &[near, amt * 3, 1_000_000_000]);
			fh_list.push(json!({"scid": 500 + fh_list.len(), "peer": peer, "min": pick(r, &[0u64, 1, amt]), "limit": limit}));
		}
	}
	// route hints
	let mut hints = Vec::new();
	if payee != payer && r.gen_bool(0.3) {
		for h in 0..r.gen_range(1..3) {
			let mk = |r: &mut StdRng, src: usize, scid: u64| {
				let p = gen_policy(r, amt, feeclass);
				json!({"src": src, "scid": scid, "base": p["base"], "prop": p["prop"], "cltv": p["cltv"],
					"min": if r.gen_bool(0.5) { -1 } else { p["min"].as_i64().unwrap() },
					"max": if r.gen_bool(0.5) { -1 } else { p["max"].as_i64().unwrap() }})
			};
			let src = {
				let c: Vec<usize> = (0..n).filter(|x| *x != payee).collect();
				c[r.gen_range(0..c.len())]
			};
			if r.gen_bool(0.3) {
				// two-hop hint through a private node that is not in the public graph
				let private = n + h;
				hints.push(json!([mk(r, src, 900 + 2 * h as u64), mk(r, private, 901 + 2 * h as u64)]));
			} else {
				hints.push(json!([mk(r, src, 900 + 2 * h as u64)]));
			}
		}
	}
	let final_cltv = pick(r, &[18u64, 42, 42, 144]);
	let max_cltv = if r.gen_bool(0.7) { 1008 } else { final_cltv + r.gen_range(0..260) };
	let max_fee: i64 = match r.gen_range(0..6) {
		0..=2 => -1,
		3 => (amt / 100 + 50_000) as i64,
		4 => pick(r, &[0i64, 1, 1000]),
		_ => r.gen_range(0..(amt as i64 / 10 + 2)),
	};
	let max_paths = pick(r, &[1u64, 1, 2, 3, 10, 10]);
	let max_len = if r.gen_bool(0.75) { 19 } else { r.gen_range(1..5) };
	// a retry: previously failed channels, drawn from announced channels as well as from the
	// channels only the caller knows (unannounced first hops, route-hint hops)
	let failed = gen_failed(r, &chans, &fh_list, &hints, 0.22);
	let mpp_mode = r.gen_bool(0.35);
	let mut mpp = r.gen_bool(0.6);
	let mut max_paths = max_paths;
	if mpp_mode {
		// make single channels too small for the amount so that several parts are needed, with
		// parallel channels and shared channels in front of / behind them
		mpp = true;
		max_paths = pick(r, &[2u64, 3, 10, 10]);
		let mut extra = Vec::new();
		for ch in chans.iter_mut() {
			for d in ["ab", "ba"] {
				if r.gen_bool(0.6) {
					let k = r.gen_range(3..12) as u64;
					ch[d]["max"] = json!((amt * k / 10).max(1));
					if ch[d]["min"].as_u64().unwrap() > amt / 4 {
						ch[d]["min"] = json!(1);
					}
				}
			}
			ch["cap"] = json!(-1);
			if r.gen_bool(0.4) {
				extra.push(ch.clone());
			}
		}
		for mut e in extra {
			if chans.len() >= 10 {
				break;
			}
			e["scid"] = json!(chans.len() + 1);
			chans.push(e);
		}
	}
	let mut case = json!({"n": n, "payer": payer, "payee": payee, "chans": chans,
		"fh": {"some": fh_some, "list": fh_list}, "hints": hints, "amt": amt, "max_fee": max_fee,
		"max_cltv": max_cltv, "max_paths": max_paths, "max_len": max_len, "final_cltv": final_cltv,
		"mpp": mpp, "sat": pick(r, &[0u64, 1, 2, 2, 2, 3]), "failed": failed,
		"scorer": {"params": r.gen_range(0..3), "seed": if r.gen_bool(0.5) { 0 } else { r.gen_range(1..u32::MAX as u64) }}});
	if !mpp_mode && r.gen_bool(0.55) {
		shape_boundary(r, &mut case);
	}
	case
}

fn gen_failed(r: &mut StdRng, chans: &[Value], fh_list: &[Value], hints: &[Value], p: f64) -> Vec<Value> {
	let mut failed = Vec::new();
	if !r.gen_bool(p) {
		return failed;
	}
	let public: Vec<Value> = chans.iter().map(|c| c["scid"].clone()).collect();
	let mut private: Vec<Value> = Vec::new();
	for f in fh_list.iter() {
		if !public.contains(&f["scid"]) {
			private.push(f["scid"].clone());
		}
	}
	for h in hints.iter() {
		for hop in h.as_array().unwrap() {
			private.push(hop["scid"].clone());
		}
	}
	let all: Vec<Value> = public.iter().chain(private.iter()).cloned().collect();
	if all.is_empty() {
		return failed;
	}
	if !private.is_empty() && r.gen_bool(0.5) {
		failed.push(private[r.gen_range(0..private.len())].clone());
	} else {
		failed.push(all[r.gen_range(0..all.len())].clone());
	}
	if r.gen_bool(0.25) {
		let x = all[r.gen_range(0..all.len())].clone();
		if !failed.contains(&x) {
			failed.push(x);
		}
	}
	failed
}

/// Long single paths (4-6 hops, optionally one parallel channel): every forward hop is usable with
/// random base / proportional fees; one to three hop positions get an htlc_minimum or htlc_maximum
/// at / next to / a multiple of the amount that hop would carry (input shaping as in
/// `shape_boundary`, not an oracle), so that the router's "raise to the htlc_minimum" logic is hit
/// at every hop position with proportional fees on the other hops. The first channel may be an
/// (un)announced first hop, the last one a route-hint hop.
fn gen_long_case(r: &mut StdRng) -> Value {
	let hops: usize = pick(r, &[4usize, 4, 5, 5, 6]);
	let n = hops + 1;
	let payee = hops;
	let amt: u64 = match r.gen_range(0..5) {
		0 => r.gen_range(2..2000),
		1 | 2 => r.gen_range(10_000..200_000),
		3 => r.gen_range(500_000..2_000_000),
		_ => pick(r, &[1000u64, 100_000, 1_000_000, 2_000_000]),
	};
	let feeclass = r.gen_range(0..4);
	let mut fwd: Vec<Value> = Vec::new();
	for _ in 0..hops {
		let fc = if r.gen_bool(0.7) { feeclass } else { r.gen_range(0..4) };
		let (base, prop): (u64, u64) = match fc {
			0 => (0, 0),
			1 => (r.gen_range(0..2000), r.gen_range(0..1000)),
			2 => (0, pick(r, &[1u64, 1000, 100_000, 250_000, 300_000])),
			_ => (pick(r, &[0u64, 1, 1000, 50_000]), pick(r, &[0u64, 100, 10_000, 100_000, 300_000])),
		};
		fwd.push(json!({"has": true, "en": true, "base": base, "prop": prop,
			"cltv": pick(r, &[0u64, 6, 18, 40, 40, 72, 144]), "min": pick(r, &[0u64, 1, 1, 1000]),
			"max": 1_000_000_000u64}));
	}
	// amounts the hops carry for `amt` and for the router's search value 3 * amt
	let needs = |fwd: &Vec<Value>, v: u64| -> Vec<u64> {
		let mut need = vec![0u64; fwd.len()];
		let mut a = v;
		for i in (0..fwd.len()).rev() {
			need[i] = a;
			a += fee_of(a, fwd[i]["base"].as_u64().unwrap(), fwd[i]["prop"].as_u64().unwrap());
		}
		need
	};
	let need1 = needs(&fwd, amt);
	let need3 = needs(&fwd, 3 * amt);
	let nfeat = pick(r, &[1usize, 1, 2, 2, 3]);
	for _ in 0..nfeat {
		let i = r.gen_range(0..hops);
		if r.gen_bool(0.7) {
			let v = match r.gen_range(0..8) {
				0 => around(r, need1[i]),
				1 => 2 * amt,
				2 => 2 * need1[i],
				3 => around(r, need3[i]),
				4 => around(r, 3 * amt),
				5 => r.gen_range(need1[i]..=need3[i]),
				6 => need1[i] + r.gen_range(1..1000),
				_ => r.gen_range(amt..=3 * amt),
			};
			fwd[i]["min"] = json!(v);
		} else {
			let v = match r.gen_range(0..6) {
				0 => around(r, need1[i]),
				1 => need1[i] + r.gen_range(0..3000),
				2 => 2 * need1[i],
				3 => around(r, need3[i]),
				4 => r.gen_range(need1[i]..=need3[i]),
				_ => around(r, 4 * need1[i]),
			};
			fwd[i]["max"] = json!(v.max(1));
		}
	}
	for p in fwd.iter_mut() {
		if p["min"].as_u64().unwrap() > p["max"].as_u64().unwrap() && r.gen_bool(0.8) {
			p["max"] = json!(1_000_000_000u64);
		}
	}
	let mut chans: Vec<Value> = Vec::new();
	for i in 0..hops {
		let ba = gen_policy(r, amt, feeclass.min(2));
		chans.push(json!({"scid": i + 1, "a": i, "b": i + 1, "cap": -1, "ab": fwd[i].clone(), "ba": ba}));
	}
	if r.gen_bool(0.3) {
		// one parallel channel next to a hop of the line
		let i = r.gen_range(0..hops);
		let ab = gen_policy(r, amt, feeclass.min(2));
		let ba = gen_policy(r, amt, feeclass.min(2));
		chans.push(json!({"scid": hops + 1, "a": i, "b": i + 1, "cap": -1, "ab": ab, "ba": ba}));
	}
	// first hops: the payer's channels as ChannelDetails; the line's first channel may be unannounced
	let fh_some = r.gen_bool(0.3);
	let mut fh_list = Vec::new();
	if fh_some {
		let unannounced = r.gen_bool(0.5);
		for ch in chans.iter() {
			if ch["a"] == 0 {
				let near = around(r, need1[0]);
				let limit = pick(r, &[1_000_000_000u64, 1_000_000_000, need1[0], need3[0], near]);
				let scid = if unannounced && ch["scid"] == 1 { json!(701) } else { ch["scid"].clone() };
				fh_list.push(json!({"scid": scid, "peer": 1, "min": pick(r, &[0u64, 0, 1, need1[0]]), "limit": limit.max(1)}));
			}
		}
		if unannounced {
			chans.retain(|c| c["scid"] != 1);
		}
	}
	// the last channel as a route-hint hop instead of an announced channel
	let mut hints = Vec::new();
	if r.gen_bool(0.25) {
		let p = fwd[hops - 1].clone();
		let (mn, mx) = (p["min"].as_i64().unwrap(), p["max"].as_i64().unwrap());
		hints.push(json!([{"src": hops - 1, "scid": 900, "base": p["base"], "prop": p["prop"], "cltv": p["cltv"],
			"min": mn, "max": if mx == 1_000_000_000 { -1 } else { mx }}]));
		chans.retain(|c| c["scid"].as_u64().unwrap() != hops as u64);
	}
	let failed = gen_failed(r, &chans, &fh_list, &hints, 0.08);
	let mpp = r.gen_bool(0.75);
	let max_fee: i64 = match r.gen_range(0..8) {
		0 => (amt / 100 + 50_000) as i64,
		1 => (3 * amt) as i64,
		_ => -1,
	};
	json!({"n": n, "payer": 0, "payee": payee, "chans": chans,
		"fh": {"some": fh_some, "list": fh_list}, "hints": hints, "amt": amt, "max_fee": max_fee,
		"max_cltv": if r.gen_bool(0.85) { 1008 } else { 42 + r.gen_range(0..400) },
		"max_paths": pick(r, &[1u64, 2, 3, 3, 10]),
		"max_len": if r.gen_bool(0.9) { 19 } else { r.gen_range(3..7) }, "final_cltv": pick(r, &[18u64, 42, 42, 144]),
		"mpp": mpp, "sat": pick(r, &[0u64, 1, 2, 2, 2, 3]), "failed": failed,
		"scorer": {"params": r.gen_range(0..3), "seed": if r.gen_bool(0.6) { 0 } else { r.gen_range(1..u32::MAX as u64) }}})
}

/// Input shaping (not an oracle): pick one simple payer->payee walk over the *requested* channels,
/// compute the amounts it would carry and put one limit of one of its channels right at / next to
/// that amount, so that exact-boundary situations occur often.
fn shape_boundary(r: &mut StdRng, case: &mut Value) {
	let n = case["n"].as_u64().unwrap() as usize;
	let payee = case["payee"].as_u64().unwrap() as usize;
	let amt = case["amt"].as_u64().unwrap();
	// random DFS walk
	let chans = case["chans"].as_array().unwrap().clone();
	let mut walk: Vec<(usize, &'static str)> = Vec::new(); // (chan index, dir)
	let mut cur = 0usize;
	let mut seen = vec![false; n + 4];
	seen[0] = true;
	for _ in 0..6 {
		if cur == payee {
			break;
		}
		let mut opts = Vec::new();
		for (k, ch) in chans.iter().enumerate() {
			let (a, b) = (ch["a"].as_u64().unwrap() as usize, ch["b"].as_u64().unwrap() as usize);
			if a == cur && !seen[b] {
				opts.push((k, "ab", b));
			}
			if b == cur && !seen[a] {
				opts.push((k, "ba", a));
			}
		}
		if opts.is_empty() {
			return;
		}
		let (k, d, nx) = opts[r.gen_range(0..opts.len())];
		walk.push((k, d));
		seen[nx] = true;
		cur = nx;
	}
	if cur != payee || walk.is_empty() {
		return;
	}
	// amounts backwards
	let mut need = vec![0u64; walk.len()];
	let mut a = amt;
	for i in (0..walk.len()).rev() {
		need[i] = a;
		let p = &chans[walk[i].0][walk[i].1];
		a += fee_of(a, p["base"].as_u64().unwrap(), p["prop"].as_u64().unwrap());
	}
	let i = r.gen_range(0..walk.len());
	let (k, d) = walk[i];
	let v = around(r, need[i]);
	let pol = &mut case["chans"][k][d];
	pol["has"] = json!(true);
	pol["en"] = json!(true);
	match r.gen_range(0..3) {
		0 => {
			pol["max"] = json!(v.max(1));
			if pol["min"].as_u64().unwrap() > v {
				pol["min"] = json!(1);
			}
		},
		1 => {
			pol["min"] = json!(v);
			if pol["max"].as_u64().unwrap() < v {
				pol["max"] = json!(1_000_000_000u64);
			}
		},
		_ => {
			pol["max"] = json!(v.max(1));
			pol["min"] = json!(pick(r, &[0u64, 1, v]));
		},
	}
	let mx = case["chans"][k]["ab"]["max"].as_u64().unwrap().max(case["chans"][k]["ba"]["max"].as_u64().unwrap());
	if case["chans"][k]["cap"].as_i64().unwrap() >= 0 {
		case["chans"][k]["cap"] = json!((((mx + 999) / 1000) as i64).min(2_000_000));
	}
	if i == 0 && case["fh"]["some"].as_bool().unwrap() {
		let the_scid = case["chans"][k]["scid"].clone();
		for f in case["fh"]["list"].as_array_mut().unwrap() {
			if f["scid"] == the_scid {
				f["limit"] = json!(v.max(1));
			}
		}
	}
}

fn main() {
	let args: Vec<String> = std::env::args().collect();
	let mut cases_path = None;
	let mut out = None;
	let mut cases_out = None;
	let mut nrand = 0usize;
	let mut seed = 1u64;
	let mut i = 1;
	while i < args.len() {
		match args[i].as_str() {
			"--cases" => {
				cases_path = Some(args[i + 1].clone());
				i += 1
			},
			"--out" => {
				out = Some(args[i + 1].clone());
				i += 1
			},
			"--cases-out" => {
				cases_out = Some(args[i + 1].clone());
				i += 1
			},
			"--random" => {
				nrand = args[i + 1].parse().unwrap();
				i += 1
			},
			"--seed" => {
				seed = args[i + 1].parse().unwrap();
				i += 1
			},
			x => panic!("unknown argument {}", x),
		}
		i += 1;
	}
	// record where a panic of the library came from (location + the lightning frames of the
	// backtrace); the record of the panicking case carries it
	std::panic::set_hook(Box::new(|info| {
		let loc = info.location().map(|l| format!("{}:{}", l.file(), l.line())).unwrap_or_default();
		let bt = std::backtrace::Backtrace::force_capture().to_string();
		let mut frames: Vec<String> = Vec::new();
		for ln in bt.lines() {
			let t = ln.trim();
			if let Some(pos) = t.find("lightning::") {
				let f = t[pos..].to_string();
				if !frames.contains(&f) && frames.len() < 6 {
					frames.push(f);
				}
			}
		}
		*LAST_PANIC.lock().unwrap() = (loc, frames);
	}));
	let mut tw = TraceWriter::create(&out.expect("--out"));
	let mut cw = cases_out.map(|p| std::io::BufWriter::new(std::fs::File::create(p).unwrap()));
	let mut cases: Vec<(String, Value)> = Vec::new();
	if let Some(p) = cases_path {
		for (k, ln) in BufReader::new(std::fs::File::open(p).unwrap()).lines().enumerate() {
			let ln = ln.unwrap();
			if ln.trim().is_empty() {
				continue;
			}
			cases.push((format!("tlc{}", k + 1), serde_json::from_str(&ln).expect("case json")));
		}
	}
	let mut rng = StdRng::seed_from_u64(seed);
	let mut rng_long = StdRng::seed_from_u64(seed ^ 0x4C4F_4E47);
	for k in 0..nrand {
		if k % 5 == 4 {
			cases.push((format!("long{}", k + 1), gen_long_case(&mut rng_long)));
		} else {
			cases.push((format!("rand{}", k + 1), gen_random_case(&mut rng)));
		}
	}
	let (mut ok, mut err, mut panics, mut multi_hop, mut multi_path) = (0usize, 0usize, 0usize, 0usize, 0usize);
	for (k, (id, case)) in cases.iter().enumerate() {
		let run = k + 1;
		let mut rec = run_case(case, seed, k);
		rec["run"] = json!(run);
		rec["id"] = json!(id);
		if rec["ev"] == "panic" {
			panics += 1;
		} else if rec["res"]["ok"] == true {
			ok += 1;
			let ps = rec["res"]["paths"].as_array().unwrap();
			if ps.len() > 1 {
				multi_path += 1;
			}
			if ps.iter().any(|p| p.as_array().unwrap().len() > 1) {
				multi_hop += 1;
			}
		} else {
			err += 1;
		}
		tw.emit(rec);
		if let Some(w) = cw.as_mut() {
			let mut c = case.clone();
			c["run"] = json!(run);
			c["id"] = json!(id);
			serde_json::to_writer(&mut *w, &c).unwrap();
			w.write_all(b"\n").unwrap();
		}
	}
	tw.flush();
	if let Some(w) = cw.as_mut() {
		w.flush().unwrap();
	}
	println!(
		"{}",
		json!({"cases": cases.len(), "ok": ok, "err": err, "panics": panics, "multi_hop": multi_hop, "multi_path": multi_path})
	);
}
