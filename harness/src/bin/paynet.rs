//! Engine `paynet`: payment-level driver (C03 outbound payments, C04 inbound payments).
//! Started as a copy of `channet` (real `ChannelManager`s, harness-owned per-direction FIFO message
//! queues, every wire message delivered by its own `handle_*` call) and extended with:
//!   * topologies  line (A-B-..-D), fan (A-{B1..Bk}-D, k=2 is the diamond), fan2 (A-{Bi-Ci}-D),
//!     par (A=D over k parallel channels); all nodes are brought to the same height, the block
//!     connection style is fixed per script
//!   * hand-built routes (`send_payment_with_route`) with per-part path, amount, final CLTV and
//!     `RecipientOnionFields` (payment secret of a chosen registration, optionally bit-flipped,
//!     chosen `total_msat`), keysend and router-driven sends with retries
//!   * inbound registrations (`create_inbound_payment(_for_hash)`), claim / fail at chosen heights
//!   * duplicate PaymentIds, `abandon_payment`, timer ticks, blocks, header-time jumps
//!   * held events (the user handles events only when the script says so), manager snapshots and
//!     restart of a node from a snapshot (`_reload_node`), in sync with the monitors or stale
//!   * `pump` with a barrier node (resolutions are handed to the payer one by one), `deliver_until`
//!   * a user model: claim_funds only in answer to a handled PaymentClaimable (see `claim`)
//!   * restarts from a stale manager snapshot (the monitors are ahead: LDK closes those channels) after
//!     which the run goes on, and a miner (`settle_chain`): every broadcast transaction is mined as soon
//!     as it can confirm, block after block, until every timelock of the run has expired; what a mined
//!     transaction shows (commitment of which channel with which output values; HTLC output of which
//!     payment hash spent with / without the preimage) is recorded as `chain` events
//!   * per-part onion fields (`tlvs`: custom TLVs, `meta`: payment_metadata of the registration, none or a
//!     foreign one), an intercepting last forwarding node that really skims a fee off a part
//!     (`skim`: `forward_intercepted_htlc` with a reduced amount), the `skimmed_fee_msat` TLV of the
//!     update_add_htlc handed to the recipient set to a chosen value in flight (`skim_tlv`; the TLV is not
//!     covered by the commitment signatures), channels with `accept_underpaying_htlcs` (cfg `underpay`),
//!     `claim_funds_with_known_custom_tlvs` (`known`)
//! It only drives the real code and records what a user / the wire can observe (NDJSON).
//!
//! usage: paynet --scripts FILE --out TRACE [--seed S]

use bitcoin::hashes::Hash as _;
use bitcoin::secp256k1::PublicKey;
use lightning::chain::chainmonitor::Persist;
use lightning::chain::channelmonitor::{ChannelMonitor, ChannelMonitorUpdate};
use lightning::chain::ChannelMonitorUpdateStatus;
use lightning::events::{Event, PathFailure, PaymentPurpose};
use lightning::ln::channel_state::InboundHTLCStateDetails;
use lightning::ln::channelmanager::{PaymentId, RecentPaymentDetails};
use lightning::ln::functional_test_utils::*;
use lightning::ln::msgs::{self, BaseMessageHandler, ChannelMessageHandler, ErrorAction, MessageSendEvent};
use lightning::ln::outbound_payment::{RecipientOnionFields, Retry, RetryableSendFailure};
use lightning::ln::types::ChannelId;
use lightning::routing::router::{Path, PaymentParameters, Route, RouteHop, RouteParameters};
use lightning::types::features::{ChannelFeatures, NodeFeatures};
use lightning::types::payment::{PaymentHash, PaymentPreimage, PaymentSecret};
use lightning::util::persist::MonitorName;
use lightning::util::ser::Writeable;
use lightning::util::test_channel_signer::TestChannelSigner;
use lightning::util::test_utils::TestChainMonitor;
use serde_json::{json, Value};
use std::collections::{HashMap, HashSet, VecDeque};
use std::panic::{catch_unwind, AssertUnwindSafe};
use std::sync::atomic::{AtomicU64, Ordering};
use std::sync::{Arc, Mutex};
use vharness::trace::TraceWriter;

type Log = Arc<Mutex<Vec<Value>>>;
static LAST_PANIC: Mutex<String> = Mutex::new(String::new());

// ---------------------------------------------------------------------------------------------
// Persister: counts the monitor updates of its node (a manager snapshot is in sync with the monitors
// iff no update happened since it was taken). Writes complete at once unless the script switched the
// node to asynchronous persistence (`persist_mode`): then a write is reported InProgress and stays in
// flight until the script reports it complete (`complete`: ChainMonitor::channel_monitor_updated).

/// asynchronous persistence: which of the node's next writes are reported InProgress
#[derive(Clone, PartialEq)]
enum Async {
	Off,
	All,
	/// only the writes of these channels
	Only(Vec<ChannelId>),
}

struct CountPersister {
	updates: AtomicU64,
	in_progress: Mutex<Async>,
	/// writes in flight (channel, update id), oldest first
	pending: Mutex<Vec<(ChannelId, u64)>>,
	/// writes reported InProgress that the engine has not logged yet
	fresh: Mutex<Vec<(ChannelId, u64)>>,
}

impl CountPersister {
	fn new() -> Self {
		CountPersister { updates: AtomicU64::new(0), in_progress: Mutex::new(Async::Off), pending: Mutex::new(Vec::new()), fresh: Mutex::new(Vec::new()) }
	}
	fn status(&self, m: &ChannelMonitor<TestChannelSigner>) -> ChannelMonitorUpdateStatus {
		let c = m.channel_id();
		// the documented contract: while a write of a channel is in flight no later write of that channel is
		// reported Completed
		let mode = match &*self.in_progress.lock().unwrap() { Async::Off => false, Async::All => true, Async::Only(v) => v.contains(&c) };
		let inprog = mode || self.pending.lock().unwrap().iter().any(|p| p.0 == c);
		if inprog {
			let id = m.get_latest_update_id();
			// (a write of the whole monitor after a block repeats the latest update id: ChainMonitor keeps one entry)
			if !self.pending.lock().unwrap().contains(&(c, id)) {
				self.pending.lock().unwrap().push((c, id));
				self.fresh.lock().unwrap().push((c, id));
			}
			ChannelMonitorUpdateStatus::InProgress
		} else {
			ChannelMonitorUpdateStatus::Completed
		}
	}
}

impl Persist<TestChannelSigner> for CountPersister {
	fn persist_new_channel(
		&self, _n: MonitorName, m: &ChannelMonitor<TestChannelSigner>,
	) -> ChannelMonitorUpdateStatus {
		self.updates.fetch_add(1, Ordering::SeqCst);
		self.status(m)
	}
	fn update_persisted_channel(
		&self, _n: MonitorName, u: Option<&ChannelMonitorUpdate>, m: &ChannelMonitor<TestChannelSigner>,
	) -> ChannelMonitorUpdateStatus {
		if u.is_some() {
			self.updates.fetch_add(1, Ordering::SeqCst);
		}
		self.status(m)
	}
	fn archive_persisted_channel(&self, _n: MonitorName) {}
}

// ---------------------------------------------------------------------------------------------

#[derive(Clone)]
enum Wire {
	Add(msgs::UpdateAddHTLC),
	Fulfill(msgs::UpdateFulfillHTLC),
	Fail(msgs::UpdateFailHTLC),
	Malformed(msgs::UpdateFailMalformedHTLC),
	Fee(msgs::UpdateFee),
	CS(Vec<msgs::CommitmentSigned>),
	RAA(msgs::RevokeAndACK),
	Reestablish(msgs::ChannelReestablish),
	ChannelReady(msgs::ChannelReady),
	AnnSigs(msgs::AnnouncementSignatures),
	ChanUpdate(msgs::ChannelUpdate),
	Error(msgs::ErrorMessage),
	Warning(msgs::WarningMessage),
}

impl Wire {
	fn kind(&self) -> &'static str {
		match self {
			Wire::Add(_) => "update_add_htlc",
			Wire::Fulfill(_) => "update_fulfill_htlc",
			Wire::Fail(_) => "update_fail_htlc",
			Wire::Malformed(_) => "update_fail_malformed_htlc",
			Wire::Fee(_) => "update_fee",
			Wire::CS(_) => "commitment_signed",
			Wire::RAA(_) => "revoke_and_ack",
			Wire::Reestablish(_) => "channel_reestablish",
			Wire::ChannelReady(_) => "channel_ready",
			Wire::AnnSigs(_) => "announcement_signatures",
			Wire::ChanUpdate(_) => "channel_update",
			Wire::Error(_) => "error",
			Wire::Warning(_) => "warning",
		}
	}
}

struct Reg {
	node: usize,
	hash: PaymentHash,
	preimage: PaymentPreimage,
	secret: Option<PaymentSecret>,
	/// the (encrypted) payment_metadata the registration returned
	meta: Option<Vec<u8>>,
}

/// What the last forwarding node of a part does: it intercepts the HTLC and forwards `onion_amt - skim`
/// over channel `chan`; the `skimmed_fee_msat` of that update_add_htlc is replaced by `tlv` if given.
struct Skim {
	hash: PaymentHash,
	onion_amt: u64,
	skim: u64,
	chan: usize,
	dst: usize,
	tlv: Option<Option<u64>>,
	forwarded: bool,
}

fn tlv_bytes(v: u64) -> Vec<u8> { (v as u32).to_be_bytes().to_vec() }
fn tlv_val(b: &[u8]) -> i64 { if b.len() == 4 { u32::from_be_bytes([b[0], b[1], b[2], b[3]]) as i64 } else { -1 } }
fn meta_bytes(n: u64) -> Vec<u8> { let mut v = vec![0x4d, 0x45, 0x54, 0x41]; v.extend_from_slice(&(n as u32).to_be_bytes()); v }
fn meta_val(b: &Option<Vec<u8>>) -> i64 {
	match b { None => 0, Some(b) if b.len() == 8 && b[..4] == [0x4d, 0x45, 0x54, 0x41] => u32::from_be_bytes([b[4], b[5], b[6], b[7]]) as i64, Some(_) => -1 }
}

struct Chan {
	a: usize,
	b: usize,
	scid: u64,
	cid: ChannelId,
}

struct Net {
	nodes: Vec<Node<'static, 'static, 'static>>,
	cfgs: &'static Vec<TestChanMonCfg>,
	persisters: &'static Vec<CountPersister>,
	queues: HashMap<(usize, usize), VecDeque<Wire>>,
	connected: HashMap<(usize, usize), bool>,
	log: Log,
	chans: Vec<Chan>,
	hashes: Vec<[u8; 32]>,
	regs: HashMap<u64, Reg>,
	hold: Vec<bool>,
	/// manager snapshot, monitor-update counter at that time, and whether none of the node's own HTLCs
	/// waited in a holding cell then (`list_channels` shows such an HTLC without an id)
	saves: Vec<Option<(Vec<u8>, u64, bool)>>,
	last_recent: Vec<Value>,
	run: u64,
	seed: u64,
	time0: u32,
	time: u32,
	executed: usize,
	skipped: usize,
	restarts: usize,
	closed_seen: bool,
	/// (node, hash) pairs for which the node's user has handled a PaymentClaimable it has not answered yet
	claimable_seen: Vec<(usize, usize)>,
	/// claim_deadline of the last PaymentClaimable the node's user handled, per (node, hash)
	deadlines: HashMap<(usize, usize), u32>,
	/// inbound HTLCs (chan, id) of the hash the node held when its user handled the last PaymentClaimable
	shown_htlcs: HashMap<(usize, usize), Vec<(usize, u64)>>,
	/// set after a restart from a snapshot the monitors have overtaken: LDK closes those channels, the
	/// rest of the script (on-chain resolution) is outside this engine
	ended: bool,
	/// payment ids accepted so far; set once an id was accepted a second time
	accepted_ids: Vec<u64>,
	id_reused: bool,
	/// the node's user has handled a PaymentSent since the node's last manager snapshot
	sent_since_save: Vec<bool>,
	/// the miner: broadcast and not yet confirmed transactions, confirmed txids, spent outpoints,
	/// funding txid -> channel, confirmed commitment txid -> channel
	mempool: Vec<bitcoin::Transaction>,
	confirmed: HashSet<bitcoin::Txid>,
	seen_txids: HashSet<bitcoin::Txid>,
	spent: HashSet<bitcoin::OutPoint>,
	funding: Vec<(bitcoin::Txid, usize)>,
	commit_chan: HashMap<bitcoin::Txid, usize>,
	/// the largest cltv_expiry of any HTLC offered in the run
	max_cltv: u32,
	/// the chain has settled and nothing was done since
	settled: bool,
	mined_any: bool,
	/// plans of the intercepting nodes / in-flight `skimmed_fee_msat` values
	skims: Vec<Skim>,
}

fn is_resolution(k: &str) -> bool {
	k == "update_fulfill_htlc" || k == "update_fail_htlc" || k == "update_fail_malformed_htlc"
}

fn kind_matches(want: &str, k: &str) -> bool {
	want == k || (want == "update_fail_htlc" && k == "update_fail_malformed_htlc") || (want == "resolution" && is_resolution(k))
}

fn leak<T>(t: T) -> &'static T {
	Box::leak(Box::new(t))
}

fn pid_of(i: u64) -> PaymentId {
	let mut b = [0x70u8; 32];
	b[0] = i as u8;
	b[1] = (i >> 8) as u8;
	PaymentId(b)
}

fn pid_index(p: &PaymentId) -> i64 {
	if p.0[2..].iter().all(|x| *x == 0x70) {
		p.0[0] as i64 + ((p.0[1] as i64) << 8)
	} else {
		-1
	}
}

impl Net {
	fn ev(&self, v: Value) {
		self.log.lock().unwrap().push(v);
	}
	fn idx_of(&self, pk: &PublicKey) -> usize {
		self.nodes.iter().position(|n| n.node.get_our_node_id() == *pk).expect("unknown peer")
	}
	fn chan(&self, c: &ChannelId) -> usize {
		self.chans.iter().position(|x| x.cid == *c).map(|p| p + 1).unwrap_or(0)
	}
	fn chan_of_scid(&self, s: u64) -> i64 {
		self.chans.iter().position(|x| x.scid == s).map(|p| p as i64 + 1).unwrap_or(-1)
	}
	fn hash(&mut self, h: &[u8; 32]) -> usize {
		if let Some(p) = self.hashes.iter().position(|x| x == h) {
			return p + 1;
		}
		self.hashes.push(*h);
		self.hashes.len()
	}
	fn height(&self) -> u32 {
		self.nodes[0].best_block_info().1
	}
	fn key(a: usize, b: usize) -> (usize, usize) {
		(a.min(b), a.max(b))
	}

	fn describe(&mut self, w: &Wire) -> Option<Value> {
		match w {
			Wire::Add(m) => { if m.cltv_expiry > self.max_cltv { self.max_cltv = m.cltv_expiry; } Some(json!({"kind":"update_add_htlc","chan":self.chan(&m.channel_id),"id":m.htlc_id,"amt":m.amount_msat,"hash":self.hash(&m.payment_hash.0),"cltv":m.cltv_expiry,"skim":m.skimmed_fee_msat.unwrap_or(0)})) },
			Wire::Fulfill(m) => {
				let h = bitcoin::hashes::sha256::Hash::hash(&m.payment_preimage.0).to_byte_array();
				Some(json!({"kind":"update_fulfill_htlc","chan":self.chan(&m.channel_id),"id":m.htlc_id,"amt":0,"hash":self.hash(&h),"cltv":0,"skim":0}))
			},
			Wire::Fail(m) => Some(json!({"kind":"update_fail_htlc","chan":self.chan(&m.channel_id),"id":m.htlc_id,"amt":0,"hash":0,"cltv":0,"skim":0})),
			Wire::Malformed(m) => Some(json!({"kind":"update_fail_htlc","chan":self.chan(&m.channel_id),"id":m.htlc_id,"amt":0,"hash":0,"cltv":0,"skim":0})),
			Wire::Error(m) => Some(json!({"kind":"error","chan":self.chan(&m.channel_id),"id":0,"amt":0,"hash":0,"cltv":0,"skim":0,"data":m.data})),
			_ => None,
		}
	}

	fn enqueue(&mut self, from: usize, to_pk: &PublicKey, w: Wire) {
		let to = self.idx_of(to_pk);
		// the previous hop of a final HTLC reports the skimmed fee the script chose (every transmission alike)
		let w = match w {
			Wire::Add(mut m) => {
				let c = self.chan(&m.channel_id);
				if let Some(p) = self.skims.iter().find(|p| p.tlv.is_some() && p.dst == to && p.chan == c && p.hash == m.payment_hash && p.onion_amt - p.skim == m.amount_msat) {
					m.skimmed_fee_msat = p.tlv.unwrap();
				}
				Wire::Add(m)
			},
			w => w,
		};
		if let Some(mut d) = self.describe(&w) {
			d["ev"] = json!("msg");
			d["from"] = json!(from);
			d["to"] = json!(to);
			self.ev(d);
		}
		if !*self.connected.get(&Self::key(from, to)).unwrap_or(&false) {
			return; // the transport is gone: the message is lost
		}
		self.queues.entry((from, to)).or_default().push_back(w);
	}

	/// Drain what the nodes produced: outbound messages (queued on the links) and, unless held,
	/// events.
	fn drain(&mut self) {
		// handling an event may release held monitor updates and thereby messages: repeat
		for _ in 0..8 {
			if !self.drain_once() { break; }
		}
		self.log_fresh();
	}

	/// Monitor writes that were reported InProgress since the last call (what the node's user knows: its own
	/// persister returned InProgress and it has not called channel_monitor_updated yet).
	fn log_fresh(&mut self) {
		for i in 0..self.nodes.len() {
			let fresh: Vec<(ChannelId, u64)> = self.persisters[i].fresh.lock().unwrap().drain(..).collect();
			for (cid, id) in fresh {
				let c = self.chan(&cid);
				self.ev(json!({"ev":"persist","node":i,"chan":c,"id":id,"status":"inprogress"}));
			}
		}
	}

	/// The user reports writes of node `i` complete: "all" (until none is left), "oldest" or "newest", optionally
	/// only those of channel `only`.
	fn complete_writes(&mut self, i: usize, which: &str, only: Option<usize>) -> bool {
		self.log_fresh();
		let mut any = false;
		for _ in 0..64 {
			let pend: Vec<(ChannelId, u64)> = self.persisters[i].pending.lock().unwrap().clone();
			let cand: Vec<(ChannelId, u64)> = pend.iter().filter(|x| only.map_or(true, |c| self.chan(&x.0) == c)).cloned().collect();
			if cand.is_empty() { break; }
			let pick: Vec<(ChannelId, u64)> = match which { "all" => cand.clone(), "newest" => vec![cand[cand.len() - 1]], _ => vec![cand[0]] };
			for (cid, id) in pick {
				// (completing one write may release held updates, which add to the list)
				let mut p = self.persisters[i].pending.lock().unwrap();
				if let Some(k) = p.iter().position(|x| *x == (cid, id)) { p.remove(k); } else { continue; }
				drop(p);
				let c = self.chan(&cid);
				self.ev(json!({"ev":"complete","node":i,"chan":c,"id":id}));
				let _ = self.nodes[i].chain_monitor.chain_monitor.channel_monitor_updated(cid, id);
				self.drain();
				any = true;
			}
			if which != "all" { break; }
		}
		any
	}

	/// Every node goes back to synchronous persistence and reports every write in flight complete.
	fn complete_everything(&mut self) -> bool {
		let mut any = false;
		for i in 0..self.nodes.len() {
			*self.persisters[i].in_progress.lock().unwrap() = Async::Off;
			if self.complete_writes(i, "all", None) { any = true; }
		}
		any
	}

	fn writes_in_flight(&self) -> usize {
		self.persisters.iter().map(|p| p.pending.lock().unwrap().len()).sum()
	}

	fn drain_once(&mut self) -> bool {
		self.log_fresh();
		let mut handled = 0;
		let mut want_disc: Vec<(usize, usize)> = Vec::new();
		for i in 0..self.nodes.len() {
			let evs = self.nodes[i].node.get_and_clear_pending_msg_events();
			for e in evs {
				match e {
					MessageSendEvent::UpdateHTLCs { node_id, updates, .. } => {
						for m in updates.update_add_htlcs { self.enqueue(i, &node_id, Wire::Add(m)); }
						for m in updates.update_fulfill_htlcs { self.enqueue(i, &node_id, Wire::Fulfill(m)); }
						for m in updates.update_fail_htlcs { self.enqueue(i, &node_id, Wire::Fail(m)); }
						for m in updates.update_fail_malformed_htlcs { self.enqueue(i, &node_id, Wire::Malformed(m)); }
						if let Some(m) = updates.update_fee { self.enqueue(i, &node_id, Wire::Fee(m)); }
						if !updates.commitment_signed.is_empty() {
							self.enqueue(i, &node_id, Wire::CS(updates.commitment_signed));
						}
					},
					MessageSendEvent::SendRevokeAndACK { node_id, msg } => self.enqueue(i, &node_id, Wire::RAA(msg)),
					MessageSendEvent::SendChannelReestablish { node_id, msg } => self.enqueue(i, &node_id, Wire::Reestablish(msg)),
					MessageSendEvent::SendChannelReady { node_id, msg } => self.enqueue(i, &node_id, Wire::ChannelReady(msg)),
					MessageSendEvent::SendAnnouncementSignatures { node_id, msg } => self.enqueue(i, &node_id, Wire::AnnSigs(msg)),
					MessageSendEvent::SendChannelUpdate { node_id, msg } => self.enqueue(i, &node_id, Wire::ChanUpdate(msg)),
					MessageSendEvent::HandleError { node_id, action } => match action {
						ErrorAction::SendErrorMessage { msg } => self.enqueue(i, &node_id, Wire::Error(msg)),
						ErrorAction::DisconnectPeer { msg: Some(msg) } => self.enqueue(i, &node_id, Wire::Error(msg)),
						ErrorAction::DisconnectPeerWithWarning { msg } => {
							self.enqueue(i, &node_id, Wire::Warning(msg));
							let to = self.idx_of(&node_id);
							want_disc.push(Self::key(i, to));
						},
						ErrorAction::SendWarningMessage { msg, .. } => self.enqueue(i, &node_id, Wire::Warning(msg)),
						ErrorAction::DisconnectPeer { msg: None } => {
							let to = self.idx_of(&node_id);
							want_disc.push(Self::key(i, to));
						},
						_ => {},
					},
					_ => {},
				}
			}
			if !self.hold[i] {
				handled += self.fetch_events(i);
				// events of the monitors (spendable outputs)
				use lightning::events::EventsProvider;
				let got = std::cell::RefCell::new(Vec::new());
				self.nodes[i].chain_monitor.chain_monitor.process_pending_events(&|e: Event| { got.borrow_mut().push(e); Ok(()) });
				for e in got.into_inner() { self.log_event(i, e); }
			}
			let txs: Vec<_> = self.nodes[i].tx_broadcaster.txn_broadcasted.lock().unwrap().drain(..).collect();
			self.nodes[i].tx_broadcaster.txn_types.lock().unwrap().clear();
			if !txs.is_empty() {
				self.closed_seen = true;
				// (rebroadcasts of a known transaction are not recorded again)
				let mut fresh = 0;
				for tx in txs {
					let txid = tx.compute_txid();
					if !self.seen_txids.insert(txid) { continue; }
					fresh += 1;
					if !self.confirmed.contains(&txid) && !tx.input.iter().any(|x| self.spent.contains(&x.previous_output)) { self.mempool.push(tx); }
				}
				if fresh > 0 { self.ev(json!({"ev":"broadcast","node":i,"n":fresh})); }
			}
		}
		want_disc.sort();
		want_disc.dedup();
		let disc = !want_disc.is_empty();
		for (a, b) in want_disc {
			self.do_disconnect(a, b);
		}
		handled > 0 || disc
	}

	/// Mine one block with every broadcast transaction that can confirm now (parents confirmed in an
	/// earlier block, inputs unspent, height locktime reached) and hand it to every node. What each mined
	/// transaction shows to anyone reading the chain is recorded: a spend of a funding output is a
	/// commitment transaction of that channel (with its output values); a spend of a commitment output
	/// whose witness script commits to a payment hash of the run is the resolution of that HTLC, with
	/// the preimage in the witness (a claim) or without (a timeout).
	fn mine_block(&mut self, log_empty: bool) {
		let n = self.nodes.len();
		let h0 = self.nodes[0].best_block_info().1;
		if (1..n).any(|i| self.nodes[i].best_block_info().1 != h0) { self.ev(json!({"ev":"mine_skipped"})); return; }
		let newh = h0 + 1;
		let mut txs: Vec<bitcoin::Transaction> = Vec::new();
		let mut in_block: HashSet<bitcoin::Txid> = HashSet::new();
		let pool_ids: HashSet<bitcoin::Txid> = self.mempool.iter().map(|m| m.compute_txid()).collect();
		let mut taken: Vec<usize> = Vec::new();
		for (k, tx) in self.mempool.iter().enumerate() {
			let parents_ok = tx.input.iter().all(|i| {
				let p = i.previous_output.txid;
				!in_block.contains(&p) && (!pool_ids.contains(&p) || self.confirmed.contains(&p))
			});
			if !parents_ok { continue; }
			if tx.input.iter().any(|i| self.spent.contains(&i.previous_output)) { continue; }
			if tx.lock_time.is_block_height() && tx.lock_time.to_consensus_u32() >= newh { continue; }
			for i in tx.input.iter() { self.spent.insert(i.previous_output); }
			in_block.insert(tx.compute_txid());
			txs.push(tx.clone());
			taken.push(k);
		}
		for t in in_block.iter() { self.confirmed.insert(*t); }
		let spent = self.spent.clone();
		let mut k = 0;
		self.mempool.retain(|m| { let keep = !taken.contains(&k) && !m.input.iter().any(|i| spent.contains(&i.previous_output)); k += 1; keep });
		for i in 0..n {
			let block = create_dummy_block(self.nodes[i].best_block_hash(), self.time, txs.clone());
			connect_block(&self.nodes[i], &block);
		}
		if !txs.is_empty() || log_empty {
			self.ev(json!({"ev":"block","n":1,"height":self.height(),"time":(self.time - self.time0),"mined":txs.len()}));
		}
		if !txs.is_empty() { self.mined_any = true; }
		let ripe: Vec<[u8; 20]> = self.hashes.iter().map(|h| bitcoin::hashes::ripemd160::Hash::hash(h).to_byte_array()).collect();
		for tx in txs.iter() {
			if let Some(c) = tx.input.iter().find_map(|i| self.funding.iter().find(|f| f.0 == i.previous_output.txid).map(|f| f.1)) {
				self.commit_chan.insert(tx.compute_txid(), c);
				let outs: Vec<u64> = tx.output.iter().map(|o| o.value.to_sat()).collect();
				self.ev(json!({"ev":"chain","what":"commitment","chan":c,"outs":outs,"hash":0,"preimage":false}));
				continue;
			}
			for inp in tx.input.iter() {
				let c = match self.commit_chan.get(&inp.previous_output.txid) { Some(c) => *c, None => continue };
				let script: &[u8] = match inp.witness.last() { Some(s) => s, None => continue };
				let h = match ripe.iter().position(|r| script.windows(20).any(|w| w == r)) { Some(p) => p + 1, None => continue };
				let pre = inp.witness.iter().any(|e| e.len() == 32
					&& bitcoin::hashes::sha256::Hash::hash(e).to_byte_array() == self.hashes[h - 1]);
				self.ev(json!({"ev":"chain","what":"htlc","chan":c,"outs":[],"hash":h,"preimage":pre}));
			}
		}
		self.drain();
	}

	/// Everything that was broadcast is mined at once, block after block, until every timelock of the
	/// run has expired; the users handle their events, all links are up, messages flow in between.
	fn settle_chain(&mut self) {
		let n = self.nodes.len();
		for i in 0..n { self.hold[i] = false; }
		self.complete_everything();
		for a in 0..n { for b in a + 1..n { if self.connected.contains_key(&(a, b)) { self.do_reconnect(a, b); } } }
		let links = self.all_links();
		self.drain();
		self.pump(&links, None);
		self.complete_everything();
		self.ev(json!({"ev":"settle_chain","height":self.height()}));
		let rounds = self.max_cltv.saturating_sub(self.height()) + 40;
		let mut idle_rounds = 0;
		for r in 0..rounds + 400 {
			let before = self.log.lock().unwrap().len();
			self.mine_block(false);
			self.complete_everything();
			self.pump(&links, None);
			let quiet = self.log.lock().unwrap().len() == before;
			if quiet { idle_rounds += 1; } else { idle_rounds = 0; }
			// past every timelock of the run: stop once nothing has moved for a while
			if r >= rounds && idle_rounds >= 20 { break; }
		}
		self.ev(json!({"ev":"settled","height":self.height(),"mempool":self.mempool.len()}));
		self.settled = true;
	}

	fn fetch_events(&mut self, i: usize) -> usize {
		let events = self.nodes[i].node.get_and_clear_pending_events();
		let n = events.len();
		for e in events {
			self.log_event(i, e);
		}
		n
	}

	fn do_disconnect(&mut self, a: usize, b: usize) -> bool {
		if !*self.connected.get(&Self::key(a, b)).unwrap_or(&false) { return false; }
		self.connected.insert(Self::key(a, b), false);
		self.ev(json!({"ev":"disconnect","a":a,"b":b}));
		self.queues.remove(&(a, b));
		self.queues.remove(&(b, a));
		let (pa, pb) = (self.nodes[a].node.get_our_node_id(), self.nodes[b].node.get_our_node_id());
		self.nodes[a].node.peer_disconnected(pb);
		self.nodes[b].node.peer_disconnected(pa);
		self.drain();
		true
	}

	fn do_reconnect(&mut self, a: usize, b: usize) -> bool {
		if *self.connected.get(&Self::key(a, b)).unwrap_or(&true) { return false; }
		self.connected.insert(Self::key(a, b), true);
		self.ev(json!({"ev":"reconnect","a":a,"b":b}));
		let (pa, pb) = (self.nodes[a].node.get_our_node_id(), self.nodes[b].node.get_our_node_id());
		let init_b = msgs::Init { features: self.nodes[b].node.init_features(), networks: None, remote_network_address: None };
		let init_a = msgs::Init { features: self.nodes[a].node.init_features(), networks: None, remote_network_address: None };
		self.nodes[a].node.peer_connected(pb, &init_b, true).unwrap();
		self.nodes[b].node.peer_connected(pa, &init_a, false).unwrap();
		self.drain();
		true
	}

	fn path_chans(&self, p: &Path) -> Vec<i64> {
		p.hops.iter().map(|h| self.chan_of_scid(h.short_channel_id)).collect()
	}

	fn log_event(&mut self, i: usize, e: Event) {
		match e {
			Event::HTLCIntercepted { intercept_id, payment_hash, expected_outbound_amount_msat, inbound_amount_msat, .. } => {
				let h = self.hash(&payment_hash.0);
				// the node's user forwards it as the script planned: over the real channel, less the skimmed fee
				let plan = self.skims.iter().position(|p| !p.forwarded && p.hash == payment_hash && p.onion_amt == expected_outbound_amount_msat
					&& (self.chans[p.chan - 1].a == i || self.chans[p.chan - 1].b == i));
				let mut res = "noplan";
				let mut fwd = 0;
				if let Some(k) = plan {
					self.skims[k].forwarded = true;
					let (cid, dst, amt) = (self.chans[self.skims[k].chan - 1].cid, self.skims[k].dst, expected_outbound_amount_msat - self.skims[k].skim);
					let dst_pk = self.nodes[dst].node.get_our_node_id();
					fwd = amt;
					res = match self.nodes[i].node.forward_intercepted_htlc(intercept_id, &cid, dst_pk, amt) { Ok(()) => "ok", Err(_) => "err" };
					if res == "err" { let _ = self.nodes[i].node.fail_intercepted_htlc(intercept_id); }
				} else {
					let _ = self.nodes[i].node.fail_intercepted_htlc(intercept_id);
				}
				self.ev(json!({"ev":"event","node":i,"kind":"HTLCIntercepted","hash":h,"inbound":inbound_amount_msat,"expected":expected_outbound_amount_msat,"forwarded":fwd,"res":res}));
			},
			Event::PaymentClaimable { payment_hash, amount_msat, counterparty_skimmed_fee_msat, claim_deadline, purpose, receiving_channel_ids, onion_fields, .. } => {
				let h = self.hash(&payment_hash.0);
				let via: Vec<usize> = receiving_channel_ids.iter().map(|(c, _)| self.chan(c)).collect();
				let spont = matches!(purpose, PaymentPurpose::SpontaneousPayment(_));
				let total = onion_fields.as_ref().map(|f| f.total_mpp_amount_msat as i64).unwrap_or(-1);
				let tlvs: Vec<Value> = onion_fields.as_ref().map(|f| f.custom_tlvs().iter().map(|(t, v)| json!([t, tlv_val(v)])).collect()).unwrap_or_default();
				let meta = onion_fields.as_ref().map(|f| meta_val(&f.payment_metadata)).unwrap_or(0);
				if !self.claimable_seen.contains(&(i, h)) { self.claimable_seen.push((i, h)); }
				if let Some(d) = claim_deadline { self.deadlines.insert((i, h), d); }
				let held = self.inbound_of_hash(i, &payment_hash);
				self.shown_htlcs.insert((i, h), held);
				self.ev(json!({"ev":"event","node":i,"kind":"PaymentClaimable","hash":h,"amt":amount_msat,
					"deadline":claim_deadline.map(|d| d as i64).unwrap_or(-1),"via":via,"spont":spont,"total":total,"height":self.height(),
					"skimmed":counterparty_skimmed_fee_msat,"tlvs":tlvs,"meta":meta}));
			},
			Event::PaymentClaimed { payment_hash, amount_msat, htlcs, .. } => {
				let h = self.hash(&payment_hash.0);
				let hs: Vec<Value> = htlcs.iter().map(|x| json!({"chan": self.chan(&x.channel_id), "amt": x.value_msat, "cltv": x.cltv_expiry})).collect();
				self.ev(json!({"ev":"event","node":i,"kind":"PaymentClaimed","hash":h,"amt":amount_msat,"htlcs":hs}));
			},
			Event::PaymentSent { payment_id, payment_hash, payment_preimage, fee_paid_msat, amount_msat, .. } => {
				let h = self.hash(&payment_hash.0);
				let ph = bitcoin::hashes::sha256::Hash::hash(&payment_preimage.0).to_byte_array();
				self.sent_since_save[i] = true;
				self.ev(json!({"ev":"event","node":i,"kind":"PaymentSent","pid":payment_id.map(|p| pid_index(&p)).unwrap_or(-1),"hash":h,
					"preimage_ok": ph == payment_hash.0,"fee":fee_paid_msat.map(|f| f as i64).unwrap_or(-1),"amt":amount_msat.map(|f| f as i64).unwrap_or(-1)}));
			},
			Event::PaymentFailed { payment_id, payment_hash, reason } => {
				let h = payment_hash.map(|p| self.hash(&p.0)).unwrap_or(0);
				let r: String = format!("{:?}", reason).chars().filter(|c| c.is_alphanumeric()).collect();
				// what the node's own channels list at this moment (ChannelDetails::pending_outbound_htlcs): HTLCs of
				// that payment hash the node still offers or is about to offer (`cell`: without an id yet, i.e. waiting
				// in a holding cell)
				let (mut pend, mut cell) = (0, 0);
				if let Some(ph) = payment_hash {
					for cd in self.nodes[i].node.list_channels() {
						for o in cd.pending_outbound_htlcs.iter() {
							if o.payment_hash == ph { pend += 1; if o.htlc_id.is_none() { cell += 1; } }
						}
					}
				}
				self.ev(json!({"ev":"event","node":i,"kind":"PaymentFailed","pid":pid_index(&payment_id),"hash":h,"reason":r,"pend":pend,"cell":cell}));
			},
			Event::PaymentPathFailed { payment_id, payment_hash, payment_failed_permanently, short_channel_id, path, failure, .. } => {
				let h = self.hash(&payment_hash.0);
				let blamed = match short_channel_id { None => 0, Some(s) => self.chan_of_scid(s) };
				let initial = matches!(failure, PathFailure::InitialSend { .. });
				let pc = self.path_chans(&path);
				self.ev(json!({"ev":"event","node":i,"kind":"PaymentPathFailed","pid":payment_id.map(|p| pid_index(&p)).unwrap_or(-1),"hash":h,
					"permanent":payment_failed_permanently,"blamed":blamed,"initial":initial,"path":pc}));
			},
			Event::PaymentPathSuccessful { payment_id, payment_hash, path, .. } => {
				let h = payment_hash.map(|p| self.hash(&p.0)).unwrap_or(0);
				let pc = self.path_chans(&path);
				self.ev(json!({"ev":"event","node":i,"kind":"PaymentPathSuccessful","pid":pid_index(&payment_id),"hash":h,"path":pc}));
			},
			Event::PaymentForwarded { total_fee_earned_msat, .. } => {
				self.ev(json!({"ev":"event","node":i,"kind":"PaymentForwarded","fee":total_fee_earned_msat.unwrap_or(0)}));
			},
			Event::HTLCHandlingFailed { failure_type, .. } => {
				let t: String = format!("{:?}", failure_type).chars().take_while(|c| c.is_alphanumeric()).collect();
				self.ev(json!({"ev":"event","node":i,"kind":"HTLCHandlingFailed","type":t}));
			},
			Event::ChannelClosed { channel_id, reason, .. } => {
				let c = self.chan(&channel_id);
				self.closed_seen = true;
				let r: String = format!("{:?}", reason).chars().take_while(|c| c.is_alphanumeric()).collect();
				self.ev(json!({"ev":"event","node":i,"kind":"ChannelClosed","chan":c,"reason":r}));
			},
			other => {
				let t: String = format!("{:?}", other).chars().take_while(|c| c.is_alphanumeric()).collect();
				self.ev(json!({"ev":"event","node":i,"kind":t}));
			},
		}
	}

	fn deliver_one(&mut self, from: usize, to: usize) -> Option<&'static str> {
		let w = self.queues.get_mut(&(from, to)).and_then(|q| q.pop_front())?;
		let kind = w.kind();
		if let Some(mut d) = self.describe(&w) {
			d["ev"] = json!("deliver");
			d["from"] = json!(from);
			d["to"] = json!(to);
			self.ev(d);
		}
		let from_pk = self.nodes[from].node.get_our_node_id();
		let n = &self.nodes[to].node;
		match w {
			Wire::Add(m) => n.handle_update_add_htlc(from_pk, &m),
			Wire::Fulfill(m) => n.handle_update_fulfill_htlc(from_pk, m),
			Wire::Fail(m) => n.handle_update_fail_htlc(from_pk, &m),
			Wire::Malformed(m) => n.handle_update_fail_malformed_htlc(from_pk, &m),
			Wire::Fee(m) => n.handle_update_fee(from_pk, &m),
			Wire::CS(m) => {
				if m.len() == 1 { n.handle_commitment_signed(from_pk, &m[0]) } else { n.handle_commitment_signed_batch_test(from_pk, &m) }
			},
			Wire::RAA(m) => n.handle_revoke_and_ack(from_pk, &m),
			Wire::Reestablish(m) => n.handle_channel_reestablish(from_pk, &m),
			Wire::ChannelReady(m) => n.handle_channel_ready(from_pk, &m),
			Wire::AnnSigs(m) => n.handle_announcement_signatures(from_pk, &m),
			Wire::ChanUpdate(m) => n.handle_channel_update(from_pk, &m),
			Wire::Error(m) => n.handle_error(from_pk, &m),
			Wire::Warning(_) => {},
		}
		self.drain();
		Some(kind)
	}

	/// What a user can see of its inbound HTLCs: those in state `Committed` are the ones the next
	/// `process_pending_htlc_forwards` may act on.
	fn inbound_of_hash(&self, i: usize, hash: &PaymentHash) -> Vec<(usize, u64)> {
		let mut out = Vec::new();
		for cd in self.nodes[i].node.list_channels() {
			let c = self.chan(&cd.channel_id);
			for h in cd.pending_inbound_htlcs.iter() {
				if h.payment_hash == *hash && h.state == Some(InboundHTLCStateDetails::Committed) { out.push((c, h.htlc_id)); }
			}
		}
		out
	}

	fn committed_inbound(&mut self, i: usize) -> Vec<Value> {
		let mut out = Vec::new();
		for cd in self.nodes[i].node.list_channels() {
			let c = self.chan(&cd.channel_id);
			for h in cd.pending_inbound_htlcs.iter() {
				if h.state == Some(InboundHTLCStateDetails::Committed) {
					out.push(json!([c, h.htlc_id]));
				}
			}
		}
		out
	}

	fn forward(&mut self, i: usize) -> bool {
		if !self.nodes[i].node.needs_pending_htlc_processing() { return false; }
		let committed = self.committed_inbound(i);
		let keep = !committed.is_empty();
		let mark = self.log.lock().unwrap().len();
		self.ev(json!({"ev":"forward","node":i,"committed":committed,"height":self.height()}));
		self.nodes[i].node.process_pending_htlc_forwards();
		self.drain();
		// `needs_pending_htlc_processing` stays true while a payment may still be retried: only
		// report progress if something observable happened
		let progress = self.log.lock().unwrap().len() > mark + 1;
		if !progress && !keep {
			self.log.lock().unwrap().truncate(mark);
		}
		progress
	}

	/// Deliver everything on the given links (both directions) and run the forwarding step of the
	/// nodes at their ends until nothing moves any more.
	fn pump(&mut self, links: &[(usize, usize)], barrier: Option<usize>) -> usize {
		let mut moved = 0;
		let mut guard = 0;
		loop {
			let mut any = false;
			for &(a, b) in links {
				for (f, t) in [(a, b), (b, a)] {
					loop {
						// a barrier node is not handed resolutions of HTLCs (they wait, FIFO, with all behind them)
						if Some(t) == barrier {
							let head_is_resolution = self.queues.get(&(f, t)).and_then(|q| q.front()).map(|w| is_resolution(w.kind())).unwrap_or(false);
							if head_is_resolution { break; }
						}
						if self.deliver_one(f, t).is_none() { break; }
						any = true; moved += 1; guard += 1; if guard > 4000 { return moved; }
					}
				}
			}
			let mut ends: Vec<usize> = links.iter().flat_map(|l| [l.0, l.1]).collect();
			ends.sort();
			ends.dedup();
			for i in ends { if self.forward(i) { any = true; moved += 1; guard += 1; } }
			if !any || guard > 4000 { break; }
		}
		moved
	}

	fn all_links(&self) -> Vec<(usize, usize)> {
		let mut v: Vec<(usize, usize)> = self.chans.iter().map(|c| Self::key(c.a, c.b)).collect();
		v.sort();
		v.dedup();
		v
	}

	fn log_recent(&mut self, i: usize, force: bool) {
		let mut l: Vec<(i64, &'static str)> = self.nodes[i].node.list_recent_payments().iter().map(|r| match r {
			RecentPaymentDetails::Pending { payment_id, .. } => (pid_index(payment_id), "pending"),
			RecentPaymentDetails::Fulfilled { payment_id, .. } => (pid_index(payment_id), "fulfilled"),
			RecentPaymentDetails::Abandoned { payment_id, .. } => (pid_index(payment_id), "abandoned"),
			RecentPaymentDetails::AwaitingInvoice { payment_id } => (pid_index(payment_id), "awaiting"),
		}).collect();
		l.sort();
		let v = json!(l.iter().map(|(p, s)| json!({"pid": p, "st": s})).collect::<Vec<_>>());
		if force || self.last_recent[i] != v {
			self.last_recent[i] = v.clone();
			self.ev(json!({"ev":"recent","node":i,"list":v,"after_restart":force}));
		}
	}

	fn balances(&mut self) -> Vec<Value> {
		let mut out = Vec::new();
		for i in 0..self.nodes.len() {
			let chans = self.nodes[i].node.list_channels();
			let sum: u64 = chans.iter().map(|c| c.outbound_capacity_msat).sum();
			let htlcs: usize = chans.iter().map(|c| c.pending_inbound_htlcs.len() + c.pending_outbound_htlcs.len()).sum();
			let floor = chans.iter().any(|c| c.outbound_capacity_msat == 0);
			out.push(json!({"node":i,"bal":sum,"htlcs":htlcs,"chans":chans.len(),"floor":floor}));
		}
		out
	}

	fn build_route(&self, from: usize, paths: &[Value], amts: &[u64], cltvs: &[u32], fee_over: &Value, total: u64, skims: &[Option<u64>]) -> Option<(Route, usize, Vec<Value>)> {
		let mut rpaths = Vec::new();
		let mut dst = from;
		let mut parts = Vec::new();
		for (k, p) in paths.iter().enumerate() {
			let cl = p.as_array()?;
			let mut cur = from;
			let mut hops = Vec::new();
			let n = cl.len();
			let mut fees = 0u64;
			for (j, c) in cl.iter().enumerate() {
				let ci = c.as_u64()? as usize;
				if ci == 0 || ci > self.chans.len() { return None; }
				let ch = &self.chans[ci - 1];
				let nxt = if ch.a == cur { ch.b } else if ch.b == cur { ch.a } else { return None };
				let last = j == n - 1;
				let (fee, delta) = if last { (amts[k], cltvs[k]) } else {
					let cfg = self.nodes[nxt].node.get_current_config();
					let mut f = cfg.channel_config.forwarding_fee_base_msat as u64
						+ amts[k] * cfg.channel_config.forwarding_fee_proportional_millionths as u64 / 1_000_000;
					if let Some(o) = fee_over.get(format!("{}:{}", k, j)) { f = o.as_u64().unwrap_or(f); }
					(f, cfg.channel_config.cltv_expiry_delta as u32)
				};
				if !last { fees += fee; }
				// a part whose last forwarding node intercepts it is addressed to an intercept scid of that node
				let scid = if last && skims[k].is_some() {
					if n < 2 { return None; }
					self.nodes[cur].node.get_intercept_scid()
				} else { ch.scid };
				hops.push(RouteHop {
					pubkey: self.nodes[nxt].node.get_our_node_id(),
					node_features: NodeFeatures::from_le_bytes(self.nodes[nxt].node.node_features().le_flags().to_vec()),
					short_channel_id: scid,
					channel_features: ChannelFeatures::empty(),
					fee_msat: fee,
					cltv_expiry_delta: delta,
					maybe_announced_channel: true,
				});
				cur = nxt;
			}
			dst = cur;
			let sk = skims[k].unwrap_or(0);
			if sk >= amts[k] { return None; }
			parts.push(json!({"path": cl, "amt": amts[k] - sk, "oamt": amts[k], "fee": fees, "cltv": self.height() + 1 + cltvs[k]}));
			rpaths.push(Path { hops, blinded_tail: None });
		}
		let mut rp = RouteParameters::from_payment_params_and_value(
			PaymentParameters::from_node_id(self.nodes[dst].node.get_our_node_id(), cltvs[0]), total);
		rp.max_total_routing_fee_msat = None;
		Some((Route { paths: rpaths, route_params: rp }, dst, parts))
	}

	fn op_send(&mut self, op: &Value) -> bool {
		let from = op["from"].as_u64().unwrap_or(0) as usize;
		let id = op["id"].as_u64().unwrap_or(0);
		let pid = pid_of(id);
		let keysend = op["keysend"].as_bool().unwrap_or(false);
		// which hash
		let (hash, preimage) = if let Some(r) = op["reg"].as_u64() {
			match self.regs.get(&r) { Some(x) => (x.hash, x.preimage), None => return false }
		} else {
			let k = op["fresh"].as_u64().unwrap_or(id + 1000);
			let mut pre = [0u8; 32];
			pre[..8].copy_from_slice(&k.to_be_bytes());
			pre[8..16].copy_from_slice(&self.run.to_be_bytes());
			pre[31] = 0x6b;
			(PaymentHash(bitcoin::hashes::sha256::Hash::hash(&pre).to_byte_array()), PaymentPreimage(pre))
		};
		let h = self.hash(&hash.0);
		if from >= self.nodes.len() { return false; }
		// a user that is not holding its events back has handled everything queued so far
		if !self.hold[from] { self.drain(); }
		let evs_handled = !self.hold[from];
		if op["auto"].as_bool().unwrap_or(false) || keysend {
			// router-driven send (the node's own router on the announced graph), optional retries
			let to = op["to"].as_u64().unwrap_or(0) as usize;
			let amt = op["amt"].as_u64().unwrap_or(0);
			let retries = op["retries"].as_u64().unwrap_or(0) as u32;
			if to >= self.nodes.len() || from >= self.nodes.len() { return false; }
			let rp = RouteParameters::from_payment_params_and_value(
				PaymentParameters::from_node_id(self.nodes[to].node.get_our_node_id(), op["cltv"].as_u64().unwrap_or(70) as u32), amt);
			let mark = self.log.lock().unwrap().len();
			let (res, sreg): (Result<(), RetryableSendFailure>, u64) = if keysend {
				(self.nodes[from].node.send_spontaneous_payment(Some(preimage), RecipientOnionFields::spontaneous_empty(amt), pid, rp, Retry::Attempts(retries)).map(|_| ()), 0)
			} else {
				let sreg = op["secret"]["reg"].as_u64().unwrap_or(op["reg"].as_u64().unwrap_or(0));
				let secret = match self.regs.get(&sreg).and_then(|r| r.secret) { Some(s) => s, None => return false };
				(self.nodes[from].node.send_payment(hash, RecipientOnionFields::secret_only(secret, amt), pid, rp, Retry::Attempts(retries)), sreg)
			};
			let r = match &res { Ok(()) => "ok", Err(RetryableSendFailure::DuplicatePayment) => "dup", Err(_) => "err" };
			if res.is_ok() { if self.accepted_ids.contains(&id) { self.id_reused = true; } else { self.accepted_ids.push(id); } }
			let rec = json!({"ev":"send","node":from,"pid":id,"hash":h,"dst":to,"auto":true,"keysend":keysend,"amt":amt,"total":amt,
				"sreg": sreg, "parts": [{"path": [], "amt": amt, "oamt": amt, "fee": 0, "cltv": 0}], "res": r, "height": self.height(), "tlvs": [], "meta": 0,
				"retries": retries, "evs_handled": evs_handled});
			self.log.lock().unwrap().insert(mark, rec);
			self.drain();
			return true;
		}
		let paths = match op["paths"].as_array() { Some(p) if !p.is_empty() => p.clone(), _ => return false };
		let mut amts: Vec<u64> = op["amts"].as_array().map(|a| a.iter().map(|x| x.as_u64().unwrap_or(0)).collect()).unwrap_or_default();
		if amts.len() != paths.len() { return false; }
		// {"limit": d}: what the first-hop channel reports as the most it can send now (next_outbound_htlc_limit_msat),
		// plus d, less the forwarding fees of the path
		if let Some(a) = op["amts"].as_array() {
			for (k, x) in a.iter().enumerate() {
				if let Some(d) = x["limit"].as_i64() {
					let first = paths[k].as_array().and_then(|p| p.first()).and_then(|c| c.as_u64()).unwrap_or(0) as usize;
					if first == 0 || first > self.chans.len() { return false; }
					let cid = self.chans[first - 1].cid;
					let lim = match self.nodes[from].node.list_channels().iter().find(|c| c.channel_id == cid) { Some(c) => c.next_outbound_htlc_limit_msat as i64, None => return false };
					let hops = paths[k].as_array().map(|p| p.len()).unwrap_or(1) as i64;
					let v = lim + d - 1000 * (hops - 1);
					if v < 1000 { return false; }
					amts[k] = v as u64;
				}
			}
		}
		let cltvs: Vec<u32> = match op["cltv"].as_array() {
			Some(a) => a.iter().map(|x| x.as_u64().unwrap_or(70) as u32).collect(),
			None => vec![op["cltv"].as_u64().unwrap_or(70) as u32; paths.len()],
		};
		if cltvs.len() != paths.len() { return false; }
		let sum: u64 = amts.iter().sum();
		let total = op["total"].as_u64().unwrap_or(sum);
		// per path: the fee the last forwarding node skims off (it intercepts the HTLC), and the skimmed_fee_msat
		// it reports (null / absent: what it really skimmed, -1: no TLV, x: x)
		let skims: Vec<Option<u64>> = match op["skim"].as_array() {
			Some(a) if a.len() == paths.len() => a.iter().map(|x| x.as_u64()).collect(),
			Some(_) => return false,
			None => vec![None; paths.len()],
		};
		let skim_tlvs: Vec<Option<Option<u64>>> = match op["skim_tlv"].as_array() {
			Some(a) if a.len() == paths.len() => a.iter().map(|x| match x.as_i64() { None => None, Some(v) if v < 0 => Some(None), Some(v) => Some(Some(v as u64)) }).collect(),
			Some(_) => return false,
			None => vec![None; paths.len()],
		};
		let (route, dst, parts) = match self.build_route(from, &paths, &amts, &cltvs, &op["fee_over"], total, &skims) { Some(x) => x, None => return false };
		// which secret: the unmodified secret of registration `sreg`, or a corrupted / absent one
		let mut sreg = 0u64;
		let mut onion = match &op["secret"] {
			Value::String(s) if s == "none" => RecipientOnionFields::spontaneous_empty(total),
			v => {
				let r = v["reg"].as_u64().unwrap_or(op["reg"].as_u64().unwrap_or(0));
				let mut secret = match self.regs.get(&r).and_then(|x| x.secret) { Some(s) => s, None => return false };
				if let Some(bit) = v["flip"].as_u64() {
					let bit = (bit ^ self.seed) % 256;
					secret.0[(bit / 8) as usize] ^= 1 << (bit % 8);
				} else {
					sreg = r;
				}
				RecipientOnionFields::secret_only(secret, total)
			},
		};
		// payment_metadata: the one the registration returned ("ok", the default), none, or another one
		let reg_meta = self.regs.get(&op["secret"]["reg"].as_u64().unwrap_or(op["reg"].as_u64().unwrap_or(0))).and_then(|x| x.meta.clone());
		let meta_class = match op["meta"].as_str().unwrap_or("ok") {
			"none" => { onion.payment_metadata = None; 0 },
			"flip" => {
				let mut m = reg_meta.clone().unwrap_or_else(|| { let mut v = meta_bytes(9); v.extend_from_slice(&[7u8; 16]); v });
				let bit = (self.seed as usize) % (m.len() * 8);
				m[bit / 8] ^= 1 << (bit % 8);
				onion.payment_metadata = Some(m);
				2
			},
			_ => { onion.payment_metadata = reg_meta.clone(); if reg_meta.is_some() { 1 } else { 0 } },
		};
		// custom TLVs [[type, value]]
		let mut tlv_log: Vec<Value> = Vec::new();
		if let Some(a) = op["tlvs"].as_array() {
			let mut v: Vec<(u64, Vec<u8>)> = Vec::new();
			for x in a { match (x[0].as_u64(), x[1].as_u64()) { (Some(t), Some(val)) => { v.push((t, tlv_bytes(val))); tlv_log.push(json!([t, val])); }, _ => return false } }
			match lightning::ln::outbound_payment::RecipientCustomTlvs::new(v) { Ok(c) => { onion = onion.with_custom_tlvs(c); }, Err(()) => return false }
		}
		for (k, p) in paths.iter().enumerate() {
			if skims[k].is_some() || skim_tlvs[k].is_some() {
				let last = p.as_array().and_then(|a| a.last()).and_then(|c| c.as_u64()).unwrap_or(0) as usize;
				self.skims.push(Skim { hash, onion_amt: amts[k], skim: skims[k].unwrap_or(0), chan: last, dst, tlv: skim_tlvs[k], forwarded: skims[k].is_none() });
			}
		}
		let mark = self.log.lock().unwrap().len();
		// `retries`: the route of the first attempt is the one the script built (the user's router answers the
		// first query with it), later attempts are routed by the payer's router over the announced graph
		let retries = op["retries"].as_u64();
		let res = match retries {
			None => self.nodes[from].node.send_payment_with_route(route, hash, onion, pid),
			Some(r) => {
				let rp = route.route_params.clone();
				self.nodes[from].router.expect_find_route(rp.clone(), Ok(route));
				let res = self.nodes[from].node.send_payment(hash, onion, pid, rp, Retry::Attempts(r as u32));
				self.nodes[from].router.next_routes.lock().unwrap().clear();
				res
			},
		};
		let r = match &res { Ok(()) => "ok", Err(RetryableSendFailure::DuplicatePayment) => "dup", Err(_) => "err" };
		if res.is_ok() { if self.accepted_ids.contains(&id) { self.id_reused = true; } else { self.accepted_ids.push(id); } }
		let rec = json!({"ev":"send","node":from,"pid":id,"hash":h,"dst":dst,"auto":false,"keysend":false,"amt":sum,"total":total,
			"sreg": sreg, "parts": parts, "res": r, "height": self.height(), "tlvs": tlv_log, "meta": meta_class,
			"retries": retries.unwrap_or(0), "evs_handled": evs_handled});
		self.log.lock().unwrap().insert(mark, rec);
		self.drain();
		true
	}

	fn op_reg(&mut self, op: &Value) -> bool {
		let node = op["node"].as_u64().unwrap_or(0) as usize;
		let r = op["reg"].as_u64().unwrap_or(0);
		let amt = op["amt"].as_u64();
		let exp = op["expiry"].as_u64().unwrap_or(7200) as u32;
		let minc = op["min_cltv"].as_u64().map(|x| x as u16);
		if node >= self.nodes.len() { return false; }
		let meta_n = op["meta"].as_u64().unwrap_or(0);
		let meta_in = if meta_n > 0 { Some(meta_bytes(meta_n)) } else { None };
		let (hash, preimage, secret, meta) = if op["method"].as_str() == Some("ldk") {
			match self.nodes[node].node.create_inbound_payment(amt, exp, minc, meta_in) {
				Ok((h, s, m)) => {
					let mut mc = m.clone();
					match self.nodes[node].node.get_payment_preimage_decrypt_metadata(h, s, mc.as_mut().map(|x| &mut x[..])) { Ok(p) => (h, p, s, m), Err(_) => return false }
				},
				Err(_) => return false,
			}
		} else {
			// the hash may be shared with an earlier registration (`same_hash_as`)
			let (hash, pre) = if let Some(o) = op["same_hash_as"].as_u64() {
				match self.regs.get(&o) { Some(x) => (x.hash, x.preimage), None => return false }
			} else {
				let mut pre = [0u8; 32];
				pre[..8].copy_from_slice(&r.to_be_bytes());
				pre[8..16].copy_from_slice(&self.run.to_be_bytes());
				pre[31] = 0x5a;
				(PaymentHash(bitcoin::hashes::sha256::Hash::hash(&pre).to_byte_array()), PaymentPreimage(pre))
			};
			match self.nodes[node].node.create_inbound_payment_for_hash(hash, amt, exp, minc, meta_in) {
				Ok((s, m)) => (hash, pre, s, m),
				Err(_) => return false,
			}
		};
		let h = self.hash(&hash.0);
		self.ev(json!({"ev":"reg","node":node,"reg":r,"hash":h,"amt":amt.unwrap_or(0),"min_cltv":minc.unwrap_or(0),
			"expiry": (self.time - self.time0) as u64 + exp as u64, "ldk": op["method"].as_str() == Some("ldk"), "meta": meta_n}));
		self.regs.insert(r, Reg { node, hash, preimage, secret: Some(secret), meta });
		true
	}

	fn node_idle(&self, i: usize) -> bool {
		self.nodes[i].node.list_channels().iter().all(|c| c.pending_outbound_htlcs.iter().all(|h| h.htlc_id.is_some()))
	}

	fn op_restart(&mut self, i: usize, mode: &str, allow_unclean: bool) -> bool {
		// a snapshot is usable only while no monitor update happened since (otherwise LDK closes
		// the channels whose monitors are ahead: on-chain resolution is outside this engine)
		let now = self.persisters[i].updates.load(Ordering::SeqCst);
		if mode == "now" || self.saves[i].is_none() {
			if mode == "last" { return false; }
			let bytes = self.nodes[i].node.encode();
			self.ev(json!({"ev":"save","node":i}));
			let idle = self.node_idle(i);
			self.saves[i] = Some((bytes, now, idle));
			self.sent_since_save[i] = false;
		}
		let (bytes, at, idle) = self.saves[i].clone().unwrap();
		let stale = at != now;
		if stale && mode != "stale" { return false; }
		if !stale && mode == "stale" { return false; }
		// KNOWN findings (see checks/c03.py): a stale snapshot taken while a payment's HTLC waited in a
		// holding cell makes LDK report the payment failed although the HTLC was sent later; a stale
		// snapshot that still holds an earlier, abandoned use of a payment id cannot take up the HTLCs of
		// a later use of that id; a stale snapshot older than a PaymentSent the user has handled makes LDK
		// report PaymentFailed once the HTLCs have left the monitors
		if stale && (!idle || self.id_reused || self.sent_since_save[i]) && !allow_unclean { return false; }
		// (the manager is synced by best_block_updated only: no restart once transactions were mined)
		if self.mined_any { return false; }
		// (a crash while a monitor write is in flight leaves a monitor that is behind the manager: not driven)
		if !self.persisters[i].pending.lock().unwrap().is_empty() { return false; }
		let was_async = std::mem::replace(&mut *self.persisters[i].in_progress.lock().unwrap(), Async::Off);
		// the process dies: its connections and everything queued on them are gone
		for j in 0..self.nodes.len() {
			if j != i && *self.connected.get(&Self::key(i, j)).unwrap_or(&false) {
				self.connected.insert(Self::key(i, j), false);
				self.queues.remove(&(i, j));
				self.queues.remove(&(j, i));
				let pi = self.nodes[i].node.get_our_node_id();
				self.nodes[j].node.peer_disconnected(pi);
			}
		}
		let mons: Vec<Vec<u8>> = self.nodes[i].chain_monitor.chain_monitor.list_monitors().iter()
			.map(|c| self.nodes[i].chain_monitor.chain_monitor.get_monitor(*c).unwrap().encode()).collect();
		let mon_refs: Vec<&[u8]> = mons.iter().map(|m| &m[..]).collect();
		let config = self.nodes[i].node.get_current_config();
		let new_cm: &'static TestChainMonitor<'static> = leak(TestChainMonitor::new(
			Some(self.nodes[i].chain_source), self.nodes[i].tx_broadcaster, self.nodes[i].logger,
			self.nodes[i].fee_estimator, &self.persisters[i], self.nodes[i].keys_manager));
		self.nodes[i].chain_monitor = new_cm;
		let before = self.persisters[i].updates.load(Ordering::SeqCst);
		let mgr = leak(_reload_node(&self.nodes[i], config, &bytes, &mon_refs, None));
		self.nodes[i].node = mgr;
		self.nodes[i].onion_messenger.set_offers_handler(mgr);
		self.nodes[i].onion_messenger.set_async_payments_handler(mgr);
		// the snapshot may predate blocks the monitors have seen: the user syncs the manager to the tip
		{
			use lightning::chain::Confirm;
			let blocks = self.nodes[i].blocks.lock().unwrap().clone();
			let have = mgr.current_best_block().height;
			for (b, h) in blocks.iter() {
				if *h > have { mgr.best_block_updated(&b.header, *h); }
			}
		}
		// loading the monitors is not an update
		self.persisters[i].updates.store(before, Ordering::SeqCst);
		*self.persisters[i].in_progress.lock().unwrap() = was_async;
		self.saves[i] = Some((bytes, before, idle));
		self.restarts += 1;
		self.ev(json!({"ev":"restart","node":i,"stale":stale}));
		if stale {
			// what the user sees first: the list of recent payments; LDK has closed the channels whose
			// monitors were ahead, the run goes on (see `settle_chain`)
			self.log_recent(i, true);
			self.drain();
			return true;
		}
		self.drain();
		// the other ends notice
		self.log_recent(i, true);
		true
	}

	fn settle(&mut self) {
		// the user handles everything, all links come back, everything in flight is delivered
		for i in 0..self.nodes.len() { self.hold[i] = false; }
		let n = self.nodes.len();
		for a in 0..n { for b in a + 1..n { if self.connected.contains_key(&(a, b)) { self.do_reconnect(a, b); } } }
		let links = self.all_links();
		for _ in 0..20 {
			self.drain();
			let completed = self.complete_everything();
			let queued: usize = self.queues.values().map(|q| q.len()).sum();
			let moved = self.pump(&links, None);
			if queued == 0 && moved == 0 && !completed {
				self.drain();
				if self.queues.values().all(|q| q.is_empty()) { break; }
			}
		}
		for i in 0..n { self.log_recent(i, false); }
		let b = self.balances();
		let pending_q: usize = self.queues.values().map(|q| q.len()).sum();
		self.ev(json!({"ev":"quiet","height":self.height(),"nodes":b,"queued":pending_q,"closed":self.closed_seen,"settled":self.settled,"writes":self.writes_in_flight()}));
	}

	fn step(&mut self, op: &Value) {
		if self.ended { return; }
		let name = op["op"].as_str().unwrap_or("");
		if name != "settle" { self.settled = false; }
		let n = self.nodes.len();
		let node = op["node"].as_u64().unwrap_or(0) as usize;
		let did = match name {
			"reg" => self.op_reg(op),
			"send" => self.op_send(op),
			"deliver" => {
				let (f, t) = (op["from"].as_u64().unwrap_or(0) as usize, op["to"].as_u64().unwrap_or(0) as usize);
				self.deliver_one(f, t).is_some()
			},
			"deliver_until" => {
				// deliver on one directed link up to and including the first message of `kind`
				let (f, t) = (op["from"].as_u64().unwrap_or(0) as usize, op["to"].as_u64().unwrap_or(0) as usize);
				let kind = op["kind"].as_str().unwrap_or("");
				let has = self.queues.get(&(f, t)).map(|q| q.iter().any(|w| kind_matches(kind, w.kind()))).unwrap_or(false);
				if has {
					loop { match self.deliver_one(f, t) { Some(k) if kind_matches(kind, k) => break, Some(_) => {}, None => break } }
				}
				has
			},
			"pump" => {
				let links: Vec<(usize, usize)> = match op["links"].as_array() {
					Some(a) => a.iter().filter_map(|l| Some((l[0].as_u64()? as usize, l[1].as_u64()? as usize))).filter(|l| l.0 < n && l.1 < n).collect(),
					None => self.all_links(),
				};
				let barrier = op["barrier"].as_u64().map(|x| x as usize);
				self.pump(&links, barrier);
				true
			},
			"forward" => node < n && self.forward(node),
			"claim" | "failback" => {
				let r = op["reg"].as_u64();
				let (hash, pre, dst) = if let Some(r) = r {
					match self.regs.get(&r) { Some(x) => (x.hash, x.preimage, x.node), None => { self.skipped += 1; return; } }
				} else {
					let k = op["fresh"].as_u64().unwrap_or(0);
					let mut pre = [0u8; 32];
					pre[..8].copy_from_slice(&k.to_be_bytes());
					pre[8..16].copy_from_slice(&self.run.to_be_bytes());
					pre[31] = 0x6b;
					(PaymentHash(bitcoin::hashes::sha256::Hash::hash(&pre).to_byte_array()), PaymentPreimage(pre), node)
				};
				let h = self.hash(&hash.0);
				// a user calls claim_funds only in response to a PaymentClaimable it has handled
				if name == "claim" && !op["force"].as_bool().unwrap_or(false) {
					// ... and only while it holds no HTLC of that hash that is newer than what was shown
					// (KNOWN finding claim_funds_drops_unshown_htlcs, see checks/c04.py)
					let shown = self.shown_htlcs.get(&(dst, h)).cloned().unwrap_or_default();
					if self.inbound_of_hash(dst, &hash).iter().any(|x| !shown.contains(x)) { self.skipped += 1; return; }
					match self.claimable_seen.iter().position(|x| *x == (dst, h)) {
						Some(p) => { self.claimable_seen.remove(p); },
						None => { self.skipped += 1; return; },
					}
				}
				if name == "failback" { self.claimable_seen.retain(|x| *x != (dst, h)); }
				let known = name == "claim" && op["known"].as_bool().unwrap_or(false);
				self.ev(json!({"ev":name,"node":dst,"hash":h,"height":self.height(),"known":known}));
				if known { self.nodes[dst].node.claim_funds_with_known_custom_tlvs(pre); }
				else if name == "claim" { self.nodes[dst].node.claim_funds(pre); } else { self.nodes[dst].node.fail_htlc_backwards(&hash); }
				self.drain();
				self.forward(dst);
				true
			},
			"tick" => {
				if node < n { self.ev(json!({"ev":"tick","node":node})); self.nodes[node].node.timer_tick_occurred(); self.drain(); self.forward(node); true } else { false }
			},
			"block" => {
				let k = op["n"].as_u64().unwrap_or(1).max(1) as u32;
				for i in 0..n { connect_blocks(&self.nodes[i], k); }
				self.ev(json!({"ev":"block","n":k,"height":self.height(),"time":(self.time - self.time0)}));
				self.drain();
				for i in 0..n { self.forward(i); }
				true
			},
			"block_to_deadline" => {
				// connect blocks until the height is `offset` away from the claim deadline the user was told
				let r = op["reg"].as_u64().unwrap_or(0);
				let off = op["offset"].as_i64().unwrap_or(0);
				let target = self.regs.get(&r).map(|x| (x.node, x.hash)).and_then(|(nd, hh)| { let h = self.hash(&hh.0); self.deadlines.get(&(nd, h)).cloned() });
				match target {
					Some(d) if (d as i64 + off) > self.height() as i64 => {
						let k = (d as i64 + off - self.height() as i64) as u32;
						for i in 0..n { connect_blocks(&self.nodes[i], k); }
						self.ev(json!({"ev":"block","n":k,"height":self.height(),"time":(self.time - self.time0)}));
						self.drain();
						for i in 0..n { self.forward(i); }
						true
					},
					_ => false,
				}
			},
			"time_jump" => {
				// one block whose header time lies `secs` after the latest time seen so far
				let secs = op["secs"].as_u64().unwrap_or(0) as u32;
				self.time += secs;
				for i in 0..n {
					let b = create_dummy_block(self.nodes[i].best_block_hash(), self.time, Vec::new());
					connect_block(&self.nodes[i], &b);
				}
				self.ev(json!({"ev":"block","n":1,"height":self.height(),"time":(self.time - self.time0)}));
				self.drain();
				for i in 0..n { self.forward(i); }
				true
			},
			"disconnect" => {
				let (a, b) = (op["a"].as_u64().unwrap_or(0) as usize, op["b"].as_u64().unwrap_or(0) as usize);
				a < n && b < n && self.do_disconnect(a, b)
			},
			"reconnect" => {
				let (a, b) = (op["a"].as_u64().unwrap_or(0) as usize, op["b"].as_u64().unwrap_or(0) as usize);
				a < n && b < n && self.connected.contains_key(&Self::key(a, b)) && self.do_reconnect(a, b)
			},
			"reconnect_all" => {
				let mut any = false;
				for a in 0..n { for b in a + 1..n { if self.connected.contains_key(&(a, b)) && self.do_reconnect(a, b) { any = true; } } }
				any
			},
			"hold" => { if node < n { self.hold[node] = op["on"].as_bool().unwrap_or(true); true } else { false } },
			"handle" => {
				if node < n {
					let k = self.fetch_events(node);
					self.ev(json!({"ev":"handled","node":node,"n":k}));
					self.drain();
					true
				} else { false }
			},
			"save" => {
				if node < n {
					let bytes = self.nodes[node].node.encode();
					let now = self.persisters[node].updates.load(Ordering::SeqCst);
					let idle = self.node_idle(node);
					self.saves[node] = Some((bytes, now, idle));
					self.sent_since_save[node] = false;
					self.ev(json!({"ev":"save","node":node}));
					true
				} else { false }
			},
			"restart" => node < n && self.op_restart(node, op["use"].as_str().unwrap_or("now"), op["allow_unclean"].as_bool().unwrap_or(false)),
			"abandon" => {
				if node < n {
					let id = op["id"].as_u64().unwrap_or(0);
					self.ev(json!({"ev":"abandon","node":node,"pid":id}));
					self.nodes[node].node.abandon_payment(pid_of(id));
					self.drain();
					true
				} else { false }
			},
			"persist_mode" => {
				if node < n {
					let inprog = op["mode"].as_str() == Some("inprogress");
					// `chans`: only the writes of these channels are reported InProgress
					let only: Option<Vec<usize>> = op["chans"].as_array().map(|a| a.iter().filter_map(|c| c.as_u64()).map(|c| c as usize).filter(|c| *c >= 1 && *c <= self.chans.len()).collect());
					*self.persisters[node].in_progress.lock().unwrap() = match (inprog, &only) {
						(false, _) => Async::Off,
						(true, None) => Async::All,
						(true, Some(v)) => Async::Only(v.iter().map(|c| self.chans[*c - 1].cid).collect()),
					};
					self.ev(json!({"ev":"persist_mode","node":node,"inprogress":inprog,"chans":only.unwrap_or_default()}));
					true
				} else { false }
			},
			"config" => {
				// the node's user changes the configuration of one of its channels: the dust-exposure limit
				let c = op["chan"].as_u64().unwrap_or(0) as usize;
				if node < n && c >= 1 && c <= self.chans.len() && (self.chans[c - 1].a == node || self.chans[c - 1].b == node) {
					let peer = if self.chans[c - 1].a == node { self.chans[c - 1].b } else { self.chans[c - 1].a };
					let md = match op["max_dust"].as_u64() {
						Some(v) => lightning::util::config::MaxDustHTLCExposure::FixedLimitMsat(v),
						None => lightning::util::config::MaxDustHTLCExposure::FeeRateMultiplier(op["max_dust_mult"].as_u64().unwrap_or(10_000)),
					};
					let upd = lightning::util::config::ChannelConfigUpdate { max_dust_htlc_exposure_msat: Some(md), ..Default::default() };
					let res = self.nodes[node].node.update_partial_channel_config(&self.nodes[peer].node.get_our_node_id(), &[self.chans[c - 1].cid], &upd);
					self.ev(json!({"ev":"config","node":node,"chan":c,"max_dust":op["max_dust"].as_i64().unwrap_or(-1),"ok":res.is_ok()}));
					self.drain();
					true
				} else { false }
			},
			"feerate" => {
				// the node's fee estimator answers another feerate from now on
				if node < n {
					let f = op["sat_per_kw"].as_u64().unwrap_or(253) as u32;
					*self.nodes[node].fee_estimator.sat_per_kw.lock().unwrap() = f;
					self.ev(json!({"ev":"config","node":node,"chan":0,"max_dust":-1,"ok":true,"feerate":f}));
					true
				} else { false }
			},
			"complete" => {
				let only = op["chan"].as_u64().map(|c| c as usize);
				node < n && self.complete_writes(node, op["which"].as_str().unwrap_or("oldest"), only)
			},
			"settle" => { self.settle(); true },
			"settle_chain" => { self.settle_chain(); true },
			"mine" => { for _ in 0..op["n"].as_u64().unwrap_or(1).max(1) { self.mine_block(true); } true },
			_ => false,
		};
		if did {
			self.executed += 1;
			for i in 0..n { self.log_recent(i, false); }
		} else {
			self.skipped += 1;
		}
	}
}

fn build_net(run: u64, seed: u64, cfg: &Value, log: &Log) -> Net {
	let topo = cfg["topo"].as_str().unwrap_or("line").to_string();
	let k = cfg["n"].as_u64().unwrap_or(2) as usize;
	let value = cfg["value"].as_u64().unwrap_or(400_000);
	let push = cfg["push"].as_u64().unwrap_or(value * 500);
	let n = match topo.as_str() { "fan" => k + 2, "fan2" => 2 * k + 2, "par" => 2, _ => k };
	let cfgs = leak(create_chanmon_cfgs(n));
	let persisters: &'static Vec<CountPersister> = leak((0..n).map(|_| CountPersister::new()).collect());
	let node_cfgs = leak(create_node_cfgs_with_persisters(n, cfgs, persisters.iter().collect()));
	let mut uc = test_default_channel_config();
	uc.channel_handshake_config.our_htlc_minimum_msat = 1000;
	uc.channel_handshake_config.negotiate_anchors_zero_fee_htlc_tx = false;
	uc.channel_handshake_config.announced_channel_max_inbound_htlc_value_in_flight_percentage = 100;
	uc.channel_config.forwarding_fee_base_msat = 1000;
	uc.channel_config.forwarding_fee_proportional_millionths = 0;
	if cfg["intercept"].as_bool().unwrap_or(false) {
		uc.htlc_interception_flags = lightning::util::config::HTLCInterceptionFlags::ToInterceptSCIDs as u8;
	}
	let ucs: Vec<Option<lightning::util::config::UserConfig>> = (0..n).map(|_| Some(uc.clone())).collect();
	let mgrs = leak(create_node_chanmgrs(n, node_cfgs, &ucs));
	let nodes = create_network(n, node_cfgs, mgrs);
	// create_network picks the block-connection style from process randomness: fix it per script
	let style = match cfg["style"].as_u64().unwrap_or(0) {
		1 => ConnectStyle::BestBlockFirstSkippingBlocks,
		2 => ConnectStyle::TransactionsFirst,
		3 => ConnectStyle::TransactionsFirstSkippingBlocks,
		4 => ConnectStyle::FullBlockViaListen,
		_ => ConnectStyle::BestBlockFirst,
	};
	for nd in nodes.iter() { *nd.connect_style.borrow_mut() = style; }
	let mut pairs: Vec<(usize, usize)> = Vec::new();
	match topo.as_str() {
		"fan" => { for i in 1..=k { pairs.push((0, i)); } for i in 1..=k { pairs.push((i, k + 1)); } },
		// A -chan i-> B_i -chan k+i-> C_i -chan 2k+i-> D   (B_i = node i, C_i = node k+i, D = node 2k+1)
		"fan2" => { for i in 1..=k { pairs.push((0, i)); } for i in 1..=k { pairs.push((i, k + i)); } for i in 1..=k { pairs.push((k + i, 2 * k + 1)); } },
		"par" => { for _ in 0..k { pairs.push((0, 1)); } },
		_ => { for i in 0..n - 1 { pairs.push((i, i + 1)); } },
	}
	let mut chans = Vec::new();
	let mut funding = Vec::new();
	let mut connected = HashMap::new();
	for (a, b) in pairs.iter() {
		let (_, _, cid, ftx) = create_announced_chan_between_nodes_with_value(&nodes, *a, *b, value, push);
		funding.push((ftx.compute_txid(), chans.len() + 1));
		let scid = nodes[*a].node.list_channels().iter().find(|c| c.channel_id == cid).unwrap().short_channel_id.unwrap();
		chans.push(Chan { a: *a, b: *b, scid, cid });
		connected.insert((*a, *b), true);
	}
	// opening a channel mines blocks on its two ends only: bring every node to the same height
	let maxh = nodes.iter().map(|nd| nd.best_block_info().1).max().unwrap_or(0);
	for nd in nodes.iter() {
		let h = nd.best_block_info().1;
		if h < maxh { connect_blocks(nd, maxh - h); }
	}
	// channels on which both ends accept HTLCs that bring less than the onion says, if the previous hop
	// reports the difference as its skimmed fee (ChannelConfig::accept_underpaying_htlcs)
	let underpay: Vec<usize> = cfg["underpay"].as_array().map(|a| a.iter().filter_map(|x| x.as_u64()).map(|x| x as usize).filter(|c| *c >= 1 && *c <= chans.len()).collect()).unwrap_or_default();
	for c in underpay.iter() {
		let ch = &chans[*c - 1];
		let upd = lightning::util::config::ChannelConfigUpdate { accept_underpaying_htlcs: Some(true), ..Default::default() };
		nodes[ch.a].node.update_partial_channel_config(&nodes[ch.b].node.get_our_node_id(), &[ch.cid], &upd).unwrap();
		nodes[ch.b].node.update_partial_channel_config(&nodes[ch.a].node.get_our_node_id(), &[ch.cid], &upd).unwrap();
	}
	for i in 0..n {
		nodes[i].tx_broadcaster.txn_broadcasted.lock().unwrap().clear();
		nodes[i].tx_broadcaster.txn_types.lock().unwrap().clear();
		let _ = nodes[i].node.get_and_clear_pending_events();
		let _ = nodes[i].node.get_and_clear_pending_msg_events();
	}
	log.lock().unwrap().clear();
	let time0 = bitcoin::constants::genesis_block(bitcoin::Network::Testnet).header.time;
	let mut net = Net {
		nodes, cfgs, persisters, queues: HashMap::new(), connected, log: log.clone(), chans, hashes: Vec::new(),
		regs: HashMap::new(), hold: vec![false; n], saves: vec![None; n], last_recent: vec![json!([]); n], run, seed,
		time0, time: time0, executed: 0, skipped: 0, restarts: 0, closed_seen: false, claimable_seen: Vec::new(), deadlines: HashMap::new(), shown_htlcs: HashMap::new(), ended: false, accepted_ids: Vec::new(), id_reused: false, sent_since_save: vec![false; n],
		mempool: Vec::new(), confirmed: HashSet::new(), seen_txids: HashSet::new(), spent: HashSet::new(), funding, commit_chan: HashMap::new(), max_cltv: 0, settled: false, mined_any: false, skims: Vec::new(),
	};
	let _ = net.cfgs;
	let c = lightning::verif::consts();
	let cd: Vec<Value> = net.chans.iter().enumerate().map(|(i, c)| json!({"chan": i + 1, "a": c.a, "b": c.b})).collect();
	let bal = net.balances();
	net.ev(json!({"ev":"open","topo":topo,"nodes":n,"chans":cd,"height":net.height(),"bal":bal,"underpay":underpay,
		"consts":{"fail_back_buffer":c.htlc_fail_back_buffer,"min_final_cltv":c.min_final_cltv_expiry_delta,
			"mpp_ticks":c.mpp_timeout_ticks,"idem_ticks":c.idempotency_timeout_ticks}}));
	net
}

fn main() {
	let args: Vec<String> = std::env::args().collect();
	let mut scripts_path = None;
	let mut out = String::from("trace.ndjson");
	let mut seed = 1u64;
	let mut i = 1;
	while i < args.len() {
		match args[i].as_str() {
			"--scripts" => { scripts_path = Some(args[i + 1].clone()); i += 1 },
			"--out" => { out = args[i + 1].clone(); i += 1 },
			"--seed" => { seed = args[i + 1].parse().unwrap(); i += 1 },
			_ => {},
		}
		i += 1;
	}
	let quiet = std::env::var("VERIF_VERBOSE").is_err();
	std::panic::set_hook(Box::new(move |info| {
		let msg = format!("{}", info);
		*LAST_PANIC.lock().unwrap() = msg.chars().take(300).collect();
		if !quiet { eprintln!("PANIC {}", msg); }
	}));
	let mut scripts: Vec<Value> = Vec::new();
	if let Some(p) = scripts_path {
		for line in std::fs::read_to_string(p).unwrap().lines() {
			if !line.trim().is_empty() { scripts.push(serde_json::from_str(line).unwrap()); }
		}
	}
	let mut tw = TraceWriter::create(&out);
	let (mut panics, mut executed, mut skipped, mut restarts, mut setup_failures) = (0usize, 0usize, 0usize, 0usize, 0usize);
	for (k, s) in scripts.iter().enumerate() {
		let run = k as u64 + 1;
		let log: Log = Arc::new(Mutex::new(Vec::new()));
		let res = catch_unwind(AssertUnwindSafe(|| {
			let mut net = build_net(run, seed, &s["cfg"], &log);
			let r2 = catch_unwind(AssertUnwindSafe(|| {
				for op in s["ops"].as_array().unwrap() { net.step(op); }
			}));
			let r = (r2.is_err(), net.executed, net.skipped, net.restarts);
			std::mem::forget(net);
			r
		}));
		match res {
			Ok((inner_panic, e, sk, rs)) => {
				executed += e; skipped += sk; restarts += rs;
				if inner_panic { panics += 1; let m = LAST_PANIC.lock().unwrap().clone(); log.lock().unwrap().push(json!({"ev":"panic","msg":m})); }
			},
			Err(_) => { setup_failures += 1; log.lock().unwrap().clear(); },
		}
		let evs = log.lock().unwrap();
		for (q, e) in evs.iter().enumerate() {
			let mut e = e.clone();
			e["run"] = json!(run);
			e["seq"] = json!(q + 1);
			tw.emit(e);
		}
	}
	tw.flush();
	let summary = json!({"runs": scripts.len(), "events": tw.lines, "panics": panics, "executed": executed, "skipped": skipped,
		"restarts": restarts, "setup_failures": setup_failures});
	std::fs::write(format!("{}.summary", out), summary.to_string()).unwrap();
	eprintln!("SUMMARY {}", summary);
	std::process::exit(0);
}
