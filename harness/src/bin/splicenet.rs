//! Engine `splicenet`: 2-3 real `ChannelManager`s in a line, harness-owned per-direction FIFO links
//! (every wire message -- including stfu / splice_* / tx_* -- delivered by its own `handle_*` call),
//! a recording, controllable `Persist`, a wallet per node, a shared chain handed to the nodes one by
//! one, disconnects / reconnects, restarts from persisted state.  Drives quiescence and splicing on
//! the real code and only RECORDS NDJSON (no verdicts here; SpliceTrace.tla judges).
//!
//! usage: splicenet --scripts FILE --out TRACE [--random N --seed S --nodes K --profile P]

use bitcoin::hashes::Hash as _;
use bitcoin::secp256k1::{PublicKey, Secp256k1, SecretKey};
use bitcoin::{Amount, FeeRate, ScriptBuf, Transaction, TxOut, Txid};
use lightning::chain::chainmonitor::Persist;
use lightning::chain::channelmonitor::{ChannelMonitor, ChannelMonitorUpdate};
use lightning::chain::ChannelMonitorUpdateStatus;
use lightning::events::{ClosureReason, Event};
use lightning::ln::chan_utils::{make_funding_redeemscript, CommitmentTransaction};
use lightning::ln::channelmanager::PaymentId;
use lightning::ln::functional_test_utils::*;
use lightning::ln::msgs::{self, BaseMessageHandler, ChannelMessageHandler, ErrorAction, MessageSendEvent};
use lightning::ln::outbound_payment::RecipientOnionFields;
use lightning::ln::types::ChannelId;
use lightning::routing::router::{Path, Route, RouteHop};
use lightning::types::features::{ChannelFeatures, NodeFeatures};
use lightning::types::payment::{PaymentHash, PaymentPreimage, PaymentSecret};
use lightning::util::persist::MonitorName;
use lightning::util::ser::Writeable;
use lightning::util::test_channel_signer::TestChannelSigner;
use lightning::util::test_utils::TestChainMonitor;
use lightning::util::wallet_utils::{WalletSourceSync, WalletSync};
use lightning::verif::monitor::{steps as update_steps, CommitmentInfo, HtlcInfo, StepView};
use rand::rngs::StdRng;
use rand::{Rng, SeedableRng};
use serde_json::{json, Value};
use std::collections::{HashMap, HashSet, VecDeque};
use std::panic::{catch_unwind, AssertUnwindSafe};
use std::sync::{Arc, Mutex};
use vharness::trace::TraceWriter;

type Log = Arc<Mutex<Vec<Value>>>;
static LAST_PANIC: Mutex<String> = Mutex::new(String::new());

/// small integers for the 32-byte things of a run (txids, payment hashes, channel ids, points)
#[derive(Default)]
struct Tab { v: Mutex<Vec<[u8; 32]>> }
impl Tab {
	fn id(&self, h: &[u8; 32]) -> usize {
		let mut v = self.v.lock().unwrap();
		if let Some(p) = v.iter().position(|x| x == h) { return p + 1; }
		v.push(*h);
		v.len()
	}
}
fn txid_id(t: &Tab, x: &Txid) -> usize { t.id(&x.to_byte_array()) }

struct Shared {
	txs: Tab,
	hashes: Tab,
	chans: Mutex<Vec<ChannelId>>,
	/// commitment txid -> (funding tx id, vout): filled whenever a node persists a counterparty commitment
	ctx_funding: Mutex<HashMap<[u8; 32], (usize, u32)>>,
}
impl Shared {
	fn chan(&self, c: &ChannelId) -> usize {
		let mut v = self.chans.lock().unwrap();
		if let Some(p) = v.iter().position(|x| x == c) { return p + 1; }
		v.push(*c);
		v.len()
	}
}

// ---------------------------------------------------------------------------------------------
// Recording persister

struct RecPersister {
	node: usize,
	log: Log,
	sh: Arc<Shared>,
	in_progress: Mutex<bool>,
	/// (chan idx, update_id, serialized monitor as of that persist call)
	snapshots: Mutex<Vec<(usize, u64, Vec<u8>)>>,
	pending: Mutex<Vec<(usize, u64)>>,
	/// last counterparty commitment seen per (channel, funding tx id)
	last_cp: Mutex<HashMap<(usize, usize), Value>>,
	quiet: Mutex<bool>,
}

fn htlc_json(sh: &Shared, offered: bool, amt: u64, hash: &[u8; 32]) -> Value {
	json!({"hash": sh.hashes.id(hash), "amt": amt, "offered": offered})
}
fn hi_json(sh: &Shared, h: &HtlcInfo) -> Value { htlc_json(sh, h.offered, h.amount_msat, &h.payment_hash) }

fn commitment_json(sh: &Shared, c: &CommitmentInfo, dust: &[HtlcInfo]) -> Value {
	json!({"num": (0xffff_ffff_ffffu64 - c.commitment_number), "feerate": c.feerate_per_kw,
		"to_b": c.to_broadcaster_value_sat, "to_c": c.to_countersignatory_value_sat,
		"nondust": c.nondust_htlcs.iter().map(|h| hi_json(sh, h)).collect::<Vec<_>>(),
		"dust": dust.iter().map(|h| hi_json(sh, h)).collect::<Vec<_>>(), "dust_known": true})
}
fn commitment_tx_json(sh: &Shared, c: &CommitmentTransaction) -> Value {
	json!({"num": (0xffff_ffff_ffffu64 - c.commitment_number()), "feerate": c.negotiated_feerate_per_kw(),
		"to_b": c.to_broadcaster_value_sat(), "to_c": c.to_countersignatory_value_sat(),
		"nondust": c.nondust_htlcs().iter().map(|h| htlc_json(sh, h.offered, h.amount_msat, &h.payment_hash.0)).collect::<Vec<_>>(),
		"dust": [], "dust_known": false})
}
fn no_commitment() -> Value { json!({"num":0,"feerate":0,"to_b":0,"to_c":0,"nondust":[],"dust":[],"dust_known":false}) }

impl RecPersister {
	fn record(&self, kind: &str, update: Option<&ChannelMonitorUpdate>, mon: &ChannelMonitor<TestChannelSigner>) -> ChannelMonitorUpdateStatus {
		let sh = &self.sh;
		let c = sh.chan(&mon.channel_id());
		let id = mon.get_latest_update_id();
		let inprog = *self.in_progress.lock().unwrap() || self.pending.lock().unwrap().iter().any(|p| p.0 == c);
		let mut steps = Vec::new();
		if let Some(u) = update {
			// counterparty commitments carried by this update, with the funding outpoint each one spends
			let cps = mon.counterparty_commitment_txs_from_update(u);
			let mut by_txid: HashMap<[u8; 32], (usize, u32)> = HashMap::new();
			for ct in cps.iter() {
				let t = ct.trust();
				let bt = t.built_transaction();
				let po = bt.transaction.input[0].previous_output;
				let f = (txid_id(&sh.txs, &po.txid), po.vout);
				by_txid.insert(bt.txid.to_byte_array(), f);
				sh.ctx_funding.lock().unwrap().insert(bt.txid.to_byte_array(), f);
			}
			let mut used: HashSet<[u8; 32]> = HashSet::new();
			let views = update_steps(u);
			for s in views.iter() {
				if let StepView::CounterpartyCommitment { commitments, .. } = s { for cm in commitments.iter() { used.insert(cm.txid); } }
			}
			let mut reneg = cps.iter().filter(|ct| !used.contains(&ct.trust().txid().to_byte_array()));
			for s in views {
				steps.push(match s {
					StepView::HolderCommitment { commitments, dust_htlcs, claimed } => {
						let cs: Vec<Value> = commitments.iter().map(|cm| {
							let f = sh.ctx_funding.lock().unwrap().get(&cm.txid).cloned();
							json!({"ftx": f.map(|x| x.0 as i64).unwrap_or(-1), "c": commitment_json(sh, cm, &dust_htlcs)})
						}).collect();
						json!({"k":"holder_commitment","cs":cs,"claimed":claimed})
					},
					StepView::CounterpartyCommitment { commitments, dust_htlcs } => {
						let cs: Vec<Value> = commitments.iter().map(|cm| {
							let f = by_txid.get(&cm.txid).cloned();
							let cj = commitment_json(sh, cm, &dust_htlcs);
							if let Some(f) = f { self.last_cp.lock().unwrap().insert((c, f.0), cj.clone()); }
							json!({"ftx": f.map(|x| x.0 as i64).unwrap_or(-1), "c": cj})
						}).collect();
						json!({"k":"counterparty_commitment","cs":cs})
					},
					StepView::PaymentPreimage { preimage, .. } => {
						let h = bitcoin::hashes::sha256::Hash::hash(&preimage).to_byte_array();
						json!({"k":"payment_preimage","hash": sh.hashes.id(&h)})
					},
					StepView::CommitmentSecret { idx, .. } => json!({"k":"commitment_secret","idx": (0xffff_ffff_ffffu64 - idx)}),
					StepView::ChannelForceClosed { should_broadcast } => json!({"k":"force_closed","broadcast": should_broadcast}),
					StepView::ShutdownScript => json!({"k":"shutdown_script"}),
					StepView::ReleasePaymentComplete => json!({"k":"release_payment_complete"}),
					StepView::Other("RenegotiatedFunding") => {
						match reneg.next() {
							Some(ct) => {
								let t = ct.trust();
								let po = t.built_transaction().transaction.input[0].previous_output;
								let f = txid_id(&sh.txs, &po.txid);
								let cj = commitment_tx_json(sh, ct);
								self.last_cp.lock().unwrap().insert((c, f), cj.clone());
								json!({"k":"renegotiated_funding","ftx":f,"vout":po.vout,"cp":cj})
							},
							None => json!({"k":"renegotiated_funding","ftx":-1,"vout":0,"cp":no_commitment()}),
						}
					},
					StepView::Other("RenegotiatedFundingLocked") => {
						let fo = mon.get_funding_txo();
						json!({"k":"renegotiated_funding_locked","ftx":txid_id(&sh.txs, &fo.txid),"vout":fo.index})
					},
					StepView::Other(n) => json!({"k": n}),
				});
			}
		}
		let status = if inprog { "inprogress" } else { "completed" };
		let has_update = update.is_some();
		self.snapshots.lock().unwrap().push((c, id, mon.encode()));
		if inprog { self.pending.lock().unwrap().push((c, id)); }
		if !(*self.quiet.lock().unwrap() && !has_update && !inprog) {
			self.log.lock().unwrap().push(json!({"ev":"persist","node":self.node,"chan":c,"kind":kind,"id":id,
				"uid": update.map(|u| u.update_id as i64).unwrap_or(-1),"has_update":has_update,"steps":steps,"status":status}));
		}
		if inprog { ChannelMonitorUpdateStatus::InProgress } else { ChannelMonitorUpdateStatus::Completed }
	}
}

impl Persist<TestChannelSigner> for RecPersister {
	fn persist_new_channel(&self, _n: MonitorName, monitor: &ChannelMonitor<TestChannelSigner>) -> ChannelMonitorUpdateStatus {
		self.record("new", None, monitor)
	}
	fn update_persisted_channel(&self, _n: MonitorName, update: Option<&ChannelMonitorUpdate>, monitor: &ChannelMonitor<TestChannelSigner>) -> ChannelMonitorUpdateStatus {
		self.record("update", update, monitor)
	}
	fn archive_persisted_channel(&self, _n: MonitorName) {}
}

// ---------------------------------------------------------------------------------------------
// Wire messages

#[derive(Clone)]
enum Wire {
	Add(msgs::UpdateAddHTLC),
	Fulfill(msgs::UpdateFulfillHTLC),
	Fail(msgs::UpdateFailHTLC),
	Malformed(msgs::UpdateFailMalformedHTLC),
	Fee(msgs::UpdateFee),
	CS(Vec<msgs::CommitmentSigned>, Value),
	RAA(msgs::RevokeAndACK),
	Reestablish(msgs::ChannelReestablish),
	ChannelReady(msgs::ChannelReady),
	AnnSigs(msgs::AnnouncementSignatures),
	ChanUpdate(msgs::ChannelUpdate),
	Error(msgs::ErrorMessage),
	Warning(msgs::WarningMessage),
	Stfu(msgs::Stfu),
	SpliceInit(msgs::SpliceInit),
	SpliceAck(msgs::SpliceAck),
	SpliceLocked(msgs::SpliceLocked),
	TxAddInput(msgs::TxAddInput),
	TxAddOutput(msgs::TxAddOutput),
	TxRemoveInput(msgs::TxRemoveInput),
	TxRemoveOutput(msgs::TxRemoveOutput),
	TxComplete(msgs::TxComplete),
	TxSignatures(msgs::TxSignatures),
	TxInitRbf(msgs::TxInitRbf),
	TxAckRbf(msgs::TxAckRbf),
	TxAbort(msgs::TxAbort),
	Other(String),
}

struct Pay { preimage: PaymentPreimage, hash: PaymentHash, #[allow(dead_code)] secret: PaymentSecret, dst: usize }

struct Net {
	nodes: Vec<Node<'static, 'static, 'static>>,
	persisters: &'static Vec<RecPersister>,
	sh: Arc<Shared>,
	queues: HashMap<(usize, usize), VecDeque<Wire>>,
	connected: HashMap<(usize, usize), bool>,
	log: Log,
	points: Vec<PublicKey>,
	pays: Vec<Pay>,
	scids: HashMap<(usize, usize), u64>,
	chan_ids: HashMap<(usize, usize), ChannelId>,
	run: u64,
	executed: usize,
	skipped: usize,
	mgr_snaps: Vec<Vec<Vec<u8>>>,
	edges: Vec<(usize, usize)>,
	/// the chain: transactions of each block above `base_height` (the nodes are handed the blocks one by one)
	base_height: u32,
	chain: Vec<Vec<Transaction>>,
	mempool: Vec<Transaction>,
	confirmed: HashSet<Txid>,
	spent: HashSet<bitcoin::OutPoint>,
	/// per channel: funding pubkeys seen in splice_init / splice_ack (-> expected new funding script)
	fkeys: HashMap<usize, (Option<PublicKey>, Option<PublicKey>)>,
	fscript: HashMap<usize, ScriptBuf>,
	/// nodes that sign a FundingTransactionReadyForSigning only when told to
	hold_sign: Vec<bool>,
	to_sign: Vec<Vec<(ChannelId, PublicKey, Transaction)>>,
	wallet_n: u32,
	reserved: HashSet<bitcoin::OutPoint>,
}

fn leak<T>(t: T) -> &'static T { Box::leak(Box::new(t)) }

impl Net {
	fn ev(&self, v: Value) { self.log.lock().unwrap().push(v); }
	fn idx_of(&self, pk: &PublicKey) -> usize {
		self.nodes.iter().position(|n| n.node.get_our_node_id() == *pk).expect("unknown peer")
	}
	fn point(&mut self, p: &PublicKey) -> usize {
		if let Some(i) = self.points.iter().position(|x| x == p) { return i + 1; }
		self.points.push(*p);
		self.points.len()
	}
	fn chan(&self, c: &ChannelId) -> usize { self.sh.chan(c) }
	fn hash(&self, h: &[u8; 32]) -> usize { self.sh.hashes.id(h) }
	fn tx(&self, t: &Txid) -> usize { txid_id(&self.sh.txs, t) }
	fn key(a: usize, b: usize) -> (usize, usize) { (a.min(b), a.max(b)) }

	fn tx_json(&self, tx: &Transaction, c: usize) -> Value {
		let fs = self.fscript.get(&c);
		json!({"tx": self.tx(&tx.compute_txid()),
			"ins": tx.input.iter().map(|i| json!({"tx": self.tx(&i.previous_output.txid), "vout": i.previous_output.vout})).collect::<Vec<_>>(),
			"outs": tx.output.iter().map(|o| json!({"v": o.value.to_sat(), "funding": fs.map_or(false, |s| *s == o.script_pubkey)})).collect::<Vec<_>>(),
			"locktime": tx.lock_time.to_consensus_u32()})
	}

	fn describe(&mut self, from: usize, w: &Wire) -> Value {
		match w {
			Wire::Add(m) => json!({"kind":"update_add_htlc","chan":self.chan(&m.channel_id),"id":m.htlc_id,"amt":m.amount_msat,"hash":self.hash(&m.payment_hash.0),"cltv":m.cltv_expiry}),
			Wire::Fulfill(m) => {
				let h = bitcoin::hashes::sha256::Hash::hash(&m.payment_preimage.0).to_byte_array();
				json!({"kind":"update_fulfill_htlc","chan":self.chan(&m.channel_id),"id":m.htlc_id,"hash":self.hash(&h)})
			},
			Wire::Fail(m) => json!({"kind":"update_fail_htlc","chan":self.chan(&m.channel_id),"id":m.htlc_id}),
			Wire::Malformed(m) => json!({"kind":"update_fail_malformed_htlc","chan":self.chan(&m.channel_id),"id":m.htlc_id}),
			Wire::Fee(m) => json!({"kind":"update_fee","chan":self.chan(&m.channel_id),"feerate":m.feerate_per_kw}),
			Wire::CS(m, b) => json!({"kind":"commitment_signed","chan":self.chan(&m[0].channel_id),"n":m.len(),"batch":b}),
			Wire::RAA(m) => {
				let secp = Secp256k1::new();
				let sp = SecretKey::from_slice(&m.per_commitment_secret).ok().map(|s| PublicKey::from_secret_key(&secp, &s));
				let spi = match sp { Some(p) => self.point(&p) as i64, None => -1 };
				let np = self.point(&m.next_per_commitment_point);
				json!({"kind":"revoke_and_ack","chan":self.chan(&m.channel_id),"secret_point":spi,"next_point":np})
			},
			Wire::Reestablish(m) => {
				let (nf, nfcs) = match &m.next_funding { Some(f) => (self.tx(&f.txid), f.should_retransmit(msgs::NextFundingFlag::CommitmentSigned)), None => (0, false) };
				let cfl = m.my_current_funding_locked.as_ref().map(|f| self.tx(&f.txid)).unwrap_or(0);
				json!({"kind":"channel_reestablish","chan":self.chan(&m.channel_id),"next_local":m.next_local_commitment_number,"next_remote":m.next_remote_commitment_number,
					"nf_tx":nf,"nf_cs":nfcs,"cfl_tx":cfl})
			},
			Wire::ChannelReady(m) => json!({"kind":"channel_ready","chan":self.chan(&m.channel_id)}),
			Wire::AnnSigs(m) => json!({"kind":"announcement_signatures","chan":self.chan(&m.channel_id)}),
			Wire::ChanUpdate(_) => json!({"kind":"channel_update","chan":0}),
			Wire::Error(m) => json!({"kind":"error","chan":self.chan(&m.channel_id),"data":m.data}),
			Wire::Warning(m) => json!({"kind":"warning","chan":self.chan(&m.channel_id),"data":m.data}),
			Wire::Stfu(m) => json!({"kind":"stfu","chan":self.chan(&m.channel_id),"initiator":m.initiator}),
			Wire::SpliceInit(m) => {
				let c = self.chan(&m.channel_id);
				self.fkeys.insert(c, (Some(m.funding_pubkey), None));
				let _ = from;
				json!({"kind":"splice_init","chan":c,"contrib":m.funding_contribution_satoshis,"feerate":m.funding_feerate_per_kw,"locktime":m.locktime})
			},
			Wire::SpliceAck(m) => {
				let c = self.chan(&m.channel_id);
				if let Some((Some(a), _)) = self.fkeys.get(&c).cloned() {
					self.fkeys.insert(c, (Some(a), Some(m.funding_pubkey)));
					self.fscript.insert(c, make_funding_redeemscript(&a, &m.funding_pubkey).to_p2wsh());
				}
				json!({"kind":"splice_ack","chan":c,"contrib":m.funding_contribution_satoshis})
			},
			Wire::SpliceLocked(m) => json!({"kind":"splice_locked","chan":self.chan(&m.channel_id),"tx":self.tx(&m.splice_txid)}),
			Wire::TxAddInput(m) => {
				let (ptx, value, shared) = match (&m.prevtx, &m.shared_input_txid) {
					(Some(p), _) => (self.tx(&p.compute_txid()), p.output.get(m.prevtx_out as usize).map(|o| o.value.to_sat()).unwrap_or(0), false),
					(None, Some(t)) => (self.tx(t), 0, true),
					_ => (0, 0, false),
				};
				json!({"kind":"tx_add_input","chan":self.chan(&m.channel_id),"serial":(m.serial_id % 1_000_000_000) as u64,"parity":(m.serial_id % 2) as u64,"ptx":ptx,"vout":m.prevtx_out,"value":value,"shared":shared})
			},
			Wire::TxAddOutput(m) => {
				let c = self.chan(&m.channel_id);
				let funding = self.fscript.get(&c).map_or(false, |s| *s == m.script);
				json!({"kind":"tx_add_output","chan":c,"serial":(m.serial_id % 1_000_000_000) as u64,"parity":(m.serial_id % 2) as u64,"sats":m.sats,"funding":funding})
			},
			Wire::TxRemoveInput(m) => json!({"kind":"tx_remove_input","chan":self.chan(&m.channel_id),"serial":(m.serial_id % 1_000_000_000) as u64}),
			Wire::TxRemoveOutput(m) => json!({"kind":"tx_remove_output","chan":self.chan(&m.channel_id),"serial":(m.serial_id % 1_000_000_000) as u64}),
			Wire::TxComplete(m) => json!({"kind":"tx_complete","chan":self.chan(&m.channel_id)}),
			Wire::TxSignatures(m) => json!({"kind":"tx_signatures","chan":self.chan(&m.channel_id),"tx":self.tx(&m.tx_hash),"nwit":m.witnesses.len(),"shared_sig":m.shared_input_signature.is_some()}),
			Wire::TxInitRbf(m) => json!({"kind":"tx_init_rbf","chan":self.chan(&m.channel_id),"locktime":m.locktime,"feerate":m.feerate_sat_per_1000_weight,"contrib":m.funding_output_contribution.unwrap_or(0)}),
			Wire::TxAckRbf(m) => json!({"kind":"tx_ack_rbf","chan":self.chan(&m.channel_id),"contrib":m.funding_output_contribution.unwrap_or(0)}),
			Wire::TxAbort(m) => json!({"kind":"tx_abort","chan":self.chan(&m.channel_id),"data":String::from_utf8_lossy(&m.data).to_string()}),
			Wire::Other(s) => json!({"kind":"other","chan":0,"dbg":s}),
		}
	}

	fn enqueue(&mut self, from: usize, to_pk: &PublicKey, w: Wire) {
		let to = self.idx_of(to_pk);
		let mut d = self.describe(from, &w);
		d["ev"] = json!("msg");
		d["from"] = json!(from);
		d["to"] = json!(to);
		self.ev(d);
		self.queues.entry((from, to)).or_default().push_back(w);
	}

	/// the content of the counterparty commitment each message of a commitment_signed batch signs
	fn cs_batch(&self, i: usize, channel_id: &ChannelId, batch: &Vec<msgs::CommitmentSigned>) -> Value {
		let c = self.chan(channel_id);
		let cur = self.nodes[i].node.list_channels().iter().find(|x| x.channel_id == *channel_id).and_then(|x| x.funding_txo).map(|f| self.tx(&f.txid)).unwrap_or(0);
		let lc = self.persisters[i].last_cp.lock().unwrap();
		Value::Array(batch.iter().map(|m| {
			let ftx = m.funding_txid.map(|t| self.tx(&t)).unwrap_or(0);
			let scope = if ftx == 0 { cur } else { ftx };
			match lc.get(&(c, scope)) {
				Some(cj) => json!({"ftx": ftx, "known": true, "c": cj, "nsigs": m.htlc_signatures.len()}),
				None => json!({"ftx": ftx, "known": false, "c": no_commitment(), "nsigs": m.htlc_signatures.len()}),
			}
		}).collect())
	}

	fn drain(&mut self) {
		for _ in 0..6 {
			let before = self.log.lock().unwrap().len();
			self.drain_once();
			let lg = self.log.lock().unwrap();
			if !lg[before..].iter().any(|e| e["ev"] == "event" && e["kind"] == "FundingTransactionReadyForSigning" && e["signed"] == json!(true)) { break; }
		}
	}

	fn drain_once(&mut self) {
		let mut want_disc: Vec<(usize, usize)> = Vec::new();
		for i in 0..self.nodes.len() {
			let evs = self.nodes[i].node.get_and_clear_pending_msg_events();
			for e in evs {
				match e {
					MessageSendEvent::UpdateHTLCs { node_id, channel_id, updates } => {
						for m in updates.update_add_htlcs { self.enqueue(i, &node_id, Wire::Add(m)); }
						for m in updates.update_fulfill_htlcs { self.enqueue(i, &node_id, Wire::Fulfill(m)); }
						for m in updates.update_fail_htlcs { self.enqueue(i, &node_id, Wire::Fail(m)); }
						for m in updates.update_fail_malformed_htlcs { self.enqueue(i, &node_id, Wire::Malformed(m)); }
						if let Some(m) = updates.update_fee { self.enqueue(i, &node_id, Wire::Fee(m)); }
						if !updates.commitment_signed.is_empty() {
							let b = self.cs_batch(i, &channel_id, &updates.commitment_signed);
							self.enqueue(i, &node_id, Wire::CS(updates.commitment_signed, b));
						}
					},
					MessageSendEvent::SendRevokeAndACK { node_id, msg } => self.enqueue(i, &node_id, Wire::RAA(msg)),
					MessageSendEvent::SendChannelReestablish { node_id, msg } => self.enqueue(i, &node_id, Wire::Reestablish(msg)),
					MessageSendEvent::SendChannelReady { node_id, msg } => self.enqueue(i, &node_id, Wire::ChannelReady(msg)),
					MessageSendEvent::SendAnnouncementSignatures { node_id, msg } => self.enqueue(i, &node_id, Wire::AnnSigs(msg)),
					MessageSendEvent::SendChannelUpdate { node_id, msg } => self.enqueue(i, &node_id, Wire::ChanUpdate(msg)),
					MessageSendEvent::SendStfu { node_id, msg } => self.enqueue(i, &node_id, Wire::Stfu(msg)),
					MessageSendEvent::SendSpliceInit { node_id, msg } => self.enqueue(i, &node_id, Wire::SpliceInit(msg)),
					MessageSendEvent::SendSpliceAck { node_id, msg } => self.enqueue(i, &node_id, Wire::SpliceAck(msg)),
					MessageSendEvent::SendSpliceLocked { node_id, msg } => self.enqueue(i, &node_id, Wire::SpliceLocked(msg)),
					MessageSendEvent::SendTxAddInput { node_id, msg } => self.enqueue(i, &node_id, Wire::TxAddInput(msg)),
					MessageSendEvent::SendTxAddOutput { node_id, msg } => self.enqueue(i, &node_id, Wire::TxAddOutput(msg)),
					MessageSendEvent::SendTxRemoveInput { node_id, msg } => self.enqueue(i, &node_id, Wire::TxRemoveInput(msg)),
					MessageSendEvent::SendTxRemoveOutput { node_id, msg } => self.enqueue(i, &node_id, Wire::TxRemoveOutput(msg)),
					MessageSendEvent::SendTxComplete { node_id, msg } => self.enqueue(i, &node_id, Wire::TxComplete(msg)),
					MessageSendEvent::SendTxSignatures { node_id, msg } => self.enqueue(i, &node_id, Wire::TxSignatures(msg)),
					MessageSendEvent::SendTxInitRbf { node_id, msg } => self.enqueue(i, &node_id, Wire::TxInitRbf(msg)),
					MessageSendEvent::SendTxAckRbf { node_id, msg } => self.enqueue(i, &node_id, Wire::TxAckRbf(msg)),
					MessageSendEvent::SendTxAbort { node_id, msg } => self.enqueue(i, &node_id, Wire::TxAbort(msg)),
					MessageSendEvent::HandleError { node_id, action } => match action {
						ErrorAction::SendErrorMessage { msg } => self.enqueue(i, &node_id, Wire::Error(msg)),
						ErrorAction::DisconnectPeer { msg: Some(msg) } => { self.enqueue(i, &node_id, Wire::Error(msg)); let to = self.idx_of(&node_id); want_disc.push(Self::key(i, to)); },
						ErrorAction::DisconnectPeerWithWarning { msg } => {
							self.enqueue(i, &node_id, Wire::Warning(msg));
							let to = self.idx_of(&node_id);
							want_disc.push(Self::key(i, to));
						},
						ErrorAction::SendWarningMessage { msg, .. } => self.enqueue(i, &node_id, Wire::Warning(msg)),
						ErrorAction::DisconnectPeer { msg: None } => {
							let to = self.idx_of(&node_id);
							self.ev(json!({"ev":"msg","from":i,"to":to,"kind":"disconnect_peer","chan":0}));
							want_disc.push(Self::key(i, to));
						},
						_ => {},
					},
					MessageSendEvent::BroadcastChannelUpdate { .. }
					| MessageSendEvent::BroadcastChannelAnnouncement { .. }
					| MessageSendEvent::BroadcastNodeAnnouncement { .. }
					| MessageSendEvent::SendChannelAnnouncement { .. } => {},
					other => {
						let s: String = format!("{:?}", other).chars().take(60).collect();
						self.ev(json!({"ev":"msg_other","from":i,"dbg":s}));
					},
				}
			}
			let events = self.nodes[i].node.get_and_clear_pending_events();
			for e in events { self.log_event(i, e); }
			{
				use lightning::events::EventsProvider;
				let got = std::cell::RefCell::new(Vec::new());
				self.nodes[i].chain_monitor.chain_monitor.process_pending_events(&|e: Event| { got.borrow_mut().push(e); Ok(()) });
				for e in got.into_inner() { self.log_event(i, e); }
			}
			let txs: Vec<_> = self.nodes[i].tx_broadcaster.txn_broadcasted.lock().unwrap().drain(..).collect();
			let types: Vec<_> = self.nodes[i].tx_broadcaster.txn_types.lock().unwrap().drain(..).collect();
			for (k, tx) in txs.iter().enumerate() {
				let ty = types.get(k).map(|t| format!("{:?}", t)).unwrap_or_default();
				let ty: String = ty.chars().take_while(|c| c.is_alphanumeric()).collect();
				let txid = tx.compute_txid();
				if !self.confirmed.contains(&txid) && !self.mempool.iter().any(|m| m.compute_txid() == txid) { self.mempool.push(tx.clone()); }
				// which channel's funding does it spend?
				let mut c = 0;
				for (_, cid) in self.chan_ids.iter() {
					let ci = self.chan(cid);
					if self.fscript.get(&ci).map_or(false, |s| tx.output.iter().any(|o| o.script_pubkey == *s)) { c = ci; }
				}
				let mut d = self.tx_json(tx, c);
				d["ev"] = json!("broadcast"); d["node"] = json!(i); d["type"] = json!(ty); d["chan"] = json!(c);
				self.ev(d);
			}
		}
		for i in 0..self.nodes.len() {
			if self.nodes[i].node.get_and_clear_needs_persistence() {
				self.mgr_snaps[i].push(self.nodes[i].node.encode());
				let k = self.mgr_snaps[i].len() - 1;
				let pend = self.persisters[i].pending.lock().unwrap().len();
				self.ev(json!({"ev":"mgr_snap","node":i,"k":k,"pending_writes":pend}));
			}
		}
		want_disc.sort();
		want_disc.dedup();
		for (a, b) in want_disc { self.do_disconnect(a, b); }
	}

	fn do_disconnect(&mut self, a: usize, b: usize) -> bool {
		if !*self.connected.get(&Self::key(a, b)).unwrap_or(&false) { return false; }
		self.connected.insert(Self::key(a, b), false);
		let la = self.queues.get(&(a, b)).map(|q| q.len()).unwrap_or(0);
		let lb = self.queues.get(&(b, a)).map(|q| q.len()).unwrap_or(0);
		self.ev(json!({"ev":"disconnect","a":a.min(b),"b":a.max(b),"lost_ab":la,"lost_ba":lb}));
		self.queues.remove(&(a, b));
		self.queues.remove(&(b, a));
		let (pa, pb) = (self.nodes[a].node.get_our_node_id(), self.nodes[b].node.get_our_node_id());
		self.nodes[a].node.peer_disconnected(pb);
		self.nodes[b].node.peer_disconnected(pa);
		self.drain();
		true
	}

	fn do_reconnect(&mut self, a: usize, b: usize) -> bool {
		if *self.connected.get(&Self::key(a, b)).unwrap_or(&true) { return false; }
		self.connected.insert(Self::key(a, b), true);
		self.ev(json!({"ev":"reconnect","a":a.min(b),"b":a.max(b)}));
		let (pa, pb) = (self.nodes[a].node.get_our_node_id(), self.nodes[b].node.get_our_node_id());
		let init_b = msgs::Init { features: self.nodes[b].node.init_features(), networks: None, remote_network_address: None };
		let init_a = msgs::Init { features: self.nodes[a].node.init_features(), networks: None, remote_network_address: None };
		self.nodes[a].node.peer_connected(pb, &init_b, true).unwrap();
		self.nodes[b].node.peer_connected(pa, &init_a, false).unwrap();
		self.drain();
		true
	}
}

impl Net {
	fn sign_ready(&mut self, i: usize, channel_id: ChannelId, peer: PublicKey, unsigned: Transaction) -> bool {
		let signed = match self.nodes[i].wallet_source.sign_tx(unsigned) { Ok(t) => t, Err(_) => return false };
		let r = self.nodes[i].node.funding_transaction_signed(&channel_id, &peer, signed);
		if let Err(e) = &r { let s: String = format!("{:?}", e).chars().take(200).collect(); self.ev(json!({"ev":"sign_error","node":i,"why":s})); }
		r.is_ok()
	}

	fn log_event(&mut self, i: usize, e: Event) {
		match e {
			Event::PaymentClaimable { payment_hash, amount_msat, .. } => {
				let h = self.hash(&payment_hash.0);
				self.ev(json!({"ev":"event","node":i,"kind":"PaymentClaimable","hash":h,"amt":amount_msat,"chan":0}));
			},
			Event::PaymentClaimed { payment_hash, amount_msat, .. } => {
				let h = self.hash(&payment_hash.0);
				self.ev(json!({"ev":"event","node":i,"kind":"PaymentClaimed","hash":h,"amt":amount_msat,"chan":0}));
			},
			Event::PaymentSent { payment_hash, payment_preimage, .. } => {
				let h = self.hash(&payment_hash.0);
				let ph = bitcoin::hashes::sha256::Hash::hash(&payment_preimage.0).to_byte_array();
				self.ev(json!({"ev":"event","node":i,"kind":"PaymentSent","hash":h,"preimage_ok": ph == payment_hash.0,"chan":0}));
			},
			Event::PaymentFailed { payment_hash, .. } => {
				let h = payment_hash.map(|p| self.hash(&p.0)).unwrap_or(0);
				self.ev(json!({"ev":"event","node":i,"kind":"PaymentFailed","hash":h,"chan":0}));
			},
			Event::PaymentPathFailed { payment_hash, .. } => {
				let h = self.hash(&payment_hash.0);
				self.ev(json!({"ev":"event","node":i,"kind":"PaymentPathFailed","hash":h,"chan":0}));
			},
			Event::HTLCHandlingFailed { failure_type, .. } => {
				// (a recipient refusing an HTLC by itself -- e.g. too close to its expiry -- names the payment)
				let (t, h) = match failure_type {
					lightning::events::HTLCHandlingFailureType::Receive { payment_hash } => ("Receive", self.hash(&payment_hash.0)),
					other => { let _ = other; ("Other", 0) },
				};
				self.ev(json!({"ev":"event","node":i,"kind":"HTLCHandlingFailed","type":t,"hash":h,"chan":0}));
			},
			Event::ChannelClosed { channel_id, reason, .. } => {
				let c = self.chan(&channel_id);
				let r = match reason {
					ClosureReason::CounterpartyForceClosed { .. } => "CounterpartyForceClosed",
					ClosureReason::HolderForceClosed { .. } => "HolderForceClosed",
					ClosureReason::CommitmentTxConfirmed => "CommitmentTxConfirmed",
					ClosureReason::ProcessingError { .. } => "ProcessingError",
					ClosureReason::OutdatedChannelManager => "OutdatedChannelManager",
					ClosureReason::HTLCsTimedOut { .. } => "HTLCsTimedOut",
					_ => "Other",
				};
				let why: String = format!("{}", reason).chars().take(160).collect();
				self.ev(json!({"ev":"event","node":i,"kind":"ChannelClosed","chan":c,"reason":r,"why":why}));
			},
			Event::ChannelReady { channel_id, funding_txo, .. } => {
				let c = self.chan(&channel_id);
				let (t, v) = funding_txo.map(|f| (self.tx(&f.txid), f.vout)).unwrap_or((0, 0));
				self.ev(json!({"ev":"event","node":i,"kind":"ChannelReady","chan":c,"tx":t,"vout":v}));
			},
			Event::SpliceNegotiated { channel_id, new_funding_txo, .. } => {
				let c = self.chan(&channel_id);
				self.ev(json!({"ev":"event","node":i,"kind":"SpliceNegotiated","chan":c,"tx":self.tx(&new_funding_txo.txid),"vout":new_funding_txo.vout}));
			},
			Event::SpliceNegotiationFailed { channel_id, reason, contribution, .. } => {
				let c = self.chan(&channel_id);
				let r: String = format!("{:?}", reason).chars().take_while(|c| c.is_alphanumeric()).collect();
				let why: String = format!("{:?}", reason).chars().take(160).collect();
				self.ev(json!({"ev":"event","node":i,"kind":"SpliceNegotiationFailed","chan":c,"reason":r,"why":why,"had_contribution":contribution.is_some()}));
			},
			Event::DiscardFunding { channel_id, funding_info } => {
				let c = self.chan(&channel_id);
				let (ni, no) = match &funding_info {
					lightning::events::FundingInfo::Contribution { inputs, outputs } => (inputs.len(), outputs.len()),
					_ => (0, 0),
				};
				self.ev(json!({"ev":"event","node":i,"kind":"DiscardFunding","chan":c,"n_in":ni,"n_out":no}));
			},
			Event::FundingTransactionReadyForSigning { channel_id, counterparty_node_id, unsigned_transaction, .. } => {
				let c = self.chan(&channel_id);
				let mut d = self.tx_json(&unsigned_transaction, c);
				let hold = self.hold_sign[i];
				d["ev"] = json!("event"); d["node"] = json!(i); d["kind"] = json!("FundingTransactionReadyForSigning"); d["chan"] = json!(c);
				d["signed"] = json!(!hold);
				self.ev(d);
				if hold { self.to_sign[i].push((channel_id, counterparty_node_id, unsigned_transaction)); }
				else {
					let ok = self.sign_ready(i, channel_id, counterparty_node_id, unsigned_transaction);
					self.ev(json!({"ev":"signed","node":i,"chan":c,"ok":ok}));
					if !ok {
						let okc = self.nodes[i].node.cancel_funding_contributed(&channel_id, &counterparty_node_id).is_ok();
						self.ev(json!({"ev":"cancel","node":i,"chan":c,"ok":okc}));
					}
				}
			},
			Event::BumpTransaction(b) => {
				self.ev(json!({"ev":"event","node":i,"kind":"BumpTransaction","chan":0}));
				let node = &self.nodes[i];
				let _ = catch_unwind(AssertUnwindSafe(|| node.bump_tx_handler.handle_event(&b)));
			},
			other => {
				let t: String = format!("{:?}", other).chars().take_while(|c| c.is_alphanumeric()).collect();
				self.ev(json!({"ev":"event","node":i,"kind":t,"chan":0}));
			},
		}
	}

	fn deliver_one(&mut self, from: usize, to: usize) -> bool {
		let w = match self.queues.get_mut(&(from, to)).and_then(|q| q.pop_front()) { Some(w) => w, None => return false };
		let dead = match &w { Wire::Reestablish(m) => Some(m.channel_id), Wire::Error(m) => Some(m.channel_id), _ => None };
		if let Some(cid) = dead {
			let has = |i: usize| self.nodes[i].node.list_channels().iter().any(|c| c.channel_id == cid);
			if self.sh.chans.lock().unwrap().contains(&cid) && !has(from) && !has(to) { return true; }
		}
		let mut d = self.describe(from, &w);
		d["ev"] = json!("deliver");
		d["from"] = json!(from);
		d["to"] = json!(to);
		self.ev(d);
		let from_pk = self.nodes[from].node.get_our_node_id();
		let n = &self.nodes[to].node;
		match w {
			Wire::Add(m) => n.handle_update_add_htlc(from_pk, &m),
			Wire::Fulfill(m) => n.handle_update_fulfill_htlc(from_pk, m),
			Wire::Fail(m) => n.handle_update_fail_htlc(from_pk, &m),
			Wire::Malformed(m) => n.handle_update_fail_malformed_htlc(from_pk, &m),
			Wire::Fee(m) => n.handle_update_fee(from_pk, &m),
			Wire::CS(m, _) => { if m.len() == 1 { n.handle_commitment_signed(from_pk, &m[0]) } else { n.handle_commitment_signed_batch_test(from_pk, &m) } },
			Wire::RAA(m) => n.handle_revoke_and_ack(from_pk, &m),
			Wire::Reestablish(m) => n.handle_channel_reestablish(from_pk, &m),
			Wire::ChannelReady(m) => n.handle_channel_ready(from_pk, &m),
			Wire::AnnSigs(m) => n.handle_announcement_signatures(from_pk, &m),
			Wire::ChanUpdate(m) => n.handle_channel_update(from_pk, &m),
			Wire::Error(m) => n.handle_error(from_pk, &m),
			Wire::Warning(_) => {},
			Wire::Stfu(m) => n.handle_stfu(from_pk, &m),
			Wire::SpliceInit(m) => n.handle_splice_init(from_pk, &m),
			Wire::SpliceAck(m) => n.handle_splice_ack(from_pk, &m),
			Wire::SpliceLocked(m) => n.handle_splice_locked(from_pk, &m),
			Wire::TxAddInput(m) => n.handle_tx_add_input(from_pk, &m),
			Wire::TxAddOutput(m) => n.handle_tx_add_output(from_pk, &m),
			Wire::TxRemoveInput(m) => n.handle_tx_remove_input(from_pk, &m),
			Wire::TxRemoveOutput(m) => n.handle_tx_remove_output(from_pk, &m),
			Wire::TxComplete(m) => n.handle_tx_complete(from_pk, &m),
			Wire::TxSignatures(m) => n.handle_tx_signatures(from_pk, &m),
			Wire::TxInitRbf(m) => n.handle_tx_init_rbf(from_pk, &m),
			Wire::TxAckRbf(m) => n.handle_tx_ack_rbf(from_pk, &m),
			Wire::TxAbort(m) => n.handle_tx_abort(from_pk, &m),
			Wire::Other(_) => {},
		}
		self.drain();
		true
	}

	fn deliver_all(&mut self) {
		let n = self.nodes.len();
		let mut guard = 0;
		loop {
			let mut any = false;
			for f in 0..n { for t in 0..n { if f != t { while self.deliver_one(f, t) { any = true; guard += 1; if guard > 3000 { break; } } } } }
			for i in 0..n { if self.nodes[i].node.needs_pending_htlc_processing() { self.nodes[i].node.process_pending_htlc_forwards(); self.ev(json!({"ev":"forward","node":i})); self.drain(); any = true; } }
			if !any || guard > 3000 { break; }
		}
	}

	fn height(&self, i: usize) -> u32 { self.nodes[i].best_block_info().1 }

	/// append one block to the chain: every broadcast transaction that can confirm (inputs unspent; `only`
	/// restricts the choice among conflicting candidates to the given tx id)
	fn mine(&mut self, only: Option<usize>) {
		let mut txs: Vec<Transaction> = Vec::new();
		let pool: Vec<Transaction> = self.mempool.clone();
		for tx in pool.iter() {
			let id = self.tx(&tx.compute_txid());
			if let Some(o) = only { if o != id { continue; } }
			if tx.input.iter().any(|i| self.spent.contains(&i.previous_output)) { continue; }
			for i in tx.input.iter() { self.spent.insert(i.previous_output); }
			self.confirmed.insert(tx.compute_txid());
			txs.push(tx.clone());
		}
		let spent = self.spent.clone();
		let conf = self.confirmed.clone();
		self.mempool.retain(|m| !conf.contains(&m.compute_txid()) && !m.input.iter().any(|i| spent.contains(&i.previous_output)));
		let ids: Vec<usize> = txs.iter().map(|t| self.tx(&t.compute_txid())).collect();
		self.chain.push(txs);
		self.ev(json!({"ev":"mined","h": self.base_height + self.chain.len() as u32, "txs": ids}));
	}

	/// hand node i the next `k` blocks of the chain it has not seen yet
	fn sync(&mut self, i: usize, k: usize) -> bool {
		let mut did = false;
		for _ in 0..k {
			let h = self.height(i);
			let idx = (h - self.base_height) as usize;
			if idx >= self.chain.len() { break; }
			let txs = self.chain[idx].clone();
			let ids: Vec<usize> = txs.iter().map(|t| self.tx(&t.compute_txid())).collect();
			self.ev(json!({"ev":"block","node":i,"h":h + 1,"txs":ids}));
			let block = create_dummy_block(self.nodes[i].best_block_hash(), h + 1, txs);
			connect_block(&self.nodes[i], &block);
			self.drain();
			did = true;
		}
		did
	}

	fn proj(&mut self, fin: bool) {
		for i in 0..self.nodes.len() {
			let chans = self.nodes[i].node.list_channels();
			for cd in chans {
				let c = self.chan(&cd.channel_id);
				let peer = self.idx_of(&cd.counterparty.node_id);
				let (ft, fv) = cd.funding_txo.map(|f| (self.tx(&f.txid), f.index as u32)).unwrap_or((0, 0));
				let scid_h = cd.short_channel_id.map(|s| (s >> 40) as u32).unwrap_or(0);
				let ncand = cd.splice_details.as_ref().map(|s| s.candidates.len()).unwrap_or(0);
				self.ev(json!({"ev":"proj","node":i,"chan":c,"peer":peer,"ftx":ft,"fvout":fv,"value":cd.channel_value_satoshis,
					"out_cap":cd.outbound_capacity_msat,"in_cap":cd.inbound_capacity_msat,
					"usable":cd.is_usable,"ready":cd.is_channel_ready,"n_in":cd.pending_inbound_htlcs.len(),"n_out":cd.pending_outbound_htlcs.len(),
					"confs":cd.confirmations.unwrap_or(0),"confs_req":cd.confirmations_required.unwrap_or(0),"scid_h":scid_h,
					"splice_cands":ncand,"final":fin,"h":self.height(i)}));
			}
			if fin { self.ev(json!({"ev":"fin","node":i})); }
		}
	}
}

impl Net {
	fn path(&self, src: usize, dst: usize) -> Option<Vec<(usize, usize)>> {
		// the network is a line 0 - 1 - 2
		if src == dst { return None; }
		let mut v = Vec::new();
		let mut cur = src;
		while cur != dst { let nxt = if dst > cur { cur + 1 } else { cur - 1 }; v.push((cur, nxt)); cur = nxt; }
		Some(v)
	}

	fn send(&mut self, src: usize, dst: usize, amt: u64) -> bool {
		let mut hops = Vec::new();
		let final_cltv = 400u32;
		let path_nodes = match self.path(src, dst) { Some(p) => p, None => return false };
		let nh = path_nodes.len();
		for (k, (a, b)) in path_nodes.iter().enumerate() {
			let scid = match self.scids.get(&Self::key(*a, *b)) { Some(s) => *s, None => return false };
			let last = k == nh - 1;
			let (fee, delta) = if last { (amt, final_cltv) } else {
				let cfg = self.nodes[*b].node.get_current_config();
				(cfg.channel_config.forwarding_fee_base_msat as u64, cfg.channel_config.cltv_expiry_delta as u32)
			};
			hops.push(RouteHop {
				pubkey: self.nodes[*b].node.get_our_node_id(),
				node_features: NodeFeatures::from_le_bytes(self.nodes[*b].node.node_features().le_flags().to_vec()),
				short_channel_id: scid, channel_features: ChannelFeatures::empty(), fee_msat: fee, cltv_expiry_delta: delta,
				maybe_announced_channel: true,
			});
		}
		let mut pre = [0u8; 32];
		let cnt = self.pays.len() as u64 + 1;
		pre[..8].copy_from_slice(&cnt.to_be_bytes());
		pre[8..16].copy_from_slice(&self.run.to_be_bytes());
		pre[31] = 0x5b;
		let preimage = PaymentPreimage(pre);
		let hash = PaymentHash(bitcoin::hashes::sha256::Hash::hash(&pre).to_byte_array());
		let secret = match self.nodes[dst].node.create_inbound_payment_for_hash(hash, Some(amt), 7200, None, None) { Ok(x) => x.0, Err(_) => return false };
		let pid = PaymentId(hash.0);
		let route_params = lightning::routing::router::RouteParameters::from_payment_params_and_value(
			lightning::routing::router::PaymentParameters::from_node_id(self.nodes[dst].node.get_our_node_id(), final_cltv), amt);
		let route = Route { paths: vec![Path { hops, blinded_tail: None }], route_params };
		let h = self.hash(&hash.0);
		let first = path_nodes[0];
		let c = self.chan(&self.chan_ids[&Self::key(first.0, first.1)]);
		let mark = self.log.lock().unwrap().len();
		let res = self.nodes[src].node.send_payment_with_route(route, hash, RecipientOnionFields::secret_only(secret, amt), pid);
		let api_ok = res.is_ok();
		self.pays.push(Pay { preimage, hash, secret, dst });
		self.drain();
		let refused = !api_ok || self.log.lock().unwrap()[mark..].iter().any(|e| e["ev"] == "event" && e["hash"] == json!(h)
			&& (e["kind"] == "PaymentFailed" || e["kind"] == "PaymentPathFailed"));
		let rec = json!({"ev":"send","node":src,"dst":dst,"chan":c,"hash":h,"amt":amt,"result": if refused {"err"} else {"ok"}});
		self.log.lock().unwrap().insert(mark, rec);
		!refused
	}

	/// the user asks node `i` to splice the channel with `j`
	fn splice(&mut self, i: usize, j: usize, kind: &str, amt: u64, feerate: u64, allow_rbf: bool) -> bool {
		let cid = match self.chan_ids.get(&Self::key(i, j)) { Some(c) => *c, None => return false };
		let c = self.chan(&cid);
		let pj = self.nodes[j].node.get_our_node_id();
		// (a user who does not want to replace a pending splice waits until it is locked)
		let pending = self.nodes[i].node.list_channels().iter().find(|x| x.channel_id == cid).map_or(false, |x| x.splice_details.is_some());
		if pending && !allow_rbf { return false; }
		let template = match self.nodes[i].node.splice_channel(&cid, &pj) {
			Ok(t) => t,
			Err(e) => { let s: String = format!("{:?}", e).chars().take(120).collect(); self.ev(json!({"ev":"splice","node":i,"peer":j,"chan":c,"kind":kind,"amt":amt,"feerate":feerate,"result":"err","stage":"template","contrib":0,"why":s})); return true; },
		};
		let min_rbf = template.min_rbf_feerate();
		let mut fr = FeeRate::from_sat_per_kwu(feerate.max(253));
		if let Some(m) = min_rbf { if fr < m { fr = m; } }
		let wallet = WalletSync::new(Arc::clone(&self.nodes[i].wallet_source), self.nodes[i].logger);
		let out_script = self.nodes[i].wallet_source.get_change_script().unwrap();
		let built = match kind {
			"in" => template.splice_in_sync(Amount::from_sat(amt), fr, FeeRate::MAX, &wallet).map_err(|e| format!("{:?}", e)),
			"out" => template.splice_out(vec![TxOut { value: Amount::from_sat(amt), script_pubkey: out_script }], fr, FeeRate::MAX).map_err(|e| format!("{:?}", e)),
			_ => {
				// add `amt`, pay out a third of it
				template.without_prior_contribution(fr, FeeRate::MAX).with_coin_selection_source_sync(&wallet)
					.add_value(Amount::from_sat(amt)).map_err(|e| format!("{:?}", e))
					.and_then(|b| b.add_outputs(vec![TxOut { value: Amount::from_sat(amt / 3), script_pubkey: out_script }]).build().map_err(|e| format!("{:?}", e)))
			},
		};
		let contribution = match built {
			Ok(x) => x,
			Err(e) => { let s: String = e.chars().take(120).collect(); self.ev(json!({"ev":"splice","node":i,"peer":j,"chan":c,"kind":kind,"amt":amt,"feerate":feerate,"result":"err","stage":"build","contrib":0,"why":s})); return true; },
		};
		// (the test wallet does not lock the coins it hands out: a user does not offer the same coin to two splices)
		let ins: Vec<bitcoin::OutPoint> = contribution.inputs().iter().map(|u| u.outpoint()).collect();
		if ins.iter().any(|o| self.reserved.contains(o)) {
			self.ev(json!({"ev":"splice","node":i,"peer":j,"chan":c,"kind":kind,"amt":amt,"feerate":feerate,"result":"err","stage":"coins","contrib":0,"why":"coin already offered"}));
			return true;
		}
		for o in ins { self.reserved.insert(o); }
		let net = contribution.net_value().to_sat();
		let fee = contribution.estimated_fee().to_sat();
		let mark = self.log.lock().unwrap().len();
		// (a locktime no node of the network considers to be in the future: the test broadcaster refuses to
		// "broadcast" a transaction that is not final on its own node's chain view)
		let lt = (0..self.nodes.len()).map(|x| self.height(x)).min().unwrap();
		let res = self.nodes[i].node.funding_contributed(&cid, &pj, contribution, Some(lt));
		let s: String = format!("{:?}", res).chars().take(120).collect();
		self.log.lock().unwrap().insert(mark, json!({"ev":"splice","node":i,"peer":j,"chan":c,"kind":kind,"amt":amt,"feerate":fr.to_sat_per_kwu(),
			"result": if res.is_ok() {"ok"} else {"err"},"stage":"contributed","contrib":net,"est_fee":fee,"why":s}));
		self.drain();
		true
	}

	fn step(&mut self, op: &Value, rng: &mut StdRng) {
		let name = op["op"].as_str().unwrap_or("");
		let n = self.nodes.len();
		let u = |k: &str| op[k].as_u64().map(|x| x as usize);
		let mut did = true;
		match name {
			"send" => {
				match (u("from"), u("to")) {
					(Some(s), Some(d)) if s < n && d < n && s != d => { let amt = op["amt"].as_u64().unwrap_or(5_000_000); self.send(s, d, amt); },
					_ => did = false,
				}
			},
			"claim" | "fail" => {
				let k = u("pay").unwrap_or(usize::MAX);
				if k < self.pays.len() {
					let (dst, pre, hash) = (self.pays[k].dst, self.pays[k].preimage, self.pays[k].hash);
					// only a payment the recipient has been shown can be resolved by it
					let h = self.hash(&hash.0);
					let shown = self.log.lock().unwrap().iter().any(|e| e["ev"] == "event" && e["kind"] == "PaymentClaimable" && e["hash"] == json!(h));
					let done = self.log.lock().unwrap().iter().any(|e| (e["ev"] == "claim" || e["ev"] == "fail") && e["hash"] == json!(h));
					if shown && !done {
						self.ev(json!({"ev":name,"node":dst,"hash":h}));
						if name == "claim" { self.nodes[dst].node.claim_funds(pre); } else { self.nodes[dst].node.fail_htlc_backwards(&hash); }
						self.drain();
						if self.nodes[dst].node.needs_pending_htlc_processing() { self.ev(json!({"ev":"forward","node":dst})); self.nodes[dst].node.process_pending_htlc_forwards(); self.drain(); }
					} else { did = false; }
				} else { did = false; }
			},
			"resolve_all" => {
				// claim / fail everything the recipients have been shown and not resolved yet
				let np = self.pays.len();
				let (ex0, sk0) = (self.executed, self.skipped);
				for k in 0..np { let o = if rng.gen_bool(0.7) { "claim" } else { "fail" }; self.step(&json!({"op": o, "pay": k}), rng); self.deliver_all(); }
				self.executed = ex0; self.skipped = sk0;
			},
			"splice" => {
				match (u("node"), u("peer")) {
					(Some(i), Some(j)) if i < n && j < n && i != j => {
						did = self.splice(i, j, op["kind"].as_str().unwrap_or("in"), op["amt"].as_u64().unwrap_or(50_000), op["feerate"].as_u64().unwrap_or(253), op["rbf"].as_bool().unwrap_or(false));
					},
					_ => did = false,
				}
			},
			"cancel" => {
				match (u("node"), u("peer")) {
					(Some(i), Some(j)) if i < n && j < n && self.chan_ids.contains_key(&Self::key(i, j)) => {
						let cid = self.chan_ids[&Self::key(i, j)];
						let pj = self.nodes[j].node.get_our_node_id();
						let c = self.chan(&cid);
						let mark = self.log.lock().unwrap().len();
						let ok = self.nodes[i].node.cancel_funding_contributed(&cid, &pj).is_ok();
						self.log.lock().unwrap().insert(mark, json!({"ev":"cancel","node":i,"chan":c,"ok":ok}));
						self.drain();
					},
					_ => did = false,
				}
			},
			"quiesce" => {
				// (test-only API) propose quiescence without anything to do while quiescent
				match (u("node"), u("peer")) {
					(Some(i), Some(j)) if i < n && j < n && self.chan_ids.contains_key(&Self::key(i, j)) => {
						let cid = self.chan_ids[&Self::key(i, j)];
						let pj = self.nodes[j].node.get_our_node_id();
						let ok = self.nodes[i].node.maybe_propose_quiescence(&pj, &cid).is_ok();
						self.ev(json!({"ev":"quiesce","node":i,"chan":self.chan(&cid),"ok":ok}));
						self.drain();
					},
					_ => did = false,
				}
			},
			"hold_sign" => {
				match u("node") { Some(i) if i < n => { self.hold_sign[i] = op["on"].as_bool().unwrap_or(true); self.ev(json!({"ev":"hold_sign","node":i,"on":self.hold_sign[i]})); }, _ => did = false }
			},
			"sign" => {
				match u("node") {
					Some(i) if i < n && !self.to_sign[i].is_empty() => {
						let (cid, pk, tx) = self.to_sign[i].remove(0);
						let c = self.chan(&cid);
						let mark = self.log.lock().unwrap().len();
						let ok = self.sign_ready(i, cid, pk, tx);
						self.log.lock().unwrap().insert(mark, json!({"ev":"signed","node":i,"chan":c,"ok":ok}));
						self.drain();
						if !ok && op["or_cancel"].as_bool().unwrap_or(false) {
							// (the wallet can no longer sign -- e.g. an earlier candidate spending the same coin confirmed
							// meanwhile --: the user gives the contribution up)
							let mark = self.log.lock().unwrap().len();
							let okc = self.nodes[i].node.cancel_funding_contributed(&cid, &pk).is_ok();
							self.log.lock().unwrap().insert(mark, json!({"ev":"cancel","node":i,"chan":c,"ok":okc}));
							self.drain();
						}
					},
					_ => did = false,
				}
			},
			"deliver" => { match (u("from"), u("to")) { (Some(f), Some(t)) => { let k = op["k"].as_u64().unwrap_or(1); let mut any = false; for _ in 0..k { if self.deliver_one(f, t) { any = true; } else { break; } } did = any; }, _ => did = false } },
			"deliver_n" => {
				// n messages in total, one at a time, alternating between the directions that have something queued
				let total = op["n"].as_u64().unwrap_or(1);
				let mut turn = op["first"].as_u64().unwrap_or(0) as usize;
				let mut any = false;
				for _ in 0..total {
					let mut dirs: Vec<(usize, usize)> = Vec::new();
					for f in 0..n { for t in 0..n { if f != t && self.queues.get(&(f, t)).map_or(false, |q| !q.is_empty()) { dirs.push((f, t)); } } }
					if dirs.is_empty() { break; }
					let d = dirs[turn % dirs.len()];
					turn += 1;
					if self.deliver_one(d.0, d.1) { any = true; }
				}
				did = any;
			},
			"deliver_all" => self.deliver_all(),
			"forward" => { match u("node") { Some(i) if i < n && self.nodes[i].node.needs_pending_htlc_processing() => { self.ev(json!({"ev":"forward","node":i})); self.nodes[i].node.process_pending_htlc_forwards(); self.drain(); }, _ => did = false } },
			"tick" => { match u("node") { Some(i) if i < n => { self.ev(json!({"ev":"tick","node":i})); self.nodes[i].node.timer_tick_occurred(); self.drain(); }, _ => did = false } },
			"disconnect" => { match (u("a"), u("b")) { (Some(a), Some(b)) if a < n && b < n => did = self.do_disconnect(a, b), _ => did = false } },
			"reconnect" => { match (u("a"), u("b")) { (Some(a), Some(b)) if a < n && b < n => did = self.do_reconnect(a, b), _ => did = false } },
			"mine" => {
				// n blocks; the first takes what can confirm (optionally only candidate `tx`); given to `nodes` (default: all)
				let k = op["n"].as_u64().unwrap_or(1) as usize;
				let only = op["tx"].as_u64().map(|x| x as usize);
				if op["empty"].as_bool().unwrap_or(false) { for _ in 0..k { let hold: Vec<Transaction> = self.mempool.drain(..).collect(); self.mine(None); self.mempool = hold; } }
				else { for b in 0..k { self.mine(if b == 0 { only } else { None }); } }
				let who: Vec<usize> = match op["nodes"].as_array() { Some(a) => a.iter().filter_map(|x| x.as_u64().map(|y| y as usize)).filter(|x| *x < n).collect(), None => (0..n).collect() };
				for i in who { self.sync(i, usize::MAX >> 1); }
			},
			"sync" => { match u("node") { Some(i) if i < n => { let k = op["k"].as_u64().map(|x| x as usize).unwrap_or(usize::MAX >> 1); did = self.sync(i, k); }, _ => did = false } },
			"persist_mode" => {
				match u("node") { Some(i) if i < n => { let inprog = op["mode"].as_str() == Some("inprogress"); *self.persisters[i].in_progress.lock().unwrap() = inprog; self.ev(json!({"ev":"persist_mode","node":i,"inprogress":inprog})); }, _ => did = false }
			},
			"complete" => {
				match u("node") {
					Some(i) if i < n => {
						let pend = self.persisters[i].pending.lock().unwrap().clone();
						if pend.is_empty() { did = false; } else {
							let pick: Vec<(usize, u64)> = match op["which"].as_str().unwrap_or("oldest") { "all" => pend.clone(), "newest" => vec![pend[pend.len() - 1]], _ => vec![pend[0]] };
							for (c, id) in pick {
								self.persisters[i].pending.lock().unwrap().retain(|x| *x != (c, id));
								let cid = self.sh.chans.lock().unwrap()[c - 1];
								self.ev(json!({"ev":"complete","node":i,"chan":c,"id":id}));
								let _ = self.nodes[i].chain_monitor.chain_monitor.channel_monitor_updated(cid, id);
								self.drain();
							}
						}
					},
					_ => did = false,
				}
			},
			"restart" => { match u("node") { Some(i) if i < n && self.persisters[i].pending.lock().unwrap().is_empty() && !*self.persisters[i].in_progress.lock().unwrap() => self.restart(i, op["mon"].as_str().unwrap_or("latest")), _ => did = false } },
			"settle" => {
				let (ex0, sk0) = (self.executed, self.skipped);
				// wind down: every write completes, peers reconnect, everything is delivered, payments are resolved,
				// the chain is extended until every negotiated splice is buried on every node
				for i in 0..n { self.step(&json!({"op":"persist_mode","node":i,"mode":"completed"}), rng); self.step(&json!({"op":"complete","node":i,"which":"all"}), rng); self.step(&json!({"op":"hold_sign","node":i,"on":false}), rng); while !self.to_sign[i].is_empty() { self.step(&json!({"op":"sign","node":i,"or_cancel":true}), rng); } }
				let edges = self.edges.clone();
				// (a node may ask its transport to drop the peer -- e.g. to leave a quiescence it no longer needs --:
				// the users simply reconnect)
				let wind = |net: &mut Net, rng: &mut StdRng| {
					for _ in 0..4 {
						let mut again = false;
						for (a, b) in edges.iter() { if net.do_reconnect(*a, *b) { again = true; } }
						net.deliver_all();
						for i in 0..n { net.step(&json!({"op":"complete","node":i,"which":"all"}), rng); }
						net.deliver_all();
						for i in 0..n { net.sync(i, usize::MAX >> 1); }
						net.deliver_all();
						if !again && edges.iter().all(|(a, b)| *net.connected.get(&Net::key(*a, *b)).unwrap_or(&true)) { break; }
					}
				};
				wind(self, rng);
				for _ in 0..op["blocks"].as_u64().unwrap_or(8) { self.mine(None); for i in 0..n { self.sync(i, usize::MAX >> 1); } self.deliver_all(); }
				wind(self, rng);
				self.step(&json!({"op":"resolve_all"}), rng);
				wind(self, rng);
				self.proj(true);
				self.executed = ex0; self.skipped = sk0;
			},
			"proj" => self.proj(op["final"].as_bool().unwrap_or(false)),
			_ => did = false,
		}
		if did { self.executed += 1; if name != "settle" && name != "resolve_all" && name != "proj" { self.proj(false); } } else { self.skipped += 1; }
	}

	/// Stop node `i` and restart it from its last written ChannelManager and, per channel, the durable monitor
	/// (every completed write) or the latest write (in-flight writes landed).
	fn restart(&mut self, i: usize, mon_choice: &str) {
		let n = self.nodes.len();
		for j in 0..n {
			if j == i { continue; }
			let key = Self::key(i, j);
			if *self.connected.get(&key).unwrap_or(&false) {
				self.connected.insert(key, false);
				self.queues.remove(&(i, j));
				self.queues.remove(&(j, i));
				let pi = self.nodes[i].node.get_our_node_id();
				self.nodes[j].node.peer_disconnected(pi);
			}
		}
		let k = self.mgr_snaps[i].len() - 1;
		let mgr_bytes = self.mgr_snaps[i][k].clone();
		let snaps = self.persisters[i].snapshots.lock().unwrap().clone();
		let pend = self.persisters[i].pending.lock().unwrap().clone();
		let mut chans: Vec<usize> = snaps.iter().map(|s| s.0).collect();
		chans.sort(); chans.dedup();
		let mut mons: Vec<Vec<u8>> = Vec::new();
		let mut mon_desc = Vec::new();
		let mut not_landed: Vec<usize> = Vec::new();
		for c in chans {
			let idxs: Vec<usize> = (0..snaps.len()).filter(|x| snaps[*x].0 == c).collect();
			let first_pending = pend.iter().filter(|p| p.0 == c).map(|p| p.1).min();
			let durable = match first_pending { Some(pid) => idxs.iter().rev().find(|x| snaps[**x].1 < pid).cloned().unwrap_or(idxs[0]), None => *idxs.last().unwrap() };
			let latest = *idxs.last().unwrap();
			let pick = if mon_choice == "durable" { durable } else { latest };
			mon_desc.push(json!({"chan": c, "id": snaps[pick].1}));
			mons.push(snaps[pick].2.clone());
			not_landed.extend(idxs.iter().filter(|x| **x > pick).cloned());
		}
		{ let mut sn = self.persisters[i].snapshots.lock().unwrap(); let mut x = 0; sn.retain(|_| { x += 1; !not_landed.contains(&(x - 1)) }); }
		self.persisters[i].pending.lock().unwrap().clear();
		*self.persisters[i].in_progress.lock().unwrap() = false;
		self.to_sign[i].clear();
		self.ev(json!({"ev":"crash","node":i,"mgr":k,"mons":mon_desc}));
		let cfg = self.nodes[i].node.get_current_config();
		let ncm: &'static TestChainMonitor<'static> = leak(TestChainMonitor::new(
			Some(self.nodes[i].chain_source), self.nodes[i].tx_broadcaster, self.nodes[i].logger, self.nodes[i].fee_estimator,
			&self.persisters[i], self.nodes[i].keys_manager));
		self.nodes[i].chain_monitor = ncm;
		let mon_refs: Vec<&[u8]> = mons.iter().map(|m| &m[..]).collect();
		let before = self.log.lock().unwrap().len();
		let new_mgr = leak(_reload_node(&self.nodes[i], cfg, &mgr_bytes, &mon_refs, None));
		self.nodes[i].node = new_mgr;
		self.nodes[i].onion_messenger.set_offers_handler(new_mgr);
		self.nodes[i].onion_messenger.set_async_payments_handler(new_mgr);
		self.nodes[i].chain_monitor.added_monitors.lock().unwrap().clear();
		{ let mut lg = self.log.lock().unwrap(); for e in lg.iter_mut().skip(before) { if e["ev"] == "persist" { e["kind"] = json!("load"); } } }
		self.ev(json!({"ev":"restarted","node":i}));
		// the application brings the restarted node up to the chain tip it had seen
		{
			let mgr_h = self.nodes[i].node.current_best_block().height;
			let later: Vec<bitcoin::Block> = self.nodes[i].blocks.lock().unwrap().iter().filter(|(_, h)| *h > mgr_h).map(|(b, _)| b.clone()).collect();
			for b in later { connect_block(&self.nodes[i], &b); }
		}
		self.drain();
	}
}

fn build_net(run: u64, cfg: &Value, log: &Log) -> Net {
	let n = cfg["nodes"].as_u64().unwrap_or(2) as usize;
	let chan_type = cfg["chan_type"].as_str().unwrap_or("anchors").to_string();
	let value = cfg["value"].as_u64().unwrap_or(1_000_000);
	let push = cfg["push"].as_u64().unwrap_or(value * 500);
	let feerate0 = cfg["feerate"].as_u64().unwrap_or(253) as u32;
	let sh = Arc::new(Shared { txs: Tab::default(), hashes: Tab::default(), chans: Mutex::new(Vec::new()), ctx_funding: Mutex::new(HashMap::new()) });
	let cfgs = leak(create_chanmon_cfgs(n));
	for c in cfgs.iter() { *c.fee_estimator.sat_per_kw.lock().unwrap() = feerate0; }
	let persisters: &'static Vec<RecPersister> = leak((0..n).map(|i| RecPersister {
		node: i, log: log.clone(), sh: sh.clone(), in_progress: Mutex::new(false), snapshots: Mutex::new(Vec::new()),
		pending: Mutex::new(Vec::new()), last_cp: Mutex::new(HashMap::new()), quiet: Mutex::new(true),
	}).collect());
	let node_cfgs = leak(create_node_cfgs_with_persisters(n, cfgs, persisters.iter().collect()));
	let mut uc = test_default_channel_config();
	uc.channel_handshake_config.announced_channel_max_inbound_htlc_value_in_flight_percentage = 100;
	if chan_type == "static" { uc.channel_handshake_config.negotiate_anchors_zero_fee_htlc_tx = false; }
	uc.channel_config.forwarding_fee_base_msat = 1000;
	uc.channel_config.forwarding_fee_proportional_millionths = 0;
	let ucs: Vec<Option<lightning::util::config::UserConfig>> = (0..n).map(|_| Some(uc.clone())).collect();
	let mgrs = leak(create_node_chanmgrs(n, node_cfgs, &ucs));
	let nodes = create_network(n, node_cfgs, mgrs);
	let mut scids = HashMap::new();
	let mut chan_ids = HashMap::new();
	let mut connected = HashMap::new();
	let edges: Vec<(usize, usize)> = (0..n - 1).map(|i| (i, i + 1)).collect();
	for &(i, j) in edges.iter() {
		let (_, _, cid, _tx) = create_announced_chan_between_nodes_with_value(&nodes, i, j, value, push);
		let scid = nodes[i].node.list_channels().iter().find(|c| c.channel_id == cid).unwrap().short_channel_id.unwrap();
		scids.insert((i, j), scid);
		chan_ids.insert((i, j), cid);
		connected.insert((i, j), true);
	}
	let top = (0..n).map(|i| nodes[i].best_block_info().1).max().unwrap();
	for i in 0..n { let h = nodes[i].best_block_info().1; if h < top { connect_blocks(&nodes[i], top - h); } }
	// wallets: a few confirmed outputs per node
	let nutxo = cfg["utxos"].as_u64().unwrap_or(5) as usize;
	let utxo_amt = cfg["utxo_sat"].as_u64().unwrap_or(120_000);
	if nutxo > 0 { let _ = provide_utxo_reserves(&nodes, nutxo, Amount::from_sat(utxo_amt)); }
	let top = (0..n).map(|i| nodes[i].best_block_info().1).max().unwrap();
	for p in persisters.iter() { p.last_cp.lock().unwrap().clear(); *p.quiet.lock().unwrap() = false; }
	log.lock().unwrap().clear();
	let mut net = Net {
		nodes, persisters, sh: sh.clone(), queues: HashMap::new(), connected, log: log.clone(), points: Vec::new(), pays: Vec::new(),
		scids, chan_ids, run, executed: 0, skipped: 0, mgr_snaps: vec![Vec::new(); n], edges: edges.clone(), base_height: top, chain: Vec::new(),
		mempool: Vec::new(), confirmed: HashSet::new(), spent: HashSet::new(), fkeys: HashMap::new(), fscript: HashMap::new(),
		hold_sign: vec![false; n], to_sign: (0..n).map(|_| Vec::new()).collect(), wallet_n: 0, reserved: HashSet::new(),
	};
	let _ = net.wallet_n;
	for i in 0..n {
		// whatever the nodes still want to say after opening (announcements) is not part of the run
		let _ = net.nodes[i].node.get_and_clear_pending_msg_events();
		let _ = net.nodes[i].node.get_and_clear_pending_events();
		net.nodes[i].tx_broadcaster.txn_broadcasted.lock().unwrap().clear();
		net.nodes[i].tx_broadcaster.txn_types.lock().unwrap().clear();
		let _ = net.nodes[i].node.get_and_clear_needs_persistence();
		net.mgr_snaps[i].push(net.nodes[i].node.encode());
	}
	let mut chans_desc = Vec::new();
	for &(i, j) in edges.iter() {
		let cid = net.chan_ids[&(i, j)];
		let c = net.chan(&cid);
		let a = net.nodes[i].node.list_channels().into_iter().find(|x| x.channel_id == cid).unwrap();
		let latest = |p: &RecPersister| p.snapshots.lock().unwrap().iter().filter(|s| s.0 == c).map(|s| s.1).max().unwrap_or(0);
		let fo = a.funding_txo.unwrap();
		chans_desc.push(json!({
			"chan": c, "a": i, "b": j, "value_sat": value, "funder": i, "type": chan_type,
			"feerate": a.feerate_sat_per_1000_weight.unwrap_or(0),
			"bal_a_msat": value * 1000 - push, "bal_b_msat": push, "dust_a_sat": 354, "dust_b_sat": 354,
			"mon_id_a": latest(&persisters[i]), "mon_id_b": latest(&persisters[j]),
			"ftx": net.tx(&fo.txid), "fvout": fo.index, "depth": a.confirmations_required.unwrap_or(0),
		}));
	}
	let heights: Vec<u32> = (0..n).map(|i| net.height(i)).collect();
	net.ev(json!({"ev":"open","nodes":n,"chans":chans_desc,"heights":heights}));
	net
}

// ---------------------------------------------------------------------------------------------
// seeded random schedules

fn random_script(rng: &mut StdRng, n: usize, profile: &str) -> Value {
	let chan_type = ["static", "anchors"][rng.gen_range(0..2)];
	let value = [200_000u64, 500_000, 1_000_000][rng.gen_range(0..3)];
	let push = value * 500;
	let mut ops: Vec<Value> = Vec::new();
	let asyncp = profile == "async";
	let steps = rng.gen_range(15..70);
	let mut npay = 0usize;
	let rand_link = |rng: &mut StdRng| { let a = rng.gen_range(0..n - 1); if rng.gen_bool(0.5) { (a, a + 1) } else { (a + 1, a) } };
	for _ in 0..steps {
		let r = rng.gen_range(0..100);
		if r < 12 {
			let src = rng.gen_range(0..n);
			let mut dst = rng.gen_range(0..n);
			if dst == src { dst = (src + 1) % n; }
			let amt = [2_000_000u64, 30_000_000, 300_000, 7_000_000][rng.gen_range(0..4)];
			ops.push(json!({"op":"send","from":src,"to":dst,"amt":amt}));
			npay += 1;
		} else if r < 22 {
			let (a, b) = rand_link(rng);
			let kind = ["in", "out", "inout"][rng.gen_range(0..3)];
			let amt = [20_000u64, 50_000, 90_000][rng.gen_range(0..3)];
			let fr = [253u64, 500, 1000][rng.gen_range(0..3)];
			ops.push(json!({"op":"splice","node":a,"peer":b,"kind":kind,"amt":amt,"feerate":fr}));
			if rng.gen_bool(0.25) { ops.push(json!({"op":"splice","node":b,"peer":a,"kind":(["in","out"][rng.gen_range(0..2)]),"amt":30_000,"feerate":fr})); }
		} else if r < 62 {
			let (a, b) = rand_link(rng);
			ops.push(json!({"op":"deliver","from":a,"to":b,"k":rng.gen_range(1..4)}));
		} else if r < 67 {
			ops.push(json!({"op":"forward","node":rng.gen_range(0..n)}));
		} else if r < 75 && npay > 0 {
			ops.push(json!({"op": if rng.gen_bool(0.7) {"claim"} else {"fail"}, "pay":rng.gen_range(0..npay)}));
		} else if r < 82 {
			if rng.gen_bool(0.5) { ops.push(json!({"op":"mine","n":rng.gen_range(1..7)})); }
			else { ops.push(json!({"op":"mine","n":rng.gen_range(1..7),"nodes":[rng.gen_range(0..n)]})); }
		} else if r < 85 {
			ops.push(json!({"op":"sync","node":rng.gen_range(0..n)}));
		} else if r < 90 && profile != "nodisc" {
			let a = rng.gen_range(0..n - 1);
			ops.push(json!({"op":"disconnect","a":a,"b":a+1}));
			if rng.gen_bool(0.8) { ops.push(json!({"op":"reconnect","a":a,"b":a+1})); }
		} else if r < 92 && profile != "nodisc" {
			let a = rng.gen_range(0..n - 1);
			ops.push(json!({"op":"reconnect","a":a,"b":a+1}));
		} else if r < 95 && profile == "restart" {
			ops.push(json!({"op":"restart","node":rng.gen_range(0..n),"mon":"latest"}));
			for a in 0..n - 1 { if rng.gen_bool(0.8) { ops.push(json!({"op":"reconnect","a":a,"b":a+1})); } }
		} else if r < 96 && asyncp {
			ops.push(json!({"op":"persist_mode","node":rng.gen_range(0..n),"mode": if rng.gen_bool(0.6) {"inprogress"} else {"completed"}}));
		} else if asyncp {
			ops.push(json!({"op":"complete","node":rng.gen_range(0..n),"which":(["oldest","all","newest"][rng.gen_range(0..3)])}));
		} else if r < 97 {
			let i = rng.gen_range(0..n);
			ops.push(json!({"op":"hold_sign","node":i,"on":rng.gen_bool(0.6)}));
		} else if r < 98 {
			ops.push(json!({"op":"sign","node":rng.gen_range(0..n)}));
		} else if r < 99 {
			let (a, b) = rand_link(rng);
			ops.push(json!({"op":"cancel","node":a,"peer":b}));
		} else {
			ops.push(json!({"op":"deliver_all"}));
		}
	}
	ops.push(json!({"op":"settle"}));
	json!({"cfg":{"nodes":n,"chan_type":chan_type,"value":value,"push":push,"feerate":253}, "ops":ops})
}

fn main() {
	let args: Vec<String> = std::env::args().collect();
	let mut scripts_path = None;
	let mut out = String::from("trace.ndjson");
	let (mut random, mut seed, mut nnodes) = (0usize, 1u64, 2usize);
	let mut profile = String::from("default");
	let mut i = 1;
	while i < args.len() {
		match args[i].as_str() {
			"--scripts" => { scripts_path = Some(args[i + 1].clone()); i += 1 },
			"--out" => { out = args[i + 1].clone(); i += 1 },
			"--random" => { random = args[i + 1].parse().unwrap(); i += 1 },
			"--seed" => { seed = args[i + 1].parse().unwrap(); i += 1 },
			"--nodes" => { nnodes = args[i + 1].parse().unwrap(); i += 1 },
			"--profile" => { profile = args[i + 1].clone(); i += 1 },
			_ => {},
		}
		i += 1;
	}
	let quiet = std::env::var("VERIF_VERBOSE").is_err();
	std::panic::set_hook(Box::new(move |info| {
		let msg = format!("{}", info);
		*LAST_PANIC.lock().unwrap() = msg.chars().take(400).collect();
		if std::env::var("VERIF_DBG").is_ok() { let bt = format!("{}", std::backtrace::Backtrace::force_capture()); let keep: Vec<&str> = bt.lines().filter(|l| l.contains("lightning::") || l.contains("splicenet")).collect(); *LAST_PANIC.lock().unwrap() = format!("{} BT: {}", msg, keep.join(" | ")).chars().take(6000).collect(); }
		if !quiet { eprintln!("PANIC {}", msg); }
	}));
	let mut scripts: Vec<Value> = Vec::new();
	if let Some(p) = scripts_path {
		for line in std::fs::read_to_string(p).unwrap().lines() {
			if !line.trim().is_empty() { scripts.push(serde_json::from_str(line).unwrap()); }
		}
	}
	let mut rng = StdRng::seed_from_u64(seed);
	for _ in 0..random { scripts.push(random_script(&mut rng, nnodes, &profile)); }
	let mut tw = TraceWriter::create(&out);
	let (mut panics, mut executed, mut skipped) = (0usize, 0usize, 0usize);
	let mut panic_msgs: Vec<String> = Vec::new();
	for (k, s) in scripts.iter().enumerate() {
		let run = k as u64 + 1;
		let log: Log = Arc::new(Mutex::new(Vec::new()));
		let mut rr = StdRng::seed_from_u64(seed ^ run.wrapping_mul(0x9e3779b97f4a7c15));
		let res = catch_unwind(AssertUnwindSafe(|| {
			let mut net = build_net(run, &s["cfg"], &log);
			let r2 = catch_unwind(AssertUnwindSafe(|| {
				for op in s["ops"].as_array().unwrap() { net.step(op, &mut rr); }
			}));
			let (e, sk) = (net.executed, net.skipped);
			std::mem::forget(net);
			(r2.is_err(), e, sk)
		}));
		match res {
			Ok((inner_panic, e, sk)) => {
				executed += e; skipped += sk;
				if inner_panic { panics += 1; let m = LAST_PANIC.lock().unwrap().clone(); log.lock().unwrap().push(json!({"ev":"panic","msg":m})); }
			},
			Err(_) => {
				panic_msgs.push(format!("run {} setup panic: {}", run, LAST_PANIC.lock().unwrap().clone()));
				log.lock().unwrap().clear();
			},
		}
		let evs = log.lock().unwrap();
		for (q, e) in evs.iter().enumerate() {
			let mut e = e.clone();
			e["run"] = json!(run);
			e["seq"] = json!(q + 1);
			tw.emit(e);
		}
	}
	tw.flush();
	let summary = json!({"runs": scripts.len(), "events": tw.lines, "panics": panics, "executed": executed, "skipped": skipped, "setup_failures": panic_msgs.len(), "setup_panic": panic_msgs.first().cloned().unwrap_or_default()});
	std::fs::write(format!("{}.summary", out), summary.to_string()).unwrap();
	eprintln!("SUMMARY {}", summary);
	std::process::exit(0);
}
