//! Engine `spv` (C20): drives the real `SpvClient` / `init::synchronize_listeners` over an
//! in-memory block source serving a block tree of real (PoW-valid) headers, with injectable
//! errors and lies, and records the observable events as NDJSON for TLC trace validation
//! against spec/SpvAbstract.tla.
//!
//! usage: spv --scripts FILE --out TRACE [--random N] [--seed S]

use bitcoin::block::{Block, Header, Version};
use bitcoin::hash_types::{BlockHash, TxMerkleNode};
use bitcoin::hashes::Hash;
use bitcoin::pow::{CompactTarget, Work};
use bitcoin::{absolute, transaction, Amount, Network, ScriptBuf, Transaction, TxIn, TxOut};
use lightning::chain::transaction::TransactionData;
use lightning::chain::{BlockLocator, Listen};
use lightning_block_sync::poll::{ChainPoller, ChainTip, Validate, ValidatedBlockHeader};
use lightning_block_sync::{
	init, BlockData, BlockHeaderData, BlockSource, BlockSourceError, BlockSourceResult, HeaderCache,
	SpvClient,
};
use rand::rngs::StdRng;
use rand::{Rng, SeedableRng};
use serde_json::{json, Value};
use std::collections::HashMap;
use std::future::Future;
use std::panic::{catch_unwind, AssertUnwindSafe};
use std::sync::{Arc, Mutex};
use vharness::trace::TraceWriter;

fn block_on<F: Future>(fut: F) -> F::Output {
	use std::task::{Context, Poll, RawWaker, RawWakerVTable, Waker};
	fn noop(_: *const ()) {}
	fn clone(_: *const ()) -> RawWaker {
		RawWaker::new(std::ptr::null(), &VT)
	}
	static VT: RawWakerVTable = RawWakerVTable::new(clone, noop, noop, noop);
	let waker = unsafe { Waker::from_raw(RawWaker::new(std::ptr::null(), &VT)) };
	let mut cx = Context::from_waker(&waker);
	let mut fut = Box::pin(fut);
	loop {
		if let Poll::Ready(v) = fut.as_mut().poll(&mut cx) {
			return v;
		}
	}
}

#[derive(Clone)]
struct Blk {
	block: Block,
	hash: BlockHash,
	height: u32,
	chainwork: Work,
}

struct Tree {
	blocks: Vec<Blk>, // index 0 = genesis
	by_hash: HashMap<BlockHash, usize>,
}

fn bits_for(work: u64) -> CompactTarget {
	// work class 1 -> regtest minimum difficulty (work 2), class 2 -> twice that
	if work >= 2 {
		CompactTarget::from_consensus(0x203fffff)
	} else {
		CompactTarget::from_consensus(0x207fffff)
	}
}

fn mine(prev: BlockHash, tag: u32, work: u64) -> Block {
	let coinbase = Transaction {
		version: transaction::Version::TWO,
		lock_time: absolute::LockTime::from_consensus(tag),
		input: vec![TxIn { script_sig: ScriptBuf::from_bytes(vec![1, tag as u8, (tag >> 8) as u8]), ..Default::default() }],
		output: vec![TxOut { value: Amount::from_sat(50), script_pubkey: ScriptBuf::new() }],
	};
	let mut block = Block {
		header: Header {
			version: Version::NO_SOFT_FORK_SIGNALLING,
			prev_blockhash: prev,
			merkle_root: TxMerkleNode::all_zeros(),
			time: 1_600_000_000 + tag,
			bits: bits_for(work),
			nonce: 0,
		},
		txdata: vec![coinbase],
	};
	block.header.merkle_root = block.compute_merkle_root().unwrap();
	while block.header.validate_pow(block.header.target()).is_err() {
		block.header.nonce += 1;
	}
	block
}

impl Tree {
	fn build(parent: &[usize], work: &[u64], salt: u32) -> Tree {
		let mut blocks: Vec<Blk> = Vec::new();
		let g = mine(BlockHash::all_zeros(), salt.wrapping_mul(1000), 1);
		let gh = g.header.block_hash();
		blocks.push(Blk { chainwork: g.header.work(), block: g, hash: gh, height: 0 });
		for b in 1..=parent.len() {
			let p = blocks[parent[b - 1]].clone();
			let blk = mine(p.hash, salt.wrapping_mul(1000) + b as u32, work[b - 1]);
			let h = blk.header.block_hash();
			let cw = p.chainwork + blk.header.work();
			blocks.push(Blk { block: blk, hash: h, height: p.height + 1, chainwork: cw });
		}
		let by_hash = blocks.iter().enumerate().map(|(i, b)| (b.hash, i)).collect();
		Tree { blocks, by_hash }
	}
	fn id(&self, h: &BlockHash) -> i64 {
		self.by_hash.get(h).map(|x| *x as i64).unwrap_or(-1)
	}
	fn header_data(&self, b: usize) -> BlockHeaderData {
		let k = &self.blocks[b];
		BlockHeaderData { header: k.block.header, height: k.height, chainwork: k.chainwork }
	}
	fn validated(&self, b: usize) -> ValidatedBlockHeader {
		self.header_data(b).validate(self.blocks[b].hash).unwrap()
	}
}

type Log = Arc<Mutex<Vec<Value>>>;

#[derive(Default, Clone)]
struct FaultPlan {
	fh: Vec<usize>,
	fb: Vec<usize>,
	best: bool,
	kind: u32, // selects the concrete form of the fault
	header_only: bool,
	// a lying get_header answer: (block, kind, amount).  The header itself (PoW, hash, prev hash)
	// is right; kind "over" / "under" adds / subtracts `amount` units of minimum-difficulty work
	// to / from the accumulated chainwork, "hup" / "hdn" reports the height one too high / low.
	lie: Option<(usize, String, u64)>,
}

fn work_units(unit: Work, n: u64) -> Work {
	let mut w = Work::from_be_bytes([0u8; 32]);
	for _ in 0..n {
		w = w + unit;
	}
	w
}

struct Source {
	tree: Arc<Tree>,
	tip: Mutex<usize>,
	plan: Mutex<FaultPlan>,
	log: Log,
	run: u64,
}

impl Source {
	fn ev(&self, mut v: Value) {
		v["run"] = json!(self.run);
		self.log.lock().unwrap().push(v);
	}
}

fn bad_pow(mut h: Header) -> Header {
	// find a nonce that does NOT satisfy the target
	loop {
		h.nonce = h.nonce.wrapping_add(1);
		if h.validate_pow(h.target()).is_err() {
			return h;
		}
	}
}

impl BlockSource for Source {
	fn get_header<'a>(
		&'a self, header_hash: &'a BlockHash, _height_hint: Option<u32>,
	) -> impl Future<Output = BlockSourceResult<BlockHeaderData>> + Send + 'a {
		async move {
			let id = self.tree.id(header_hash);
			if id < 0 {
				self.ev(json!({"ev":"req","kind":"header","b":-1,"outcome":"unknown"}));
				return Err(BlockSourceError::persistent("header not found"));
			}
			let b = id as usize;
			let plan = self.plan.lock().unwrap().clone();
			if plan.fh.contains(&b) {
				self.ev(json!({"ev":"fault"}));
				let n = self.tree.blocks.len();
				let mut d = self.tree.header_data(b);
				let kind = plan.kind % 4;
				self.ev(json!({"ev":"req","kind":"header","b":b,"outcome":format!("fault{}", kind)}));
				match kind {
					0 => return Err(BlockSourceError::transient("injected transient")),
					1 => return Err(BlockSourceError::persistent("injected persistent")),
					2 => {
						// some other block's (valid) header: does not match the request
						d = self.tree.header_data((b + 1) % n);
					},
					// (lies about the unverifiable height / chainwork metadata of an otherwise
					// correct header are outside the property: the source is trusted for those)
					_ => d.header = bad_pow(d.header),
				}
				return Ok(d);
			}
			if let Some((lb, lk, ld)) = plan.lie.as_ref() {
				if *lb == b {
					let mut d = self.tree.header_data(b);
					let unit = self.tree.blocks[0].block.header.work();
					let amount = work_units(unit, *ld);
					let kind = match lk.as_str() {
						"over" => {
							d.chainwork = d.chainwork + amount;
							"over"
						},
						"under" if d.chainwork >= amount => {
							d.chainwork = d.chainwork - amount;
							"under"
						},
						"hdn" if d.height > 0 => {
							d.height -= 1;
							"hdn"
						},
						_ => {
							d.height += 1;
							"hup"
						},
					};
					self.ev(json!({"ev":"fault"}));
					self.ev(json!({"ev":"req","kind":"header","b":b,"outcome":format!("lie-{}", kind)}));
					return Ok(d);
				}
			}
			self.ev(json!({"ev":"req","kind":"header","b":b,"outcome":"ok"}));
			Ok(self.tree.header_data(b))
		}
	}

	fn get_block<'a>(
		&'a self, header_hash: &'a BlockHash,
	) -> impl Future<Output = BlockSourceResult<BlockData>> + Send + 'a {
		async move {
			let id = self.tree.id(header_hash);
			if id < 0 {
				self.ev(json!({"ev":"req","kind":"block","b":-1,"outcome":"unknown"}));
				return Err(BlockSourceError::persistent("block not found"));
			}
			let b = id as usize;
			let plan = self.plan.lock().unwrap().clone();
			let mut blk = self.tree.blocks[b].block.clone();
			if plan.fb.contains(&b) {
				self.ev(json!({"ev":"fault"}));
				let n = self.tree.blocks.len();
				let kind = plan.kind % 5;
				self.ev(json!({"ev":"req","kind":"block","b":b,"outcome":format!("fault{}", kind)}));
				match kind {
					0 => return Err(BlockSourceError::transient("injected transient")),
					1 => return Err(BlockSourceError::persistent("injected persistent")),
					2 => blk = self.tree.blocks[(b + 1) % n].block.clone(),
					3 => blk.header = bad_pow(blk.header),
					_ => {
						// header intact, transaction list tampered: merkle root mismatch
						blk.txdata[0].lock_time = absolute::LockTime::from_consensus(7777);
					},
				}
				if plan.header_only && kind != 4 {
					return Ok(BlockData::HeaderOnly(blk.header));
				}
				return Ok(BlockData::FullBlock(blk));
			}
			self.ev(json!({"ev":"req","kind":"block","b":b,"outcome":"ok"}));
			if plan.header_only {
				Ok(BlockData::HeaderOnly(blk.header))
			} else {
				Ok(BlockData::FullBlock(blk))
			}
		}
	}

	fn get_best_block<'a>(
		&'a self,
	) -> impl Future<Output = BlockSourceResult<(BlockHash, Option<u32>)>> + Send + 'a {
		async move {
			let plan = self.plan.lock().unwrap().clone();
			if plan.best {
				self.ev(json!({"ev":"fault"}));
				self.ev(json!({"ev":"req","kind":"best","b":-1,"outcome":"fault"}));
				return Err(BlockSourceError::transient("injected transient"));
			}
			let t = *self.tip.lock().unwrap();
			self.ev(json!({"ev":"req","kind":"best","b":t,"outcome":"ok"}));
			let k = &self.tree.blocks[t];
			let hint = if plan.kind % 2 == 0 { Some(k.height) } else { None };
			Ok((k.hash, hint))
		}
	}
}

struct Rec {
	idx: usize,
	tree: Arc<Tree>,
	log: Log,
	run: u64,
}

impl Listen for Rec {
	fn filtered_block_connected(&self, header: &Header, _txdata: &TransactionData, height: u32) {
		let b = self.tree.id(&header.block_hash());
		self.log.lock().unwrap().push(json!({"run": self.run, "ev":"conn","i":self.idx,"b":b,"h":height}));
	}
	fn blocks_disconnected(&self, fork_point: BlockLocator) {
		let b = self.tree.id(&fork_point.block_hash);
		let hok = b >= 0 && self.tree.blocks[b as usize].height == fork_point.height;
		self.log.lock().unwrap().push(
			json!({"run": self.run, "ev":"disc","i":self.idx,"to": if hok { b } else { -1 }}),
		);
	}
}

struct Fan<'a>(Vec<&'a Rec>);
impl<'a> Listen for Fan<'a> {
	fn filtered_block_connected(&self, header: &Header, txdata: &TransactionData, height: u32) {
		for r in self.0.iter() {
			r.filtered_block_connected(header, txdata, height);
		}
	}
	fn block_connected(&self, block: &Block, height: u32) {
		for r in self.0.iter() {
			r.block_connected(block, height);
		}
	}
	fn blocks_disconnected(&self, fork_point: BlockLocator) {
		for r in self.0.iter() {
			r.blocks_disconnected(fork_point);
		}
	}
}

fn ids(v: &Value) -> Vec<usize> {
	match v {
		Value::Array(a) => a.iter().filter_map(|x| x.as_i64()).filter(|x| *x >= 0).map(|x| x as usize).collect(),
		Value::Number(n) => n.as_i64().filter(|x| *x >= 0).map(|x| vec![x as usize]).unwrap_or_default(),
		_ => vec![],
	}
}

fn run_script(run: u64, s: &Value, log: &Log, seed: u64) {
	let parent: Vec<usize> = s["parent"].as_array().unwrap().iter().map(|x| x.as_u64().unwrap() as usize).collect();
	let work: Vec<u64> = s["work"].as_array().unwrap().iter().map(|x| x.as_u64().unwrap()).collect();
	let ltips: Vec<usize> = s["ltips"].as_array().unwrap().iter().map(|x| x.as_u64().unwrap() as usize).collect();
	let src0 = s["src"].as_u64().unwrap() as usize;
	let tree = Arc::new(Tree::build(&parent, &work, (seed % 1000) as u32));
	let mut rng = StdRng::seed_from_u64(seed ^ run.wrapping_mul(0x9e3779b97f4a7c15));
	log.lock().unwrap().push(json!({"run":run,"ev":"reset","parent":parent,"work":work,"src":src0,"ltips":ltips}));
	let source = Source { tree: tree.clone(), tip: Mutex::new(src0), plan: Mutex::new(FaultPlan::default()), log: log.clone(), run };
	let recs: Vec<Rec> = (0..ltips.len()).map(|i| Rec { idx: i + 1, tree: tree.clone(), log: log.clone(), run }).collect();
	let fan = Fan(recs.iter().collect());
	let ev = |v: Value| {
		let mut v = v;
		v["run"] = json!(run);
		log.lock().unwrap().push(v);
	};
	let mut client: Option<SpvClient<ChainPoller<&Source, Source>, &Fan>> = None;
	let sync_mode = s["sync"].as_bool().unwrap_or(false);
	if !sync_mode {
		client = Some(SpvClient::new(
			tree.validated(ltips[0]),
			ChainPoller::new(&source, Network::Regtest),
			HeaderCache::new(),
			&fan,
		));
	}
	for op in s["ops"].as_array().unwrap() {
		let name = op["op"].as_str().unwrap();
		match name {
			"set_tip" => {
				let b = op["b"].as_u64().unwrap() as usize;
				*source.tip.lock().unwrap() = b;
				ev(json!({"ev":"set_tip","b":b}));
			},
			"poll" | "sync" => {
				let plan = FaultPlan {
					fh: ids(&op["fh"]),
					fb: ids(&op["fb"]),
					best: op["best"].as_bool().unwrap_or(false),
					kind: op["kind"].as_u64().map(|x| x as u32).unwrap_or_else(|| rng.gen()),
					header_only: op["header_only"].as_bool().unwrap_or_else(|| rng.gen_bool(0.3)),
					// lies are served to polls only (start-up sync takes the listeners' old headers
					// from the source on trust)
					lie: match (name, op["lb"].as_i64(), op["lk"].as_str()) {
						("poll", Some(b), Some(k)) if b >= 0 && k != "none" => {
							Some((b as usize, k.to_string(), op["ld"].as_u64().unwrap_or(1).max(1)))
						},
						_ => None,
					},
				};
				*source.plan.lock().unwrap() = plan;
				if name == "poll" {
					let c = match client.as_mut() {
						Some(c) => c,
						None => continue,
					};
					ev(json!({"ev":"poll_begin"}));
					match block_on(c.poll_best_tip()) {
						Ok((tip, flag)) => {
							let res = match tip {
								ChainTip::Common => "common",
								ChainTip::Better(_) => "better",
								ChainTip::Worse(_) => "worse",
							};
							ev(json!({"ev":"poll_end","res":res,"flag":flag}));
						},
						Err(_) => ev(json!({"ev":"poll_end","res":"err","flag":false})),
					}
				} else {
					if client.is_some() {
						continue;
					}
					ev(json!({"ev":"sync_begin"}));
					let with_prev = rng.gen_bool(0.5);
					let listeners: Vec<(BlockLocator, &Rec)> = recs
						.iter()
						.enumerate()
						.map(|(i, r)| {
							let k = &tree.blocks[ltips[i]];
							let mut loc = BlockLocator::new(k.hash, k.height);
							if with_prev {
								let mut cur = ltips[i];
								for slot in loc.previous_blocks.iter_mut() {
									if cur == 0 {
										break;
									}
									cur = parent[cur - 1];
									*slot = Some(tree.blocks[cur].hash);
								}
							}
							(loc, r)
						})
						.collect();
					match block_on(init::synchronize_listeners(&source, Network::Regtest, listeners)) {
						Ok((cache, tip)) => {
							ev(json!({"ev":"sync_end","ok":true,"tip":tree.id(&tip.header.block_hash())}));
							client = Some(SpvClient::new(tip, ChainPoller::new(&source, Network::Regtest), cache, &fan));
						},
						Err(_) => {
							ev(json!({"ev":"sync_end","ok":false,"tip":-1}));
							return;
						},
					}
				}
			},
			_ => {},
		}
	}
}

fn random_script(rng: &mut StdRng) -> Value {
	let nb = rng.gen_range(2..=9usize);
	let mut parent = Vec::new();
	for b in 1..=nb {
		// bias towards chains with occasional forks
		let p = if rng.gen_bool(0.6) { b - 1 } else { rng.gen_range(0..b) };
		parent.push(p);
	}
	let work: Vec<u64> = (0..nb).map(|_| if rng.gen_bool(0.25) { 2 } else { 1 }).collect();
	let sync = rng.gen_bool(0.4);
	let nl = if sync { rng.gen_range(1..=3) } else { 1 };
	let ltips: Vec<usize> = (0..nl).map(|_| rng.gen_range(0..=nb)).collect();
	let src = rng.gen_range(0..=nb);
	let mut cur_src = src;
	let mut ops = Vec::new();
	let pick = |rng: &mut StdRng, p: f64| -> Vec<usize> {
		let mut v = Vec::new();
		if rng.gen_bool(p) {
			v.push(rng.gen_range(0..=nb));
			if rng.gen_bool(0.2) {
				v.push(rng.gen_range(0..=nb));
			}
		}
		v
	};
	if sync {
		ops.push(json!({"op":"sync","fh":pick(rng,0.25),"fb":pick(rng,0.25),"best":rng.gen_bool(0.05)}));
	}
	for _ in 0..rng.gen_range(1..=8) {
		if rng.gen_bool(0.6) {
			cur_src = rng.gen_range(0..=nb);
			ops.push(json!({"op":"set_tip","b":cur_src}));
		}
		let mut poll = json!({"op":"poll","fh":pick(rng,0.3),"fb":pick(rng,0.3),"best":rng.gen_bool(0.05)});
		// a header other than the source's tip is only ever fetched as the parent of a header the
		// client holds, so a wrong chainwork / height on it is always compared (whatever is cached)
		if rng.gen_bool(0.3) {
			let b = rng.gen_range(0..=nb);
			if b != cur_src {
				poll["lb"] = json!(b);
				poll["lk"] = json!(["over", "under", "hup", "hdn"][rng.gen_range(0..4usize)]);
				poll["ld"] = json!(rng.gen_range(1..=2u64));
			}
		}
		ops.push(poll);
	}
	json!({"parent":parent,"work":work,"src":src,"ltips":ltips,"sync":sync,"ops":ops})
}

fn main() {
	let args: Vec<String> = std::env::args().collect();
	let mut scripts_path = None;
	let mut out = String::from("trace.ndjson");
	let mut random = 0usize;
	let mut seed = 1u64;
	let mut i = 1;
	while i < args.len() {
		match args[i].as_str() {
			"--scripts" => { scripts_path = Some(args[i + 1].clone()); i += 1 },
			"--out" => { out = args[i + 1].clone(); i += 1 },
			"--random" => { random = args[i + 1].parse().unwrap(); i += 1 },
			"--seed" => { seed = args[i + 1].parse().unwrap(); i += 1 },
			_ => {},
		}
		i += 1;
	}
	std::panic::set_hook(Box::new(|_| {}));
	let mut scripts: Vec<Value> = Vec::new();
	if let Some(p) = scripts_path {
		for line in std::fs::read_to_string(p).unwrap().lines() {
			if !line.trim().is_empty() {
				scripts.push(serde_json::from_str(line).unwrap());
			}
		}
	}
	let mut rng = StdRng::seed_from_u64(seed);
	for _ in 0..random {
		scripts.push(random_script(&mut rng));
	}
	let mut tw = TraceWriter::create(&out);
	let mut panics = 0;
	let mut polls = 0;
	let mut moved_runs = 0;
	let mut lies_served = 0;
	for (k, s) in scripts.iter().enumerate() {
		let run = k as u64 + 1;
		let log: Log = Arc::new(Mutex::new(Vec::new()));
		let r = catch_unwind(AssertUnwindSafe(|| run_script(run, s, &log, seed)));
		if r.is_err() {
			panics += 1;
			log.lock().unwrap().push(json!({"run":run,"ev":"panic"}));
		}
		let evs = log.lock().unwrap();
		let mut moved = false;
		for e in evs.iter() {
			if e["ev"] == "poll_end" || e["ev"] == "sync_end" { polls += 1; }
			if e["ev"] == "conn" || e["ev"] == "disc" { moved = true; }
			if e["ev"] == "req" && e["outcome"].as_str().map_or(false, |o| o.starts_with("lie-")) { lies_served += 1; }
			tw.emit(e.clone());
		}
		if moved { moved_runs += 1; }
	}
	tw.flush();
	println!("{}", json!({"runs": scripts.len(), "events": tw.lines, "panics": panics, "ops": polls, "runs_with_notifications": moved_runs, "lies_served": lies_served}));
}
