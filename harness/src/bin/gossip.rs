//! Engine `gossip` (C17): builds real, really signed gossip messages (channel_announcement,
//! channel_update, node_announcement) of the classes a script names, replays each script into a
//! fresh `NetworkGraph` through both entry points (`NetworkGraph::update_*` and
//! `P2PGossipSync::handle_*`), interleaved with permanent failures, pruning passes, reloads and
//! rapid-gossip-sync snapshots, and records after every step the class of the return value, a
//! projection of the graph through its public read-only view and whether the graph survives a
//! write/read round trip.  No judging happens here: the NDJSON trace is validated by TLC against
//! spec/Gossip.tla (GossipTrace.tla).
//!
//! Time: update timestamps are `base + offset` where base = wall clock at the start of the run,
//! pruning uses `remove_stale_channels_and_tracking_with_time(base + 14 days + t)`; only offsets
//! enter the trace.  Permanent failures are reported at the wall clock (>= base), so a pruning
//! call with t < -7 days finds every report of the run less than a week old.
//!
//! usage: gossip --out TRACE [--scripts FILE] [--random N] [--seed S] [--scripts-out FILE]
//!        gossip --mode rtsweep --out TRACE [--max-len 700] [--seed S] [--random N mixed graphs]   (C12, see `rtsweep` below)

use bitcoin::constants::ChainHash;
use bitcoin::hashes::{sha256d, Hash};
use bitcoin::secp256k1::{All, Message, PublicKey, Secp256k1, SecretKey};
use bitcoin::{Amount, Network, TxOut};
use lightning::ln::chan_utils::make_funding_redeemscript;
use lightning::ln::msgs::{
	BaseMessageHandler, SocketAddress, ChannelAnnouncement, ChannelUpdate, ErrorAction, LightningError, NodeAnnouncement,
	RoutingMessageHandler, UnsignedChannelAnnouncement, UnsignedChannelUpdate,
	UnsignedNodeAnnouncement,
};
use lightning::routing::gossip::{NetworkGraph, NetworkUpdate, NodeAlias, NodeId, P2PGossipSync};
use lightning::routing::utxo::{UtxoFuture, UtxoLookup, UtxoLookupError, UtxoResult};
use std::sync::Mutex;
use lightning::types::features::{ChannelFeatures, NodeFeatures};
use lightning::util::logger::{Logger, Record};
use lightning::util::ser::{ReadableArgs, Writeable};
use lightning::util::wakers::Notifier;
use lightning_rapid_gossip_sync::RapidGossipSync;
use rand::rngs::StdRng;
use rand::seq::SliceRandom;
use rand::{Rng, SeedableRng};
use serde_json::{json, Value};
use std::io::{BufRead, BufReader, Write};
use std::panic::{catch_unwind, AssertUnwindSafe};
use std::sync::Arc;
use std::time::{SystemTime, UNIX_EPOCH};
use vharness::trace::TraceWriter;

const NN: usize = 5; // node indices 1..=5
const NC: usize = 4; // scids 1..=4 (the UTXO source knows all of them)
const TWO_WEEKS: i64 = 60 * 60 * 24 * 14;
const ONE_WEEK: i64 = 60 * 60 * 24 * 7;

struct NullLogger;
impl Logger for NullLogger {
	fn log(&self, _record: Record) {}
}
type Graph = NetworkGraph<Arc<NullLogger>>;

struct Keys {
	secp: Secp256k1<All>,
	node: Vec<SecretKey>, // node index i -> node[i-1], sorted by serialized public key
	foreign: SecretKey,
	pks: Vec<PublicKey>, // cached public keys of node[..]
	foreign_pk: PublicKey,
}

impl Keys {
	fn new() -> Keys {
		let secp = Secp256k1::new();
		let mut node: Vec<SecretKey> =
			(0..NN).map(|i| SecretKey::from_slice(&[0x11 + i as u8; 32]).unwrap()).collect();
		node.sort_by_key(|sk| PublicKey::from_secret_key(&secp, sk).serialize());
		let pks = node.iter().map(|sk| PublicKey::from_secret_key(&secp, sk)).collect();
		let foreign = SecretKey::from_slice(&[0xee; 32]).unwrap();
		let foreign_pk = PublicKey::from_secret_key(&secp, &foreign);
		Keys { secp, node, foreign, pks, foreign_pk }
	}
	fn sk(&self, i: i64) -> &SecretKey {
		if i >= 1 && (i as usize) <= NN {
			&self.node[i as usize - 1]
		} else {
			&self.foreign
		}
	}
	fn pk(&self, i: i64) -> PublicKey {
		if i >= 1 && (i as usize) <= NN {
			self.pks[i as usize - 1]
		} else {
			self.foreign_pk
		}
	}
	fn node_id(&self, i: i64) -> NodeId {
		NodeId::from_pubkey(&self.pk(i))
	}
	fn index_of(&self, id: &NodeId) -> i64 {
		for i in 1..=NN as i64 {
			if self.node_id(i) == *id {
				return i;
			}
		}
		0
	}
	fn btc(&self, c: i64) -> (SecretKey, SecretKey) {
		(
			SecretKey::from_slice(&[0x40 + c as u8; 32]).unwrap(),
			SecretKey::from_slice(&[0x60 + c as u8; 32]).unwrap(),
		)
	}
	/// signature by key index `s` (>=1 node key, 0 an unrelated key, -1: the intended key over
	/// other bytes)
	fn sign(&self, content: &[u8], s: i64, intended: i64) -> bitcoin::secp256k1::ecdsa::Signature {
		let h = sha256d::Hash::hash(content);
		let msg = Message::from_digest(h.to_byte_array());
		if s == -1 {
			let mut other = content.to_vec();
			other.push(0x5a);
			let h2 = sha256d::Hash::hash(&other);
			self.secp.sign_ecdsa(&Message::from_digest(h2.to_byte_array()), self.sk(intended))
		} else {
			self.secp.sign_ecdsa(&msg, self.sk(s))
		}
	}
	fn sign_with(&self, content: &[u8], sk: &SecretKey) -> bitcoin::secp256k1::ecdsa::Signature {
		let h = sha256d::Hash::hash(content);
		self.secp.sign_ecdsa(&Message::from_digest(h.to_byte_array()), sk)
	}
}

struct Lookup {
	caps: Vec<u64>,
	scripts: Vec<bitcoin::ScriptBuf>,
	chain: ChainHash,
	/// answer with `UtxoResult::Async`; the futures wait here until a `resolve` op
	async_mode: bool,
	pending: Mutex<Vec<(u64, UtxoFuture)>>,
}
impl Lookup {
	fn txout(&self, scid: u64) -> Result<TxOut, UtxoLookupError> {
		if scid >= 1 && (scid as usize) <= self.caps.len() {
			let i = scid as usize - 1;
			Ok(TxOut { value: Amount::from_sat(self.caps[i]), script_pubkey: self.scripts[i].clone() })
		} else {
			Err(UtxoLookupError::UnknownTx)
		}
	}
}
impl UtxoLookup for Lookup {
	fn get_utxo(&self, chain_hash: &ChainHash, scid: u64, n: Arc<Notifier>) -> UtxoResult {
		if *chain_hash != self.chain {
			return UtxoResult::Sync(Err(UtxoLookupError::UnknownChain));
		}
		if self.async_mode {
			let fut = UtxoFuture::new(n);
			self.pending.lock().unwrap().push((scid, fut.clone()));
			return UtxoResult::Async(fut);
		}
		if scid >= 1 && (scid as usize) <= self.caps.len() {
			let i = scid as usize - 1;
			UtxoResult::Sync(Ok(TxOut {
				value: Amount::from_sat(self.caps[i]),
				script_pubkey: self.scripts[i].clone(),
			}))
		} else {
			UtxoResult::Sync(Err(UtxoLookupError::UnknownTx))
		}
	}
}

fn gi(v: &Value, k: &str) -> i64 {
	v.get(k).and_then(|x| x.as_i64()).unwrap_or(0)
}
fn gb(v: &Value, k: &str) -> bool {
	v.get(k).and_then(|x| x.as_bool()).unwrap_or(false)
}
fn gs<'a>(v: &'a Value, k: &str) -> &'a str {
	v.get(k).and_then(|x| x.as_str()).unwrap_or("")
}
fn clamp(x: i64) -> i64 {
	x.max(-2_000_000_000).min(2_000_000_000)
}

fn chain_of(ok: bool) -> ChainHash {
	ChainHash::using_genesis_block(if ok { Network::Testnet } else { Network::Bitcoin })
}

/// every message record carries every field (TLA+ records)
fn norm_msg(m: &Value) -> Value {
	json!({
		"k": gs(m, "k"), "c": gi(m, "c"), "n1": gi(m, "n1"), "n2": gi(m, "n2"), "s1": gi(m, "s1"),
		"s2": gi(m, "s2"), "bs": gi(m, "bs"),
		"chain": m.get("chain").and_then(|x| x.as_bool()).unwrap_or(true),
		"n": gi(m, "n"), "d": gi(m, "d"), "ts": gi(m, "ts"), "s": gi(m, "s"), "en": gb(m, "en"),
		"cltv": gi(m, "cltv"), "hmin": gi(m, "hmin"), "hmax": gi(m, "hmax"), "fb": gi(m, "fb"),
		"fp": gi(m, "fp"), "ap": gi(m, "ap"), "ad": gi(m, "ad"), "w": gi(m, "w"),
	})
}

fn build_ca(k: &Keys, m: &Value) -> ChannelAnnouncement {
	let (c, n1, n2) = (gi(m, "c"), gi(m, "n1"), gi(m, "n2"));
	let (b1, b2) = k.btc(c);
	let contents = UnsignedChannelAnnouncement {
		features: ChannelFeatures::empty(),
		chain_hash: chain_of(gb(m, "chain")),
		short_channel_id: c as u64,
		node_id_1: k.node_id(n1),
		node_id_2: k.node_id(n2),
		bitcoin_key_1: NodeId::from_pubkey(&PublicKey::from_secret_key(&k.secp, &b1)),
		bitcoin_key_2: NodeId::from_pubkey(&PublicKey::from_secret_key(&k.secp, &b2)),
		excess_data: Vec::new(),
	};
	let enc = contents.encode();
	let (bs, w) = (gi(m, "bs"), gi(m, "w"));
	let bsig1 = if bs == 0 && w % 2 == 0 { k.sign_with(&enc, &k.foreign) } else { k.sign_with(&enc, &b1) };
	let bsig2 = if bs == 0 && w % 2 != 0 { k.sign_with(&enc, &k.foreign) } else { k.sign_with(&enc, &b2) };
	ChannelAnnouncement {
		node_signature_1: k.sign(&enc, gi(m, "s1"), n1),
		node_signature_2: k.sign(&enc, gi(m, "s2"), n2),
		bitcoin_signature_1: bsig1,
		bitcoin_signature_2: bsig2,
		contents,
	}
}

fn build_cu(k: &Keys, m: &Value, base: i64, intended: i64) -> ChannelUpdate {
	let contents = UnsignedChannelUpdate {
		chain_hash: chain_of(gb(m, "chain")),
		short_channel_id: gi(m, "c") as u64,
		timestamp: (base + gi(m, "ts")) as u32,
		message_flags: 1,
		channel_flags: (gi(m, "d") as u8 & 1) | if gb(m, "en") { 0 } else { 2 },
		cltv_expiry_delta: gi(m, "cltv") as u16,
		htlc_minimum_msat: gi(m, "hmin") as u64,
		htlc_maximum_msat: gi(m, "hmax") as u64,
		fee_base_msat: gi(m, "fb") as u32,
		fee_proportional_millionths: gi(m, "fp") as u32,
		excess_data: Vec::new(),
	};
	let enc = contents.encode();
	ChannelUpdate { signature: k.sign(&enc, gi(m, "s"), intended), contents }
}

fn addr_of(ad: i64) -> Vec<SocketAddress> {
	if ad > 0 {
		vec![SocketAddress::TcpIpV4 { addr: [127, 0, 0, 1], port: ad as u16 }]
	} else {
		Vec::new()
	}
}

fn build_na(k: &Keys, m: &Value, base: i64) -> NodeAnnouncement {
	let n = gi(m, "n");
	let ap = gi(m, "ap") as u8;
	let mut alias = [0u8; 32];
	alias[0] = ap;
	let contents = UnsignedNodeAnnouncement {
		features: NodeFeatures::empty(),
		timestamp: (base + gi(m, "ts")) as u32,
		node_id: k.node_id(n),
		rgb: [ap, 0, 0],
		alias: NodeAlias(alias),
		addresses: addr_of(gi(m, "ad")),
		excess_address_data: Vec::new(),
		excess_data: Vec::new(),
	};
	let enc = contents.encode();
	NodeAnnouncement { signature: k.sign(&enc, gi(m, "s"), n), contents }
}

fn class<T>(r: &Result<T, LightningError>) -> (&'static str, &'static str) {
	match r {
		Ok(_) => ("ok", "none"),
		Err(e) => (
			"err",
			match e.action {
				ErrorAction::DisconnectPeer { .. } => "disconnect",
				ErrorAction::DisconnectPeerWithWarning { .. } => "disconnect_warn",
				ErrorAction::IgnoreError => "ignore",
				ErrorAction::IgnoreAndLog(_) => "ignore_log",
				ErrorAction::IgnoreDuplicateGossip => "duplicate",
				ErrorAction::SendErrorMessage { .. } => "error_msg",
				ErrorAction::SendWarningMessage { .. } => "warning",
			},
		),
	}
}

fn dir_json(d: &Option<lightning::routing::gossip::ChannelUpdateInfo>, base: i64) -> Value {
	match d {
		None => json!({"has": false, "ts": 0, "en": false, "cltv": 0, "hmin": 0, "hmax": 0, "fb": 0, "fp": 0}),
		Some(u) => json!({
			"has": true, "ts": clamp(u.last_update as i64 - base), "en": u.enabled,
			"cltv": u.cltv_expiry_delta, "hmin": clamp(u.htlc_minimum_msat as i64),
			"hmax": clamp(u.htlc_maximum_msat as i64), "fb": u.fees.base_msat,
			"fp": u.fees.proportional_millionths,
		}),
	}
}

/// the graph as a caller sees it through `read_only()`
fn project(g: &Graph, k: &Keys, base: i64) -> Value {
	let ro = g.read_only();
	let mut chans: Vec<(u64, Value)> = Vec::new();
	for (scid, ch) in ro.channels().unordered_iter() {
		chans.push((
			*scid,
			json!({
				"c": clamp(*scid as i64), "n1": k.index_of(&ch.node_one), "n2": k.index_of(&ch.node_two),
				"cap": ch.capacity_sats.map(|x| clamp(x as i64)).unwrap_or(-1),
				"d0": dir_json(&ch.one_to_two, base), "d1": dir_json(&ch.two_to_one, base),
			}),
		));
	}
	chans.sort_by_key(|x| x.0);
	let mut nodes: Vec<(i64, Value)> = Vec::new();
	for (id, nd) in ro.nodes().unordered_iter() {
		let n = k.index_of(id);
		let mut cl: Vec<i64> = nd.channels.iter().map(|x| clamp(*x as i64)).collect();
		cl.sort();
		let (ha, ats, ap, ad) = match nd.announcement_info.as_ref() {
			None => (false, 0, 0, 0),
			Some(a) => (
				true,
				clamp(a.last_update() as i64 - base),
				a.alias().0[0] as i64,
				match a.addresses().first() {
					Some(SocketAddress::TcpIpV4 { port, .. }) => *port as i64,
					Some(_) => -1,
					None => 0,
				},
			),
		};
		nodes.push((n, json!({"n": n, "ha": ha, "ats": ats, "ap": ap, "ad": ad, "chans": cl})));
	}
	nodes.sort_by_key(|x| x.0);
	json!({
		"chans": chans.into_iter().map(|x| x.1).collect::<Vec<_>>(),
		"nodes": nodes.into_iter().map(|x| x.1).collect::<Vec<_>>(),
	})
}

/// write the graph, read it back, compare with the original (same run, same object: `==`)
fn round_trip(g: &Graph, logger: &Arc<NullLogger>) -> (bool, Option<Graph>) {
	let bytes = g.encode();
	match Graph::read(&mut &bytes[..], Arc::clone(logger)) {
		Ok(g2) => (g2 == *g, Some(g2)),
		Err(_) => (false, None),
	}
}

fn big_size(out: &mut Vec<u8>, v: u64) {
	lightning::util::ser::BigSize(v).write(out).unwrap();
}

/// hand-built rapid-gossip-sync snapshot (format version 1 or 2)
fn build_rgs(k: &Keys, op: &Value, base: i64) -> Vec<u8> {
	let ver = if gi(op, "ver") == 2 { 2u8 } else { 1u8 };
	let mut out: Vec<u8> = vec![76, 68, 75, ver];
	chain_of(true).write(&mut out).unwrap();
	let latest = (base + gi(op, "ts") + ONE_WEEK) as u32;
	latest.write(&mut out).unwrap();
	if ver == 2 {
		0u8.write(&mut out).unwrap(); // no default node features
	}
	(NN as u32).write(&mut out).unwrap();
	let nodes = op.get("nodes").and_then(|x| x.as_array()).cloned().unwrap_or_default();
	for i in 1..=NN as i64 {
		let mut key = k.pk(i).serialize();
		// v2 node record: bit 2 of the first key byte announces address details
		let rec = if ver == 2 { nodes.iter().find(|r| gi(r, "n") == i) } else { None };
		if rec.is_some() {
			key[0] |= 1 << 2;
		}
		out.extend_from_slice(&key);
		if let Some(r) = rec {
			let addrs = addr_of(gi(r, "ad"));
			(addrs.len() as u8).write(&mut out).unwrap();
			for a in addrs.iter() {
				let enc = a.encode();
				(enc.len() as u8).write(&mut out).unwrap();
				out.extend_from_slice(&enc);
			}
		}
	}
	let anns = op.get("anns").and_then(|x| x.as_array()).cloned().unwrap_or_default();
	(anns.len() as u32).write(&mut out).unwrap();
	let mut prev = 0u64;
	for a in anns.iter() {
		ChannelFeatures::empty().write(&mut out).unwrap();
		let c = gi(a, "c") as u64;
		big_size(&mut out, c - prev);
		prev = c;
		big_size(&mut out, gi(a, "n1") as u64 - 1);
		let cap = gi(a, "cap");
		if ver == 2 && cap >= 0 {
			big_size(&mut out, (gi(a, "n2") as u64 - 1) | (1 << 63));
			let mut add: Vec<u8> = Vec::new();
			big_size(&mut add, cap as u64);
			add.write(&mut out).unwrap();
		} else {
			big_size(&mut out, gi(a, "n2") as u64 - 1);
		}
	}
	let upds = op.get("upds").and_then(|x| x.as_array()).cloned().unwrap_or_default();
	(upds.len() as u32).write(&mut out).unwrap();
	if upds.is_empty() {
		return out;
	}
	// defaults (every update below is sent in full)
	7u16.write(&mut out).unwrap();
	7u64.write(&mut out).unwrap();
	7u32.write(&mut out).unwrap();
	7u32.write(&mut out).unwrap();
	7u64.write(&mut out).unwrap();
	let mut prev = 0u64;
	for u in upds.iter() {
		let c = gi(u, "c") as u64;
		big_size(&mut out, c - prev);
		prev = c;
		let flags: u8 = (gi(u, "d") as u8 & 1) | if gb(u, "en") { 0 } else { 2 } | 0b0111_1100;
		flags.write(&mut out).unwrap();
		(gi(u, "cltv") as u16).write(&mut out).unwrap();
		(gi(u, "hmin") as u64).write(&mut out).unwrap();
		(gi(u, "fb") as u32).write(&mut out).unwrap();
		(gi(u, "fp") as u32).write(&mut out).unwrap();
		(gi(u, "hmax") as u64).write(&mut out).unwrap();
	}
	out
}

#[derive(Default)]
struct Stats {
	runs: u64,
	steps: u64,
	delivered: u64,
	changed: u64,
	ok: u64,
	err: u64,
	panics: u64,
	rt_fail: u64,
	max_chans: usize,
}

fn run_script(k: &Keys, script: &Value, run: u64, tw: &mut TraceWriter, st: &mut Stats) {
	let logger = Arc::new(NullLogger);
	let base = SystemTime::now().duration_since(UNIX_EPOCH).unwrap().as_secs() as i64;
	let lookup_on = gb(script, "lookup");
	let async_mode = lookup_on && gb(script, "async");
	let caps: Vec<u64> = match script.get("caps").and_then(|x| x.as_array()) {
		Some(a) => (0..NC).map(|i| a.get(i).and_then(|x| x.as_u64()).unwrap_or(1000)).collect(),
		None => vec![1000; NC],
	};
	let scripts = (1..=NC as i64)
		.map(|c| {
			let (b1, b2) = k.btc(c);
			make_funding_redeemscript(
				&PublicKey::from_secret_key(&k.secp, &b1),
				&PublicKey::from_secret_key(&k.secp, &b2),
			)
			.to_p2wsh()
		})
		.collect();
	let lookup: Option<Arc<Lookup>> =
		if lookup_on {
			Some(Arc::new(Lookup {
				caps: caps.clone(),
				scripts,
				chain: chain_of(true),
				async_mode,
				pending: Mutex::new(Vec::new()),
			}))
		} else {
			None
		};
	tw.emit(json!({"run": run, "ev": "reset", "lookup": lookup_on, "async": async_mode, "caps": caps}));
	let mut graph: Graph = NetworkGraph::new(Network::Testnet, Arc::clone(&logger));
	let empty = Vec::new();
	let ops = script.get("ops").and_then(|x| x.as_array()).unwrap_or(&empty);
	for op in ops {
		st.steps += 1;
		let before = project(&graph, k, base);
		let mut ev = match gs(op, "op") {
			"deliver" => {
				let mut m = norm_msg(&op["m"]);
				// third entry point: the unsigned variants (no signature verification requested);
				// such a message is recorded with signer -2
				let unsigned = gs(op, "via") == "unsigned"
					|| (gs(&m, "k") == "ca" && gi(&m, "s1") == -2)
					|| (gs(&m, "k") != "ca" && gi(&m, "s") == -2);
				if unsigned {
					if gs(&m, "k") == "ca" {
						m["s1"] = json!(-2);
						m["s2"] = json!(-2);
						m["bs"] = json!(1);
					} else {
						m["s"] = json!(-2);
					}
				}
				let p2p = !unsigned && gs(op, "via") == "p2p";
				let sync = P2PGossipSync::new(&graph, lookup.clone(), Arc::clone(&logger));
				let (res, act) = match gs(&m, "k") {
					"ca" => {
						let msg = build_ca(k, &m);
						if unsigned {
							class(&graph.update_channel_from_unsigned_announcement(&msg.contents, &lookup))
						} else if p2p {
							class(&sync.handle_channel_announcement(None, &msg))
						} else {
							class(&graph.update_channel_from_announcement(&msg, &lookup))
						}
					},
					"cu" => {
						// the key a correct sender would use: the node on side d of the channel as announced
						// (only relevant for the "signature over other bytes" class)
						let intended = {
							let ro = graph.read_only();
							match ro.channel(gi(&m, "c") as u64) {
								Some(ch) => k.index_of(if gi(&m, "d") == 1 { &ch.node_two } else { &ch.node_one }),
								None => 1,
							}
						};
						let msg = build_cu(k, &m, base, intended);
						if unsigned {
							class(&graph.update_channel_unsigned(&msg.contents))
						} else if p2p {
							class(&sync.handle_channel_update(None, &msg))
						} else {
							class(&graph.update_channel(&msg))
						}
					},
					_ => {
						let msg = build_na(k, &m, base);
						if unsigned {
							class(&graph.update_node_from_unsigned_announcement(&msg.contents))
						} else if p2p {
							class(&sync.handle_node_announcement(None, &msg))
						} else {
							class(&graph.update_node_from_announcement(&msg))
						}
					},
				};
				st.delivered += 1;
				if res == "ok" {
					st.ok += 1
				} else {
					st.err += 1
				}
				let via = if unsigned { "unsigned" } else if p2p { "p2p" } else { "direct" };
				json!({"run": run, "ev": "deliver", "via": via, "m": m, "res": res, "act": act})
			},
			"resolve" => {
				// the asynchronous UTXO lookups of scid c complete; the graph processes completed
				// checks when its message handler is polled for events
				let c = gi(op, "c");
				let ok = gb(op, "ok");
				if let Some(lk) = lookup.as_ref() {
					let mut futs: Vec<UtxoFuture> = Vec::new();
					lk.pending.lock().unwrap().retain(|(scid, f)| {
						if *scid == c as u64 {
							futs.push(f.clone());
							false
						} else {
							true
						}
					});
					for f in futs {
						f.resolve(if ok { lk.txout(c as u64) } else { Err(UtxoLookupError::UnknownTx) });
					}
				}
				let sync = P2PGossipSync::new(&graph, lookup.clone(), Arc::clone(&logger));
				let _ = sync.get_and_clear_pending_msg_events();
				json!({"run": run, "ev": "resolve", "c": c, "ok": ok})
			},
			"failc" => {
				let c = gi(op, "c");
				if gs(op, "via") == "update" {
					graph.handle_network_update(&NetworkUpdate::ChannelFailure {
						short_channel_id: c as u64,
						is_permanent: true,
					});
				} else {
					graph.channel_failed_permanent(c as u64);
				}
				json!({"run": run, "ev": "failc", "c": c})
			},
			"failn" => {
				let n = gi(op, "n");
				if gs(op, "via") == "update" {
					graph.handle_network_update(&NetworkUpdate::NodeFailure { node_id: k.pk(n), is_permanent: true });
				} else {
					graph.node_failed_permanent(&k.pk(n));
				}
				json!({"run": run, "ev": "failn", "n": n})
			},
			"prune" => {
				let t = gi(op, "t");
				graph.remove_stale_channels_and_tracking_with_time((base + TWO_WEEKS + t) as u64);
				json!({"run": run, "ev": "prune", "t": t})
			},
			"reload" => {
				let (_, g2) = round_trip(&graph, &logger);
				let ok = g2.is_some();
				if let Some(g2) = g2 {
					graph = g2;
				}
				json!({"run": run, "ev": "reload", "read_ok": ok})
			},
			"rgs" => {
				let mut o = op.clone();
				for key in ["anns", "upds"] {
					let mut v = o.get(key).and_then(|x| x.as_array()).cloned().unwrap_or_default();
					v.sort_by_key(|x| (gi(x, "c"), gi(x, "d")));
					v.dedup_by_key(|x| (gi(x, "c"), gi(x, "d")));
					o[key] = Value::Array(v);
				}
				{
					let mut v = if gi(&o, "ver") == 2 {
						o.get("nodes").and_then(|x| x.as_array()).cloned().unwrap_or_default()
					} else {
						Vec::new()
					};
					v.sort_by_key(|x| gi(x, "n"));
					v.dedup_by_key(|x| gi(x, "n"));
					o["nodes"] = Value::Array(v);
				}
				let bytes = build_rgs(k, &o, base);
				let prune = gb(&o, "prune");
				let now = if prune { Some((base + TWO_WEEKS + gi(&o, "t")) as u64) } else { None };
				let rgs = RapidGossipSync::new(&graph, Arc::clone(&logger));
				let r = rgs.update_network_graph_no_std(&bytes, now);
				let anns: Vec<Value> = o["anns"].as_array().unwrap().iter().map(|a| {
					json!({"c": gi(a, "c"), "n1": gi(a, "n1"), "n2": gi(a, "n2"),
						"cap": if gi(&o, "ver") == 2 { gi(a, "cap") } else { -1 }})
				}).collect();
				let upds: Vec<Value> = o["upds"].as_array().unwrap().iter().map(|u| {
					json!({"c": gi(u, "c"), "d": gi(u, "d"), "en": gb(u, "en"), "cltv": gi(u, "cltv"),
						"hmin": gi(u, "hmin"), "hmax": gi(u, "hmax"), "fb": gi(u, "fb"), "fp": gi(u, "fp")})
				}).collect();
				let nodes: Vec<Value> = o["nodes"].as_array().unwrap().iter()
					.map(|r| json!({"n": gi(r, "n"), "ad": gi(r, "ad")})).collect();
				json!({"run": run, "ev": "rgs", "ts": gi(&o, "ts"), "ver": gi(&o, "ver"), "anns": anns, "nodes": nodes, "upds": upds,
					"prune": prune, "t": gi(&o, "t"), "res": if r.is_ok() { "ok" } else { "err" }})
			},
			other => json!({"run": run, "ev": "bad_op", "op": other}),
		};
		let g = project(&graph, k, base);
		if g != before {
			st.changed += 1;
		}
		st.max_chans = st.max_chans.max(g["chans"].as_array().map(|a| a.len()).unwrap_or(0));
		let (rt, _) = round_trip(&graph, &logger);
		if !rt {
			st.rt_fail += 1;
		}
		ev["g"] = g;
		ev["rt"] = json!(rt);
		tw.emit(ev);
	}
}

// ------------------------------------------------------------------------- random scripts

fn cu_msg(c: i64, d: i64, ts: i64, s: i64, chain: bool, hmax: i64, rng: &mut StdRng) -> Value {
	json!({"k": "cu", "c": c, "d": d, "ts": ts, "s": s, "chain": chain, "en": rng.gen_bool(0.7),
		"cltv": rng.gen_range(1..1000), "hmin": rng.gen_range(0..1000), "hmax": hmax,
		"fb": rng.gen_range(0..100000), "fp": rng.gen_range(0..100000)})
}

/// Gossip that is still in flight when a permanent failure is reported: right after the report of
/// channel `fc` / node `fnode`, optionally a pruning call whose clock keeps or drops the memory of
/// the report (or a reload, which drops it), then messages of every class that refer to what was
/// removed -- the announcement of the removed channel again, announcements of other channels of
/// the removed node (known ones and ones not announced so far; the node sits in whichever slot its
/// key sorts into), their updates, the node's announcement.
fn late_gossip(
	rng: &mut StdRng, pool: &[Value], pairs: &[(i64, i64)], nch: usize, fc: Option<i64>, fnode: Option<i64>,
	clock_only: bool, ops: &mut Vec<Value>,
) {
	if !rng.gen_bool(0.7) {
		return;
	}
	if rng.gen_bool(0.35) {
		// clock < one week after the run's start: every report is still remembered; later: may be forgotten
		let keep = [100 - TWO_WEEKS, -ONE_WEEK - 50];
		let drop: &[i64] = if clock_only { &[3600 - ONE_WEEK] } else { &[3600 - ONE_WEEK, 150, ONE_WEEK + 150] };
		let t = if rng.gen_bool(0.6) { keep[rng.gen_range(0..keep.len())] } else { drop[rng.gen_range(0..drop.len())] };
		ops.push(json!({"op": "prune", "t": t}));
	} else if !clock_only && rng.gen_bool(0.1) {
		ops.push(json!({"op": "reload"}));
	}
	let mut scids: Vec<i64> = Vec::new();
	let mut cand: Vec<Value> = Vec::new();
	if let Some(c) = fc {
		scids.push(c);
	}
	for m in pool.iter().filter(|m| gs(m, "k") == "ca") {
		let hit = Some(gi(m, "c")) == fc || Some(gi(m, "n1")) == fnode || Some(gi(m, "n2")) == fnode;
		if hit {
			scids.push(gi(m, "c"));
			cand.push(m.clone());
		}
	}
	for c in nch as i64 + 1..=NC as i64 {
		let (n1, n2) = pairs[c as usize - 1];
		if Some(n1) == fnode || Some(n2) == fnode {
			scids.push(c);
			cand.push(json!({"k": "ca", "c": c, "n1": n1, "n2": n2, "s1": n1, "s2": n2, "bs": 1, "chain": true}));
		}
	}
	for m in pool.iter() {
		if (gs(m, "k") == "cu" && scids.contains(&gi(m, "c"))) || (gs(m, "k") == "na" && Some(gi(m, "n")) == fnode) {
			cand.push(m.clone());
		}
	}
	if cand.is_empty() {
		return;
	}
	for _ in 0..rng.gen_range(1..=3) {
		let mut m = cand[rng.gen_range(0..cand.len())].clone();
		let mut via = if rng.gen_bool(0.5) { "p2p" } else { "direct" };
		if gs(&m, "k") == "ca" && gi(&m, "s1") == gi(&m, "n1") && gi(&m, "s2") == gi(&m, "n2") && rng.gen_bool(0.2) {
			// the same announcement through the entry point that requests no verification
			m["s1"] = json!(-2);
			m["s2"] = json!(-2);
			via = "unsigned";
		}
		ops.push(json!({"op": "deliver", "via": via, "m": m}));
	}
}

fn random_script(rng: &mut StdRng) -> Value {
	let lookup = rng.gen_bool(0.5);
	let caps: Vec<i64> = (0..NC).map(|_| if rng.gen_bool(0.5) { 1000 } else { 2000 }).collect();
	let pure_run = rng.gen_bool(0.4);
	// asynchronous UTXO lookups: announcements stay pending until a `resolve` op
	let async_run = lookup && rng.gen_bool(0.4);
	let nch = rng.gen_range(1..=3);
	let mut pairs: Vec<(i64, i64)> = Vec::new();
	for _ in 0..NC {
		let a = rng.gen_range(1..=4);
		let mut b = rng.gen_range(1..=4);
		while b == a {
			b = rng.gen_range(1..=4);
		}
		pairs.push((a.min(b), a.max(b)));
	}
	let tss = [100i64, 200, 300, 400];
	let mut pool: Vec<Value> = Vec::new();
	let other = |x: i64, y: i64, rng: &mut StdRng| -> i64 {
		let mut o = rng.gen_range(1..=5);
		while o == x || o == y {
			o = rng.gen_range(1..=5);
		}
		o
	};
	for c in 1..=nch as i64 {
		let (n1, n2) = pairs[c as usize - 1];
		pool.push(json!({"k": "ca", "c": c, "n1": n1, "n2": n2, "s1": n1, "s2": n2, "bs": 1, "chain": true}));
		if !pure_run {
			match rng.gen_range(0..8) {
				0 => pool.push(json!({"k": "ca", "c": c, "n1": n1, "n2": n2, "s1": other(n1, n2, rng), "s2": n2, "bs": 1, "chain": true})),
				1 => {
					let s2 = [0, -1, n1][rng.gen_range(0..3)];
					pool.push(json!({"k": "ca", "c": c, "n1": n1, "n2": n2, "s1": n1, "s2": s2, "bs": 1, "chain": true}))
				},
				2 => pool.push(json!({"k": "ca", "c": c, "n1": n1, "n2": n2, "s1": n1, "s2": n2, "bs": 0, "chain": true, "w": rng.gen_range(0..2)})),
				3 => pool.push(json!({"k": "ca", "c": c, "n1": n1, "n2": n2, "s1": n1, "s2": n2, "bs": 1, "chain": false})),
				4 if !async_run => {
					// a correctly signed announcement of the same scid by another node pair
					let o = other(n1, n2, rng);
					let (a, b) = (n1.min(o), n1.max(o));
					pool.push(json!({"k": "ca", "c": c, "n1": a, "n2": b, "s1": a, "s2": b, "bs": 1, "chain": true}));
				},
				_ => {},
			}
		}
		let cap_msat = caps[c as usize - 1] * 1000;
		for d in 0..2i64 {
			let signer = if d == 0 { n1 } else { n2 };
			let cnt = rng.gen_range(0..=3);
			let mut used: Vec<i64> = Vec::new();
			for _ in 0..cnt {
				let ts = tss[rng.gen_range(0..tss.len())];
				if pure_run && used.contains(&ts) {
					continue;
				}
				used.push(ts);
				let hmax = if !lookup && rng.gen_bool(0.2) { cap_msat + rng.gen_range(1..5000) } else { rng.gen_range(1000..=cap_msat) };
				let s = if rng.gen_bool(0.15) { -2 } else { signer };
				pool.push(cu_msg(c, d, ts, s, true, hmax, rng));
			}
			if !pure_run {
				let ts = tss[rng.gen_range(0..tss.len())];
				let hok = rng.gen_range(1000..=cap_msat);
				match rng.gen_range(0..8) {
					0 => pool.push(cu_msg(c, d, ts, if d == 0 { n2 } else { n1 }, true, hok, rng)),
					1 => pool.push(cu_msg(c, d, ts, [0, -1][rng.gen_range(0..2)], true, hok, rng)),
					2 => pool.push(cu_msg(c, d, ts, signer, false, hok, rng)),
					3 => pool.push(cu_msg(c, d, ts, signer, true, cap_msat + rng.gen_range(1..3), rng)),
					4 => pool.push(cu_msg(c, d, ts, other(n1, n2, rng), true, hok, rng)),
					5 | 6 => pool.push(cu_msg(c, d, ts, -2, true, hok, rng)), // unsigned entry point, likely an equal timestamp
					_ => {},
				}
			}
		}
	}
	if !pure_run && rng.gen_bool(0.4) {
		// update for a channel nobody announced
		let c = nch as i64 + 1;
		let (n1, _) = pairs[c as usize - 1];
		pool.push(cu_msg(c, 0, 100, n1, true, 1000, rng));
	}
	for n in 1..=5i64 {
		let cnt = rng.gen_range(0..=2);
		let mut used: Vec<i64> = Vec::new();
		for _ in 0..cnt {
			let ts = tss[rng.gen_range(0..tss.len())];
			if pure_run && used.contains(&ts) {
				continue;
			}
			used.push(ts);
			let s = if rng.gen_bool(0.15) { -2 } else { n };
			let ad = if rng.gen_bool(0.3) { 0 } else { rng.gen_range(1..60000) };
			pool.push(json!({"k": "na", "n": n, "ts": ts, "s": s, "ap": rng.gen_range(1..250), "ad": ad}));
		}
		if !pure_run && rng.gen_bool(0.4) {
			// wrongly signed, or handed in unsigned (likely with a timestamp already stored)
			let s = [0, -1, (n % 5) + 1, -2, -2][rng.gen_range(0..5)];
			let ad = rng.gen_range(0..60000);
			pool.push(json!({"k": "na", "n": n, "ts": tss[rng.gen_range(0..tss.len())], "s": s, "ap": rng.gen_range(1..250), "ad": ad}));
		}
	}
	let via = |rng: &mut StdRng| if rng.gen_bool(0.5) { "p2p" } else { "direct" };
	let mut ops: Vec<Value> = Vec::new();
	let len = rng.gen_range(pool.len()..=pool.len() * 2 + 2);
	// first pass in random order, then random re-deliveries: every message gets delivered, many twice
	let mut order: Vec<usize> = (0..pool.len()).collect();
	order.shuffle(rng);
	if rng.gen_bool(0.5) {
		// announcements tend to come first
		order.sort_by_key(|i| if gs(&pool[*i], "k") == "ca" { 0 } else { 1 });
	}
	while order.len() < len {
		order.push(rng.gen_range(0..pool.len()));
	}
	if async_run {
		for i in order {
			ops.push(json!({"op": "deliver", "via": via(rng), "m": pool[i].clone()}));
			if rng.gen_bool(0.12) {
				ops.push(json!({"op": "resolve", "c": rng.gen_range(1..=nch as i64), "ok": rng.gen_bool(0.85)}));
			}
			if !pure_run && rng.gen_bool(0.07) {
				// a permanent failure reported while lookups may be pending
				let fv = if rng.gen_bool(0.5) { "update" } else { "direct" };
				if rng.gen_bool(0.4) {
					let c = rng.gen_range(1..=nch as i64);
					ops.push(json!({"op": "failc", "c": c, "via": fv}));
					late_gossip(rng, &pool, &pairs, nch, Some(c), None, true, &mut ops);
				} else {
					let n = rng.gen_range(1..=4);
					ops.push(json!({"op": "failn", "n": n, "via": fv}));
					late_gossip(rng, &pool, &pairs, nch, None, Some(n), true, &mut ops);
				}
			}
		}
		for c in 1..=NC as i64 {
			ops.push(json!({"op": "resolve", "c": c, "ok": rng.gen_bool(0.85)}));
		}
		for _ in 0..pool.len() / 2 {
			ops.push(json!({"op": "deliver", "via": via(rng), "m": pool[rng.gen_range(0..pool.len())].clone()}));
		}
		for c in 1..=NC as i64 {
			ops.push(json!({"op": "resolve", "c": c, "ok": true}));
		}
		return json!({"lookup": lookup, "async": true, "caps": caps, "ops": ops, "pure": pure_run});
	}
	for i in order {
		ops.push(json!({"op": "deliver", "via": via(rng), "m": pool[i].clone()}));
		if !pure_run && rng.gen_bool(0.18) {
			let fv = if rng.gen_bool(0.5) { "update" } else { "direct" };
			match rng.gen_range(0..7) {
				0 => {
					let c = rng.gen_range(1..=nch as i64 + 1);
					ops.push(json!({"op": "failc", "c": c, "via": fv}));
					late_gossip(rng, &pool, &pairs, nch, Some(c), None, false, &mut ops);
				},
				1 => {
					let n = rng.gen_range(1..=5);
					ops.push(json!({"op": "failn", "n": n, "via": fv}));
					late_gossip(rng, &pool, &pairs, nch, None, Some(n), false, &mut ops);
				},
				2 | 3 => {
					// incl. clocks within / just past the week a failure report is remembered, and one
					// more than a week after the other pruning calls
					let t = [0i64, -100, 150, 250, 350, 450, 100 - TWO_WEEKS, -ONE_WEEK - 50, 3600 - ONE_WEEK,
						ONE_WEEK + 150][rng.gen_range(0..10)];
					ops.push(json!({"op": "prune", "t": t}))
				},
				4 => ops.push(json!({"op": "reload"})),
				_ => {
					let ver = rng.gen_range(1..=2);
					let mut anns: Vec<Value> = Vec::new();
					let mut upds: Vec<Value> = Vec::new();
					let mut nodes: Vec<Value> = Vec::new();
					if ver == 2 {
						for n in 1..=5i64 {
							if rng.gen_bool(0.35) {
								nodes.push(json!({"n": n, "ad": rng.gen_range(0..60000)}));
							}
						}
					}
					for c in 1..=NC as i64 {
						if rng.gen_bool(0.4) {
							let (n1, n2) = pairs[c as usize - 1];
							let cap = if ver == 2 && rng.gen_bool(0.5) { caps[c as usize - 1] } else { -1 };
							anns.push(json!({"c": c, "n1": n1, "n2": n2, "cap": cap}));
						}
						for d in 0..2 {
							if rng.gen_bool(0.3) {
								let hmax = if rng.gen_bool(0.2) { 2_000_001 } else { rng.gen_range(1000..=1_000_000) };
								upds.push(cu_msg(c, d, 0, 0, true, hmax, rng));
							}
						}
					}
					let ts = [50i64, 100, 200, 300, 400][rng.gen_range(0..5)];
					let t = [0i64, 150, 250, 350][rng.gen_range(0..4)];
					ops.push(json!({"op": "rgs", "ver": ver, "ts": ts, "anns": anns, "nodes": nodes, "upds": upds,
						"prune": rng.gen_bool(0.4), "t": t}));
				},
			}
		}
	}
	json!({"lookup": lookup, "async": false, "caps": caps, "ops": ops, "pure": pure_run})
}

// ---------------------------------------------------------------------------------------------
// mode rtsweep (C12): write/read round trips of small real graphs whose variable-length parts
// sweep across the codec's length-prefix boundaries.  Every graph is built from really signed
// messages accepted through the public update_* entry points; the part named by `what` carries
// `len` bytes of trailing data the library does not understand (and must keep when it stores the
// message for relay).  One record per round trip; nothing is judged here (GraphRtTrace.tla).

static FILL_SALT: std::sync::atomic::AtomicUsize = std::sync::atomic::AtomicUsize::new(0);

fn filler(len: usize, salt: usize) -> Vec<u8> {
	let salt = salt.wrapping_add(FILL_SALT.load(std::sync::atomic::Ordering::Relaxed).wrapping_mul(31));
	(0..len).map(|i| (i.wrapping_mul(7).wrapping_add(salt).wrapping_add(len) & 0xff) as u8).collect()
}

fn sweep_ca(k: &Keys, c: i64, n1: i64, n2: i64, excess: usize) -> ChannelAnnouncement {
	let mut ca = build_ca(k, &json!({"c": c, "n1": n1, "n2": n2, "chain": true, "bs": 1, "w": 0, "s1": n1, "s2": n2}));
	ca.contents.excess_data = filler(excess, 1);
	let enc = ca.contents.encode();
	let (b1, b2) = k.btc(c);
	ca.node_signature_1 = k.sign(&enc, n1, n1);
	ca.node_signature_2 = k.sign(&enc, n2, n2);
	ca.bitcoin_signature_1 = k.sign_with(&enc, &b1);
	ca.bitcoin_signature_2 = k.sign_with(&enc, &b2);
	ca
}

fn sweep_cu(k: &Keys, c: i64, d: i64, signer: i64, base: i64, excess: usize) -> ChannelUpdate {
	let mut cu = build_cu(
		k,
		&json!({"c": c, "d": d, "ts": 10 + d, "s": signer, "chain": true, "en": true, "cltv": 40 + d, "hmin": 1,
			"hmax": 100_000, "fb": 1000 + d, "fp": 10}),
		base,
		signer,
	);
	cu.contents.excess_data = filler(excess, 2 + d as usize);
	let enc = cu.contents.encode();
	cu.signature = k.sign(&enc, signer, signer);
	cu
}

fn sweep_na(k: &Keys, n: i64, base: i64, excess_addr: usize, excess: usize) -> NodeAnnouncement {
	let mut na = build_na(k, &json!({"n": n, "ts": 20, "s": n, "ap": 3, "ad": 9735}), base);
	let mut ead = filler(excess_addr, 5);
	if !ead.is_empty() {
		ead[0] = 0xfe; // an address descriptor type nobody knows: the rest of the address field is kept as is
	}
	na.contents.excess_address_data = ead;
	na.contents.excess_data = filler(excess, 6);
	let enc = na.contents.encode();
	na.signature = k.sign(&enc, n, n);
	na
}

const SWEEP_WHAT: [&str; 7] = ["ca", "cu0", "cu1", "cu_both", "na_excess", "na_addr", "all"];

/// lengths of the trailing parts of one graph: channel_announcement, channel_update dir 0 / dir 1 (None: no update),
/// node_announcement of node 1 (excess address data, excess data; None: not announced), of node 2 (excess data)
struct SweepLens {
	ca: usize,
	cu: [Option<usize>; 2],
	na1: Option<(usize, usize)>,
	na2: Option<usize>,
}

fn sweep_lens(what: &str, len: usize) -> SweepLens {
	let mut s = SweepLens { ca: 0, cu: [None, None], na1: None, na2: None };
	match what {
		"ca" => { s.ca = len; s.cu[0] = Some(0) },
		"cu0" => s.cu[0] = Some(len),
		"cu1" => s.cu[1] = Some(len),
		"cu_both" => s.cu = [Some(len), Some(len)],
		"na_excess" => s.na1 = Some((0, len)),
		"na_addr" => s.na1 = Some((len, 0)),
		_ => {
			s = SweepLens { ca: len, cu: [Some(len), Some(len)], na1: Some((len / 2, len - len / 2)), na2: Some(len) }
		},
	}
	s
}

fn sweep_one(k: &Keys, what: &str, len: usize, s: &SweepLens, run: u64, tw: &mut TraceWriter) {
	let logger = Arc::new(NullLogger);
	let base = SystemTime::now().duration_since(UNIX_EPOCH).unwrap().as_secs() as i64 - 1000;
	let graph: Graph = NetworkGraph::new(Network::Testnet, Arc::clone(&logger));
	let (n1, n2) = (1i64, 2i64);
	let mut accepted = true;
	accepted &= graph.update_channel_from_announcement_no_lookup(&sweep_ca(k, 1, n1, n2, s.ca)).is_ok();
	// a second, plain channel and node: a mis-sized record must not be able to hide at the end of the file
	accepted &= graph.update_channel_from_announcement_no_lookup(&sweep_ca(k, 2, n2, 3, 0)).is_ok();
	for d in 0..2i64 {
		if let Some(l) = s.cu[d as usize] {
			accepted &= graph.update_channel(&sweep_cu(k, 1, d, if d == 0 { n1 } else { n2 }, base, l)).is_ok();
		}
	}
	if let Some((a, e)) = s.na1 {
		accepted &= graph.update_node_from_announcement(&sweep_na(k, n1, base, a, e)).is_ok();
	}
	if let Some(e) = s.na2 {
		accepted &= graph.update_node_from_announcement(&sweep_na(k, n2, base, 0, e)).is_ok();
	}
	accepted &= graph.update_node_from_announcement(&sweep_na(k, 3, base, 0, 0)).is_ok();
	let mut bytes = Vec::new();
	let write_ok = graph.write(&mut bytes).is_ok();
	let (mut read_ok, mut equal, mut rewrite_equal, mut consumed, mut same_bytes) = (false, false, false, false, false);
	let mut err = String::new();
	let mut rd = &bytes[..];
	match Graph::read(&mut rd, Arc::clone(&logger)) {
		Ok(g2) => {
			read_ok = true;
			consumed = rd.is_empty();
			equal = g2 == graph;
			// the file is written in hash-map order, so a second generation need not be byte-identical (recorded
			// for information only); it must have the same size and read back to the same graph
			let bytes2 = g2.encode();
			same_bytes = bytes2 == bytes;
			let mut rd2 = &bytes2[..];
			rewrite_equal = bytes2.len() == bytes.len()
				&& match Graph::read(&mut rd2, Arc::clone(&logger)) {
					Ok(g3) => rd2.is_empty() && g3 == graph && g3 == g2,
					Err(_) => false,
				};
		},
		Err(e) => err = format!("{:?}", e),
	}
	let ro = graph.read_only();
	let stored = ro.channels().len() as u64 * 1000 + ro.nodes().len() as u64;
	tw.emit(json!({"run": run, "ev": "rt_graph", "what": what, "len": len, "accepted": accepted, "write_ok": write_ok,
		"bytes": bytes.len(), "read_ok": read_ok, "consumed": consumed,
		"equal": equal, "rewrite_equal": rewrite_equal, "same_bytes": same_bytes, "err": err, "shape": stored}));
}

fn rtsweep(k: &Keys, out: &str, max_len: usize, seed: u64, nmixed: u64) {
	FILL_SALT.store(seed as usize, std::sync::atomic::Ordering::Relaxed);
	let mut tw = TraceWriter::create(out);
	let mut lens: Vec<usize> = (0..=max_len).collect();
	// the relay limit (beyond it the message is not stored), and the largest messages the 65535-byte wire limit allows
	lens.extend_from_slice(&[1022, 1023, 1024, 1025, 1026, 2048, 65000, 65096, 65097, 65098, 65396, 65397, 65398]);
	let (mut run, mut panics) = (0u64, 0u64);
	for what in SWEEP_WHAT.iter() {
		for &len in lens.iter() {
			run += 1;
			let r = catch_unwind(AssertUnwindSafe(|| sweep_one(k, what, len, &sweep_lens(what, len), run, &mut tw)));
			if r.is_err() {
				panics += 1;
				tw.emit(json!({"run": run, "ev": "panic", "what": what, "len": len}));
			}
		}
	}
	// seeded: every part present or absent and of its own length (`len` records the sum)
	let mut rng = StdRng::seed_from_u64(seed.wrapping_mul(1_000_003).wrapping_add(77));
	for _ in 0..nmixed {
		let pick = |rng: &mut StdRng| -> usize {
			match rng.gen_range(0..4) {
				0 => rng.gen_range(0..=max_len.max(1030)),
				1 => rng.gen_range(40..=130),   // where the nested containers of a stored message cross 0xfd
				2 => rng.gen_range(1018..=1030), // the relay limit
				_ => rng.gen_range(0..=300),
			}
		};
		let s = SweepLens {
			ca: pick(&mut rng),
			cu: [if rng.gen_bool(0.8) { Some(pick(&mut rng)) } else { None }, if rng.gen_bool(0.8) { Some(pick(&mut rng)) } else { None }],
			na1: if rng.gen_bool(0.8) { Some((pick(&mut rng) / 2, pick(&mut rng) / 2)) } else { None },
			na2: if rng.gen_bool(0.5) { Some(pick(&mut rng)) } else { None },
		};
		let len = s.ca + s.cu[0].unwrap_or(0) + s.cu[1].unwrap_or(0) + s.na1.map(|(a, e)| a + e).unwrap_or(0) + s.na2.unwrap_or(0);
		run += 1;
		let r = catch_unwind(AssertUnwindSafe(|| sweep_one(k, "mixed", len, &s, run, &mut tw)));
		if r.is_err() {
			panics += 1;
			tw.emit(json!({"run": run, "ev": "panic", "what": "mixed", "len": len}));
		}
	}
	tw.flush();
	println!("{}", json!({"mode": "rtsweep", "runs": run, "panics": panics, "events": tw.lines, "kinds": SWEEP_WHAT.len(), "lengths": lens.len(), "mixed": nmixed}));
}

fn main() {
	let args: Vec<String> = std::env::args().collect();
	let mut scripts_path: Option<String> = None;
	let mut out = "trace.ndjson".to_string();
	let mut scripts_out: Option<String> = None;
	let mut nrand: u64 = 0;
	let mut seed: u64 = 1;
	let mut mode = "scripts".to_string();
	let mut max_len: usize = 700;
	let mut i = 1;
	while i < args.len() {
		match args[i].as_str() {
			"--scripts" => { scripts_path = Some(args[i + 1].clone()); i += 1 },
			"--out" => { out = args[i + 1].clone(); i += 1 },
			"--scripts-out" => { scripts_out = Some(args[i + 1].clone()); i += 1 },
			"--random" => { nrand = args[i + 1].parse().unwrap(); i += 1 },
			"--seed" => { seed = args[i + 1].parse().unwrap(); i += 1 },
			"--mode" => { mode = args[i + 1].clone(); i += 1 },
			"--max-len" => { max_len = args[i + 1].parse().unwrap(); i += 1 },
			_ => {},
		}
		i += 1;
	}
	std::panic::set_hook(Box::new(|_| {}));
	let k = Keys::new();
	if mode == "rtsweep" {
		rtsweep(&k, &out, max_len, seed, nrand);
		return;
	}
	let mut tw = TraceWriter::create(&out);
	let mut st = Stats::default();
	let mut run: u64 = 0;
	let mut dump = scripts_out.map(|p| std::fs::File::create(p).expect("scripts-out"));
	let exec = |script: &Value, run: u64, tw: &mut TraceWriter, st: &mut Stats| {
		st.runs += 1;
		let r = catch_unwind(AssertUnwindSafe(|| run_script(&k, script, run, tw, st)));
		if r.is_err() {
			st.panics += 1;
			tw.emit(json!({"run": run, "ev": "panic"}));
		}
	};
	if let Some(p) = scripts_path {
		let f = BufReader::new(std::fs::File::open(p).expect("scripts"));
		for line in f.lines() {
			let line = line.unwrap();
			if line.trim().is_empty() {
				continue;
			}
			let script: Value = serde_json::from_str(&line).expect("script json");
			run += 1;
			exec(&script, run, &mut tw, &mut st);
		}
	}
	for r in 0..nrand {
		let mut rng = StdRng::seed_from_u64(seed.wrapping_mul(1_000_003).wrapping_add(r));
		let script = random_script(&mut rng);
		if let Some(d) = dump.as_mut() {
			writeln!(d, "{}", script).unwrap();
		}
		run += 1;
		exec(&script, run, &mut tw, &mut st);
	}
	tw.flush();
	println!(
		"{}",
		json!({"runs": st.runs, "steps": st.steps, "delivered": st.delivered, "changed": st.changed,
			"ok": st.ok, "err": st.err, "panics": st.panics, "rt_fail": st.rt_fail, "max_chans": st.max_chans,
			"events": tw.lines})
	);
}
