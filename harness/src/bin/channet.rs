//! Engine `channet`: a line network of 2-3 real `ChannelManager`s with harness-owned per-direction
//! FIFO message queues (every wire message delivered by its own `handle_*` call), a recording and
//! controllable `Persist`, disconnects/reconnects, fee updates, crash/reload from chosen snapshots.
//! Executes scripts (from TLC or seeded random) and records NDJSON for TLC trace validation.
//!
//! usage: channet --scripts FILE --out TRACE [--random N --seed S --nodes K --profile P]

use bitcoin::hashes::Hash as _;
use bitcoin::secp256k1::{PublicKey, Secp256k1, SecretKey};
use lightning::chain::chainmonitor::Persist;
use lightning::chain::channelmonitor::{ChannelMonitor, ChannelMonitorUpdate};
use lightning::chain::ChannelMonitorUpdateStatus;
use lightning::events::{ClosureReason, Event};
use lightning::ln::channelmanager::PaymentId;
use lightning::ln::outbound_payment::RecipientOnionFields;
use lightning::ln::functional_test_utils::*;
use lightning::ln::msgs::{self, BaseMessageHandler, ChannelMessageHandler, ErrorAction, MessageSendEvent};
use lightning::ln::types::ChannelId;
use lightning::routing::router::{Path, Route, RouteHop};
use lightning::types::features::{ChannelFeatures, NodeFeatures};
use lightning::types::payment::{PaymentHash, PaymentPreimage, PaymentSecret};
use lightning::util::persist::MonitorName;
use lightning::chain::BlockLocator;
use lightning::util::ser::{ReadableArgs, Readable, Writeable};
use lightning::util::test_utils::{TestBroadcaster, TestChainMonitor, TestFeeEstimator, TestKeysInterface, TestLogger};
use lightning::util::test_channel_signer::TestChannelSigner;
use lightning::verif::monitor::{steps as update_steps, CommitmentInfo, HtlcInfo, StepView};
use rand::rngs::StdRng;
use rand::{Rng, SeedableRng};
use serde_json::{json, Value};
use std::collections::{HashMap, HashSet, VecDeque};
use std::panic::{catch_unwind, AssertUnwindSafe};
use std::sync::{Arc, Mutex};
use vharness::trace::TraceWriter;

type Log = Arc<Mutex<Vec<Value>>>;
static LAST_PANIC: Mutex<String> = Mutex::new(String::new());

// ---------------------------------------------------------------------------------------------
// Recording persister

struct RecPersister {
	node: usize,
	log: Log,
	/// status returned for the next calls; true = InProgress
	in_progress: Mutex<bool>,
	/// channel ids in order of first appearance (shared across nodes through `chan_index`)
	chans: Arc<Mutex<Vec<ChannelId>>>,
	hashes: Arc<Mutex<Vec<[u8; 32]>>>,
	/// (chan idx, update_id) -> serialized monitor as of that persist call
	snapshots: Mutex<Vec<(usize, u64, Vec<u8>)>>,
	/// number of monitor writes this node has made so far
	nwrites: Mutex<u64>,
	/// do not log re-persists that carry no update (block connections while the chain is settled)
	quiet: Mutex<bool>,
	/// last counterparty-commitment / holder-commitment info seen per channel
	last_cp: Mutex<HashMap<usize, Value>>,
	pending: Mutex<Vec<(usize, u64)>>,
	/// per snapshot: was it handed to the disk as InProgress (it has landed once its id is no longer pending)
	snap_inprog: Mutex<Vec<bool>>,
	keys: &'static TestKeysInterface,
	fee_est: &'static TestFeeEstimator,
	logger: &'static TestLogger,
	txids: Arc<Mutex<HashMap<[u8; 32], (usize, usize, u64, bool)>>>,
}

fn intern_hash(hashes: &Arc<Mutex<Vec<[u8; 32]>>>, h: &[u8; 32]) -> usize {
	let mut v = hashes.lock().unwrap();
	if let Some(p) = v.iter().position(|x| x == h) {
		return p + 1;
	}
	v.push(*h);
	v.len()
}

fn chan_index(chans: &Arc<Mutex<Vec<ChannelId>>>, c: &ChannelId) -> usize {
	let mut v = chans.lock().unwrap();
	if let Some(p) = v.iter().position(|x| x == c) {
		return p + 1;
	}
	v.push(*c);
	v.len()
}

fn htlc_json(hashes: &Arc<Mutex<Vec<[u8; 32]>>>, h: &HtlcInfo) -> Value {
	json!({"hash": intern_hash(hashes, &h.payment_hash), "amt": h.amount_msat, "offered": h.offered, "cltv": h.cltv_expiry})
}

/// C12: write / read-back checks performed on every persisted monitor and update.
/// records what the output sweeper broadcasts (kept apart from the nodes' own broadcasters)
#[derive(Default)]
struct SweepBroadcaster { txs: Mutex<Vec<bitcoin::Transaction>> }
impl lightning::chain::chaininterface::BroadcasterInterface for SweepBroadcaster {
	fn broadcast_transactions(&self, txs: &[(&bitcoin::Transaction, lightning::chain::chaininterface::TransactionType)]) {
		for (t, _) in txs { self.txs.lock().unwrap().push((*t).clone()); }
	}
}
struct SweepWallet;
impl lightning::sign::ChangeDestinationSourceSync for SweepWallet {
	fn get_change_destination_script(&self) -> Result<bitcoin::ScriptBuf, ()> {
		Ok(bitcoin::ScriptBuf::new_p2wsh(&bitcoin::WScriptHash::all_zeros()))
	}
}
type Sweeper = lightning::util::sweep::OutputSweeperSync<&'static SweepBroadcaster, &'static SweepWallet, &'static lightning::util::test_utils::TestFeeEstimator,
	&'static lightning::util::test_utils::TestChainSource, &'static lightning::util::test_utils::TestStore, &'static lightning::util::test_utils::TestLogger,
	&'static lightning::util::dyn_signer::DynKeysInterface>;

struct NullBroadcaster;
impl lightning::chain::chaininterface::BroadcasterInterface for NullBroadcaster {
	fn broadcast_transactions(&self, _txs: &[(&bitcoin::Transaction, lightning::chain::chaininterface::TransactionType)]) {}
}

fn round_trips(p: &RecPersister, prev: Option<&Vec<u8>>, update: Option<&ChannelMonitorUpdate>, mon: &ChannelMonitor<TestChannelSigner>) -> Value {
	let bytes = mon.encode();
	let mut rd = &bytes[..];
	let mon_rt = match <(BlockLocator, ChannelMonitor<TestChannelSigner>)>::read(&mut rd, (p.keys, p.keys)) {
		// equal under the library's ==, or -- that relation also looks at in-memory-only state such as the
		// "events are being processed" flag, which a write in the middle of event handling cannot carry --
		// re-encoding to the very same bytes
		Ok((_, m2)) => {
			// (fields the library documents as in-memory only -- "Not serialized" -- are part of its derived ==;
			// they are listed by the read-only hook verif_diff_fields and not held against the round trip)
			let inmem = ["failed_back_htlc_ids", "is_processing_pending_events"];
			let ok = rd.is_empty() && (m2 == *mon || m2.encode() == bytes || mon.verif_diff_fields(&m2).iter().all(|f| inmem.contains(f)));
			if !ok && std::env::var("VERIF_DBG").is_ok() {
				let _ = std::fs::write("/tmp/mon_a.bin", &bytes); let _ = std::fs::write("/tmp/mon_b.bin", m2.encode());
				eprintln!("DBGMON eq={} bytes_eq={} rd_empty={} diff={:?}", m2 == *mon, m2.encode() == bytes, rd.is_empty(), mon.verif_diff_fields(&m2));
			}
			ok
		},
		Err(_) => false,
	};
	let mut upd_rt = true;
	let mut commute = json!(true);
	let mut commute_checked = false;
	if let Some(u) = update {
		let ub = u.encode();
		let mut r = &ub[..];
		upd_rt = match <ChannelMonitorUpdate as Readable>::read(&mut r) {
			Ok(u2) => u2 == *u,
			Err(_) => false,
		};
		// C12: applying the update before or after a serialization round trip gives equal monitors.
		// (The previously persisted copy may be at an older chain tip than the live monitor -- the
		// ChainMonitor does not persist on every block -- so it is compared with itself, not with `mon`.)
		if let Some(pb) = prev {
			let rd = |b: &[u8]| { let mut r = b; <(BlockLocator, ChannelMonitor<TestChannelSigner>)>::read(&mut r, (p.keys, p.keys)).map(|x| x.1) };
			if let (Ok(m1), Ok(m2)) = (rd(&pb[..]), rd(&pb[..])) {
				if m1.get_latest_update_id() + 1 == u.update_id {
					// (a broadcaster without TestBroadcaster's chain-tip assertions: the copy is driven outside any chain)
					let bc = NullBroadcaster;
					let ok1 = m1.update_monitor(u, &bc, p.fee_est, p.logger).is_ok();
					let m1b = rd(&m1.encode()[..]);
					let m2b = rd(&m2.encode()[..]);
					commute_checked = true;
					commute = match (m1b, m2b) {
						(Ok(a), Ok(b)) => { let ok2 = b.update_monitor(u, &bc, p.fee_est, p.logger).is_ok(); json!(ok1 && ok2 && a == b && a == m1) },
						_ => json!(false),
					};
				}
			}
		}
	}
	// truncations of a valid encoding are refused, never a panic
	let mut trunc_ok = true;
	for cut in [bytes.len() / 3, bytes.len() / 2, bytes.len() - 1] {
		let mut r = &bytes[..cut];
		if <(BlockLocator, ChannelMonitor<TestChannelSigner>)>::read(&mut r, (p.keys, p.keys)).is_ok() { trunc_ok = false; }
	}
	json!({"monitor": mon_rt, "update": upd_rt, "commute": commute, "commute_checked": commute_checked, "truncated_refused": trunc_ok})
}

fn commitment_json(hashes: &Arc<Mutex<Vec<[u8; 32]>>>, c: &CommitmentInfo, dust: &[HtlcInfo]) -> Value {
	json!({
		"num": (0xffff_ffff_ffffu64 - c.commitment_number),
		"feerate": c.feerate_per_kw,
		"to_b": c.to_broadcaster_value_sat,
		"to_c": c.to_countersignatory_value_sat,
		"nondust": c.nondust_htlcs.iter().map(|h| htlc_json(hashes, h)).collect::<Vec<_>>(),
		"dust": dust.iter().map(|h| htlc_json(hashes, h)).collect::<Vec<_>>(),
	})
}

impl RecPersister {
	fn record(
		&self, kind: &str, name: MonitorName, update: Option<&ChannelMonitorUpdate>,
		mon: &ChannelMonitor<TestChannelSigner>,
	) -> ChannelMonitorUpdateStatus {
		let _ = name;
		let c = chan_index(&self.chans, &mon.channel_id());
		let id = mon.get_latest_update_id();
		// the documented contract: once a channel has an update in flight, later updates of that
		// channel cannot be reported Completed before it
		let inprog = *self.in_progress.lock().unwrap() || self.pending.lock().unwrap().iter().any(|p| p.0 == c);
		let mut steps = Vec::new();
		if let Some(u) = update {
			for s in update_steps(u) {
				steps.push(match s {
					StepView::HolderCommitment { commitments, dust_htlcs, claimed } => {
						for cm in commitments.iter() { self.txids.lock().unwrap().insert(cm.txid, (self.node, c, 0xffff_ffff_ffffu64 - cm.commitment_number, true)); }
						json!({"k":"holder_commitment","c": commitment_json(&self.hashes, &commitments[0], &dust_htlcs), "n": commitments.len(), "claimed": claimed})
					},
					StepView::CounterpartyCommitment { commitments, dust_htlcs } => {
						for cm in commitments.iter() { self.txids.lock().unwrap().insert(cm.txid, (self.node, c, 0xffff_ffff_ffffu64 - cm.commitment_number, false)); }
						let cj = commitment_json(&self.hashes, &commitments[0], &dust_htlcs);
						self.last_cp.lock().unwrap().insert(c, cj.clone());
						json!({"k":"counterparty_commitment","c": cj, "n": commitments.len(), "claimed": 0})
					},
					StepView::PaymentPreimage { preimage, .. } => {
						let h = bitcoin::hashes::sha256::Hash::hash(&preimage).to_byte_array();
						json!({"k":"payment_preimage","hash": intern_hash(&self.hashes, &h)})
					},
					StepView::CommitmentSecret { idx, .. } => {
						json!({"k":"commitment_secret","idx": (0xffff_ffff_ffffu64 - idx)})
					},
					StepView::ChannelForceClosed { should_broadcast } => {
						json!({"k":"force_closed","broadcast": should_broadcast})
					},
					StepView::ShutdownScript => json!({"k":"shutdown_script"}),
					StepView::ReleasePaymentComplete => json!({"k":"release_payment_complete"}),
					StepView::Other(n) => json!({"k": n}),
				});
			}
		}
		let status = if inprog { "inprogress" } else { "completed" };
		let has_update = update.is_some();
		let prev: Option<Vec<u8>> = self.snapshots.lock().unwrap().iter().rev().find(|s| s.0 == c).map(|s| s.2.clone());
		let rt = round_trips(self, prev.as_ref(), update, mon);
		self.snapshots.lock().unwrap().push((c, id, mon.encode()));
		self.snap_inprog.lock().unwrap().push(inprog);
		*self.nwrites.lock().unwrap() += 1;
		if inprog {
			self.pending.lock().unwrap().push((c, id));
		}
		if !(*self.quiet.lock().unwrap() && !has_update && !inprog && rt["monitor"] == json!(true) && rt["truncated_refused"] == json!(true)) {
		self.log.lock().unwrap().push(json!({
			"ev":"persist","node":self.node,"chan":c,"kind":kind,"id":id,
			"uid": update.map(|u| u.update_id as i64).unwrap_or(-1),
			"has_update":has_update,"steps":steps,"status":status,"rt":rt}));
		}
		if inprog {
			ChannelMonitorUpdateStatus::InProgress
		} else {
			ChannelMonitorUpdateStatus::Completed
		}
	}
}

impl Persist<TestChannelSigner> for RecPersister {
	fn persist_new_channel(
		&self, monitor_name: MonitorName, monitor: &ChannelMonitor<TestChannelSigner>,
	) -> ChannelMonitorUpdateStatus {
		self.record("new", monitor_name, None, monitor)
	}
	fn update_persisted_channel(
		&self, monitor_name: MonitorName, update: Option<&ChannelMonitorUpdate>,
		monitor: &ChannelMonitor<TestChannelSigner>,
	) -> ChannelMonitorUpdateStatus {
		self.record("update", monitor_name, update, monitor)
	}
	fn archive_persisted_channel(&self, _monitor_name: MonitorName) {}
}

// ---------------------------------------------------------------------------------------------
// Wire messages (one element per message actually put on the wire)

#[derive(Clone)]
enum Wire {
	Add(msgs::UpdateAddHTLC),
	Fulfill(msgs::UpdateFulfillHTLC),
	Fail(msgs::UpdateFailHTLC),
	Malformed(msgs::UpdateFailMalformedHTLC),
	Fee(msgs::UpdateFee),
	CS(Vec<msgs::CommitmentSigned>, Value),
	RAA(msgs::RevokeAndACK),
	Reestablish(msgs::ChannelReestablish),
	ChannelReady(msgs::ChannelReady),
	Shutdown(msgs::Shutdown),
	ClosingSigned(msgs::ClosingSigned),
	AnnSigs(msgs::AnnouncementSignatures),
	ChanUpdate(msgs::ChannelUpdate),
	Error(msgs::ErrorMessage),
	Warning(msgs::WarningMessage),
	OpenChannel(msgs::OpenChannel),
	AcceptChannel(msgs::AcceptChannel),
	FundingCreated(msgs::FundingCreated),
	FundingSigned(msgs::FundingSigned),
}

struct Pay {
	preimage: PaymentPreimage,
	hash: PaymentHash,
	secret: PaymentSecret,
	amt: u64,
	src: usize,
	dst: usize,
	id: PaymentId,
	path: Path,
}

struct Net {
	nodes: Vec<Node<'static, 'static, 'static>>,
	cfgs: &'static Vec<TestChanMonCfg>,
	persisters: &'static Vec<RecPersister>,
	queues: HashMap<(usize, usize), VecDeque<Wire>>,
	connected: HashMap<(usize, usize), bool>,
	log: Log,
	chans: Arc<Mutex<Vec<ChannelId>>>,
	hashes: Arc<Mutex<Vec<[u8; 32]>>>,
	points: Vec<PublicKey>,
	pays: Vec<Pay>,
	scids: HashMap<(usize, usize), u64>,
	chan_ids: HashMap<(usize, usize), ChannelId>,
	run: u64,
	feerate: Vec<u32>,
	executed: usize,
	skipped: usize,
	funding_txids: Vec<(bitcoin::Txid, usize)>,
	extra_funding: Vec<bitcoin::Transaction>,
	extra_broadcast: Vec<bitcoin::Transaction>,
	mgr_snaps: Vec<Vec<Vec<u8>>>,
	/// snapshot taken while no monitor update of that node was in flight (nothing was being held)
	mgr_clean: Vec<Vec<bool>>,
	/// number of messages the node had emitted when each snapshot was taken, and so far
	mgr_msgs: Vec<Vec<u64>>,
	msgs_emitted: Vec<u64>,
	/// per snapshot: was the user refusing events (the library then blocks monitor updates, which the
	/// manager counts but Persist never saw), and how many monitor writes the node had made
	mgr_evheld: Vec<Vec<bool>>,
	mgr_writes: Vec<Vec<u64>>,
	/// channels (by index) on which the node may still hold messages generated before the snapshot it
	/// was restarted from was taken (they are released when the peer's channel_reestablish is handled
	/// with no monitor write pending); per snapshot: that set plus the channels with a write in flight
	dirty: Vec<HashSet<usize>>,
	mgr_held: Vec<Vec<HashSet<usize>>>,
	reest_seen: HashSet<(usize, usize)>,
	/// how the next tampered commitment_signed is forged: (mode, index) -- see op `tamper_cs`
	tamper_cs: Option<(u64, usize)>,
	/// the next update_add_htlc delivered carries an onion the receiver cannot process (see op `corrupt_onion`)
	corrupt_onion: Option<u64>,
	/// distinct values of the static part of a channel's public projection -> small id
	stat_ids: HashMap<String, usize>,
	/// the highest dust-exposure limit in force on (node, channel) so far in this run (the user may change it, the fee
	/// market may move it: a node is held to the weakest limit it ever had)
	dustcap: HashMap<(usize, usize), u64>,
	signer_used: bool,
	/// nodes whose user currently refuses payment events (handler returns ReplayEvent)
	hold_events: Vec<bool>,
	defer_drain: bool,
	/// a node whose process is not running (between `kill` and the `crash` that restarts it): nothing of it is polled,
	/// blocks mined meanwhile are only appended to its block source
	down: Option<usize>,
	/// HTLCs a node's user has been asked to place (HTLCIntercepted) and has not yet: (node, id, hash, next node, amount expected out)
	intercepts: Vec<(usize, lightning::ln::channelmanager::InterceptId, usize, usize, u64)>,
	/// payments sent over a node's intercept SCID: hash -> the node meant to receive the forward
	intercept_next: HashMap<usize, usize>,
	/// a batch open in progress: (funder, channels expected, what FundingGenerationReady has named so far)
	batch_wait: Option<(usize, usize, Vec<(lightning::ln::types::ChannelId, bitcoin::secp256k1::PublicKey, u64, bitcoin::ScriptBuf)>)>,
	/// refuse only PaymentFailed (an event without a completion action that would stall the channel)
	hold_failed_only: Vec<bool>,
	refused_logged: HashSet<(usize, String, usize)>,
	/// a miner for the transactions the nodes broadcast (force-closes): unconfirmed transactions in
	/// broadcast order with their declared type, spent outpoints, confirmed txids
	/// while the chain is being settled block by block, routine records (manager snapshots, re-persists
	/// that carry no update, empty blocks) are not logged
	settling: bool,
	/// per node: the application's OutputSweeper (created at its first SpendableOutputs event), with the
	/// broadcaster and the store it uses
	sweepers: Vec<Option<(&'static Sweeper, &'static SweepBroadcaster, &'static lightning::util::test_utils::TestStore)>>,
	mempool: Vec<(bitcoin::Transaction, String)>,
	/// HTLC outputs a recipient claims on chain with the preimage, straight through its monitor (`claim_onchain`):
	/// (outpoint, recipient, payment-hash id); the broadcaster of every transaction seen; claims already reported
	onchain_claims: Vec<(bitcoin::OutPoint, usize, usize)>,
	tx_owner: HashMap<bitcoin::Txid, usize>,
	onchain_reported: HashSet<(usize, usize)>,
	spent: HashSet<bitcoin::OutPoint>,
	confirmed: HashSet<bitcoin::Txid>,
	/// snapshot index remembered by a `save` script step (the manager the application wrote last)
	saved_idx: Vec<Option<usize>>,
	node_cfgs: &'static Vec<NodeCfg<'static>>,
	edges: Vec<(usize, usize)>,
	txids: Arc<Mutex<HashMap<[u8; 32], (usize, usize, u64, bool)>>>,
}

fn leak<T>(t: T) -> &'static T {
	Box::leak(Box::new(t))
}

impl Net {
	fn ev(&self, v: Value) {
		self.log.lock().unwrap().push(v);
	}
	fn idx_of(&self, pk: &PublicKey) -> usize {
		self.nodes.iter().position(|n| n.node.get_our_node_id() == *pk).expect("unknown peer")
	}
	fn point(&mut self, p: &PublicKey) -> usize {
		if let Some(i) = self.points.iter().position(|x| x == p) {
			return i + 1;
		}
		self.points.push(*p);
		self.points.len()
	}
	fn chan(&self, c: &ChannelId) -> usize {
		chan_index(&self.chans, c)
	}
	fn hash(&self, h: &[u8; 32]) -> usize {
		intern_hash(&self.hashes, h)
	}

	fn describe(&mut self, w: &Wire) -> Value {
		match w {
			Wire::Add(m) => json!({"kind":"update_add_htlc","chan":self.chan(&m.channel_id),"id":m.htlc_id,"amt":m.amount_msat,"hash":self.hash(&m.payment_hash.0),"cltv":m.cltv_expiry,"bad_onion":false}),
			Wire::Fulfill(m) => {
				let h = bitcoin::hashes::sha256::Hash::hash(&m.payment_preimage.0).to_byte_array();
				json!({"kind":"update_fulfill_htlc","chan":self.chan(&m.channel_id),"id":m.htlc_id,"hash":self.hash(&h)})
			},
			Wire::Fail(m) => json!({"kind":"update_fail_htlc","chan":self.chan(&m.channel_id),"id":m.htlc_id}),
			Wire::Malformed(m) => json!({"kind":"update_fail_malformed_htlc","chan":self.chan(&m.channel_id),"id":m.htlc_id}),
			Wire::Fee(m) => json!({"kind":"update_fee","chan":self.chan(&m.channel_id),"feerate":m.feerate_per_kw}),
			Wire::CS(m, c) => json!({"kind":"commitment_signed","chan":self.chan(&m[0].channel_id),"nsigs":m[0].htlc_signatures.len(),"batch":m.len(),"c":c}),
			Wire::RAA(m) => {
				let secp = Secp256k1::new();
				let sp = SecretKey::from_slice(&m.per_commitment_secret).ok().map(|s| PublicKey::from_secret_key(&secp, &s));
				let spi = match sp { Some(p) => self.point(&p) as i64, None => -1 };
				let np = self.point(&m.next_per_commitment_point);
				json!({"kind":"revoke_and_ack","chan":self.chan(&m.channel_id),"secret_point":spi,"next_point":np})
			},
			Wire::Reestablish(m) => json!({"kind":"channel_reestablish","chan":self.chan(&m.channel_id),"next_local":m.next_local_commitment_number,"next_remote":m.next_remote_commitment_number}),
			Wire::ChannelReady(m) => { let np = self.point(&m.next_per_commitment_point); json!({"kind":"channel_ready","chan":self.chan(&m.channel_id),"next_point":np}) },
			Wire::Shutdown(m) => json!({"kind":"shutdown","chan":self.chan(&m.channel_id)}),
			Wire::ClosingSigned(m) => json!({"kind":"closing_signed","chan":self.chan(&m.channel_id),"fee":m.fee_satoshis}),
			Wire::AnnSigs(m) => json!({"kind":"announcement_signatures","chan":self.chan(&m.channel_id)}),
			Wire::ChanUpdate(_) => json!({"kind":"channel_update","chan":0}),
			Wire::OpenChannel(_) => json!({"kind":"open_channel","chan":0}),
			Wire::AcceptChannel(_) => json!({"kind":"accept_channel","chan":0}),
			Wire::FundingCreated(_) => json!({"kind":"funding_created","chan":0}),
			Wire::FundingSigned(m) => json!({"kind":"funding_signed","chan":self.chan(&m.channel_id)}),
			Wire::Error(m) => json!({"kind":"error","chan":self.chan(&m.channel_id),"data":m.data}),
			Wire::Warning(m) => json!({"kind":"warning","chan":self.chan(&m.channel_id),"data":m.data}),
		}
	}

	/// Mine one block with every broadcast transaction that can confirm now (parents confirmed in an
	/// earlier block -- an anchor bump may ride with its commitment --, inputs unspent, height locktime
	/// reached) and hand it to every node.
	fn mine_block(&mut self) {
		let n = self.nodes.len();
		let h0 = self.nodes[0].best_block_info().1;
		// (a node that is down is told nothing: the blocks wait in its block source until it is restarted)
		let tip = |s: &Self, i: usize| s.nodes[i].blocks.lock().unwrap().last().unwrap().1;
		let h0 = if self.down == Some(0) { tip(self, 0) } else { h0 };
		if (1..n).any(|i| (if self.down == Some(i) { tip(self, i) } else { self.nodes[i].best_block_info().1 }) != h0) { self.ev(json!({"ev":"mine_skipped"})); return; }
		let newh = h0 + 1;
		if self.confirmed.is_empty() { for (t, _) in self.funding_txids.iter() { self.confirmed.insert(*t); } }
		let mut txs: Vec<bitcoin::Transaction> = Vec::new();
		let mut kinds: Vec<String> = Vec::new();
		let mut in_block: HashSet<bitcoin::Txid> = HashSet::new();
		let pool_ids: HashSet<bitcoin::Txid> = self.mempool.iter().map(|m| m.0.compute_txid()).collect();
		let mut taken: Vec<usize> = Vec::new();
		for (k, (tx, ty)) in self.mempool.iter().enumerate() {
			let parents_ok = tx.input.iter().all(|i| {
				let p = i.previous_output.txid;
				if in_block.contains(&p) { ty == "AnchorBump" } else { !pool_ids.contains(&p) || self.confirmed.contains(&p) }
			});
			if !parents_ok { continue; }
			if tx.input.iter().any(|i| self.spent.contains(&i.previous_output)) { continue; }
			if tx.lock_time.is_block_height() && tx.lock_time.to_consensus_u32() >= newh { continue; }
			for i in tx.input.iter() { self.spent.insert(i.previous_output); }
			in_block.insert(tx.compute_txid());
			txs.push(tx.clone());
			kinds.push(ty.clone());
			taken.push(k);
		}
		for t in in_block.iter() { self.confirmed.insert(*t); }
		let spent = self.spent.clone();
		let mut k = 0;
		self.mempool.retain(|m| { let keep = !taken.contains(&k) && !m.0.input.iter().any(|i| spent.contains(&i.previous_output)); k += 1; keep });
		if !kinds.is_empty() || !self.settling { self.ev(json!({"ev":"block","n":1,"h":newh,"mined":kinds})); }
		// a recipient's own spend of an HTLC output it was given the preimage for has confirmed: it took the money
		for tx in txs.iter() {
			let owner = self.tx_owner.get(&tx.compute_txid()).cloned();
			for inp in tx.input.iter() {
				let hit: Vec<(usize, usize)> = self.onchain_claims.iter().filter(|c| c.0 == inp.previous_output && Some(c.1) == owner).map(|c| (c.1, c.2)).collect();
				for (node, h) in hit {
					if self.onchain_reported.insert((node, h)) { self.ev(json!({"ev":"onchain_claimed","node":node,"hash":h,"h":newh})); }
				}
			}
		}
		for i in 0..n {
			if self.down == Some(i) {
				let prev = self.nodes[i].blocks.lock().unwrap().last().unwrap().0.block_hash();
				let block = create_dummy_block(prev, newh, txs.clone());
				self.nodes[i].blocks.lock().unwrap().push((block, newh));
				continue;
			}
			let block = create_dummy_block(self.nodes[i].best_block_hash(), newh, txs.clone());
			connect_block(&self.nodes[i], &block);
			if let Some((sw, _, _)) = self.sweepers[i] {
				use lightning::chain::Listen;
				if sw.current_best_block().height + 1 == newh { sw.block_connected(&block, newh); }
			}
		}
		if std::env::var("VERIF_DBG").is_ok() {
			for i in 0..n { let a = self.nodes[i].best_block_info().1; let b = self.nodes[i].blocks.lock().unwrap().last().unwrap().1; let c = self.nodes[i].tx_broadcaster.blocks.lock().unwrap().last().unwrap().1; self.ev(json!({"ev":"dbg","node":i,"best":a,"blocks":b,"bc":c})); }
		}
		self.drain();
	}

	/// a channel stops being "dirty" once the node has handled the peer's channel_reestablish on it
	/// with no monitor write pending (that is when LDK sends what it had been holding), or is closed
	fn settle_dirty(&mut self, i: usize) {
		if self.dirty[i].is_empty() { return; }
		let pend: HashSet<usize> = self.persisters[i].pending.lock().unwrap().iter().map(|p| p.0).collect();
		let open: HashSet<usize> = self.nodes[i].node.list_channels().iter().map(|c| self.chan(&c.channel_id)).collect();
		let seen = self.reest_seen.clone();
		self.dirty[i].retain(|c| open.contains(c) && !(seen.contains(&(i, *c)) && !pend.contains(c)));
	}

	/// The node's configured dust-exposure limit on a channel as a user can compute it (C02: "within its configured
	/// dust-exposure limit"): the fixed limit, or the multiplier times the node's own highest fee estimate (250 sat/kW on
	/// zero-fee-commitment channels); the maximum of the values seen so far in the run.
	fn dust_cap(&mut self, i: usize, cid: &ChannelId) -> u64 {
		use lightning::chain::chaininterface::{ConfirmationTarget, FeeEstimator};
		let c = self.chan(cid);
		let now = self.nodes[i].node.list_channels().iter().find(|x| x.channel_id == *cid).and_then(|cd| {
			let zf = cd.channel_type.as_ref().map(|t| t.supports_anchor_zero_fee_commitments()).unwrap_or(false);
			cd.config.map(|cfg| match cfg.max_dust_htlc_exposure {
				lightning::util::config::MaxDustHTLCExposure::FixedLimitMsat(x) => x,
				lightning::util::config::MaxDustHTLCExposure::FeeRateMultiplier(m) => {
					let fr = if zf { 250 } else { (self.nodes[i].fee_estimator.get_est_sat_per_1000_weight(ConfirmationTarget::MaximumFeeEstimate) as u64).max(253) };
					fr.saturating_mul(m)
				},
			})
		}).unwrap_or(0);
		// An add is checked against the limit when it is made, and may leave later: while a monitor write of the channel is
		// in flight (or a signer was ever slow in this run) the node is held to the weakest limit since; with nothing held
		// the limit in force now is the one that counts from here on.
		let held = self.signer_used || self.persisters[i].pending.lock().unwrap().iter().any(|p| p.0 == c);
		let e = self.dustcap.entry((i, c)).or_insert(0);
		let cap = (*e).max(now);
		*e = if held { cap } else { now };
		cap.min(2_000_000_000)
	}

	fn enqueue(&mut self, from: usize, to_pk: &PublicKey, w: Wire) {
		let to = self.idx_of(to_pk);
		let mut d = self.describe(&w);
		if let Wire::Add(ref m) = w { let cap = self.dust_cap(from, &m.channel_id); d["dustcap"] = json!(cap); }
		d["ev"] = json!("msg");
		d["from"] = json!(from);
		d["to"] = json!(to);
		self.ev(d);
		self.msgs_emitted[from] += 1;
		self.queues.entry((from, to)).or_default().push_back(w);
	}

	/// Drain everything the nodes produced since the last call: outbound messages (queued on the
	/// links), events, broadcasts.
	fn drain(&mut self) {
		// handling an event may queue further messages / events (e.g. accepting a channel): repeat
		for _ in 0..4 {
			let before = self.log.lock().unwrap().len();
			self.drain_once();
			let lg = self.log.lock().unwrap();
			if !lg[before..].iter().any(|e| e["ev"] == "event" && (e["kind"] == "OpenChannelRequest" || e["kind"] == "FundingGenerationReady")) { break; }
		}
	}

	fn drain_once(&mut self) {
		let mut want_disc: Vec<(usize, usize)> = Vec::new();
		for i in 0..self.nodes.len() {
			if self.down == Some(i) { continue; }
			let evs = self.nodes[i].node.get_and_clear_pending_msg_events();
			for e in evs {
				match e {
					MessageSendEvent::UpdateHTLCs { node_id, channel_id, updates } => {
						for m in updates.update_add_htlcs { self.enqueue(i, &node_id, Wire::Add(m)); }
						for m in updates.update_fulfill_htlcs { self.enqueue(i, &node_id, Wire::Fulfill(m)); }
						for m in updates.update_fail_htlcs { self.enqueue(i, &node_id, Wire::Fail(m)); }
						for m in updates.update_fail_malformed_htlcs { self.enqueue(i, &node_id, Wire::Malformed(m)); }
						if let Some(m) = updates.update_fee { self.enqueue(i, &node_id, Wire::Fee(m)); }
						if !updates.commitment_signed.is_empty() {
							let c = self.chan(&channel_id);
							let info = self.persisters[i].last_cp.lock().unwrap().get(&c).cloned().unwrap_or(json!({"num":0,"feerate":0,"to_b":0,"to_c":0,"nondust":[],"dust":[]}));
							self.enqueue(i, &node_id, Wire::CS(updates.commitment_signed, info));
						}
					},
					MessageSendEvent::SendRevokeAndACK { node_id, msg } => self.enqueue(i, &node_id, Wire::RAA(msg)),
					MessageSendEvent::SendOpenChannel { node_id, msg } => self.enqueue(i, &node_id, Wire::OpenChannel(msg)),
					MessageSendEvent::SendAcceptChannel { node_id, msg } => self.enqueue(i, &node_id, Wire::AcceptChannel(msg)),
					MessageSendEvent::SendFundingCreated { node_id, msg } => self.enqueue(i, &node_id, Wire::FundingCreated(msg)),
					MessageSendEvent::SendFundingSigned { node_id, msg } => self.enqueue(i, &node_id, Wire::FundingSigned(msg)),
					MessageSendEvent::SendChannelReestablish { node_id, msg } => self.enqueue(i, &node_id, Wire::Reestablish(msg)),
					MessageSendEvent::SendChannelReady { node_id, msg } => self.enqueue(i, &node_id, Wire::ChannelReady(msg)),
					MessageSendEvent::SendShutdown { node_id, msg } => self.enqueue(i, &node_id, Wire::Shutdown(msg)),
					MessageSendEvent::SendClosingSigned { node_id, msg } => self.enqueue(i, &node_id, Wire::ClosingSigned(msg)),
					MessageSendEvent::SendAnnouncementSignatures { node_id, msg } => self.enqueue(i, &node_id, Wire::AnnSigs(msg)),
					MessageSendEvent::SendChannelUpdate { node_id, msg } => self.enqueue(i, &node_id, Wire::ChanUpdate(msg)),
					MessageSendEvent::HandleError { node_id, action } => match action {
						ErrorAction::SendErrorMessage { msg } => self.enqueue(i, &node_id, Wire::Error(msg)),
						ErrorAction::DisconnectPeer { msg: Some(msg) } => self.enqueue(i, &node_id, Wire::Error(msg)),
						ErrorAction::DisconnectPeerWithWarning { msg } => {
							self.enqueue(i, &node_id, Wire::Warning(msg));
							let to = self.idx_of(&node_id);
							want_disc.push((i.min(to), i.max(to)));
						},
						ErrorAction::SendWarningMessage { msg, .. } => self.enqueue(i, &node_id, Wire::Warning(msg)),
						ErrorAction::DisconnectPeer { msg: None } => {
							let to = self.idx_of(&node_id);
							self.ev(json!({"ev":"msg","from":i,"to":to,"kind":"disconnect_peer","chan":0}));
							want_disc.push((i.min(to), i.max(to)));
						},
						_ => {},
					},
					MessageSendEvent::BroadcastChannelUpdate { msg, .. } => {
						// what this node tells the network about one of its channels (bit 1 of channel_flags: disabled)
						let scid = msg.contents.short_channel_id;
						let key = self.scids.iter().find(|(_, v)| **v == scid).map(|(k, _)| *k);
						if let Some(k) = key {
							if let Some(cid) = self.chan_ids.get(&k).cloned() {
								let c = self.chan(&cid);
								self.ev(json!({"ev":"bcast_update","node":i,"chan":c,"enabled": msg.contents.channel_flags & 2 == 0}));
							}
						}
					},
					MessageSendEvent::BroadcastChannelAnnouncement { .. }
					| MessageSendEvent::BroadcastNodeAnnouncement { .. }
					| MessageSendEvent::SendChannelAnnouncement { .. } => {},
					other => {
						self.ev(json!({"ev":"msg_other","from":i,"dbg":format!("{:?}", other).chars().take(60).collect::<String>()}));
					},
				}
			}
			let events = if !self.hold_events[i] { self.nodes[i].node.get_and_clear_pending_events() } else {
				// the user's handler refuses (ReplayEvent) the payment events for now: the library must keep
				// them and hand them over again later (and must not run their completion actions yet)
				use lightning::events::EventsProvider;
				let got = std::cell::RefCell::new(Vec::new());
				let refused = std::cell::RefCell::new(Vec::new());
				let failed_only = self.hold_failed_only[i];
				self.nodes[i].node.process_pending_events(&|e: Event| {
					let hold = if failed_only { matches!(e, Event::PaymentFailed { .. }) } else { matches!(e, Event::PaymentSent { .. } | Event::PaymentFailed { .. } | Event::PaymentClaimable { .. }
						| Event::PaymentClaimed { .. } | Event::PaymentForwarded { .. }) };
					if hold { refused.borrow_mut().push(e); Err(lightning::events::ReplayEvent()) } else { got.borrow_mut().push(e); Ok(()) }
				});
				for e in refused.into_inner() {
					let (kind, h) = match e {
						Event::PaymentSent { payment_hash, .. } => ("PaymentSent", self.hash(&payment_hash.0)),
						Event::PaymentFailed { payment_hash, .. } => ("PaymentFailed", payment_hash.map(|p| self.hash(&p.0)).unwrap_or(0)),
						Event::PaymentClaimable { payment_hash, .. } => ("PaymentClaimable", self.hash(&payment_hash.0)),
						Event::PaymentClaimed { payment_hash, .. } => ("PaymentClaimed", self.hash(&payment_hash.0)),
						_ => ("PaymentForwarded", 0),
					};
					if self.refused_logged.insert((i, kind.to_string(), h)) {
						let snap = self.mgr_snaps[i].len();
						self.ev(json!({"ev":"event_refused","node":i,"kind":kind,"hash":h,"snap":snap}));
					}
				}
				got.into_inner()
			};
			for e in events {
				self.log_event(i, e);
			}
			// events of the monitors (requests to fund an anchor / HTLC claim, spendable outputs)
			{
				use lightning::events::EventsProvider;
				let got = std::cell::RefCell::new(Vec::new());
				self.nodes[i].chain_monitor.chain_monitor.process_pending_events(&|e: Event| { got.borrow_mut().push(e); Ok(()) });
				for e in got.into_inner() { self.log_event(i, e); }
			}
			let txs: Vec<_> = self.nodes[i].tx_broadcaster.txn_broadcasted.lock().unwrap().drain(..).collect();
			let types: Vec<_> = self.nodes[i].tx_broadcaster.txn_types.lock().unwrap().drain(..).collect();
			for (k, tx) in txs.iter().enumerate() {
				let ty = types.get(k).map(|t| format!("{:?}", t)).unwrap_or_default();
				let ty: String = ty.chars().take_while(|c| c.is_alphanumeric()).collect();
				use bitcoin::hashes::Hash as _;
				let known = self.txids.lock().unwrap().get(&tx.compute_txid().to_byte_array()).cloned();
				if self.extra_funding.iter().any(|f| f.compute_txid() == tx.compute_txid()) && !self.extra_broadcast.iter().any(|f| f.compute_txid() == tx.compute_txid()) {
					self.extra_broadcast.push(tx.clone());
				}
				self.tx_owner.entry(tx.compute_txid()).or_insert(i);
				if ty != "Funding" {
					let txid = tx.compute_txid();
					if !self.confirmed.contains(&txid) && !self.mempool.iter().any(|m| m.0.compute_txid() == txid) { self.mempool.push((tx.clone(), ty.clone())); }
				}
				let mut out_values = tx.output.iter().map(|o| o.value.to_sat()).collect::<Vec<_>>();
				out_values.sort();
				let spends = self.funding_chan(tx);
				let (cn, cc, cnum, cholder) = match known { Some((n, c, num, h)) => (n as i64, c as i64, num as i64, h), None => (-1, 0, -1, false) };
				self.ev(json!({"ev":"broadcast","node":i,"type":ty,"inputs":tx.input.len(),"outputs":tx.output.len(),
					"locktime": tx.lock_time.to_consensus_u32(),"c_node":cn,"chan":cc,"c_num":cnum,"c_holder":cholder,
					"out_values": out_values, "spends_chan": spends}));
			}
		}
		// the application persists the manager whenever the library asks for it
		for i in 0..self.nodes.len() {
			if self.down == Some(i) { continue; }
			if self.nodes[i].node.get_and_clear_needs_persistence() && !self.settling {
				self.mgr_snaps[i].push(self.nodes[i].node.encode());
				self.settle_dirty(i);
				let mut held: HashSet<usize> = self.persisters[i].pending.lock().unwrap().iter().map(|p| p.0).collect();
				held.extend(self.dirty[i].iter().cloned());
				self.mgr_clean[i].push(held.is_empty());
				self.mgr_held[i].push(held);
				self.mgr_msgs[i].push(self.msgs_emitted[i]);
				self.mgr_evheld[i].push(self.hold_events[i]);
				let w = *self.persisters[i].nwrites.lock().unwrap();
				self.mgr_writes[i].push(w);
				let k = self.mgr_snaps[i].len() - 1;
				self.ev(json!({"ev":"mgr_snap","node":i,"k":k}));
			}
		}
		want_disc.sort();
		want_disc.dedup();
		for (a, b) in want_disc {
			// the node asked its transport to drop the peer: do what PeerManager would
			self.do_disconnect(a, b);
		}
	}

	/// which channel's funding output does this transaction spend (0 = none)?
	fn funding_chan(&self, tx: &bitcoin::Transaction) -> usize {
		for (key, cid) in self.chan_ids.iter() {
			let _ = key;
			for n in self.nodes.iter() {
				if let Some(cd) = n.node.list_channels().iter().find(|c| c.channel_id == *cid) {
					if let Some(fo) = cd.funding_txo { if tx.input.iter().any(|i| i.previous_output.txid == fo.txid && i.previous_output.vout == fo.index as u32) { return self.chan(cid); } }
				}
			}
		}
		for (txid, c) in self.funding_txids.iter() { if tx.input.iter().any(|i| i.previous_output.txid == *txid) { return *c; } }
		0
	}

	fn do_disconnect(&mut self, a: usize, b: usize) -> bool {
		if !*self.connected.get(&(a.min(b), a.max(b))).unwrap_or(&false) { return false; }
		self.connected.insert((a.min(b), a.max(b)), false);
		let la = self.queues.get(&(a, b)).map(|q| q.len()).unwrap_or(0);
		let lb = self.queues.get(&(b, a)).map(|q| q.len()).unwrap_or(0);
		self.ev(json!({"ev":"disconnect","a":a,"b":b,"lost_ab":la,"lost_ba":lb}));
		if let Some(cid) = self.chan_ids.get(&(a.min(b), a.max(b))).cloned() { let c = self.chan(&cid); self.reest_seen.remove(&(a, c)); self.reest_seen.remove(&(b, c)); }
		self.queues.remove(&(a, b));
		self.queues.remove(&(b, a));
		let (pa, pb) = (self.nodes[a].node.get_our_node_id(), self.nodes[b].node.get_our_node_id());
		self.nodes[a].node.peer_disconnected(pb);
		self.nodes[b].node.peer_disconnected(pa);
		self.drain();
		true
	}

	fn log_event(&mut self, i: usize, e: Event) {
		match e {
			Event::PaymentClaimable { payment_hash, amount_msat, claim_deadline, .. } => {
				let h = self.hash(&payment_hash.0);
				self.ev(json!({"ev":"event","node":i,"kind":"PaymentClaimable","hash":h,"amt":amount_msat,"deadline":claim_deadline.unwrap_or(0)}));
			},
			Event::HTLCIntercepted { intercept_id, payment_hash, inbound_amount_msat, expected_outbound_amount_msat, .. } => {
				let h = self.hash(&payment_hash.0);
				self.ev(json!({"ev":"event","node":i,"kind":"HTLCIntercepted","hash":h,"amt":inbound_amount_msat,"out_amt":expected_outbound_amount_msat}));
				let next = self.intercept_next.get(&h).cloned().unwrap_or(usize::MAX);
				self.intercepts.retain(|x| !(x.0 == i && x.2 == h));
				self.intercepts.push((i, intercept_id, h, next, expected_outbound_amount_msat));
			},
			Event::PaymentClaimed { payment_hash, amount_msat, .. } => {
				let h = self.hash(&payment_hash.0);
				self.ev(json!({"ev":"event","node":i,"kind":"PaymentClaimed","hash":h,"amt":amount_msat}));
			},
			Event::PaymentSent { payment_hash, payment_preimage, fee_paid_msat, .. } => {
				let h = self.hash(&payment_hash.0);
				let ph = bitcoin::hashes::sha256::Hash::hash(&payment_preimage.0).to_byte_array();
				let snap = self.mgr_snaps[i].len();
				self.ev(json!({"ev":"event","node":i,"kind":"PaymentSent","hash":h,"preimage_ok": ph == payment_hash.0,"fee":fee_paid_msat.unwrap_or(0),"snap":snap}));
			},
			Event::PaymentFailed { payment_hash, .. } => {
				let h = payment_hash.map(|p| self.hash(&p.0)).unwrap_or(0);
				let snap = self.mgr_snaps[i].len();
				self.ev(json!({"ev":"event","node":i,"kind":"PaymentFailed","hash":h,"snap":snap}));
			},
			Event::PaymentPathFailed { payment_hash, payment_failed_permanently, short_channel_id, .. } => {
				let h = self.hash(&payment_hash.0);
				let link = short_channel_id.and_then(|s| self.scids.iter().find(|(_, v)| **v == s).map(|(k, _)| k.0 as i64)).unwrap_or(-1);
				self.ev(json!({"ev":"event","node":i,"kind":"PaymentPathFailed","hash":h,"permanent":payment_failed_permanently,"link":link}));
			},
			Event::PaymentPathSuccessful { payment_hash, path, hold_times, .. } => {
				let h = payment_hash.map(|p| self.hash(&p.0)).unwrap_or(0);
				// (C14: the fulfil's attribution data reports every hop's hold time)
				self.ev(json!({"ev":"event","node":i,"kind":"PaymentPathSuccessful","hash":h,"hops":path.hops.len(),"hold_times":hold_times.len()}));
			},
			Event::PaymentForwarded { total_fee_earned_msat, claim_from_onchain_tx, outbound_amount_forwarded_msat, .. } => {
				self.ev(json!({"ev":"event","node":i,"kind":"PaymentForwarded","fee":total_fee_earned_msat.unwrap_or(0),"onchain":claim_from_onchain_tx,"amt":outbound_amount_forwarded_msat}));
			},
			Event::HTLCHandlingFailed { failure_type, .. } => {
				let t: String = format!("{:?}", failure_type).chars().take_while(|c| c.is_alphanumeric()).collect();
				self.ev(json!({"ev":"event","node":i,"kind":"HTLCHandlingFailed","type":t}));
			},
			Event::ChannelClosed { channel_id, reason, .. } => {
				let c = self.chan(&channel_id);
				let r = match reason {
					ClosureReason::CounterpartyForceClosed { .. } => "CounterpartyForceClosed",
					ClosureReason::HolderForceClosed { .. } => "HolderForceClosed",
					ClosureReason::LegacyCooperativeClosure => "CooperativeClosure",
					ClosureReason::CounterpartyInitiatedCooperativeClosure => "CooperativeClosure",
					ClosureReason::LocallyInitiatedCooperativeClosure => "CooperativeClosure",
					ClosureReason::CommitmentTxConfirmed => "CommitmentTxConfirmed",
					ClosureReason::ProcessingError { .. } => "ProcessingError",
					ClosureReason::OutdatedChannelManager => "OutdatedChannelManager",
					ClosureReason::HTLCsTimedOut { .. } => "HTLCsTimedOut",
					_ => "Other",
				};
				self.ev(json!({"ev":"event","node":i,"kind":"ChannelClosed","chan":c,"reason":r}));
			},
			Event::OpenChannelRequest { temporary_channel_id, counterparty_node_id, .. } => {
				let ok = self.nodes[i].node.accept_inbound_channel(&temporary_channel_id, &counterparty_node_id, 43, None).is_ok();
				self.ev(json!({"ev":"event","node":i,"kind":"OpenChannelRequest","accepted":ok}));
			},
			Event::FundingGenerationReady { temporary_channel_id, counterparty_node_id, channel_value_satoshis, output_script, .. }
				if self.batch_wait.as_ref().map_or(false, |b| b.0 == i) => {
				// one funding transaction for all channels of the batch, handed over once every channel has named its output
				let mut bw = self.batch_wait.take().unwrap();
				bw.2.push((temporary_channel_id, counterparty_node_id, channel_value_satoshis, output_script));
				if bw.2.len() < bw.1 {
					self.batch_wait = Some(bw);
					self.ev(json!({"ev":"event","node":i,"kind":"FundingGenerationReady","ok":true}));
				} else {
					let tx = bitcoin::Transaction {
						version: bitcoin::transaction::Version(7 + self.extra_funding.len() as i32),
						lock_time: bitcoin::absolute::LockTime::ZERO,
						input: Vec::new(),
						output: bw.2.iter().map(|x| bitcoin::TxOut { value: bitcoin::Amount::from_sat(x.2), script_pubkey: x.3.clone() }).collect(),
					};
					let chans: Vec<(&lightning::ln::types::ChannelId, &bitcoin::secp256k1::PublicKey)> = bw.2.iter().map(|x| (&x.0, &x.1)).collect();
					let ok = self.nodes[i].node.batch_funding_transaction_generated(&chans, tx.clone()).is_ok();
					self.extra_funding.push(tx);
					self.ev(json!({"ev":"event","node":i,"kind":"FundingGenerationReady","ok":ok}));
				}
			},
			Event::FundingGenerationReady { temporary_channel_id, counterparty_node_id, channel_value_satoshis, output_script, .. } => {
				let tx = bitcoin::Transaction {
					version: bitcoin::transaction::Version(7 + self.extra_funding.len() as i32),
					lock_time: bitcoin::absolute::LockTime::ZERO,
					input: Vec::new(),
					output: vec![bitcoin::TxOut { value: bitcoin::Amount::from_sat(channel_value_satoshis), script_pubkey: output_script }],
				};
				let ok = self.nodes[i].node.funding_transaction_generated(temporary_channel_id, counterparty_node_id, tx.clone()).is_ok();
				self.extra_funding.push(tx);
				self.ev(json!({"ev":"event","node":i,"kind":"FundingGenerationReady","ok":ok}));
			},
			Event::SpendableOutputs { outputs, channel_id, .. } => {
				self.ev(json!({"ev":"event","node":i,"kind":"SpendableOutputs","n":outputs.len()}));
				// the application hands them to its OutputSweeper (C12: that object survives serialization too)
				if self.sweepers[i].is_none() {
					let bc: &'static SweepBroadcaster = leak(SweepBroadcaster::default());
					let st: &'static lightning::util::test_utils::TestStore = leak(lightning::util::test_utils::TestStore::new(false));
					let best = self.nodes[i].node.current_best_block();
					let sw: &'static Sweeper = leak(lightning::util::sweep::OutputSweeperSync::new(best, bc, self.nodes[i].fee_estimator, None, &self.nodes[i].keys_manager.backing,
						leak(SweepWallet), st, self.nodes[i].logger));
					self.sweepers[i] = Some((sw, bc, st));
				}
				let (sw, _, _) = self.sweepers[i].unwrap();
				let ok = sw.track_spendable_outputs(outputs, channel_id, None, false, None).is_ok();
				if !ok { self.ev(json!({"ev":"sweeper_track_failed","node":i})); }
			},
			Event::BumpTransaction(b) => {
				self.ev(json!({"ev":"event","node":i,"kind":"BumpTransaction"}));
				// the application's wallet funds the anchor / HTLC claim the monitor asks for
				let node = &self.nodes[i];
				let _ = catch_unwind(AssertUnwindSafe(|| node.bump_tx_handler.handle_event(&b)));
			},
			other => {
				let t: String = format!("{:?}", other).chars().take_while(|c| c.is_alphanumeric()).collect();
				self.ev(json!({"ev":"event","node":i,"kind":t}));
			},
		}
	}

	fn deliver_one(&mut self, from: usize, to: usize) -> bool { self.deliver_ext(from, to, false) }
	fn deliver_ext(&mut self, from: usize, to: usize, tamper: bool) -> bool {
		if tamper {
			// only a revoke_and_ack (wrong secret) or a commitment_signed (forged signatures, see `tamper_cs`) at the
			// head of the queue is tampered with
			match self.queues.get(&(from, to)).and_then(|q| q.front()) {
				Some(Wire::RAA(_)) => {},
				Some(Wire::Fulfill(_)) => {},
				Some(Wire::CS(m, _)) if self.tamper_cs.is_some() && m.len() == 1 => {
					let (mode, _) = self.tamper_cs.unwrap();
					// modes 1 (one HTLC signature) and 2 (all of them) need HTLC signatures; mode 3 (one dropped) too
					if mode >= 1 && m[0].htlc_signatures.is_empty() { return false; }
				},
				_ => return false,
			}
		}
		let mut w = match self.queues.get_mut(&(from, to)).and_then(|q| q.pop_front()) {
			Some(w) => w,
			None => return false,
		};
		// two nodes that have both given a channel up would answer each other's bogus channel_reestablish /
		// error for it forever: the harness lets that exchange die
		let dead = match &w { Wire::Reestablish(m) => Some(m.channel_id), Wire::Error(m) => Some(m.channel_id), _ => None };
		if let Some(cid) = dead {
			let has = |i: usize| self.nodes[i].node.list_channels().iter().any(|c| c.channel_id == cid);
			if self.chans.lock().unwrap().contains(&cid) && !has(from) && !has(to) { return true; }
		}
		let mut d = self.describe(&w);
		d["tampered"] = json!(tamper);
		if tamper { if let Wire::RAA(ref mut m) = w { m.per_commitment_secret[7] ^= 0x10; } }
		// (a preimage that does not hash to the HTLC's payment hash)
		if tamper { if let Wire::Fulfill(ref mut m) = w { m.payment_preimage.0[5] ^= 0x04; d["forged"] = json!("preimage"); } }
		if tamper {
			if let Wire::CS(ref mut m, _) = w {
				let (mode, idx) = self.tamper_cs.take().unwrap_or((0, 0));
				// a well-formed signature that does not verify: the negated s of the original
				let forge = |sig: &bitcoin::secp256k1::ecdsa::Signature| {
					let mut c = sig.serialize_compact();
					let mut k = 40;
					loop {
						c[k] ^= 0x01;
						if let Ok(f) = bitcoin::secp256k1::ecdsa::Signature::from_compact(&c) { if f != *sig { break f; } }
						k += 1;
						if k >= 64 { break *sig; }
					}
				};
				let n = m[0].htlc_signatures.len();
				let what = match mode {
					0 => { m[0].signature = forge(&m[0].signature); "commitment".to_string() },
					1 => { let j = idx % n; m[0].htlc_signatures[j] = forge(&m[0].htlc_signatures[j]); format!("htlc {} of {}", j, n) },
					2 => { for j in 0..n { m[0].htlc_signatures[j] = forge(&m[0].htlc_signatures[j]); } format!("all {} htlc", n) },
					_ => { m[0].htlc_signatures.pop(); format!("dropped 1 of {}", n) },
				};
				d["forged"] = json!(what);
			}
		}
		if let Wire::Add(ref mut m) = w {
			if let Some(mode) = self.corrupt_onion.take() {
				// the sender's onion is not what the receiver can peel: its HMAC, its payload, its version or its
				// ephemeral key is off (the receiver answers update_fail_malformed_htlc / update_fail_htlc; nothing else changes)
				match mode % 4 {
					0 => { m.onion_routing_packet.hmac[3] ^= 0x20; },
					1 => { m.onion_routing_packet.hop_data[17] ^= 0x01; },
					2 => { m.onion_routing_packet.version = 1; },
					_ => { m.onion_routing_packet.public_key = Err(bitcoin::secp256k1::Error::InvalidPublicKey); },
				}
				d["bad_onion"] = json!(true);
			}
		}
		d["ev"] = json!("deliver");
		d["from"] = json!(from);
		d["to"] = json!(to);
		self.ev(d);
		let from_pk = self.nodes[from].node.get_our_node_id();
		if let Wire::Reestablish(ref m) = w { let c = self.chan(&m.channel_id); self.reest_seen.insert((to, c)); }
		let n = &self.nodes[to].node;
		match w {
			Wire::Add(m) => n.handle_update_add_htlc(from_pk, &m),
			Wire::Fulfill(m) => n.handle_update_fulfill_htlc(from_pk, m),
			Wire::Fail(m) => n.handle_update_fail_htlc(from_pk, &m),
			Wire::Malformed(m) => n.handle_update_fail_malformed_htlc(from_pk, &m),
			Wire::Fee(m) => n.handle_update_fee(from_pk, &m),
			Wire::CS(m, _) => {
				if m.len() == 1 { n.handle_commitment_signed(from_pk, &m[0]) } else { n.handle_commitment_signed_batch_test(from_pk, &m) }
			},
			Wire::RAA(m) => n.handle_revoke_and_ack(from_pk, &m),
			Wire::Reestablish(m) => n.handle_channel_reestablish(from_pk, &m),
			Wire::ChannelReady(m) => n.handle_channel_ready(from_pk, &m),
			Wire::Shutdown(m) => n.handle_shutdown(from_pk, &m),
			Wire::ClosingSigned(m) => n.handle_closing_signed(from_pk, &m),
			Wire::AnnSigs(m) => n.handle_announcement_signatures(from_pk, &m),
			Wire::ChanUpdate(m) => n.handle_channel_update(from_pk, &m),
			Wire::Error(m) => n.handle_error(from_pk, &m),
			Wire::Warning(_) => {},
			Wire::OpenChannel(m) => n.handle_open_channel(from_pk, &m),
			Wire::AcceptChannel(m) => n.handle_accept_channel(from_pk, &m),
			Wire::FundingCreated(m) => n.handle_funding_created(from_pk, &m),
			Wire::FundingSigned(m) => n.handle_funding_signed(from_pk, &m),
		}
		if !self.defer_drain { self.drain(); }
		true
	}

	/// The event at the head of node i's queue, as the user would be shown it, without taking it (the handler answers
	/// ReplayEvent, so the library keeps it): one interned value, 0 if the queue is empty or the event is of a kind the
	/// library does not promise to keep across a restart.  Used around a clean reload (C12: "payments and events").
	fn peek_event_head(&mut self, i: usize) -> usize {
		use lightning::events::EventsProvider;
		let seen: std::cell::RefCell<Option<Event>> = std::cell::RefCell::new(None);
		self.nodes[i].node.process_pending_events(&|e: Event| { if seen.borrow().is_none() { *seen.borrow_mut() = Some(e); } Err(lightning::events::ReplayEvent()) });
		let e = match seen.into_inner() { Some(e) => e, None => return 0 };
		let txt = match &e {
			Event::PaymentSent { .. } | Event::PaymentFailed { .. } | Event::PaymentClaimable { .. } | Event::PaymentClaimed { .. }
			| Event::PaymentForwarded { .. } | Event::PaymentPathSuccessful { .. } | Event::HTLCHandlingFailed { .. }
			| Event::SpendableOutputs { .. } | Event::ChannelReady { .. } | Event::HTLCIntercepted { .. } => format!("EV|{:?}", e),
			// (test builds add fields to PaymentPathFailed that are not written; ChannelClosed etc. are judged by their own rules)
			Event::PaymentPathFailed { payment_id, payment_hash, payment_failed_permanently, short_channel_id, path, .. } =>
				format!("EV|PaymentPathFailed|{:?}|{:?}|{}|{:?}|{:?}", payment_id, payment_hash, payment_failed_permanently, short_channel_id, path),
			_ => return 0,
		};
		if std::env::var("VERIF_DEBUG_STAT").is_ok() && !self.stat_ids.contains_key(&txt) { eprintln!("STAT {} {}", self.stat_ids.len() + 1, txt); }
		let n = self.stat_ids.len(); *self.stat_ids.entry(txt).or_insert(n + 1)
	}
	fn proj(&mut self, i: usize) { self.proj_ext(i, false, false) }
	fn proj_ext(&mut self, i: usize, fin: bool, after_reload: bool) {
		let chans = self.nodes[i].node.list_channels();
		for cd in chans {
			let c = self.chan(&cd.channel_id);
			let peer = self.idx_of(&cd.counterparty.node_id);
			// everything else a user can read about the channel that a write / read of the manager has to preserve (C12),
			// interned to a small number per distinct value
			let stat = format!("{:?}|{:?}|{}|{:?}|{}|{:?}|{:?}|{:?}|{:?}|{:?}|{:?}|{:?}|{}|{}|{:?}|{:?}|{:?}|{:?}|{:?}|{:?}|{:?}",
				cd.channel_type, cd.user_channel_id, cd.channel_value_satoshis, cd.unspendable_punishment_reserve,
				cd.counterparty.unspendable_punishment_reserve, cd.counterparty.forwarding_info.as_ref().map(|f| (f.fee_base_msat, f.fee_proportional_millionths, f.cltv_expiry_delta)),
				cd.counterparty.outbound_htlc_minimum_msat, cd.counterparty.outbound_htlc_maximum_msat, cd.funding_txo, cd.short_channel_id,
				cd.outbound_scid_alias, cd.inbound_scid_alias, cd.is_outbound, cd.is_announced, cd.force_close_spend_delay,
				cd.inbound_htlc_minimum_msat, cd.inbound_htlc_maximum_msat, cd.config, cd.feerate_sat_per_1000_weight,
				cd.channel_shutdown_state, cd.confirmations_required);
			if std::env::var("VERIF_DEBUG_STAT").is_ok() && !self.stat_ids.contains_key(&stat) { eprintln!("STAT {} {}", self.stat_ids.len() + 1, stat); }
			let stat_id = { let n = self.stat_ids.len(); *self.stat_ids.entry(stat).or_insert(n + 1) };
			// the dynamic part a reload has to preserve as well: every pending HTLC as the user is shown it (id, amount,
			// expiry, hash, stage, dust or not) and the node's recent payments (one interned value each)
			let mut hin: Vec<String> = cd.pending_inbound_htlcs.iter().map(|h| format!("{:?}", h)).collect(); hin.sort();
			let mut hout: Vec<String> = cd.pending_outbound_htlcs.iter().map(|h| format!("{:?}", h)).collect(); hout.sort();
			let dynv = format!("DYN|{:?}|{:?}", hin, hout);
			if std::env::var("VERIF_DEBUG_STAT").is_ok() && !self.stat_ids.contains_key(&dynv) { eprintln!("STAT {} {}", self.stat_ids.len() + 1, dynv); }
			let dyn_id = { let n = self.stat_ids.len(); *self.stat_ids.entry(dynv).or_insert(n + 1) };
			let mut pays: Vec<String> = self.nodes[i].node.list_recent_payments().iter().map(|p| format!("{:?}", p)).collect(); pays.sort();
			let payv = format!("PAY|{:?}", pays);
			if std::env::var("VERIF_DEBUG_STAT").is_ok() && !self.stat_ids.contains_key(&payv) { eprintln!("STAT {} {}", self.stat_ids.len() + 1, payv); }
			let pay_id = { let n = self.stat_ids.len(); *self.stat_ids.entry(payv).or_insert(n + 1) };
			self.ev(json!({"ev":"proj","node":i,"chan":c,"peer":peer,"static":stat_id,"dyn":dyn_id,"pays":pay_id,
				"out_cap":cd.outbound_capacity_msat,"in_cap":cd.inbound_capacity_msat,
				"limit":cd.next_outbound_htlc_limit_msat,"min":cd.next_outbound_htlc_minimum_msat,
				"usable":cd.is_usable,"ready":cd.is_channel_ready,
				"n_in":cd.pending_inbound_htlcs.len(),"n_out":cd.pending_outbound_htlcs.len(),"final":fin,"after_reload":after_reload,
				"confs":cd.confirmations.unwrap_or(0),"confs_req":cd.confirmations_required.unwrap_or(0)}));
		}
	}

	fn all_proj(&mut self) {
		for i in 0..self.nodes.len() {
			self.proj(i);
		}
	}

	/// shortest path over the channel graph the network was built with (a line unless cfg.edges says otherwise)
	fn path(&self, src: usize, dst: usize) -> Option<Vec<(usize, usize)>> {
		let n = self.nodes.len();
		let mut prev: Vec<Option<usize>> = vec![None; n];
		let mut seen = vec![false; n];
		let mut q = std::collections::VecDeque::new();
		seen[src] = true; q.push_back(src);
		while let Some(u) = q.pop_front() {
			if u == dst { break; }
			for (a, b) in self.edges.iter() {
				let v = if *a == u { *b } else if *b == u { *a } else { continue };
				if !seen[v] { seen[v] = true; prev[v] = Some(u); q.push_back(v); }
			}
		}
		if !seen[dst] || src == dst { return None; }
		let mut rev = Vec::new();
		let mut cur = dst;
		while let Some(p) = prev[cur] { rev.push((p, cur)); cur = p; }
		rev.reverse();
		Some(rev)
	}

	fn send(&mut self, src: usize, dst: usize, amt: u64) -> bool { self.send_ext(src, dst, amt, false) }
	fn send_ext(&mut self, src: usize, dst: usize, amt: u64, intercept: bool) -> bool {
		// route along the line src -> ... -> dst
		let mut hops = Vec::new();
		let final_cltv = 70u32;
		let path_nodes = match self.path(src, dst) { Some(p) => p, None => return false };
		// fees: each intermediate node charges base 1000 + 0 ppm in test default? read from its config
		let nh = path_nodes.len();
		for (k, (a, b)) in path_nodes.iter().enumerate() {
			let key = if a < b { (*a, *b) } else { (*b, *a) };
			let scid = match self.scids.get(&key) { Some(s) => *s, None => return false };
			let last = k == nh - 1;
			let (fee, delta) = if last { (amt, final_cltv) } else {
				let cfg = self.nodes[*b].node.get_current_config();
				let f = cfg.channel_config.forwarding_fee_base_msat as u64
					+ amt * cfg.channel_config.forwarding_fee_proportional_millionths as u64 / 1_000_000;
				(f, cfg.channel_config.cltv_expiry_delta as u32)
			};
			// (the last hop may name the forwarder's intercept SCID instead of a channel: its user then decides)
			let scid = if intercept && last && nh >= 2 { self.nodes[*a].node.get_intercept_scid() } else { scid };
			hops.push(RouteHop {
				pubkey: self.nodes[*b].node.get_our_node_id(),
				node_features: NodeFeatures::from_le_bytes(self.nodes[*b].node.node_features().le_flags().to_vec()),
				short_channel_id: scid,
				channel_features: ChannelFeatures::empty(),
				fee_msat: fee,
				cltv_expiry_delta: delta,
				maybe_announced_channel: true,
			});
		}
		let mut pre = [0u8; 32];
		let cnt = self.pays.len() as u64 + 1;
		pre[..8].copy_from_slice(&cnt.to_be_bytes());
		pre[8..16].copy_from_slice(&self.run.to_be_bytes());
		pre[31] = 0x5a;
		let preimage = PaymentPreimage(pre);
		let hash = PaymentHash(bitcoin::hashes::sha256::Hash::hash(&pre).to_byte_array());
		let secret = match self.nodes[dst].node.create_inbound_payment_for_hash(hash, Some(amt), 7200, None, None) {
			Ok(x) => x.0,
			Err(_) => return false,
		};
		let pid = PaymentId(hash.0);
		let route_params = lightning::routing::router::RouteParameters::from_payment_params_and_value(
			lightning::routing::router::PaymentParameters::from_node_id(self.nodes[dst].node.get_our_node_id(), final_cltv), amt);
		let the_path = Path { hops, blinded_tail: None };
		let route = Route { paths: vec![the_path.clone()], route_params };
		// limits as reported right now for the first-hop channel
		let first = path_nodes[0];
		let key = if first.0 < first.1 { first } else { (first.1, first.0) };
		let cid = self.chan_ids[&key];
		let first_amt: u64 = route.paths[0].hops.iter().map(|h| h.fee_msat).sum();
		let (limit, min, usable) = self.nodes[src].node.list_channels().iter().find(|c| c.channel_id == cid)
			.map(|c| (c.next_outbound_htlc_limit_msat, c.next_outbound_htlc_minimum_msat, c.is_usable)).unwrap_or((0, 0, false));
		let h = self.hash(&hash.0);
		if intercept && nh >= 2 { self.intercept_next.insert(h, dst); }
		let res = self.nodes[src].node.send_payment_with_route(route, hash, RecipientOnionFields::secret_only(secret, amt), pid);
		let api_ok = res.is_ok();
		let c = self.chan(&cid);
		let mark = self.log.lock().unwrap().len();
		self.pays.push(Pay { preimage, hash, secret, amt, src, dst, id: pid, path: the_path });
		self.drain();
		// a locally refused HTLC shows up as an immediate PaymentPathFailed / PaymentFailed
		let refused = !api_ok || self.log.lock().unwrap()[mark..].iter().any(|e| e["ev"] == "event" && e["hash"] == json!(h)
			&& (e["kind"] == "PaymentFailed" || e["kind"] == "PaymentPathFailed"));
		// (a payer whose user is refusing events does not get to see those events: ask the channel instead)
		let refused = if self.hold_events[src] {
			!api_ok || !self.nodes[src].node.list_channels().iter().find(|c| c.channel_id == cid)
				.map(|c| c.pending_outbound_htlcs.iter().any(|x| x.payment_hash == hash)).unwrap_or(false)
		} else { refused };
		// (`snap`: index of the first manager snapshot of the payer that knows this payment)
		let snap = self.mgr_snaps[src].len();
		let rec = json!({"ev":"send","node":src,"dst":dst,"chan":c,"hash":h,"amt":amt,"first_amt":first_amt,"limit":limit,"min":min,"usable":usable,"snap":snap,
			"result": if refused {"err"} else {"ok"}, "api_ok": api_ok, "direct": nh == 1 && !intercept});
		self.log.lock().unwrap().insert(mark, rec);
		!refused
	}

	fn step(&mut self, op: &Value, rng: &mut StdRng) {
		let name = op["op"].as_str().unwrap_or("");
		let before = self.log.lock().unwrap().len();
		let n = self.nodes.len();
		let mut did = true;
		// nothing can be asked of a node that is down, and nobody can connect to it, until `crash` restarts it
		if let Some(d) = self.down {
			let names = |k: &str| op[k].as_u64() == Some(d as u64);
			let restart = matches!(name, "crash" | "reload") && names("node");
			let pay_there = matches!(name, "claim" | "fail") && op["pay"].as_u64().map_or(false, |k| (k as usize) < self.pays.len() && self.pays[k as usize].dst == d);
			// (a peer may close its channel with the node that is down: only the acting side `a` counts there)
			let peer_b = names("b") && !matches!(name, "force_close" | "mon_broadcast");
			if !restart && (names("node") || names("from") || names("to") || names("a") || peer_b || pay_there || name == "proj" || name == "kill") {
				self.skipped += 1;
				return;
			}
		}
		if matches!(name, "fee" | "config") {
			for i in 0..n { let cids: Vec<ChannelId> = self.nodes[i].node.list_channels().iter().map(|c| c.channel_id).collect(); for cid in cids { self.dust_cap(i, &cid); } }
		}
		match name {
			"send" => {
				let src = op["from"].as_u64().unwrap() as usize;
				let dst = op["to"].as_u64().unwrap() as usize;
				if src >= n || dst >= n || src == dst { did = false; } else {
					let amt = self.resolve_amount(src, dst, &op["amt"], rng);
					if amt == 0 { did = false; } else { self.send_ext(src, dst, amt, op["intercept"].as_bool().unwrap_or(false)); }
				}
			},
			"deliver" => {
				let f = op["from"].as_u64().unwrap() as usize;
				let t = op["to"].as_u64().unwrap() as usize;
				did = self.deliver_one(f, t);
			},
			"open_extra" => {
				let a = op["a"].as_u64().unwrap() as usize;
				let b = op["b"].as_u64().unwrap() as usize;
				if a < n && b < n && a != b {
					let pb = self.nodes[b].node.get_our_node_id();
					let ok = self.nodes[a].node.create_channel(pb, 150_000, 0, 44, None, None).is_ok();
					self.ev(json!({"ev":"open_extra","a":a,"b":b,"ok":ok}));
					self.drain();
				} else { did = false; }
			},
			"intercept_fwd" | "intercept_fail" => {
				// the user places (forwards, possibly keeping `skim` msat more than its advertised fee) or refuses
				// the HTLCs node i holds for its intercept SCID
				let i = op["node"].as_u64().unwrap() as usize;
				let skim = op["skim"].as_u64().unwrap_or(0);
				let mine: Vec<_> = self.intercepts.iter().filter(|x| x.0 == i).cloned().collect();
				if i < n && !mine.is_empty() {
					self.intercepts.retain(|x| x.0 != i);
					for (_, id, h, next, out_amt) in mine {
						if name == "intercept_fail" || next >= n || !self.chan_ids.contains_key(&(i.min(next), i.max(next))) {
							let ok = self.nodes[i].node.fail_intercepted_htlc(id).is_ok();
							self.ev(json!({"ev":"intercept_fail","node":i,"hash":h,"ok":ok}));
						} else {
							let cid = self.chan_ids[&(i.min(next), i.max(next))];
							let pk = self.nodes[next].node.get_our_node_id();
							let amt = out_amt.saturating_sub(skim.min(out_amt / 2));
							let ok = self.nodes[i].node.forward_intercepted_htlc(id, &cid, pk, amt).is_ok();
							self.ev(json!({"ev":"intercept_fwd","node":i,"hash":h,"amt":amt,"skim":out_amt - amt,"ok":ok}));
							if !ok { let _ = self.nodes[i].node.fail_intercepted_htlc(id); }
						}
						self.drain();
					}
				} else { did = false; }
			},
			"signer_off" | "signer_on" => {
				// an asynchronous (remote) signer: the named operation is unavailable for a while; what needs it is
				// held by the library and comes out, in protocol order, once the signer is back
				let i = op["node"].as_u64().unwrap() as usize;
				let j = op["peer"].as_u64().unwrap() as usize;
				if name == "signer_off" { self.signer_used = true; }
				let what = op["what"].as_str().unwrap_or("sign");
				use lightning::util::test_channel_signer::SignerOp;
				let sop = match what { "point" => SignerOp::GetPerCommitmentPoint, "secret" => SignerOp::ReleaseCommitmentSecret, _ => SignerOp::SignCounterpartyCommitment };
				if i < n && j < n && i != j && self.chan_ids.contains_key(&(i.min(j), i.max(j))) {
					let cid = self.chan_ids[&(i.min(j), i.max(j))];
					let pk = self.nodes[j].node.get_our_node_id();
					if self.nodes[i].node.list_channels().iter().any(|x| x.channel_id == cid) {
						let c = self.chan(&cid);
						self.ev(json!({"ev":"signer","node":i,"chan":c,"what":what,"on":name == "signer_on"}));
						if name == "signer_off" { self.nodes[i].verif_disable_channel_signer_op(&pk, &cid, sop); }
						else {
							self.nodes[i].enable_channel_signer_op(&pk, &cid, sop);
							self.nodes[i].node.signer_unblocked(Some((pk, cid)));
						}
						self.drain();
					} else { did = false; }
				} else { did = false; }
			},
			"open_batch" => {
				// one funding transaction for several new channels of node a
				let a = op["a"].as_u64().unwrap() as usize;
				let peers: Vec<usize> = op["peers"].as_array().map(|v| v.iter().filter_map(|x| x.as_u64()).map(|x| x as usize).collect()).unwrap_or_default();
				if a < n && !peers.is_empty() && peers.iter().all(|b| *b < n && *b != a) && self.batch_wait.is_none() {
					self.batch_wait = Some((a, peers.len(), Vec::new()));
					for b in peers.iter() {
						let pb = self.nodes[*b].node.get_our_node_id();
						let ok = self.nodes[a].node.create_channel(pb, 150_000, 0, 44, None, None).is_ok();
						self.ev(json!({"ev":"open_extra","a":a,"b":*b,"ok":ok}));
						if !ok { if let Some(bw) = self.batch_wait.as_mut() { bw.1 -= 1; } }
					}
					self.drain();
				} else { did = false; }
			},
			"confirm_extra" => {
				// mine every funding transaction of an extra channel that has been broadcast so far
				let txs: Vec<bitcoin::Transaction> = self.extra_broadcast.drain(..).collect();
				if txs.is_empty() { did = false; } else {
					self.ev(json!({"ev":"block","n":6}));
					for tx in txs.iter() { for i in 0..n { mine_transaction(&self.nodes[i], tx); } }
					for i in 0..n { connect_blocks(&self.nodes[i], 5); }
					self.drain();
				}
			},
			"pause_flush" => {
				let i = op["node"].as_u64().unwrap() as usize;
				let on = op["on"].as_bool().unwrap_or(true);
				if i < n {
					self.nodes[i].chain_monitor.pause_flush.store(on, std::sync::atomic::Ordering::Release);
					self.ev(json!({"ev":"pause_flush","node":i,"on":on}));
					if !on { self.drain(); }
				} else { did = false; }
			},
			"flush" => {
				let i = op["node"].as_u64().unwrap() as usize;
				if i < n && self.nodes[i].chain_monitor.pending_operation_count() > 0 {
					let cnt = self.nodes[i].chain_monitor.pending_operation_count();
					let k = if op["all"].as_bool().unwrap_or(false) { cnt } else { 1 };
					self.ev(json!({"ev":"flush","node":i,"count":k}));
					self.nodes[i].chain_monitor.chain_monitor.flush(k, &self.nodes[i].logger);
					self.drain();
				} else { did = false; }
			},
			"close" => {
				let a = op["a"].as_u64().unwrap() as usize;
				let b = op["b"].as_u64().unwrap() as usize;
				if a < n && b < n && self.chan_ids.contains_key(&(a.min(b), a.max(b))) {
					let cid = self.chan_ids[&(a.min(b), a.max(b))];
					let pb = self.nodes[b].node.get_our_node_id();
					let c = self.chan(&cid);
					let ok = self.nodes[a].node.close_channel(&cid, &pb).is_ok();
					self.ev(json!({"ev":"close","node":a,"chan":c,"ok":ok}));
					self.drain();
				} else { did = false; }
			},
			"close_extra" => {
				// node a asks to close (cooperatively) the newest channel it has with b besides the run's main one
				let a = op["a"].as_u64().unwrap() as usize;
				let b = op["b"].as_u64().unwrap() as usize;
				if a < n && b < n && a != b {
					let pb = self.nodes[b].node.get_our_node_id();
					let main = self.chan_ids.get(&(a.min(b), a.max(b))).cloned();
					let cand: Vec<ChannelId> = self.nodes[a].node.list_channels().iter()
						.filter(|c| c.counterparty.node_id == pb && Some(c.channel_id) != main && c.funding_txo.is_some()).map(|c| c.channel_id).collect();
					if let Some(cid) = cand.last() {
						let c = self.chan(cid);
						let ok = self.nodes[a].node.close_channel(cid, &pb).is_ok();
						self.ev(json!({"ev":"close","node":a,"chan":c,"ok":ok}));
						self.drain();
					} else { did = false; }
				} else { did = false; }
			},
			"tamper_raa" => {
				let f = op["from"].as_u64().unwrap() as usize;
				let t = op["to"].as_u64().unwrap() as usize;
				// deliver what precedes the first revoke_and_ack in the queue, then tamper with it
				let pos = self.queues.get(&(f, t)).and_then(|q| q.iter().position(|w| matches!(w, Wire::RAA(_))));
				match pos {
					Some(p) => { for _ in 0..p { self.deliver_one(f, t); } did = self.deliver_ext(f, t, true); },
					None => { did = false; },
				}
			},
			"config" => {
				// the user changes the forwarding policy / limits of its channel with `peer` (ChannelManager::update_partial_channel_config)
				let i = op["node"].as_u64().unwrap() as usize;
				let j = op["peer"].as_u64().unwrap_or(0) as usize;
				if i < n && j < n && self.chan_ids.contains_key(&(i.min(j), i.max(j))) {
					let cid = self.chan_ids[&(i.min(j), i.max(j))];
					let pk = self.nodes[j].node.get_our_node_id();
					let upd = lightning::util::config::ChannelConfigUpdate {
						forwarding_fee_proportional_millionths: op["fee_ppm"].as_u64().map(|x| x as u32),
						forwarding_fee_base_msat: op["fee_base"].as_u64().map(|x| x as u32),
						cltv_expiry_delta: op["cltv_delta"].as_u64().map(|x| x as u16),
						max_dust_htlc_exposure_msat: op["max_dust_msat"].as_u64().map(|x| lightning::util::config::MaxDustHTLCExposure::FixedLimitMsat(x)),
						force_close_avoidance_max_fee_satoshis: op["avoid_fee"].as_u64(),
						accept_underpaying_htlcs: None,
					};
					let ok = self.nodes[i].node.update_partial_channel_config(&pk, &[cid], &upd).is_ok();
					let c = self.chan(&cid);
					let cfgn = self.nodes[i].node.list_channels().iter().find(|x| x.channel_id == cid).and_then(|x| x.config);
					let (fb, fp, cd) = cfgn.map(|x| (x.forwarding_fee_base_msat, x.forwarding_fee_proportional_millionths, x.cltv_expiry_delta)).unwrap_or((0, 0, 0));
					self.ev(json!({"ev":"config","node":i,"chan":c,"ok":ok,"fee_base":fb,"fee_ppm":fp,"cltv_delta":cd,"max_dust":op["max_dust_msat"].as_u64().unwrap_or(0)}));
					self.drain();
				} else { did = false; }
			},
			"corrupt_onion" => {
				// what precedes the first update_add_htlc in the queue is delivered, then that add with a broken onion
				let f = op["from"].as_u64().unwrap() as usize;
				let t = op["to"].as_u64().unwrap() as usize;
				let pos = self.queues.get(&(f, t)).and_then(|q| q.iter().position(|w| matches!(w, Wire::Add(_))));
				match pos {
					Some(p) => { for _ in 0..p { self.deliver_one(f, t); } self.corrupt_onion = Some(op["mode"].as_u64().unwrap_or(0)); did = self.deliver_one(f, t); self.corrupt_onion = None; },
					None => { did = false; },
				}
			},
			"tamper_fulfill" => {
				let f = op["from"].as_u64().unwrap() as usize;
				let t = op["to"].as_u64().unwrap() as usize;
				let pos = self.queues.get(&(f, t)).and_then(|q| q.iter().position(|w| matches!(w, Wire::Fulfill(_))));
				match pos {
					Some(p) => { for _ in 0..p { self.deliver_one(f, t); } did = self.deliver_ext(f, t, true); },
					None => { did = false; },
				}
			},
			"tamper_cs" => {
				// the peer's commitment_signed arrives with a forged signature: mode 0 the commitment signature, 1 one
				// HTLC signature (idx), 2 every HTLC signature, 3 one HTLC signature missing
				let f = op["from"].as_u64().unwrap() as usize;
				let t = op["to"].as_u64().unwrap() as usize;
				let mode = op["mode"].as_u64().unwrap_or(0);
				let idx = op["idx"].as_u64().unwrap_or(0) as usize;
				let pos = self.queues.get(&(f, t)).and_then(|q| q.iter().position(|w| matches!(w, Wire::CS(_, _))));
				match pos {
					Some(p) => {
						for _ in 0..p { self.deliver_one(f, t); }
						self.tamper_cs = Some((mode, idx));
						did = self.deliver_ext(f, t, true);
						self.tamper_cs = None;
					},
					None => { did = false; },
				}
			},
			"deliver_all" => {
				let mut guard = 0;
				loop {
					let mut any = false;
					for f in 0..n { for t in 0..n { if f != t { while self.deliver_one(f, t) { any = true; guard += 1; if guard > 2000 { break; } } } } }
					for i in 0..n { if self.nodes[i].node.needs_pending_htlc_processing() { self.nodes[i].node.process_pending_htlc_forwards(); self.ev(json!({"ev":"forward","node":i})); self.drain(); any = true; } }
					if !any || guard > 2000 { break; }
				}
			},
			"forward" => {
				let i = op["node"].as_u64().unwrap() as usize;
				if i < n && self.nodes[i].node.needs_pending_htlc_processing() {
					self.ev(json!({"ev":"forward","node":i}));
					self.nodes[i].node.process_pending_htlc_forwards();
					self.drain();
				} else { did = false; }
			},
			"claim" | "fail" => {
				let k = op["pay"].as_u64().unwrap() as usize;
				if k < self.pays.len() {
					let (dst, pre, hash) = (self.pays[k].dst, self.pays[k].preimage, self.pays[k].hash);
					let h = self.hash(&hash.0);
					let height = self.nodes[dst].node.current_best_block().height;
					self.ev(json!({"ev":name,"node":dst,"hash":h,"height":height}));
					if name == "claim" { self.nodes[dst].node.claim_funds(pre); } else { self.nodes[dst].node.fail_htlc_backwards(&hash); }
					self.drain();
					if self.nodes[dst].node.needs_pending_htlc_processing() {
						self.ev(json!({"ev":"forward","node":dst}));
						self.nodes[dst].node.process_pending_htlc_forwards();
						self.drain();
					}
				} else { did = false; }
			},
			"fee" => {
				let i = op["node"].as_u64().unwrap() as usize;
				let fr = op["feerate"].as_u64().unwrap() as u32;
				if i < n {
					// only the funder of the first channel re-estimates; the other nodes keep the floor
					// (253) so that a proposed rate is never below the receiver's own minimum, which
					// LDK documents as a reason to close (PeerFeerateTooLow) -- see DESIGN.md assumptions
					*self.cfgs[i].fee_estimator.sat_per_kw.lock().unwrap() = fr; self.feerate[i] = fr;
					// ... but every node's idea of the HIGHEST plausible feerate follows the market: the dust-exposure limit
					// (FeeRateMultiplier x ConfirmationTarget::MaximumFeeEstimate) and the fee excess counted as exposure must
					// not be judged against a floor estimate while the funder proposes 40 times that (a receiver closes the
					// channel on an update_fee that over-exposes it to dust; with consistent estimates the funder's own
					// check in send_update_fee refuses first)
					for j in 0..n {
						let mut ov = self.cfgs[j].fee_estimator.target_override.lock().unwrap();
						let cur = *ov.get(&lightning::chain::chaininterface::ConfirmationTarget::MaximumFeeEstimate).unwrap_or(&253);
						ov.insert(lightning::chain::chaininterface::ConfirmationTarget::MaximumFeeEstimate, cur.max(fr));
					}
					self.ev(json!({"ev":"fee","node":i,"feerate":fr}));
					self.nodes[i].node.timer_tick_occurred();
					self.drain();
				} else { did = false; }
			},
			"tick" => {
				let i = op["node"].as_u64().unwrap() as usize;
				if i < n { self.ev(json!({"ev":"tick","node":i})); self.nodes[i].node.timer_tick_occurred(); self.drain(); } else { did = false; }
			},
			"disconnect" => {
				let a = op["a"].as_u64().unwrap() as usize;
				let b = op["b"].as_u64().unwrap() as usize;
				if a < n && b < n { did = self.do_disconnect(a, b); } else { did = false; }
			},
			"reconnect" => {
				let a = op["a"].as_u64().unwrap() as usize;
				let b = op["b"].as_u64().unwrap() as usize;
				if a < n && b < n && !*self.connected.get(&(a.min(b), a.max(b))).unwrap_or(&true) {
					self.connected.insert((a.min(b), a.max(b)), true);
					self.ev(json!({"ev":"reconnect","a":a,"b":b}));
					let (pa, pb) = (self.nodes[a].node.get_our_node_id(), self.nodes[b].node.get_our_node_id());
					let init_b = msgs::Init { features: self.nodes[b].node.init_features(), networks: None, remote_network_address: None };
					let init_a = msgs::Init { features: self.nodes[a].node.init_features(), networks: None, remote_network_address: None };
					self.nodes[a].node.peer_connected(pb, &init_b, true).unwrap();
					self.nodes[b].node.peer_connected(pa, &init_a, false).unwrap();
					self.drain();
				} else { did = false; }
			},
			"force_close" => {
				let a = op["a"].as_u64().unwrap() as usize;
				let b = op["b"].as_u64().unwrap() as usize;
				if a < n && b < n && self.chan_ids.contains_key(&(a.min(b), a.max(b))) {
					let cid = self.chan_ids[&(a.min(b), a.max(b))];
					let pb = self.nodes[b].node.get_our_node_id();
					let c = self.chan(&cid);
					if self.nodes[a].node.list_channels().iter().any(|x| x.channel_id == cid) {
						// the record comes first: the monitor update and the broadcast follow from the call
						self.ev(json!({"ev":"force_close","node":a,"chan":c}));
						let _ = self.nodes[a].node.force_close_broadcasting_latest_txn(&cid, &pb, "closed by the user".to_string());
						self.drain();
					} else { did = false; }
				} else { did = false; }
			},
			"mon_broadcast" => {
				// the user asks the ChannelMonitor itself (not the manager) to broadcast the latest holder
				// commitment of a live channel; the manager learns of it only when it next looks at the
				// monitor's events -- here after `then` more messages from the peer have been handled
				let a = op["a"].as_u64().unwrap() as usize;
				let b = op["b"].as_u64().unwrap() as usize;
				let then = op["then"].as_u64().unwrap_or(0);
				if a < n && b < n && self.chan_ids.contains_key(&(a.min(b), a.max(b))) {
					let cid = self.chan_ids[&(a.min(b), a.max(b))];
					let c = self.chan(&cid);
					if self.nodes[a].node.list_channels().iter().any(|x| x.channel_id == cid) {
						self.ev(json!({"ev":"force_close","node":a,"chan":c,"via":"monitor"}));
						{
							let node = &self.nodes[a];
							if let Ok(mon) = node.chain_monitor.chain_monitor.get_monitor(cid) {
								mon.broadcast_latest_holder_commitment_txn(&node.tx_broadcaster, &node.fee_estimator, &node.logger);
							}
						}
						self.defer_drain = true;
						for _ in 0..then { if !self.deliver_one(b, a) { break; } }
						self.defer_drain = false;
						self.drain();
					} else { did = false; }
				} else { did = false; }
			},
			"mine" => {
				let k = op["n"].as_u64().unwrap_or(1);
				for _ in 0..k { self.mine_block(); }
			},
			"settle_chain" => {
				// everything that was broadcast is mined at once, block after block, until every timelock
				// of the run has expired; messages and monitor writes flow freely in between
				let keep = op["keep_holds"].as_bool().unwrap_or(false);
				// (`async`: nodes whose monitor writes stay in flight for the whole stretch -- a slow disk)
				let slow: Vec<usize> = op["async"].as_array().map(|v| v.iter().filter_map(|x| x.as_u64()).map(|x| x as usize).collect()).unwrap_or_default();
				for i in 0..n { if !slow.contains(&i) { *self.persisters[i].in_progress.lock().unwrap() = false; } if !keep { self.hold_events[i] = false; } }
				let edges = self.edges.clone();
				for (a, b) in edges { self.step(&json!({"op":"reconnect","a":a,"b":b}), rng); }
				self.ev(json!({"ev":"settle_chain"}));
				self.settling = true;
				for p in self.persisters.iter() { *p.quiet.lock().unwrap() = true; }
				let rounds = op["blocks"].as_u64().unwrap_or(260);
				for round in 0..rounds {
					// "should be called occasionally (once every handful of blocks or on startup)"
					if round % 40 == 39 || round + 2 == rounds { for i in 0..n { if self.down == Some(i) { continue; } self.nodes[i].chain_monitor.chain_monitor.archive_fully_resolved_channel_monitors(); } self.drain(); }
					self.mine_block();
					for i in 0..n {
						if slow.contains(&i) || self.down == Some(i) { continue; }
						let pend = self.persisters[i].pending.lock().unwrap().clone();
						for (c, id) in pend {
							self.persisters[i].pending.lock().unwrap().retain(|x| *x != (c, id));
							let cid = self.chans.lock().unwrap()[c - 1];
							self.ev(json!({"ev":"complete","node":i,"chan":c,"id":id}));
							let _ = self.nodes[i].chain_monitor.chain_monitor.channel_monitor_updated(cid, id);
							self.drain();
						}
					}
					self.step(&json!({"op":"deliver_all"}), rng);
				}
				self.settling = false;
				for p in self.persisters.iter() { *p.quiet.lock().unwrap() = false; }
				self.ev(json!({"ev":"settled"}));
			},
			"hold_events" => {
				let i = op["node"].as_u64().unwrap() as usize;
				let on = op["on"].as_bool().unwrap_or(true);
				if i < n {
					self.hold_events[i] = on;
					self.hold_failed_only[i] = on && op["kinds"].as_str() == Some("failed");
					self.ev(json!({"ev":"hold_events","node":i,"on":on}));
					if !on { self.refused_logged.retain(|x| x.0 != i); self.drain(); }
				} else { did = false; }
			},
			"persist_mode" => {
				let i = op["node"].as_u64().unwrap() as usize;
				let inprog = op["mode"].as_str() == Some("inprogress");
				if i < n {
					*self.persisters[i].in_progress.lock().unwrap() = inprog;
					self.ev(json!({"ev":"persist_mode","node":i,"inprogress":inprog}));
				} else { did = false; }
			},
			"complete" => {
				let i = op["node"].as_u64().unwrap() as usize;
				let which = op["which"].as_str().unwrap_or("oldest");
				if i < n {
					let pend = self.persisters[i].pending.lock().unwrap().clone();
					// optionally only the writes of the channel with `peer`
					let only: Option<usize> = op["peer"].as_u64().and_then(|j| self.chan_ids.get(&(i.min(j as usize), i.max(j as usize))).cloned()).map(|cid| self.chan(&cid));
					let cand: Vec<(usize, u64)> = pend.iter().filter(|x| only.map_or(true, |c| x.0 == c)).cloned().collect();
					if cand.is_empty() { did = false; } else {
						let pick: Vec<(usize, u64)> = match which {
							"all" => cand.clone(),
							"newest" => vec![cand[cand.len() - 1]],
							"random" => vec![cand[rng.gen_range(0..cand.len())]],
							_ => vec![cand[0]],
						};
						for (c, id) in pick {
							// (completing one write may release held updates, which add to the pending list)
							self.persisters[i].pending.lock().unwrap().retain(|x| *x != (c, id));
							let cid = self.chans.lock().unwrap()[c - 1];
							self.ev(json!({"ev":"complete","node":i,"chan":c,"id":id}));
							let _ = self.nodes[i].chain_monitor.chain_monitor.channel_monitor_updated(cid, id);
							self.drain();
						}
					}
				} else { did = false; }
			},
			"claim_onchain" => {
				// the recipient knows the preimage and its channel is being resolved on chain: it hands the preimage to its
				// monitors (not to the manager, which would refuse an HTLC that is not irrevocably committed yet) and the
				// monitors claim whatever HTLC outputs of the confirmed commitment they can -- what a next hop that is not
				// this library's manager may do with an HTLC the forwarding node has committed to
				let k = op["pay"].as_u64().unwrap() as usize;
				if k < self.pays.len() {
					let (dst, pre, hash) = (self.pays[k].dst, self.pays[k].preimage, self.pays[k].hash);
					let h = self.hash(&hash.0);
					let open: HashSet<ChannelId> = self.nodes[dst].node.list_channels().iter().map(|c| c.channel_id).collect();
					let closed: Vec<ChannelId> = self.nodes[dst].chain_monitor.chain_monitor.list_monitors().into_iter().filter(|c| !open.contains(c)).collect();
					if closed.is_empty() { did = false; } else {
						let height = self.nodes[dst].node.current_best_block().height;
						self.ev(json!({"ev":"claim_onchain","node":dst,"hash":h,"height":height}));
						let pool_before: HashSet<bitcoin::Txid> = self.mempool.iter().map(|m| m.0.compute_txid()).collect();
						for cid in closed {
							let node = &self.nodes[dst];
							if let Ok(mon) = node.chain_monitor.chain_monitor.get_monitor(cid) {
								lightning::verif::monitor::provide_preimage(&*mon, &hash, &pre, &node.tx_broadcaster, node.fee_estimator, &node.logger);
							}
						}
						self.drain();
						let fresh: Vec<bitcoin::Transaction> = self.mempool.iter().filter(|m| !pool_before.contains(&m.0.compute_txid()) && self.tx_owner.get(&m.0.compute_txid()) == Some(&dst)).map(|m| m.0.clone()).collect();
						for tx in fresh { for inp in tx.input.iter() { self.onchain_claims.push((inp.previous_output, dst, h)); } }
					}
				} else { did = false; }
			},
			"kill" => {
				// the node's process dies: its peers lose the connection; whatever happens until the `crash` that
				// restarts it (closes by its peers, blocks) happens without it
				let i = op["node"].as_u64().unwrap() as usize;
				if i < n && self.down.is_none() {
					self.down = Some(i);
					self.ev(json!({"ev":"kill","node":i}));
					for j in 0..n {
						if j == i { continue; }
						let key = (i.min(j), i.max(j));
						if *self.connected.get(&key).unwrap_or(&false) {
							self.connected.insert(key, false);
							let la = self.queues.get(&(key.0, key.1)).map(|q| q.len()).unwrap_or(0);
							let lb = self.queues.get(&(key.1, key.0)).map(|q| q.len()).unwrap_or(0);
							self.ev(json!({"ev":"disconnect","a":key.0,"b":key.1,"lost_ab":la,"lost_ba":lb}));
							self.queues.remove(&(i, j));
							self.queues.remove(&(j, i));
							if let Some(cid) = self.chan_ids.get(&key).cloned() { let c = self.chan(&cid); self.reest_seen.remove(&(j, c)); self.reest_seen.remove(&(i, c)); }
							let pi = self.nodes[i].node.get_our_node_id();
							self.nodes[j].node.peer_disconnected(pi);
						}
					}
					self.drain();
				} else { did = false; }
			},
			"block" => {
				let k = op["n"].as_u64().unwrap_or(1) as u32;
				if self.down.is_some() { for _ in 0..k { self.mine_block(); } self.executed += 1; return; }
				self.ev(json!({"ev":"block","n":k}));
				for i in 0..n { connect_blocks(&self.nodes[i], k); }
				self.drain();
			},
			"save" => {
				let i = op["node"].as_u64().unwrap() as usize;
				if i < n { self.saved_idx[i] = Some(self.mgr_snaps[i].len() - 1); } else { did = false; }
			},
			"crash" | "reload" => {
				let i = op["node"].as_u64().unwrap() as usize;
				if i < n {
					let back = if op["mgr"].as_str() == Some("saved") {
						match self.saved_idx[i] { Some(k) => self.mgr_snaps[i].len() - 1 - k, None => 0 }
					} else { op["mgr"].as_u64().unwrap_or(0) as usize };
					// per-channel choice of the monitor write that landed, keyed by the peer's index
					let mut by_chan: HashMap<usize, String> = HashMap::new();
					if let Some(m) = op["mon_by_peer"].as_object() {
						for (k, v) in m.iter() {
							if let (Ok(j), Some(ch)) = (k.parse::<usize>(), v.as_str()) {
								if let Some(cid) = self.chan_ids.get(&(i.min(j), i.max(j))).cloned() { by_chan.insert(self.chan(&cid), ch.to_string()); }
							}
						}
					}
					self.crash(i, name == "reload", back, op["mon"].as_str().unwrap_or("durable"), &by_chan, rng);
				} else { did = false; }
			},
			"proj" => { let fin = op["final"].as_bool().unwrap_or(false); for i in 0..n { self.proj_ext(i, fin, false); } if fin { for i in 0..n { self.ev(json!({"ev":"fin","node":i})); } self.sweeper_round_trip(); self.scorer_round_trip(); } },
			_ => { did = false; },
		}
		if did { self.executed += 1; } else { self.skipped += 1; let _ = before; }
		// (the dust-exposure limits in force after this step: a later update_add_htlc is held to the weakest one so far)
		if matches!(name, "fee" | "config" | "crash" | "reload") {
			for i in 0..n { let cids: Vec<ChannelId> = self.nodes[i].node.list_channels().iter().map(|c| c.channel_id).collect(); for cid in cids { self.dust_cap(i, &cid); } }
		}
	}

	/// C12: a ProbabilisticScorer fed with this run's payment paths is written and re-read; the copy
	/// must re-encode to the same bytes and answer every liquidity query like the original.
	/// C12: every node's OutputSweeper is read back from what it wrote to its store; the copy tracks the
	/// same outputs and reacts to the blocks that follow (its own sweep confirming, burial, pruning) like
	/// the original, also when it is written and re-read again half way.
	fn sweeper_round_trip(&mut self) {
		use lightning::chain::Listen;
		use lightning::util::persist::{KVStoreSync, OUTPUT_SWEEPER_PERSISTENCE_KEY, OUTPUT_SWEEPER_PERSISTENCE_PRIMARY_NAMESPACE, OUTPUT_SWEEPER_PERSISTENCE_SECONDARY_NAMESPACE};
		for i in 0..self.nodes.len() {
			let (sw, bc, st) = match self.sweepers[i] { Some(x) => x, None => continue };
			let node_fee = self.nodes[i].fee_estimator; let keys = &self.nodes[i].keys_manager.backing; let logger = self.nodes[i].logger;
			let reread = |store: &'static lightning::util::test_utils::TestStore| -> Option<(&'static Sweeper, &'static SweepBroadcaster, &'static lightning::util::test_utils::TestStore)> {
				let bytes = KVStoreSync::read(store, OUTPUT_SWEEPER_PERSISTENCE_PRIMARY_NAMESPACE, OUTPUT_SWEEPER_PERSISTENCE_SECONDARY_NAMESPACE, OUTPUT_SWEEPER_PERSISTENCE_KEY).ok()?;
				let bc2: &'static SweepBroadcaster = leak(SweepBroadcaster::default());
				let st2: &'static lightning::util::test_utils::TestStore = leak(lightning::util::test_utils::TestStore::new(false));
				let mut r = &bytes[..];
				let res = <(lightning::chain::BlockLocator, Sweeper) as ReadableArgs<_>>::read(&mut r, (bc2, node_fee, None, keys, leak(SweepWallet), st2, logger));
				// truncated encodings are refused
				if bytes.len() > 3 { let mut t = &bytes[..bytes.len() - 2]; if <(lightning::chain::BlockLocator, Sweeper) as ReadableArgs<_>>::read(&mut t, (bc2, node_fee, None, keys, leak(SweepWallet), leak(lightning::util::test_utils::TestStore::new(false)), logger)).is_ok() { return None; } }
				match res { Ok((_, s2)) if r.is_empty() => Some((leak(s2), bc2, st2)), _ => None }
			};
			// what is written is as of the sweeper's last change; the application replays the blocks since then
			let chain: Vec<(bitcoin::Block, u32)> = self.nodes[i].blocks.lock().unwrap().clone();
			let catch_up = |c: &'static Sweeper, upto: u32| {
				for (b, h) in chain.iter() { if *h > c.current_best_block().height && *h <= upto { c.block_connected(b, *h); } }
			};
			let n_out = sw.tracked_spendable_outputs().len();
			let mut copies = Vec::new();
			let mut read_ok = true;
			match reread(st) { Some(c) => { catch_up(c.0, sw.current_best_block().height); copies.push(c) }, None => read_ok = false }
			let mut equal = true;
			let mut steps = 0;
			let mut why: Vec<String> = Vec::new();
			if read_ok {
				// (signatures are made with fresh auxiliary randomness: spending transactions are compared by txid)
				// (... and modulo the order of their inputs, which the sweeper randomises on purpose)
				let txsig = |t: &bitcoin::Transaction| -> String {
					let mut ins: Vec<String> = t.input.iter().map(|i| format!("{}:{}", i.previous_output.txid, i.previous_output.vout)).collect();
					ins.sort();
					format!("{} lt{} out{}", ins.join(","), t.lock_time, t.output.iter().map(|o| o.value.to_sat()).sum::<u64>())
				};
				let view = |x: &Sweeper| -> Vec<String> {
					use lightning::util::sweep::OutputSpendStatus as St;
					let mut v: Vec<String> = x.tracked_spendable_outputs().iter().map(|o| {
						let st = match &o.status {
							St::PendingInitialBroadcast { delayed_until_height } => format!("initial {:?}", delayed_until_height),
							St::PendingFirstConfirmation { first_broadcast_hash, latest_broadcast_height, latest_spending_tx } =>
								format!("first {} {} {}", first_broadcast_hash, latest_broadcast_height, txsig(latest_spending_tx)),
							St::PendingThresholdConfirmations { first_broadcast_hash, latest_broadcast_height, latest_spending_tx, confirmation_height, confirmation_hash } =>
								format!("threshold {} {} {} {} {}", first_broadcast_hash, latest_broadcast_height, txsig(latest_spending_tx), confirmation_height, confirmation_hash),
						};
						format!("{:?} {:?} {}", o.descriptor, o.channel_id, st)
					}).collect();
					v.sort();
					v
				};
				let same = |a: &Sweeper, b: &Sweeper| view(a) == view(b) && a.current_best_block() == b.current_best_block();
				if !same(sw, copies[0].0) { equal = false; why.push(format!("initial outs_eq={} best_eq={} a={:?} b={:?}", view(sw) == view(copies[0].0), sw.current_best_block() == copies[0].0.current_best_block(), sw.current_best_block().height, copies[0].0.current_best_block().height)); }
				// blocks that only the sweepers see: first the sweep transaction(s) they have broadcast, then burial
				let mut prev = sw.current_best_block();
				let mut extra: Vec<(bitcoin::Block, u32)> = Vec::new();
				for k in 0..12u32 {
					let _ = sw.regenerate_and_broadcast_spend_if_necessary();
					for c in copies.iter() { let _ = c.0.regenerate_and_broadcast_spend_if_necessary(); }
					let mut txs: Vec<bitcoin::Transaction> = if k == 1 { bc.txs.lock().unwrap().clone() } else { Vec::new() };
					txs.dedup_by_key(|t| t.compute_txid());
					let mut seen = HashSet::new();
					txs.retain(|t| t.input.iter().all(|i| seen.insert(i.previous_output)));
					let block = create_dummy_block(prev.block_hash, 1_000_000 + k, txs);
					let h = prev.height + 1;
					sw.block_connected(&block, h);
					for c in copies.iter() { c.0.block_connected(&block, h); }
					extra.push((block.clone(), h));
					prev = sw.current_best_block();
					steps += 1;
					for c in copies.iter() { if !same(sw, c.0) { equal = false; if why.len() < 3 { why.push(format!("step {} outs_eq={} best_eq={} A={:?} B={:?}", k, view(sw) == view(c.0), sw.current_best_block() == c.0.current_best_block(), view(sw), view(c.0)).chars().take(1500).collect()); } } }
					// the copies broadcast what the original broadcasts
					let n0 = bc.txs.lock().unwrap().iter().map(|t| txsig(t)).collect::<HashSet<_>>();
					if k >= 1 { for c in copies.iter().take(1) { let n1 = c.1.txs.lock().unwrap().iter().map(|t| txsig(t)).collect::<HashSet<_>>(); if !n1.is_subset(&n0) { equal = false; if why.len() < 3 { why.push(format!("step {} copy broadcast something else", k)); } } } }
					if k == 3 { match reread(st) {
						Some(c) => {
							catch_up(c.0, u32::MAX);
							for (b, hh) in extra.iter() { if *hh > c.0.current_best_block().height { c.0.block_connected(b, *hh); } }
							if !same(sw, c.0) { equal = false; }
							copies.push(c)
						},
						None => read_ok = false } }
				}
			}
			self.ev(json!({"ev":"rt_sweeper","node":i,"outputs":n_out,"read_ok":read_ok,"equal":equal,"steps":steps,"why":why}));
		}
	}

	fn scorer_round_trip(&mut self) {
		use lightning::routing::scoring::{ProbabilisticScorer, ProbabilisticScoringDecayParameters, ScoreUpdate};
		use lightning::routing::gossip::NodeId;
		use std::time::Duration;
		let graph = self.nodes[0].network_graph;
		let logger = self.nodes[0].logger;
		let mut scorer = ProbabilisticScorer::new(ProbabilisticScoringDecayParameters::default(), graph, logger);
		for (k, p) in self.pays.iter().enumerate() {
			let t = Duration::from_secs(1_000 + 37 * k as u64);
			if k % 3 == 0 { scorer.payment_path_failed(&p.path, p.path.hops[p.path.hops.len() - 1].short_channel_id, t); }
			else if k % 3 == 1 { scorer.payment_path_successful(&p.path, t); }
			else { scorer.payment_path_failed(&p.path, p.path.hops[0].short_channel_id, t); }
		}
		let bytes = scorer.encode();
		let mut r = &bytes[..];
		let res = <ProbabilisticScorer<_, _> as ReadableArgs<_>>::read(&mut r, (ProbabilisticScoringDecayParameters::default(), graph, logger));
		let (mut bytes_equal, mut answers_equal, mut read_ok) = (false, false, false);
		let scids: Vec<u64> = self.scids.values().cloned().collect();
		let targets: Vec<NodeId> = self.nodes.iter().map(|nd| NodeId::from_pubkey(&nd.node.get_our_node_id())).collect();
		let same = |a: &ProbabilisticScorer<_, _>, b: &ProbabilisticScorer<_, _>| -> bool {
			let mut eq = true;
			for scid in scids.iter() {
				for target in targets.iter() {
					if a.estimated_channel_liquidity_range(*scid, target) != b.estimated_channel_liquidity_range(*scid, target) { eq = false; }
					if a.historical_estimated_channel_liquidity_probabilities(*scid, target) != b.historical_estimated_channel_liquidity_probabilities(*scid, target) { eq = false; }
					for amt in [1_000u64, 1_000_000, 100_000_000] {
						if a.historical_estimated_payment_success_probability(*scid, target, amt, &Default::default(), true)
							!= b.historical_estimated_payment_success_probability(*scid, target, amt, &Default::default(), true) { eq = false; }
					}
				}
			}
			eq
		};
		if let Ok(mut s2) = res {
			read_ok = r.is_empty();
			bytes_equal = s2.encode() == bytes;
			answers_equal = same(&scorer, &s2);
			// "reacting to all subsequent updates like the original": let time pass (decay), write again in
			// the decayed state, let more time pass, feed one more datapoint -- copies and original must agree
			let day = 86_400u64;
			let t1 = Duration::from_secs(2_000 + 15 * day);
			scorer.time_passed(t1); s2.time_passed(t1);
			if !same(&scorer, &s2) { answers_equal = false; }
			let b3 = scorer.encode();
			let mut r3 = &b3[..];
			if let Ok(mut s3) = <ProbabilisticScorer<_, _> as ReadableArgs<_>>::read(&mut r3, (ProbabilisticScoringDecayParameters::default(), graph, logger)) {
				if !same(&scorer, &s3) { answers_equal = false; }
				for step in 1..=3u64 {
					let t = Duration::from_secs(2_000 + (15 + 16 * step) * day);
					scorer.time_passed(t); s2.time_passed(t); s3.time_passed(t);
					if !same(&scorer, &s2) || !same(&scorer, &s3) { answers_equal = false; }
					if let Some(p) = self.pays.get(step as usize % self.pays.len().max(1)) {
						let tt = t + Duration::from_secs(5);
						scorer.payment_path_successful(&p.path, tt); s2.payment_path_successful(&p.path, tt); s3.payment_path_successful(&p.path, tt);
						if !same(&scorer, &s2) || !same(&scorer, &s3) { answers_equal = false; }
					}
				}
			} else { read_ok = false; }
		}
		let mut trunc_ok = true;
		if bytes.len() > 4 { let mut r = &bytes[..bytes.len() - 3]; if <ProbabilisticScorer<_, _> as ReadableArgs<_>>::read(&mut r, (ProbabilisticScoringDecayParameters::default(), graph, logger)).is_ok() { trunc_ok = false; } }
		self.ev(json!({"ev":"rt_scorer","paths":self.pays.len(),"read_ok":read_ok,"bytes_equal":bytes_equal,"answers_equal":answers_equal,"truncated_refused":trunc_ok}));
	}

	/// Stop node `i` and restart it from persisted state. `reload`: latest manager, every monitor
	/// write landed (C12). `crash`: the manager written `back` snapshots ago and, per channel, the
	/// durable monitor (every completed write) or a later in-flight write that happened to land.
	fn crash(&mut self, i: usize, reload: bool, back: usize, mon_choice: &str, by_chan: &HashMap<usize, String>, rng: &mut StdRng) {
		let n = self.nodes.len();
		let was_down = self.down == Some(i);
		if was_down { self.down = None; }
		// (a refusal after the restart is a new fact: it is recorded again)
		self.refused_logged.retain(|x| x.0 != i);
		// the node's peers lose the connection
		for j in 0..n {
			if j == i { continue; }
			let key = (i.min(j), i.max(j));
			if *self.connected.get(&key).unwrap_or(&false) {
				self.connected.insert(key, false);
				self.queues.remove(&(i, j));
				self.queues.remove(&(j, i));
				if let Some(cid) = self.chan_ids.get(&key).cloned() { let c = self.chan(&cid); self.reest_seen.remove(&(j, c)); }
				let pi = self.nodes[i].node.get_our_node_id();
				self.nodes[j].node.peer_disconnected(pi);
				if reload { let pj = self.nodes[j].node.get_our_node_id(); self.nodes[i].node.peer_disconnected(pj); }
			}
		}
		if reload {
			// what a clean shutdown writes: disconnect, then persist everything
			self.drain();
			self.proj(i);
			let head = self.peek_event_head(i);
			self.ev(json!({"ev":"evhead","node":i,"id":head,"after_reload":false}));
			self.mgr_snaps[i].push(self.nodes[i].node.encode());
			self.settle_dirty(i);
			self.mgr_clean[i].push(self.dirty[i].is_empty());
			self.mgr_held[i].push(self.dirty[i].clone());
			self.mgr_msgs[i].push(self.msgs_emitted[i]);
			self.mgr_evheld[i].push(self.hold_events[i]);
			let w = *self.persisters[i].nwrites.lock().unwrap();
			self.mgr_writes[i].push(w);
			let k = self.mgr_snaps[i].len() - 1;
			self.ev(json!({"ev":"mgr_snap","node":i,"k":k}));
		}
		let nsn = self.mgr_snaps[i].len();
		let mut k = if reload { nsn - 1 } else { nsn - 1 - back.min(nsn - 1) };
		// use a snapshot taken while nothing was held back by an in-flight monitor update, or one since
		// which the node has released nothing (the held messages are still held: the restarted node
		// replays the in-flight updates and sends them then) -- see DESIGN.md 11.2 "C10 snapshots"
		// ... and not one written while the user was refusing events if the node has written to a monitor
		// since: the manager then counts monitor updates that are blocked behind the unhandled event and
		// never reached Persist, so "older than its monitor" cannot be told from the recorded update ids
		let wnow = *self.persisters[i].nwrites.lock().unwrap();
		while k > 0 && !((self.mgr_clean[i][k] || self.mgr_msgs[i][k] == self.msgs_emitted[i])
			&& (!self.mgr_evheld[i][k] || self.mgr_writes[i][k] == wnow)) { k -= 1; }
		let mgr_bytes = self.mgr_snaps[i][k].clone();
		self.dirty[i] = self.mgr_held[i][k].clone();
		self.refused_logged.retain(|x| x.0 != i);
		self.reest_seen.retain(|x| x.0 != i);
		// monitors
		let snaps = self.persisters[i].snapshots.lock().unwrap().clone();
		let pend = self.persisters[i].pending.lock().unwrap().clone();
		let inprog_flags = self.persisters[i].snap_inprog.lock().unwrap().clone();
		let mut chans: Vec<usize> = snaps.iter().map(|s| s.0).collect();
		chans.sort(); chans.dedup();
		let mut mons: Vec<Vec<u8>> = Vec::new();
		let mut mon_desc = Vec::new();
		let mut not_landed: Vec<usize> = Vec::new();
		for c in chans {
			let idxs: Vec<usize> = (0..snaps.len()).filter(|x| snaps[*x].0 == c).collect();
			// the last write that has landed: handed over as Completed, or InProgress and reported complete since
			// (every write is the whole monitor, so it contains what earlier, still pending writes carry)
			let landed = |x: usize| !inprog_flags.get(x).cloned().unwrap_or(false) || !pend.iter().any(|p| p.0 == c && p.1 == snaps[x].1);
			let durable = idxs.iter().rev().find(|x| landed(**x)).cloned().unwrap_or(idxs[0]);
			let latest = *idxs.last().unwrap();
			let pick = if reload { latest } else { match by_chan.get(&c).map(|s| s.as_str()).unwrap_or(mon_choice) {
				"latest" => latest,
				"random" => { let cands: Vec<usize> = idxs.iter().filter(|x| **x >= durable).cloned().collect(); cands[rng.gen_range(0..cands.len())] },
				_ => durable,
			} };
			mon_desc.push(json!({"chan": c, "id": snaps[pick].1}));
			mons.push(snaps[pick].2.clone());
			// writes after the chosen one did not land: they are gone from disk
			not_landed.extend(idxs.iter().filter(|x| **x > pick).cloned());
		}
		{
			let mut sn = self.persisters[i].snapshots.lock().unwrap();
			let mut x = 0;
			sn.retain(|_| { x += 1; !not_landed.contains(&(x - 1)) });
			let mut fl = self.persisters[i].snap_inprog.lock().unwrap();
			let mut y = 0;
			fl.retain(|_| { y += 1; !not_landed.contains(&(y - 1)) });
			for f in fl.iter_mut() { *f = false; }
		}
		self.persisters[i].pending.lock().unwrap().clear();
		*self.persisters[i].in_progress.lock().unwrap() = false;
		self.ev(json!({"ev":"crash","node":i,"reload":reload,"mgr":k,"mons":mon_desc,"mgr_clean":self.mgr_clean[i][k]}));
		let cfg = self.nodes[i].node.get_current_config();
		let ncm: &'static TestChainMonitor<'static> = leak(TestChainMonitor::new(
			Some(self.nodes[i].chain_source), self.nodes[i].tx_broadcaster, self.nodes[i].logger, self.nodes[i].fee_estimator,
			&self.persisters[i], self.nodes[i].keys_manager));
		self.nodes[i].chain_monitor = ncm;
		let mon_refs: Vec<&[u8]> = mons.iter().map(|m| &m[..]).collect();
		let before = self.log.lock().unwrap().len();
		let new_mgr = leak(_reload_node(&self.nodes[i], cfg, &mgr_bytes, &mon_refs, None));
		self.nodes[i].node = new_mgr;
		self.nodes[i].onion_messenger.set_offers_handler(new_mgr);
		self.nodes[i].onion_messenger.set_async_payments_handler(new_mgr);
		self.nodes[i].chain_monitor.added_monitors.lock().unwrap().clear();
		// persist calls made while loading the monitors are re-persists of known state
		{ let mut lg = self.log.lock().unwrap(); for e in lg.iter_mut().skip(before) { if e["ev"] == "persist" { e["kind"] = json!("load"); } } }
		self.ev(json!({"ev":"restarted","node":i}));
		if reload { let head = self.peek_event_head(i); self.ev(json!({"ev":"evhead","node":i,"id":head,"after_reload":true})); }
		// the application brings the restarted node up to the chain tip (its manager may be older than that)
		{
			let mgr_h = self.nodes[i].node.current_best_block().height;
			let later: Vec<bitcoin::Block> = self.nodes[i].blocks.lock().unwrap().iter().filter(|(_, h)| *h > mgr_h).map(|(b, _)| b.clone()).collect();
			for b in later { connect_block(&self.nodes[i], &b); }
			if was_down {
				if let Some((sw, _, _)) = self.sweepers[i] {
					use lightning::chain::Listen;
					let all: Vec<(bitcoin::Block, u32)> = self.nodes[i].blocks.lock().unwrap().clone();
					for (b, h) in all { if sw.current_best_block().height + 1 == h { sw.block_connected(&b, h); } }
				}
			}
		}
		self.drain();
		if reload { self.proj_ext(i, false, true); }
	}

	fn resolve_amount(&mut self, src: usize, dst: usize, a: &Value, rng: &mut StdRng) -> u64 {
		if let Some(x) = a.as_u64() { return x; }
		let pth = match self.path(src, dst) { Some(p) => p, None => return 0 };
		let nxt = pth[0].1;
		let key = (src.min(nxt), src.max(nxt));
		let cid = self.chan_ids[&key];
		let cd = self.nodes[src].node.list_channels().into_iter().find(|c| c.channel_id == cid);
		let (limit, min) = cd.map(|c| (c.next_outbound_htlc_limit_msat, c.next_outbound_htlc_minimum_msat)).unwrap_or((0, 0));
		let hops = pth.len() as u64;
		let extra = if hops > 1 { 1000 * (hops - 1) } else { 0 };
		let dust_sat = 354u64;
		match a.as_str().unwrap_or("big") {
			"limit" => limit.saturating_sub(extra),
			"limit+1" => limit.saturating_sub(extra) + 1,
			"min" => min,
			"min-1" => min.saturating_sub(1),
			// (when the dust-exposure limit is used up the reported minimum rises to the dust threshold: a dust amount is
			//  then outside the limits and must be refused)
			"dust" => if min.max(1) < dust_sat * 1000 { rng.gen_range(min.max(1)..dust_sat * 1000) } else { rng.gen_range(1000..dust_sat * 1000) },
			"dust-edge" => dust_sat * 1000 + rng.gen_range(0..3) * 1000 - 1000,
			"justabove" => dust_sat * 1000 + rng.gen_range(0..4_000_000),
			// the real trimming thresholds of the first-hop channel at its current feerate: an HTLC is an output of a
			// commitment iff amount >= dust limit + fee of its second-stage transaction (timeout: offered, success:
			// received; zero on anchor channels); between the two thresholds it is an output of one side's commitment only
			"thr-offered" | "thr-received" | "window" => {
				let cdq = self.nodes[src].node.list_channels().into_iter().find(|c| c.channel_id == cid);
				let (fr, anch) = cdq.map(|c| (c.feerate_sat_per_1000_weight.unwrap_or(253) as u64,
					c.channel_type.as_ref().map(|t| t.supports_anchors_zero_fee_htlc_tx() || t.supports_anchor_zero_fee_commitments()).unwrap_or(false))).unwrap_or((253, false));
				let (to, su) = if anch { (0, 0) } else { (fr * 663 / 1000, fr * 703 / 1000) };
				match a.as_str().unwrap() {
					"thr-offered" => (dust_sat + to) * 1000 + rng.gen_range(0..3) * 1000 - 1000,
					"thr-received" => (dust_sat + su) * 1000 + rng.gen_range(0..3) * 1000 - 1000,
					_ => rng.gen_range((dust_sat + to) * 1000..(dust_sat + su) * 1000 + 1),
				}
			},
			"half" => limit / 2,
			_ => { let hi = limit.max(min + 2); rng.gen_range(min.max(1)..hi.min(min.max(1) + 400_000_000).max(min.max(1) + 1)) },
		}
	}
}

fn build_net(run: u64, cfg: &Value, log: &Log) -> Net {
	let n = cfg["nodes"].as_u64().unwrap_or(2) as usize;
	let chan_type = cfg["chan_type"].as_str().unwrap_or("anchors").to_string();
	let value = cfg["value"].as_u64().unwrap_or(1_000_000);
	let push = cfg["push"].as_u64().unwrap_or(400_000_000);
	let feerate0 = cfg["feerate"].as_u64().unwrap_or(253) as u32;
	let chans = Arc::new(Mutex::new(Vec::new()));
	let hashes = Arc::new(Mutex::new(Vec::new()));
	let cfgs = leak(create_chanmon_cfgs(n));
	for c in cfgs.iter() {
		*c.fee_estimator.sat_per_kw.lock().unwrap() = feerate0;
	}
	let txids = Arc::new(Mutex::new(HashMap::new()));
	let persisters: &'static Vec<RecPersister> = leak((0..n).map(|i| RecPersister {
		node: i, log: log.clone(), in_progress: Mutex::new(false), chans: chans.clone(), hashes: hashes.clone(),
		snapshots: Mutex::new(Vec::new()), nwrites: Mutex::new(0), quiet: Mutex::new(false), last_cp: Mutex::new(HashMap::new()), pending: Mutex::new(Vec::new()), snap_inprog: Mutex::new(Vec::new()),
		keys: &cfgs[i].keys_manager, fee_est: &cfgs[i].fee_estimator, logger: &cfgs[i].logger, txids: txids.clone(),
	}).collect());
	let mut node_cfgs_v = create_node_cfgs_with_persisters(n, cfgs, persisters.iter().collect());
	let deferred = cfg["deferred"].as_bool().unwrap_or(false);
	if deferred {
		// deferred ChainMonitor mode: watch/update calls are queued and handed to Persist on flush
		for i in 0..n {
			node_cfgs_v[i].chain_monitor = TestChainMonitor::new_deferred(Some(&cfgs[i].chain_source), &cfgs[i].tx_broadcaster,
				&cfgs[i].logger, &cfgs[i].fee_estimator, &persisters[i], &cfgs[i].keys_manager);
		}
	}
	let node_cfgs = leak(node_cfgs_v);
	let mut uc = test_default_channel_config();
	uc.channel_handshake_config.our_htlc_minimum_msat = cfg["htlc_min"].as_u64().unwrap_or(1000);
	match chan_type.as_str() {
		"static" => { uc.channel_handshake_config.negotiate_anchors_zero_fee_htlc_tx = false; },
		"zerofee" => { uc.channel_handshake_config.negotiate_anchor_zero_fee_commitments = true; },
		_ => {},
	}
	uc.channel_config.forwarding_fee_base_msat = 1000;
	uc.channel_config.forwarding_fee_proportional_millionths = 0;
	// (without an upfront shutdown script a peer's `shutdown` produces a monitor update of its own)
	if cfg["upfront_shutdown"].as_bool() == Some(false) { uc.channel_handshake_config.commit_upfront_shutdown_pubkey = false; }
	if cfg["intercept"].as_bool().unwrap_or(false) {
		// LSP-style forwarding: nodes accept HTLCs for their intercept SCID and let the user decide where they
		// go (possibly taking an extra fee), and accept HTLCs a previous hop has skimmed such a fee from
		uc.htlc_interception_flags = lightning::util::config::HTLCInterceptionFlags::ToInterceptSCIDs as u8;
		uc.channel_config.accept_underpaying_htlcs = true;
	}
	let ucs: Vec<Option<lightning::util::config::UserConfig>> = (0..n).map(|_| Some(uc.clone())).collect();
	let mgrs = leak(create_node_chanmgrs(n, node_cfgs, &ucs));
	let nodes = create_network(n, node_cfgs, mgrs);
	if chan_type != "static" {
		let _ = provide_anchor_reserves(&nodes);
	}
	let mut scids = HashMap::new();
	let mut chan_ids = HashMap::new();
	let mut connected = HashMap::new();
	let edges: Vec<(usize, usize)> = match cfg["edges"].as_array() {
		Some(es) => es.iter().map(|e| { let (a, b) = (e[0].as_u64().unwrap() as usize, e[1].as_u64().unwrap() as usize); (a.min(b), a.max(b)) }).collect(),
		None => (0..n - 1).map(|i| (i, i + 1)).collect(),
	};
	for &(i, j) in edges.iter() {
		let (_, upd, cid, _tx) = create_announced_chan_between_nodes_with_value(&nodes, i, j, value, push);
		let _ = upd;
		let scid = nodes[i].node.list_channels().iter().find(|c| c.channel_id == cid).unwrap().short_channel_id.unwrap();
		scids.insert((i, j), scid);
		chan_ids.insert((i, j), cid);
		connected.insert((i, j), true);
	}
	// one chain for everybody: opening a channel only gave its blocks to the two nodes involved
	let top = (0..n).map(|i| nodes[i].best_block_info().1).max().unwrap();
	for i in 0..n { let h = nodes[i].best_block_info().1; if h < top { connect_blocks(&nodes[i], top - h); } }
	for c in cfgs.iter().skip(1) {
		*c.fee_estimator.sat_per_kw.lock().unwrap() = 253;
	}
	// discard the open-time log; the trace starts at the `open` record
	for p in persisters.iter() {
		p.last_cp.lock().unwrap().clear();
	}
	log.lock().unwrap().clear();
	let consts = lightning::verif::consts();
	let _ = consts;
	let mut net = Net {
		nodes, cfgs, persisters, queues: HashMap::new(), connected, log: log.clone(), chans, hashes, points: Vec::new(),
		pays: Vec::new(), scids, chan_ids, run, feerate: vec![feerate0; n], executed: 0, skipped: 0,
		funding_txids: Vec::new(), extra_funding: Vec::new(), extra_broadcast: Vec::new(), mgr_snaps: vec![Vec::new(); n], mgr_clean: vec![Vec::new(); n], mgr_msgs: vec![Vec::new(); n], msgs_emitted: vec![0; n], mgr_evheld: vec![Vec::new(); n], mgr_writes: vec![Vec::new(); n], dirty: vec![HashSet::new(); n], mgr_held: vec![Vec::new(); n], reest_seen: HashSet::new(), tamper_cs: None, corrupt_onion: None, stat_ids: HashMap::new(), dustcap: HashMap::new(), signer_used: false, hold_events: vec![false; n], defer_drain: false, down: None, intercepts: Vec::new(), intercept_next: HashMap::new(), batch_wait: None, hold_failed_only: vec![false; n], refused_logged: HashSet::new(), settling: false, sweepers: (0..n).map(|_| None).collect(), mempool: Vec::new(), onchain_claims: Vec::new(), tx_owner: HashMap::new(), onchain_reported: HashSet::new(), spent: HashSet::new(), confirmed: HashSet::new(), saved_idx: vec![None; n], node_cfgs, txids, edges: edges.clone(),
	};
	for i in 0..n {
		let _ = net.nodes[i].node.get_and_clear_needs_persistence();
		net.mgr_snaps[i].push(net.nodes[i].node.encode());
		net.mgr_clean[i].push(true);
		net.mgr_msgs[i].push(0);
		net.mgr_evheld[i].push(false);
		net.mgr_writes[i].push(0);
		net.mgr_held[i].push(HashSet::new());
	}
	for &(i, j) in edges.iter() {
		let cid = net.chan_ids[&(i, j)];
		let c = net.chan(&cid);
		if let Some(cd) = net.nodes[i].node.list_channels().iter().find(|x| x.channel_id == cid) {
			if let Some(fo) = cd.funding_txo { net.funding_txids.push((fo.txid, c)); }
		}
	}
	// describe every channel from both ends
	let mut chans_desc = Vec::new();
	for &(i, j) in edges.iter() {
		let cid = net.chan_ids[&(i, j)];
		let c = net.chan(&cid);
		let a = net.nodes[i].node.list_channels().into_iter().find(|x| x.channel_id == cid).unwrap();
		let b = net.nodes[j].node.list_channels().into_iter().find(|x| x.channel_id == cid).unwrap();
		let latest = |p: &RecPersister| p.snapshots.lock().unwrap().iter().filter(|s| s.0 == c).map(|s| s.1).max().unwrap_or(0);
		chans_desc.push(json!({
			"chan": c, "a": i, "b": j, "value_sat": value, "funder": i,
			"type": chan_type,
			"feerate": a.feerate_sat_per_1000_weight.unwrap_or(0),
			"bal_a_msat": value * 1000 - push, "bal_b_msat": push,
			"reserve_a_sat": a.unspendable_punishment_reserve.unwrap_or(0),
			"reserve_b_sat": b.unspendable_punishment_reserve.unwrap_or(0),
			"dust_a_sat": 354, "dust_b_sat": 354,
			"htlc_min_a_msat": a.inbound_htlc_minimum_msat.unwrap_or(0),
			"htlc_min_b_msat": b.inbound_htlc_minimum_msat.unwrap_or(0),
			"mon_id_a": latest(&persisters[i]), "mon_id_b": latest(&persisters[j]),
		}));
	}
	let policy: Vec<Value> = (0..n).map(|i| { let c = net.nodes[i].node.get_current_config().channel_config;
		json!({"fee_base": c.forwarding_fee_base_msat, "fee_ppm": c.forwarding_fee_proportional_millionths, "cltv_delta": c.cltv_expiry_delta}) }).collect();
	net.ev(json!({"ev":"open","nodes":n,"chans":chans_desc,"policy":policy}));
	net
}

/// Structured schedule around "a message lost in a disconnection + an unrelated monitor update in
/// flight when the peer's channel_reestablish arrives + completion afterwards" (C09 / C05).
fn reest_script(rng: &mut StdRng, n: usize) -> Value {
	let types = ["static", "anchors", "zerofee"];
	let chan_type = types[rng.gen_range(0..3)];
	let value = [100_000u64, 1_000_000][rng.gen_range(0..2)];
	let push = value * 500;
	let a = rng.gen_range(0..2usize);
	let b = 1 - a;
	let mut ops: Vec<Value> = Vec::new();
	let mut npay = 0usize;
	let warm = rng.gen_range(1..=3);
	for _ in 0..warm { ops.push(json!({"op":"send","from":a,"to":b,"amt":"big"})); npay += 1; }
	if rng.gen_bool(0.5) { ops.push(json!({"op":"send","from":b,"to":a,"amt":"big"})); npay += 1; }
	ops.push(json!({"op":"deliver_all"}));
	// a new update whose commitment dance is cut by the disconnection
	match rng.gen_range(0..3) {
		0 => { ops.push(json!({"op":"send","from":a,"to":b,"amt":"big"})); npay += 1; },
		1 => { ops.push(json!({"op":"claim","pay":0})); },
		_ => { ops.push(json!({"op":"send","from":b,"to":a,"amt":"justabove"})); npay += 1; },
	}
	for _ in 0..rng.gen_range(0..5) {
		if rng.gen_bool(0.5) { ops.push(json!({"op":"deliver","from":a,"to":b})); } else { ops.push(json!({"op":"deliver","from":b,"to":a})); }
	}
	let slow = if rng.gen_bool(0.7) { b } else { a };
	let when_slow = rng.gen_range(0..2);
	if when_slow == 0 { ops.push(json!({"op":"persist_mode","node":slow,"mode":"inprogress"})); }
	ops.push(json!({"op":"disconnect","a":0,"b":1}));
	if when_slow == 1 { ops.push(json!({"op":"persist_mode","node":slow,"mode":"inprogress"})); }
	// an unrelated update while disconnected (a learned preimage, a failure)
	let k = rng.gen_range(0..npay.max(1));
	ops.push(json!({"op": if rng.gen_bool(0.8) {"claim"} else {"fail"}, "pay": k}));
	let complete_at = rng.gen_range(0..4);
	if complete_at == 0 { ops.push(json!({"op":"complete","node":slow,"which":"all"})); }
	ops.push(json!({"op":"reconnect","a":0,"b":1}));
	for _ in 0..rng.gen_range(0..4) {
		if rng.gen_bool(0.5) { ops.push(json!({"op":"deliver","from":a,"to":b})); } else { ops.push(json!({"op":"deliver","from":b,"to":a})); }
	}
	if complete_at == 1 { ops.push(json!({"op":"complete","node":slow,"which": if rng.gen_bool(0.5) {"oldest"} else {"all"}})); }
	ops.push(json!({"op":"deliver_all"}));
	if complete_at >= 2 { ops.push(json!({"op":"complete","node":slow,"which":"all"})); ops.push(json!({"op":"deliver_all"})); }
	for i in 0..n { ops.push(json!({"op":"persist_mode","node":i,"mode":"completed"})); ops.push(json!({"op":"complete","node":i,"which":"all"})); }
	ops.push(json!({"op":"reconnect","a":0,"b":1}));
	ops.push(json!({"op":"deliver_all"}));
	for k in 0..npay { ops.push(json!({"op": if rng.gen_bool(0.6) {"claim"} else {"fail"}, "pay":k})); }
	for i in 0..n { ops.push(json!({"op":"complete","node":i,"which":"all"})); }
	ops.push(json!({"op":"deliver_all"}));
	ops.push(json!({"op":"proj","final":true}));
	json!({"cfg":{"nodes":n,"chan_type":chan_type,"value":value,"push":push,"feerate":253,"deferred":false}, "ops":ops})
}

/// Structured crash schedule: updates of the two sides cross on the wire (our add + signature vs. the
/// peer's fulfil + signature), some of the resulting messages are processed, then one side dies and
/// comes back from a ChannelManager written before / in the middle of that exchange (C10).
fn crashcross_script(rng: &mut StdRng, n: usize) -> Value {
	let types = ["static", "anchors", "zerofee"];
	let chan_type = types[rng.gen_range(0..3)];
	let value = [100_000u64, 1_000_000][rng.gen_range(0..2)];
	let push = value * 500;
	let a = rng.gen_range(0..2usize);
	let b = 1 - a;
	let mut ops: Vec<Value> = Vec::new();
	let mut npay = 0usize;
	for _ in 0..rng.gen_range(1..=2) { ops.push(json!({"op":"send","from":a,"to":b,"amt":"big"})); npay += 1; }
	if rng.gen_bool(0.4) { ops.push(json!({"op":"send","from":b,"to":a,"amt":"big"})); npay += 1; }
	ops.push(json!({"op":"deliver_all"}));
	let victim = if rng.gen_bool(0.75) { a } else { b };
	let save_at = rng.gen_range(0..3);
	if save_at == 0 { ops.push(json!({"op":"save","node":victim})); }
	// crossing updates
	ops.push(json!({"op":"claim","pay":0}));
	if rng.gen_bool(0.8) { ops.push(json!({"op":"send","from":a,"to":b,"amt":"big"})); npay += 1; }
	if save_at == 1 { ops.push(json!({"op":"save","node":victim})); }
	for _ in 0..rng.gen_range(1..7) {
		if rng.gen_bool(0.5) { ops.push(json!({"op":"deliver","from":b,"to":a})); } else { ops.push(json!({"op":"deliver","from":a,"to":b})); }
	}
	if save_at == 2 { ops.push(json!({"op":"save","node":victim})); }
	for _ in 0..rng.gen_range(0..5) {
		if rng.gen_bool(0.5) { ops.push(json!({"op":"deliver","from":b,"to":a})); } else { ops.push(json!({"op":"deliver","from":a,"to":b})); }
	}
	let mc = ["durable", "latest", "random"][rng.gen_range(0..3)];
	ops.push(json!({"op":"crash","node":victim,"mgr":"saved","mon":mc}));
	if rng.gen_bool(0.3) { ops.push(json!({"op":"crash","node":victim,"mgr":0,"mon":"latest"})); }
	ops.push(json!({"op":"reconnect","a":0,"b":1}));
	ops.push(json!({"op":"deliver_all"}));
	for k in 0..npay { ops.push(json!({"op": if rng.gen_bool(0.6) {"claim"} else {"fail"}, "pay":k})); }
	ops.push(json!({"op":"deliver_all"}));
	ops.push(json!({"op":"proj","final":true}));
	json!({"cfg":{"nodes":n,"chan_type":chan_type,"value":value,"push":push,"feerate":253,"deferred":false}, "ops":ops})
}

fn random_script(rng: &mut StdRng, n: usize, profile: &str) -> Value {
	if profile == "asyncreest" { return reest_script(rng, n); }
	if profile == "crashcross" { return crashcross_script(rng, n); }
	let types = ["static", "anchors", "zerofee"];
	let chan_type = types[rng.gen_range(0..3)];
	let value = [100_000u64, 1_000_000, 2_000_000][rng.gen_range(0..3)];
	let push = [0u64, value * 1000 / 10, value * 1000 / 2][rng.gen_range(0..3)];
	let feerate = [253u32, 1000, 5000][rng.gen_range(0..3)];
	let mut ops: Vec<Value> = Vec::new();
	let steps = rng.gen_range(10..60);
	let amts = ["big", "dust", "dust-edge", "justabove", "limit", "limit+1", "min", "min-1", "half", "window", "thr-offered", "thr-received"];
	let deferred = (profile == "async" || profile == "deferred") && (profile == "deferred" || rng.gen_bool(0.25));
	let mut npay = 0usize;
	let extra_at = if profile == "asyncopen" || (profile == "async" && rng.gen_bool(0.3)) { rng.gen_range(0..steps) } else { usize::MAX };
	for st in 0..steps {
		if st == extra_at {
			let (a, b) = if n >= 3 && rng.gen_bool(0.7) { if rng.gen_bool(0.5) { (0, 2) } else { (2, 0) } } else if rng.gen_bool(0.5) { (0, 1) } else { (1, 0) };
			for i in 0..n { if rng.gen_bool(0.5) { ops.push(json!({"op":"persist_mode","node":i,"mode":"inprogress"})); } }
			ops.push(json!({"op":"open_extra","a":a,"b":b}));
		}
		if extra_at != usize::MAX && st > extra_at && rng.gen_bool(0.15) { ops.push(json!({"op":"confirm_extra"})); }
		if deferred && rng.gen_bool(0.25) {
			let node = rng.gen_range(0..n);
			match rng.gen_range(0..3) { 0 => ops.push(json!({"op":"pause_flush","node":node,"on":true})), 1 => ops.push(json!({"op":"flush","node":node})), _ => ops.push(json!({"op":"pause_flush","node":node,"on":false})) }
		}
		let r = rng.gen_range(0..100);
		if r < 22 {
			let src = rng.gen_range(0..n);
			let mut dst = rng.gen_range(0..n);
			if dst == src { dst = (src + 1) % n; }
			let la = ["limit", "limit", "limit+1", "min", "min-1", "half", "window", "window", "thr-offered", "thr-received"];
			let a = if profile == "limits" { la[rng.gen_range(0..la.len())] } else { amts[rng.gen_range(0..amts.len())] };
			ops.push(json!({"op":"send","from":src,"to":dst,"amt":a}));
			npay += 1;
		} else if r < 60 {
			let a = rng.gen_range(0..n - 1);
			if rng.gen_bool(0.5) { ops.push(json!({"op":"deliver","from":a,"to":a+1})); } else { ops.push(json!({"op":"deliver","from":a+1,"to":a})); }
		} else if r < 70 {
			ops.push(json!({"op":"forward","node":rng.gen_range(0..n)}));
		} else if r < 82 && npay > 0 {
			let k = rng.gen_range(0..npay);
			ops.push(json!({"op": if rng.gen_bool(0.7) {"claim"} else {"fail"}, "pay":k}));
		} else if r < 86 {
			let fr = [253u32, 500, 1000, 2500, 5000, 10000][rng.gen_range(0..6)];
			ops.push(json!({"op":"fee","node":0,"feerate":fr}));
		} else if r < 91 && profile != "nodisc" {
			let a = rng.gen_range(0..n - 1);
			ops.push(json!({"op":"disconnect","a":a,"b":a+1}));
			if rng.gen_bool(0.8) { ops.push(json!({"op":"reconnect","a":a,"b":a+1})); }
		} else if r < 94 && profile != "nodisc" {
			let a = rng.gen_range(0..n - 1);
			ops.push(json!({"op":"reconnect","a":a,"b":a+1}));
		} else if r == 98 && profile != "limits" {
			// the user changes the policy / limits of one of its channels
			let i = rng.gen_range(0..n);
			let j = if i == 0 { 1 } else if i == n - 1 { n - 2 } else if rng.gen_bool(0.5) { i - 1 } else { i + 1 };
			let mut o = json!({"op":"config","node":i,"peer":j});
			match rng.gen_range(0..5) {
				0 => { o["fee_base"] = json!([0u64, 500, 1000, 2000, 5000][rng.gen_range(0..5)]); },
				1 => { o["fee_ppm"] = json!([0u64, 100, 1000, 10000][rng.gen_range(0..4)]); },
				2 => { o["cltv_delta"] = json!([48u64, 50, 72, 144][rng.gen_range(0..4)]); },
				3 => { o["max_dust_msat"] = json!([5_000_000u64, 50_000_000, 500_000_000][rng.gen_range(0..3)]); },
				_ => { o["avoid_fee"] = json!([0u64, 1000, 5000][rng.gen_range(0..3)]); },
			}
			ops.push(o);
		} else if r == 99 && profile != "nodisc" && profile != "limits" {
			let a = rng.gen_range(0..n - 1);
			let (f, t) = if rng.gen_bool(0.5) { (a, a + 1) } else { (a + 1, a) };
			ops.push(json!({"op":"corrupt_onion","from":f,"to":t,"mode":rng.gen_range(0..4)}));
		} else if r < 97 && profile == "tamper" {
			let a = rng.gen_range(0..n - 1);
			let (f, t) = if rng.gen_bool(0.5) { (a, a + 1) } else { (a + 1, a) };
			let w = rng.gen_range(0..5);
			if w < 2 { ops.push(json!({"op":"tamper_raa","from":f,"to":t})); }
			else if w == 2 { ops.push(json!({"op":"tamper_fulfill","from":f,"to":t})); }
			else { ops.push(json!({"op":"tamper_cs","from":f,"to":t,"mode":rng.gen_range(0..4),"idx":rng.gen_range(0..4)})); }
		} else if r < 97 && (profile == "crash" || profile == "reload") {
			let node = rng.gen_range(0..n);
			if profile == "reload" || rng.gen_bool(0.3) { ops.push(json!({"op":"reload","node":node})); }
			else {
				let mc = ["durable","latest","random"][rng.gen_range(0..3)];
				ops.push(json!({"op":"crash","node":node,"mgr":rng.gen_range(0..4),"mon":mc}));
			}
			for a in 0..n - 1 { if rng.gen_bool(0.8) { ops.push(json!({"op":"reconnect","a":a,"b":a+1})); } }
		} else if r < 97 && (profile == "async" || profile == "asyncopen" || profile == "deferred") {
			ops.push(json!({"op":"persist_mode","node":rng.gen_range(0..n),"mode": if rng.gen_bool(0.6) {"inprogress"} else {"completed"}}));
		} else if profile == "crash" && rng.gen_bool(0.5) {
			ops.push(json!({"op":"persist_mode","node":rng.gen_range(0..n),"mode": if rng.gen_bool(0.6) {"inprogress"} else {"completed"}}));
		} else if profile == "async" || profile == "crash" || profile == "asyncopen" || profile == "deferred" {
			let wh = ["oldest","newest","all","random"][rng.gen_range(0..4)];
			ops.push(json!({"op":"complete","node":rng.gen_range(0..n),"which":wh}));
		} else {
			ops.push(json!({"op":"deliver_all"}));
		}
	}
	// wind down: complete everything, reconnect, deliver all, resolve payments, deliver all
	if deferred { for i in 0..n { ops.push(json!({"op":"pause_flush","node":i,"on":false})); } }
	for i in 0..n { ops.push(json!({"op":"persist_mode","node":i,"mode":"completed"})); ops.push(json!({"op":"complete","node":i,"which":"all"})); }
	for a in 0..n - 1 { ops.push(json!({"op":"reconnect","a":a,"b":a+1})); }
	ops.push(json!({"op":"deliver_all"}));
	if extra_at != usize::MAX { ops.push(json!({"op":"confirm_extra"})); ops.push(json!({"op":"deliver_all"})); }
	for k in 0..npay { ops.push(json!({"op": if rng.gen_bool(0.6) {"claim"} else {"fail"}, "pay":k})); }
	for i in 0..n { ops.push(json!({"op":"complete","node":i,"which":"all"})); }
	ops.push(json!({"op":"deliver_all"}));
	ops.push(json!({"op":"proj","final":true}));
	if profile == "close" || rng.gen_bool(0.15) {
		let a = rng.gen_range(0..n - 1);
		if rng.gen_bool(0.5) { ops.push(json!({"op":"close","a":a,"b":a+1})); } else { ops.push(json!({"op":"close","a":a+1,"b":a})); }
		ops.push(json!({"op":"deliver_all"}));
	}
	json!({"cfg":{"nodes":n,"chan_type":chan_type,"value":value,"push":push,"feerate":feerate,"deferred":deferred}, "ops":ops})
}

fn main() {
	let args: Vec<String> = std::env::args().collect();
	let mut scripts_path = None;
	let mut out = String::from("trace.ndjson");
	let (mut random, mut seed, mut nnodes) = (0usize, 1u64, 2usize);
	let mut profile = String::from("default");
	let mut i = 1;
	while i < args.len() {
		match args[i].as_str() {
			"--scripts" => { scripts_path = Some(args[i + 1].clone()); i += 1 },
			"--out" => { out = args[i + 1].clone(); i += 1 },
			"--random" => { random = args[i + 1].parse().unwrap(); i += 1 },
			"--seed" => { seed = args[i + 1].parse().unwrap(); i += 1 },
			"--nodes" => { nnodes = args[i + 1].parse().unwrap(); i += 1 },
			"--profile" => { profile = args[i + 1].clone(); i += 1 },
			_ => {},
		}
		i += 1;
	}
	let quiet = std::env::var("VERIF_VERBOSE").is_err();
	std::panic::set_hook(Box::new(move |info| {
		let msg = format!("{}", info);
		*LAST_PANIC.lock().unwrap() = msg.chars().take(300).collect();
		if std::env::var("VERIF_DBG").is_ok() { let bt = format!("{}", std::backtrace::Backtrace::force_capture()); let keep: Vec<&str> = bt.lines().filter(|l| l.contains("lightning::") || l.contains("channet")).collect(); *LAST_PANIC.lock().unwrap() = format!("{} BT: {}", msg, keep.join(" | ")).chars().take(6000).collect(); }
		if !quiet { eprintln!("PANIC {}", msg); }
	}));
	let mut scripts: Vec<Value> = Vec::new();
	if let Some(p) = scripts_path {
		for line in std::fs::read_to_string(p).unwrap().lines() {
			if !line.trim().is_empty() { scripts.push(serde_json::from_str(line).unwrap()); }
		}
	}
	let mut rng = StdRng::seed_from_u64(seed);
	for _ in 0..random { scripts.push(random_script(&mut rng, nnodes, &profile)); }
	let mut tw = TraceWriter::create(&out);
	let (mut panics, mut executed, mut skipped) = (0usize, 0usize, 0usize);
	let mut panic_msgs: Vec<String> = Vec::new();
	for (k, s) in scripts.iter().enumerate() {
		let run = k as u64 + 1;
		let log: Log = Arc::new(Mutex::new(Vec::new()));
		let mut rr = StdRng::seed_from_u64(seed ^ run.wrapping_mul(0x9e3779b97f4a7c15));
		let res = catch_unwind(AssertUnwindSafe(|| {
			let mut net = build_net(run, &s["cfg"], &log);
			let r2 = catch_unwind(AssertUnwindSafe(|| {
				for op in s["ops"].as_array().unwrap() { net.step(op, &mut rr); }
			}));
			let (e, sk) = (net.executed, net.skipped);
			std::mem::forget(net);
			(r2.is_err(), e, sk)
		}));
		match res {
			Ok((inner_panic, e, sk)) => {
				executed += e; skipped += sk;
				if inner_panic { panics += 1; let m = LAST_PANIC.lock().unwrap().clone(); log.lock().unwrap().push(json!({"ev":"panic","msg":m})); }
			},
			Err(_) => {
				// panic while building the network: not a run
				panic_msgs.push(format!("run {} setup panic: {}", run, LAST_PANIC.lock().unwrap().clone()));
				log.lock().unwrap().clear();
			},
		}
		let evs = log.lock().unwrap();
		for (q, e) in evs.iter().enumerate() {
			let mut e = e.clone();
			e["run"] = json!(run);
			e["seq"] = json!(q + 1);
			tw.emit(e);
		}
	}
	tw.flush();
	let summary = json!({"runs": scripts.len(), "events": tw.lines, "panics": panics, "executed": executed, "skipped": skipped, "setup_failures": panic_msgs.len(), "setup_panic": panic_msgs.first().cloned().unwrap_or_default()});
	std::fs::write(format!("{}.summary", out), summary.to_string()).unwrap();
	eprintln!("SUMMARY {}", summary);
	std::process::exit(0);
}
