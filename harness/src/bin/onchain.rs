//! Engine `onchain`: two real nodes (ChannelManager + ChainMonitor) are driven through a short
//! channel history, then the channel is closed unilaterally -- by a revoked commitment of one side
//! (C06) or by a current / previous-unrevoked commitment (C07) -- on a chain the harness owns:
//! a mempool of everything the nodes broadcast, consensus verification (bitcoinconsensus) of every
//! broadcast against the outputs it spends, nLockTime/nSequence finality at the broadcast height,
//! block assembly under script-chosen policies (delays, competing spends in either order), block
//! delivery under a script-chosen `ConnectStyle`, monitor/manager reload at script-chosen points.
//! The engine records facts only (NDJSON); the verdict is TLC's (spec/OnChainTrace.tla).
//!
//!
//! The cheater's second-stage transactions: for channels without anchors they are the pre-signed
//! SIGHASH_ALL transactions of its old state; for anchor channels the old-state monitor's
//! `HTLCResolution` events give the `HTLCDescriptor`s, from which either the node's own wallet-backed
//! handler builds the transactions (n HTLC inputs + a fee input, n HTLC outputs + change) or -- op
//! `cheat` -- the engine assembles a transaction of a script-chosen shape by hand (HTLC inputs in any
//! number, inputs of its own before / between / after them, outputs of its own wherever no HTLC input
//! stands), signed by the real second node's channel signer (SIGHASH_SINGLE|ANYONECANPAY).
//! Chain histories: op `unwind` takes the chain back below the commitment / a second-stage transaction /
//! a claim (any depth), with or without the network forgetting the descendants; the transactions that
//! left the chain confirm again when the script lets them.
//!
//! A node may have a SECOND channel (with a third node) that is closed unilaterally too (`cfg.second`, op
//! `close2`); what both channels hand over in `SpendableOutputs` events is swept by the node's
//! `OutputSpender` one descriptor per call, per event, all at once (what `OutputSweeper` does) or in random
//! batches (`cfg.sweep`), at once or only when everything has been reported.
//!
//! usage: onchain [--scripts FILE] [--random N --profile c06|c06t|c06r|c06s|c06m|c07|c07r|c07u|c07d|c07x|c07p|c07m --seed S] --out TRACE

use bitcoin::absolute::LockTime;
use bitcoin::hashes::Hash as _;
use bitcoin::secp256k1::{Message, Secp256k1, SecretKey};
use bitcoin::sighash::{EcdsaSighashType, SighashCache};
use bitcoin::transaction::Version;
use bitcoin::{Amount, OutPoint, ScriptBuf, Sequence, Transaction, TxIn, TxOut, Txid, WPubkeyHash, Witness};
use lightning::chain::channelmonitor::{Balance, BalanceSource, ChannelMonitor};
use lightning::chain::{BlockLocator, Confirm};
use lightning::util::wallet_utils::WalletSourceSync;
use lightning::events::bump_transaction::BumpTransactionEvent;
use lightning::events::Event;
use lightning::ln::chan_utils::CommitmentTransaction;
use lightning::ln::channelmanager::PaymentId;
use lightning::ln::functional_test_utils::*;
use lightning::ln::msgs::{self, BaseMessageHandler, ChannelMessageHandler, ErrorAction, MessageSendEvent};
use lightning::ln::outbound_payment::RecipientOnionFields;
use lightning::ln::types::ChannelId;
use lightning::routing::router::{Path, PaymentParameters, Route, RouteHop, RouteParameters};
use lightning::sign::ecdsa::EcdsaChannelSigner;
use lightning::sign::{HTLCDescriptor, OutputSpender, SignerProvider, SpendableOutputDescriptor};
use lightning::types::features::{ChannelFeatures, NodeFeatures};
use lightning::types::payment::{PaymentHash, PaymentPreimage};
use lightning::util::ser::{ReadableArgs, Writeable};
use lightning::util::test_channel_signer::TestChannelSigner;
use lightning::util::test_utils::{TestBroadcaster, TestChainMonitor, TestPersister};
use lightning::verif::monitor::{steps as update_steps, StepView};
use rand::rngs::StdRng;
use rand::{Rng, SeedableRng};
use serde_json::{json, Value};
use std::collections::{HashMap, HashSet, VecDeque};
use std::panic::{catch_unwind, AssertUnwindSafe};
use std::sync::Mutex;
use vharness::trace::TraceWriter;

static LAST_PANIC: Mutex<String> = Mutex::new(String::new());
const AGENT: usize = 2; // the would-be cheater's frozen old-state monitor
const HARNESS: usize = 3; // transactions the harness itself puts on the chain
const INITIAL_COMMITMENT_NUMBER: u64 = (1 << 48) - 1;

fn leak<T>(t: T) -> &'static T {
	Box::leak(Box::new(t))
}

// ---------------------------------------------------------------------------------------------
// Off-chain part: harness-owned message queues (after channet.rs)

#[derive(Clone)]
enum Wire {
	Add(msgs::UpdateAddHTLC),
	Fulfill(msgs::UpdateFulfillHTLC),
	Fail(msgs::UpdateFailHTLC),
	Malformed(msgs::UpdateFailMalformedHTLC),
	Fee(msgs::UpdateFee),
	CS(Vec<msgs::CommitmentSigned>),
	RAA(msgs::RevokeAndACK),
	ChannelReady(msgs::ChannelReady),
	AnnSigs(msgs::AnnouncementSignatures),
	ChanUpdate(msgs::ChannelUpdate),
	Error(msgs::ErrorMessage),
	Other,
}

struct Pay {
	preimage: PaymentPreimage,
	hash: PaymentHash,
	dst: usize,
}

/// One commitment transaction of `owner` as the *other* node's monitor was told about it
/// (public API: `counterparty_commitment_txs_from_update`).
struct CommitInfo {
	ct: CommitmentTransaction,
	txid: Txid,
	dust: Vec<(PaymentHash, u64, bool)>,
}

struct MemTx {
	tx: Transaction,
	txid: Txid,
	id: usize,
	by: usize,
	valid: bool,
	fee: i64,
	weight: u64,
	sweep: bool,
}

struct Pending {
	node: usize,
	desc: SpendableOutputDescriptor,
	done: bool,
	/// the number of the `SpendableOutputs` event that reported it (descriptors of one event may be swept together)
	evno: usize,
	/// the sweep transaction it was last put into
	sweep: Option<Txid>,
}

fn desc_outpoint(d: &SpendableOutputDescriptor) -> OutPoint {
	match d {
		SpendableOutputDescriptor::StaticOutput { outpoint, .. } => outpoint.into_bitcoin_outpoint(),
		SpendableOutputDescriptor::DelayedPaymentOutput(x) => x.outpoint.into_bitcoin_outpoint(),
		SpendableOutputDescriptor::StaticPaymentOutput(x) => x.outpoint.into_bitcoin_outpoint(),
	}
}
fn desc_kind(d: &SpendableOutputDescriptor) -> &'static str {
	match d {
		SpendableOutputDescriptor::StaticOutput { .. } => "static",
		SpendableOutputDescriptor::DelayedPaymentOutput(_) => "delayed",
		SpendableOutputDescriptor::StaticPaymentOutput(_) => "static_payment",
	}
}
/// The channel whose signer has to sign for the descriptor (None: the node's own destination key).
fn desc_keys_id(d: &SpendableOutputDescriptor) -> Option<[u8; 32]> {
	match d {
		SpendableOutputDescriptor::StaticOutput { channel_keys_id, .. } => *channel_keys_id,
		SpendableOutputDescriptor::DelayedPaymentOutput(x) => Some(x.channel_keys_id),
		SpendableOutputDescriptor::StaticPaymentOutput(x) => Some(x.channel_keys_id),
	}
}

struct Net {
	nodes: Vec<Node<'static, 'static, 'static>>,
	cfgs: &'static Vec<TestChanMonCfg>,
	chan_id: ChannelId,
	chan_type: String,
	queues: HashMap<(usize, usize), VecDeque<Wire>>,
	log: Vec<Value>,
	hashes: Vec<[u8; 32]>,
	claim_ids: Vec<[u8; 32]>,
	pays: Vec<Pay>,
	scid: u64,
	run: u64,
	// history bookkeeping
	holder_num: [u64; 2],
	revoked: [u64; 2],
	snaps: [HashMap<u64, Vec<u8>>; 2],
	known: [HashSet<[u8; 32]>; 2],
	mark: Option<u64>,
	// chain
	outs: HashMap<OutPoint, TxOut>,
	conf: HashMap<Txid, u32>,
	spent: HashMap<OutPoint, Txid>,
	ids: HashMap<Txid, usize>,
	mempool: Vec<MemTx>,
	funding: OutPoint,
	live: Vec<usize>,
	frozen: Vec<usize>,
	agent: Option<ChannelMonitor<TestChannelSigner>>,
	agent_owner: usize,
	agent_bc: Option<&'static TestBroadcaster>,
	commits: [Vec<CommitInfo>; 2],
	commit_logged: Option<Txid>,
	confirmed_commit: Option<(usize, usize)>,
	pending: Vec<Pending>,
	last_state: String,
	idle_from: Option<u32>,
	executed: usize,
	skipped: usize,
	swept: [u64; 2],
	refused: [bool; 2],
	jump_from: Option<u32>,
	mined: Vec<MemTx>,
	fork: u32,
	hwm: u32,
	// the cheater's hand-made second-stage transactions
	agent_descs: Vec<(HTLCDescriptor, LockTime)>,
	agent_manual: bool,
	fee_utxos: Vec<(OutPoint, TxOut)>,
	fee_next: usize,
	next_shape: Option<Value>,
	txmap: HashMap<Txid, Transaction>,
	open_h: u32,
	rb_tick: u32,
	in_reorg: bool,
	// a second channel of node `hub` (with node 2), closed unilaterally as well
	second: Option<Second>,
	// how the application sweeps what was reported: "each" descriptor on its own, the descriptors of one
	// "event" together, "all" that are mature in one call (what OutputSweeper does), "mixed" random batches
	sweep_mode: String,
	// sweeping waits until everything has been reported (op `sweep` or the settling phase)
	sweep_defer: bool,
	sweep_now: bool,
	srng: StdRng,
	spend_events: usize,
}

struct Second {
	hub: usize,
	chan_id: ChannelId,
	funding: OutPoint,
	chan_type: String,
	closed: bool,
	commit_txid: Option<Txid>,
}

/// BIP68 delay the spend of a reported output has to respect
fn desc_delay(d: &SpendableOutputDescriptor) -> u32 {
	match d {
		SpendableOutputDescriptor::StaticOutput { .. } => 0,
		SpendableOutputDescriptor::DelayedPaymentOutput(x) => x.to_self_delay as u32,
		SpendableOutputDescriptor::StaticPaymentOutput(x) => {
			let anchors = x.channel_transaction_parameters.as_ref().map(|p| p.channel_type_features.supports_anchors_zero_fee_htlc_tx()
				|| p.channel_type_features.supports_anchor_zero_fee_commitments()).unwrap_or(false);
			if anchors { 1 } else { 0 }
		},
	}
}

fn harness_key() -> SecretKey {
	SecretKey::from_slice(&[0x42; 32]).unwrap()
}
fn harness_script() -> ScriptBuf {
	let secp = Secp256k1::new();
	let pk = bitcoin::PublicKey::new(harness_key().public_key(&secp));
	ScriptBuf::new_p2wpkh(&pk.wpubkey_hash().unwrap())
}

impl Net {
	fn ev(&mut self, v: Value) {
		self.log.push(v);
	}
	fn hash(&mut self, h: &[u8; 32]) -> usize {
		if let Some(p) = self.hashes.iter().position(|x| x == h) {
			return p + 1;
		}
		self.hashes.push(*h);
		self.hashes.len()
	}
	fn claim(&mut self, c: &[u8; 32]) -> usize {
		if let Some(p) = self.claim_ids.iter().position(|x| x == c) {
			return p + 1;
		}
		self.claim_ids.push(*c);
		self.claim_ids.len()
	}
	fn estimates(&self) -> Vec<u32> {
		(0..2).map(|i| *self.cfgs[i].fee_estimator.sat_per_kw.lock().unwrap()).collect()
	}
	fn txi(&mut self, t: &Txid) -> usize {
		let n = self.ids.len() + 1;
		*self.ids.entry(*t).or_insert(n)
	}
	fn opj(&mut self, o: &OutPoint) -> Value {
		json!([self.txi(&o.txid), o.vout])
	}
	/// (the harness' chain, not a node's belief: a node told about a reorganisation by
	/// `transaction_unconfirmed` alone keeps its old best height until the next block)
	fn height(&self) -> u32 {
		self.nodes[self.live[0]].blocks.lock().unwrap().last().unwrap().1
	}
	fn tip_hash(&self) -> bitcoin::BlockHash {
		self.nodes[self.live[0]].blocks.lock().unwrap().last().unwrap().0.block_hash()
	}
	/// The height against which the finality of a broadcast is judged: the best height, or -- until the
	/// chain has regained it after a reorganisation of its (empty) tip blocks -- the height it had
	/// (a node may not have been told yet, or re-announce a transaction made for the old tip).
	fn judged_height(&self) -> u32 {
		self.height().max(self.hwm)
	}
	fn idx_of(&self, pk: &bitcoin::secp256k1::PublicKey) -> usize {
		self.nodes.iter().position(|n| n.node.get_our_node_id() == *pk).expect("unknown peer")
	}

	// ----------------------------------------------------------------------------- message pump
	fn enqueue(&mut self, from: usize, to_pk: &bitcoin::secp256k1::PublicKey, w: Wire) {
		let to = self.idx_of(to_pk);
		self.queues.entry((from, to)).or_default().push_back(w);
	}

	fn drain_msgs(&mut self) {
		for i in 0..2 {
			let evs = self.nodes[i].node.get_and_clear_pending_msg_events();
			for e in evs {
				match e {
					MessageSendEvent::UpdateHTLCs { node_id, updates, .. } => {
						for m in updates.update_add_htlcs { self.enqueue(i, &node_id, Wire::Add(m)); }
						for m in updates.update_fulfill_htlcs { self.enqueue(i, &node_id, Wire::Fulfill(m)); }
						for m in updates.update_fail_htlcs { self.enqueue(i, &node_id, Wire::Fail(m)); }
						for m in updates.update_fail_malformed_htlcs { self.enqueue(i, &node_id, Wire::Malformed(m)); }
						if let Some(m) = updates.update_fee { self.enqueue(i, &node_id, Wire::Fee(m)); }
						if !updates.commitment_signed.is_empty() { self.enqueue(i, &node_id, Wire::CS(updates.commitment_signed)); }
					},
					MessageSendEvent::SendRevokeAndACK { node_id, msg } => self.enqueue(i, &node_id, Wire::RAA(msg)),
					MessageSendEvent::SendChannelReady { node_id, msg } => self.enqueue(i, &node_id, Wire::ChannelReady(msg)),
					MessageSendEvent::SendAnnouncementSignatures { node_id, msg } => self.enqueue(i, &node_id, Wire::AnnSigs(msg)),
					MessageSendEvent::SendChannelUpdate { node_id, msg } => self.enqueue(i, &node_id, Wire::ChanUpdate(msg)),
					MessageSendEvent::HandleError { node_id, action } => match action {
						ErrorAction::SendErrorMessage { msg } => self.enqueue(i, &node_id, Wire::Error(msg)),
						ErrorAction::DisconnectPeer { msg: Some(msg) } => self.enqueue(i, &node_id, Wire::Error(msg)),
						_ => {},
					},
					_ => { let _ = Wire::Other; },
				}
			}
			let _ = self.nodes[i].node.get_and_clear_pending_events();
		}
	}

	fn snapshot(&mut self) {
		for i in 0..2 {
			if let Ok(m) = self.nodes[i].chain_monitor.chain_monitor.get_monitor(self.chan_id) {
				let bytes = m.encode();
				let n = self.holder_num[i];
				self.snaps[i].insert(n, bytes);
			}
		}
	}

	fn deliver_one(&mut self, from: usize, to: usize) -> bool {
		let w = match self.queues.get_mut(&(from, to)).and_then(|q| q.pop_front()) {
			Some(w) => w,
			None => return false,
		};
		let from_pk = self.nodes[from].node.get_our_node_id();
		let n = &self.nodes[to].node;
		match w {
			Wire::Add(m) => n.handle_update_add_htlc(from_pk, &m),
			Wire::Fulfill(m) => n.handle_update_fulfill_htlc(from_pk, m),
			Wire::Fail(m) => n.handle_update_fail_htlc(from_pk, &m),
			Wire::Malformed(m) => n.handle_update_fail_malformed_htlc(from_pk, &m),
			Wire::Fee(m) => n.handle_update_fee(from_pk, &m),
			Wire::CS(m) => {
				if m.len() == 1 { n.handle_commitment_signed(from_pk, &m[0]) } else { n.handle_commitment_signed_batch_test(from_pk, &m) }
				self.holder_num[to] += 1;
			},
			Wire::RAA(m) => {
				n.handle_revoke_and_ack(from_pk, &m);
				self.revoked[from] += 1;
			},
			Wire::ChannelReady(m) => n.handle_channel_ready(from_pk, &m),
			Wire::AnnSigs(m) => n.handle_announcement_signatures(from_pk, &m),
			Wire::ChanUpdate(m) => n.handle_channel_update(from_pk, &m),
			Wire::Error(m) => n.handle_error(from_pk, &m),
			Wire::Other => {},
		}
		self.drain_msgs();
		self.snapshot();
		true
	}

	/// Deliver at most `limit` messages (round robin over the two directions); true if quiescent.
	fn deliver(&mut self, limit: usize) -> bool {
		let mut k = 0;
		loop {
			let mut any = false;
			for (f, t) in [(0usize, 1usize), (1, 0)] {
				if k >= limit { return false; }
				if self.deliver_one(f, t) { any = true; k += 1; }
			}
			for i in 0..2 {
				if self.nodes[i].node.needs_pending_htlc_processing() {
					self.nodes[i].node.process_pending_htlc_forwards();
					self.drain_msgs();
					any = true;
				}
			}
			if !any { return true; }
			if k > 400 { return false; }
		}
	}

	/// `parts` > 1: a multi-part payment all of whose parts go over the one channel -- several pending
	/// HTLCs with the same payment hash, of the same or different amounts (`vary`) and expiries (`stagger`).
	fn send(&mut self, src: usize, amt: u64, parts: usize, vary: bool, stagger: u32) -> bool {
		let dst = 1 - src;
		let mut paths = Vec::new();
		let mut total = 0u64;
		for k in 0..parts.max(1) {
			let a = if vary && k > 0 { amt * (3 + k as u64) / (5 + k as u64) } else { amt };
			total += a;
			paths.push(Path { hops: vec![RouteHop {
				pubkey: self.nodes[dst].node.get_our_node_id(),
				node_features: NodeFeatures::from_le_bytes(self.nodes[dst].node.node_features().le_flags().to_vec()),
				short_channel_id: self.scid,
				channel_features: ChannelFeatures::empty(),
				fee_msat: a,
				cltv_expiry_delta: TEST_FINAL_CLTV + stagger * k as u32,
				maybe_announced_channel: true,
			}], blinded_tail: None });
		}
		let amt = total;
		let mut pre = [0u8; 32];
		let cnt = self.pays.len() as u64 + 1;
		pre[..8].copy_from_slice(&cnt.to_be_bytes());
		pre[8..16].copy_from_slice(&self.run.to_be_bytes());
		pre[31] = 0x6c;
		let preimage = PaymentPreimage(pre);
		let hash = PaymentHash(bitcoin::hashes::sha256::Hash::hash(&pre).to_byte_array());
		let secret = match self.nodes[dst].node.create_inbound_payment_for_hash(hash, Some(amt), 7200, None, None) {
			Ok(x) => x.0,
			Err(_) => return false,
		};
		let route_params = RouteParameters::from_payment_params_and_value(
			PaymentParameters::from_node_id(self.nodes[dst].node.get_our_node_id(), TEST_FINAL_CLTV), amt);
		let route = Route { paths, route_params };
		let res = self.nodes[src].node.send_payment_with_route(route, hash, RecipientOnionFields::secret_only(secret, amt), PaymentId(hash.0));
		self.pays.push(Pay { preimage, hash, dst });
		self.drain_msgs();
		self.snapshot();
		res.is_ok()
	}

	fn resolve_amount(&self, a: &Value, rng: &mut StdRng) -> u64 {
		if let Some(x) = a.as_u64() { return x; }
		match a.as_str().unwrap_or("big") {
			"dust" => rng.gen_range(2_000..300_000),
			"small" => rng.gen_range(1_200_000..6_000_000),
			"edge" => rng.gen_range(330_000..700_000),
			_ => rng.gen_range(20_000_000..120_000_000),
		}
	}

	fn history_step(&mut self, op: &Value, rng: &mut StdRng) {
		let name = op["op"].as_str().unwrap_or("");
		let mut did = true;
		match name {
			"pay" => {
				let src = op["from"].as_u64().unwrap_or(0) as usize % 2;
				let amt = self.resolve_amount(&op["amt"], rng);
				did = self.send(src, amt, op["parts"].as_u64().unwrap_or(1) as usize, op["vary"].as_bool().unwrap_or(false), op["stagger"].as_u64().unwrap_or(0) as u32);
				if op["deliver"].as_bool().unwrap_or(true) { self.deliver(usize::MAX); }
			},
			"claim" | "fail" => {
				let k = op["pay"].as_u64().unwrap_or(0) as usize;
				if k < self.pays.len() {
					let (dst, pre, hash) = (self.pays[k].dst, self.pays[k].preimage, self.pays[k].hash);
					if name == "claim" {
						self.nodes[dst].node.claim_funds(pre);
						if self.monitor_knows(dst, &hash) { self.known[dst].insert(hash.0); }
					} else {
						self.nodes[dst].node.fail_htlc_backwards(&hash);
					}
					self.drain_msgs();
					if self.nodes[dst].node.needs_pending_htlc_processing() {
						self.nodes[dst].node.process_pending_htlc_forwards();
						self.drain_msgs();
					}
					self.snapshot();
					if op["deliver"].as_bool().unwrap_or(true) { self.deliver(usize::MAX); }
				} else { did = false; }
			},
			"fee" => {
				let fr = op["v"].as_u64().unwrap_or(1000) as u32;
				*self.cfgs[0].fee_estimator.sat_per_kw.lock().unwrap() = fr;
				self.nodes[0].node.timer_tick_occurred();
				self.drain_msgs();
				self.snapshot();
				if op["deliver"].as_bool().unwrap_or(true) { self.deliver(usize::MAX); }
			},
			"deliver" => { self.deliver(op["n"].as_u64().unwrap_or(1) as usize); },
			"deliver_all" => { self.deliver(usize::MAX); },
			"mark" => {
				let o = op["owner"].as_u64().unwrap_or(1) as usize % 2;
				self.mark = Some(self.holder_num[o]);
			},
			_ => { did = false; },
		}
		if did { self.executed += 1; } else { self.skipped += 1; }
	}

	/// Was the preimage of `hash` handed to node `i`'s ChannelMonitor (a PaymentPreimage update step)?
	fn monitor_knows(&self, i: usize, hash: &PaymentHash) -> bool {
		let ups = self.nodes[i].chain_monitor.monitor_updates.lock().unwrap();
		if let Some(list) = ups.get(&self.chan_id) {
			for u in list.iter() {
				for st in update_steps(u) {
					if let StepView::PaymentPreimage { preimage, .. } = st {
						if bitcoin::hashes::sha256::Hash::hash(&preimage).to_byte_array() == hash.0 { return true; }
					}
				}
			}
		}
		false
	}

	// ----------------------------------------------------------------------------- commitments
	/// Every commitment transaction of `owner`, in order, as the other node's monitor learnt it.
	fn build_commit_table(&mut self, owner: usize) {
		let other = 1 - owner;
		let mon = match self.nodes[other].chain_monitor.chain_monitor.get_monitor(self.chan_id) { Ok(m) => m, Err(_) => return };
		let mut v = Vec::new();
		if let Some(ct) = mon.initial_counterparty_commitment_tx() {
			let txid = ct.trust().txid();
			v.push(CommitInfo { ct, txid, dust: Vec::new() });
		}
		let ups = self.nodes[other].chain_monitor.monitor_updates.lock().unwrap();
		if let Some(list) = ups.get(&self.chan_id) {
			for u in list.iter() {
				let cts = mon.counterparty_commitment_txs_from_update(u);
				let mut dust = Vec::new();
				for s in update_steps(u) {
					if let StepView::CounterpartyCommitment { dust_htlcs, .. } = s {
						for h in dust_htlcs { dust.push((PaymentHash(h.payment_hash), h.amount_msat, h.offered)); }
					}
				}
				for ct in cts {
					let txid = ct.trust().txid();
					v.push(CommitInfo { ct, txid, dust: dust.clone() });
				}
			}
		}
		drop(ups);
		v.sort_by_key(|c| INITIAL_COMMITMENT_NUMBER - c.ct.commitment_number());
		v.dedup_by_key(|c| c.ct.commitment_number());
		self.commits[owner] = v;
	}

	fn describe_commit(&mut self, owner: usize, idx: usize) -> Value {
		let (outs, htlcs, to_local, to_remote_val, num, feerate, dust) = {
			let c = &self.commits[owner][idx];
			let tr = c.ct.trust();
			let outs: Vec<TxOut> = tr.built_transaction().transaction.output.clone();
			let htlcs: Vec<_> = c.ct.nondust_htlcs().iter().map(|h| (h.transaction_output_index, h.offered, h.amount_msat, h.cltv_expiry, h.payment_hash.0)).collect();
			(outs, htlcs, tr.revokeable_output_index(), c.ct.to_countersignatory_value_sat(), INITIAL_COMMITMENT_NUMBER - c.ct.commitment_number(), c.ct.negotiated_feerate_per_kw(), c.dust.clone())
		};
		let mut res = Vec::new();
		let mut to_remote_found = false;
		for (v, o) in outs.iter().enumerate() {
			let mut d = json!({"v": v, "k": "anchor", "amt": o.value.to_sat(), "hash": 0, "exp": 0, "msat": 0});
			if let Some(h) = htlcs.iter().find(|h| h.0 == Some(v as u32)) {
				d["k"] = json!(if h.1 { "offered" } else { "received" });
				d["hash"] = json!(self.hash(&h.4));
				d["exp"] = json!(h.3);
				d["msat"] = json!(h.2);
			} else if to_local == Some(v) {
				d["k"] = json!("to_local");
			} else if !to_remote_found && o.value.to_sat() == to_remote_val && to_remote_val > 0 && !(self.chan_type != "static" && o.value.to_sat() <= 330 && o.script_pubkey.is_p2wsh() && to_remote_val <= 330) {
				d["k"] = json!("to_remote");
				to_remote_found = true;
			}
			res.push(d);
		}
		let dustj: Vec<Value> = dust.iter().map(|(h, a, off)| json!({"hash": self.hash(&h.0), "msat": a, "offered": off})).collect();
		json!({"num": num, "feerate": feerate, "outs": res, "dust": dustj})
	}

	// ----------------------------------------------------------------------------- chain view
	fn register_outputs(&mut self, tx: &Transaction) {
		let txid = tx.compute_txid();
		for (i, o) in tx.output.iter().enumerate() {
			self.outs.insert(OutPoint { txid, vout: i as u32 }, o.clone());
		}
		self.txmap.entry(txid).or_insert_with(|| tx.clone());
	}

	fn verify(&self, tx: &Transaction) -> bool {
		if tx.input.iter().any(|i| !self.outs.contains_key(&i.previous_output)) { return false; }
		tx.verify(|op| self.outs.get(op).cloned()).is_ok()
	}

	/// nLockTime / BIP68 finality for inclusion in the block at `h_next`, given that the
	/// transactions in `in_block` are included earlier in that same block.
	fn is_final(&self, tx: &Transaction, h_next: u32, in_block: &HashSet<Txid>) -> bool {
		let lt = tx.lock_time.to_consensus_u32();
		let all_max = tx.input.iter().all(|i| i.sequence == Sequence::MAX);
		if lt != 0 && !all_max && tx.lock_time.is_block_height() && lt >= h_next { return false; }
		if tx.version.0 >= 2 {
			for i in tx.input.iter() {
				let s = i.sequence.0;
				if s & (1 << 31) != 0 { continue; }
				if s & (1 << 22) != 0 { continue; } // time-based: not used by LDK
				let n = s & 0xffff;
				let ch = match self.conf.get(&i.previous_output.txid) {
					Some(h) => *h,
					None => if in_block.contains(&i.previous_output.txid) || self.mempool.iter().any(|m| m.txid == i.previous_output.txid) { h_next } else { return false },
				};
				if ch + n > h_next { return false; }
			}
		}
		true
	}

	fn wallet_script(&self, node: usize) -> ScriptBuf {
		self.nodes[node].wallet_source.get_change_script().unwrap()
	}

	fn handle_bcast(&mut self, by: usize, tx: Transaction, kind: String) {
		let txid = tx.compute_txid();
		let h = self.height();
		let id = self.txi(&txid);
		if self.conf.contains_key(&txid) || self.mempool.iter().any(|m| m.txid == txid) {
			// a transaction seen before, announced again: which outputs it (still) goes after
			let ws = if by < 2 { Some(self.wallet_script(by)) } else { None };
			let mut ins = Vec::new();
			let mut wal = Vec::new();
			for i in tx.input.iter() {
				wal.push(ws.as_ref().map(|s| self.outs.get(&i.previous_output).map(|o| &o.script_pubkey == s).unwrap_or(false)).unwrap_or(false));
				ins.push(self.opj(&i.previous_output));
			}
			self.next_shape = None;
			self.ev(json!({"ev":"bcast","by":by,"tx":id,"dup":true,"h":h,"kind":kind,"ins":ins,"wal":wal,"outs":[],"fee":0,"weight":0,"inval":0,"feerate":0,"pfeerate":0,"locktime":0,"valid":true,"final":true,"sweep":false,"shape":{"ins":[],"outs":[]}}));
			return;
		}
		self.register_outputs(&tx);
		let valid = self.verify(&tx);
		let fin = self.is_final(&tx, self.judged_height() + 1, &HashSet::new());
		let inval: u64 = tx.input.iter().map(|i| self.outs.get(&i.previous_output).map(|o| o.value.to_sat()).unwrap_or(0)).sum();
		let outval: u64 = tx.output.iter().map(|o| o.value.to_sat()).sum();
		let fee = inval as i64 - outval as i64;
		let weight = tx.weight().to_wu();
		let feerate = if fee > 0 { fee as u64 * 1000 / weight } else { 0 };
		// feerate of the package this transaction forms with its unconfirmed parents (CPFP)
		let (mut pfee, mut pweight) = (fee, weight);
		let mut seen_parents: Vec<Txid> = Vec::new();
		for i in tx.input.iter() {
			let pt = i.previous_output.txid;
			if seen_parents.contains(&pt) { continue; }
			if let Some(m) = self.mempool.iter().find(|m| m.txid == pt) {
				pfee += m.fee; pweight += m.weight; seen_parents.push(pt);
			}
		}
		let pfeerate = if pfee > 0 { pfee as u64 * 1000 / pweight } else { 0 };
		let ws = if by < 2 { Some(self.wallet_script(by)) } else if by == AGENT { Some(self.wallet_script(self.agent_owner)) } else { None };
		// (the cheater's own inputs and outputs: its node's wallet or the key the engine signs its
		//  hand-made transactions' fee inputs with)
		let hs = if by == AGENT { Some(harness_script()) } else { None };
		let mine = |s: &ScriptBuf| ws.as_ref().map(|w| w == s).unwrap_or(false) || hs.as_ref().map(|w| w == s).unwrap_or(false);
		let mut ins = Vec::new();
		let mut wal = Vec::new();
		for i in tx.input.iter() {
			let w = self.outs.get(&i.previous_output).map(|o| mine(&o.script_pubkey)).unwrap_or(false);
			wal.push(w);
			ins.push(self.opj(&i.previous_output));
		}
		let outs: Vec<Value> = tx.output.iter().map(|o| {
			json!({"amt": o.value.to_sat(), "wal": mine(&o.script_pubkey)})
		}).collect();
		let shape = self.next_shape.take().unwrap_or(json!({"ins":[],"outs":[]}));
		// does it re-spend an output whose spend is already buried? (counted, not judged)
		let stale = tx.input.iter().any(|i| self.spent.get(&i.previous_output).map(|t| *t != txid && self.conf.get(t).map(|c| *c + 6 <= h + 1).unwrap_or(false)).unwrap_or(false));
		let repl: Vec<usize> = self.mempool.iter().filter(|m| m.tx.input.iter().any(|i| tx.input.iter().any(|j| j.previous_output == i.previous_output))).map(|m| m.id).collect();
		self.ev(json!({"ev":"bcast","by":by,"tx":id,"dup":false,"h":h,"kind":kind,"ins":ins,"wal":wal,"outs":outs,"repl":repl,"stale":stale,
			"fee":fee,"weight":weight,"inval":inval,"feerate":feerate,"pfeerate":pfeerate,"locktime":tx.lock_time.to_consensus_u32(),"valid":valid,"final":fin,"sweep":false,"shape":shape}));
		self.mempool.push(MemTx { tx, txid, id, by, valid, fee, weight, sweep: false });
	}

	/// Everything node `i` did since the last call: broadcasts, monitor events (bump events are
	/// handled by the node's wallet-backed handler, as an application would).
	fn collect(&mut self, i: usize) {
		for _round in 0..6 {
			let mut any = false;
			let txs: Vec<_> = self.nodes[i].tx_broadcaster.txn_broadcasted.lock().unwrap().drain(..).collect();
			let types: Vec<_> = self.nodes[i].tx_broadcaster.txn_types.lock().unwrap().drain(..).collect();
			for (k, tx) in txs.into_iter().enumerate() {
				let ty = types.get(k).map(|t| format!("{:?}", t)).unwrap_or_default();
				let ty: String = ty.chars().take_while(|c| c.is_alphanumeric()).collect();
				self.handle_bcast(i, tx, ty);
				any = true;
			}
			let evs = self.nodes[i].chain_monitor.chain_monitor.get_and_clear_pending_events();
			for e in evs {
				any = true;
				match e {
					Event::SpendableOutputs { outputs, channel_id, .. } => {
						let mut ds = Vec::new();
						self.spend_events += 1;
						let evno = self.spend_events;
						// which of the node's channels the event is about (1: the channel the run is about, 2: the second one)
						let chan = if channel_id == Some(self.chan_id) { 1 } else if self.second.as_ref().map(|s| Some(s.chan_id) == channel_id).unwrap_or(false) { 2 } else { 0 };
						for d in outputs {
							let (k, op, amt, delay) = match &d {
								SpendableOutputDescriptor::StaticOutput { outpoint, output, .. } => ("static", outpoint.into_bitcoin_outpoint(), output.value.to_sat(), 0),
								SpendableOutputDescriptor::DelayedPaymentOutput(x) => ("delayed", x.outpoint.into_bitcoin_outpoint(), x.output.value.to_sat(), x.to_self_delay as u32),
								SpendableOutputDescriptor::StaticPaymentOutput(x) => ("static_payment", x.outpoint.into_bitcoin_outpoint(), x.output.value.to_sat(), 0),
							};
							let real = self.outs.get(&op).map(|o| o.value.to_sat() as i64).unwrap_or(-1);
							let confirmed = self.conf.contains_key(&op.txid);
							ds.push(json!({"k":k,"op":self.opj(&op),"amt":amt,"delay":delay,"real_amt":real,"confirmed":confirmed}));
							self.pending.push(Pending { node: i, desc: d, done: false, evno, sweep: None });
						}
						let h = self.height();
						self.ev(json!({"ev":"spendable","node":i,"h":h,"chan":chan,"outs":ds}));
					},
					Event::BumpTransaction(b) => {
						// what the monitor asks for: which claim (its public id), the channel outputs the
						// requested transaction spends, at which feerate
						let (k, n, target, cid, ops) = match &b {
							BumpTransactionEvent::ChannelClose { package_target_feerate_sat_per_1000_weight, claim_id, commitment_tx, .. } =>
								("close", 0, *package_target_feerate_sat_per_1000_weight, claim_id.0,
								 commitment_tx.input.iter().map(|i| i.previous_output).collect::<Vec<OutPoint>>()),
							BumpTransactionEvent::HTLCResolution { htlc_descriptors, target_feerate_sat_per_1000_weight, claim_id, .. } =>
								("htlc", htlc_descriptors.len(), *target_feerate_sat_per_1000_weight, claim_id.0,
								 htlc_descriptors.iter().map(|d| d.outpoint()).collect::<Vec<OutPoint>>()),
						};
						let h = self.height();
						let c = self.claim(&cid);
						let opsj: Vec<Value> = ops.iter().map(|o| self.opj(o)).collect();
						let est = self.estimates()[i];
						self.ev(json!({"ev":"bump","node":i,"h":h,"kind":k,"n":n,"target":target,"claim":c,"ops":opsj,"est":est}));
						self.nodes[i].bump_tx_handler.handle_event(&b);
					},
					_ => {},
				}
			}
			let _ = self.nodes[i].node.get_and_clear_pending_events();
			let _ = self.nodes[i].node.get_and_clear_pending_msg_events();
			if !any { break; }
		}
	}

	fn collect_agent(&mut self) {
		let owner = self.agent_owner;
		if self.agent.is_none() { return; }
		let got = std::cell::RefCell::new(Vec::new());
		{
			let handler = |e: Event| -> Result<(), lightning::events::ReplayEvent> { got.borrow_mut().push(e); Ok(()) };
			let _ = self.agent.as_ref().unwrap().process_pending_events(&&handler, &self.nodes[owner].logger);
		}
		let evs = got.into_inner();
		for e in evs {
			if let Event::BumpTransaction(b) = e {
				if let BumpTransactionEvent::HTLCResolution { htlc_descriptors, tx_lock_time, .. } = &b {
					for d in htlc_descriptors.iter() {
						self.agent_descs.retain(|x| x.0.outpoint() != d.outpoint());
						self.agent_descs.push((d.clone(), *tx_lock_time));
					}
					if !self.agent_manual {
						let node = &self.nodes[owner];
						let _ = catch_unwind(AssertUnwindSafe(|| node.bump_tx_handler.handle_event(&b)));
					}
				}
			}
		}
		let mut txs: Vec<Transaction> = self.agent_bc.unwrap().txn_broadcasted.lock().unwrap().drain(..).collect();
		self.agent_bc.unwrap().txn_types.lock().unwrap().clear();
		txs.extend(self.nodes[owner].tx_broadcaster.txn_broadcasted.lock().unwrap().drain(..));
		self.nodes[owner].tx_broadcaster.txn_types.lock().unwrap().clear();
		for tx in txs {
			self.handle_bcast(AGENT, tx, "Agent".into());
		}
	}

	fn balances(&mut self, i: usize) -> Value {
		// (of the channel the run is about: ChainMonitor::get_claimable_balances is the concatenation over the
		//  node's monitors; a second closed channel of the node is judged through its broadcasts, reports and sweeps)
		let bals = self.nodes[i].chain_monitor.chain_monitor.get_monitor(self.chan_id).map(|m| m.get_claimable_balances()).unwrap_or_default();
		let mut items = Vec::new();
		for b in bals {
			items.push(match b {
				Balance::ClaimableOnChannelClose { balance_candidates, confirmed_balance_candidate_index, .. } => {
					let a = balance_candidates.get(confirmed_balance_candidate_index).map(|c| c.amount_satoshis).unwrap_or(0);
					json!({"k":"on_close","amt":a,"hh":0,"hash":0,"src":""})
				},
				Balance::ClaimableAwaitingConfirmations { amount_satoshis, confirmation_height, source } => {
					let s = match source { BalanceSource::HolderForceClosed => "holder", BalanceSource::CounterpartyForceClosed => "counterparty", BalanceSource::CoopClose => "coop", BalanceSource::Htlc => "htlc" };
					json!({"k":"awaiting","amt":amount_satoshis,"hh":confirmation_height,"hash":0,"src":s})
				},
				Balance::ContentiousClaimable { amount_satoshis, timeout_height, payment_hash, .. } =>
					json!({"k":"contentious","amt":amount_satoshis,"hh":timeout_height,"hash":self.hash(&payment_hash.0),"src":""}),
				Balance::MaybeTimeoutClaimableHTLC { amount_satoshis, claimable_height, payment_hash, .. } =>
					json!({"k":"maybe_timeout","amt":amount_satoshis,"hh":claimable_height,"hash":self.hash(&payment_hash.0),"src":""}),
				Balance::MaybePreimageClaimableHTLC { amount_satoshis, expiry_height, payment_hash } =>
					json!({"k":"maybe_preimage","amt":amount_satoshis,"hh":expiry_height,"hash":self.hash(&payment_hash.0),"src":""}),
				Balance::CounterpartyRevokedOutputClaimable { amount_satoshis } =>
					json!({"k":"revoked","amt":amount_satoshis,"hh":0,"hash":0,"src":""}),
			});
		}
		items.sort_by_key(|v| v.to_string());
		json!(items)
	}

	/// The application sweeps what was reported and is mature (`OutputSpender::spend_spendable_outputs`), one
	/// call per descriptor / per `SpendableOutputs` event / for everything at once / for random batches in random
	/// order -- whatever channels of the node the descriptors come from.  What was asked and what came back is
	/// recorded; the sweep transaction goes to the mempool.
	fn try_sweeps(&mut self) {
		let h = self.height();
		// a sweep that can never confirm any more (it also spent an output of a transaction that left the chain
		// for good): the application sweeps the outputs that are still there again
		let stuck: Vec<Txid> = self.mempool.iter().filter(|m| m.sweep && !self.could_ever_confirm(m)).map(|m| m.txid).collect();
		if !stuck.is_empty() {
			self.mempool.retain(|m| !stuck.contains(&m.txid));
			for p in self.pending.iter_mut() {
				if p.done && p.sweep.map(|t| stuck.contains(&t)).unwrap_or(false) { p.done = false; p.sweep = None; }
			}
		}
		if self.sweep_defer && !self.sweep_now { return; }
		for node in self.live.clone() {
			let mut ready: Vec<usize> = Vec::new();
			for k in 0..self.pending.len() {
				if self.pending[k].done || self.pending[k].node != node { continue; }
				let op = desc_outpoint(&self.pending[k].desc);
				let delay = desc_delay(&self.pending[k].desc);
				let ch = match self.conf.get(&op.txid) { Some(c) => *c, None => continue };
				if ch + delay > h + 1 { continue; }
				if self.spent.contains_key(&op) { self.pending[k].done = true; continue; }
				ready.push(k);
			}
			if ready.is_empty() { continue; }
			let mode = self.sweep_mode.clone();
			let groups: Vec<Vec<usize>> = match mode.as_str() {
				"all" => vec![ready],
				"event" => {
					let mut g: Vec<Vec<usize>> = Vec::new();
					for k in ready {
						match g.iter_mut().find(|x| self.pending[x[0]].evno == self.pending[k].evno) { Some(x) => x.push(k), None => g.push(vec![k]) }
					}
					g
				},
				"mixed" => {
					let mut r = ready;
					for i in (1..r.len()).rev() { let j = self.srng.gen_range(0..=i); r.swap(i, j); }
					let mut g: Vec<Vec<usize>> = Vec::new();
					while !r.is_empty() {
						let n = self.srng.gen_range(1..=r.len());
						g.push(r.drain(..n).collect());
					}
					g
				},
				_ => ready.into_iter().map(|k| vec![k]).collect(),
			};
			for g in groups { self.sweep(node, &g, h); }
		}
	}

	fn sweep(&mut self, node: usize, idx: &[usize], h: u32) {
		let secp = Secp256k1::new();
		let dest = ScriptBuf::new_p2wpkh(&WPubkeyHash::hash(&[0x77, node as u8]));
		let descs: Vec<SpendableOutputDescriptor> = idx.iter().map(|k| self.pending[*k].desc.clone()).collect();
		for k in idx.iter() { self.pending[*k].done = true; }
		let res = catch_unwind(AssertUnwindSafe(|| {
			let refs: Vec<&SpendableOutputDescriptor> = descs.iter().collect();
			self.nodes[node].keys_manager.backing.spend_spendable_outputs(&refs, Vec::new(), dest.clone(), 253, None, &secp)
		}));
		let req: Vec<Value> = descs.iter().map(|d| self.opj(&desc_outpoint(d))).collect();
		let kinds: Vec<&str> = descs.iter().map(|d| desc_kind(d)).collect();
		// how many different channel signers the call needs
		let mut ids: Vec<[u8; 32]> = descs.iter().filter(|d| !matches!(d, SpendableOutputDescriptor::StaticOutput { .. })).filter_map(|d| desc_keys_id(d)).collect();
		ids.sort(); ids.dedup();
		match res {
			Ok(Ok(tx)) => {
				let txid = tx.compute_txid();
				let id = self.txi(&txid);
				self.register_outputs(&tx);
				let valid = self.verify(&tx);
				let fin = self.is_final(&tx, h + 1, &HashSet::new());
				let inval: u64 = tx.input.iter().map(|i| self.outs.get(&i.previous_output).map(|o| o.value.to_sat()).unwrap_or(0)).sum();
				let outval: u64 = tx.output.iter().map(|o| o.value.to_sat()).sum();
				let ins: Vec<Value> = tx.input.iter().map(|i| self.opj(&i.previous_output)).collect();
				self.ev(json!({"ev":"sweep","node":node,"h":h,"tx":id,"req":req,"kinds":kinds,"signers":ids.len(),"ok":true,"ins":ins,"out_amt":outval,"fee":inval as i64 - outval as i64,"valid":valid,"final":fin}));
				let weight = tx.weight().to_wu();
				for k in idx.iter() { self.pending[*k].sweep = Some(txid); }
				if !self.conf.contains_key(&txid) && !self.mempool.iter().any(|m| m.txid == txid) {
					self.mempool.push(MemTx { tx, txid, id, by: node, valid, fee: inval as i64 - outval as i64, weight, sweep: true });
				}
			},
			_ => {
				// refused (Err) or panicked: recorded as it is; the verdict is the specification's
				self.ev(json!({"ev":"sweep","node":node,"h":h,"tx":0,"req":req,"kinds":kinds,"signers":ids.len(),"ok":false,"ins":[],"out_amt":0,"fee":0,"valid":false,"final":false}));
			},
		}
	}

	fn flush_idle(&mut self) {
		if let Some(f) = self.idle_from.take() {
			let h = self.height();
			self.ev(json!({"ev":"idle","from":f,"h":h}));
		}
	}

	/// After an operation: gather what the nodes did, then log a checkpoint (`state`).
	fn checkpoint(&mut self, block_txs: Option<Vec<usize>>, force: bool) {
		let mark = self.log.len();
		for i in self.live.clone() { self.collect(i); }
		if self.rb_tick > 0 && block_txs.is_some() && self.jump_from.is_none() {
			// Once the network has forgotten claims in a reorganisation, the application's periodic
			// `rebroadcast_pending_claims` ("ensuring reliability if broadcasting fails"; the background
			// processor calls it every 30 seconds) runs after each of the next ten blocks.
			self.rb_tick -= 1;
			for i in self.live.clone() {
				self.ev(json!({"ev":"rebroadcast","node":i}));
				self.nodes[i].chain_monitor.chain_monitor.rebroadcast_pending_claims();
				self.collect(i);
			}
		}
		self.collect_agent();
		self.try_sweeps();
		for i in self.live.clone() {
			// LDK's own log: has the claim machinery refused to (re)generate a claim?
			let n: usize = self.nodes[i].logger.lines.lock().unwrap().iter()
				.filter(|((m, l), _)| *m == "lightning::chain::package" && l.contains("Can't bump new claiming tx")).map(|(_, c)| *c).sum();
			if n > 0 && !self.refused[i] {
				self.refused[i] = true;
				let h = self.height();
				self.ev(json!({"ev":"ldk_log","node":i,"what":"bump_refused","h":h}));
			}
		}
		let mut bals = Vec::new();
		for i in 0..2 {
			if self.live.contains(&i) { bals.push(self.balances(i)); } else { bals.push(json!([])); }
		}
		let sig = json!(bals).to_string();
		let h = self.height();
		let quiet = self.log.len() == mark && sig == self.last_state && !force && block_txs.as_ref().map(|t| t.is_empty()).unwrap_or(true);
		if quiet {
			if block_txs.is_some() && self.idle_from.is_none() { self.idle_from = Some(self.jump_from.unwrap_or(h)); }
			return;
		}
		// something happened: first account for the idle stretch before it
		let new_events: Vec<Value> = self.log.drain(mark..).collect();
		if let Some(j) = self.jump_from {
			// the node was only told about the newest tip: no checkpoint in between
			if let Some(f) = self.idle_from.take() {
				if f < j { self.ev(json!({"ev":"idle","from":f,"h":j - 1})); }
			}
			self.ev(json!({"ev":"jump","from":j,"h":h}));
		} else {
			if let Some(f) = self.idle_from.take() {
				self.ev(json!({"ev":"idle","from":f,"h":h - if block_txs.is_some() { 1 } else { 0 }}));
			}
			if let Some(t) = block_txs { self.ev(json!({"ev":"block","h":h,"txs":t})); }
		}
		self.log.extend(new_events);
		for i in self.live.clone() {
			self.ev(json!({"ev":"bal","node":i,"h":h,"items":bals[i]}));
		}
		// (between the disconnection of blocks and the connection of the new tip a reorganisation is still
		//  being processed: the node's obligations are judged once the new tip is there)
		if !self.in_reorg { self.ev(json!({"ev":"state","h":h})); }
		self.last_state = sig;
	}

	/// Connect `n` empty blocks the way a client that only learns the newest tip does (the
	/// `*SkippingBlocks` delivery styles); only when every live node uses such a style.
	fn skip_empty(&mut self, n: u32) -> bool {
		if n < 2 || !self.live.iter().all(|i| self.nodes[*i].connect_style.borrow().skips_blocks()) { return false; }
		let h0 = self.height();
		for i in self.live.clone() { connect_blocks(&self.nodes[i], n); }
		let blocks: Vec<(bitcoin::Block, u32)> = {
			let b = self.nodes[self.live[0]].blocks.lock().unwrap();
			b[b.len() - n as usize..].to_vec()
		};
		for i in self.frozen.clone() {
			for b in blocks.iter() { self.nodes[i].blocks.lock().unwrap().push(b.clone()); }
		}
		if let Some(a) = self.agent.as_ref() {
			let owner = self.agent_owner;
			let (bc, fe, lg) = (self.agent_bc.unwrap(), self.nodes[owner].fee_estimator, self.nodes[owner].logger);
			for (b, h) in blocks.iter() {
				let _ = catch_unwind(AssertUnwindSafe(|| { a.block_connected(&b.header, &[], *h, bc, fe, lg); }));
			}
		}
		self.jump_from = Some(h0 + 1);
		self.in_reorg = false;
		self.checkpoint(Some(Vec::new()), false);
		self.jump_from = None;
		true
	}

	fn minable(&self, m: &MemTx, h_next: u32, in_block: &HashSet<Txid>, spent_now: &HashSet<OutPoint>) -> bool {
		if !m.valid || self.conf.contains_key(&m.txid) { return false; }
		for i in m.tx.input.iter() {
			let o = &i.previous_output;
			if self.spent.contains_key(o) || spent_now.contains(o) { return false; }
			if !self.conf.contains_key(&o.txid) && !in_block.contains(&o.txid) { return false; }
		}
		self.is_final(&m.tx, h_next, in_block)
	}

	/// Assemble and connect one block. `who`: which senders' transactions may confirm;
	/// `agent_vouts`: restriction on the agent's second-stage transactions (commitment vouts).
	fn mine_block(&mut self, who: &[usize], newest_first: bool, agent_vouts: Option<&Vec<u32>>) {
		let h_next = self.height() + 1;
		let commit_txid = self.confirmed_commit.map(|(o, k)| self.commits[o][k].txid);
		let mut order: Vec<usize> = (0..self.mempool.len()).collect();
		if newest_first { order.reverse(); }
		let mut in_block: HashSet<Txid> = HashSet::new();
		let mut spent_now: HashSet<OutPoint> = HashSet::new();
		let mut chosen: Vec<usize> = Vec::new();
		loop {
			let mut added = false;
			for &k in order.iter() {
				if chosen.contains(&k) { continue; }
				let m = &self.mempool[k];
				if !who.contains(&m.by) { continue; }
				if m.by == AGENT {
					if let (Some(vs), Some(ct)) = (agent_vouts, commit_txid) {
						let spends_commit: Vec<u32> = m.tx.input.iter().filter(|i| i.previous_output.txid == ct).map(|i| i.previous_output.vout).collect();
						if !spends_commit.is_empty() && !spends_commit.iter().all(|v| vs.contains(v)) { continue; }
					}
				}
				if !self.minable(m, h_next, &in_block, &spent_now) { continue; }
				for i in m.tx.input.iter() { spent_now.insert(i.previous_output); }
				in_block.insert(m.txid);
				chosen.push(k);
				added = true;
			}
			if !added { break; }
		}
		// parents before children
		let mut txs: Vec<Transaction> = Vec::new();
		let mut placed: HashSet<Txid> = HashSet::new();
		let mut rest: Vec<usize> = chosen.clone();
		while !rest.is_empty() {
			let mut next = Vec::new();
			for &k in rest.iter() {
				let m = &self.mempool[k];
				if m.tx.input.iter().all(|i| !in_block.contains(&i.previous_output.txid) || placed.contains(&i.previous_output.txid)) {
					txs.push(m.tx.clone());
					placed.insert(m.txid);
				} else { next.push(k); }
			}
			if next.len() == rest.len() { break; }
			rest = next;
		}
		self.connect(txs);
	}

	fn connect(&mut self, txs: Vec<Transaction>) {
		let h_next = self.height() + 1;
		let prev = self.tip_hash();
		// a confirmed commitment transaction is described once, when it confirms
		for tx in txs.iter() {
			if tx.input.iter().any(|i| i.previous_output == self.funding) && self.commit_logged != Some(tx.compute_txid()) {
				let txid = tx.compute_txid();
				let mut found = None;
				for o in 0..2 {
					if let Some(k) = self.commits[o].iter().position(|c| c.txid == txid) { found = Some((o, k)); }
				}
				if let Some((o, k)) = found {
					let mut d = self.describe_commit(o, k);
					d["ev"] = json!("commit");
					d["owner"] = json!(o);
					d["tx"] = json!(self.txi(&txid));
					d["revoked"] = json!((k as u64) < self.revoked[o]);
					d["h"] = json!(h_next);
					let known: Vec<Vec<usize>> = (0..2).map(|n| { let hs: Vec<[u8; 32]> = self.known[n].iter().cloned().collect(); let mut v: Vec<usize> = hs.iter().map(|h| self.hash(h)).collect(); v.sort(); v }).collect();
					d["known"] = json!(known);
					self.flush_idle();
					self.ev(d);
					self.confirmed_commit = Some((o, k));
				} else {
					self.flush_idle();
					let id = self.txi(&txid);
					self.ev(json!({"ev":"commit_unknown","tx":id}));
				}
				self.commit_logged = Some(txid);
			}
		}
		// (blocks mined after a reorganisation differ from the ones they replace)
		let block = create_dummy_block(prev, h_next + self.fork * 1_000_000, txs.clone());
		for i in self.live.clone() {
			connect_block(&self.nodes[i], &block);
		}
		for i in self.frozen.clone() {
			self.nodes[i].blocks.lock().unwrap().push((block.clone(), h_next));
			let ws = self.wallet_script(i);
			for tx in &block.txdata {
				for input in &tx.input { self.nodes[i].wallet_source.remove_utxo(input.previous_output); }
				for (idx, output) in tx.output.iter().enumerate() {
					if output.script_pubkey == ws { self.nodes[i].wallet_source.add_utxo(tx.clone(), idx as u32); }
				}
			}
		}
		let mut ids = Vec::new();
		for tx in txs.iter() {
			let txid = tx.compute_txid();
			self.register_outputs(tx);
			self.conf.insert(txid, h_next);
			for i in tx.input.iter() { self.spent.insert(i.previous_output, txid); }
			ids.push(self.txi(&txid));
		}
		let mut k = 0;
		while k < self.mempool.len() {
			if self.conf.contains_key(&self.mempool[k].txid) { let m = self.mempool.remove(k); self.mined.push(m); } else { k += 1; }
		}
		if let Some(a) = self.agent.as_ref() {
			let owner = self.agent_owner;
			let txdata: Vec<_> = block.txdata.iter().enumerate().collect();
			let bc = self.agent_bc.unwrap();
			let fe = self.nodes[owner].fee_estimator;
			let lg = self.nodes[owner].logger;
			let _ = catch_unwind(AssertUnwindSafe(|| { a.block_connected(&block.header, &txdata, h_next, bc, fe, lg); }));
		}
		self.in_reorg = false;
		self.checkpoint(Some(ids), false);
	}

	fn chain_step(&mut self, op: &Value, rng: &mut StdRng) {
		let name = op["op"].as_str().unwrap_or("");
		let mut did = true;
		let who: Vec<usize> = match &op["who"] {
			Value::Array(a) => a.iter().filter_map(|x| x.as_u64()).map(|x| x as usize).collect(),
			Value::String(s) if s == "none" => vec![],
			_ => vec![0, 1, AGENT, HARNESS],
		};
		let newest = op["prefer"].as_str().unwrap_or("new") == "new";
		let htlc_vouts = |s: &Net, sel: &Value| -> Option<Vec<u32>> {
			let (o, k) = s.confirmed_commit?;
			let hv: Vec<u32> = s.commits[o][k].ct.nondust_htlcs().iter().filter_map(|h| h.transaction_output_index).collect();
			match sel {
				Value::Array(a) => Some(a.iter().filter_map(|x| x.as_u64()).filter_map(|x| if hv.is_empty() { None } else { Some(hv[x as usize % hv.len()]) }).collect()),
				_ => None,
			}
		};
		// the same restriction given by payment index instead of HTLC position
		let pay_vouts = |s: &Net, sel: &Value| -> Option<Vec<u32>> {
			let (o, k) = s.confirmed_commit?;
			let a = sel.as_array()?;
			let mut res = Vec::new();
			for x in a.iter().filter_map(|x| x.as_u64()) {
				if let Some(p) = s.pays.get(x as usize) {
					for h in s.commits[o][k].ct.nondust_htlcs().iter() {
						if h.payment_hash == p.hash { if let Some(v) = h.transaction_output_index { res.push(v); } }
					}
				}
			}
			Some(res)
		};
		match name {
			"mine" => {
				let n = op["n"].as_u64().unwrap_or(1);
				let av = if op["agent_pays"].is_array() { pay_vouts(self, &op["agent_pays"]) } else { htlc_vouts(self, &op["agent_htlcs"]) };
				if who.is_empty() && self.skip_empty(n as u32) {
					// delivered as one jump of the tip
				} else {
					for _ in 0..n { self.mine_block(&who, newest, av.as_ref()); }
				}
			},
			"to_expiry" => {
				// advance until the chosen HTLC of the confirmed commitment has expired (+ off)
				let av = if op["agent_pays"].is_array() { pay_vouts(self, &op["agent_pays"]) } else { htlc_vouts(self, &op["agent_htlcs"]) };
				let target = self.confirmed_commit.and_then(|(o, k)| {
					let hs = self.commits[o][k].ct.nondust_htlcs();
					if hs.is_empty() { None } else { Some(hs[op["htlc"].as_u64().unwrap_or(0) as usize % hs.len()].cltv_expiry) }
				});
				match target {
					Some(t) => {
						let t = (t as i64 + op["off"].as_i64().unwrap_or(0)) as u32;
						let mut guard = 0;
						if who.is_empty() && t > self.height() + 1 {
							let n = t - self.height();
							self.skip_empty(n.min(300));
						}
						while self.height() < t && guard < 400 { self.mine_block(&who, newest, av.as_ref()); guard += 1; }
					},
					None => did = false,
				}
			},
			"preimage" => {
				let k = op["pay"].as_u64().unwrap_or(0) as usize;
				if k < self.pays.len() && self.live.contains(&self.pays[k].dst) {
					let (dst, pre, hash) = (self.pays[k].dst, self.pays[k].preimage, self.pays[k].hash);
					let h = self.height();
					let hj = self.hash(&hash.0);
					self.nodes[dst].node.claim_funds(pre);
					if self.monitor_knows(dst, &hash) && !self.known[dst].contains(&hash.0) {
						self.flush_idle();
						self.ev(json!({"ev":"preimage","node":dst,"hash":hj,"h":h}));
						self.known[dst].insert(hash.0);
						self.checkpoint(None, true);
					} else { did = false; }
				} else { did = false; }
			},
			"feerate" => {
				let i = op["node"].as_u64().unwrap_or(0) as usize % 2;
				let v = op["v"].as_u64().unwrap_or(253) as u32;
				*self.cfgs[i].fee_estimator.sat_per_kw.lock().unwrap() = v;
				self.flush_idle();
				self.ev(json!({"ev":"feerate","node":i,"v":v}));
			},
			"rebroadcast" => {
				let i = op["node"].as_u64().unwrap_or(0) as usize % 2;
				if self.live.contains(&i) {
					self.flush_idle();
					self.ev(json!({"ev":"rebroadcast","node":i}));
					self.nodes[i].chain_monitor.chain_monitor.rebroadcast_pending_claims();
					self.checkpoint(None, true);
				} else { did = false; }
			},
			"reload" => {
				let i = op["node"].as_u64().unwrap_or(0) as usize % 2;
				if self.live.contains(&i) {
					self.flush_idle();
					self.ev(json!({"ev":"reload","node":i}));
					self.reload(i);
					self.checkpoint(None, true);
				} else { did = false; }
			},
			"reorg" => {
				// The newest blocks are replaced by other blocks. Only blocks above every transaction
				// confirmed so far are taken back (whatever is confirmed stays confirmed).
				let h = self.height();
				// ... and the chain is not taken back below an HTLC expiry it had reached (a claim that
				// was final when it was made stays final).
				let mut top = self.conf.values().cloned().max().unwrap_or(h);
				if let Some((o, k)) = self.confirmed_commit {
					for x in self.commits[o][k].ct.nondust_htlcs().iter() {
						if x.cltv_expiry <= h + 1 { top = top.max(x.cltv_expiry); }
					}
				}
				let d = (op["depth"].as_u64().unwrap_or(1) as u32).min(h.saturating_sub(top));
				if d == 0 || self.agent.is_some() || self.confirmed_commit.is_none() { did = false; } else {
					self.flush_idle();
					for i in self.live.clone() { disconnect_blocks(&self.nodes[i], d); }
					for i in self.frozen.clone() {
						for _ in 0..d { self.nodes[i].blocks.lock().unwrap().pop(); }
					}
					self.fork += 1;
					self.hwm = self.hwm.max(h);
					self.ev(json!({"ev":"rewind","from":h,"h":h - d,"unconf":[],"evicted":[],"keep":true}));
					self.checkpoint(None, true);
					for _ in 0..op["add"].as_u64().unwrap_or(1).max(1) { self.connect(Vec::new()); }
				}
			},
			"cheat" => {
				// a hand-made second-stage transaction of the cheater (anchor channels)
				// (position k of `ins` / `outs` refers to the k-th entry of `pays`: keep the positions of
				//  payments that have no output in this commitment)
				let vs: Option<Vec<u32>> = if op["pays"].is_array() {
					self.confirmed_commit.map(|(o, k)| op["pays"].as_array().unwrap().iter().map(|x| {
						let p = self.pays.get(x.as_u64().unwrap_or(u64::MAX) as usize);
						p.and_then(|p| self.commits[o][k].ct.nondust_htlcs().iter().find(|h| h.payment_hash == p.hash).and_then(|h| h.transaction_output_index)).unwrap_or(u32::MAX)
					}).collect())
				} else { htlc_vouts(self, &op["htlcs"]) };
				did = match vs { Some(vs) => self.cheat_tx(&vs, &op["ins"], &op["outs"]), None => false };
			},
			"unwind" => {
				// the chain is taken back below a transaction of the run
				let agent_commit = self.confirmed_commit.map(|(o, k)| self.commits[o][k].txid);
				let target = op["target"].as_str().unwrap_or("commit");
				let hts: Vec<u32> = match target {
					"commit" => agent_commit.and_then(|t| self.conf.get(&t).cloned()).into_iter().collect(),
					"stage2" => self.mined.iter().filter(|m| m.by == AGENT && Some(m.txid) != agent_commit).filter_map(|m| self.conf.get(&m.txid).cloned()).collect(),
					"tip" => vec![self.height() + 1],
					_ => self.mined.iter().filter(|m| m.by < 2 && !m.sweep && Some(m.txid) != agent_commit).filter_map(|m| self.conf.get(&m.txid).cloned()).collect(),
				};
				did = match hts.iter().min() {
					Some(m) => {
						let to = (*m as i64 - 1 - op["extra"].as_i64().unwrap_or(0)).max(self.open_h as i64) as u32;
						self.unwind(to, op["keep"].as_bool().unwrap_or(false))
					},
					None => false,
				};
			},
			"sweep" => {
				// the application sweeps now what it has been handed so far (deferred sweeping)
				self.flush_idle();
				self.sweep_now = true;
				self.checkpoint(None, true);
				if op["once"].as_bool().unwrap_or(true) { self.sweep_now = false; }
			},
			"close2" => {
				did = self.close2(op["kind"].as_str().unwrap_or("holder"));
			},
			"style" => {
				let i = op["node"].as_u64().unwrap_or(0) as usize % 2;
				*self.nodes[i].connect_style.borrow_mut() = style_of(op["v"].as_u64().unwrap_or(0) as usize);
			},
			"settle" => {
				let max = op["max"].as_u64().unwrap_or(420);
				let mut quiet = 0;
				// (a second channel that was never taken to the chain by the script goes there now)
				if self.second.as_ref().map(|s| !s.closed).unwrap_or(false) { let k = self.srng.gen_range(0..2); self.close2(if k == 0 { "holder" } else { "counterparty" }); }
				for round in 0..max {
					self.mine_block(&[0, 1, AGENT, HARNESS], true, None);
					let empty = self.live.clone().iter().all(|i| self.nodes[*i].chain_monitor.chain_monitor.get_claimable_balances(&[]).iter().all(|b| matches!(b, Balance::MaybePreimageClaimableHTLC { .. })));
					// deferred sweeping: once every balance has drained into SpendableOutputs events (or, at the
					// latest, after 250 blocks) the application sweeps what it was handed
					if self.sweep_defer && !self.sweep_now && (empty || round >= 250) { self.sweep_now = true; }
					let none_pending = self.pending.iter().all(|p| p.done) && self.mempool.iter().all(|m| m.by >= 2 || !m.valid || !self.could_ever_confirm(m));
					if empty && none_pending { quiet += 1; } else { quiet = 0; }
					if quiet >= 3 { break; }
				}
			},
			_ => { did = false; },
		}
		let _ = rng;
		if did { self.executed += 1; } else { self.skipped += 1; }
	}

	/// Assemble, sign and announce one second-stage transaction of the cheater: `ins` / `outs` give for
	/// every input / output the position (1-based) in `vouts` of the HTLC it belongs to, 0 = the
	/// cheater's own coin / output.  HTLCs that cannot be spent now (no descriptor yet, already spent, a
	/// different nLockTime than the first) are left out together with their slots.
	fn cheat_tx(&mut self, vouts: &Vec<u32>, ins: &Value, outs: &Value) -> bool {
		let (o, k) = match self.confirmed_commit { Some(x) => x, None => return false };
		if self.agent.is_none() { return false; }
		let ctxid = self.commits[o][k].txid;
		let secp = Secp256k1::new();
		let mut ins: Vec<usize> = ins.as_array().map(|a| a.iter().map(|x| x.as_u64().unwrap_or(0) as usize).collect()).unwrap_or_default();
		let mut outs: Vec<usize> = outs.as_array().map(|a| a.iter().map(|x| x.as_u64().unwrap_or(0) as usize).collect()).unwrap_or_default();
		let mut descs: Vec<Option<(HTLCDescriptor, LockTime)>> = Vec::new();
		let mut lt: Option<LockTime> = None;
		for v in vouts.iter() {
			let op = OutPoint { txid: ctxid, vout: *v };
			let mut d = self.agent_descs.iter().find(|d| d.0.outpoint() == op).cloned();
			if self.spent.contains_key(&op) || descs.iter().any(|x: &Option<(HTLCDescriptor, LockTime)>| x.as_ref().map(|y| y.0.outpoint() == op).unwrap_or(false)) { d = None; }
			if let Some(x) = d.as_ref() {
				if lt.is_none() { lt = Some(x.1); }
				if lt != Some(x.1) { d = None; }
			}
			descs.push(d);
		}
		// drop the slots of the HTLCs that are left out
		for (pos, d) in descs.iter().enumerate() {
			if d.is_none() {
				let tag = pos + 1;
				let (mut i, mut rm) = (0, Vec::new());
				while i < ins.len().max(outs.len()) {
					if ins.get(i) == Some(&tag) || outs.get(i) == Some(&tag) { rm.push(i); }
					i += 1;
				}
				for i in rm.into_iter().rev() {
					if i < ins.len() { ins.remove(i); }
					if i < outs.len() { outs.remove(i); }
				}
			}
		}
		if !ins.iter().any(|x| *x > 0) { return false; }
		// SIGHASH_SINGLE: the output at the position of an HTLC input is that HTLC's output
		for (i, x) in ins.iter().enumerate() { if *x > 0 && outs.get(i) != Some(x) { return false; } }
		for (i, x) in outs.iter().enumerate() { if *x > 0 && ins.get(i) != Some(x) { return false; } }
		let n_own_in = ins.iter().filter(|x| **x == 0).count();
		if self.fee_next + n_own_in > self.fee_utxos.len() { return false; }
		let mut tx = Transaction { version: if self.chan_type == "zerofee" { Version::non_standard(3) } else { Version::TWO },
			lock_time: lt.unwrap_or(LockTime::ZERO), input: Vec::new(), output: Vec::new() };
		let mut own_in: Vec<(usize, TxOut)> = Vec::new();
		for (i, x) in ins.iter().enumerate() {
			if *x > 0 {
				tx.input.push(descs[*x - 1].as_ref().unwrap().0.unsigned_tx_input());
			} else {
				let (op, o) = self.fee_utxos[self.fee_next].clone();
				self.fee_next += 1;
				tx.input.push(TxIn { previous_output: op, script_sig: ScriptBuf::new(), sequence: Sequence::ENABLE_RBF_NO_LOCKTIME, witness: Witness::new() });
				own_in.push((i, o));
			}
		}
		let own_total: u64 = own_in.iter().map(|x| x.1.value.to_sat()).sum();
		let n_own_out = outs.iter().filter(|x| **x == 0).count() as u64;
		let each = if n_own_out > 0 { own_total.saturating_sub(1_000) / n_own_out } else { 0 };
		for x in outs.iter() {
			if *x > 0 { tx.output.push(descs[*x - 1].as_ref().unwrap().0.tx_output(&secp)); }
			else { tx.output.push(TxOut { value: Amount::from_sat(each), script_pubkey: harness_script() }); }
		}
		let owner = self.agent_owner;
		for (i, x) in ins.iter().enumerate() {
			if *x == 0 { continue; }
			let d = &descs[*x - 1].as_ref().unwrap().0;
			let signer = self.nodes[owner].keys_manager.derive_channel_signer(d.channel_derivation_parameters.keys_id);
			let sig = match signer.sign_holder_htlc_transaction(&tx, i, d, &secp) { Ok(s) => s, Err(_) => return false };
			let ws = d.witness_script(&secp);
			tx.input[i].witness = d.tx_input_witness(&sig, &ws);
		}
		let sk = harness_key();
		let pk = sk.public_key(&secp);
		for (i, o) in own_in.iter() {
			let sighash = SighashCache::new(&tx).p2wpkh_signature_hash(*i, &o.script_pubkey, o.value, EcdsaSighashType::All).unwrap();
			let signature = secp.sign_ecdsa(&Message::from_digest(sighash.to_byte_array()), &sk);
			let bsig = bitcoin::ecdsa::Signature { signature, sighash_type: EcdsaSighashType::All };
			tx.input[*i].witness = Witness::p2wpkh(&bsig, &pk);
		}
		self.flush_idle();
		self.next_shape = Some(json!({"ins": ins, "outs": outs}));
		self.handle_bcast(AGENT, tx, "AgentHTLC".into());
		true
	}

	/// Take the chain back to height `to`.  Transactions confirmed above it are unconfirmed again: those of
	/// the cheater / the harness (and sweeps, which the application would simply announce again) go
	/// back to the mempool; with `keep` the claims of the nodes under test do so as well, otherwise the
	/// network forgets every claim that hangs on a transaction which left the chain (no mempool is obliged
	/// to keep the descendants of a reorganised-out transaction).
	fn unwind(&mut self, to: u32, keep: bool) -> bool {
		let h = self.height();
		// ANTI_REORG_DELAY is a library-wide security assumption ("if a reorg deeper than this number of
		// blocks occurs ... claims made by and balances exposed by a ChannelMonitor may be incorrect"):
		// no transaction of the run with ANTI_REORG_DELAY or more confirmations is ever unconfirmed
		// (counted on the longest chain the nodes have seen so far)
		let top = self.hwm.max(h);
		let mut to = to.max(top.saturating_sub(6));
		for (t, c) in self.conf.iter() {
			if self.ids.contains_key(t) && *c > to && top + 1 - *c >= 6 { to = to.max(*c); }
		}
		// ... and the chain is not taken back below an HTLC expiry it had reached (a claim that was final
		// when it was made stays final)
		if let Some((o, k)) = self.confirmed_commit {
			for x in self.commits[o][k].ct.nondust_htlcs().iter() {
				if x.cltv_expiry <= h + 1 { to = to.max(x.cltv_expiry); }
			}
		}
		if to >= h || to < self.open_h { return false; }
		let d = h - to;
		self.flush_idle();
		for i in self.live.clone() {
			disconnect_blocks(&self.nodes[i], d);
			// a client that reports unconfirmed transactions one by one (`transaction_unconfirmed`)
			// names the new tip afterwards (Confirm: "best_block_updated ... whenever a new chain tip
			// becomes available")
			if matches!(*self.nodes[i].connect_style.borrow(), ConnectStyle::BestBlockFirstReorgsOnlyTip | ConnectStyle::TransactionsFirstReorgsOnlyTip) {
				let prev = self.nodes[i].blocks.lock().unwrap().last().unwrap().clone();
				self.nodes[i].chain_monitor.chain_monitor.best_block_updated(&prev.0.header, prev.1);
				self.nodes[i].node.best_block_updated(&prev.0.header, prev.1);
			}
		}
		for i in self.frozen.clone() {
			for _ in 0..d { self.nodes[i].blocks.lock().unwrap().pop(); }
		}
		let tip = self.tip_hash();
		if let Some(a) = self.agent.as_ref() {
			let owner = self.agent_owner;
			let (bc, fe, lg) = (self.agent_bc.unwrap(), self.nodes[owner].fee_estimator, self.nodes[owner].logger);
			let _ = catch_unwind(AssertUnwindSafe(|| { a.blocks_disconnected(BlockLocator::new(tip, to), bc, fe, lg); }));
		}
		self.fork += 1;
		self.hwm = self.hwm.max(h);
		// the harness' view of the chain
		let gone: HashSet<Txid> = self.conf.iter().filter(|(t, c)| **c > to && self.ids.contains_key(*t)).map(|(t, _)| *t).collect();
		for t in gone.iter() { self.conf.remove(t); }
		// (claims that had lost an input to a transaction which now left the chain: the network dropped
		//  them when that transaction confirmed and does not bring them back)
		let freed: HashSet<OutPoint> = self.spent.iter().filter(|(_, t)| gone.contains(*t)).map(|(o, _)| *o).collect();
		self.spent.retain(|_, t| !gone.contains(t));
		let mut back: Vec<MemTx> = Vec::new();
		let mut k = 0;
		while k < self.mined.len() {
			if gone.contains(&self.mined[k].txid) { back.push(self.mined.remove(k)); } else { k += 1; }
		}
		back.append(&mut self.mempool);
		let mut dead: HashSet<Txid> = HashSet::new();
		if !keep {
			loop {
				let mut more = false;
				for m in back.iter() {
					if m.by >= 2 || m.sweep || dead.contains(&m.txid) { continue; }
					if m.tx.input.iter().any(|i| gone.contains(&i.previous_output.txid) || dead.contains(&i.previous_output.txid)
						|| (freed.contains(&i.previous_output) && !gone.contains(&m.txid))) {
						dead.insert(m.txid);
						more = true;
					}
				}
				if !more { break; }
			}
		}
		let mut unconf: Vec<usize> = gone.iter().map(|t| self.ids[t]).collect();
		unconf.sort();
		let mut evicted: Vec<usize> = dead.iter().map(|t| self.ids[t]).collect();
		evicted.sort();
		self.mempool = back.into_iter().filter(|m| !dead.contains(&m.txid)).collect();
		// the wallets: coins made by transactions that left the chain are gone, coins they spent are back
		for i in 0..2 {
			let ws = self.wallet_script(i);
			for t in gone.iter() {
				let tx = match self.txmap.get(t) { Some(x) => x.clone(), None => continue };
				for (v, o) in tx.output.iter().enumerate() {
					if o.script_pubkey == ws { self.nodes[i].wallet_source.remove_utxo(OutPoint { txid: *t, vout: v as u32 }); }
				}
				for inp in tx.input.iter() {
					let po = inp.previous_output;
					let is_mine = self.outs.get(&po).map(|o| o.script_pubkey == ws).unwrap_or(false);
					if is_mine && self.conf.contains_key(&po.txid) && !self.spent.contains_key(&po) {
						if let Some(ptx) = self.txmap.get(&po.txid) {
							self.nodes[i].wallet_source.remove_utxo(po);
							self.nodes[i].wallet_source.add_utxo(ptx.clone(), po.vout);
						}
					}
				}
			}
		}
		// reports of outputs that are not on the chain any more are void (the node reports them again)
		let conf = &self.conf;
		self.pending.retain(|p| {
			let op = match &p.desc {
				SpendableOutputDescriptor::StaticOutput { outpoint, .. } => outpoint.into_bitcoin_outpoint(),
				SpendableOutputDescriptor::DelayedPaymentOutput(x) => x.outpoint.into_bitcoin_outpoint(),
				SpendableOutputDescriptor::StaticPaymentOutput(x) => x.outpoint.into_bitcoin_outpoint(),
			};
			conf.contains_key(&op.txid)
		});
		if !evicted.is_empty() { self.rb_tick = 10; }
		self.in_reorg = true;
		self.ev(json!({"ev":"rewind","from":h,"h":to,"unconf":unconf,"evicted":evicted,"keep":keep}));
		self.checkpoint(None, true);
		true
	}

	fn could_ever_confirm(&self, m: &MemTx) -> bool {
		m.tx.input.iter().all(|i| {
			let o = &i.previous_output;
			if self.spent.contains_key(o) { return false; }
			if self.conf.contains_key(&o.txid) { return true; }
			match self.mempool.iter().find(|p| p.txid == o.txid) {
				Some(p) => p.valid && self.could_ever_confirm(p),
				None => false,
			}
		})
	}

	fn reload(&mut self, i: usize) {
		let mgr_bytes = self.nodes[i].node.encode();
		let mut mons: Vec<Vec<u8>> = vec![self.nodes[i].chain_monitor.chain_monitor.get_monitor(self.chan_id).unwrap().encode()];
		if let Some(s2) = self.second.as_ref() {
			if s2.hub == i { mons.push(self.nodes[i].chain_monitor.chain_monitor.get_monitor(s2.chan_id).unwrap().encode()); }
		}
		let mon_refs: Vec<&[u8]> = mons.iter().map(|m| &m[..]).collect();
		let persister = leak(TestPersister::new());
		let cm = leak(TestChainMonitor::new(Some(self.nodes[i].chain_source), self.nodes[i].tx_broadcaster, self.nodes[i].logger,
			self.nodes[i].fee_estimator, persister, self.nodes[i].keys_manager));
		let cfg = self.nodes[i].node.get_current_config();
		self.nodes[i].chain_monitor = cm;
		let mgr = leak(_reload_node(&self.nodes[i], cfg, &mgr_bytes, &mon_refs[..], None));
		self.nodes[i].node = mgr;
		self.nodes[i].onion_messenger.set_offers_handler(mgr);
		self.nodes[i].onion_messenger.set_async_payments_handler(mgr);
	}

	// ----------------------------------------------------------------------------- closing
	fn monitor_copy(&self, owner: usize, num: u64) -> Option<ChannelMonitor<TestChannelSigner>> {
		let bytes = self.snaps[owner].get(&num)?;
		let km = self.nodes[owner].keys_manager;
		let mut rd = &bytes[..];
		<(BlockLocator, ChannelMonitor<TestChannelSigner>)>::read(&mut rd, (km, km)).ok().map(|x| x.1)
	}

	fn disconnect(&mut self) {
		let (pa, pb) = (self.nodes[0].node.get_our_node_id(), self.nodes[1].node.get_our_node_id());
		self.nodes[0].node.peer_disconnected(pb);
		self.nodes[1].node.peer_disconnected(pa);
		self.queues.clear();
		for i in 0..2 {
			let _ = self.nodes[i].node.get_and_clear_pending_msg_events();
			let _ = self.nodes[i].node.get_and_clear_pending_events();
		}
	}

	/// Returns false if the script's close cannot be realised in this history.
	fn close(&mut self, c: &Value) -> bool {
		let kind = c["kind"].as_str().unwrap_or("force");
		self.build_commit_table(0);
		self.build_commit_table(1);
		// seed the UTXO view with everything mined so far (funding, wallet reserves)
		let blocks: Vec<_> = self.nodes[0].blocks.lock().unwrap().iter().map(|b| (b.0.clone(), b.1)).collect();
		for (b, h) in blocks.iter() {
			for tx in b.txdata.iter() {
				self.register_outputs(tx);
				self.conf.insert(tx.compute_txid(), *h);
			}
		}
		let fund = self.funding.txid;
		let fid = self.txi(&fund);
		debug_assert!(fid == 1);
		let delays: Vec<u64> = (0..2).map(|i| self.nodes[i].node.list_channels().get(0).and_then(|c| c.force_close_spend_delay).unwrap_or(0) as u64).collect();
		let styles: Vec<String> = (0..2).map(|i| format!("{:?}", *self.nodes[i].connect_style.borrow())).collect();
		let h0 = self.nodes[0].best_block_info().1;
		self.open_h = h0;
		let value = self.outs.get(&self.funding).map(|o| o.value.to_sat()).unwrap_or(0);
		// what the fee estimators say when the channel goes to chain
		if let Some(a) = c["est"].as_array() {
			for (i, v) in a.iter().enumerate().take(2) {
				if let Some(v) = v.as_u64() { *self.cfgs[i].fee_estimator.sat_per_kw.lock().unwrap() = v as u32; }
			}
		}
		let est = self.estimates();
		match kind {
			"revoked" => {
				let owner = c["owner"].as_u64().unwrap_or(1) as usize % 2;
				let r = self.revoked[owner];
				if r == 0 { return false; }
				let k = match (&c["k"], self.mark) {
					(Value::String(s), Some(m)) if s == "mark" && m < r => m,
					(Value::String(_), _) => return false,
					(v, _) => v.as_u64().unwrap_or(0) % r,
				};
				let copy = match self.monitor_copy(owner, k) { Some(m) => m, None => return false };
				let txs = copy.unsafe_get_latest_holder_commitment_txn(&self.nodes[owner].logger);
				if (k as usize) >= self.commits[owner].len() || txs[0].compute_txid() != self.commits[owner][k as usize].txid { return false; }
				self.live = vec![1 - owner];
				self.frozen = vec![owner];
				self.agent_owner = owner;
				self.agent_bc = Some(leak(TestBroadcaster::with_blocks(self.nodes[owner].blocks.clone())));
				self.agent = Some(copy);
				self.disconnect();
				self.ev(json!({"ev":"open","kind":"revoked","chan_type":self.chan_type,"value":value,"live":self.live,"owner":owner,"k":k,"n_revoked":r,
					"delays":delays,"styles":styles,"h":h0,"anti_reorg":6,"est":est}));
				self.nodes[owner].tx_broadcaster.txn_broadcasted.lock().unwrap().clear();
				self.nodes[owner].tx_broadcaster.txn_types.lock().unwrap().clear();
				for (q, t) in txs.iter().enumerate() {
					self.handle_bcast(AGENT, t.clone(), if q == 0 { "RevokedCommitment".into() } else { "AgentHTLC".into() });
				}
			},
			"counterparty" => {
				let owner = c["owner"].as_u64().unwrap_or(1) as usize % 2;
				let prev = c["which"].as_str().unwrap_or("current") == "previous";
				let n = self.holder_num[owner];
				let num = if prev { if n == 0 || self.revoked[owner] >= n { return false; } n - 1 } else { n };
				let copy = match self.monitor_copy(owner, num) { Some(m) => m, None => return false };
				let txs = copy.unsafe_get_latest_holder_commitment_txn(&self.nodes[owner].logger);
				if (num as usize) >= self.commits[owner].len() || txs[0].compute_txid() != self.commits[owner][num as usize].txid { return false; }
				// (`owner_live`: the holder of the previous, still unrevoked commitment is a node under test
				//  too -- its own earlier broadcast confirms after it has moved on to the next state)
				if prev && !c["owner_live"].as_bool().unwrap_or(false) { self.live = vec![1 - owner]; self.frozen = vec![owner]; } else { self.live = vec![0, 1]; self.frozen = vec![]; }
				self.disconnect();
				self.ev(json!({"ev":"open","kind": if prev {"cp_previous"} else {"cp_current"},"chan_type":self.chan_type,"value":value,"live":self.live,"owner":owner,"k":num,"n_revoked":self.revoked[owner],
					"delays":delays,"styles":styles,"h":h0,"anti_reorg":6,"est":est}));
				self.handle_bcast(HARNESS, txs[0].clone(), "Commitment".into());
			},
			_ => {
				let owner = c["node"].as_u64().unwrap_or(0) as usize % 2;
				let deliver_error = c["deliver_error"].as_bool().unwrap_or(false);
				self.live = vec![0, 1];
				self.frozen = vec![];
				if !deliver_error { self.disconnect(); }
				self.ev(json!({"ev":"open","kind":"force","chan_type":self.chan_type,"value":value,"live":self.live,"owner":owner,"k":self.holder_num[owner],"n_revoked":self.revoked[owner],
					"delays":delays,"styles":styles,"h":h0,"anti_reorg":6,"est":est}));
				let peer = self.nodes[1 - owner].node.get_our_node_id();
				if self.nodes[owner].node.force_close_broadcasting_latest_txn(&self.chan_id, &peer, "closing".to_string()).is_err() { return false; }
				if c["both"].as_bool().unwrap_or(false) {
					// both sides go to chain at the same time: two competing commitment transactions
					let me = self.nodes[owner].node.get_our_node_id();
					let _ = self.nodes[1 - owner].node.force_close_broadcasting_latest_txn(&self.chan_id, &me, "closing".to_string());
				}
				if deliver_error {
					self.drain_msgs();
					self.deliver(usize::MAX);
					self.disconnect();
				}
			},
		}
		let (sec, sm, sd) = (self.second.as_ref().map(|s| s.chan_type.clone()).unwrap_or_default(), self.sweep_mode.clone(), self.sweep_defer);
		if let Some(e) = self.log.iter_mut().rev().find(|e| e["ev"] == "open") { e["second"] = json!(sec); e["sweep"] = json!(sm); e["defer"] = json!(sd); }
		self.checkpoint(None, true);
		if let Some(hub) = self.second.as_ref().map(|s| s.hub) {
			// the node with the two channels has to be a node under test
			if !self.live.contains(&hub) { return false; }
			if let Some(k) = c["close2"].as_str() { self.close2(k); }
		}
		true
	}

	/// The node's second channel goes to the chain: by the node's own latest commitment ("holder": the node
	/// force-closes) or by its peer's ("counterparty": the harness announces the peer's signed commitment).
	fn close2(&mut self, kind: &str) -> bool {
		let (hub, chan_id, closed) = match self.second.as_ref() { Some(s) => (s.hub, s.chan_id, s.closed), None => return false };
		if closed || !self.live.contains(&hub) { return false; }
		self.flush_idle();
		let h = self.height();
		let peer_pk = self.nodes[2].node.get_our_node_id();
		let hub_pk = self.nodes[hub].node.get_our_node_id();
		if kind == "holder" {
			self.ev(json!({"ev":"close2","node":hub,"kind":"holder","h":h}));
			if self.nodes[hub].node.force_close_broadcasting_latest_txn(&chan_id, &peer_pk, "closing".to_string()).is_err() { return false; }
		} else {
			let tx = {
				let mon = match self.nodes[2].chain_monitor.chain_monitor.get_monitor(chan_id) { Ok(m) => m, Err(_) => return false };
				mon.unsafe_get_latest_holder_commitment_txn(&self.nodes[2].logger)[0].clone()
			};
			self.ev(json!({"ev":"close2","node":hub,"kind":"counterparty","h":h}));
			let _ = hub_pk;
			self.second.as_mut().unwrap().commit_txid = Some(tx.compute_txid());
			self.handle_bcast(HARNESS, tx, "Commitment2".into());
		}
		self.second.as_mut().unwrap().closed = true;
		self.checkpoint(None, true);
		true
	}

	/// Who ends up with what: every output of the confirmed commitment and of its descendants.
	/// Follow a channel output through the confirmed transactions that spent it.
	fn end_of(&self, op: OutPoint) -> String {
		let mut cur = op;
		let mut last = String::from("nobody");
		for _ in 0..8 {
			let txid = match self.spent.get(&cur) { Some(t) => *t, None => return format!("unspent, last moved by {}", last) };
			let m = match self.mined.iter().find(|m| m.txid == txid) { Some(m) => m, None => return String::from("spent by an unknown transaction") };
			let who = match m.by { 0 => "node 0", 1 => "node 1", AGENT => "cheater", _ => "harness" };
			if m.sweep { return format!("wallet of {}", who); }
			let idx = m.tx.input.iter().position(|i| i.previous_output == cur).unwrap_or(0);
			let next = if m.tx.output.len() == 1 { 0 } else if idx < m.tx.output.len() { idx } else { return format!("fees ({})", who) };
			last = who.to_string();
			cur = OutPoint { txid, vout: next as u32 };
		}
		String::from("?")
	}

	fn final_report(&mut self) {
		self.flush_idle();
		let h = self.height();
		let empty: Vec<bool> = (0..2).map(|i| !self.live.contains(&i) || self.nodes[i].chain_monitor.chain_monitor.get_claimable_balances(&[]).is_empty()).collect();
		let unswept = self.pending.iter().filter(|p| !p.done).count();
		let left: Vec<usize> = self.mempool.iter().filter(|m| m.by < 2 && m.valid && self.could_ever_confirm(m)).map(|m| m.id).collect();
		// who ended up with what (informational; TLC derives its own verdict from the logged transactions)
		let mut ends = Vec::new();
		if let Some((o, k)) = self.confirmed_commit {
			let d = self.describe_commit(o, k);
			let txid = self.commits[o][k].txid;
			for r in d["outs"].as_array().unwrap() {
				let v = r["v"].as_u64().unwrap() as u32;
				ends.push(json!({"v": v, "k": r["k"], "amt": r["amt"], "end": self.end_of(OutPoint { txid, vout: v })}));
			}
		}
		let mut fees = [0i64; 4];
		let mut swept = [0u64; 2];
		for m in self.mined.iter() {
			fees[m.by.min(3)] += m.fee;
			if m.sweep { swept[m.by.min(1)] += m.tx.output.iter().map(|o| o.value.to_sat()).sum::<u64>(); }
		}
		// what the monitor of the node's second channel still lists (an inbound HTLC whose preimage never turned up aside)
		let other_left = match self.second.as_ref() {
			Some(s2) if s2.closed && self.live.contains(&s2.hub) => self.nodes[s2.hub].chain_monitor.chain_monitor.get_monitor(s2.chan_id)
				.map(|m| m.get_claimable_balances().iter().filter(|b| !matches!(b, Balance::MaybePreimageClaimableHTLC { .. })).count()).unwrap_or(0),
			_ => 0,
		};
		self.ev(json!({"ev":"final","h":h,"balances_empty":empty,"unswept":unswept,"mempool_left":left,"other_left":other_left,"ends":ends,"fees":fees,"swept":swept}));
	}
}

fn style_of(k: usize) -> ConnectStyle {
	match k % 11 {
		0 => ConnectStyle::BestBlockFirst,
		1 => ConnectStyle::BestBlockFirstSkippingBlocks,
		2 => ConnectStyle::BestBlockFirstReorgsOnlyTip,
		3 => ConnectStyle::TransactionsFirst,
		4 => ConnectStyle::TransactionsFirstSkippingBlocks,
		5 => ConnectStyle::TransactionsDuplicativelyFirstSkippingBlocks,
		6 => ConnectStyle::HighlyRedundantTransactionsFirstSkippingBlocks,
		7 => ConnectStyle::TransactionsFirstReorgsOnlyTip,
		8 => ConnectStyle::FullBlockViaListen,
		9 => ConnectStyle::ReplayedFullBlockViaListen,
		_ => ConnectStyle::FullBlockDisconnectionsSkippingViaListen,
	}
}

fn user_config(chan_type: &str) -> lightning::util::config::UserConfig {
	let mut uc = test_default_channel_config();
	uc.channel_handshake_config.announced_channel_max_inbound_htlc_value_in_flight_percentage = 100;
	match chan_type {
		"static" => { uc.channel_handshake_config.negotiate_anchors_zero_fee_htlc_tx = false; },
		"zerofee" => { uc.channel_handshake_config.negotiate_anchor_zero_fee_commitments = true; },
		_ => {},
	}
	uc
}

/// Node `to` is told the blocks node `from` has seen beyond its own (its chain is a prefix of theirs).
fn sync_blocks(nodes: &Vec<Node<'static, 'static, 'static>>, from: usize, to: usize) {
	let src: Vec<bitcoin::Block> = nodes[from].blocks.lock().unwrap().iter().map(|b| b.0.clone()).collect();
	let have = nodes[to].blocks.lock().unwrap().len();
	for b in src.iter().skip(have) { connect_block(&nodes[to], b); }
}

fn build_net(run: u64, cfg: &Value, rseed: u64) -> Net {
	let chan_type = cfg["chan_type"].as_str().unwrap_or("anchors").to_string();
	let value = cfg["value"].as_u64().unwrap_or(1_000_000);
	let push = cfg["push"].as_u64().unwrap_or(400_000_000);
	let feerate0 = cfg["feerate"].as_u64().unwrap_or(253) as u32;
	// a second channel: node `hub` (0 or 1) <-> node 2
	let second_cfg = if cfg["second"].is_object() { Some(cfg["second"].clone()) } else { None };
	let nn = if second_cfg.is_some() { 3 } else { 2 };
	let mut cfgs_v = create_chanmon_cfgs(nn);
	for c in cfgs_v.iter_mut() {
		// a would-be cheater must be able to sign its old states
		c.keys_manager.disable_revocation_policy_check = true;
	}
	let cfgs = leak(cfgs_v);
	for c in cfgs.iter() {
		*c.fee_estimator.sat_per_kw.lock().unwrap() = feerate0;
	}
	let node_cfgs = leak(create_node_cfgs(nn, cfgs));
	let uc = user_config(&chan_type);
	let ucs: Vec<Option<lightning::util::config::UserConfig>> = (0..nn).map(|_| Some(uc.clone())).collect();
	let mgrs = leak(create_node_chanmgrs(nn, node_cfgs, &ucs));
	let nodes = create_network(nn, node_cfgs, mgrs);
	for (i, n) in nodes.iter().enumerate() {
		*n.connect_style.borrow_mut() = style_of(cfg["style"][i].as_u64().unwrap_or(3) as usize);
	}
	let mut fee_utxos = Vec::new();
	let any_anchor = chan_type != "static" || second_cfg.as_ref().map(|s| s["chan_type"].as_str().unwrap_or("static") != "static").unwrap_or(false);
	if any_anchor {
		let _ = provide_utxo_reserves(&nodes, 4, bitcoin::Amount::ONE_BTC);
	}
	if chan_type != "static" {
		// coins of the would-be cheater outside its node's wallet (fee inputs of hand-made HTLC transactions)
		let hs = harness_script();
		let tx = Transaction { version: Version::TWO, lock_time: LockTime::ZERO, input: vec![TxIn { ..Default::default() }],
			output: (0..16).map(|k| TxOut { value: Amount::from_sat(40_000 + 1_000 * k), script_pubkey: hs.clone() }).collect() };
		let block = create_dummy_block(nodes[0].best_block_hash(), nodes[0].best_block_info().1 + 1, vec![tx.clone()]);
		for n in nodes.iter() { connect_block(n, &block); }
		let txid = tx.compute_txid();
		for (k, o) in tx.output.iter().enumerate() { fee_utxos.push((OutPoint { txid, vout: k as u32 }, o.clone())); }
	}
	let (_, _, chan_id, ftx) = create_announced_chan_between_nodes_with_value(&nodes, 0, 1, value, push);
	let scid = nodes[0].node.list_channels().iter().find(|c| c.channel_id == chan_id).unwrap().short_channel_id.unwrap();
	*cfgs[1].fee_estimator.sat_per_kw.lock().unwrap() = 253;
	let ftxid = ftx.compute_txid();
	let vout = ftx.output.iter().position(|o| o.value.to_sat() == value).unwrap_or(0) as u32;
	let mut second = None;
	if let Some(sc) = second_cfg {
		let hub = sc["hub"].as_u64().unwrap_or(0) as usize % 2;
		let ct2 = sc["chan_type"].as_str().unwrap_or("static").to_string();
		let value2 = sc["value"].as_u64().unwrap_or(800_000);
		let push2 = sc["push"].as_u64().unwrap_or(300_000_000);
		for i in 0..2 {
			let _ = nodes[i].node.get_and_clear_pending_msg_events();
			let _ = nodes[i].node.get_and_clear_pending_events();
		}
		sync_blocks(&nodes, hub, 2);
		let uc2 = user_config(&ct2);
		nodes[hub].node.set_current_config(uc2.clone());
		nodes[2].node.set_current_config(uc2);
		let fe = *cfgs[hub].fee_estimator.sat_per_kw.lock().unwrap();
		*cfgs[2].fee_estimator.sat_per_kw.lock().unwrap() = fe;
		let (_, _, chan2, ftx2) = create_announced_chan_between_nodes_with_value(&nodes, hub, 2, value2, push2);
		nodes[hub].node.set_current_config(uc.clone());
		// HTLCs left pending on the second channel when it goes to the chain
		if let Some(hs) = sc["htlcs"].as_array() {
			for h in hs.iter() {
				let from_hub = h["from"].as_str().unwrap_or("hub") == "hub";
				let amt = h["amt"].as_u64().unwrap_or(30_000_000);
				let (a, b) = if from_hub { (hub, 2) } else { (2, hub) };
				let (pre, _, _, _) = route_payment(&nodes[a], &[&nodes[b]], amt);
				if !from_hub && h["known"].as_bool().unwrap_or(false) {
					// the node learns the preimage; the fulfil never reaches the peer
					nodes[hub].node.claim_funds(pre);
				}
			}
		}
		let (pk_hub, pk2) = (nodes[hub].node.get_our_node_id(), nodes[2].node.get_our_node_id());
		nodes[hub].node.peer_disconnected(pk2);
		nodes[2].node.peer_disconnected(pk_hub);
		*cfgs[2].fee_estimator.sat_per_kw.lock().unwrap() = 253;
		for n in nodes.iter() {
			let _ = n.node.get_and_clear_pending_msg_events();
			let _ = n.node.get_and_clear_pending_events();
			n.chain_monitor.added_monitors.lock().unwrap().clear();
		}
		sync_blocks(&nodes, hub, 1 - hub);
		let vout2 = ftx2.output.iter().position(|o| o.value.to_sat() == value2).unwrap_or(0) as u32;
		second = Some(Second { hub, chan_id: chan2, funding: OutPoint { txid: ftx2.compute_txid(), vout: vout2 }, chan_type: ct2, closed: false, commit_txid: None });
	}
	for n in nodes.iter() {
		n.tx_broadcaster.txn_broadcasted.lock().unwrap().clear();
		n.tx_broadcaster.txn_types.lock().unwrap().clear();
	}
	let sweep_mode = cfg["sweep"]["mode"].as_str().unwrap_or("each").to_string();
	let sweep_defer = cfg["sweep"]["defer"].as_bool().unwrap_or(false);
	let mut net = Net {
		nodes, cfgs, chan_id, chan_type, queues: HashMap::new(), log: Vec::new(), hashes: Vec::new(), claim_ids: Vec::new(), pays: Vec::new(), scid, run,
		holder_num: [0, 0], revoked: [0, 0], snaps: [HashMap::new(), HashMap::new()], known: [HashSet::new(), HashSet::new()], mark: None,
		outs: HashMap::new(), conf: HashMap::new(), spent: HashMap::new(), ids: HashMap::new(), mempool: Vec::new(),
		funding: OutPoint { txid: ftxid, vout }, live: vec![0, 1], frozen: vec![], agent: None, agent_owner: 0, agent_bc: None,
		commits: [Vec::new(), Vec::new()], commit_logged: None, confirmed_commit: None, pending: Vec::new(), last_state: String::new(),
		idle_from: None, executed: 0, skipped: 0, swept: [0, 0], refused: [false, false], jump_from: None, mined: Vec::new(), fork: 0, hwm: 0,
		agent_descs: Vec::new(), agent_manual: cfg["agent_manual"].as_bool().unwrap_or(false), fee_utxos, fee_next: 0, next_shape: None,
		txmap: HashMap::new(), open_h: 0, rb_tick: 0, in_reorg: false,
		second, sweep_mode, sweep_defer, sweep_now: false, srng: StdRng::seed_from_u64(rseed ^ 0x5eed_5eed), spend_events: 0,
	};
	net.drain_msgs();
	net.deliver(usize::MAX);
	net.snapshot();
	net
}

// ---------------------------------------------------------------------------------------------
// Seeded random scripts

fn random_history(rng: &mut StdRng, want_revoked: bool, owner: usize) -> (Vec<Value>, usize) {
	let mut ops: Vec<Value> = Vec::new();
	let n = rng.gen_range(1..=5);
	let mut npay = 0usize;
	let mut open: Vec<(usize, usize)> = Vec::new(); // (payment, receiver)
	let amts = ["big", "big", "small", "small", "dust", "edge"];
	for _ in 0..n {
		let r = rng.gen_range(0..100);
		if r < 55 || open.is_empty() {
			let from = rng.gen_range(0..2);
			ops.push(json!({"op":"pay","from":from,"amt":amts[rng.gen_range(0..amts.len())]}));
			open.push((npay, 1 - from));
			npay += 1;
		} else if r < 80 {
			let k = open.remove(rng.gen_range(0..open.len())).0;
			ops.push(json!({"op": if rng.gen_bool(0.7) {"claim"} else {"fail"}, "pay": k}));
		} else {
			ops.push(json!({"op":"fee","v":([253u32, 500, 1000, 2500, 5000][rng.gen_range(0..5)])}));
		}
	}
	if want_revoked {
		// claims whose preimage the would-be cheater learns while the state is still current
		for (k, dst) in open.clone() {
			if dst == owner && rng.gen_bool(0.65) {
				ops.push(json!({"op":"claim","pay":k,"deliver":false}));
				open.retain(|x| x.0 != k);
			}
		}
		ops.push(json!({"op":"mark","owner":owner}));
		ops.push(json!({"op":"deliver_all"}));
		// make sure there is something newer than the marked state
		if rng.gen_bool(0.5) || open.is_empty() {
			ops.push(json!({"op":"pay","from":rng.gen_range(0..2),"amt":"small"}));
			npay += 1;
		} else {
			let k = open[rng.gen_range(0..open.len())].0;
			ops.push(json!({"op": if rng.gen_bool(0.5) {"claim"} else {"fail"}, "pay": k}));
		}
	} else {
		for (k, _) in open.clone() {
			if rng.gen_bool(0.35) { ops.push(json!({"op":"claim","pay":k,"deliver":false})); }
		}
		if rng.gen_bool(0.4) {
			// stop in the middle of the last commitment dance
			ops.push(json!({"op":"pay","from":rng.gen_range(0..2),"amt":amts[rng.gen_range(0..4)],"deliver":false}));
			npay += 1;
			ops.push(json!({"op":"deliver","n":rng.gen_range(0..5)}));
		}
	}
	(ops, npay)
}

fn agent_sel(rng: &mut StdRng) -> Value {
	match rng.gen_range(0..3) {
		0 => json!(null), // every second-stage transaction the cheater has
		1 => json!([rng.gen_range(0..4)]),
		_ => json!([rng.gen_range(0..4), rng.gen_range(0..4)]),
	}
}

/// The next value of a fee-estimator trajectory: collapses (by more than the 5x that LDK's bump
/// logic uses as a cap), spikes, drifts.
fn next_estimate(rng: &mut StdRng, prev: u32) -> u32 {
	let r = rng.gen_range(0..100);
	let v = if r < 50 { prev / rng.gen_range(6..40) }
		else if r < 75 { prev.saturating_mul(rng.gen_range(2..12)) }
		else if r < 90 { prev * rng.gen_range(60..140) / 100 }
		else { prev };
	v.max(253).min(40_000)
}

/// Closes of anchor channels (claims that need external fee inputs: the commitment's anchor bump,
/// zero-fee HTLC transactions) by their holder, with the holder's claims kept out of the blocks for
/// several bump intervals while the fee estimators move sharply in both directions.
fn fee_trajectory_script(rng: &mut StdRng) -> Value {
	let chan_type = ["anchors", "zerofee"][rng.gen_range(0..2)];
	let closer = rng.gen_range(0..2usize);
	let (mut history, mut npay) = random_history(rng, false, closer);
	if npay == 0 || rng.gen_bool(0.3) {
		// one more HTLC, sent first (the payment indices of the later claim / fail steps move up)
		for o in history.iter_mut() {
			if o["op"] == "claim" || o["op"] == "fail" { o["pay"] = json!(o["pay"].as_u64().unwrap_or(0) + 1); }
		}
		history.insert(0, json!({"op":"pay","from":rng.gen_range(0..2),"amt":(["big", "small"][rng.gen_range(0..2)])}));
		npay += 1;
	}
	let highs = [1000u32, 2500, 5000, 20000];
	let mut est = [highs[rng.gen_range(0..4)], highs[rng.gen_range(0..4)]];
	if rng.gen_bool(0.3) { est[1 - closer] = 253; }
	let close = json!({"kind":"force","node":closer,"deliver_error":rng.gen_bool(0.15),"est":[est[0], est[1]]});
	let mut chain: Vec<Value> = Vec::new();
	let other = 1 - closer;
	let step = |chain: &mut Vec<Value>, rng: &mut StdRng, est: &mut [u32; 2], who: Value, lens: &[u64]| {
		let n = if rng.gen_bool(0.7) { closer } else { other };
		if rng.gen_bool(0.85) {
			est[n] = next_estimate(rng, est[n]);
			chain.push(json!({"op":"feerate","node":n,"v":est[n]}));
		}
		let r = rng.gen_range(0..100);
		if r < 8 { chain.push(json!({"op":"reload","node":closer})); }
		else if r < 16 { chain.push(json!({"op":"rebroadcast","node":closer})); }
		chain.push(json!({"op":"mine","who":who,"n":lens[rng.gen_range(0..lens.len())]}));
	};
	// the commitment transaction (and its anchor bump) is left out of the blocks
	// (the commitment package is re-bumped at every block)
	for _ in 0..rng.gen_range(0..5) { step(&mut chain, rng, &mut est, json!([]), &[1, 1, 1, 2, 3]); }
	chain.push(json!({"op":"mine","who":"all","n":1}));
	// second stage: the holder's HTLC transactions are left out, the peer's claims may confirm
	// (HTLC claims are re-bumped every 15 blocks, every 3 and every block as their deadline approaches)
	for _ in 0..rng.gen_range(0..4) {
		let r = rng.gen_range(0..100);
		if r < 30 && npay > 0 { chain.push(json!({"op":"preimage","pay":rng.gen_range(0..npay)})); }
		else if r < 75 { chain.push(json!({"op":"to_expiry","htlc":rng.gen_range(0..4),"who": if rng.gen_bool(0.5) { json!([other, HARNESS]) } else { json!([]) },"off":rng.gen_range(-16..3)})); }
		for _ in 0..rng.gen_range(1..5) {
			let who = if rng.gen_bool(0.4) { json!([other, HARNESS]) } else { json!([]) };
			step(&mut chain, rng, &mut est, who, &[1, 1, 2, 3, 3, 5, 8, 15, 16]);
		}
	}
	chain.push(json!({"op":"settle"}));
	json!({"cfg":{"chan_type":chan_type,"value":1_000_000,"push":([100_000_000u64, 400_000_000, 500_000_000][rng.gen_range(0..3)]),
		"feerate":([253u32, 1000, 2500][rng.gen_range(0..3)]),"style":[rng.gen_range(0..11), rng.gen_range(0..11)]},
		"history":history,"close":close,"chain":chain,"family":"fee_trajectory"})
}

/// A preimage that turns up k blocks after the commitment confirmed, the claim made for it left
/// unmined, the newest block(s) replaced by others, the application asking for the pending claims
/// again (twice, some blocks apart): is the claim still pursued?  Mostly on a counterparty commitment
/// that is still young, the other paths of `provide_payment_preimage` (holder commitment, buried
/// counterparty commitment) less often.
fn late_preimage_reorg_script(rng: &mut StdRng) -> Value {
	let types = ["static", "anchors", "zerofee"];
	let npay = rng.gen_range(1..4usize);
	let amts = ["big", "big", "small", "edge"];
	let mut history: Vec<Value> = Vec::new();
	let mut payer = Vec::new();
	for _ in 0..npay {
		let from = rng.gen_range(0..2usize);
		payer.push(from);
		history.push(json!({"op":"pay","from":from,"amt":amts[rng.gen_range(0..amts.len())]}));
	}
	let pick = rng.gen_range(0..npay);
	// whose commitment confirms: mostly the payer's (the receiver claims on a counterparty commitment)
	let owner = if rng.gen_bool(0.8) { payer[pick] } else { 1 - payer[pick] };
	let close = if rng.gen_bool(0.7) { json!({"kind":"counterparty","owner":owner,"which":"current"}) }
		else { json!({"kind":"force","node":owner,"deliver_error":false}) };
	let k = if rng.gen_bool(0.85) { rng.gen_range(0..5u64) } else { rng.gen_range(5..11u64) };
	let mut chain: Vec<Value> = vec![json!({"op":"mine","who":"all","n":1})];
	if k > 0 { chain.push(json!({"op":"mine","who":"none","n":k})); }
	chain.push(json!({"op":"preimage","pay":pick}));
	if rng.gen_bool(0.3) { chain.push(json!({"op":"mine","who":"none","n":rng.gen_range(1..3)})); }
	chain.push(json!({"op":"reorg","depth":rng.gen_range(1..=(k + 1).min(3)),"add":rng.gen_range(1..4)}));
	for n in 0..2 { chain.push(json!({"op":"rebroadcast","node":n})); }
	if rng.gen_bool(0.3) { chain.push(json!({"op":"reload","node":1 - payer[pick]})); }
	chain.push(json!({"op":"mine","who":"none","n":rng.gen_range(1..4)}));
	for n in 0..2 { chain.push(json!({"op":"rebroadcast","node":n})); }
	chain.push(json!({"op":"settle"}));
	json!({"cfg":{"chan_type":types[rng.gen_range(0..3)],"value":1_000_000,"push":([100_000_000u64, 400_000_000, 500_000_000][rng.gen_range(0..3)]),
		"feerate":([253u32, 1000, 2500][rng.gen_range(0..3)]),"style":[rng.gen_range(0..11), rng.gen_range(0..11)]},
		"history":history,"close":close,"chain":chain,"family":"late_preimage_reorg"})
}

/// A revoked commitment whose justice claims are kept out of the blocks until the cheater's CSV delay
/// (to_self_delay, 144 blocks at least) has almost run out, delivered block by block near that height:
/// does the victim re-issue its claims at the pace the shrinking window demands?  Second-stage
/// transactions of the cheater confirm on the way (their outputs have a later expiry).
fn csv_race_script(rng: &mut StdRng) -> Value {
	let types = ["static", "anchors", "zerofee"];
	let owner = rng.gen_range(0..2usize);
	let victim = 1 - owner;
	let (history, _) = random_history(rng, true, owner);
	let close = json!({"kind":"revoked","owner":owner,"k":"mark"});
	let mut chain: Vec<Value> = Vec::new();
	let first = if rng.gen_bool(0.5) { json!([]) } else { agent_sel(rng) };
	chain.push(json!({"op":"mine","who":[AGENT],"agent_htlcs":first}));
	// blocks connected since the commitment confirmed
	let mut gone = 0u64;
	let stop = 144 - rng.gen_range(18..26u64);
	if rng.gen_bool(0.4) {
		let k = rng.gen_range(1..40u64);
		chain.push(json!({"op":"mine","who":"none","n":k}));
		chain.push(json!({"op":"mine","who":[AGENT],"agent_htlcs":agent_sel(rng)}));
		gone += k + 1;
	}
	if rng.gen_bool(0.3) {
		let v = [253u32, 500, 1000][rng.gen_range(0..3)];
		chain.push(json!({"op":"feerate","node":victim,"v":v}));
	}
	while gone < stop {
		let k = (stop - gone).min(rng.gen_range(20..70));
		chain.push(json!({"op":"mine","who":"none","n":k}));
		gone += k;
		if rng.gen_bool(0.15) { chain.push(json!({"op":"reload","node":victim})); }
	}
	// the last blocks before (and a few after) the expiry, one at a time
	for _ in 0..(144 - stop + rng.gen_range(0..4)) {
		chain.push(json!({"op":"mine","who":"none","n":1}));
		let r = rng.gen_range(0..100);
		if r < 4 { chain.push(json!({"op":"reload","node":victim})); }
		else if r < 8 { chain.push(json!({"op":"rebroadcast","node":victim})); }
	}
	chain.push(json!({"op":"settle"}));
	json!({"cfg":{"chan_type":types[rng.gen_range(0..3)],"value":1_000_000,"push":([100_000_000u64, 400_000_000, 500_000_000][rng.gen_range(0..3)]),
		"feerate":([253u32, 253, 1000][rng.gen_range(0..3)]),"style":[rng.gen_range(0..11), rng.gen_range(0..11)]},
		"history":history,"close":close,"chain":chain,"family":"csv_race"})
}

/// A shape for a second-stage transaction over `n` HTLCs (positions 1..=n of the `pays` list): the HTLC
/// inputs in any order, up to two inputs of the cheater's own anywhere, an output of its own at the
/// position of each of those (optional when nothing follows), up to two more outputs at the end.
fn random_shape(rng: &mut StdRng, n: usize) -> (Vec<usize>, Vec<usize>) {
	let mut ins: Vec<usize> = (1..=n).collect();
	for i in (1..ins.len()).rev() { ins.swap(i, rng.gen_range(0..=i)); }
	let own = [0usize, 1, 1, 1, 2][rng.gen_range(0..5)];
	for _ in 0..own { let at = rng.gen_range(0..=ins.len()); ins.insert(at, 0); }
	let last_htlc = ins.iter().rposition(|x| *x > 0).unwrap_or(0);
	let mut outs: Vec<usize> = Vec::new();
	for (i, x) in ins.iter().enumerate() {
		if *x > 0 || i < last_htlc { outs.push(*x); }
		else if rng.gen_bool(0.4) && outs.len() == i { outs.push(0); }
	}
	if outs.len() >= ins.len() { for _ in 0..[0usize, 0, 0, 1, 2][rng.gen_range(0..5)] { outs.push(0); } }
	(ins, outs)
}

/// Revoked anchor-channel commitments whose HTLC outputs the cheater spends with hand-made second-stage
/// transactions of every shape SIGHASH_SINGLE|ANYONECANPAY allows: one HTLC or several per transaction,
/// only a subset, its own inputs before / between / after the HTLC inputs, change outputs or none,
/// HTLC-success first, HTLC-timeout transactions after the expiry.
fn shape_script(rng: &mut StdRng) -> Value {
	let chan_type = ["anchors", "zerofee"][rng.gen_range(0..2)];
	let owner = rng.gen_range(0..2usize);
	let victim = 1 - owner;
	let mut history: Vec<Value> = Vec::new();
	let npay = rng.gen_range(2..=4usize);
	let (mut succ, mut tout): (Vec<usize>, Vec<usize>) = (Vec::new(), Vec::new());
	let amts = ["big", "big", "small", "small", "edge"];
	for k in 0..npay {
		let to_owner = rng.gen_bool(0.6);
		history.push(json!({"op":"pay","from": if to_owner { victim } else { owner },"amt":amts[rng.gen_range(0..amts.len())]}));
		if to_owner { succ.push(k); } else { tout.push(k); }
	}
	let mut known: Vec<usize> = Vec::new();
	for k in succ.iter() {
		if rng.gen_bool(0.85) { history.push(json!({"op":"claim","pay":k,"deliver":false})); known.push(*k); }
	}
	history.push(json!({"op":"mark","owner":owner}));
	history.push(json!({"op":"deliver_all"}));
	history.push(json!({"op":"pay","from":rng.gen_range(0..2),"amt":"small"}));
	let mut chain: Vec<Value> = vec![json!({"op":"mine","who":[AGENT],"agent_pays":[]})];
	let round = |chain: &mut Vec<Value>, rng: &mut StdRng, pool: &mut Vec<usize>| {
		if pool.is_empty() { return; }
		let take = rng.gen_range(1..=pool.len());
		let mut sel: Vec<usize> = Vec::new();
		for _ in 0..take { sel.push(pool.remove(rng.gen_range(0..pool.len()))); }
		let (ins, outs) = random_shape(rng, sel.len());
		chain.push(json!({"op":"cheat","pays":sel,"ins":ins,"outs":outs}));
		let r = rng.gen_range(0..100);
		let who = if r < 70 { json!([AGENT]) } else { json!([AGENT, victim]) };
		chain.push(json!({"op":"mine","who":who,"agent_pays":sel,"prefer": if rng.gen_bool(0.7) {"new"} else {"old"}}));
	};
	let extras = |chain: &mut Vec<Value>, rng: &mut StdRng| {
		let r = rng.gen_range(0..100);
		if r < 15 { chain.push(json!({"op":"reload","node":victim})); }
		else if r < 25 { chain.push(json!({"op":"rebroadcast","node":victim})); }
		else if r < 40 { chain.push(json!({"op":"mine","who":[victim],"prefer": if rng.gen_bool(0.5) {"new"} else {"old"}})); }
		else if r < 50 { chain.push(json!({"op":"mine","who":"none","n":rng.gen_range(1..8)})); }
	};
	for _ in 0..rng.gen_range(1..=2) {
		round(&mut chain, rng, &mut known);
		extras(&mut chain, rng);
	}
	if !tout.is_empty() && rng.gen_bool(0.8) {
		chain.push(json!({"op":"to_expiry","htlc":0,"who": if rng.gen_bool(0.5) { json!("none") } else { json!([victim]) },"agent_pays":[],"off":rng.gen_range(0..2)}));
		chain.push(json!({"op":"mine","who":"none","n":1}));
		for _ in 0..rng.gen_range(1..=2) {
			round(&mut chain, rng, &mut tout);
			extras(&mut chain, rng);
		}
	}
	chain.push(json!({"op":"settle"}));
	json!({"cfg":{"chan_type":chan_type,"value":1_000_000,"push":([400_000_000u64, 500_000_000][rng.gen_range(0..2)]),
		"feerate":([253u32, 253, 1000][rng.gen_range(0..3)]),"style":[rng.gen_range(0..11), rng.gen_range(0..11)],"agent_manual":true},
		"history":history,"close":{"kind":"revoked","owner":owner,"k":"mark"},"chain":chain,"family":"shapes"})
}

/// A revoked commitment (with second-stage transactions and justice claims, confirmed or not) that is
/// reorganised out of the chain -- to just below it or deeper, after one or many confirmations -- and
/// confirms again, in the next block or later; the network keeps or forgets the victim's claims.
fn unwind_script(rng: &mut StdRng) -> Value {
	if rng.gen_range(0..100) < 40 { return fork_point_script(rng); }
	let types = ["static", "anchors", "zerofee"];
	let owner = rng.gen_range(0..2usize);
	let victim = 1 - owner;
	let (history, _) = random_history(rng, true, owner);
	let mut chain: Vec<Value> = Vec::new();
	let first = if rng.gen_bool(0.5) { json!([]) } else { agent_sel(rng) };
	chain.push(json!({"op":"mine","who":[AGENT],"agent_htlcs":first}));
	if rng.gen_bool(0.4) { chain.push(json!({"op":"mine","who":[victim],"prefer": if rng.gen_bool(0.5) {"new"} else {"old"}})); }
	if rng.gen_bool(0.5) { chain.push(json!({"op":"mine","who":"none","n":rng.gen_range(1..4)})); }
	if rng.gen_bool(0.4) {
		chain.push(json!({"op":"mine","who":[AGENT],"agent_htlcs":agent_sel(rng)}));
		if rng.gen_bool(0.5) { chain.push(json!({"op":"mine","who":[victim]})); }
		if rng.gen_bool(0.3) { chain.push(json!({"op":"mine","who":"none","n":rng.gen_range(1..6)})); }
	}
	for round in 0..2 {
		let r = rng.gen_range(0..100);
		let target = if r < 60 || round == 1 { "commit" } else if r < 80 { "stage2" } else { "claim" };
		let extra = if rng.gen_bool(0.85) { rng.gen_range(0..3) } else { rng.gen_range(3..9) };
		chain.push(json!({"op":"unwind","target":target,"extra":extra,"keep":rng.gen_bool(0.35)}));
		let r = rng.gen_range(0..100);
		if r < 15 { chain.push(json!({"op":"reload","node":victim})); }
		else if r < 30 { chain.push(json!({"op":"rebroadcast","node":victim})); }
		else if r < 36 { chain.push(json!({"op":"style","node":victim,"v":rng.gen_range(0..11)})); }
		if rng.gen_bool(0.5) { chain.push(json!({"op":"mine","who":"none","n":rng.gen_range(1..4)})); }
		let who = if rng.gen_bool(0.7) { json!([AGENT]) } else { json!([AGENT, victim]) };
		chain.push(json!({"op":"mine","who":who,"agent_htlcs": if rng.gen_bool(0.5) { json!([]) } else { agent_sel(rng) }}));
		if rng.gen_bool(0.3) { chain.push(json!({"op":"mine","who":[victim]})); }
		if rng.gen_bool(0.2) { chain.push(json!({"op":"mine","who":"none","n":rng.gen_range(15..19)})); }
		if rng.gen_bool(0.75) { break; }
	}
	chain.push(json!({"op":"settle"}));
	json!({"cfg":{"chan_type":types[rng.gen_range(0..3)],"value":1_000_000,"push":([100_000_000u64, 400_000_000, 500_000_000][rng.gen_range(0..3)]),
		"feerate":([253u32, 253, 1000][rng.gen_range(0..3)]),"style":[rng.gen_range(0..11), rng.gen_range(0..11)]},
		"history":history,"close":{"kind":"revoked","owner":owner,"k":"mark"},"chain":chain,"family":"unwind"})
}

/// Reorganisations whose fork point lies exactly at (or one block below / above) the block B in which a
/// second-stage transaction of the cheater -- or a justice claim of the victim -- confirmed: the victim's
/// aggregated justice claim is kept out of the blocks, the cheater takes one of its inputs in block B (an
/// HTLC-success at once, an HTLC-timeout after the expiry), one to three blocks are built on top (empty, or with
/// claims of the victim), then the chain is taken back to B (the block stays: what the node recorded for B must
/// survive), to B - 1 (the transaction leaves the chain) or to B + 1, and goes on.
fn fork_point_script(rng: &mut StdRng) -> Value {
	let types = ["static", "anchors", "zerofee"];
	let owner = rng.gen_range(0..2usize);
	let victim = 1 - owner;
	// histories with HTLCs in the revoked state: one the cheater offered (its timeout transaction), one or two it
	// received and claimed while the state was current (its success transactions)
	let mut history: Vec<Value> = Vec::new();
	let mut np = 0;
	let amts = ["big", "big", "small", "edge"];
	let n_off = rng.gen_range(0..=2);
	let n_rcv = if n_off == 0 { rng.gen_range(1..=3) } else { rng.gen_range(0..=2) };
	let mut rcv: Vec<usize> = Vec::new();
	for _ in 0..n_off { history.push(json!({"op":"pay","from":owner,"amt":amts[rng.gen_range(0..amts.len())]})); np += 1; }
	for _ in 0..n_rcv { history.push(json!({"op":"pay","from":victim,"amt":amts[rng.gen_range(0..amts.len())]})); rcv.push(np); np += 1; }
	if rng.gen_bool(0.2) { history.push(json!({"op":"fee","v":([253u32, 1000, 2500][rng.gen_range(0..3)])})); }
	for k in rcv.iter() { if rng.gen_bool(0.8) { history.push(json!({"op":"claim","pay":k,"deliver":false})); } }
	history.push(json!({"op":"mark","owner":owner}));
	history.push(json!({"op":"deliver_all"}));
	history.push(json!({"op":"pay","from":rng.gen_range(0..2),"amt":"small"}));
	let mut chain: Vec<Value> = Vec::new();
	// the revoked commitment confirms alone; the victim's claims stay out of the blocks
	chain.push(json!({"op":"mine","who":[AGENT],"agent_htlcs":[]}));
	let timeout = n_off > 0 && (n_rcv == 0 || rng.gen_bool(0.6));
	if timeout {
		chain.push(json!({"op":"to_expiry","htlc":rng.gen_range(0..4),"who":"none","off":rng.gen_range(0..2)}));
	} else if rng.gen_bool(0.4) {
		chain.push(json!({"op":"mine","who":"none","n":rng.gen_range(1..4)}));
	}
	// block B: one (or two, or all) of the cheater's second-stage transactions
	chain.push(json!({"op":"mine","who":[AGENT],"agent_htlcs": if rng.gen_bool(0.7) { json!([rng.gen_range(0..4)]) } else { agent_sel(rng) }}));
	let d = [0i64, 0, 0, 0, 0, 0, -1, 1, 1][rng.gen_range(0..9)];       // fork point B + d
	let target = if rng.gen_bool(0.85) { "stage2" } else { "claim" };
	// blocks on top of B
	let on_top = rng.gen_range(1..=3) + if d > 0 { 1 } else { 0 };
	let mut left = on_top;
	if rng.gen_bool(0.3) { chain.push(json!({"op":"mine","who":[victim],"prefer": if rng.gen_bool(0.5) {"new"} else {"old"}})); left -= 1; }
	if left > 0 { chain.push(json!({"op":"mine","who":"none","n":left})); }
	chain.push(json!({"op":"unwind","target":target,"extra":-1 - d,"keep":rng.gen_bool(0.5)}));
	let r = rng.gen_range(0..100);
	if r < 12 { chain.push(json!({"op":"reload","node":victim})); }
	else if r < 25 { chain.push(json!({"op":"rebroadcast","node":victim})); }
	// the new chain
	if rng.gen_bool(0.6) { chain.push(json!({"op":"mine","who":"none","n":rng.gen_range(1..4)})); }
	if d < 0 || rng.gen_bool(0.3) { chain.push(json!({"op":"mine","who":[AGENT],"agent_htlcs":agent_sel(rng)})); }
	if rng.gen_bool(0.3) {
		// a second reorganisation at the same fork point
		chain.push(json!({"op":"mine","who":"none","n":rng.gen_range(1..3)}));
		chain.push(json!({"op":"unwind","target":target,"extra":-1,"keep":rng.gen_bool(0.5)}));
	}
	if rng.gen_bool(0.4) { chain.push(json!({"op":"mine","who":"none","n":rng.gen_range(1..20)})); }
	chain.push(json!({"op":"settle"}));
	json!({"cfg":{"chan_type":types[rng.gen_range(0..3)],"value":1_000_000,"push":([100_000_000u64, 400_000_000, 500_000_000][rng.gen_range(0..3)]),
		"feerate":([253u32, 253, 1000][rng.gen_range(0..3)]),"style":[rng.gen_range(0..11), rng.gen_range(0..11)]},
		"history":history,"close":{"kind":"revoked","owner":owner,"k":"mark"},"chain":chain,"family":"fork_point"})
}

/// An honest unilateral close (holder's or counterparty's latest commitment) whose commitment
/// transaction -- with whatever HTLC claims have confirmed on top of it -- is reorganised out of the chain
/// and confirms again, at the same height or later; the network keeps or forgets the nodes' claims.
fn honest_unwind_script(rng: &mut StdRng) -> Value {
	let types = ["static", "anchors", "zerofee"];
	let owner = rng.gen_range(0..2usize);
	let (history, _) = random_history(rng, false, owner);
	let history: Vec<Value> = history.into_iter().filter(|o| !(o["op"] == "deliver") && !(o["op"] == "pay" && o["deliver"] == json!(false))).collect();
	let close = if rng.gen_bool(0.5) { json!({"kind":"force","node":owner,"deliver_error":false}) } else { json!({"kind":"counterparty","owner":owner,"which":"current"}) };
	let mut chain: Vec<Value> = vec![json!({"op":"mine","who":"all","n":1,"prefer":"old"})];
	let r = rng.gen_range(0..100);
	if r < 30 { chain.push(json!({"op":"mine","who":"all","prefer": if rng.gen_bool(0.5) {"new"} else {"old"}})); }
	else if r < 50 { chain.push(json!({"op":"mine","who":"none","n":rng.gen_range(1..4)})); }
	else if r < 65 { chain.push(json!({"op":"to_expiry","htlc":rng.gen_range(0..4),"who": if rng.gen_bool(0.5) { json!("all") } else { json!("none") },"off":rng.gen_range(-1..2)})); }
	for round in 0..2 {
		let r = rng.gen_range(0..100);
		let target = if r < 60 || round == 1 { "commit" } else if r < 85 { "claim" } else { "tip" };
		// (fork point below the target's block, or -- extra < 0 -- exactly at it / one above: the block stays)
		let extra = if rng.gen_bool(0.3) { rng.gen_range(-2..0) } else { rng.gen_range(0..3) };
		if extra < 0 { chain.push(json!({"op":"mine","who":"none","n":rng.gen_range(1..3) - extra - 1})); }
		chain.push(json!({"op":"unwind","target":target,"extra":extra,"keep":rng.gen_bool(0.4)}));
		if rng.gen_bool(0.3) { for n in 0..2 { chain.push(json!({"op":"rebroadcast","node":n})); } }
		if rng.gen_bool(0.15) { chain.push(json!({"op":"reload","node":rng.gen_range(0..2)})); }
		if rng.gen_bool(0.5) { chain.push(json!({"op":"mine","who":"none","n":rng.gen_range(1..4)})); }
		chain.push(json!({"op":"mine","who":"all","prefer": if rng.gen_bool(0.5) {"new"} else {"old"}}));
		if rng.gen_bool(0.4) { chain.push(json!({"op":"mine","who":"all"})); }
		if rng.gen_bool(0.7) { break; }
	}
	chain.push(json!({"op":"settle"}));
	json!({"cfg":{"chan_type":types[rng.gen_range(0..3)],"value":1_000_000,"push":([100_000_000u64, 400_000_000, 500_000_000][rng.gen_range(0..3)]),
		"feerate":([253u32, 1000, 2500][rng.gen_range(0..3)]),"style":[rng.gen_range(0..11), rng.gen_range(0..11)]},
		"history":history,"close":close,"chain":chain,"family":"honest_unwind"})
}

fn std_cfg(rng: &mut StdRng, chan_type: &str) -> Value {
	json!({"chan_type":chan_type,"value":1_000_000,"push":([400_000_000u64, 500_000_000][rng.gen_range(0..2)]),
		"feerate":([253u32, 253, 1000][rng.gen_range(0..3)]),"style":[rng.gen_range(0..11), rng.gen_range(0..11)]})
}

/// Several pending HTLCs with one payment hash (parts of a multi-part payment over the one channel; same
/// or different amounts and expiries, either direction), every kind of close, the preimage known before
/// the close or learnt some blocks after the commitment confirmed.
fn dup_hash_script(rng: &mut StdRng) -> Value {
	let types = ["static", "anchors", "zerofee"];
	let mut history: Vec<Value> = Vec::new();
	let mut multi: Vec<(usize, usize)> = Vec::new(); // (payment, receiver)
	let npay = rng.gen_range(1..=3usize);
	for k in 0..npay {
		let from = rng.gen_range(0..2usize);
		if k == 0 || rng.gen_bool(0.4) {
			history.push(json!({"op":"pay","from":from,"amt":(["big", "small", "small"][rng.gen_range(0..3)]),"parts":rng.gen_range(2..=3),"vary":rng.gen_bool(0.5),"stagger":([0u32, 0, 3][rng.gen_range(0..3)])}));
			multi.push((k, 1 - from));
		} else {
			history.push(json!({"op":"pay","from":from,"amt":(["big", "small"][rng.gen_range(0..2)])}));
		}
	}
	let (pick, recv) = multi[rng.gen_range(0..multi.len())];
	let early = rng.gen_bool(0.3);
	if early { history.push(json!({"op":"claim","pay":pick,"deliver":false})); }
	// whose commitment confirms: mostly the payer's (the receiver claims on a counterparty commitment)
	let owner = if rng.gen_bool(0.7) { 1 - recv } else { recv };
	let r = rng.gen_range(0..100);
	let close = if r < 60 { json!({"kind":"counterparty","owner":owner,"which":"current"}) }
		else if r < 85 { json!({"kind":"force","node":owner,"deliver_error":false}) }
		else { json!({"kind":"force","node":owner,"deliver_error":false,"both":true}) };
	let mut chain: Vec<Value> = vec![json!({"op":"mine","who":[owner, HARNESS],"n":1,"prefer":"old"})];
	if !early {
		let k = rng.gen_range(0..4u64);
		if k > 0 { chain.push(json!({"op":"mine","who":"none","n":k})); }
		chain.push(json!({"op":"preimage","pay":pick}));
	}
	for _ in 0..rng.gen_range(0..3) {
		let r = rng.gen_range(0..100);
		if r < 30 { chain.push(json!({"op":"mine","who":"all","prefer": if rng.gen_bool(0.5) {"new"} else {"old"}})); }
		else if r < 50 { chain.push(json!({"op":"mine","who":"none","n":rng.gen_range(1..6)})); }
		else if r < 60 { chain.push(json!({"op":"reload","node":recv})); }
		else if r < 75 { chain.push(json!({"op":"rebroadcast","node":recv})); }
		else if r < 85 && multi.len() > 1 { chain.push(json!({"op":"preimage","pay":multi[rng.gen_range(0..multi.len())].0})); }
		else { chain.push(json!({"op":"mine","who":[recv, HARNESS]})); }
	}
	chain.push(json!({"op":"settle"}));
	let ct = types[rng.gen_range(0..3)];
	json!({"cfg":std_cfg(rng, ct),"history":history,"close":close,"chain":chain,"family":"dup_hash"})
}

/// Both sides go to chain; one commitment confirms (with whatever claims follow), is reorganised out, and
/// the competing commitment confirms instead; several outbound HTLCs of one expiry (their timeout claims
/// are aggregated and parked until the expiry); the chain then advances past the expiry.
fn competing_commitments_script(rng: &mut StdRng) -> Value {
	let types = ["static", "anchors", "zerofee"];
	let payer = rng.gen_range(0..2usize);
	let mut history: Vec<Value> = Vec::new();
	for _ in 0..rng.gen_range(2..=3) { history.push(json!({"op":"pay","from":payer,"amt":(["big", "small"][rng.gen_range(0..2)])})); }
	if rng.gen_bool(0.4) { history.push(json!({"op":"pay","from":1 - payer,"amt":"big"})); }
	if rng.gen_bool(0.3) { history.push(json!({"op":"claim","pay":0,"deliver":false})); }
	let first = rng.gen_range(0..2usize);
	let second = 1 - first;
	let close = json!({"kind":"force","node":first,"deliver_error":false,"both":true});
	let mut chain: Vec<Value> = vec![json!({"op":"mine","who":[first],"n":1,"prefer":"old"})];
	if rng.gen_bool(0.5) { chain.push(json!({"op":"mine","who": if rng.gen_bool(0.5) { json!("none") } else { json!([first]) },"n":rng.gen_range(1..4)})); }
	chain.push(json!({"op":"unwind","target":"commit","extra":rng.gen_range(0..2),"keep":rng.gen_bool(0.5)}));
	// (one block in which nothing confirms: a commitment the network forgot is announced again)
	chain.push(json!({"op":"mine","who":"none","n":rng.gen_range(1..3)}));
	chain.push(json!({"op":"mine","who":[second],"n":1,"prefer":"old"}));
	if rng.gen_bool(0.3) { chain.push(json!({"op":"reload","node":rng.gen_range(0..2)})); }
	if rng.gen_bool(0.3) { for n in 0..2 { chain.push(json!({"op":"rebroadcast","node":n})); } }
	chain.push(json!({"op":"to_expiry","htlc":rng.gen_range(0..3),"who": if rng.gen_bool(0.6) { json!("none") } else { json!("all") },"off":rng.gen_range(0..3)}));
	for _ in 0..rng.gen_range(0..3) {
		if rng.gen_bool(0.5) { chain.push(json!({"op":"mine","who":"none","n":rng.gen_range(1..4)})); }
		else { for n in 0..2 { chain.push(json!({"op":"rebroadcast","node":n})); } }
	}
	chain.push(json!({"op":"settle"}));
	let ct = types[rng.gen_range(0..3)];
	json!({"cfg":std_cfg(rng, ct),"history":history,"close":close,"chain":chain,"family":"competing_commitments"})
}

/// The previous, not yet revoked commitment of a node under test confirms after the node has accepted the
/// next one (its monitor holds both); the preimage of an inbound HTLC arrives only afterwards (or was
/// known before); the HTLC is in both commitments or only in the newer one.
fn prev_holder_script(rng: &mut StdRng) -> Value {
	let types = ["static", "anchors", "zerofee"];
	let owner = rng.gen_range(0..2usize);
	let mut history: Vec<Value> = Vec::new();
	let n_in = rng.gen_range(1..=2usize);
	for _ in 0..n_in { history.push(json!({"op":"pay","from":1 - owner,"amt":(["big", "small"][rng.gen_range(0..2)])})); }
	if rng.gen_bool(0.3) { history.push(json!({"op":"pay","from":owner,"amt":"big"})); }
	let early = rng.gen_bool(0.25);
	if early { history.push(json!({"op":"claim","pay":0,"deliver":false})); }
	// one more update that stops right after `owner` has received the new commitment_signed
	let from = if early { 1 - owner } else { rng.gen_range(0..2usize) };
	history.push(json!({"op":"deliver_all"}));
	let last = history.iter().filter(|o| o["op"] == "pay").count();
	history.push(json!({"op":"pay","from":from,"amt":(["big", "small", "dust"][rng.gen_range(0..3)]),"deliver":false}));
	history.push(json!({"op":"deliver","n": if owner == 1 - from { 2 } else { 4 }}));
	let which = if rng.gen_bool(0.8) { "previous" } else { "current" };
	let close = json!({"kind":"counterparty","owner":owner,"which":which,"owner_live":true});
	let mut chain: Vec<Value> = vec![json!({"op":"mine","who":"all","n":1,"prefer":"old"})];
	let k = rng.gen_range(0..4u64);
	if k > 0 { chain.push(json!({"op":"mine","who":"none","n":k})); }
	if !early { chain.push(json!({"op":"preimage","pay":rng.gen_range(0..n_in)})); }
	// (an HTLC that is only in the newer commitment: its preimage is of no use on chain)
	if from == 1 - owner && rng.gen_bool(0.3) { chain.push(json!({"op":"preimage","pay":last})); }
	for _ in 0..rng.gen_range(0..3) {
		let r = rng.gen_range(0..100);
		if r < 35 { chain.push(json!({"op":"mine","who":"all","prefer": if rng.gen_bool(0.5) {"new"} else {"old"}})); }
		else if r < 55 { chain.push(json!({"op":"mine","who":"none","n":rng.gen_range(1..6)})); }
		else if r < 70 { chain.push(json!({"op":"reload","node":owner})); }
		else if r < 85 { chain.push(json!({"op":"rebroadcast","node":owner})); }
		else if n_in > 1 { chain.push(json!({"op":"preimage","pay":1})); }
	}
	chain.push(json!({"op":"settle"}));
	let ct = types[rng.gen_range(0..3)];
	json!({"cfg":std_cfg(rng, ct),"history":history,"close":close,"chain":chain,"family":"prev_holder"})
}

/// The second channel of the node with two channels: its type, capacity, the node's share, what is pending on it.
fn second_channel(rng: &mut StdRng, hub: usize) -> Value {
	let types = ["static", "anchors", "zerofee"];
	let mut htlcs: Vec<Value> = Vec::new();
	let r = rng.gen_range(0..100);
	if r < 20 { htlcs.push(json!({"from":"hub","amt":rng.gen_range(5_000_000..60_000_000u64)})); }
	else if r < 45 { htlcs.push(json!({"from":"peer","amt":rng.gen_range(5_000_000..60_000_000u64),"known":rng.gen_bool(0.8)})); }
	json!({"hub":hub,"chan_type":types[rng.gen_range(0..3)],"value":([600_000u64, 800_000, 1_200_000][rng.gen_range(0..3)]),
		"push":([100_000_000u64, 250_000_000, 300_000_000][rng.gen_range(0..3)]),"htlcs":htlcs})
}

fn sweep_policy(rng: &mut StdRng) -> Value {
	let r = rng.gen_range(0..100);
	let mode = if r < 45 { "all" } else if r < 70 { "mixed" } else if r < 85 { "event" } else { "each" };
	json!({"mode":mode,"defer":rng.gen_bool(0.7)})
}

/// One node with TWO unilaterally closed channels -- any mix of its own and its peers' commitments, of channel
/// types, with or without pending HTLCs -- whose matured outputs the application sweeps the way OutputSweeper
/// does: everything it has been handed in one `spend_spendable_outputs` call (also: per event, one by one, random
/// batches in random order), at once or only after everything has been reported.
fn multi_sweep_script(rng: &mut StdRng) -> Value {
	let types = ["static", "anchors", "zerofee"];
	let hub = rng.gen_range(0..2usize);
	let owner = if rng.gen_bool(0.5) { hub } else { 1 - hub };
	let (history, npay) = random_history(rng, false, owner);
	let history: Vec<Value> = history.into_iter().filter(|o| !(o["op"] == "deliver") && !(o["op"] == "pay" && o["deliver"] == json!(false))).collect();
	let mut close = if rng.gen_bool(0.5) { json!({"kind":"force","node":owner,"deliver_error":false}) } else { json!({"kind":"counterparty","owner":owner,"which":"current"}) };
	let kind2 = if rng.gen_bool(0.5) { "holder" } else { "counterparty" };
	let mut chain: Vec<Value> = Vec::new();
	let r = rng.gen_range(0..100);
	if r < 45 { close["close2"] = json!(kind2); }
	else if r < 60 { chain.push(json!({"op":"close2","kind":kind2})); }
	chain.push(json!({"op":"mine","who":"all","n":1,"prefer":"old"}));
	if r >= 60 && r < 90 {
		if rng.gen_bool(0.5) { chain.push(json!({"op":"mine","who":"all","n":rng.gen_range(1..8)})); }
		chain.push(json!({"op":"close2","kind":kind2}));
		chain.push(json!({"op":"mine","who":"all","n":1}));
	}
	for _ in 0..rng.gen_range(0..4) {
		let r = rng.gen_range(0..100);
		if r < 25 { chain.push(json!({"op":"mine","who":"all","prefer": if rng.gen_bool(0.5) {"new"} else {"old"}})); }
		else if r < 45 { chain.push(json!({"op":"mine","who":"none","n":rng.gen_range(1..12)})); }
		else if r < 55 && npay > 0 { chain.push(json!({"op":"preimage","pay":rng.gen_range(0..npay)})); }
		else if r < 70 { chain.push(json!({"op":"reload","node":hub})); }
		else if r < 80 { chain.push(json!({"op":"to_expiry","htlc":rng.gen_range(0..4),"who":"all","off":rng.gen_range(0..2)})); }
		else if r < 88 { chain.push(json!({"op":"feerate","node":hub,"v":([253u32, 1000, 5000][rng.gen_range(0..3)])})); }
		else { chain.push(json!({"op":"sweep"})); }
	}
	chain.push(json!({"op":"settle"}));
	let ct = types[rng.gen_range(0..3)];
	let mut cfg = std_cfg(rng, ct);
	cfg["push"] = json!([100_000_000u64, 400_000_000, 500_000_000][rng.gen_range(0..3)]);
	cfg["second"] = second_channel(rng, hub);
	cfg["sweep"] = sweep_policy(rng);
	json!({"cfg":cfg,"history":history,"close":close,"chain":chain,"family":"multi_sweep"})
}

/// The victim of a revoked commitment has a second closed channel; the justice outputs, its balance on the
/// revoked commitment and the outputs of the other channel are swept together.
fn revoked_multi_sweep_script(rng: &mut StdRng) -> Value {
	let types = ["static", "anchors", "zerofee"];
	let owner = rng.gen_range(0..2usize);
	let victim = 1 - owner;
	let (history, _) = random_history(rng, true, owner);
	let kind2 = if rng.gen_bool(0.5) { "holder" } else { "counterparty" };
	let mut close = json!({"kind":"revoked","owner":owner,"k":"mark"});
	let mut chain: Vec<Value> = Vec::new();
	if rng.gen_bool(0.5) { close["close2"] = json!(kind2); }
	chain.push(json!({"op":"mine","who":[AGENT, HARNESS, victim],"agent_htlcs": if rng.gen_bool(0.5) { json!([]) } else { agent_sel(rng) }}));
	for _ in 0..rng.gen_range(0..4) {
		let r = rng.gen_range(0..100);
		if r < 30 { chain.push(json!({"op":"mine","who":[AGENT],"agent_htlcs":agent_sel(rng)})); }
		else if r < 50 { chain.push(json!({"op":"mine","who":[victim, HARNESS]})); }
		else if r < 65 { chain.push(json!({"op":"mine","who":"none","n":rng.gen_range(1..10)})); }
		else if r < 80 { chain.push(json!({"op":"close2","kind":kind2})); }
		else if r < 90 { chain.push(json!({"op":"reload","node":victim})); }
		else { chain.push(json!({"op":"sweep"})); }
	}
	chain.push(json!({"op":"settle"}));
	let mut cfg = json!({"chan_type":types[rng.gen_range(0..3)],"value":1_000_000,"push":([100_000_000u64, 400_000_000, 500_000_000][rng.gen_range(0..3)]),
		"feerate":([253u32, 253, 1000][rng.gen_range(0..3)]),"style":[rng.gen_range(0..11), rng.gen_range(0..11)]});
	cfg["second"] = second_channel(rng, victim);
	cfg["sweep"] = sweep_policy(rng);
	json!({"cfg":cfg,"history":history,"close":close,"chain":chain,"family":"revoked_multi_sweep"})
}

fn random_script(rng: &mut StdRng, profile: &str) -> Value {
	if profile == "c07m" { return multi_sweep_script(rng); }
	if profile == "c06m" { return revoked_multi_sweep_script(rng); }
	if profile == "c07d" { return dup_hash_script(rng); }
	if profile == "c07x" { return competing_commitments_script(rng); }
	if profile == "c07p" { return prev_holder_script(rng); }
	if profile == "c07u" { return honest_unwind_script(rng); }
	if profile == "c07r" { return late_preimage_reorg_script(rng); }
	if profile == "c06t" { return csv_race_script(rng); }
	if profile == "c06s" { return shape_script(rng); }
	if profile == "c06r" { return unwind_script(rng); }
	if profile != "c06" && rng.gen_range(0..100) < 30 { return fee_trajectory_script(rng); }
	let types = ["static", "anchors", "zerofee"];
	let chan_type = types[rng.gen_range(0..3)];
	let feerate = [253u32, 1000, 2500][rng.gen_range(0..3)];
	let styles = [rng.gen_range(0..11), rng.gen_range(0..11)];
	let c06 = profile == "c06";
	let owner = rng.gen_range(0..2);
	let (mut history, npay) = random_history(rng, c06, owner);
	let mut chain: Vec<Value> = Vec::new();
	let close;
	if c06 {
		close = if rng.gen_bool(0.7) { json!({"kind":"revoked","owner":owner,"k":"mark"}) } else { json!({"kind":"revoked","owner":owner,"k":rng.gen_range(0..8)}) };
		let victim = 1 - owner;
		let mut est_v: u32 = if victim == 0 { feerate } else { 253 };
		// the revoked commitment confirms, possibly together with some HTLC-success transactions
		let first = if rng.gen_bool(0.4) { json!([]) } else { agent_sel(rng) };
		chain.push(json!({"op":"mine","who":[AGENT],"agent_htlcs":first}));
		let steps = rng.gen_range(0..6);
		for _ in 0..steps {
			let r = rng.gen_range(0..100);
			if r < 25 {
				chain.push(json!({"op":"mine","who":[AGENT],"agent_htlcs":agent_sel(rng)}));
			} else if r < 35 {
				chain.push(json!({"op":"mine","who":"none","n":rng.gen_range(1..20)}));
			} else if r < 50 {
				chain.push(json!({"op":"mine","who":[victim],"prefer": if rng.gen_bool(0.5) {"new"} else {"old"}}));
			} else if r < 60 {
				chain.push(json!({"op":"reload","node":victim}));
			} else if r < 75 {
				chain.push(json!({"op":"to_expiry","htlc":rng.gen_range(0..4),"who":"none","off":rng.gen_range(0..2)}));
				chain.push(json!({"op":"mine","who":[AGENT],"agent_htlcs":agent_sel(rng)}));
			} else if r < 82 {
				est_v = [253u32, 1000, 5000, 20000][rng.gen_range(0..4)];
				chain.push(json!({"op":"feerate","node":victim,"v":est_v}));
			} else if r < 88 {
				// the estimate rises while a claim is pending; the application asks for a rebroadcast
				est_v = est_v.saturating_mul(rng.gen_range(2..12)).min(40_000);
				chain.push(json!({"op":"feerate","node":victim,"v":est_v}));
				chain.push(json!({"op":"rebroadcast","node":victim}));
			} else if r < 93 {
				chain.push(json!({"op":"rebroadcast","node":victim}));
			} else if r < 96 {
				chain.push(json!({"op":"style","node":victim,"v":rng.gen_range(0..11)}));
			} else {
				chain.push(json!({"op":"mine","who":[AGENT, victim],"agent_htlcs":agent_sel(rng),"prefer": if rng.gen_bool(0.5) {"new"} else {"old"}}));
			}
		}
	} else {
		let r = rng.gen_range(0..100);
		close = if r < 45 { json!({"kind":"force","node":rng.gen_range(0..2),"deliver_error":rng.gen_bool(0.25)}) }
			else if r < 78 { json!({"kind":"counterparty","owner":rng.gen_range(0..2),"which":"current"}) }
			else {
				// the previous commitment is still unrevoked only in the middle of a commitment dance:
				// end the history with an update that stops right after `owner` received the new
				// commitment_signed (2 deliveries if it is the payee, 4 if it is the payer)
				let from = rng.gen_range(0..2);
				let mut h: Vec<Value> = history.iter().filter(|o| !(o["op"] == "deliver") && !(o["op"] == "pay" && o["deliver"] == json!(false))).cloned().collect();
				h.push(json!({"op":"deliver_all"}));
				h.push(json!({"op":"pay","from":from,"amt":(["big", "small", "dust"][rng.gen_range(0..3)]),"deliver":false}));
				h.push(json!({"op":"deliver","n": if owner == 1 - from { 2 } else { 4 }}));
				history = h;
				json!({"kind":"counterparty","owner":owner,"which":"previous"})
			};
		let steps = rng.gen_range(0..6);
		chain.push(json!({"op":"mine","who": if rng.gen_bool(0.8) { json!("all") } else { json!("none") },"n":rng.gen_range(1..3),"prefer": if rng.gen_bool(0.5) {"new"} else {"old"}}));
		for _ in 0..steps {
			let r = rng.gen_range(0..100);
			if r < 20 {
				chain.push(json!({"op":"mine","who":"all","prefer": if rng.gen_bool(0.5) {"new"} else {"old"}}));
			} else if r < 35 {
				chain.push(json!({"op":"mine","who":"none","n":rng.gen_range(1..18)}));
			} else if r < 45 {
				chain.push(json!({"op":"mine","who":[rng.gen_range(0..2), HARNESS]}));
			} else if r < 60 && npay > 0 {
				chain.push(json!({"op":"preimage","pay":rng.gen_range(0..npay)}));
				if rng.gen_bool(0.15) {
					// the tip is replaced right after a claim was made, the claim stays unmined, the
					// application asks for the pending claims again
					if rng.gen_bool(0.3) { chain.push(json!({"op":"mine","who":"none","n":rng.gen_range(1..3)})); }
					chain.push(json!({"op":"reorg","depth":rng.gen_range(1..4),"add":rng.gen_range(1..4)}));
					for n in 0..2 { chain.push(json!({"op":"rebroadcast","node":n})); }
				}
			} else if r < 64 {
				chain.push(json!({"op":"reorg","depth":rng.gen_range(1..4),"add":rng.gen_range(1..3)}));
				for n in 0..2 { chain.push(json!({"op":"rebroadcast","node":n})); }
			} else if r < 70 {
				chain.push(json!({"op":"reload","node":rng.gen_range(0..2)}));
			} else if r < 80 {
				chain.push(json!({"op":"to_expiry","htlc":rng.gen_range(0..4),"who": if rng.gen_bool(0.6) { json!("all") } else { json!("none") },"off":rng.gen_range(-2..2)}));
			} else if r < 90 {
				chain.push(json!({"op":"feerate","node":rng.gen_range(0..2),"v":([253u32, 1000, 5000, 20000][rng.gen_range(0..4)])}));
			} else if r < 95 {
				chain.push(json!({"op":"rebroadcast","node":rng.gen_range(0..2)}));
			} else {
				chain.push(json!({"op":"style","node":rng.gen_range(0..2),"v":rng.gen_range(0..11)}));
			}
		}
	}
	chain.push(json!({"op":"settle"}));
	json!({"cfg":{"chan_type":chan_type,"value":1_000_000,"push":([100_000_000u64, 400_000_000, 500_000_000][rng.gen_range(0..3)]),"feerate":feerate,"style":styles},
		"history":history,"close":close,"chain":chain})
}

fn main() {
	let args: Vec<String> = std::env::args().collect();
	let mut scripts_path = None;
	let mut out = String::from("trace.ndjson");
	let (mut random, mut seed) = (0usize, 1u64);
	let mut profile = String::from("c07");
	let mut i = 1;
	while i < args.len() {
		match args[i].as_str() {
			"--scripts" => { scripts_path = Some(args[i + 1].clone()); i += 1 },
			"--out" => { out = args[i + 1].clone(); i += 1 },
			"--random" => { random = args[i + 1].parse().unwrap(); i += 1 },
			"--seed" => { seed = args[i + 1].parse().unwrap(); i += 1 },
			"--profile" => { profile = args[i + 1].clone(); i += 1 },
			_ => {},
		}
		i += 1;
	}
	let quiet = std::env::var("VERIF_VERBOSE").is_err();
	std::panic::set_hook(Box::new(move |info| {
		let msg = format!("{}", info);
		*LAST_PANIC.lock().unwrap() = msg.chars().take(300).collect();
		if !quiet { eprintln!("PANIC {}", msg); }
	}));
	let mut scripts: Vec<Value> = Vec::new();
	if let Some(p) = scripts_path {
		for line in std::fs::read_to_string(p).unwrap().lines() {
			if !line.trim().is_empty() { scripts.push(serde_json::from_str(line).unwrap()); }
		}
	}
	let mut rng = StdRng::seed_from_u64(seed);
	for k in 0..random {
		let mut sc = random_script(&mut rng, &profile);
		// how the application sweeps (a stream of its own: the schedules of a seed stay what they were); profiles
		// with reorganisations that unconfirm transactions keep one call per descriptor
		if sc["cfg"]["sweep"].is_null() && ["c06", "c06s", "c06t", "c07", "c07d", "c07p"].contains(&profile.as_str()) {
			let mut r2 = StdRng::seed_from_u64(seed.wrapping_mul(0x9e3779b97f4a7c15).wrapping_add(k as u64));
			let r = r2.gen_range(0..100);
			if r < 50 {
				let mode = if r < 20 { "all" } else if r < 35 { "event" } else { "mixed" };
				sc["cfg"]["sweep"] = json!({"mode":mode,"defer":r2.gen_bool(0.3)});
			}
		}
		scripts.push(sc);
	}
	let mut tw = TraceWriter::create(&out);
	let mut sw = TraceWriter::create(&format!("{}.scripts", out));
	let (mut panics, mut executed, mut skipped, mut unrealised, mut setup_fail, mut closed_runs) = (0usize, 0usize, 0usize, 0usize, 0usize, 0usize);
	let mut run = 0u64;
	for s in scripts.iter() {
		let rseed = s["rseed"].as_u64().unwrap_or(seed ^ (run + 1).wrapping_mul(0x9e3779b97f4a7c15) >> 12);
		let mut rr = StdRng::seed_from_u64(rseed);
		let mut log: Vec<Value> = Vec::new();
		let res = catch_unwind(AssertUnwindSafe(|| {
			let mut net = build_net(run + 1, &s["cfg"], rseed);
			for op in s["history"].as_array().unwrap() { net.history_step(op, &mut rr); }
			net.log.clear();
			let ok = net.close(&s["close"]);
			if !ok {
				std::mem::forget(net);
				return (false, false, 0, 0, Vec::new());
			}
			let r2 = catch_unwind(AssertUnwindSafe(|| {
				for op in s["chain"].as_array().unwrap() { net.chain_step(op, &mut rr); }
				net.final_report();
			}));
			let lg = std::mem::take(&mut net.log);
			let (e, sk) = (net.executed, net.skipped);
			std::mem::forget(net);
			(true, r2.is_err(), e, sk, lg)
		}));
		match res {
			Ok((true, inner_panic, e, sk, lg)) => {
				run += 1;
				closed_runs += 1;
				executed += e; skipped += sk;
				log = lg;
				if inner_panic { panics += 1; let m = LAST_PANIC.lock().unwrap().clone(); log.push(json!({"ev":"panic","msg":m})); }
				let mut sj = s.clone();
				sj["run"] = json!(run);
				sj["rseed"] = json!(rseed);
				sw.emit(sj);
			},
			Ok((false, ..)) => { unrealised += 1; },
			Err(_) => { setup_fail += 1; },
		}
		for (q, e) in log.iter().enumerate() {
			let mut e = e.clone();
			e["run"] = json!(run);
			e["seq"] = json!(q + 1);
			tw.emit(e);
		}
	}
	tw.flush();
	sw.flush();
	let summary = json!({"scripts": scripts.len(), "runs": closed_runs, "events": tw.lines, "panics": panics, "executed": executed, "skipped": skipped,
		"unrealised": unrealised, "setup_failures": setup_fail, "setup_panic": if setup_fail > 0 { LAST_PANIC.lock().unwrap().clone() } else { String::new() }});
	std::fs::write(format!("{}.summary", out), summary.to_string()).unwrap();
	eprintln!("SUMMARY {}", summary);
	std::process::exit(0);
}
