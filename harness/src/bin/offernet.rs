//! Engine `offernet`: the BOLT-12 payment flow end to end (part "bolt12-flow" of C03, spec OfferFlow.tla).
//!
//! 2-3 real nodes from `functional_test_utils` (line topology, announced channels so that blinded paths
//! exist). The harness OWNS onion-message delivery: after every step each `OnionMessage` is taken out of the
//! sender with `next_onion_message_for_peer`, classified by peeling it with the key of the node it is
//! addressed to (invoice_request / invoice / invoice_error / a hop of a forwarded message) and parked; the
//! script decides what is delivered (`handle_onion_message`), dropped, delivered twice, replayed later or
//! in another order. HTLC traffic sits on per-link FIFO queues and is pumped to quiescence (`pump`).
//!   user-level steps: offer (own / altered copy / foreign), pay (`pay_for_offer`), refund
//!   (`create_refund_builder`), refund_req (`request_refund_payment`), sendinv
//!   (`send_payment_for_bolt12_invoice` of a handled `Event::InvoiceReceived`), abandon, tick, msgrecv
//!   (`ChannelMessageHandler::message_received`: what a PeerManager calls on any inbound message; it releases
//!   the invoice requests to retransmit), inverr (the payee's user rejects a delivered request with an
//!   `InvoiceError` sent over the request's reply path), claim / failback, hold / handle (events),
//!   save / restart (manager snapshot; `last`: while the monitors have not moved past it, `stale`: after they have --
//!   LDK closes the channel and takes the HTLCs up from the monitors), disconnect / reconnect, settle (everything
//!   held is delivered, claimable payments are claimed or failed back; after a close a miner first mines every
//!   broadcast transaction as soon as it can confirm until all timelocks have expired and records what each mined
//!   transaction shows: commitment of which channel with which outputs, HTLC output of which hash spent with / without
//!   the preimage).
//! It only drives the real code and records what a user / the wire can observe (NDJSON); no verdict here.
//!
//! usage: offernet --scripts FILE --out TRACE [--seed S]
//!        offernet --random N --out TRACE [--seed S] [--nodes 2|3]

use bitcoin::hashes::Hash as _;
use bitcoin::secp256k1::{PublicKey, Secp256k1};
use lightning::blinded_path::message::{BlindedMessagePath, OffersContext};
use lightning::events::{Event, PaymentPurpose};
use lightning::ln::channelmanager::{OptionalOfferPaymentParams, PaymentId, RecentPaymentDetails};
use lightning::ln::functional_test_utils::*;
use lightning::ln::msgs::{self, BaseMessageHandler, ChannelMessageHandler, ErrorAction, MessageSendEvent, OnionMessage, OnionMessageHandler};
use lightning::ln::outbound_payment::{Bolt12PaymentError, Retry};
use lightning::ln::types::ChannelId;
use lightning::offers::invoice::Bolt12Invoice;
use lightning::offers::invoice_error::InvoiceError;
use lightning::offers::offer::{Offer, OfferBuilder};
use lightning::offers::parse::Bolt12SemanticError;
use lightning::offers::refund::Refund;
use lightning::onion_message::messenger::{peel_onion_message, Destination, MessageSendInstructions, PeeledOnion};
use lightning::onion_message::offers::OffersMessage;
use lightning::ln::peer_handler::IgnoringMessageHandler;
use lightning::routing::router::RouteParametersConfig;
use lightning::types::payment::{PaymentHash, PaymentPreimage};
use lightning::util::ser::Writeable;
use lightning::util::test_utils::TestChainMonitor;
use rand::rngs::StdRng;
use rand::{Rng, SeedableRng};
use serde_json::{json, Value};
use std::collections::{HashMap, HashSet, VecDeque};
use std::panic::{catch_unwind, AssertUnwindSafe};
use std::sync::{Arc, Mutex};
use vharness::trace::TraceWriter;

type Log = Arc<Mutex<Vec<Value>>>;
static LAST_PANIC: Mutex<String> = Mutex::new(String::new());

#[derive(Clone)]
enum Wire {
	Add(msgs::UpdateAddHTLC),
	Fulfill(msgs::UpdateFulfillHTLC),
	Fail(msgs::UpdateFailHTLC),
	Malformed(msgs::UpdateFailMalformedHTLC),
	Fee(msgs::UpdateFee),
	CS(Vec<msgs::CommitmentSigned>),
	RAA(msgs::RevokeAndACK),
	Reestablish(msgs::ChannelReestablish),
	ChannelReady(msgs::ChannelReady),
	AnnSigs(msgs::AnnouncementSignatures),
	ChanUpdate(msgs::ChannelUpdate),
	Error(msgs::ErrorMessage),
}

/// An onion message the harness holds: taken out of `from` for its peer `to`.
#[derive(Clone)]
struct OMsg {
	k: u64,
	from: usize,
	to: usize,
	/// the node that created the message (a forwarded message keeps the origin of the hop before)
	origin: usize,
	msg: OnionMessage,
	/// "invreq" | "invoice" | "inverr" | "fwd" | "other"  (what `to` finds when it peels the message)
	kind: &'static str,
	/// index of the pay / refund call whose payer key the request / invoice carries (0: none / unknown)
	call: usize,
	pid: i64,
	hash: usize,
	amt: u64,
	off: usize,
	reply_path: Option<BlindedMessagePath>,
	deliveries: u32,
}

struct OfferRec {
	node: usize,
	offer: Offer,
	amt: u64,
	variant: String,
}

struct CallRec {
	node: usize,
	pid: i64,
	kind: &'static str,
	off: usize,
	amt: u64,
	ok: bool,
	refund: Option<Refund>,
}

struct Chan {
	a: usize,
	b: usize,
	cid: ChannelId,
}

struct Net {
	nodes: Vec<Node<'static, 'static, 'static>>,
	cfgs: &'static Vec<TestChanMonCfg>,
	queues: HashMap<(usize, usize), VecDeque<Wire>>,
	connected: HashMap<(usize, usize), bool>,
	log: Log,
	chans: Vec<Chan>,
	hashes: Vec<[u8; 32]>,
	manual: Vec<bool>,
	hold: Vec<bool>,
	// onion messages
	oms: Vec<OMsg>,
	stash: Vec<OMsg>,
	next_k: u64,
	parent_origin: Option<usize>,
	// offers, calls
	offers: Vec<OfferRec>,
	offer_ids: HashMap<[u8; 32], usize>,
	offer_descs: HashMap<(String, u64), usize>,
	calls: Vec<CallRec>,
	keys: HashMap<PublicKey, usize>,
	/// reply path of the request of call c as delivered to node n
	reply_paths: HashMap<usize, (usize, BlindedMessagePath)>,
	/// invoices of handled `InvoiceReceived` events: (node, pid, hash index, invoice, context)
	invoices: Vec<(usize, i64, usize, Bolt12Invoice, Option<OffersContext>)>,
	/// payments a node's user may claim: (node, hash, preimage)
	claimables: Vec<(usize, PaymentHash, PaymentPreimage)>,
	/// manager snapshot, number of monitor writes at that time, payment ids listed then
	saves: Vec<Option<(Vec<u8>, u64, Vec<i64>)>>,
	failed_since_save: Vec<Vec<i64>>,
	/// whether none of the node's own HTLCs waited in a holding cell when the snapshot was taken; whether its user has
	/// handled a PaymentSent since; payment ids accepted so far / whether one was accepted twice
	idle_at_save: Vec<bool>,
	sent_since_save: Vec<bool>,
	accepted_ids: Vec<i64>,
	id_reused: bool,
	last_recent: Vec<Value>,
	/// the miner: broadcast and not yet confirmed transactions, confirmed txids, spent outpoints,
	/// funding txid -> channel, confirmed commitment txid -> channel
	mempool: Vec<bitcoin::Transaction>,
	confirmed: HashSet<bitcoin::Txid>,
	seen_txids: HashSet<bitcoin::Txid>,
	spent: HashSet<bitcoin::OutPoint>,
	funding: Vec<(bitcoin::Txid, usize)>,
	commit_chan: HashMap<bitcoin::Txid, usize>,
	max_cltv: u32,
	time: u32,
	closed_seen: bool,
	settled: bool,
	mined_any: bool,
	run: u64,
	executed: usize,
	skipped: usize,
	restarts: usize,
}

fn leak<T>(t: T) -> &'static T {
	Box::leak(Box::new(t))
}

fn pid_of(i: i64) -> PaymentId {
	let mut b = [0x70u8; 32];
	b[0] = i as u8;
	b[1] = (i >> 8) as u8;
	PaymentId(b)
}

fn pid_index(p: &PaymentId) -> i64 {
	if p.0[2..].iter().all(|x| *x == 0x70) { p.0[0] as i64 + ((p.0[1] as i64) << 8) } else { -1 }
}

fn semantic(e: &Bolt12SemanticError) -> String {
	format!("{:?}", e)
}

/// A copy of `offer` whose amount TLV (type 8) was changed: the offer still parses (offers are not signed),
/// but it is no longer what its issuer created.
fn tamper_amount(offer: &Offer, new_amt: u64) -> Option<Offer> {
	let bytes = offer.encode();
	let mut out: Vec<u8> = Vec::new();
	let mut i = 0usize;
	let mut done = false;
	fn bigsize(b: &[u8], i: &mut usize) -> Option<u64> {
		let f = *b.get(*i)?;
		*i += 1;
		Some(match f {
			0xfd => { let v = u16::from_be_bytes([*b.get(*i)?, *b.get(*i + 1)?]) as u64; *i += 2; v },
			0xfe => { let v = u32::from_be_bytes([*b.get(*i)?, *b.get(*i + 1)?, *b.get(*i + 2)?, *b.get(*i + 3)?]) as u64; *i += 4; v },
			0xff => return None,
			x => x as u64,
		})
	}
	while i < bytes.len() {
		let start = i;
		let t = bigsize(&bytes, &mut i)?;
		let l = bigsize(&bytes, &mut i)? as usize;
		if i + l > bytes.len() { return None; }
		if t == 8 {
			let mut v = new_amt.to_be_bytes().to_vec();
			while v.first() == Some(&0) { v.remove(0); }
			out.push(8);
			out.push(v.len() as u8);
			out.extend_from_slice(&v);
			done = true;
		} else {
			out.extend_from_slice(&bytes[start..i + l]);
		}
		i += l;
	}
	if !done { return None; }
	Offer::try_from(out).ok()
}

impl Net {
	fn ev(&self, v: Value) {
		self.log.lock().unwrap().push(v);
	}
	fn idx_of(&self, pk: &PublicKey) -> Option<usize> {
		self.nodes.iter().position(|n| n.node.get_our_node_id() == *pk)
	}
	fn chan(&self, c: &ChannelId) -> usize {
		self.chans.iter().position(|x| x.cid == *c).map(|p| p + 1).unwrap_or(0)
	}
	fn hash(&mut self, h: &[u8; 32]) -> usize {
		if let Some(p) = self.hashes.iter().position(|x| x == h) { return p + 1; }
		self.hashes.push(*h);
		self.hashes.len()
	}
	fn key(a: usize, b: usize) -> (usize, usize) {
		(a.min(b), a.max(b))
	}
	fn is_connected(&self, a: usize, b: usize) -> bool {
		*self.connected.get(&Self::key(a, b)).unwrap_or(&false)
	}
	/// how far the node's monitors have got (sum of their latest update ids)
	fn writes(&self, i: usize) -> u64 {
		let cm = &self.nodes[i].chain_monitor.chain_monitor;
		cm.list_monitors().iter().map(|c| cm.get_monitor(*c).map(|m| m.get_latest_update_id()).unwrap_or(0)).sum()
	}

	// ------------------------------------------------------------------------------------ HTLC traffic

	fn describe(&mut self, w: &Wire) -> Option<Value> {
		match w {
			Wire::Add(m) => { if m.cltv_expiry > self.max_cltv { self.max_cltv = m.cltv_expiry; } Some(json!({"kind":"update_add_htlc","chan":self.chan(&m.channel_id),"id":m.htlc_id,"amt":m.amount_msat,"hash":self.hash(&m.payment_hash.0)})) },
			Wire::Fulfill(m) => {
				let h = bitcoin::hashes::sha256::Hash::hash(&m.payment_preimage.0).to_byte_array();
				Some(json!({"kind":"update_fulfill_htlc","chan":self.chan(&m.channel_id),"id":m.htlc_id,"amt":0,"hash":self.hash(&h)}))
			},
			Wire::Fail(m) => Some(json!({"kind":"update_fail_htlc","chan":self.chan(&m.channel_id),"id":m.htlc_id,"amt":0,"hash":0})),
			Wire::Malformed(m) => Some(json!({"kind":"update_fail_htlc","chan":self.chan(&m.channel_id),"id":m.htlc_id,"amt":0,"hash":0})),
			Wire::Error(m) => Some(json!({"kind":"error","chan":self.chan(&m.channel_id),"id":0,"amt":0,"hash":0,"data":m.data})),
			_ => None,
		}
	}

	fn enqueue(&mut self, from: usize, to_pk: &PublicKey, w: Wire) {
		let to = match self.idx_of(to_pk) { Some(t) => t, None => return };
		if let Some(mut d) = self.describe(&w) {
			d["ev"] = json!("htlc");
			d["from"] = json!(from);
			d["to"] = json!(to);
			self.ev(d);
		}
		if !self.is_connected(from, to) { return; }
		self.queues.entry((from, to)).or_default().push_back(w);
	}

	fn deliver_wire(&mut self, from: usize, to: usize) -> bool {
		let w = match self.queues.get_mut(&(from, to)).and_then(|q| q.pop_front()) { Some(w) => w, None => return false };
		if let Some(mut d) = self.describe(&w) {
			d["ev"] = json!("hdeliver");
			d["from"] = json!(from);
			d["to"] = json!(to);
			self.ev(d);
		}
		let from_pk = self.nodes[from].node.get_our_node_id();
		let n = &self.nodes[to].node;
		match w {
			Wire::Add(m) => n.handle_update_add_htlc(from_pk, &m),
			Wire::Fulfill(m) => n.handle_update_fulfill_htlc(from_pk, m),
			Wire::Fail(m) => n.handle_update_fail_htlc(from_pk, &m),
			Wire::Malformed(m) => n.handle_update_fail_malformed_htlc(from_pk, &m),
			Wire::Fee(m) => n.handle_update_fee(from_pk, &m),
			Wire::CS(m) => { if m.len() == 1 { n.handle_commitment_signed(from_pk, &m[0]) } else { n.handle_commitment_signed_batch_test(from_pk, &m) } },
			Wire::RAA(m) => n.handle_revoke_and_ack(from_pk, &m),
			Wire::Reestablish(m) => n.handle_channel_reestablish(from_pk, &m),
			Wire::ChannelReady(m) => n.handle_channel_ready(from_pk, &m),
			Wire::AnnSigs(m) => n.handle_announcement_signatures(from_pk, &m),
			Wire::ChanUpdate(m) => n.handle_channel_update(from_pk, &m),
			Wire::Error(m) => n.handle_error(from_pk, &m),
		}
		self.drain();
		true
	}

	/// Deliver all HTLC traffic and run the forwarding step of every node until nothing moves.
	fn pump(&mut self) -> usize {
		let mut moved = 0;
		for _ in 0..400 {
			let mut any = false;
			let links: Vec<(usize, usize)> = self.queues.iter().filter(|(_, q)| !q.is_empty()).map(|(k, _)| *k).collect();
			let mut links = links;
			links.sort();
			for (f, t) in links {
				while self.deliver_wire(f, t) { any = true; moved += 1; if moved > 5000 { return moved; } }
			}
			for i in 0..self.nodes.len() {
				if self.nodes[i].node.needs_pending_htlc_processing() {
					let mark = self.log.lock().unwrap().len();
					self.nodes[i].node.process_pending_htlc_forwards();
					self.drain();
					if self.log.lock().unwrap().len() > mark || self.queues.values().any(|q| !q.is_empty()) { any = true; }
				}
			}
			if !any { break; }
		}
		moved
	}

	// ------------------------------------------------------------------------------------ onion messages

	/// Take every onion message out of every node; classify it with the key of the node it is addressed to.
	fn drain_om(&mut self) {
		let n = self.nodes.len();
		let secp = Secp256k1::new();
		for i in 0..n {
			for j in 0..n {
				if i == j || !self.is_connected(i, j) { continue; }
				let pk_j = self.nodes[j].node.get_our_node_id();
				while let Some(msg) = self.nodes[i].onion_messenger.next_onion_message_for_peer(pk_j) {
					self.next_k += 1;
					let mut om = OMsg { k: self.next_k, from: i, to: j, origin: self.parent_origin.unwrap_or(i), msg: msg.clone(), kind: "other",
						call: 0, pid: 0, hash: 0, amt: 0, off: 0, reply_path: None, deliveries: 0 };
					let peeled = peel_onion_message(&msg, &secp, self.nodes[j].keys_manager, self.nodes[j].logger, &IgnoringMessageHandler {});
					match peeled {
						Ok(PeeledOnion::Forward(_, _)) => { om.kind = "fwd"; },
						Ok(PeeledOnion::Offers(m, ctx, reply)) => match m {
							OffersMessage::InvoiceRequest(ir) => {
								om.kind = "invreq";
								let key = ir.payer_signing_pubkey();
								// every pay_for_offer call of the harness carries its number as payer note
								if !self.keys.contains_key(&key) {
									let note = ir.payer_note().map(|n| n.to_string()).unwrap_or_default();
									if let Some(c) = note.strip_prefix("call-").and_then(|x| x.parse::<usize>().ok()) {
										if c >= 1 && c <= self.calls.len() { self.keys.insert(key, c); }
									}
								}
								om.call = *self.keys.get(&key).unwrap_or(&0);
								if om.call > 0 { om.pid = self.calls[om.call - 1].pid; }
								om.amt = ir.amount_msats().unwrap_or(0);
								let oamt = match ir.amount() { Some(lightning::offers::offer::Amount::Bitcoin { amount_msats }) => amount_msats, _ => 0 };
							om.off = *self.offer_descs.get(&(ir.description().map(|d| d.to_string()).unwrap_or_default(), oamt)).unwrap_or(&0);
								om.reply_path = reply;
							},
							OffersMessage::Invoice(inv) => {
								om.kind = "invoice";
								let key = inv.payer_signing_pubkey();
								om.call = *self.keys.get(&key).unwrap_or(&0);
								if om.call > 0 { om.pid = self.calls[om.call - 1].pid; }
								om.hash = self.hash(&inv.payment_hash().0);
								om.amt = inv.amount_msats();
								om.off = inv.offer_id().and_then(|o| self.offer_ids.get(&o.0).cloned()).unwrap_or(0);
							},
							OffersMessage::InvoiceError(_) => {
								om.kind = "inverr";
								om.pid = match ctx {
									Some(OffersContext::OutboundPaymentForOffer { payment_id, .. }) => pid_index(&payment_id),
									Some(OffersContext::OutboundPaymentForRefund { payment_id, .. }) => pid_index(&payment_id),
									_ => 0,
								};
							},
							_ => {},
						},
						_ => {},
					}
					self.ev(json!({"ev":"om","k":om.k,"from":i,"to":j,"origin":om.origin,"kind":om.kind,"call":om.call,"pid":om.pid,"hash":om.hash,"amt":om.amt,"off":om.off}));
					self.oms.push(om);
				}
			}
		}
	}

	/// Hand a held message to its addressee (`keep`: a copy stays with the harness, to be delivered again).
	fn deliver_om(&mut self, pos: usize, keep: bool, from_stash: bool) {
		let mut om = if from_stash { self.stash[pos].clone() } else if keep { self.oms[pos].clone() } else { self.oms.remove(pos) };
		om.deliveries += 1;
		if from_stash { self.stash[pos].deliveries += 1; } else if keep { self.oms[pos].deliveries += 1; }
		let fin = om.kind != "fwd";
		self.ev(json!({"ev":"deliver","k":om.k,"from":om.from,"to":om.to,"origin":om.origin,"kind":om.kind,"call":om.call,"pid":om.pid,"hash":om.hash,"amt":om.amt,"off":om.off,
			"final":fin,"nth":om.deliveries}));
		if om.kind == "invreq" {
			if let Some(p) = om.reply_path.clone() { if om.call > 0 { self.reply_paths.insert(om.call, (om.to, p)); } }
		}
		let from_pk = self.nodes[om.from].node.get_our_node_id();
		// what a PeerManager does on every inbound message, before handing it to the handler
		if !from_stash && !keep { self.stash.push(om.clone()); }
		self.nodes[om.to].onion_messenger.handle_onion_message(from_pk, &om.msg);
		// messages that leave `to` in this step continue the journey of a forwarded message
		self.parent_origin = if om.kind == "fwd" { Some(om.origin) } else { None };
		self.drain();
		self.parent_origin = None;
	}

	fn find_om(&self, op: &Value, list: &[OMsg]) -> Option<usize> {
		let kind = op["kind"].as_str();
		let pid = op["pid"].as_i64();
		let to = op["to"].as_u64().map(|x| x as usize);
		let call = op["call"].as_u64().map(|x| x as usize);
		let nth = op["n"].as_u64().unwrap_or(0) as usize;
		let newest = op["newest"].as_bool().unwrap_or(false);
		let m: Vec<usize> = (0..list.len()).filter(|&p| {
			let o = &list[p];
			// a request / invoice that is still wrapped for a forwarding node is found through the message it will become
			kind.map_or(true, |k| o.kind == k || (k != "fwd" && o.kind == "fwd" && op["via_fwd"].as_bool().unwrap_or(true)))
				&& pid.map_or(true, |x| o.pid == x || o.kind == "fwd")
				&& to.map_or(true, |x| o.to == x)
				&& call.map_or(true, |x| o.call == x)
		}).collect();
		if m.is_empty() { return None; }
		if newest { return m.last().cloned(); }
		m.get(nth).cloned()
	}

	// ------------------------------------------------------------------------------------ events

	fn drain(&mut self) {
		for _ in 0..8 {
			if !self.drain_once() { break; }
		}
	}

	fn drain_once(&mut self) -> bool {
		let mut handled = 0;
		for i in 0..self.nodes.len() {
			let evs = self.nodes[i].node.get_and_clear_pending_msg_events();
			for e in evs {
				match e {
					MessageSendEvent::UpdateHTLCs { node_id, updates, .. } => {
						for m in updates.update_add_htlcs { self.enqueue(i, &node_id, Wire::Add(m)); }
						for m in updates.update_fulfill_htlcs { self.enqueue(i, &node_id, Wire::Fulfill(m)); }
						for m in updates.update_fail_htlcs { self.enqueue(i, &node_id, Wire::Fail(m)); }
						for m in updates.update_fail_malformed_htlcs { self.enqueue(i, &node_id, Wire::Malformed(m)); }
						if let Some(m) = updates.update_fee { self.enqueue(i, &node_id, Wire::Fee(m)); }
						if !updates.commitment_signed.is_empty() { self.enqueue(i, &node_id, Wire::CS(updates.commitment_signed)); }
					},
					MessageSendEvent::SendRevokeAndACK { node_id, msg } => self.enqueue(i, &node_id, Wire::RAA(msg)),
					MessageSendEvent::SendChannelReestablish { node_id, msg } => self.enqueue(i, &node_id, Wire::Reestablish(msg)),
					MessageSendEvent::SendChannelReady { node_id, msg } => self.enqueue(i, &node_id, Wire::ChannelReady(msg)),
					MessageSendEvent::SendAnnouncementSignatures { node_id, msg } => self.enqueue(i, &node_id, Wire::AnnSigs(msg)),
					MessageSendEvent::SendChannelUpdate { node_id, msg } => self.enqueue(i, &node_id, Wire::ChanUpdate(msg)),
					MessageSendEvent::HandleError { node_id, action } => match action {
						ErrorAction::SendErrorMessage { msg } => self.enqueue(i, &node_id, Wire::Error(msg)),
						ErrorAction::DisconnectPeer { msg: Some(msg) } => self.enqueue(i, &node_id, Wire::Error(msg)),
						_ => {},
					},
					_ => {},
				}
			}
			if !self.hold[i] { handled += self.fetch_events(i); }
			let txs: Vec<_> = self.nodes[i].tx_broadcaster.txn_broadcasted.lock().unwrap().drain(..).collect();
			self.nodes[i].tx_broadcaster.txn_types.lock().unwrap().clear();
			if !txs.is_empty() {
				self.closed_seen = true;
				let mut fresh = 0;
				for tx in txs {
					let txid = tx.compute_txid();
					if !self.seen_txids.insert(txid) { continue; }
					fresh += 1;
					if !self.confirmed.contains(&txid) && !tx.input.iter().any(|x| self.spent.contains(&x.previous_output)) { self.mempool.push(tx); }
				}
				if fresh > 0 { self.ev(json!({"ev":"broadcast","node":i,"n":fresh})); }
			}
		}
		self.drain_om();
		handled > 0
	}

	fn fetch_events(&mut self, i: usize) -> usize {
		let events = self.nodes[i].node.get_and_clear_pending_events();
		let n = events.len();
		for e in events { self.log_event(i, e); }
		n
	}

	fn log_event(&mut self, i: usize, e: Event) {
		match e {
			Event::PaymentClaimable { payment_hash, amount_msat, purpose, .. } => {
				let h = self.hash(&payment_hash.0);
				let (p, off) = match &purpose {
					PaymentPurpose::Bolt12OfferPayment { payment_context, .. } => ("offer", *self.offer_ids.get(&payment_context.offer_id.0).unwrap_or(&0) as i64),
					PaymentPurpose::Bolt12RefundPayment { .. } => ("refund", 0),
					_ => ("other", -1),
				};
				if let Some(pre) = purpose.preimage() {
					if !self.claimables.iter().any(|c| c.0 == i && c.1 == payment_hash) { self.claimables.push((i, payment_hash, pre)); }
				}
				self.ev(json!({"ev":"event","node":i,"kind":"PaymentClaimable","hash":h,"amt":amount_msat,"purpose":p,"off":off}));
			},
			Event::PaymentClaimed { payment_hash, amount_msat, .. } => {
				let h = self.hash(&payment_hash.0);
				self.ev(json!({"ev":"event","node":i,"kind":"PaymentClaimed","hash":h,"amt":amount_msat}));
			},
			Event::PaymentSent { payment_id, payment_hash, payment_preimage, amount_msat, .. } => {
				let h = self.hash(&payment_hash.0);
				let ph = bitcoin::hashes::sha256::Hash::hash(&payment_preimage.0).to_byte_array();
				self.sent_since_save[i] = true;
				self.ev(json!({"ev":"event","node":i,"kind":"PaymentSent","pid":payment_id.map(|p| pid_index(&p)).unwrap_or(-1),"hash":h,
					"preimage_ok": ph == payment_hash.0,"amt":amount_msat.map(|f| f as i64).unwrap_or(-1)}));
			},
			Event::PaymentFailed { payment_id, payment_hash, reason } => {
				let h = payment_hash.map(|p| self.hash(&p.0)).unwrap_or(0);
				let r: String = match reason { Some(r) => format!("{:?}", r), None => "None".to_string() };
				let p = pid_index(&payment_id);
				self.failed_since_save[i].push(p);
				self.ev(json!({"ev":"event","node":i,"kind":"PaymentFailed","pid":p,"hash":h,"reason":r}));
			},
			Event::InvoiceReceived { payment_id, invoice, context, .. } => {
				let h = self.hash(&invoice.payment_hash().0);
				let p = pid_index(&payment_id);
				let amt = invoice.amount_msats();
				self.invoices.push((i, p, h, invoice, context));
				self.ev(json!({"ev":"event","node":i,"kind":"InvoiceReceived","pid":p,"hash":h,"amt":amt}));
			},
			Event::HTLCHandlingFailed { failure_type, .. } => {
				// a payment the node failed back is no longer claimable
				if let lightning::events::HTLCHandlingFailureType::Receive { payment_hash } = &failure_type {
					self.claimables.retain(|c| !(c.0 == i && c.1 == *payment_hash));
				}
				let t: String = format!("{:?}", failure_type).chars().take_while(|c| c.is_alphanumeric()).collect();
				self.ev(json!({"ev":"event","node":i,"kind":"HTLCHandlingFailed","type":t}));
			},
			Event::ChannelClosed { channel_id, reason, .. } => {
				let c = self.chan(&channel_id);
				self.closed_seen = true;
				let r: String = format!("{:?}", reason).chars().take_while(|c| c.is_alphanumeric()).collect();
				self.ev(json!({"ev":"event","node":i,"kind":"ChannelClosed","chan":c,"reason":r}));
			},
			other => {
				let t: String = format!("{:?}", other).chars().take_while(|c| c.is_alphanumeric()).collect();
				self.ev(json!({"ev":"event","node":i,"kind":t}));
			},
		}
	}

	/// Mine one block with every broadcast transaction that can confirm now and hand it to every node. What each mined
	/// transaction shows to anyone reading the chain is recorded: a spend of a funding output is a commitment
	/// transaction of that channel (with its output values); a spend of a commitment output whose witness script
	/// commits to a payment hash of the run is the resolution of that HTLC, with the preimage (a claim) or without.
	fn mine_block(&mut self) {
		let n = self.nodes.len();
		let h0 = self.nodes[0].best_block_info().1;
		if (1..n).any(|i| self.nodes[i].best_block_info().1 != h0) { self.ev(json!({"ev":"mine_skipped"})); return; }
		let newh = h0 + 1;
		let mut txs: Vec<bitcoin::Transaction> = Vec::new();
		let mut in_block: HashSet<bitcoin::Txid> = HashSet::new();
		let pool_ids: HashSet<bitcoin::Txid> = self.mempool.iter().map(|m| m.compute_txid()).collect();
		let mut taken: Vec<usize> = Vec::new();
		for (k, tx) in self.mempool.iter().enumerate() {
			let parents_ok = tx.input.iter().all(|i| {
				let p = i.previous_output.txid;
				!in_block.contains(&p) && (!pool_ids.contains(&p) || self.confirmed.contains(&p))
			});
			if !parents_ok { continue; }
			if tx.input.iter().any(|i| self.spent.contains(&i.previous_output)) { continue; }
			if tx.lock_time.is_block_height() && tx.lock_time.to_consensus_u32() >= newh { continue; }
			for i in tx.input.iter() { self.spent.insert(i.previous_output); }
			in_block.insert(tx.compute_txid());
			txs.push(tx.clone());
			taken.push(k);
		}
		for t in in_block.iter() { self.confirmed.insert(*t); }
		let spent = self.spent.clone();
		let mut k = 0;
		self.mempool.retain(|m| { let keep = !taken.contains(&k) && !m.input.iter().any(|i| spent.contains(&i.previous_output)); k += 1; keep });
		self.time += 1;
		for i in 0..n {
			let block = create_dummy_block(self.nodes[i].best_block_hash(), self.time, txs.clone());
			connect_block(&self.nodes[i], &block);
		}
		if !txs.is_empty() {
			self.mined_any = true;
			self.ev(json!({"ev":"block","height":newh,"mined":txs.len()}));
		}
		let ripe: Vec<[u8; 20]> = self.hashes.iter().map(|h| bitcoin::hashes::ripemd160::Hash::hash(h).to_byte_array()).collect();
		for tx in txs.iter() {
			if let Some(c) = tx.input.iter().find_map(|i| self.funding.iter().find(|f| f.0 == i.previous_output.txid).map(|f| f.1)) {
				self.commit_chan.insert(tx.compute_txid(), c);
				let outs: Vec<u64> = tx.output.iter().map(|o| o.value.to_sat()).collect();
				self.ev(json!({"ev":"chain","what":"commitment","chan":c,"outs":outs,"hash":0,"preimage":false}));
				continue;
			}
			for inp in tx.input.iter() {
				let c = match self.commit_chan.get(&inp.previous_output.txid) { Some(c) => *c, None => continue };
				let script: &[u8] = match inp.witness.last() { Some(s) => s, None => continue };
				let h = match ripe.iter().position(|r| script.windows(20).any(|w| w == r)) { Some(p) => p + 1, None => continue };
				let pre = inp.witness.iter().any(|e| e.len() == 32 && bitcoin::hashes::sha256::Hash::hash(e).to_byte_array() == self.hashes[h - 1]);
				self.ev(json!({"ev":"chain","what":"htlc","chan":c,"outs":[],"hash":h,"preimage":pre}));
			}
		}
		self.drain();
	}

	/// Everything that was broadcast is mined at once, block after block, until every timelock of the run has expired; the
	/// users handle their events and claim what they are shown (`fail`: they claim nothing), all links are up.
	fn settle_chain(&mut self, fail: bool) {
		let n = self.nodes.len();
		for i in 0..n { self.hold[i] = false; }
		for a in 0..n { for b in a + 1..n { self.do_reconnect(a, b); } }
		self.drain();
		self.pump();
		if !fail { self.op_claim(&json!({}), true); self.pump(); }
		self.ev(json!({"ev":"settle_chain"}));
		let height = self.nodes[0].best_block_info().1;
		let rounds = self.max_cltv.saturating_sub(height) + 40;
		let mut idle_rounds = 0;
		for r in 0..rounds + 400 {
			let before = self.log.lock().unwrap().len();
			self.mine_block();
			self.pump();
			if !fail && self.op_claim(&json!({}), true) { self.pump(); }
			let quiet = self.log.lock().unwrap().len() == before;
			if quiet { idle_rounds += 1; } else { idle_rounds = 0; }
			if r >= rounds && idle_rounds >= 20 { break; }
		}
		self.ev(json!({"ev":"settled","mempool":self.mempool.len()}));
		self.settled = true;
	}

	fn log_recent(&mut self, i: usize, force: bool) {
		let mut l: Vec<(i64, &'static str)> = self.nodes[i].node.list_recent_payments().iter().map(|r| match r {
			RecentPaymentDetails::Pending { payment_id, .. } => (pid_index(payment_id), "pending"),
			RecentPaymentDetails::Fulfilled { payment_id, .. } => (pid_index(payment_id), "fulfilled"),
			RecentPaymentDetails::Abandoned { payment_id, .. } => (pid_index(payment_id), "abandoned"),
			RecentPaymentDetails::AwaitingInvoice { payment_id } => (pid_index(payment_id), "awaiting"),
		}).collect();
		l.sort();
		let v = json!(l.iter().map(|(p, s)| json!({"pid": p, "st": s})).collect::<Vec<_>>());
		if force || self.last_recent[i] != v {
			self.last_recent[i] = v.clone();
			self.ev(json!({"ev":"recent","node":i,"list":v,"after_restart":force}));
		}
	}

	// ------------------------------------------------------------------------------------ connections

	fn do_disconnect(&mut self, a: usize, b: usize) -> bool {
		if !self.is_connected(a, b) { return false; }
		self.connected.insert(Self::key(a, b), false);
		self.ev(json!({"ev":"disconnect","a":a,"b":b}));
		self.queues.remove(&(a, b));
		self.queues.remove(&(b, a));
		let (pa, pb) = (self.nodes[a].node.get_our_node_id(), self.nodes[b].node.get_our_node_id());
		self.nodes[a].node.peer_disconnected(pb);
		self.nodes[b].node.peer_disconnected(pa);
		self.nodes[a].onion_messenger.peer_disconnected(pb);
		self.nodes[b].onion_messenger.peer_disconnected(pa);
		self.drain();
		true
	}

	fn do_reconnect(&mut self, a: usize, b: usize) -> bool {
		if self.is_connected(a, b) || !self.connected.contains_key(&Self::key(a, b)) { return false; }
		self.connected.insert(Self::key(a, b), true);
		self.ev(json!({"ev":"reconnect","a":a,"b":b}));
		let (pa, pb) = (self.nodes[a].node.get_our_node_id(), self.nodes[b].node.get_our_node_id());
		// (the features of all message handlers of the node, onion messages among them)
		let init_b = msgs::Init { features: self.nodes[b].init_features(pa), networks: None, remote_network_address: None };
		let init_a = msgs::Init { features: self.nodes[a].init_features(pb), networks: None, remote_network_address: None };
		self.nodes[a].node.peer_connected(pb, &init_b, true).unwrap();
		self.nodes[b].node.peer_connected(pa, &init_a, false).unwrap();
		self.nodes[a].onion_messenger.peer_connected(pb, &init_b, true).unwrap();
		self.nodes[b].onion_messenger.peer_connected(pa, &init_a, false).unwrap();
		self.drain();
		true
	}

	// ------------------------------------------------------------------------------------ user steps

	fn op_offer(&mut self, op: &Value) -> bool {
		let node = op["node"].as_u64().unwrap_or(0) as usize;
		if node >= self.nodes.len() { return false; }
		let amt = op["amt"].as_u64().unwrap_or(5_000_000);
		let variant = op["variant"].as_str().unwrap_or("own").to_string();
		let desc = format!("off-{}-{}", self.run, self.offers.len() + 1);
		let (offer, base) = match variant.as_str() {
			"own" => match self.nodes[node].node.create_offer_builder() {
				Ok(b) => match b.amount_msats(amt).description(desc).build() { Ok(o) => (o, 0), Err(_) => return false },
				Err(_) => return false,
			},
			// an altered copy of an offer the node created
			"tampered" => {
				let base = op["base"].as_u64().unwrap_or(0) as usize;
				if base == 0 || base > self.offers.len() || self.offers[base - 1].variant != "own" || self.offers[base - 1].node != node { return false; }
				match tamper_amount(&self.offers[base - 1].offer, amt) { Some(o) if o.id() != self.offers[base - 1].offer.id() => (o, base), _ => return false }
			},
			// an offer naming the node as its issuer that the node never created (no key material of the node went into it)
			"foreign" => match OfferBuilder::new(self.nodes[node].node.get_our_node_id()).amount_msats(amt).description(desc).build() {
				Ok(o) => (o, 0), Err(_) => return false,
			},
			_ => return false,
		};
		self.offer_ids.insert(offer.id().0, self.offers.len() + 1);
		self.offer_descs.insert((offer.description().map(|d| d.to_string()).unwrap_or_default(), amt), self.offers.len() + 1);
		self.offers.push(OfferRec { node, offer, amt, variant: variant.clone() });
		self.ev(json!({"ev":"offer","node":node,"off":self.offers.len(),"amt":amt,"variant":variant,"base":base}));
		true
	}

	fn op_pay(&mut self, op: &Value) -> bool {
		let node = op["node"].as_u64().unwrap_or(0) as usize;
		let mut off = op["off"].as_u64().unwrap_or(0) as usize;
		if node >= self.nodes.len() || off == 0 || off > self.offers.len() { return false; }
		let pid = (node as i64) * 100 + op["id"].as_i64().unwrap_or(1);
		// `alt_off`: the offer the user names if the id is in use (list_recent_payments lists it): a call that is going to be
		// refused asks for ANOTHER offer -- a refused call must have no effect whatever it names
		if let Some(a) = op["alt_off"].as_u64() {
			let a = a as usize;
			if a >= 1 && a <= self.offers.len() && self.listed(node).contains(&pid) { off = a; }
		}
		if !self.hold[node] { self.drain(); }
		let handled = !self.hold[node];
		let retries = op["retries"].as_u64().unwrap_or(0) as u32;
		let offer = self.offers[off - 1].offer.clone();
		let (amt, ok) = (self.offers[off - 1].amt, self.offers[off - 1].variant == "own");
		self.calls.push(CallRec { node, pid, kind: "offer", off, amt, ok, refund: None });
		let c = self.calls.len();
		let params = OptionalOfferPaymentParams { payer_note: Some(format!("call-{}", c)), route_params_config: RouteParametersConfig::default(), retry_strategy: Retry::Attempts(retries) };
		let res = self.nodes[node].node.pay_for_offer(&offer, None, pid_of(pid), params);
		let (r, err) = match &res { Ok(()) => ("ok", String::new()), Err(Bolt12SemanticError::DuplicatePaymentId) => ("dup", "DuplicatePaymentId".to_string()), Err(e) => ("err", semantic(e)) };
		if r == "ok" { self.failed_since_save[node].retain(|x| *x != pid); if self.accepted_ids.contains(&pid) { self.id_reused = true; } else { self.accepted_ids.push(pid); } }
		self.ev(json!({"ev":"pay","node":node,"call":c,"pid":pid,"kind":"offer","off":off,"amt":amt,"okoffer":ok,"manual":self.manual[node],"handled":handled,"res":r,"err":err}));
		self.drain();
		true
	}

	fn op_refund(&mut self, op: &Value) -> bool {
		let node = op["node"].as_u64().unwrap_or(0) as usize;
		if node >= self.nodes.len() { return false; }
		let pid = (node as i64) * 100 + op["id"].as_i64().unwrap_or(1);
		let amt = op["amt"].as_u64().unwrap_or(5_000_000);
		if !self.hold[node] { self.drain(); }
		let handled = !self.hold[node];
		let retries = op["retries"].as_u64().unwrap_or(0) as u32;
		let expiry = core::time::Duration::from_secs(u64::MAX);
		let res = self.nodes[node].node.create_refund_builder(amt, expiry, pid_of(pid), Retry::Attempts(retries), RouteParametersConfig::default())
			.and_then(|b| b.description(format!("refund-{}-{}", self.run, self.calls.len() + 1)).build());
		let (r, err, refund) = match res {
			Ok(rf) => ("ok", String::new(), Some(rf)),
			Err(Bolt12SemanticError::DuplicatePaymentId) => ("dup", "DuplicatePaymentId".to_string(), None),
			Err(e) => ("err", semantic(&e), None),
		};
		if let Some(rf) = &refund { self.keys.insert(rf.payer_signing_pubkey(), self.calls.len() + 1); }
		self.calls.push(CallRec { node, pid, kind: "refund", off: 0, amt, ok: true, refund });
		let c = self.calls.len();
		if r == "ok" { self.failed_since_save[node].retain(|x| *x != pid); if self.accepted_ids.contains(&pid) { self.id_reused = true; } else { self.accepted_ids.push(pid); } }
		self.ev(json!({"ev":"pay","node":node,"call":c,"pid":pid,"kind":"refund","off":0,"amt":amt,"okoffer":true,"manual":self.manual[node],"handled":handled,"res":r,"err":err}));
		self.drain();
		true
	}

	/// The payee asks to be paid the refund of call `c`: `request_refund_payment` issues an invoice.
	fn op_refund_req(&mut self, op: &Value) -> bool {
		let node = op["node"].as_u64().unwrap_or(0) as usize;
		if node >= self.nodes.len() { return false; }
		let payer = op["payer"].as_u64().unwrap_or(0) as usize;
		let pid = (payer as i64) * 100 + op["id"].as_i64().unwrap_or(1);
		let c = match (0..self.calls.len()).rev().find(|&k| self.calls[k].pid == pid && self.calls[k].refund.is_some()) { Some(k) => k + 1, None => return false };
		let refund = self.calls[c - 1].refund.clone().unwrap();
		let res = self.nodes[node].node.request_refund_payment(&refund);
		let (r, h, amt) = match &res { Ok(inv) => ("ok", self.hash(&inv.payment_hash().0), inv.amount_msats()), Err(_) => ("err", 0, 0) };
		self.ev(json!({"ev":"refund_req","node":node,"call":c,"pid":pid,"hash":h,"amt":amt,"res":r}));
		self.drain();
		true
	}

	fn op_sendinv(&mut self, op: &Value) -> bool {
		let node = op["node"].as_u64().unwrap_or(0) as usize;
		if node >= self.nodes.len() { return false; }
		let pid = (node as i64) * 100 + op["id"].as_i64().unwrap_or(1);
		let which = op["which"].as_u64().unwrap_or(0) as usize;
		let cands: Vec<usize> = (0..self.invoices.len()).filter(|&k| self.invoices[k].0 == node && self.invoices[k].1 == pid).collect();
		let k = match cands.get(which) { Some(k) => *k, None => return false };
		let (h, inv, ctx) = (self.invoices[k].2, self.invoices[k].3.clone(), self.invoices[k].4.clone());
		#[allow(deprecated)]
		let res = self.nodes[node].node.send_payment_for_bolt12_invoice(&inv, ctx.as_ref());
		let r = match &res { Ok(()) => "ok".to_string(), Err(Bolt12PaymentError::DuplicateInvoice) => "dup".to_string(), Err(Bolt12PaymentError::UnexpectedInvoice) => "unexpected".to_string(),
			Err(e) => format!("{:?}", e).chars().take_while(|c| c.is_alphanumeric()).collect() };
		self.ev(json!({"ev":"sendinv","node":node,"pid":pid,"hash":h,"res":r}));
		self.drain();
		true
	}

	/// The user of the node that was handed the request of the newest call of `pid` rejects it.
	fn op_inverr(&mut self, op: &Value) -> bool {
		let payer = op["payer"].as_u64().unwrap_or(0) as usize;
		let pid = (payer as i64) * 100 + op["id"].as_i64().unwrap_or(1);
		let c = match (0..self.calls.len()).rev().find(|&k| self.calls[k].pid == pid && self.reply_paths.contains_key(&(k + 1))) { Some(k) => k + 1, None => return false };
		let (node, path) = self.reply_paths.get(&c).cloned().unwrap();
		let err = InvoiceError::from_string("rejected by the payee's user".to_string());
		let res = self.nodes[node].onion_messenger.send_onion_message(OffersMessage::InvoiceError(err),
			MessageSendInstructions::WithoutReplyPath { destination: Destination::BlindedPath(path) });
		self.ev(json!({"ev":"inverr","node":node,"call":c,"pid":pid,"res": if res.is_ok() { "ok" } else { "err" }}));
		self.drain();
		res.is_ok()
	}

	fn op_claim(&mut self, op: &Value, claim: bool) -> bool {
		let node = op["node"].as_u64().map(|x| x as usize);
		let mut any = false;
		let list: Vec<(usize, PaymentHash, PaymentPreimage)> = self.claimables.drain(..).collect();
		for (n, hash, pre) in list {
			if node.map_or(false, |x| x != n) { self.claimables.push((n, hash, pre)); continue; }
			let h = self.hash(&hash.0);
			if claim {
				self.ev(json!({"ev":"claim","node":n,"hash":h}));
				self.nodes[n].node.claim_funds(pre);
			} else {
				self.ev(json!({"ev":"failback","node":n,"hash":h}));
				self.nodes[n].node.fail_htlc_backwards(&hash);
			}
			self.drain();
			any = true;
		}
		any
	}

	fn listed(&self, i: usize) -> Vec<i64> {
		self.nodes[i].node.list_recent_payments().iter().map(|r| match r {
			RecentPaymentDetails::Pending { payment_id, .. } | RecentPaymentDetails::Fulfilled { payment_id, .. }
			| RecentPaymentDetails::Abandoned { payment_id, .. } | RecentPaymentDetails::AwaitingInvoice { payment_id } => pid_index(payment_id),
		}).collect()
	}

	fn op_save(&mut self, i: usize) -> bool {
		let bytes = self.nodes[i].node.encode();
		self.saves[i] = Some((bytes, self.writes(i), self.listed(i)));
		self.failed_since_save[i].clear();
		self.idle_at_save[i] = self.nodes[i].node.list_channels().iter().all(|c| c.pending_outbound_htlcs.iter().all(|h| h.htlc_id.is_some()));
		self.sent_since_save[i] = false;
		self.ev(json!({"ev":"save","node":i}));
		true
	}

	fn op_restart(&mut self, i: usize, mode: &str, allow_unclean: bool) -> bool {
		if mode == "now" || self.saves[i].is_none() {
			if mode == "last" { return false; }
			self.op_save(i);
		}
		let (bytes, at, listed) = self.saves[i].clone().unwrap();
		// "stale": the monitors have moved past the snapshot: LDK closes those channels, the run goes on on chain (`settle_chain`)
		let stale = at != self.writes(i);
		if stale != (mode == "stale") { return false; }
		if self.mined_any || self.closed_seen { return false; }
		// the registered findings of C03 about stale snapshots (checks/c03.py: PROBES) are not driven: a snapshot taken while an
		// HTLC of the node waited in a holding cell, a payment id used twice, a PaymentSent handled since the snapshot
		if stale && (!self.idle_at_save[i] || self.id_reused || self.sent_since_save[i]) && !allow_unclean { return false; }
		// the user lost a PaymentFailed it had handled for a payment the snapshot still holds (see the module's notes
		// in checks/offer_common.py): not driven unless asked for
		if !allow_unclean && self.failed_since_save[i].iter().any(|p| listed.contains(p)) { return false; }
		// the process dies: its connections, what was queued on them and what its messenger held are gone
		for j in 0..self.nodes.len() {
			if j != i && self.is_connected(i, j) {
				self.connected.insert(Self::key(i, j), false);
				self.queues.remove(&(i, j));
				self.queues.remove(&(j, i));
				let (pi, pj) = (self.nodes[i].node.get_our_node_id(), self.nodes[j].node.get_our_node_id());
				self.nodes[j].node.peer_disconnected(pi);
				self.nodes[j].onion_messenger.peer_disconnected(pi);
				self.nodes[i].onion_messenger.peer_disconnected(pj);
			}
		}
		let mons: Vec<Vec<u8>> = self.nodes[i].chain_monitor.chain_monitor.list_monitors().iter()
			.map(|c| self.nodes[i].chain_monitor.chain_monitor.get_monitor(*c).unwrap().encode()).collect();
		let mon_refs: Vec<&[u8]> = mons.iter().map(|m| &m[..]).collect();
		let config = self.nodes[i].node.get_current_config();
		let new_cm: &'static TestChainMonitor<'static> = leak(TestChainMonitor::new(
			Some(self.nodes[i].chain_source), self.nodes[i].tx_broadcaster, self.nodes[i].logger,
			self.nodes[i].fee_estimator, &self.cfgs[i].persister, self.nodes[i].keys_manager));
		self.nodes[i].chain_monitor = new_cm;
		let mgr = leak(_reload_node(&self.nodes[i], config, &bytes, &mon_refs, None));
		self.nodes[i].node = mgr;
		self.nodes[i].onion_messenger.set_offers_handler(mgr);
		self.nodes[i].onion_messenger.set_async_payments_handler(mgr);
		let now = self.writes(i);
		self.saves[i] = Some((bytes, now, listed));
		self.failed_since_save[i].clear();
		self.restarts += 1;
		// the user's notes of invoices it was shown survive (it may have stored them); claimable payments are shown again
		self.ev(json!({"ev":"restart","node":i,"stale":stale}));
		self.log_recent(i, true);
		self.drain();
		true
	}

	fn settle(&mut self, op: &Value) {
		let n = self.nodes.len();
		for i in 0..n { self.hold[i] = false; }
		let fail = op["fail"].as_bool().unwrap_or(false);
		for a in 0..n { for b in a + 1..n { self.do_reconnect(a, b); } }
		self.drain();
		self.pump();
		// a channel was closed: the chain settles first
		if self.closed_seen && !self.settled { self.settle_chain(fail); }
		for _ in 0..30 {
			self.drain();
			let mut any = self.pump() > 0;
			// everything the harness still holds is delivered, oldest first
			while !self.oms.is_empty() {
				let o = &self.oms[0];
				if !self.is_connected(o.from, o.to) { self.oms.remove(0); continue; }
				self.deliver_om(0, false, false);
				any = true;
			}
			if self.pump() > 0 { any = true; }
			if self.op_claim(&json!({}), !fail) { any = true; }
			if self.pump() > 0 { any = true; }
			if !any { break; }
		}
		for i in 0..n { self.log_recent(i, false); }
		let queued: usize = self.queues.values().map(|q| q.len()).sum();
		let nodes: Vec<Value> = (0..n).map(|i| {
			let chans = self.nodes[i].node.list_channels();
			let htlcs: usize = chans.iter().map(|c| c.pending_inbound_htlcs.len() + c.pending_outbound_htlcs.len()).sum();
			json!({"node": i, "htlcs": htlcs, "chans": chans.len()})
		}).collect();
		self.ev(json!({"ev":"quiet","om_queued":self.oms.len(),"htlc_queued":queued,"nodes":nodes,"closed":self.closed_seen,"settled":self.settled}));
	}

	fn step(&mut self, op: &Value) {
		let name = op["op"].as_str().unwrap_or("");
		if name != "settle" { self.settled = false; }
		let n = self.nodes.len();
		let node = op["node"].as_u64().unwrap_or(0) as usize;
		let did = match name {
			"offer" => self.op_offer(op),
			"pay" => self.op_pay(op),
			"refund" => self.op_refund(op),
			"refund_req" => self.op_refund_req(op),
			"sendinv" => self.op_sendinv(op),
			"inverr" => self.op_inverr(op),
			"deliver" => {
				// {"kind","pid","n"} the n-th held message of that kind / payment; "keep": a copy stays (it is delivered again later)
				let mut op2 = op.clone();
				if let Some(p) = op["id"].as_i64() { op2["pid"] = json!((op["payer"].as_i64().unwrap_or(0)) * 100 + p); }
				match self.find_om(&op2, &self.oms.clone()) {
					Some(p) if self.is_connected(self.oms[p].from, self.oms[p].to) => { self.deliver_om(p, op["keep"].as_bool().unwrap_or(false), false); true },
					_ => false,
				}
			},
			"replay" => {
				// a message that was delivered before is handed over once more (a duplicate on the wire, a replay)
				let mut op2 = op.clone();
				if let Some(p) = op["id"].as_i64() { op2["pid"] = json!((op["payer"].as_i64().unwrap_or(0)) * 100 + p); }
				op2["via_fwd"] = json!(false);
				match self.find_om(&op2, &self.stash.clone()) {
					Some(p) if self.is_connected(self.stash[p].from, self.stash[p].to) => { self.deliver_om(p, false, true); true },
					_ => false,
				}
			},
			"drop" => {
				let mut op2 = op.clone();
				if let Some(p) = op["id"].as_i64() { op2["pid"] = json!((op["payer"].as_i64().unwrap_or(0)) * 100 + p); }
				match self.find_om(&op2, &self.oms.clone()) {
					Some(p) => { let o = self.oms.remove(p); self.ev(json!({"ev":"drop","k":o.k,"kind":o.kind,"pid":o.pid})); true },
					None => false,
				}
			},
			"drop_all" => { let k = self.oms.len(); self.oms.clear(); self.ev(json!({"ev":"drop","k":0,"kind":"all","pid":0})); k > 0 },
			"deliver_all" => {
				let mut any = false;
				for _ in 0..40 {
					if self.oms.is_empty() { break; }
					let o = &self.oms[0];
					if !self.is_connected(o.from, o.to) { self.oms.remove(0); continue; }
					self.deliver_om(0, false, false);
					any = true;
				}
				any
			},
			"pump" => { self.pump(); true },
			"claim" => self.op_claim(op, true),
			"failback" => self.op_claim(op, false),
			"tick" => {
				if node < n { self.ev(json!({"ev":"tick","node":node})); self.nodes[node].node.timer_tick_occurred(); self.drain(); true } else { false }
			},
			"msgrecv" => {
				if node < n { self.ev(json!({"ev":"msgrecv","node":node})); self.nodes[node].node.message_received(); self.drain(); true } else { false }
			},
			"abandon" => {
				if node < n {
					let pid = (node as i64) * 100 + op["id"].as_i64().unwrap_or(1);
					self.ev(json!({"ev":"abandon","node":node,"pid":pid}));
					self.nodes[node].node.abandon_payment(pid_of(pid));
					self.drain();
					true
				} else { false }
			},
			"disconnect" => {
				let (a, b) = (op["a"].as_u64().unwrap_or(0) as usize, op["b"].as_u64().unwrap_or(0) as usize);
				a < n && b < n && self.do_disconnect(a, b)
			},
			"reconnect" => {
				let (a, b) = (op["a"].as_u64().unwrap_or(0) as usize, op["b"].as_u64().unwrap_or(0) as usize);
				a < n && b < n && self.do_reconnect(a, b)
			},
			"reconnect_all" => {
				let mut any = false;
				for a in 0..n { for b in a + 1..n { if self.do_reconnect(a, b) { any = true; } } }
				any
			},
			"hold" => { if node < n { self.hold[node] = op["on"].as_bool().unwrap_or(true); self.ev(json!({"ev":"hold","node":node,"on":self.hold[node]})); true } else { false } },
			"handle" => {
				if node < n { let k = self.fetch_events(node); self.ev(json!({"ev":"handled","node":node,"n":k})); self.drain(); true } else { false }
			},
			"save" => node < n && self.op_save(node),
			"restart" => node < n && self.op_restart(node, op["use"].as_str().unwrap_or("last"), op["allow_unclean"].as_bool().unwrap_or(false)),
			"settle" => { self.settle(op); true },
			"settle_chain" => { self.settle_chain(op["fail"].as_bool().unwrap_or(false)); true },
			_ => false,
		};
		if did {
			self.executed += 1;
			for i in 0..n { self.log_recent(i, false); }
		} else {
			self.skipped += 1;
		}
	}
}

fn build_net(run: u64, cfg: &Value, log: &Log) -> Net {
	let n = cfg["nodes"].as_u64().unwrap_or(2).clamp(2, 3) as usize;
	let value = cfg["value"].as_u64().unwrap_or(1_000_000);
	let push = cfg["push"].as_u64().unwrap_or(value * 500);
	let manual: Vec<bool> = (0..n).map(|i| cfg["manual"].as_array().and_then(|a| a.get(i)).and_then(|x| x.as_bool()).unwrap_or(false)).collect();
	let cfgs = leak(create_chanmon_cfgs(n));
	let node_cfgs = leak(create_node_cfgs(n, cfgs));
	let ucs: Vec<Option<lightning::util::config::UserConfig>> = (0..n).map(|i| {
		let mut uc = test_default_channel_config();
		uc.channel_handshake_config.negotiate_anchors_zero_fee_htlc_tx = false;
		uc.channel_handshake_config.announced_channel_max_inbound_htlc_value_in_flight_percentage = 100;
		uc.channel_config.forwarding_fee_base_msat = 1000;
		uc.channel_config.forwarding_fee_proportional_millionths = 0;
		#[allow(deprecated)]
		{ uc.manually_handle_bolt12_invoices = manual[i]; }
		Some(uc)
	}).collect();
	let mgrs = leak(create_node_chanmgrs(n, node_cfgs, &ucs));
	let nodes = create_network(n, node_cfgs, mgrs);
	for nd in nodes.iter() { *nd.connect_style.borrow_mut() = ConnectStyle::BestBlockFirst; }
	let mut chans = Vec::new();
	let mut funding = Vec::new();
	let mut connected = HashMap::new();
	for a in 0..n { for b in a + 1..n { connected.insert((a, b), true); } }
	for a in 0..n - 1 {
		let (_, _, cid, ftx) = create_announced_chan_between_nodes_with_value(&nodes, a, a + 1, value, push);
		funding.push((ftx.compute_txid(), chans.len() + 1));
		chans.push(Chan { a, b: a + 1, cid });
	}
	let maxh = nodes.iter().map(|nd| nd.best_block_info().1).max().unwrap_or(0);
	for nd in nodes.iter() {
		let h = nd.best_block_info().1;
		if h < maxh { connect_blocks(nd, maxh - h); }
	}
	for i in 0..n {
		nodes[i].tx_broadcaster.txn_broadcasted.lock().unwrap().clear();
		nodes[i].tx_broadcaster.txn_types.lock().unwrap().clear();
		let _ = nodes[i].node.get_and_clear_pending_events();
		let _ = nodes[i].node.get_and_clear_pending_msg_events();
	}
	log.lock().unwrap().clear();
	let mut net = Net {
		nodes, cfgs, queues: HashMap::new(), connected, log: log.clone(), chans, hashes: Vec::new(), manual: manual.clone(), hold: vec![false; n],
		oms: Vec::new(), stash: Vec::new(), next_k: 0, parent_origin: None, offers: Vec::new(), offer_ids: HashMap::new(), offer_descs: HashMap::new(), calls: Vec::new(), keys: HashMap::new(),
		reply_paths: HashMap::new(), invoices: Vec::new(), claimables: Vec::new(), saves: vec![None; n], failed_since_save: vec![Vec::new(); n],
		idle_at_save: vec![true; n], sent_since_save: vec![false; n], accepted_ids: Vec::new(), id_reused: false,
		last_recent: vec![json!([]); n], mempool: Vec::new(), confirmed: HashSet::new(), seen_txids: HashSet::new(), spent: HashSet::new(), funding,
		commit_chan: HashMap::new(), max_cltv: 0, time: bitcoin::constants::genesis_block(bitcoin::Network::Testnet).header.time + 100_000,
		closed_seen: false, settled: false, mined_any: false, run, executed: 0, skipped: 0, restarts: 0,
	};
	// (in a line of three the ends have no channel with each other but are peers: onion messages travel directly -- the
	// message router of the test utilities picks an announced recipient itself as introduction node --, HTLCs through the middle)
	let c = lightning::verif::consts();
	let cd: Vec<Value> = net.chans.iter().enumerate().map(|(i, c)| json!({"chan": i + 1, "a": c.a, "b": c.b})).collect();
	net.ev(json!({"ev":"open","nodes":n,"chans":cd,"manual":manual,"idem_ticks":c.idempotency_timeout_ticks}));
	net
}

// ------------------------------------------------------------------------------------------- random scripts

fn random_script(rng: &mut StdRng, nodes: usize) -> Value {
	let n = nodes;
	let payee = 0usize;
	let payer = n - 1;
	let mut manual = vec![false; n];
	if rng.gen_bool(0.3) { manual[payer] = true; }
	let mut ops: Vec<Value> = Vec::new();
	let amt = [1_000_000u64, 5_000_000, 20_000_000][rng.gen_range(0..3)];
	ops.push(json!({"op":"offer","node":payee,"amt":amt,"variant":"own"}));
	let mut noffers = 1;
	if rng.gen_bool(0.25) { ops.push(json!({"op":"offer","node":payee,"amt":amt + 1000,"variant":"tampered","base":1})); noffers += 1; }
	if rng.gen_bool(0.2) { ops.push(json!({"op":"offer","node":payee,"amt":amt,"variant":"foreign"})); noffers += 1; }
	if rng.gen_bool(0.2) { ops.push(json!({"op":"offer","node":payee,"amt":amt * 2,"variant":"own"})); noffers += 1; }
	let ids = if rng.gen_bool(0.4) { 2 } else { 1 };
	let mut off_of: HashMap<i64, usize> = HashMap::new();
	let steps = rng.gen_range(6..26);
	for _ in 0..steps {
		let id = rng.gen_range(1..=ids) as i64;
		let r = rng.gen_range(0..100);
		let kinds = ["invreq", "invoice", "inverr"];
		let o = match r {
			0..=13 => {
				// a second call for an id asks for the same offer (see checks/offer_common.py: ASSUMPTIONS)
				let off = *off_of.entry(id).or_insert_with(|| rng.gen_range(1..=noffers));
				json!({"op":"pay","node":payer,"id":id,"off":off,"retries":rng.gen_range(0..2)})
			},
			14..=17 => json!({"op":"refund","node":payer,"id":id + 2,"amt":amt}),
			18..=21 => json!({"op":"refund_req","node":payee,"payer":payer,"id":id + 2}),
			22..=43 => json!({"op":"deliver","kind":kinds[rng.gen_range(0..3)],"payer":payer,"id":if rng.gen_bool(0.8) { id } else { id + 2 },"n":rng.gen_range(0..2),"keep":rng.gen_bool(0.2)}),
			44..=49 => json!({"op":"replay","kind":kinds[rng.gen_range(0..2)],"payer":payer,"id":id,"n":rng.gen_range(0..2)}),
			50..=55 => json!({"op":"drop","kind":kinds[rng.gen_range(0..3)],"payer":payer,"id":id}),
			56..=63 => json!({"op":"tick","node":payer}),
			64..=67 => json!({"op":"abandon","node":payer,"id":if rng.gen_bool(0.8) { id } else { id + 2 }}),
			68..=71 => json!({"op":"msgrecv","node":payer}),
			72..=75 => json!({"op":"inverr","payer":payer,"id":id}),
			76..=80 => json!({"op":"sendinv","node":payer,"id":id,"which":rng.gen_range(0..2)}),
			81..=86 => json!({"op":"pump"}),
			87..=89 => json!({"op":"claim"}),
			90 => json!({"op":"failback"}),
			91..=92 => json!({"op":"save","node":payer}),
			93..=94 => json!({"op":"restart","node":payer,"use":if rng.gen_bool(0.5) { "last" } else { "now" }}),
			95 => { let a = rng.gen_range(0..n - 1); json!({"op":"disconnect","a":a,"b":a + 1}) },
			96 => { let a = rng.gen_range(0..n - 1); json!({"op":"reconnect","a":a,"b":a + 1}) },
			97 => json!({"op":"hold","node":payer,"on":true}),
			98 => json!({"op":"handle","node":payer}),
			_ => json!({"op":"deliver_all"}),
		};
		ops.push(o);
	}
	if rng.gen_bool(0.3) { ops.push(json!({"op":"drop_all"})); }
	ops.push(json!({"op":"settle","fail":rng.gen_bool(0.15)}));
	if rng.gen_bool(0.5) {
		for _ in 0..rng.gen_range(1..4) { ops.push(json!({"op":"tick","node":payer})); }
		if rng.gen_bool(0.4) { ops.push(json!({"op":"pay","node":payer,"id":1,"off":*off_of.get(&1).unwrap_or(&1)})); }
		ops.push(json!({"op":"settle"}));
	}
	json!({"cfg":{"nodes":n,"manual":manual},"ops":ops})
}

fn main() {
	let args: Vec<String> = std::env::args().collect();
	let mut scripts_path = None;
	let mut out = String::from("trace.ndjson");
	let mut seed = 1u64;
	let mut random = 0usize;
	let mut rnodes = 2usize;
	let mut i = 1;
	while i < args.len() {
		match args[i].as_str() {
			"--scripts" => { scripts_path = Some(args[i + 1].clone()); i += 1 },
			"--out" => { out = args[i + 1].clone(); i += 1 },
			"--seed" => { seed = args[i + 1].parse().unwrap(); i += 1 },
			"--random" => { random = args[i + 1].parse().unwrap(); i += 1 },
			"--nodes" => { rnodes = args[i + 1].parse().unwrap(); i += 1 },
			_ => {},
		}
		i += 1;
	}
	let quiet = std::env::var("VERIF_VERBOSE").is_err();
	std::panic::set_hook(Box::new(move |info| {
		let msg = format!("{}", info);
		*LAST_PANIC.lock().unwrap() = msg.chars().take(300).collect();
		if !quiet { eprintln!("PANIC {}", msg); }
	}));
	let mut scripts: Vec<Value> = Vec::new();
	if let Some(p) = scripts_path {
		for line in std::fs::read_to_string(p).unwrap().lines() {
			if !line.trim().is_empty() { scripts.push(serde_json::from_str(line).unwrap()); }
		}
	}
	let mut rng = StdRng::seed_from_u64(seed);
	for _ in 0..random { scripts.push(random_script(&mut rng, rnodes)); }
	let mut tw = TraceWriter::create(&out);
	let mut sw = std::io::BufWriter::new(std::fs::File::create(format!("{}.scripts", out)).unwrap());
	let (mut panics, mut executed, mut skipped, mut restarts, mut setup_failures) = (0usize, 0usize, 0usize, 0usize, 0usize);
	for (k, s) in scripts.iter().enumerate() {
		use std::io::Write;
		writeln!(sw, "{}", s).unwrap();
		let run = k as u64 + 1;
		let log: Log = Arc::new(Mutex::new(Vec::new()));
		let res = catch_unwind(AssertUnwindSafe(|| {
			let mut net = build_net(run, &s["cfg"], &log);
			let r2 = catch_unwind(AssertUnwindSafe(|| {
				for op in s["ops"].as_array().unwrap() { net.step(op); }
			}));
			let r = (r2.is_err(), net.executed, net.skipped, net.restarts);
			std::mem::forget(net);
			r
		}));
		match res {
			Ok((inner_panic, e, sk, rs)) => {
				executed += e; skipped += sk; restarts += rs;
				if inner_panic { panics += 1; let m = LAST_PANIC.lock().unwrap().clone(); log.lock().unwrap().push(json!({"ev":"panic","msg":m})); }
			},
			Err(_) => { setup_failures += 1; log.lock().unwrap().clear(); },
		}
		let evs = log.lock().unwrap();
		for (q, e) in evs.iter().enumerate() {
			let mut e = e.clone();
			e["run"] = json!(run);
			e["seq"] = json!(q + 1);
			tw.emit(e);
		}
	}
	tw.flush();
	{ use std::io::Write; sw.flush().unwrap(); }
	let summary = json!({"runs": scripts.len(), "events": tw.lines, "panics": panics, "executed": executed, "skipped": skipped,
		"restarts": restarts, "setup_failures": setup_failures, "setup_panic": if setup_failures > 0 { LAST_PANIC.lock().unwrap().clone() } else { String::new() }});
	std::fs::write(format!("{}.summary", out), summary.to_string()).unwrap();
	eprintln!("SUMMARY {}", summary);
	std::process::exit(0);
}
