//! Engine `chainsync` (property C11): the same abstract chain history is delivered to CLONES of one
//! starting state (ChannelManager + ChannelMonitors restored from bytes) in every notification
//! style the `chain::Listen` / `chain::Confirm` contracts permit, by calling the trait methods of
//! `node.chain_monitor.chain_monitor` (ChainMonitor) and `node.node` (ChannelManager) directly.
//! At every synchronisation point the conclusions of monitor and manager are recorded in a
//! canonical form; judging is done by TLC (spec/ChainViewTrace.tla), never here.
//!
//! usage: chainsync --scripts FILE --out TRACE        (one JSON script per line)
//!        chainsync --describe                         (scenario catalogue as JSON)

use bitcoin::blockdata::block::{Block, Header};
use bitcoin::blockdata::locktime::absolute::LockTime;
use bitcoin::blockdata::script::ScriptBuf;
use bitcoin::blockdata::transaction::{OutPoint, Transaction, TxIn, TxOut, Version};
use bitcoin::hash_types::{BlockHash, Txid};
use bitcoin::{Amount, Sequence, Witness};
use lightning::chain::channelmonitor::Balance;
use lightning::chain::{BlockLocator, Confirm, Listen};
use lightning::events::{ClosureReason, Event, PathFailure};
use lightning::ln::functional_test_utils::*;
use lightning::ln::msgs::{BaseMessageHandler, ErrorAction, MessageSendEvent};
use lightning::ln::types::ChannelId;
use lightning::routing::router::{PaymentParameters, RouteParameters};
use lightning::sign::SpendableOutputDescriptor;
use lightning::types::payment::{PaymentHash, PaymentPreimage};
use lightning::util::config::UserConfig;
use lightning::util::ser::Writeable;
use lightning::util::test_utils;
use serde_json::{json, Value};
use std::collections::{BTreeSet, HashMap};
use std::panic::{catch_unwind, AssertUnwindSafe};
use std::sync::Mutex;
use vharness::trace::TraceWriter;

static LAST_PANIC: Mutex<String> = Mutex::new(String::new());

fn leak<T>(t: T) -> &'static T {
	Box::leak(Box::new(t))
}

type N = Node<'static, 'static, 'static>;

// ---------------------------------------------------------------------------------------------
// Scenarios: a starting state of the node under test (`nut`) as bytes + up to four real
// transactions filling the roles of the abstract history:
//   role 1 = root (funding tx, or the commitment tx that closes the channel)
//   role 2,3,4 = children of role 1; 2 and 4 spend the same output (they conflict)

struct Scen {
	name: String,
	nut: usize,
	nodes: Vec<N>,
	mgr_bytes: Vec<u8>,
	mon_bytes: Vec<Vec<u8>>,
	base_blocks: Vec<(Block, u32)>,
	ucfg: UserConfig,
	txs: Vec<Option<Transaction>>, // index 0 unused
	funding_txid: Txid,
	chan_id: ChannelId,
	hashes: Vec<PaymentHash>,
	/// role whose burial (>= ANTI_REORG_DELAY) is required before hash k may be failed backwards
	failtrig: Vec<usize>,
	minh2: u32,
	funding_role: bool,
	base_conf: u32,
	kinds: Vec<&'static str>,
	/// the commitment transaction that does not play role 1 (interned as 6)
	min_depth: u32,
	/// outpoints whose claim by the node under test is time-locked (HTLC timeouts), and the height
	/// (relative to the base) from which such a claim can be broadcast
	tl_outs: Vec<OutPoint>,
	tl_height: u32,
	late: bool,
	holder: bool,
	pre_in1: Option<PaymentPreimage>,
	other_commit: Option<Txid>,
	/// transactions the node under test had broadcast before the snapshot was taken
	seed_txs: Vec<Transaction>,
	/// dep[r] = the role whose output role r spends (0: an output of the starting state)
	dep: [usize; 5],
}

fn snapshot(node: &N) -> (Vec<u8>, Vec<Vec<u8>>) {
	let mgr = node.node.encode();
	let mut mons = Vec::new();
	let mut ids = node.chain_monitor.chain_monitor.list_monitors();
	ids.sort_by_key(|c| c.0);
	for id in ids {
		mons.push(node.chain_monitor.chain_monitor.get_monitor(id).unwrap().encode());
	}
	(mgr, mons)
}

/// Replace `node`'s manager and chain monitor by fresh objects read from the given bytes.
fn restore(node: &mut N, ucfg: &UserConfig, mgr: &[u8], mons: &[Vec<u8>]) {
	let persister = leak(test_utils::TestPersister::new());
	let cm = leak(test_utils::TestChainMonitor::new(
		Some(node.chain_source),
		node.tx_broadcaster,
		node.logger,
		node.fee_estimator,
		persister,
		node.keys_manager,
	));
	node.chain_monitor = cm;
	let refs: Vec<&[u8]> = mons.iter().map(|m| &m[..]).collect();
	let newmgr = leak(_reload_node(node, ucfg.clone(), mgr, &refs, None));
	node.node = newmgr;
	node.onion_messenger.set_offers_handler(newmgr);
	node.onion_messenger.set_async_payments_handler(newmgr);
	node.chain_monitor.added_monitors.lock().unwrap().clear();
}

fn mk_net(chan_type: &str, min_depth: u32) -> Vec<N> {
	let cfgs = leak(create_chanmon_cfgs(2));
	let node_cfgs = leak(create_node_cfgs(2, cfgs));
	let mut uc = test_legacy_channel_config();
	if chan_type == "anchors" {
		uc.channel_handshake_config.negotiate_anchors_zero_fee_htlc_tx = true;
	}
	uc.channel_handshake_config.minimum_depth = min_depth;
	let ucs = vec![Some(uc.clone()), Some(uc)];
	let mgrs = leak(create_node_chanmgrs(2, node_cfgs, &ucs));
	let nodes = create_network(2, node_cfgs, mgrs);
	for n in nodes.iter() {
		// preparation must be deterministic: no randomly chosen ConnectStyle
		*n.connect_style.borrow_mut() = ConnectStyle::FullBlockViaListen;
	}
	nodes
}

fn local_txn(node: &N, chan: ChannelId) -> Vec<Transaction> {
	node.chain_monitor.chain_monitor.get_monitor(chan).unwrap().unsafe_get_latest_holder_commitment_txn(&node.logger)
}

fn quiet(node: &N) {
	let _ = node.node.get_and_clear_pending_events();
	let _ = node.node.get_and_clear_pending_msg_events();
	node.chain_monitor.added_monitors.lock().unwrap().clear();
	node.tx_broadcaster.clear();
}

/// Channel just funded (funding_signed exchanged, funding tx broadcast) but unconfirmed.
fn prep_fund(name: &str, nut: usize) -> Scen {
	let nodes = mk_net("static", 3);
	let tx = create_chan_between_nodes_with_value_init(&nodes[0], &nodes[1], 1_000_000, 300_000_000);
	let funding_txid = tx.compute_txid();
	let chan_id = ChannelId::v1_from_funding_txid(funding_txid.as_ref(), 0);
	let peer = 1 - nut;
	let theirs = local_txn(&nodes[peer], chan_id);
	let ours = local_txn(&nodes[nut], chan_id);
	quiet(&nodes[0]);
	quiet(&nodes[1]);
	let (mgr_bytes, mon_bytes) = snapshot(&nodes[nut]);
	let base_blocks = nodes[nut].blocks.lock().unwrap().clone();
	let ucfg = nodes[nut].node.get_current_config();
	Scen {
		name: name.to_string(), nut, nodes, mgr_bytes, mon_bytes, base_blocks, ucfg,
		txs: vec![None, Some(tx), Some(theirs[0].clone()), None, Some(ours[0].clone())],
		funding_txid, chan_id, hashes: vec![], failtrig: vec![], minh2: 0, funding_role: true, base_conf: 0,
		kinds: vec!["", "funding", "counterparty_commitment", "", "holder_commitment"],
		other_commit: None, seed_txs: vec![], dep: [0, 0, 1, 1, 1], min_depth: 3, tl_outs: vec![], tl_height: 0, late: false, holder: false, pre_in1: None,
	}
}

fn route_with_cltv(from: &N, to: &N, amt: u64, final_cltv: u32) -> (PaymentPreimage, PaymentHash) {
	let pp = PaymentParameters::from_node_id(to.node.get_our_node_id(), final_cltv)
		.with_bolt11_features(to.node.bolt11_invoice_features())
		.unwrap();
	let rp = RouteParameters::from_payment_params_and_value(pp, amt);
	let route = get_route(from, &rp).unwrap();
	let r = send_along_route(from, route, &[to], amt);
	(r.0, r.1)
}

/// Channel open, HTLCs pending in both directions: out1 (nut -> peer, non-dust, the peer knows the
/// preimage), out2 (nut -> peer, dust), out3 (nut -> peer, non-dust, same expiry as out1), in1 (peer -> nut, nut has claimed it: preimage in the
/// monitor). out1 expires at base height + EXP. If `force_close`, the node under test has already
/// broadcast its own commitment. `holder` selects which commitment plays role 1.
fn prep_open(name: &str, holder: bool, force_close: bool, late: bool) -> Scen {
	const EXP: u32 = 2;
	let nut = 0usize;
	let nodes = mk_net("static", 6);
	let (_, _, chan_id, ftx) = create_announced_chan_between_nodes_with_value(&nodes, 0, 1, 1_000_000, 400_000_000);
	let funding_txid = ftx.compute_txid();
	let h0 = nodes[0].best_block_info().1;
	let (pre_out1, hash_out1, ..) = route_payment(&nodes[0], &[&nodes[1]], 3_000_000);
	let (_pre_out2, hash_out2, ..) = route_payment(&nodes[0], &[&nodes[1]], 200_000);
	// a second non-dust outbound HTLC with the same expiry: on the counterparty's commitment both
	// timeouts are claimed by ONE aggregated transaction, which a preimage claim of out1 splits
	let (_pre_out3, hash_out3, ..) = route_payment(&nodes[0], &[&nodes[1]], 3_500_000);
	let (pre_in1, hash_in1) = route_with_cltv(&nodes[1], &nodes[0], 4_000_000, TEST_FINAL_CLTV + 66);
	// `late`: the node under test learns the preimage of in1 only during the run (script op `claim`)
	if !late { nodes[0].node.claim_funds(pre_in1); }
	nodes[1].node.claim_funds(pre_out1);
	quiet(&nodes[0]);
	quiet(&nodes[1]);
	let theirs = local_txn(&nodes[1], chan_id);
	let ours = local_txn(&nodes[0], chan_id);
	let expiry = ours.iter().map(|t| t.lock_time.to_consensus_u32()).filter(|l| *l > 0 && *l < 500_000_000 && (*l >> 24) != 0x20).max().unwrap();
	assert!(expiry > h0 + EXP + 10);
	// only the node under test sees these blocks (the peer is merely a source of transactions)
	connect_blocks(&nodes[0], expiry - EXP - nodes[0].best_block_info().1);
	nodes[0].tx_broadcaster.clear();
	if force_close {
		let peer_id = nodes[1].node.get_our_node_id();
		nodes[0].node.force_close_broadcasting_latest_txn(&chan_id, &peer_id, "fc".to_string()).unwrap();
	}
	let seed_txs = nodes[0].tx_broadcaster.txn_broadcast();
	quiet(&nodes[0]);
	let base_conf = nodes[0].node.list_channels().first().and_then(|c| c.confirmations).unwrap_or(0);
	let (mgr_bytes, mon_bytes) = snapshot(&nodes[0]);
	let base_blocks = nodes[0].blocks.lock().unwrap().clone();
	let ucfg = nodes[0].node.get_current_config();
	let base_h = base_blocks.last().unwrap().1;
	let ours = if late {
		// the transactions of the roles are taken from the live node after it has claimed
		nodes[0].node.claim_funds(pre_in1);
		quiet(&nodes[0]);
		local_txn(&nodes[0], chan_id)
	} else { ours };
	let spends = |t: &Transaction, p: &Transaction| t.input.iter().any(|i| i.previous_output.txid == p.compute_txid());
	let mut txs: Vec<Option<Transaction>> = vec![None; 5];
	let mut s = Scen {
		name: name.to_string(), nut, nodes, mgr_bytes, mon_bytes, base_blocks, ucfg, txs: vec![],
		funding_txid, chan_id, hashes: vec![hash_out1, hash_out2, hash_in1, hash_out3], failtrig: if holder { vec![2, 1, 0, 0] } else { vec![2, 1, 0, 2] },
		minh2: EXP + 1, funding_role: false, base_conf, kinds: vec![],
		other_commit: Some(if holder { theirs[0].compute_txid() } else { ours[0].compute_txid() }), seed_txs, dep: [0, 0, 1, 1, 1], min_depth: 6, tl_outs: vec![], tl_height: EXP, late, holder, pre_in1: Some(pre_in1),
	};
	if holder {
		txs[1] = Some(ours[0].clone());
		let mut timeouts = Vec::new();
		for t in ours.iter().skip(1) {
			if t.lock_time.to_consensus_u32() == expiry { timeouts.push(t.clone()); }
			if t.lock_time.to_consensus_u32() == 0 { txs[3] = Some(t.clone()); }
		}
		// the peer's preimage claim of out1 on our commitment: let the peer see it; role 2 is our
		// HTLC-timeout transaction for that same output
		let b = create_dummy_block(s.nodes[1].best_block_hash(), 42, vec![ours[0].clone()]);
		s.nodes[1].tx_broadcaster.clear();
		connect_block(&s.nodes[1], &b);
		let claims = s.nodes[1].tx_broadcaster.txn_broadcast();
		for t in claims {
			if !spends(&t, &ours[0]) || t.input.len() != 1 { continue; }
			if let Some(r2) = timeouts.iter().find(|r2| r2.input[0].previous_output == t.input[0].previous_output) {
				txs[2] = Some(r2.clone());
				txs[4] = Some(t);
			}
		}
		quiet(&s.nodes[1]);
		s.kinds = vec!["", "holder_commitment", "holder_htlc_timeout", "holder_htlc_success", "counterparty_preimage_claim"];
	} else {
		txs[1] = Some(theirs[0].clone());
		for t in theirs.iter().skip(1) {
			if t.lock_time.to_consensus_u32() == 0 { txs[4] = Some(t.clone()); }
		}
		// rehearsal on a throw-away clone: which claims does the node under test make on the
		// counterparty commitment?  (the clone is discarded; every run restores from the bytes)
		let (mb, nb, uc) = (s.mgr_bytes.clone(), s.mon_bytes.clone(), s.ucfg.clone());
		restore(&mut s.nodes[0], &uc, &mb, &nb);
		if late { s.nodes[0].node.claim_funds(pre_in1); }
		s.nodes[0].tx_broadcaster.clear();
		let mut prev = s.nodes[0].best_block_hash();
		for k in 0..(EXP + 2) {
			let b = create_dummy_block(prev, 1000 + k, if k == 0 { vec![theirs[0].clone()] } else { vec![] });
			prev = b.block_hash();
			connect_block(&s.nodes[0], &b);
		}
		for t in s.nodes[0].tx_broadcaster.txn_broadcast() {
			if !spends(&t, &theirs[0]) { continue; }
			let lt = t.lock_time.to_consensus_u32();
			if lt == expiry && txs[4].as_ref().map(|r4| r4.input[0].previous_output == t.input[0].previous_output).unwrap_or(false) {
				txs[2] = Some(t);
			} else if txs[3].is_none() && t.input.len() == 1 && txs[4].as_ref().map(|r4| r4.input[0].previous_output != t.input[0].previous_output).unwrap_or(true) && lt != expiry {
				txs[3] = Some(t);
			}
		}
		let _ = s.nodes[0].node.get_and_clear_pending_events();
		*s.nodes[0].blocks.lock().unwrap() = s.base_blocks.clone();
		s.kinds = vec!["", "counterparty_commitment", "timeout_claim", "preimage_claim", "counterparty_htlc_success"];
	}
	assert_eq!(base_h + EXP, expiry);
	let role1 = txs[1].as_ref().unwrap().compute_txid();
	for t in ours.iter().chain(theirs.iter()).chain(txs.iter().flatten()) {
		if t.lock_time.to_consensus_u32() == expiry {
			for i in t.input.iter() {
				if i.previous_output.txid == role1 && !s.tl_outs.contains(&i.previous_output) { s.tl_outs.push(i.previous_output); }
			}
		}
	}
	s.txs = txs;
	s
}

/// Channel open, no HTLC pending any more, but the counterparty holds a REVOKED commitment transaction
/// with an HTLC it had offered, and the second-stage HTLC-timeout transaction spending it.  The roles
/// form a dependency chain: 1 = the revoked commitment, 2 = the counterparty's HTLC-timeout
/// transaction (spends 1), 3 = the node's justice transaction on the output of 2 (spends 2), 4 = the
/// node's justice transaction on the commitment's HTLC output (spends 1; conflicts with 2).
fn prep_revoked(name: &str) -> Scen {
	let nut = 0usize;
	let nodes = mk_net("static", 6);
	let (_, _, chan_id, ftx) = create_announced_chan_between_nodes_with_value(&nodes, 0, 1, 1_000_000, 400_000_000);
	let funding_txid = ftx.compute_txid();
	let (pre, hash, ..) = route_payment(&nodes[1], &[&nodes[0]], 3_000_000);
	let revoked = local_txn(&nodes[1], chan_id);
	assert_eq!(revoked.len(), 2);
	claim_payment(&nodes[1], &[&nodes[0]], pre);
	quiet(&nodes[0]);
	quiet(&nodes[1]);
	let ours = local_txn(&nodes[0], chan_id);
	let expiry = revoked[1].lock_time.to_consensus_u32();
	// only the node under test sees these blocks: the HTLC-timeout transaction is valid from the next block on
	connect_blocks(&nodes[0], expiry - nodes[0].best_block_info().1);
	quiet(&nodes[0]);
	let base_conf = nodes[0].node.list_channels().first().and_then(|c| c.confirmations).unwrap_or(0);
	let (mgr_bytes, mon_bytes) = snapshot(&nodes[0]);
	let base_blocks = nodes[0].blocks.lock().unwrap().clone();
	let ucfg = nodes[0].node.get_current_config();
	let mut s = Scen {
		name: name.to_string(), nut, nodes, mgr_bytes, mon_bytes, base_blocks, ucfg, txs: vec![],
		funding_txid, chan_id, hashes: vec![hash], failtrig: vec![0],
		minh2: 1, funding_role: false, base_conf,
		kinds: vec!["", "revoked_counterparty_commitment", "revoked_counterparty_htlc_timeout", "justice_on_htlc_tx", "justice_on_commitment_htlc_output"],
		other_commit: Some(ours[0].compute_txid()), seed_txs: vec![], dep: [0, 0, 1, 2, 1], min_depth: 6, tl_outs: vec![], tl_height: 0,
		late: false, holder: false, pre_in1: None,
	};
	// rehearsal on a throw-away clone: the justice transactions of the node under test
	let (mb, nb, uc) = (s.mgr_bytes.clone(), s.mon_bytes.clone(), s.ucfg.clone());
	restore(&mut s.nodes[0], &uc, &mb, &nb);
	s.nodes[0].tx_broadcaster.clear();
	let mut txs: Vec<Option<Transaction>> = vec![None, Some(revoked[0].clone()), Some(revoked[1].clone()), None, None];
	let htlc_out = revoked[1].input[0].previous_output;
	let b1 = create_dummy_block(s.nodes[0].best_block_hash(), 1000, vec![revoked[0].clone()]);
	connect_block(&s.nodes[0], &b1);
	for t in s.nodes[0].tx_broadcaster.txn_broadcast() {
		if t.input.iter().any(|i| i.previous_output == htlc_out) { txs[4] = Some(t); }
	}
	let b2 = create_dummy_block(b1.block_hash(), 1001, vec![revoked[1].clone()]);
	connect_block(&s.nodes[0], &b2);
	let htlc_txid = revoked[1].compute_txid();
	for t in s.nodes[0].tx_broadcaster.txn_broadcast() {
		if t.input.len() == 1 && t.input[0].previous_output.txid == htlc_txid { txs[3] = Some(t); }
	}
	assert!(txs[3].is_some() && txs[4].is_some());
	let _ = s.nodes[0].node.get_and_clear_pending_events();
	let _ = s.nodes[0].node.get_and_clear_pending_msg_events();
	*s.nodes[0].blocks.lock().unwrap() = s.base_blocks.clone();
	s.txs = txs;
	s
}

fn prepare(name: &str) -> Scen {
	match name {
		"fund_a" => prep_fund(name, 0),
		"fund_b" => prep_fund(name, 1),
		"open_cp" => prep_open(name, false, false, false),
		"open_holder" => prep_open(name, true, false, false),
		"fc_cp" => prep_open(name, false, true, false),
		"fc_holder" => prep_open(name, true, true, false),
		"late_cp" => prep_open(name, false, false, true),
		"late_holder" => prep_open(name, true, false, true),
		"revoked_cp" => prep_revoked(name),
		_ => panic!("unknown scenario {}", name),
	}
}

const SCENARIOS: [&str; 9] = ["fund_a", "fund_b", "open_cp", "open_holder", "fc_cp", "fc_holder", "late_cp", "late_holder", "revoked_cp"];

impl Scen {
	fn describe(&self) -> Value {
		json!({"name": self.name, "nut": self.nut, "roles": (1..5).map(|r| self.txs[r].is_some()).collect::<Vec<_>>(),
			"kinds": self.kinds, "dep": self.dep[1..].to_vec(), "late": self.late, "minh2": self.minh2, "minh": (1..5).map(|r| self.minh(r)).collect::<Vec<_>>(), "funding_role": self.funding_role, "failtrig": self.failtrig,
			"base_height": self.base_blocks.last().unwrap().1,
			"locktimes": (1..5).map(|r| self.txs[r].as_ref().map(|t| t.lock_time.to_consensus_u32()).unwrap_or(0)).collect::<Vec<_>>()})
	}
	/// earliest height (relative to the base tip) at which role r is valid in a block
	fn minh(&self, r: usize) -> u32 {
		let base = self.base_blocks.last().unwrap().1;
		match &self.txs[r] {
			Some(t) => {
				let lt = t.lock_time.to_consensus_u32();
				if lt < 500_000_000 && lt >= base && t.input.iter().any(|i| i.sequence != Sequence::MAX) { lt - base + 1 } else { 0 }
			},
			None => 0,
		}
	}
	fn tx_idx(&self, txid: &Txid) -> usize {
		for r in 1..5 {
			if let Some(t) = &self.txs[r] {
				if t.compute_txid() == *txid { return r; }
			}
		}
		if *txid == self.funding_txid { return 5; }
		if Some(*txid) == self.other_commit { return 6; }
		9
	}
	fn hash_idx(&self, h: &PaymentHash) -> usize {
		self.hashes.iter().position(|x| x == h).map(|p| p + 1).unwrap_or(0)
	}
}


// ---------------------------------------------------------------------------------------------
// One run = one (chain history, delivery schedule) pair executed on a clone of the starting state.

struct Blk {
	block: Block,
	height: u32,
	parent: usize,
	roles: Vec<usize>,
}

struct Run<'a> {
	s: &'a mut Scen,
	blks: Vec<Blk>,
	log: Vec<Value>,
	chain_now: Vec<usize>,
	base_hashes: BTreeSet<BlockHash>,
	base_h: u32,
	evs: Vec<String>,
	msgs: Vec<String>,
	irrev: Vec<Value>,
	bcast: BTreeSet<Vec<(usize, u32)>>,
	ncalls: usize,
	/// the highest chain the client has known so far (see `go`)
	high_chain: Vec<usize>,
}

fn filler(id: usize) -> Transaction {
	Transaction {
		version: Version::TWO,
		lock_time: LockTime::ZERO,
		input: vec![TxIn { previous_output: OutPoint::null(), script_sig: ScriptBuf::from_bytes(vec![2, 0x51, id as u8]), sequence: Sequence::MAX, witness: Witness::new() }],
		output: vec![TxOut { value: Amount::from_sat(0), script_pubkey: ScriptBuf::new() }],
	}
}

impl<'a> Run<'a> {
	fn new(s: &'a mut Scen, script: &Value) -> Run<'a> {
		let base = s.base_blocks.last().unwrap().clone();
		let base_h = base.1;
		let mut blks = vec![Blk { block: base.0.clone(), height: base_h, parent: 0, roles: vec![] }];
		let parents = script["parent"].as_array().unwrap();
		for (k, p) in parents.iter().enumerate() {
			let id = k + 1;
			let p = p.as_u64().unwrap() as usize;
			// block-internal order as given by the script (the trace specification requires it to be topological)
			let roles: Vec<usize> = script["txs"][k].as_array().unwrap().iter().map(|x| x.as_u64().unwrap() as usize).collect();
			let height = blks[p].height + 1;
			let mut txdata = vec![filler(id)];
			for r in roles.iter() {
				txdata.push(s.txs[*r].clone().expect("role not available in scenario"));
			}
			let time = 10_000 + (height - base_h) * 32 + (id as u32 % 32);
			let header = create_dummy_header(blks[p].block.block_hash(), time);
			blks.push(Blk { block: Block { header, txdata }, height, parent: p, roles });
		}
		let base_hashes = s.base_blocks.iter().map(|b| b.0.block_hash()).collect();
		let mut r = Run { s, blks, log: vec![], chain_now: vec![0], base_hashes, base_h, evs: vec![], msgs: vec![], irrev: vec![], bcast: BTreeSet::new(), ncalls: 0, high_chain: vec![0] };
		let seeds: Vec<Vec<(usize, u32)>> = r.s.seed_txs.iter().map(|t| r.claim_sig(t)).collect();
		r.bcast.extend(seeds);
		r
	}

	fn node(&self) -> &N {
		&self.s.nodes[self.s.nut]
	}

	fn chain_of(&self, b: usize) -> Vec<usize> {
		let mut v = vec![b];
		let mut c = b;
		while c != 0 {
			c = self.blks[c].parent;
			v.push(c);
		}
		v.reverse();
		v
	}

	fn blk_of_hash(&self, h: &BlockHash) -> i64 {
		for (k, b) in self.blks.iter().enumerate() {
			if b.block.block_hash() == *h { return k as i64; }
		}
		if self.base_hashes.contains(h) { return -1; }
		99
	}

	/// (position in block, transaction) of the selected roles, in block order
	fn txdata<'b>(&self, blk: &'b Blk, sel: Option<&Vec<usize>>) -> Vec<(usize, &'b Transaction)> {
		let mut v = Vec::new();
		for (pos, r) in blk.roles.iter().enumerate() {
			if sel.map(|s| s.contains(r)).unwrap_or(true) {
				v.push((pos + 1, &blk.block.txdata[pos + 1]));
			}
		}
		v
	}

	/// generation of a role within its block: 0 if the transaction it spends is not in the block
	fn generation(&self, blk: &Blk, r: usize) -> usize {
		let d = self.s.dep[r];
		if d != 0 && blk.roles.contains(&d) { self.generation(blk, d) + 1 } else { 0 }
	}

	fn set_blocks(&self, chain: &Vec<usize>) {
		let mut v = self.s.base_blocks.clone();
		for b in chain.iter().skip(1) {
			v.push((self.blks[*b].block.clone(), self.blks[*b].height));
		}
		*self.node().blocks.lock().unwrap() = v;
	}

	fn exec(&mut self, who: &str, op: &Value) {
		let name = op["op"].as_str().unwrap();
		let mon = who == "mon";
		let node = &self.s.nodes[self.s.nut];
		let cm = &node.chain_monitor.chain_monitor;
		let mgr = node.node;
		self.ncalls += 1;
		match name {
			"conn" => {
				let b = op["b"].as_u64().unwrap() as usize;
				let mode = op["mode"].as_str().unwrap();
				let blk = &self.blks[b];
				let (hdr, h): (&Header, u32) = (&blk.block.header, blk.height);
				let all = self.txdata(blk, None);
				match mode {
					"full" => { if mon { cm.block_connected(&blk.block, h) } else { mgr.block_connected(&blk.block, h) } },
					"filtered" => { if mon { cm.filtered_block_connected(hdr, &all, h) } else { mgr.filtered_block_connected(hdr, &all, h) } },
					"replay" => {
						if mon { cm.filtered_block_connected(hdr, &[], h); cm.block_connected(&blk.block, h) }
						else { mgr.filtered_block_connected(hdr, &[], h); mgr.block_connected(&blk.block, h) }
					},
					"split" => {
						// a filtering client: first the transactions it was already watching for, then
						// (immediately, same block) those matching the outputs registered meanwhile, and
						// so on generation by generation of in-block descendants
						let maxg = blk.roles.iter().map(|r| self.generation(blk, *r)).max().unwrap_or(0);
						for g in 0..=maxg.max(1) {
							let part: Vec<usize> = blk.roles.iter().cloned().filter(|r| self.generation(blk, *r) == g).collect();
							let d = self.txdata(blk, Some(&part));
							if mon { cm.filtered_block_connected(hdr, &d, h) } else { mgr.filtered_block_connected(hdr, &d, h) }
						}
					},
					_ => panic!("bad conn mode"),
				}
				self.log.push(json!({"ev":"conn","who":who,"b":b,"mode":mode}));
			},
			"disc" => {
				let b = op["to"].as_u64().unwrap() as usize;
				let loc = BlockLocator::new(self.blks[b].block.block_hash(), self.blks[b].height);
				if mon { cm.blocks_disconnected(loc) } else { Listen::blocks_disconnected(mgr, loc) }
				self.log.push(json!({"ev":"disc","who":who,"to":b}));
			},
			"txs" => {
				let b = op["b"].as_u64().unwrap() as usize;
				let sel: Vec<usize> = op["sel"].as_array().unwrap().iter().map(|x| x.as_u64().unwrap() as usize).collect();
				let blk = &self.blks[b];
				let d = self.txdata(blk, Some(&sel));
				let given: Vec<usize> = d.iter().map(|(p, _)| blk.roles[*p - 1]).collect();
				if mon { cm.transactions_confirmed(&blk.block.header, &d, blk.height) } else { mgr.transactions_confirmed(&blk.block.header, &d, blk.height) }
				self.log.push(json!({"ev":"txs","who":who,"b":b,"sel":given}));
			},
			"best" => {
				let b = op["b"].as_u64().unwrap() as usize;
				let blk = &self.blks[b];
				if mon { cm.best_block_updated(&blk.block.header, blk.height) } else { mgr.best_block_updated(&blk.block.header, blk.height) }
				self.log.push(json!({"ev":"best","who":who,"b":b}));
			},
			"unconf" => {
				let desc = op["ord"].as_str() == Some("desc");
				let mut rel = if mon { cm.get_relevant_txids() } else { mgr.get_relevant_txids() };
				rel.sort_by_key(|r| (r.1, r.0));
				if desc { rel.reverse(); }
				let now: BTreeSet<BlockHash> = self.chain_now.iter().map(|b| self.blks[*b].block.block_hash()).collect();
				let mut done = Vec::new();
				for (txid, _h, bh) in rel {
					let stale = match bh { Some(bh) => !now.contains(&bh) && !self.base_hashes.contains(&bh), None => false };
					if stale {
						if mon { cm.transaction_unconfirmed(&txid) } else { mgr.transaction_unconfirmed(&txid) }
						done.push(self.s.tx_idx(&txid));
					}
				}
				self.log.push(json!({"ev":"unconf","who":who,"txs":done}));
			},
			_ => panic!("bad op {}", name),
		}
	}

	/// Let the node process what it has queued (events, monitor events, messages, forwards); record it.
	fn drain(&mut self) {
		for _ in 0..4 {
			let mut any = false;
			let node = &self.s.nodes[self.s.nut];
			let mut events = node.node.get_and_clear_pending_events();
			events.extend(node.chain_monitor.chain_monitor.get_and_clear_pending_events());
			let msgs = node.node.get_and_clear_pending_msg_events();
			if node.node.needs_pending_htlc_processing() {
				node.node.process_pending_htlc_forwards();
				any = true;
			}
			node.chain_monitor.added_monitors.lock().unwrap().clear();
			let txs: Vec<Transaction> = node.tx_broadcaster.txn_broadcast();
			let height = node.chain_monitor.chain_monitor.list_monitors().first()
				.map(|id| node.chain_monitor.chain_monitor.get_monitor(*id).unwrap().current_best_block().height).unwrap_or(0);
			for e in events {
				any = true;
				let (s, irr) = self.describe_event(&e);
				self.log.push(json!({"ev":"event","what":s,"h":height as i64 - self.base_h as i64}));
				// conclusions = the events caused by on-chain activity; others (e.g. PaymentClaimed, which
				// is replayed after every restart until the off-chain claim completes) are diagnostics
				let onchain = ["ChannelClosed", "SpendableOutputs", "PaymentPathFailed", "PaymentFailed", "PaymentSent",
					"PaymentPathSuccessful", "HTLCHandlingFailed", "ChannelReady", "BumpTransaction", "DiscardFunding"];
				if onchain.iter().any(|k| s.starts_with(k)) {
					// which of "counterparty commitment confirmed" / "HTLC timed out, own commitment
					// broadcast" closes the channel first legitimately depends on whether the tip or the
					// transactions are announced first (see ConnectStyle::BestBlockFirst*): one conclusion
					// (likewise "funding un-confirmed" vs "commitment confirmed" when a reorganisation does
					// both and the two objects are not told in lock-step)
					let c = if s == "ChannelClosed:CommitmentTxConfirmed" || s == "ChannelClosed:HTLCsTimedOut"
						|| s.starts_with("ChannelClosed:ProcessingError(Funding transaction was unconfirmed") { "ChannelClosed:onchain".to_string() } else { s };
					self.evs.push(c);
				}
				if let Some(i) = irr { self.irrev.push(i); }
			}
			for m in msgs {
				any = true;
				let s = describe_msg(&m);
				if !s.is_empty() {
					self.log.push(json!({"ev":"message","what":s,"h":height as i64 - self.base_h as i64}));
					self.msgs.push(s);
				}
			}
			for t in txs {
				any = true;
				self.bcast.insert(self.claim_sig(&t));
			}
			if !any { break; }
		}
	}

	fn claim_sig(&self, t: &Transaction) -> Vec<(usize, u32)> {
		let mut v: Vec<(usize, u32)> = t.input.iter().map(|i| (self.s.tx_idx(&i.previous_output.txid), i.previous_output.vout)).collect();
		v.sort();
		v
	}

	fn describe_event(&self, e: &Event) -> (String, Option<Value>) {
		match e {
			Event::ChannelClosed { reason, .. } => {
				let r = match reason {
					ClosureReason::CounterpartyForceClosed { .. } => "CounterpartyForceClosed".to_string(),
					ClosureReason::HolderForceClosed { .. } => "HolderForceClosed".to_string(),
					ClosureReason::CommitmentTxConfirmed => "CommitmentTxConfirmed".to_string(),
					ClosureReason::ProcessingError { err } => format!("ProcessingError({})", err.chars().filter(|c| c.is_ascii_alphanumeric() || *c == ' ').take(50).collect::<String>()),
					ClosureReason::HTLCsTimedOut { .. } => "HTLCsTimedOut".to_string(),
					ClosureReason::FundingTimedOut => "FundingTimedOut".to_string(),
					other => format!("{:?}", other).chars().take_while(|c| c.is_alphanumeric()).collect(),
				};
				(format!("ChannelClosed:{}", r), None)
			},
			Event::SpendableOutputs { outputs, .. } => {
				let mut parts = Vec::new();
				let mut irr = None;
				for o in outputs {
					let (k, op) = match o {
						SpendableOutputDescriptor::StaticOutput { outpoint, .. } => ("static", outpoint.clone()),
						SpendableOutputDescriptor::DelayedPaymentOutput(d) => ("delayed", d.outpoint.clone()),
						SpendableOutputDescriptor::StaticPaymentOutput(d) => ("payment", d.outpoint.clone()),
					};
					let t = self.s.tx_idx(&op.txid);
					parts.push(format!("{}:t{}:{}", k, t, op.index));
					irr = Some(json!([1, t]));
				}
				(format!("SpendableOutputs:{}", parts.join(",")), irr)
			},
			Event::PaymentPathFailed { payment_hash, payment_failed_permanently, failure, .. } => {
				let h = self.s.hash_idx(payment_hash);
				let onchain = matches!(failure, PathFailure::OnPath { network_update: None });
				let _ = onchain;
				(format!("PaymentPathFailed:h{}:{}", h, payment_failed_permanently), Some(json!([2, h])))
			},
			Event::PaymentFailed { payment_hash, reason, .. } => {
				let h = payment_hash.map(|p| self.s.hash_idx(&p)).unwrap_or(0);
				let r: String = format!("{:?}", reason).chars().filter(|c| c.is_alphanumeric()).collect();
				(format!("PaymentFailed:h{}:{}", h, r), Some(json!([2, h])))
			},
			Event::PaymentSent { payment_hash, .. } => (format!("PaymentSent:h{}", self.s.hash_idx(payment_hash)), None),
			Event::PaymentPathSuccessful { payment_hash, .. } => (format!("PaymentPathSuccessful:h{}", payment_hash.map(|p| self.s.hash_idx(&p)).unwrap_or(0)), None),
			Event::PaymentClaimed { payment_hash, .. } => (format!("PaymentClaimed:h{}", self.s.hash_idx(payment_hash)), None),
			Event::PaymentClaimable { payment_hash, .. } => (format!("PaymentClaimable:h{}", self.s.hash_idx(payment_hash)), None),
			Event::HTLCHandlingFailed { .. } => ("HTLCHandlingFailed".to_string(), Some(json!([2, 0]))),
			other => (format!("{:?}", other).chars().take_while(|c| c.is_alphanumeric()).collect(), None),
		}
	}

	fn conclusions(&mut self, idx: usize, tip: usize) {
		self.drain();
		let base_h = self.base_h as i64;
		let node = &self.s.nodes[self.s.nut];
		let cm = &node.chain_monitor.chain_monitor;
		// what is the monitor trying to claim right now?
		node.tx_broadcaster.clear();
		cm.rebroadcast_pending_claims();
		let mut claims: Vec<Vec<(usize, u32)>> = node.tx_broadcaster.txn_broadcast().iter().map(|t| self.claim_sig(t)).collect();
		claims.sort();
		claims.dedup();
		let mut bal = Vec::new();
		// balances that exist only as long as the monitor's claim on a revoked output is pending
		let mut balc: Vec<String> = Vec::new();
		let mut open_bal = false;
		let mut otw = 0usize;
		let mut mbest = (99i64, 0i64);
		for id in cm.list_monitors() {
			let m = cm.get_monitor(id).unwrap();
			for b in m.get_claimable_balances() {
				if let Balance::CounterpartyRevokedOutputClaimable { amount_satoshis } = b {
					balc.push(format!("Revoked:{}", amount_satoshis));
					continue;
				}
				bal.push(match b {
					Balance::ClaimableOnChannelClose { balance_candidates, confirmed_balance_candidate_index, outbound_payment_htlc_rounded_msat, outbound_forwarded_htlc_rounded_msat, inbound_claiming_htlc_rounded_msat, inbound_htlc_rounded_msat } => {
						open_bal = true;
						let c = &balance_candidates[confirmed_balance_candidate_index.min(balance_candidates.len() - 1)];
						format!("OnClose:{}:{}:{}:{}:{}:{}", c.amount_satoshis, c.transaction_fee_satoshis, outbound_payment_htlc_rounded_msat, outbound_forwarded_htlc_rounded_msat, inbound_claiming_htlc_rounded_msat, inbound_htlc_rounded_msat)
					},
					Balance::ClaimableAwaitingConfirmations { amount_satoshis, confirmation_height, source } => format!("Await:{}:{}:{:?}", amount_satoshis, confirmation_height as i64 - base_h, source),
					Balance::ContentiousClaimable { amount_satoshis, timeout_height, payment_hash, .. } => format!("Contentious:{}:{}:h{}", amount_satoshis, timeout_height as i64 - base_h, self.s.hash_idx(&payment_hash)),
					Balance::MaybeTimeoutClaimableHTLC { amount_satoshis, claimable_height, payment_hash, outbound_payment } => format!("MaybeTimeout:{}:{}:h{}:{}", amount_satoshis, claimable_height as i64 - base_h, self.s.hash_idx(&payment_hash), outbound_payment),
					Balance::MaybePreimageClaimableHTLC { amount_satoshis, expiry_height, payment_hash } => format!("MaybePreimage:{}:{}:h{}", amount_satoshis, expiry_height as i64 - base_h, self.s.hash_idx(&payment_hash)),
					Balance::CounterpartyRevokedOutputClaimable { amount_satoshis } => format!("Revoked:{}", amount_satoshis),
				});
			}
			otw += m.get_outputs_to_watch().iter().map(|(_, v)| v.len()).sum::<usize>();
			let bb = m.current_best_block();
			mbest = (self.blk_of_hash(&bb.block_hash), bb.height as i64 - base_h);
		}
		bal.sort();
		balc.sort();
		let rel_fmt = |rel: Vec<(Txid, u32, Option<BlockHash>)>| -> (Vec<String>, Vec<Value>) {
			let mut a = Vec::new();
			for (txid, h, bh) in rel {
				let t = self.s.tx_idx(&txid);
				let b = bh.map(|x| self.blk_of_hash(&x)).unwrap_or(98);
				a.push((t, h as i64 - base_h, b));
			}
			a.sort();
			(a.iter().map(|(t, h, b)| format!("t{}:{}:b{}", t, h, b)).collect(), a.iter().map(|(t, h, b)| json!([t, h, b])).collect())
		};
		let (mrel_s, mrel_f) = rel_fmt(cm.get_relevant_txids());
		let (grel_s, grel_f) = rel_fmt(node.node.get_relevant_txids());
		let gb = node.node.current_best_block();
		let gbest = (self.blk_of_hash(&gb.block_hash), gb.height as i64 - base_h);
		let mut chans = Vec::new();
		let mut conf: i64 = -1;
		for c in node.node.list_channels() {
			conf = c.confirmations.map(|x| x as i64).unwrap_or(-2);
			chans.push(format!("chan:{}:{}:{}", conf, c.is_channel_ready, c.confirmations_required.unwrap_or(0)));
		}
		chans.sort();
		let chain = self.chain_of(tip);
		let key = format!("{}|{}|{}", self.s.name, chain.len() - 1, chain.iter().skip(1).map(|b| self.blks[*b].roles.iter().map(|r| r.to_string()).collect::<Vec<_>>().join(",")).collect::<Vec<_>>().join(";"));
		let mut evs = std::mem::take(&mut self.evs);
		evs.sort();
		let mut msgs = std::mem::take(&mut self.msgs);
		msgs.sort();
		let irrev = std::mem::take(&mut self.irrev);
		let bcast: Vec<Vec<(usize, u32)>> = self.bcast.iter().cloned().collect();
		self.log.push(json!({"ev":"sync","idx":idx,"tip":tip,"key":key,
			"R":{"bal":bal,"balc":balc,"mrel":mrel_s,"claims":claims,"chans":chans,"grel":grel_s},
			"S":{"evs":evs,"msgs":msgs,"bcast":bcast,"otw":otw},
			"f":{"mbest":mbest.0,"mbest_h":mbest.1,"gbest":gbest.0,"gbest_h":gbest.1,"conf":conf,"open_bal":open_bal,
				"mrel":mrel_f,"grel":grel_f,"irrev":irrev}}));
	}

	fn go(&mut self, script: &Value) {
		let order = script["order"].as_str().unwrap_or("mon_first");
		let targets = script["targets"].as_array().unwrap();
		for (i, t) in targets.iter().enumerate() {
			let tip = t.as_u64().unwrap() as usize;
			let tr = &script["trans"][i];
			if tr["reload"].as_bool().unwrap_or(false) {
				let nut = self.s.nut;
				let (mb, nb) = snapshot(&self.s.nodes[nut]);
				let uc = self.s.ucfg.clone();
				restore(&mut self.s.nodes[nut], &uc, &mb, &nb);
				self.log.push(json!({"ev":"reload"}));
			}
			if tr["claim"].as_bool().unwrap_or(false) {
				// the preimage of the inbound HTLC becomes known now (the user claims the payment)
				let pre = self.s.pre_in1.expect("scenario has no late preimage");
				self.s.nodes[self.s.nut].node.claim_funds(pre);
				self.log.push(json!({"ev":"claim"}));
				self.drain();
			}
			let newchain = self.chain_of(tip);
			self.chain_now = newchain.clone();
			// `node.blocks` only feeds TestBroadcaster's "never broadcast before its locktime" hygiene
			// assertion, which is not part of this property and is meaningless across a rewind: keep
			// it at the highest chain seen so that it never fires because the chain got shorter.
			if self.blks[tip].height >= self.blks[*self.high_chain.last().unwrap()].height { self.high_chain = newchain.clone(); }
			let hc = self.high_chain.clone();
			self.set_blocks(&hc);
			self.log.push(json!({"ev":"begin","idx":i + 1,"target":tip}));
			let ops = tr["ops"].as_array().unwrap();
			let whos: Vec<&str> = match order { "mgr_first" | "mgr_all" => vec!["mgr", "mon"], _ => vec!["mon", "mgr"] };
			if order.ends_with("_all") {
				for w in whos.iter() {
					for op in ops { if op["op"] == "drain" { self.drain(); self.log.push(json!({"ev":"drain"})); } else { self.exec(w, op); } }
				}
			} else {
				for op in ops {
					if op["op"] == "drain" { self.drain(); self.log.push(json!({"ev":"drain"})); continue; }
					for w in whos.iter() { self.exec(w, op); }
				}
			}
			self.conclusions(i + 1, tip);
		}
	}
}

fn describe_msg(m: &MessageSendEvent) -> String {
	match m {
		MessageSendEvent::SendChannelReady { .. } => "channel_ready".to_string(),
		MessageSendEvent::SendAnnouncementSignatures { .. } => "announcement_signatures".to_string(),
		MessageSendEvent::BroadcastChannelUpdate { .. } => "broadcast_channel_update".to_string(),
		MessageSendEvent::SendChannelUpdate { .. } => "channel_update".to_string(),
		MessageSendEvent::UpdateHTLCs { updates, .. } => format!("update_htlcs:add{}:fulfill{}:fail{}", updates.update_add_htlcs.len(), updates.update_fulfill_htlcs.len(), updates.update_fail_htlcs.len() + updates.update_fail_malformed_htlcs.len()),
		MessageSendEvent::HandleError { action, .. } => match action {
			ErrorAction::SendErrorMessage { msg } => format!("error:{}", msg.data.chars().filter(|c| c.is_ascii_alphanumeric() || *c == ' ').take(60).collect::<String>()),
			ErrorAction::DisconnectPeer { msg: Some(msg) } => format!("error:{}", msg.data.chars().filter(|c| c.is_ascii_alphanumeric() || *c == ' ').take(60).collect::<String>()),
			_ => "handle_error".to_string(),
		},
		other => format!("{:?}", other).chars().take_while(|c| c.is_alphanumeric()).collect(),
	}
}

fn main() {
	let args: Vec<String> = std::env::args().collect();
	let mut scripts_path = None;
	let mut out = String::from("trace.ndjson");
	let mut describe = false;
	let mut i = 1;
	while i < args.len() {
		match args[i].as_str() {
			"--scripts" => { scripts_path = Some(args[i + 1].clone()); i += 1 },
			"--out" => { out = args[i + 1].clone(); i += 1 },
			"--describe" => describe = true,
			_ => {},
		}
		i += 1;
	}
	let quiet_panics = std::env::var("VERIF_VERBOSE").is_err();
	std::panic::set_hook(Box::new(move |info| {
		let msg = format!("{}", info);
		*LAST_PANIC.lock().unwrap() = msg.chars().take(300).collect();
		if !quiet_panics { eprintln!("PANIC {}", msg); }
	}));
	let consts = lightning::verif::consts();
	if describe {
		let mut v = Vec::new();
		for n in SCENARIOS.iter() { let sc = prepare(n); v.push(sc.describe()); std::mem::forget(sc); }
		std::fs::write(&out, json!({"ard": consts.anti_reorg_delay, "scenarios": v}).to_string()).unwrap();
		std::process::exit(0);
	}
	let mut scripts: Vec<Value> = Vec::new();
	for line in std::fs::read_to_string(scripts_path.expect("--scripts")).unwrap().lines() {
		if !line.trim().is_empty() { scripts.push(serde_json::from_str(line).unwrap()); }
	}
	let mut cache: HashMap<String, Scen> = HashMap::new();
	let mut tw = TraceWriter::create(&out);
	let (mut panics, mut calls, mut syncs) = (0usize, 0usize, 0usize);
	let mut setup_failures = 0usize;
	for (k, sc) in scripts.iter().enumerate() {
		let run = k as u64 + 1;
		let name = sc["scen"].as_str().unwrap().to_string();
		if !cache.contains_key(&name) {
			match catch_unwind(AssertUnwindSafe(|| prepare(&name))) {
				Ok(s) => { cache.insert(name.clone(), s); },
				Err(_) => { setup_failures += 1; eprintln!("setup of {} failed: {}", name, LAST_PANIC.lock().unwrap()); continue; },
			}
		}
		let scen = cache.get_mut(&name).unwrap();
		let mut log: Vec<Value> = Vec::new();
		log.push(json!({"ev":"reset","kind":sc["kind"],"hist":sc["hist"],"scen":name,"parent":sc["parent"],"txs":sc["txs"],
			"targets":sc["targets"],"order":sc["order"],"ard":consts.anti_reorg_delay,"minh":(1..5).map(|r| scen.minh(r)).collect::<Vec<_>>(),
			"funding_role":scen.funding_role,"failtrig":scen.failtrig,"base_conf":scen.base_conf,"min_depth":scen.min_depth,"tl_height":scen.tl_height,"late":scen.late,"holder":scen.holder,"dep":scen.dep[1..].to_vec(),
			"in1_out": scen.txs[3].as_ref().filter(|_| scen.pre_in1.is_some()).map(|t| vec![json!([scen.tx_idx(&t.input[0].previous_output.txid), t.input[0].previous_output.vout])]).unwrap_or_default(),
			"claims_at": sc["trans"].as_array().map(|t| t.iter().map(|x| x["claim"].as_bool().unwrap_or(false)).collect::<Vec<_>>()).unwrap_or_default(),
			"tl_outs":scen.tl_outs.iter().map(|o| json!([scen.tx_idx(&o.txid), o.vout])).collect::<Vec<_>>(),
			"reloads": sc["trans"].as_array().map(|t| t.iter().map(|x| x["reload"].as_bool().unwrap_or(false)).collect::<Vec<_>>()).unwrap_or_default(),
			"inputs": (1..5).map(|r| scen.txs[r].as_ref().map(|t| t.input.iter().map(|i| json!([scen.tx_idx(&i.previous_output.txid), i.previous_output.vout])).collect::<Vec<_>>()).unwrap_or_default()).collect::<Vec<_>>()}));
		let res = catch_unwind(AssertUnwindSafe(|| {
			let (mb, nb, uc) = (scen.mgr_bytes.clone(), scen.mon_bytes.clone(), scen.ucfg.clone());
			let nut = scen.nut;
			*scen.nodes[nut].blocks.lock().unwrap() = scen.base_blocks.clone();
			restore(&mut scen.nodes[nut], &uc, &mb, &nb);
			scen.nodes[nut].tx_broadcaster.clear();
			let mut r = Run::new(scen, sc);
			let inner = catch_unwind(AssertUnwindSafe(|| r.go(sc)));
			(r.log, r.ncalls, inner.is_err())
		}));
		match res {
			Ok((l, n, panicked)) => {
				calls += n;
				syncs += l.iter().filter(|e| e["ev"] == "sync").count();
				log.extend(l);
				if panicked {
					panics += 1;
					log.push(json!({"ev":"panic","msg": LAST_PANIC.lock().unwrap().clone()}));
					cache.remove(&name).map(std::mem::forget);
				}
			},
			Err(_) => {
				setup_failures += 1;
				cache.remove(&name).map(std::mem::forget);
				continue;
			},
		}
		for (q, e) in log.into_iter().enumerate() {
			let mut e = e;
			if e["ev"] == "sync" { e["kind"] = sc["kind"].clone(); e["hist"] = sc["hist"].clone(); }
			e["run"] = json!(run);
			e["seq"] = json!(q + 1);
			tw.emit(e);
		}
	}
	tw.flush();
	let summary = json!({"runs": scripts.len(), "events": tw.lines, "panics": panics, "calls": calls, "syncs": syncs, "setup_failures": setup_failures});
	std::fs::write(format!("{}.summary", out), summary.to_string()).unwrap();
	eprintln!("SUMMARY {}", summary);
	std::process::exit(0);
}
