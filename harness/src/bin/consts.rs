fn main() {
	let c = lightning::verif::consts();
	println!("{}", serde_json::json!({
		"CLTV_CLAIM_BUFFER": c.cltv_claim_buffer,
		"LATENCY_GRACE_PERIOD_BLOCKS": c.latency_grace_period_blocks,
		"MAX_BLOCKS_FOR_CONF": c.max_blocks_for_conf,
		"CLTV_FAR_FAR_AWAY": c.cltv_far_far_away,
		"COUNTERPARTY_CLAIMABLE_WITHIN_BLOCKS_PINNABLE": c.counterparty_claimable_within_blocks_pinnable,
		"ANTI_REORG_DELAY": c.anti_reorg_delay,
		"HTLC_FAIL_BACK_BUFFER": c.htlc_fail_back_buffer,
		"MIN_CLTV_EXPIRY_DELTA": c.min_cltv_expiry_delta,
		"MIN_FINAL_CLTV_EXPIRY_DELTA": c.min_final_cltv_expiry_delta,
		"IDEMPOTENCY_TIMEOUT_TICKS": c.idempotency_timeout_ticks,
		"MPP_TIMEOUT_TICKS": c.mpp_timeout_ticks,
	}));
}
