//! Engine `onion` (C14): builds payment onions with the public `create_payment_onion`, walks them
//! down the route with `peel_payment_onion` and each hop's own `NodeSigner`, corrupts packets in
//! flight, originates / re-wraps / decodes failure packets and fulfil attribution data through
//! the `lightning::verif::onion` wrappers, and records what every step returned as NDJSON.
//! Nothing is compared here: spec/OnionTrace.tla judges the recorded events.
//!
//! usage: onion --scripts FILE --out TRACE [--random N] [--seed S] [--reps K] [--run-seed R] | --probe
//! (--run-seed R replays: every run draws its values from R, the `rseed` logged in its reset record)
//!
//! A script (one JSON object per line, produced by TLC from spec/OnionMC.tla) fixes the *shape* of
//! a run: number of onion hops `n`, number of blinded hops `b`, the byte-length classes of the
//! amount / expiry carried for every leg, the recipient fields and their sizes, and the operation
//! (deliver | corrupt field before hop i | fail at hop k | fulfil). A failure is given either as a code
//! class + data length (code and data bytes drawn here) or exactly: `codeval` = the failure code,
//! `head` = the first bytes of the failure data (the fixed-size fields of the BOLT 4 message and the
//! channel_update length, enumerated by the model over their magnitudes), `tail` = number of
//! arbitrary bytes that follow.
//! Concrete values (amounts, heights, channel ids, keys, flipped bit, hold times) are drawn from
//! the seeded generator.

use bitcoin::hashes::sha256::Hash as Sha256;
use bitcoin::hashes::Hash;
use bitcoin::secp256k1::{PublicKey, Secp256k1, SecretKey};
use lightning::blinded_path::payment::{
	BlindedPaymentPath, Bolt12RefundContext, ForwardTlvs, PaymentConstraints, PaymentContext,
	PaymentForwardNode, PaymentRelay, ReceiveTlvs,
};
use lightning::ln::channelmanager::{PendingHTLCInfo, PendingHTLCRouting};
use lightning::ln::msgs::{OnionPacket, UpdateAddHTLC};
use lightning::ln::onion_payment::peel_payment_onion;
use lightning::ln::onion_utils::create_payment_onion;
use lightning::ln::outbound_payment::{RecipientCustomTlvs, RecipientOnionFields};
use lightning::ln::types::ChannelId;
use lightning::routing::gossip::NetworkUpdate;
use lightning::routing::router::{BlindedTail, Path, RouteHop};
use lightning::sign::{EntropySource, KeysManager, NodeSigner, Recipient};
use lightning::types::features::{BlindedHopFeatures, ChannelFeatures, NodeFeatures};
use lightning::types::payment::{PaymentHash, PaymentPreimage, PaymentSecret};
use lightning::util::logger::{Logger, Record};
use lightning::util::ser::{Readable, Writeable};
use lightning::verif::onion as hook;
use rand::rngs::StdRng;
use rand::{Rng, SeedableRng};
use serde::Deserialize;
use serde_json::{json, Value};
use std::cell::RefCell;
use std::io::{BufRead, BufReader, Cursor};
use std::panic::{catch_unwind, AssertUnwindSafe};
use vharness::trace::TraceWriter;

const MAX_NODES: usize = 30;
const MIN_DELTA: u32 = 48; // channelmanager::MIN_CLTV_EXPIRY_DELTA
const MAX_MSAT: u64 = 21_000_000 * 100_000_000 * 1000;
const HEAD_LEN: usize = 12; // Onion!HeadLen

struct NullLogger;
impl Logger for NullLogger {
	fn log(&self, _record: Record) {}
}

struct SeededEntropy(RefCell<StdRng>);
impl EntropySource for SeededEntropy {
	fn get_secure_random_bytes(&self) -> [u8; 32] {
		let mut b = [0u8; 32];
		self.0.borrow_mut().fill(&mut b);
		b
	}
}

// ------------------------------------------------------------------------------- scripts

#[derive(Deserialize, Clone, Debug)]
struct Cls {
	a: u32,
	c: u32,
}

#[derive(Deserialize, Clone, Debug)]
struct CustomCls {
	/// byte length of the BigSize type (5 or 9)
	tl: u32,
	len: usize,
}

#[derive(Deserialize, Clone, Debug)]
struct FinalCls {
	secret: bool,
	/// byte length class of total_msat (ignored when there is neither secret nor blinded tail)
	tlen: u32,
	/// payment_metadata length, -1 = absent
	meta: i64,
	customs: Vec<CustomCls>,
	keysend: bool,
}

#[derive(Deserialize, Clone, Debug)]
struct Op {
	kind: String, // deliver | corrupt | fail | fulfill
	#[serde(default)]
	at: usize,
	#[serde(default)]
	field: String, // version | pubkey | hop_data | hmac | payment_hash
	#[serde(default)]
	code: String, // node_temp | node_perm | perm | update | plain | recipient (label of the form otherwise)
	#[serde(default)]
	dlen: usize,
	/// exact failure code, -1 = draw one of class `code`
	#[serde(default = "neg1")]
	codeval: i64,
	/// first bytes of the failure data (only with codeval >= 0)
	#[serde(default)]
	head: Vec<u8>,
	/// number of arbitrary bytes after `head` (only with codeval >= 0)
	#[serde(default)]
	tail: usize,
}

fn neg1() -> i64 {
	-1
}

#[derive(Deserialize, Clone, Debug)]
struct Script {
	n: usize,
	#[serde(default)]
	b: usize,
	legs: Vec<Cls>,
	fin: Cls,
	#[serde(rename = "final")]
	fin_fields: FinalCls,
	op: Op,
}

// ------------------------------------------------------------------------------- helpers

fn limbs(x: u64) -> Value {
	json!([(x & 0xff_ffff) as u32, ((x >> 24) & 0xff_ffff) as u32, (x >> 48) as u32])
}

fn nbytes(x: u64) -> u32 {
	((64 - x.leading_zeros()) + 7) / 8
}

fn class_min(c: u32) -> u64 {
	if c <= 1 {
		1
	} else {
		1u64 << (8 * (c - 1))
	}
}

fn class_max(c: u32, cap: u64) -> u64 {
	let m = if c >= 8 { u64::MAX } else { (1u64 << (8 * c)) - 1 };
	m.min(cap)
}

fn hex(b: &[u8]) -> String {
	b.iter().map(|x| format!("{:02x}", x)).collect()
}

fn fp(b: &[u8]) -> String {
	hex(&Sha256::hash(b).to_byte_array()[..8])
}

fn customs_json(c: &[(u64, Vec<u8>)]) -> Value {
	Value::Array(c.iter().map(|(t, v)| json!({"t": limbs(*t), "len": v.len(), "fp": fp(v)})).collect())
}

/// Values for a chain of legs (first = nearest to the sender) ending in `last` (the value the
/// final payload carries). `classes[j]` is the byte-length class of chain element j, `gap[j]` the
/// minimum difference between element j and element j+1 (elements are non-increasing towards the
/// recipient), `jit` the random extra added to a gap. `span` bounds first - last.
fn concretise(
	rng: &mut StdRng, classes: &[u32], gaps: &[u64], jit: u64, floor: u64, cap: u64, span: u64,
	free_first: bool,
) -> Option<Vec<u64>> {
	let m = classes.len();
	let first_checked = if free_first { 1 } else { 0 };
	for w in classes[first_checked.min(m)..].windows(2) {
		if w[0] < w[1] {
			return None;
		}
	}
	// plan backwards from the last element
	let mut extra: Vec<u64> = (0..m.saturating_sub(1)).map(|_| if jit > 0 { rng.gen_range(0..=jit) } else { 0 }).collect();
	for attempt in 0..2 {
		if attempt == 1 {
			for e in extra.iter_mut() {
				*e = 0;
			}
		}
		// position of the class crossing nearest to the recipient, if any
		let cross = (first_checked..m.saturating_sub(1)).rev().find(|&j| classes[j] > classes[j + 1]);
		let lo_c = classes[m - 1];
		let lo = class_min(lo_c).max(floor);
		let hi = class_max(lo_c, cap);
		if lo > hi {
			return None;
		}
		let last = match cross {
			Some(j) if span < u64::MAX => {
				// element j+1 must sit just below the boundary of class[j] so that the step stays small
				let boundary = class_min(classes[j]);
				let below: u64 = (j + 1..m - 1).map(|t| gaps[t] + extra[t]).sum();
				let r = rng.gen_range(1..=8u64);
				match boundary.checked_sub(r + below) {
					Some(v) if v >= lo && v <= hi => v,
					_ => continue,
				}
			},
			_ => {
				let room: u64 = (0..m.saturating_sub(1)).map(|t| gaps[t] + extra[t]).sum();
				// stay inside the class as long as the classes are equal
				let same: u64 = {
					let mut s = 0u64;
					for t in (first_checked..m.saturating_sub(1)).rev() {
						if classes[t] != lo_c {
							break;
						}
						s += gaps[t] + extra[t];
					}
					s
				};
				let _ = room;
				let top = match hi.checked_sub(same) {
					Some(t) if t >= lo => t,
					_ => continue,
				};
				// bias towards the class boundaries
				match rng.gen_range(0..4) {
					0 => lo,
					1 => top,
					_ => {
						if top - lo > (1 << 40) {
							lo + rng.gen_range(0..(1u64 << 40))
						} else {
							rng.gen_range(lo..=top)
						}
					},
				}
			},
		};
		let mut vals = vec![0u64; m];
		vals[m - 1] = last;
		let mut ok = true;
		for j in (0..m.saturating_sub(1)).rev() {
			let base = match vals[j + 1].checked_add(gaps[j] + extra[j]) {
				Some(v) => v,
				None => {
					ok = false;
					break;
				},
			};
			let (cmin, cmax) = if free_first && j == 0 {
				(0, cap)
			} else {
				(class_min(classes[j]), class_max(classes[j], cap))
			};
			let v = if base >= cmin {
				base
			} else if span < u64::MAX {
				cmin + rng.gen_range(0..4u64)
			} else {
				// free jump into the higher class
				let width = (cmax - cmin).min(1 << 40);
				cmin + if width > 0 { rng.gen_range(0..=width) } else { 0 }
			};
			if v > cmax || v < base {
				ok = false;
				break;
			}
			vals[j] = v;
		}
		if !ok {
			continue;
		}
		if vals[0] - vals[m - 1] > span {
			continue;
		}
		return Some(vals);
	}
	None
}

// ------------------------------------------------------------------------------- a concrete case

struct Case {
	n: usize,
	b: usize,
	height: u32,
	/// legs 1..u (HTLC arriving at unblinded hop j), u = n - b + (b>0) ... see make_case
	leg_amt: Vec<u64>,
	leg_cltv: Vec<u32>,
	scid: Vec<u64>, // scid[j] = channel into hop j+1 (0-based hop index), length n
	// blinded part
	bl_fee: Vec<u32>,   // relay base fee of blinded forwarding hops (b-1 entries)
	bl_delta: Vec<u16>, // relay cltv delta of blinded forwarding hops
	bl_final_delta: u16,
	excess: u32,
	final_amt: u64,
	final_cltv: u32,
	secret: Option<[u8; 32]>,
	total: u64,
	meta: Option<Vec<u8>>,
	customs: Vec<(u64, Vec<u8>)>,
	keysend: Option<[u8; 32]>,
	payment_hash: [u8; 32],
	session_priv: [u8; 32],
	prng_seed: [u8; 32],
	op: Op,
}

fn rand_in_class(rng: &mut StdRng, c: u32, cap: u64) -> u64 {
	let lo = class_min(c);
	let hi = class_max(c, cap);
	match rng.gen_range(0..4) {
		0 => lo,
		1 => hi,
		_ => {
			if hi - lo > (1 << 40) {
				lo + rng.gen_range(0..(1u64 << 40))
			} else {
				rng.gen_range(lo..=hi)
			}
		},
	}
}

fn make_case(s: &Script, rng: &mut StdRng) -> Option<Case> {
	let n = s.n;
	let b = s.b;
	if n == 0 || n > MAX_NODES - 1 || b > n {
		return None;
	}
	// number of unblinded hops in Path::hops (the last of them is the introduction node if b > 0)
	let u = if b > 0 { n - b + 1 } else { n };
	if s.legs.len() != u - 1 {
		return None;
	}
	// ---- expiry chain: [leg1, leg2..legu, (blinded internals), final]
	let mut ccls: Vec<u32> = Vec::new();
	let mut cgap: Vec<u64> = Vec::new();
	let first_c = s.legs.first().map(|l| l.c).unwrap_or(s.fin.c);
	// leg 1 is not carried in the onion (unless it is the only one): its class is free
	let free_first = u >= 2 || b > 0;
	ccls.push(first_c.max(s.fin.c));
	for l in s.legs.iter() {
		ccls.push(l.c);
	}
	if b == 0 {
		if u >= 2 {
			let last = s.legs.last().unwrap();
			if last.a != s.fin.a || last.c != s.fin.c {
				return None;
			}
			// final payload repeats leg n: chain = leg1, leg2..legn
			for _ in 0..u - 1 {
				cgap.push(MIN_DELTA as u64);
			}
		}
	} else {
		// blinded: one more element, the final payload's cltv_expiry_height = height + excess
		ccls.push(s.fin.c);
		for _ in 0..u - 1 {
			cgap.push(MIN_DELTA as u64);
		}
		// gap between the HTLC reaching the introduction node and the final payload value:
		// sum of blinded deltas + final delta - excess, at least (b-1)*48 + 44
		cgap.push(((b as u64 - 1) * MIN_DELTA as u64) + 50);
	}
	// leg 1 may sit in a higher class than leg 2 only through a small step
	let cvals = {
		let mut v = None;
		for _ in 0..3 {
			// the library refuses expiries >= 500_000_000
			v = concretise(rng, &ccls, &cgap, 10, 46, 499_000_000, 1900, free_first);
			if v.is_some() {
				break;
			}
		}
		v?
	};
	// ---- amount chain (same shape), gaps = fees >= 0
	let mut acls: Vec<u32> = Vec::new();
	let first_a = s.legs.first().map(|l| l.a).unwrap_or(s.fin.a);
	acls.push(first_a.max(s.fin.a));
	for l in s.legs.iter() {
		acls.push(l.a);
	}
	if b > 0 {
		acls.push(s.fin.a);
	}
	let agap: Vec<u64> = (0..acls.len().saturating_sub(1)).map(|_| 0).collect();
	let avals = {
		let mut v = None;
		for _ in 0..3 {
			v = concretise(rng, &acls, &agap, 1000, 1, MAX_MSAT / 2, u64::MAX, free_first);
			if v.is_some() {
				break;
			}
		}
		v?
	};
	let (mut leg_amt, leg_cltv, mut final_amt, final_cltv): (Vec<u64>, Vec<u32>, u64, u32) = if b == 0 {
		(avals.clone(), cvals.iter().map(|x| *x as u32).collect(), *avals.last().unwrap(), *cvals.last().unwrap() as u32)
	} else {
		(
			avals[..u].to_vec(),
			cvals[..u].iter().map(|x| *x as u32).collect(),
			avals[u],
			cvals[u] as u32,
		)
	};
	// ---- height and blinded parameters
	let mut bl_fee = Vec::new();
	let mut bl_delta = Vec::new();
	let mut bl_final_delta = 0u16;
	let mut excess = 0u32;
	let height: u32;
	if b == 0 {
		// final hop's cltv_expiry_delta
		let maxd = (final_cltv - 1).min(60);
		if maxd < 42 {
			return None;
		}
		let d = rng.gen_range(42..=maxd);
		height = final_cltv - d;
	} else {
		excess = rng.gen_range(0..=6);
		if final_cltv <= excess {
			return None;
		}
		height = final_cltv - excess;
		if height < 1 {
			return None;
		}
		// distribute (leg_u cltv - height) over the blinded deltas and the final delta
		let tot = leg_cltv[u - 1] - height;
		let need = (b as u32 - 1) * MIN_DELTA + 44;
		if tot < need || tot > 60000 {
			return None;
		}
		let mut rest = tot - need;
		for _ in 0..b - 1 {
			let e = if rest > 0 { rng.gen_range(0..=rest.min(6)) } else { 0 };
			rest -= e;
			bl_delta.push((MIN_DELTA + e) as u16);
		}
		bl_final_delta = (44 + rest) as u16;
		if rest > 1000 {
			return None;
		}
		// a one-hop blinded path charges nothing
		if b == 1 {
			if u == 1 {
				leg_amt[0] = final_amt;
			} else {
				if s.legs.last().unwrap().a != s.fin.a {
					return None;
				}
				final_amt = leg_amt[u - 1];
			}
		}
		// fees inside the blinded path: leg_u amount - final amount
		let mut fee_rest = leg_amt[u - 1] - final_amt;
		for j in 0..b - 1 {
			let f = if j == b - 2 { fee_rest } else { rng.gen_range(0..=fee_rest.min(500)) };
			if f > u32::MAX as u64 {
				return None;
			}
			fee_rest -= f;
			bl_fee.push(f as u32);
		}
	}
	if height as u64 + 2000 < leg_cltv[0] as u64 {
		return None;
	}
	// ---- recipient fields
	let ff = &s.fin_fields;
	let mut secret = None;
	if ff.secret || b > 0 {
		let mut x = [0u8; 32];
		rng.fill(&mut x);
		secret = Some(x);
	}
	let total = if ff.tlen == 0 {
		final_amt
	} else if ff.tlen == nbytes(final_amt) {
		final_amt
	} else {
		rand_in_class(rng, ff.tlen, MAX_MSAT - 1)
	};
	let meta = if ff.meta >= 0 {
		let mut v = vec![0u8; ff.meta as usize];
		rng.fill(&mut v[..]);
		Some(v)
	} else {
		None
	};
	let mut customs: Vec<(u64, Vec<u8>)> = Vec::new();
	let mut lo5: u64 = 65536 + rng.gen_range(0..1000u64);
	let mut lo9: u64 = (1u64 << 32) + 5_000_000_000 + rng.gen_range(0..1000u64);
	for c in ff.customs.iter() {
		let t = if c.tl == 9 {
			lo9 += rng.gen_range(1..1000u64);
			lo9
		} else {
			lo5 += rng.gen_range(1..1000u64);
			if lo5 == 77_777 {
				lo5 += 1;
			}
			lo5
		};
		let mut v = vec![0u8; c.len];
		rng.fill(&mut v[..]);
		customs.push((t, v));
	}
	customs.sort_by_key(|x| x.0);
	let mut keysend = None;
	let mut payment_hash = [0u8; 32];
	rng.fill(&mut payment_hash);
	if ff.keysend {
		let mut p = [0u8; 32];
		rng.fill(&mut p);
		payment_hash = Sha256::hash(&p).to_byte_array();
		keysend = Some(p);
	}
	let mut session_priv = [0u8; 32];
	rng.fill(&mut session_priv);
	session_priv[0] &= 0x7f;
	session_priv[31] |= 1;
	let mut prng_seed = [0u8; 32];
	rng.fill(&mut prng_seed);
	let mut scid: Vec<u64> = Vec::new();
	while scid.len() < n {
		let x = match rng.gen_range(0..8) {
			0 => rng.gen_range(1..256u64),
			1 => u64::MAX - rng.gen_range(0..256u64),
			_ => rng.gen::<u64>() | 1,
		};
		if !scid.contains(&x) {
			scid.push(x);
		}
	}
	Some(Case {
		n,
		b,
		height,
		leg_amt,
		leg_cltv,
		scid,
		bl_fee,
		bl_delta,
		bl_final_delta,
		excess,
		final_amt,
		final_cltv,
		secret,
		total,
		meta,
		customs,
		keysend,
		payment_hash,
		session_priv,
		prng_seed,
		op: s.op.clone(),
	})
}

// ------------------------------------------------------------------------------- execution

struct Net {
	nodes: Vec<KeysManager>,
	pks: Vec<PublicKey>,
}

fn code_for(rng: &mut StdRng, class: &str) -> u16 {
	const PERM: u16 = 0x4000;
	const NODE: u16 = 0x2000;
	const UPDATE: u16 = 0x1000;
	match class {
		"node_temp" => NODE | [2u16, 25, 26, 99][rng.gen_range(0..4)],
		"node_perm" => PERM | NODE | [2u16, 3, 77][rng.gen_range(0..3)],
		"perm" => PERM | [8u16, 9, 10, 22, 27, 101][rng.gen_range(0..6)],
		"update" => UPDATE | [7u16, 11, 12, 13, 14, 20, 111][rng.gen_range(0..7)],
		"plain" => [21u16, 1, 100][rng.gen_range(0..3)],
		"recipient" => PERM | 15,
		_ => NODE | 2,
	}
}

fn peel_event(run: u64, hop: usize, res: &Result<PendingHTLCInfo, lightning::ln::onion_payment::InboundHTLCErr>) -> Value {
	let mut ev = json!({
		"run": run, "ev": "peel", "hop": hop, "res": "reject", "amt": limbs(0), "cltv": 0, "scid": limbs(0),
		"pkt_len": 0, "secret": "", "total": limbs(0), "meta_len": -1, "meta_fp": "", "customs": [],
		"keysend": "", "err": "", "blinded": false,
	});
	match res {
		Err(e) => {
			ev["err"] = json!(format!("{:?}", e.reason));
		},
		Ok(info) => {
			ev["amt"] = limbs(info.outgoing_amt_msat);
			ev["cltv"] = json!(info.outgoing_cltv_value);
			match &info.routing {
				PendingHTLCRouting::Forward { onion_packet, short_channel_id, blinded, .. } => {
					ev["res"] = json!("forward");
					ev["scid"] = limbs(*short_channel_id);
					ev["pkt_len"] = json!(onion_packet.encode().len());
					ev["blinded"] = json!(blinded.is_some());
				},
				PendingHTLCRouting::Receive { payment_data, payment_metadata, custom_tlvs, .. } => {
					ev["res"] = json!("receive");
					ev["secret"] = json!(hex(&payment_data.payment_secret.0));
					ev["total"] = limbs(payment_data.total_msat);
					if let Some(m) = payment_metadata {
						ev["meta_len"] = json!(m.len());
						ev["meta_fp"] = json!(fp(m));
					}
					ev["customs"] = customs_json(custom_tlvs);
				},
				PendingHTLCRouting::ReceiveKeysend {
					payment_data, payment_preimage, payment_metadata, custom_tlvs, ..
				} => {
					ev["res"] = json!("receive");
					if let Some(pd) = payment_data {
						ev["secret"] = json!(hex(&pd.payment_secret.0));
						ev["total"] = limbs(pd.total_msat);
					}
					ev["keysend"] = json!(hex(&payment_preimage.0));
					if let Some(m) = payment_metadata {
						ev["meta_len"] = json!(m.len());
						ev["meta_fp"] = json!(fp(m));
					}
					ev["customs"] = customs_json(custom_tlvs);
				},
				_ => {
					ev["res"] = json!("other");
				},
			}
		},
	}
	ev
}

fn run_case(net: &Net, c: &Case, run: u64, rng: &mut StdRng, tw: &mut TraceWriter, stats: &mut Stats) {
	let secp = Secp256k1::new();
	let logger = NullLogger;
	let n = c.n;
	let b = c.b;
	let u = if b > 0 { n - b + 1 } else { n };
	// ---- route
	let mut hops: Vec<RouteHop> = Vec::new();
	for j in 0..u {
		let (fee, delta) = if j + 1 < u {
			(c.leg_amt[j] - c.leg_amt[j + 1], c.leg_cltv[j] - c.leg_cltv[j + 1])
		} else if b == 0 {
			(c.leg_amt[j], c.leg_cltv[j] - c.height)
		} else {
			(c.leg_amt[j] - c.final_amt, c.leg_cltv[j] - c.height)
		};
		hops.push(RouteHop {
			pubkey: net.pks[j],
			node_features: NodeFeatures::empty(),
			short_channel_id: c.scid[j],
			channel_features: ChannelFeatures::empty(),
			fee_msat: fee,
			cltv_expiry_delta: delta,
			maybe_announced_channel: true,
		});
	}
	let mut enc_lens: Vec<usize> = Vec::new();
	let blinded_tail = if b > 0 {
		let mut inter: Vec<PaymentForwardNode> = Vec::new();
		for t in 0..b - 1 {
			let hop_idx = u - 1 + t; // 0-based index of this blinded forwarding hop
			inter.push(PaymentForwardNode {
				tlvs: ForwardTlvs {
					short_channel_id: c.scid[hop_idx + 1],
					payment_relay: PaymentRelay {
						cltv_expiry_delta: c.bl_delta[t],
						fee_proportional_millionths: 0,
						fee_base_msat: c.bl_fee[t],
					},
					payment_constraints: PaymentConstraints { max_cltv_expiry: u32::MAX, htlc_minimum_msat: 0 },
					features: BlindedHopFeatures::empty(),
					next_blinding_override: None,
				},
				node_id: net.pks[hop_idx],
				htlc_maximum_msat: u64::MAX,
			});
		}
		let payee = n - 1;
		let tlvs = ReceiveTlvs {
			payment_secret: PaymentSecret(c.secret.unwrap()),
			payment_constraints: PaymentConstraints { max_cltv_expiry: u32::MAX, htlc_minimum_msat: 0 },
			payment_context: PaymentContext::Bolt12Refund(Bolt12RefundContext { payment_metadata: None }),
		};
		let ent = SeededEntropy(RefCell::new(StdRng::seed_from_u64(rng.gen())));
		let bp = BlindedPaymentPath::new(
			&inter,
			net.pks[payee],
			net.nodes[payee].get_receive_auth_key(),
			tlvs,
			u64::MAX,
			c.bl_final_delta,
			&ent,
			&secp,
		)
		.expect("blinded path");
		for h in bp.blinded_hops() {
			enc_lens.push(h.encrypted_payload.len());
		}
		Some(BlindedTail {
			trampoline_hops: vec![],
			hops: bp.blinded_hops().to_vec(),
			blinding_point: bp.blinding_point(),
			excess_final_cltv_expiry_delta: c.excess,
			final_value_msat: c.final_amt,
		})
	} else {
		None
	};
	let path = Path { hops, blinded_tail };
	let mut recipient = if b == 0 {
		match c.secret {
			Some(s) => RecipientOnionFields::secret_only(PaymentSecret(s), c.total),
			None => RecipientOnionFields::spontaneous_empty(c.total),
		}
	} else {
		RecipientOnionFields::spontaneous_empty(c.total)
	};
	recipient.payment_metadata = c.meta.clone();
	if !c.customs.is_empty() {
		recipient = recipient.with_custom_tlvs(RecipientCustomTlvs::new(c.customs.clone()).expect("custom tlvs"));
	}
	let session_priv = SecretKey::from_slice(&c.session_priv).expect("session key");
	let payment_hash = PaymentHash(c.payment_hash);
	let keysend = c.keysend.map(PaymentPreimage);

	// ---- the route as a list of per-hop payload descriptors (what the sender asks of each hop)
	let mut descr: Vec<Value> = Vec::new();
	for i in 0..n {
		let blinded_hop = b > 0 && i >= u - 1;
		let is_final = i == n - 1;
		let mut d = json!({
			"kind": "fwd", "amt": limbs(0), "cltv": 0, "scid": limbs(0), "secret": "", "total": limbs(0),
			"meta_len": -1, "meta_fp": "", "customs": [], "keysend": "", "enc_len": 0, "intro": false,
		});
		if blinded_hop {
			d["enc_len"] = json!(enc_lens[i - (u - 1)]);
			d["intro"] = json!(i == u - 1);
		}
		if !is_final {
			d["kind"] = json!(if blinded_hop { "bfwd" } else { "fwd" });
			d["scid"] = limbs(c.scid[i + 1]);
			if i + 1 < u {
				d["amt"] = limbs(c.leg_amt[i + 1]);
				d["cltv"] = json!(c.leg_cltv[i + 1]);
			} else {
				// inside the blinded path: what the recipient's relay parameters ask for
				let t = i - (u - 1);
				let mut a = c.leg_amt[u - 1];
				let mut cl = c.leg_cltv[u - 1];
				for k in 0..=t {
					a -= c.bl_fee[k] as u64;
					cl -= c.bl_delta[k] as u32;
				}
				d["amt"] = limbs(a);
				d["cltv"] = json!(cl);
			}
		} else {
			d["kind"] = json!(if blinded_hop { "bfinal" } else { "final" });
			d["amt"] = limbs(c.final_amt);
			d["cltv"] = json!(c.final_cltv);
			if let Some(s) = c.secret {
				d["secret"] = json!(hex(&s));
				d["total"] = limbs(c.total);
			}
			if blinded_hop {
				d["total"] = limbs(c.total);
			}
			if let Some(m) = &c.meta {
				d["meta_len"] = json!(m.len());
				d["meta_fp"] = json!(fp(m));
			}
			d["customs"] = customs_json(&c.customs);
			if let Some(k) = c.keysend {
				d["keysend"] = json!(hex(&k));
			}
		}
		descr.push(d);
	}

	// ---- build
	let built = create_payment_onion(
		&secp,
		&path,
		&session_priv,
		&recipient,
		c.height,
		&payment_hash,
		&keysend,
		None,
		c.prng_seed,
	);
	stats.evals += 1;
	let (mut onion, first_amt, first_cltv) = match built {
		Ok(x) => {
			tw.emit(json!({"run": run, "ev": "build", "ok": true, "height": c.height, "hops": descr,
				"first_amt": limbs(x.1), "first_cltv": x.2, "pkt_len": x.0.encode().len(), "err": ""}));
			stats.builds_ok += 1;
			x
		},
		Err(e) => {
			tw.emit(json!({"run": run, "ev": "build", "ok": false, "height": c.height, "hops": descr,
				"first_amt": limbs(0), "first_cltv": 0, "pkt_len": 0, "err": format!("{:?}", e)}));
			stats.builds_err += 1;
			return;
		},
	};

	// ---- travel
	let cur_height = c.height - 1;
	let mut amt = first_amt;
	let mut cltv = first_cltv;
	let mut hash = payment_hash;
	let mut blinding_point: Option<PublicKey> = None;
	let mut secrets: Vec<[u8; 32]> = Vec::new();
	let op = &c.op;
	let stop_after = match op.kind.as_str() {
		"fail" => op.at,
		_ => n,
	};
	let mut received = false;
	for i in 1..=n {
		if op.kind == "corrupt" && op.at == i {
			let mut bytes = onion.encode();
			let (off, len) = match op.field.as_str() {
				"version" => (0usize, 1usize),
				"pubkey" => (1, 33),
				"hop_data" => (34, 1300),
				"hmac" => (1334, 32),
				_ => (0, 0),
			};
			let bit;
			if op.field == "payment_hash" {
				bit = rng.gen_range(0..256usize);
				hash.0[bit / 8] ^= 1 << (bit % 8);
			} else {
				// bias towards the first / last byte of the field
				let byte = match rng.gen_range(0..4) {
					0 => 0,
					1 => len - 1,
					_ => rng.gen_range(0..len),
				};
				let bi = rng.gen_range(0..8usize);
				bit = byte * 8 + bi;
				bytes[off + byte] ^= 1 << bi;
				onion = <OnionPacket as Readable>::read(&mut Cursor::new(&bytes[..])).expect("onion packet re-read");
			}
			tw.emit(json!({"run": run, "ev": "corrupt", "before": i, "field": op.field, "bit": bit}));
			stats.corrupts += 1;
		}
		let msg = UpdateAddHTLC {
			channel_id: ChannelId::from_bytes([0; 32]),
			htlc_id: 0,
			amount_msat: amt,
			payment_hash: hash,
			cltv_expiry: cltv,
			skimmed_fee_msat: None,
			onion_routing_packet: onion.clone(),
			blinding_point,
			hold_htlc: None,
			accountable: None,
		};
		let res = peel_payment_onion(&msg, &net.nodes[i - 1], &logger, &secp, cur_height, false);
		stats.evals += 1;
		stats.peels += 1;
		tw.emit(peel_event(run, i, &res));
		let info = match res {
			Ok(info) => info,
			Err(_) => return,
		};
		secrets.push(info.incoming_shared_secret);
		match info.routing {
			PendingHTLCRouting::Forward { onion_packet, blinded, .. } => {
				onion = onion_packet;
				amt = info.outgoing_amt_msat;
				cltv = info.outgoing_cltv_value;
				blinding_point = match blinded {
					Some(bf) => match bf.next_blinding_override {
						Some(o) => Some(o),
						None => {
							let ss = net.nodes[i - 1]
								.ecdh(Recipient::Node, &bf.inbound_blinding_point, None)
								.expect("ecdh")
								.secret_bytes();
							hook::next_hop_pubkey(&secp, bf.inbound_blinding_point, &ss).ok()
						},
					},
					None => None,
				};
			},
			PendingHTLCRouting::Receive { .. } | PendingHTLCRouting::ReceiveKeysend { .. } => {
				received = true;
				break;
			},
			_ => return,
		}
		if i == stop_after {
			break;
		}
	}

	// ---- failure travelling back
	if op.kind == "fail" {
		let k = op.at;
		if secrets.len() < k {
			return;
		}
		let (code, data) = if op.codeval >= 0 {
			let mut d = op.head.clone();
			let mut t = vec![0u8; op.tail];
			rng.fill(&mut t[..]);
			d.extend_from_slice(&t);
			(op.codeval as u16, d)
		} else {
			let code = code_for(rng, &op.code);
			let mut d = vec![0u8; op.dlen];
			rng.fill(&mut d[..]);
			(code, d)
		};
		let hold = |rng: &mut StdRng| -> u32 {
			match rng.gen_range(0..4) {
				0 => 0,
				1 => rng.gen_range(0..0x7fff_ffffu32),
				_ => rng.gen_range(0..3000u32),
			}
		};
		let h = hold(rng);
		let mut pkt = hook::build_failure_packet(&secrets[k - 1], code, &data, h);
		stats.evals += 1;
		stats.fails += 1;
		// what the hop put into its message: code, length of the data and its first bytes
		tw.emit(json!({"run": run, "ev": "fail", "hop": k, "code": code, "dlen": data.len(),
			"head": data[..data.len().min(HEAD_LEN)].to_vec(), "hold": h,
			"len": pkt.data.len(), "attr": pkt.attribution_data.is_some()}));
		for i in (1..k).rev() {
			let h = hold(rng);
			pkt = hook::wrap_failure_packet(&secrets[i - 1], &pkt, h);
			stats.evals += 1;
			tw.emit(json!({"run": run, "ev": "wrap", "hop": i, "hold": h, "len": pkt.data.len(),
				"attr": pkt.attribution_data.is_some()}));
		}
		let d = hook::decode_failure(&secp, &logger, &path, &session_priv, &pkt);
		stats.evals += 1;
		let idx_of_scid = |s: u64| -> usize { c.scid.iter().position(|x| *x == s).map(|p| p + 1).unwrap_or(0) };
		let (nu_kind, nu_node, nu_chan, nu_perm) = match &d.network_update {
			None => ("none", 0usize, 0usize, false),
			Some(NetworkUpdate::NodeFailure { node_id, is_permanent }) => (
				"node",
				net.pks[..n].iter().position(|p| p == node_id).map(|p| p + 1).unwrap_or(0),
				0,
				*is_permanent,
			),
			Some(NetworkUpdate::ChannelFailure { short_channel_id, is_permanent }) => {
				("channel", 0, idx_of_scid(*short_channel_id), *is_permanent)
			},
		};
		tw.emit(json!({"run": run, "ev": "attr",
			"code": d.failure_code.map(|x| x as i64).unwrap_or(-1),
			"data_len": d.failure_data.as_ref().map(|x| x.len() as i64).unwrap_or(-1),
			"data_same": d.failure_data.as_ref().map(|x| x[..] == data[..]).unwrap_or(false),
			"perm": d.payment_failed_permanently, "blinded": d.failed_within_blinded_path,
			"hold_times": d.hold_times,
			"nu_kind": nu_kind, "nu_node": nu_node, "nu_chan": nu_chan, "nu_perm": nu_perm,
			"has_scid": d.short_channel_id.is_some(),
			"chan": d.short_channel_id.map(idx_of_scid).unwrap_or(0)}));
		return;
	}

	// ---- fulfil attribution travelling back
	if op.kind == "fulfill" && received && secrets.len() == n {
		let hold = |rng: &mut StdRng| -> u32 {
			match rng.gen_range(0..4) {
				0 => 0,
				1 => rng.gen_range(0..0x7fff_ffffu32),
				_ => rng.gen_range(0..3000u32),
			}
		};
		let h = hold(rng);
		let mut attr = hook::fulfill_attribution_data(None, &secrets[n - 1], h);
		stats.evals += 1;
		stats.fulfills += 1;
		tw.emit(json!({"run": run, "ev": "fulfill", "hop": n, "hold": h}));
		for i in (1..n).rev() {
			let h = hold(rng);
			attr = hook::fulfill_attribution_data(Some(attr), &secrets[i - 1], h);
			stats.evals += 1;
			tw.emit(json!({"run": run, "ev": "fwrap", "hop": i, "hold": h}));
		}
		let ht = hook::decode_fulfill_hold_times(&secp, &logger, &path, &session_priv, attr);
		stats.evals += 1;
		tw.emit(json!({"run": run, "ev": "fattr", "hold_times": ht}));
	}
}

#[derive(Default)]
struct Stats {
	runs: u64,
	skipped: u64,
	panics: u64,
	evals: u64,
	builds_ok: u64,
	builds_err: u64,
	peels: u64,
	corrupts: u64,
	fails: u64,
	fulfills: u64,
}

// ------------------------------------------------------------------------------- random scripts

fn random_script(rng: &mut StdRng) -> Script {
	let n: usize = match rng.gen_range(0..10) {
		0 => 1,
		1 => 2,
		2..=5 => rng.gen_range(1..=8),
		6..=7 => rng.gen_range(8..=20),
		_ => rng.gen_range(19..=26),
	};
	let b: usize = if rng.gen_range(0..4) == 0 { rng.gen_range(1..=n.min(4)) } else { 0 };
	let u: usize = if b > 0 { n - b + 1 } else { n };
	// non-increasing class sequences
	let mut a = [1u32, 2, 3, 4, 5, 6, 7, 8][rng.gen_range(0..8)];
	let mut cl = [2u32, 3, 3, 3, 4][rng.gen_range(0..5)];
	let mut legs = Vec::new();
	let mut crossed = false;
	for _ in 0..u.saturating_sub(1) {
		if rng.gen_range(0..6) == 0 && a > 1 {
			a -= rng.gen_range(1..=(a - 1).min(2));
		}
		if !crossed && rng.gen_range(0..12) == 0 && cl > 2 {
			cl -= 1;
			crossed = true;
		}
		legs.push(Cls { a, c: cl });
	}
	let fin = if b <= 1 && !legs.is_empty() {
		legs.last().unwrap().clone()
	} else {
		if rng.gen_range(0..6) == 0 && a > 1 {
			a -= 1;
		}
		Cls { a, c: cl }
	};
	let keysend = rng.gen_range(0..4) == 0;
	let secret = b > 0 || !keysend || rng.gen_range(0..2) == 0;
	let meta: i64 = if b > 0 {
		-1
	} else {
		match rng.gen_range(0..8) {
			0 => 0,
			1 => rng.gen_range(1..40),
			2 => rng.gen_range(240..270),
			3 => rng.gen_range(0..1300),
			_ => -1,
		}
	};
	let mut customs = Vec::new();
	for _ in 0..[0usize, 0, 0, 1, 1, 2, 3][rng.gen_range(0..7)] {
		customs.push(CustomCls {
			tl: if rng.gen_range(0..3) == 0 { 9 } else { 5 },
			len: match rng.gen_range(0..4) {
				0 => 0,
				1 => rng.gen_range(240..270),
				2 => rng.gen_range(0..1200),
				_ => rng.gen_range(1..30),
			},
		});
	}
	let tlen = if rng.gen_range(0..3) == 0 { rng.gen_range(fin.a..=8) } else { fin.a };
	let kind = if b > 0 {
		["deliver", "corrupt"][rng.gen_range(0..2)]
	} else {
		["deliver", "corrupt", "fail", "fail", "fulfill"][rng.gen_range(0..5)]
	};
	let at = rng.gen_range(1..=n);
	let code = ["node_temp", "node_perm", "perm", "update", "update", "plain", "recipient"][rng.gen_range(0..7)];
	let code = if code == "recipient" && at != n { "perm" } else { code };
	let dlen = match rng.gen_range(0..6) {
		0 => 0,
		1 => rng.gen_range(1..40),
		2 => [253usize, 254, 255, 256][rng.gen_range(0..4)],
		3 => rng.gen_range(256..1200),
		_ => rng.gen_range(0..12),
	};
	let (codeval, head, tail) = match code {
		"update" => random_update(rng),
		"recipient" => random_recipient(rng),
		_ => (-1, Vec::new(), 0),
	};
	Script {
		n,
		b,
		legs,
		fin,
		fin_fields: FinalCls { secret, tlen, meta, customs, keysend },
		op: Op {
			kind: kind.to_string(),
			at,
			field: ["version", "pubkey", "hop_data", "hop_data", "hmac", "payment_hash"][rng.gen_range(0..6)].to_string(),
			code: code.to_string(),
			dlen: if codeval >= 0 { head.len() + tail } else { dlen },
			codeval,
			head,
			tail,
		},
	}
}

/// a 32-bit value near a multiple of 2^16 / 2^24, a block height, or anything
fn random_u32(rng: &mut StdRng) -> u32 {
	match rng.gen_range(0..6) {
		0 => rng.gen_range(0..70_000),
		1 => (rng.gen_range(1..=0xffffu32) << 16).wrapping_add(rng.gen_range(0..3)).wrapping_sub(1),
		2 => (rng.gen_range(1..=0xffu32) << 24).wrapping_add(rng.gen_range(0..3)).wrapping_sub(1),
		3 => rng.gen_range(300_000..1_200_000),
		4 => 500_000_000 - rng.gen_range(0..3),
		_ => rng.gen(),
	}
}

/// a 64-bit value of a random byte length (so that every byte is the leading one sometimes)
fn random_u64(rng: &mut StdRng) -> u64 {
	let c = rng.gen_range(1..=8);
	match rng.gen_range(0..4) {
		0 => rng.gen_range(0..100_000),
		1 => MAX_MSAT - rng.gen_range(0..2),
		_ => rand_in_class(rng, c, u64::MAX),
	}
}

/// An UPDATE failure message (BOLT 4): fixed fields of the code, [u16:len], channel_update -- well
/// formed, truncated, with a length that overruns the data, or followed by further bytes.
fn random_update(rng: &mut StdRng) -> (i64, Vec<u8>, usize) {
	const UPDATE: i64 = 0x1000;
	let c = [7i64, 11, 12, 13, 14, 20, 111][rng.gen_range(0..7)];
	let mut head: Vec<u8> = match c {
		11 | 12 => random_u64(rng).to_be_bytes().to_vec(),
		13 => random_u32(rng).to_be_bytes().to_vec(),
		20 => (random_u32(rng) as u16).to_be_bytes().to_vec(),
		_ => Vec::new(),
	};
	let ulen: usize = match rng.gen_range(0..6) {
		0 | 1 => 0,
		2 => rng.gen_range(1..8),
		3 => rng.gen_range(120..180),
		4 => rng.gen_range(240..270),
		_ => rng.gen_range(0..1100),
	};
	match rng.gen_range(0..8) {
		0 => {
			// truncated somewhere before the end of the length field
			head.extend_from_slice(&(ulen as u16).to_be_bytes());
			let cut = rng.gen_range(0..head.len());
			head.truncate(cut);
			(UPDATE | c, head, 0)
		},
		1 => {
			// fewer bytes than announced
			let claimed = ulen + rng.gen_range(1..300usize);
			head.extend_from_slice(&(claimed as u16).to_be_bytes());
			(UPDATE | c, head, ulen)
		},
		2 => {
			// more bytes than announced
			head.extend_from_slice(&(ulen as u16).to_be_bytes());
			(UPDATE | c, head, ulen + rng.gen_range(1..40usize))
		},
		_ => {
			head.extend_from_slice(&(ulen as u16).to_be_bytes());
			(UPDATE | c, head, ulen)
		},
	}
}

/// A message only the recipient sends, with its BOLT 4 data.
fn random_recipient(rng: &mut StdRng) -> (i64, Vec<u8>, usize) {
	match rng.gen_range(0..5) {
		0 => {
			let mut h = random_u64(rng).to_be_bytes().to_vec();
			h.extend_from_slice(&random_u32(rng).to_be_bytes());
			(0x4000 | 15, h, 0)
		},
		1 => (18, random_u32(rng).to_be_bytes().to_vec(), 0),
		2 => (19, random_u64(rng).to_be_bytes().to_vec(), 0),
		3 => (23, Vec::new(), 0),
		_ => (-1, Vec::new(), 0),
	}
}

fn script_json(s: &Script) -> Value {
	json!({"n": s.n, "b": s.b,
		"legs": s.legs.iter().map(|l| json!({"a": l.a, "c": l.c})).collect::<Vec<_>>(),
		"fin": {"a": s.fin.a, "c": s.fin.c},
		"final": {"secret": s.fin_fields.secret, "tlen": s.fin_fields.tlen, "meta": s.fin_fields.meta,
			"customs": s.fin_fields.customs.iter().map(|c| json!({"tl": c.tl, "len": c.len})).collect::<Vec<_>>(),
			"keysend": s.fin_fields.keysend},
		"op": {"kind": s.op.kind, "at": s.op.at, "field": s.op.field, "code": s.op.code, "dlen": s.op.dlen,
			"codeval": s.op.codeval, "head": s.op.head, "tail": s.op.tail}})
}

fn main() {
	let args: Vec<String> = std::env::args().collect();
	let mut scripts_path = None;
	let mut out = None;
	let mut nrandom = 0usize;
	let mut seed = 1u64;
	let mut reps = 1usize;
	let mut probe = false;
	let mut run_seed: Option<u64> = None;
	let mut i = 1;
	while i < args.len() {
		match args[i].as_str() {
			"--scripts" => {
				scripts_path = Some(args[i + 1].clone());
				i += 1;
			},
			"--out" => {
				out = Some(args[i + 1].clone());
				i += 1;
			},
			"--random" => {
				nrandom = args[i + 1].parse().unwrap();
				i += 1;
			},
			"--seed" => {
				seed = args[i + 1].parse().unwrap();
				i += 1;
			},
			"--reps" => {
				reps = args[i + 1].parse().unwrap();
				i += 1;
			},
			"--run-seed" => {
				run_seed = Some(args[i + 1].parse().unwrap());
				i += 1;
			},
			"--probe" => probe = true,
			_ => {},
		}
		i += 1;
	}
	std::panic::set_hook(Box::new(|_| {}));
	let secp = Secp256k1::new();
	let mut nodes = Vec::new();
	let mut pks = Vec::new();
	for j in 0..MAX_NODES {
		let mut s = [0u8; 32];
		s[0] = 0xc1;
		s[1] = 0x4;
		s[31] = j as u8 + 1;
		let km = KeysManager::new(&s, 42, 42, true);
		pks.push(PublicKey::from_secret_key(&secp, &km.get_node_secret_key()));
		nodes.push(km);
	}
	let net = Net { nodes, pks };

	if probe {
		// sizes of the encrypted recipient data of blinded hops as this engine builds them
		let mut rng = StdRng::seed_from_u64(seed);
		let mut fwd = 0;
		let mut recv = 0;
		for b in 1..=3usize {
			let s = Script {
				n: b,
				b,
				legs: vec![],
				fin: Cls { a: 3, c: 3 },
				fin_fields: FinalCls { secret: true, tlen: 3, meta: -1, customs: vec![], keysend: false },
				op: Op {
					kind: "deliver".into(),
					at: 0,
					field: String::new(),
					code: String::new(),
					dlen: 0,
					codeval: -1,
					head: Vec::new(),
					tail: 0,
				},
			};
			let path = std::env::temp_dir().join(format!("onion-probe-{}.ndjson", std::process::id()));
			let mut tw = TraceWriter::create(path.to_str().unwrap());
			let mut st = Stats::default();
			if let Some(c) = make_case(&s, &mut rng) {
				run_case(&net, &c, 1, &mut rng, &mut tw, &mut st);
			}
			tw.flush();
			let txt = std::fs::read_to_string(&path).unwrap_or_default();
			let _ = std::fs::remove_file(&path);
			if let Some(first) = txt.lines().next() {
				let v: Value = serde_json::from_str(first).unwrap();
				for h in v["hops"].as_array().unwrap() {
					if h["kind"] == "bfwd" {
						fwd = h["enc_len"].as_u64().unwrap();
					}
					if h["kind"] == "bfinal" {
						recv = h["enc_len"].as_u64().unwrap();
					}
				}
			}
		}
		println!("{}", json!({"enc_fwd": fwd, "enc_recv": recv}));
		return;
	}

	let out = out.expect("--out");
	let mut tw = TraceWriter::create(&out);
	let mut stats = Stats::default();
	let mut scripts: Vec<Script> = Vec::new();
	if let Some(p) = scripts_path {
		let f = BufReader::new(std::fs::File::open(p).expect("scripts"));
		for line in f.lines() {
			let line = line.unwrap();
			if line.trim().is_empty() {
				continue;
			}
			scripts.push(serde_json::from_str(&line).expect("script"));
		}
	}
	let nscripts = scripts.len();
	let mut gen = StdRng::seed_from_u64(seed ^ 0x5eed_0001);
	for _ in 0..nrandom {
		scripts.push(random_script(&mut gen));
	}
	let mut run = 0u64;
	for (idx, s) in scripts.iter().enumerate() {
		let r = if idx < nscripts { reps } else { 1 };
		for rep in 0..r {
			run += 1;
			let rseed = run_seed.unwrap_or(
				seed.wrapping_mul(1_000_003).wrapping_add((idx as u64) << 8).wrapping_add(rep as u64),
			);
			let mut rng = StdRng::seed_from_u64(rseed);
			tw.emit(json!({"run": run, "ev": "reset", "script": script_json(s), "idx": idx, "rep": rep,
				"rseed": rseed.to_string()}));
			let case = make_case(s, &mut rng);
			match case {
				None => {
					stats.skipped += 1;
					tw.emit(json!({"run": run, "ev": "skip"}));
				},
				Some(c) => {
					stats.runs += 1;
					let r = catch_unwind(AssertUnwindSafe(|| run_case(&net, &c, run, &mut rng, &mut tw, &mut stats)));
					if r.is_err() {
						stats.panics += 1;
						tw.emit(json!({"run": run, "ev": "panic"}));
					}
				},
			}
		}
	}
	tw.flush();
	println!(
		"{}",
		json!({"runs": stats.runs, "skipped": stats.skipped, "panics": stats.panics, "evaluations": stats.evals,
			"builds_ok": stats.builds_ok, "builds_err": stats.builds_err, "peels": stats.peels,
			"corrupts": stats.corrupts, "fails": stats.fails, "fulfills": stats.fulfills, "events": tw.lines,
			"scripts": nscripts, "random": nrandom})
	);
}
