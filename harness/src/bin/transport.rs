//! Engine `transport` (C15): joins two real `PeerManager`s (or one `PeerManager` and a raw BOLT-8
//! peer built on `PeerChannelEncryptor`) by an in-memory socket pair that applies the script's
//! stream cuts, write back-pressure and byte tampering, and records every observable event
//! (bytes offered/accepted, read_event results, handler callbacks, disconnects) as NDJSON for TLC
//! trace validation against spec/TransportAbstract.tla. The engine contains no oracle.
//! The raw peer can send one well-formed message of every wire message type ("classes", see
//! `build_typed`); the PeerManager's channel, routing, onion and custom message handlers are recorders:
//! a callback that is handed one message is logged as `delivered` (id / content read back from the
//! message), every other message callback as `callback`.
//!
//! usage: transport --scripts FILE --out TRACE [--random N] [--rot N:MSGS] [--seed S] | --list-classes
//!
//! Sides: 1 = connection initiator (outbound), 2 = responder (inbound). Stream d is the byte
//! stream written by side d (read by side 3-d). Message `size` = encoded length incl. the
//! two-byte type, so the frame of a message occupies 18 + size + 16 bytes of its stream.

use bitcoin::constants::ChainHash;
use bitcoin::secp256k1::{PublicKey, Secp256k1, SecretKey};
use lightning::ln::msgs::{
	self, BaseMessageHandler, ChannelMessageHandler, Init, LightningError, MessageSendEvent, OnionMessageHandler,
	RoutingMessageHandler,
};
use lightning::ln::peer_handler::{
	CustomMessageHandler, IgnoringMessageHandler, MessageHandler, PeerManager, SocketDescriptor,
};
use lightning::ln::types::ChannelId;
use lightning::ln::wire::{CustomMessageReader, Type};
use lightning::routing::gossip::{NodeAlias, NodeId};
use lightning::types::features::{ChannelFeatures, InitFeatures, NodeFeatures};
use lightning::types::payment::{PaymentHash, PaymentPreimage};
use lightning::util::logger::{Logger, Record};
use lightning::util::ser::{LengthLimitedRead, Writeable, Writer};
use lightning::util::test_utils::TestNodeSigner;
use lightning::verif::transport::{MessageBuf, PeerChannelEncryptor};
use rand::rngs::StdRng;
use rand::{Rng, SeedableRng};
use serde_json::{json, Value};
use bitcoin::hashes::Hash;
use bitcoin::secp256k1::ecdsa::Signature;
use bitcoin::secp256k1::Message as SecpMessage;
use bitcoin::{ScriptBuf, Txid};
use std::collections::{BTreeSet, VecDeque};
use std::panic::{catch_unwind, AssertUnwindSafe};
use std::sync::{Arc, Mutex};
use vharness::trace::TraceWriter;

const HDR: usize = 18;
const TAG: usize = 16;
const CUSTOM_BASE: u16 = 32768;
const CHAN_READY_SIZE: usize = 2 + 32 + 33;

// ------------------------------------------------------------------------------------------ log

#[derive(Clone)]
struct Ctx {
	log: Arc<Mutex<Vec<Value>>>,
	run: u64,
}
impl Ctx {
	fn ev(&self, mut v: Value) {
		v["run"] = json!(self.run);
		self.log.lock().unwrap().push(v);
	}
}

struct NoLog;
impl Logger for NoLog {
	fn log(&self, _record: Record) {}
}

// --------------------------------------------------------------------------------------- socket

struct Pipe {
	budget: Option<usize>, // bytes the socket still accepts (None = unlimited)
	auth: Vec<u8>,         // every byte accepted so far = the authentic stream of this side
	need_wsa: bool,        // a send was only partially accepted
	paused: bool,          // last send_data had resume_read = false
	pm_disc: bool,         // PeerManager called disconnect_socket
}

#[derive(Clone)]
struct Sock {
	uid: u64,
	side: usize,
	st: Arc<Mutex<Pipe>>,
	ctx: Ctx,
}
impl PartialEq for Sock {
	fn eq(&self, o: &Self) -> bool {
		self.uid == o.uid
	}
}
impl Eq for Sock {}
impl std::hash::Hash for Sock {
	fn hash<H: std::hash::Hasher>(&self, h: &mut H) {
		self.uid.hash(h)
	}
}
impl SocketDescriptor for Sock {
	fn send_data(&mut self, data: &[u8], continue_read: bool) -> usize {
		let mut p = self.st.lock().unwrap();
		let acc = match p.budget {
			None => data.len(),
			Some(b) => b.min(data.len()),
		};
		if let Some(b) = p.budget.as_mut() {
			*b -= acc;
		}
		p.auth.extend_from_slice(&data[..acc]);
		if acc < data.len() {
			p.need_wsa = true;
		}
		p.paused = !continue_read;
		self.ctx.ev(json!({"ev":"send_data","s":self.side,"off":data.len(),"acc":acc,"resume":continue_read}));
		acc
	}
	fn disconnect_socket(&mut self) {
		self.st.lock().unwrap().pm_disc = true;
		self.ctx.ev(json!({"ev":"disconnect_socket","s":self.side}));
	}
}

// ------------------------------------------------------------------------------------- messages

fn gen_payload(id: u64, len: usize) -> Vec<u8> {
	// deterministic, id-dependent content (xorshift keystream)
	let mut x = id.wrapping_mul(0x9e3779b97f4a7c15) ^ 0xd1b54a32d192ed03 ^ (len as u64).rotate_left(32);
	let mut v = Vec::with_capacity(len);
	while v.len() < len {
		x ^= x << 13;
		x ^= x >> 7;
		x ^= x << 17;
		for b in x.to_le_bytes() {
			if v.len() < len {
				v.push(b);
			}
		}
	}
	v
}

#[derive(Debug, Clone)]
struct CMsg {
	ty: u16,
	payload: Vec<u8>,
}
impl Type for CMsg {
	fn type_id(&self) -> u16 {
		self.ty
	}
}
impl Writeable for CMsg {
	fn write<W: Writer>(&self, w: &mut W) -> Result<(), lightning::io::Error> {
		w.write_all(&self.payload)
	}
}

fn chan_point() -> PublicKey {
	let secp = Secp256k1::new();
	PublicKey::from_secret_key(&secp, &SecretKey::from_slice(&[7u8; 32]).unwrap())
}
fn chan_ready(id: u64) -> msgs::ChannelReady {
	let mut cid = [0xc5u8; 32];
	cid[..8].copy_from_slice(&id.to_le_bytes());
	msgs::ChannelReady { channel_id: ChannelId(cid), next_per_commitment_point: chan_point(), short_channel_id_alias: None }
}

// ------------------------------------------------------------------------------ message classes
//
// One well-formed message per wire message type. `build_typed(cls, id)` is the complete encoding
// (two-byte type included); the id is embedded in the message so that the recording handlers can
// report which message they were given and whether its content is the one that was sent.

/// classes that are handed to exactly one handler callback once the peer's Init has been received
const DELIVERABLE: &[&str] = &[
	"custom", "open_channel", "open_channel_v2", "accept_channel", "accept_channel_v2", "funding_created",
	"funding_signed", "channel_ready", "peer_storage", "peer_storage_retrieval", "shutdown", "closing_signed", "stfu",
	"splice_init", "splice_ack", "splice_locked", "tx_add_input", "tx_add_output", "tx_remove_input",
	"tx_remove_output", "tx_complete", "tx_signatures", "tx_init_rbf", "tx_ack_rbf", "tx_abort", "update_add_htlc",
	"update_fulfill_htlc", "update_fail_htlc", "update_fail_malformed_htlc", "commitment_signed", "revoke_and_ack",
	"update_fee", "channel_reestablish", "announcement_signatures", "channel_announcement", "node_announcement",
	"channel_update", "query_short_channel_ids", "reply_short_channel_ids_end", "query_channel_range",
	"reply_channel_range", "onion_message",
];
/// classes without a one-to-one callback (answered, ignored, batched or a reason to disconnect)
const NODELIVER: &[&str] = &[
	"ping", "ping_nopong", "pong", "warning", "error_chan", "error_all", "start_batch", "gossip_timestamp_filter",
	"unknown_odd", "unknown_even",
];
const UNKNOWN_ODD: u16 = 30001;
const UNKNOWN_EVEN: u16 = 30000;

fn idb(id: u64, fill: u8) -> [u8; 32] {
	let mut b = [fill; 32];
	b[..8].copy_from_slice(&id.to_le_bytes());
	b
}
fn cid(id: u64) -> ChannelId {
	ChannelId(idb(id, 0xc5))
}
fn chain(id: u64) -> ChainHash {
	ChainHash::from(idb(id, 0x6f))
}
fn txid(id: u64) -> Txid {
	Txid::from_byte_array(idb(id, 0x7d))
}
fn some_sig() -> Signature {
	let secp = Secp256k1::new();
	secp.sign_ecdsa(&SecpMessage::from_digest([0x33; 32]), &SecretKey::from_slice(&[9u8; 32]).unwrap())
}
fn enc_of<M: Type>(m: &M) -> Vec<u8> {
	let mut v = m.type_id().to_be_bytes().to_vec();
	v.extend_from_slice(&m.encode());
	v
}
fn open_common(id: u64) -> msgs::CommonOpenChannelFields {
	let pk = chan_point();
	msgs::CommonOpenChannelFields {
		chain_hash: chain(1),
		temporary_channel_id: cid(id),
		funding_satoshis: 100_000,
		dust_limit_satoshis: 546,
		max_htlc_value_in_flight_msat: 50_000_000,
		htlc_minimum_msat: 1,
		commitment_feerate_sat_per_1000_weight: 253,
		to_self_delay: 144,
		max_accepted_htlcs: 30,
		funding_pubkey: pk,
		revocation_basepoint: pk,
		payment_basepoint: pk,
		delayed_payment_basepoint: pk,
		htlc_basepoint: pk,
		first_per_commitment_point: pk,
		channel_flags: 0,
		shutdown_scriptpubkey: None,
		channel_type: None,
	}
}
fn accept_common(id: u64) -> msgs::CommonAcceptChannelFields {
	let pk = chan_point();
	msgs::CommonAcceptChannelFields {
		temporary_channel_id: cid(id),
		dust_limit_satoshis: 546,
		max_htlc_value_in_flight_msat: 50_000_000,
		htlc_minimum_msat: 1,
		minimum_depth: 3,
		to_self_delay: 144,
		max_accepted_htlcs: 30,
		funding_pubkey: pk,
		revocation_basepoint: pk,
		payment_basepoint: pk,
		delayed_payment_basepoint: pk,
		htlc_basepoint: pk,
		first_per_commitment_point: pk,
		shutdown_scriptpubkey: None,
		channel_type: None,
	}
}
fn commitment_signed(id: u64) -> msgs::CommitmentSigned {
	msgs::CommitmentSigned { channel_id: cid(id), signature: some_sig(), htlc_signatures: vec![some_sig()], funding_txid: None }
}

/// the complete encoding of the message of class `cls` carrying `id` (None: unknown class)
fn build_typed(cls: &str, id: u64) -> Option<Vec<u8>> {
	let pk = chan_point();
	let sig = some_sig();
	let nid = NodeId::from_pubkey(&pk);
	let script = ScriptBuf::from_bytes(vec![0x00, 0x14, 1, 2, 3, 4, 5, 6, 7, 8, 9, 10, 11, 12, 13, 14, 15, 16, 17, 18, 19, 20]);
	Some(match cls {
		"open_channel" => enc_of(&msgs::OpenChannel { common_fields: open_common(id), push_msat: 7, channel_reserve_satoshis: 1000 }),
		"open_channel_v2" => enc_of(&msgs::OpenChannelV2 {
			common_fields: open_common(id),
			funding_feerate_sat_per_1000_weight: 300,
			locktime: 5,
			second_per_commitment_point: pk,
			require_confirmed_inputs: None,
			disable_channel_reserve: None,
		}),
		"accept_channel" => enc_of(&msgs::AcceptChannel { common_fields: accept_common(id), channel_reserve_satoshis: 1000 }),
		"accept_channel_v2" => enc_of(&msgs::AcceptChannelV2 {
			common_fields: accept_common(id),
			funding_satoshis: 90_000,
			second_per_commitment_point: pk,
			require_confirmed_inputs: None,
			disable_channel_reserve: None,
		}),
		"funding_created" => enc_of(&msgs::FundingCreated {
			temporary_channel_id: cid(id),
			funding_txid: txid(3),
			funding_output_index: 1,
			signature: sig,
		}),
		"funding_signed" => enc_of(&msgs::FundingSigned { channel_id: cid(id), signature: sig }),
		"channel_ready" => enc_of(&chan_ready(id)),
		"peer_storage" => enc_of(&msgs::PeerStorage { data: idb(id, 0x51).to_vec() }),
		"peer_storage_retrieval" => enc_of(&msgs::PeerStorageRetrieval { data: idb(id, 0x52).to_vec() }),
		"shutdown" => enc_of(&msgs::Shutdown { channel_id: cid(id), scriptpubkey: script }),
		"closing_signed" => enc_of(&msgs::ClosingSigned {
			channel_id: cid(id),
			fee_satoshis: 500,
			signature: sig,
			fee_range: Some(msgs::ClosingSignedFeeRange { min_fee_satoshis: 100, max_fee_satoshis: 900 }),
		}),
		"stfu" => enc_of(&msgs::Stfu { channel_id: cid(id), initiator: true }),
		"splice_init" => enc_of(&msgs::SpliceInit {
			channel_id: cid(id),
			funding_contribution_satoshis: -5,
			funding_feerate_per_kw: 300,
			locktime: 9,
			funding_pubkey: pk,
			require_confirmed_inputs: None,
		}),
		"splice_ack" => enc_of(&msgs::SpliceAck {
			channel_id: cid(id),
			funding_contribution_satoshis: 5,
			funding_pubkey: pk,
			require_confirmed_inputs: None,
		}),
		"splice_locked" => enc_of(&msgs::SpliceLocked { channel_id: cid(id), splice_txid: txid(4) }),
		"tx_add_input" => enc_of(&msgs::TxAddInput {
			channel_id: cid(id),
			serial_id: 4,
			prevtx: None,
			prevtx_out: 1,
			sequence: 0xffff_fffd,
			shared_input_txid: Some(txid(5)),
		}),
		"tx_add_output" => enc_of(&msgs::TxAddOutput { channel_id: cid(id), serial_id: 6, sats: 1234, script }),
		"tx_remove_input" => enc_of(&msgs::TxRemoveInput { channel_id: cid(id), serial_id: 4 }),
		"tx_remove_output" => enc_of(&msgs::TxRemoveOutput { channel_id: cid(id), serial_id: 6 }),
		"tx_complete" => enc_of(&msgs::TxComplete { channel_id: cid(id) }),
		"tx_signatures" => enc_of(&msgs::TxSignatures {
			channel_id: cid(id),
			tx_hash: txid(6),
			witnesses: vec![],
			shared_input_signature: None,
		}),
		"tx_init_rbf" => enc_of(&msgs::TxInitRbf {
			channel_id: cid(id),
			locktime: 3,
			feerate_sat_per_1000_weight: 500,
			funding_output_contribution: Some(77),
		}),
		"tx_ack_rbf" => enc_of(&msgs::TxAckRbf { channel_id: cid(id), funding_output_contribution: Some(78) }),
		"tx_abort" => enc_of(&msgs::TxAbort { channel_id: cid(id), data: vec![1, 2, 3] }),
		"update_add_htlc" => enc_of(&msgs::UpdateAddHTLC {
			channel_id: cid(id),
			htlc_id: 3,
			amount_msat: 10_000,
			payment_hash: PaymentHash([0x11; 32]),
			cltv_expiry: 500_000,
			skimmed_fee_msat: None,
			onion_routing_packet: msgs::OnionPacket { version: 0, public_key: Ok(pk), hop_data: [0x5a; 1300], hmac: [0x5b; 32] },
			blinding_point: None,
			hold_htlc: None,
			accountable: None,
		}),
		"update_fulfill_htlc" => enc_of(&msgs::UpdateFulfillHTLC {
			channel_id: cid(id),
			htlc_id: 3,
			payment_preimage: PaymentPreimage([0x12; 32]),
			attribution_data: None,
		}),
		// (fields of these two are crate-private: encoded by hand)
		"update_fail_htlc" => {
			let mut v = 131u16.to_be_bytes().to_vec();
			v.extend_from_slice(&cid(id).0);
			v.extend_from_slice(&3u64.to_be_bytes());
			v.extend_from_slice(&4u16.to_be_bytes());
			v.extend_from_slice(&[0xde, 0xad, 0xbe, 0xef]);
			v
		},
		"update_fail_malformed_htlc" => {
			let mut v = 135u16.to_be_bytes().to_vec();
			v.extend_from_slice(&cid(id).0);
			v.extend_from_slice(&3u64.to_be_bytes());
			v.extend_from_slice(&[0x13; 32]);
			v.extend_from_slice(&0xc005u16.to_be_bytes());
			v
		},
		"commitment_signed" => enc_of(&commitment_signed(id)),
		"revoke_and_ack" => enc_of(&msgs::RevokeAndACK {
			channel_id: cid(id),
			per_commitment_secret: [0x14; 32],
			next_per_commitment_point: pk,
			release_htlc_message_paths: Vec::new(),
		}),
		"update_fee" => enc_of(&msgs::UpdateFee { channel_id: cid(id), feerate_per_kw: 1000 }),
		"channel_reestablish" => enc_of(&msgs::ChannelReestablish {
			channel_id: cid(id),
			next_local_commitment_number: 3,
			next_remote_commitment_number: 2,
			your_last_per_commitment_secret: [0x15; 32],
			my_current_per_commitment_point: pk,
			next_funding: None,
			my_current_funding_locked: None,
		}),
		"announcement_signatures" => enc_of(&msgs::AnnouncementSignatures {
			channel_id: cid(id),
			short_channel_id: 42,
			node_signature: sig,
			bitcoin_signature: sig,
		}),
		"channel_announcement" => enc_of(&msgs::ChannelAnnouncement {
			node_signature_1: sig,
			node_signature_2: sig,
			bitcoin_signature_1: sig,
			bitcoin_signature_2: sig,
			contents: msgs::UnsignedChannelAnnouncement {
				features: ChannelFeatures::empty(),
				chain_hash: chain(id),
				short_channel_id: 43,
				node_id_1: nid,
				node_id_2: nid,
				bitcoin_key_1: nid,
				bitcoin_key_2: nid,
				excess_data: Vec::new(),
			},
		}),
		"node_announcement" => enc_of(&msgs::NodeAnnouncement {
			signature: sig,
			contents: msgs::UnsignedNodeAnnouncement {
				features: NodeFeatures::empty(),
				timestamp: 1_700_000_000,
				node_id: nid,
				rgb: [1, 2, 3],
				alias: NodeAlias(idb(id, 0x61)),
				addresses: Vec::new(),
				excess_address_data: Vec::new(),
				excess_data: Vec::new(),
			},
		}),
		"channel_update" => enc_of(&msgs::ChannelUpdate {
			signature: sig,
			contents: msgs::UnsignedChannelUpdate {
				chain_hash: chain(id),
				short_channel_id: 43,
				timestamp: 1_700_000_000,
				message_flags: 1,
				channel_flags: 0,
				cltv_expiry_delta: 40,
				htlc_minimum_msat: 1,
				htlc_maximum_msat: 50_000_000,
				fee_base_msat: 1000,
				fee_proportional_millionths: 100,
				excess_data: Vec::new(),
			},
		}),
		"query_short_channel_ids" => enc_of(&msgs::QueryShortChannelIds { chain_hash: chain(id), short_channel_ids: vec![43, 44] }),
		"reply_short_channel_ids_end" => enc_of(&msgs::ReplyShortChannelIdsEnd { chain_hash: chain(id), full_information: true }),
		"query_channel_range" => enc_of(&msgs::QueryChannelRange { chain_hash: chain(id), first_blocknum: 100, number_of_blocks: 50 }),
		"reply_channel_range" => enc_of(&msgs::ReplyChannelRange {
			chain_hash: chain(id),
			first_blocknum: 100,
			number_of_blocks: 50,
			sync_complete: true,
			short_channel_ids: vec![43],
		}),
		"onion_message" => enc_of(&msgs::OnionMessage {
			blinding_point: pk,
			onion_routing_packet: lightning::onion_message::packet::Packet {
				version: 0,
				public_key: pk,
				hop_data: idb(id, 0x71).to_vec(),
				hmac: [0x72; 32],
			},
		}),
		// ---- no one-to-one callback
		"ping" => enc_of(&msgs::Ping { ponglen: 0, byteslen: 0 }),
		"ping_nopong" => enc_of(&msgs::Ping { ponglen: 65532, byteslen: 3 }),
		"pong" => enc_of(&msgs::Pong { byteslen: 2 }),
		"warning" => enc_of(&msgs::WarningMessage { channel_id: cid(id), data: "w".to_string() }),
		"error_chan" => enc_of(&msgs::ErrorMessage { channel_id: cid(id), data: "e".to_string() }),
		"error_all" => enc_of(&msgs::ErrorMessage { channel_id: ChannelId::new_zero(), data: "e".to_string() }),
		"start_batch" => enc_of(&msgs::StartBatch { channel_id: cid(id), batch_size: 2, message_type: Some(132) }),
		"gossip_timestamp_filter" => enc_of(&msgs::GossipTimestampFilter { chain_hash: chain(id), first_timestamp: 5, timestamp_range: 6 }),
		"unknown_odd" => {
			let mut v = UNKNOWN_ODD.to_be_bytes().to_vec();
			v.extend_from_slice(&idb(id, 0x73));
			v
		},
		"unknown_even" => {
			let mut v = UNKNOWN_EVEN.to_be_bytes().to_vec();
			v.extend_from_slice(&idb(id, 0x74));
			v
		},
		_ => return None,
	})
}

/// where the id sits in the encoding of a deliverable class (offset, little endian 8 bytes)
fn id_offset(cls: &str) -> usize {
	match cls {
		"open_channel" | "open_channel_v2" => 2 + 32,
		"peer_storage" | "peer_storage_retrieval" => 2 + 2,
		"channel_announcement" => 2 + 4 * 64 + 2,
		"node_announcement" => 2 + 64 + 2 + 4 + 33 + 3,
		"channel_update" => 2 + 64,
		"onion_message" => 2 + 33 + 2 + 1 + 33,
		_ => 2,
	}
}
fn id_of(cls: &str, enc: &[u8]) -> u64 {
	let o = id_offset(cls);
	if enc.len() < o + 8 {
		return u64::MAX;
	}
	let mut b = [0u8; 8];
	b.copy_from_slice(&enc[o..o + 8]);
	u64::from_le_bytes(b)
}

/// Driver sanity (not a judgement of the property): every class is a message the library decodes
/// as the intended type and re-encodes to the same bytes, and its id can be read back.
/// (It depends on the decoder under test, so it is only reported in the summary; the check treats it
/// as a tool error when the trace validation found nothing.)
fn check_classes() -> Vec<String> {
	let mut errs = Vec::new();
	for cls in DELIVERABLE.iter().chain(NODELIVER.iter()) {
		if *cls == "custom" {
			continue;
		}
		let b = match build_typed(cls, 4242) {
			Some(b) => b,
			None => {
				errs.push(format!("class {} has no builder", cls));
				continue;
			},
		};
		let ty = u16::from_be_bytes([b[0], b[1]]);
		match catch_unwind(|| lightning::verif::codec::wire_read(&b)) {
			Ok(Ok((t, _, re))) => {
				if t != ty {
					errs.push(format!("class {} decodes as type {}", cls, t));
				}
				if !cls.starts_with("unknown") && re != b {
					errs.push(format!("class {} does not re-encode to itself", cls));
				}
			},
			Ok(Err(e)) => errs.push(format!("class {} does not decode: {:?}", cls, e)),
			Err(_) => errs.push(format!("class {}: decoder panicked", cls)),
		}
		if DELIVERABLE.contains(cls) && id_of(cls, &b) != 4242 {
			errs.push(format!("class {}: id not at the expected offset", cls));
		}
	}
	errs
}

#[derive(Clone)]
struct Pending {
	id: u64,
	size: usize,
	chan: bool,
}

/// Recording handler (one per PeerManager side); implements both the custom and the channel
/// message handler roles.
struct Handler {
	side: usize,
	ctx: Ctx,
	pending: Mutex<VecDeque<Pending>>,
	peer: Mutex<Option<PublicKey>>, // set between peer_connected and peer_disconnected
	handed: Mutex<Vec<Pending>>,    // everything handed to the PeerManager, in order
	junk_types: Mutex<BTreeSet<u16>>, // wire types of the arbitrary-content frames the raw peer sent to this side
}
impl Handler {
	fn new(side: usize, ctx: Ctx) -> Handler {
		Handler { side, ctx, pending: Mutex::new(VecDeque::new()), peer: Mutex::new(None), handed: Mutex::new(Vec::new()), junk_types: Mutex::new(BTreeSet::new()) }
	}
	/// a handler was given the message `enc` (complete encoding) of class `cls`
	fn deliver(&self, what: &str, cls: &str, enc: Vec<u8>) {
		let id = id_of(cls, &enc);
		let ok = id < 32000 && build_typed(cls, id).map(|b| b == enc).unwrap_or(false);
		if !ok && enc.len() >= 2 && self.junk_types.lock().unwrap().contains(&u16::from_be_bytes([enc[0], enc[1]])) {
			// one of the raw peer's arbitrary-content frames of this type happened to decode: not a test message
			self.callback("junk", what);
			return;
		}
		let idj: i64 = if id < 32000 { id as i64 } else { -1 };
		self.ctx.ev(json!({"ev":"delivered","s":self.side,"id":idj,"size":enc.len(),"ok":ok,"what":what}));
	}
	/// a handler callback for a message of the peer that is not a one-to-one delivery
	fn callback(&self, role: &str, name: &str) {
		self.ctx.ev(json!({"ev":"callback","s":self.side,"role":role,"name":name}));
	}
	fn take(&self, chan: bool) -> Vec<(PublicKey, Pending)> {
		let peer = match *self.peer.lock().unwrap() {
			Some(p) => p,
			None => return Vec::new(),
		};
		let mut q = self.pending.lock().unwrap();
		let mut out = Vec::new();
		// hand over the longest prefix of messages of the requested kind (keeps the queue order)
		while let Some(p) = q.front() {
			if p.chan != chan {
				break;
			}
			let p = q.pop_front().unwrap();
			self.ctx.ev(json!({"ev":"queue","d":self.side,"id":p.id,"size":p.size,"kind": if chan {"chan"} else {"custom"}}));
			self.handed.lock().unwrap().push(p.clone());
			out.push((peer, p));
		}
		out
	}
}

impl CustomMessageReader for Handler {
	type CustomMessage = CMsg;
	fn read<R: LengthLimitedRead>(&self, ty: u16, buf: &mut R) -> Result<Option<CMsg>, msgs::DecodeError> {
		if ty < CUSTOM_BASE {
			return Ok(None);
		}
		let mut payload = Vec::new();
		let mut chunk = [0u8; 4096];
		loop {
			match buf.read(&mut chunk) {
				Ok(0) => break,
				Ok(n) => payload.extend_from_slice(&chunk[..n]),
				Err(_) => return Err(msgs::DecodeError::ShortRead),
			}
		}
		Ok(Some(CMsg { ty, payload }))
	}
}
impl CustomMessageHandler for Handler {
	fn handle_custom_message(&self, msg: CMsg, _from: PublicKey) -> Result<(), LightningError> {
		let id = (msg.ty - CUSTOM_BASE) as u64;
		let ok = msg.payload == gen_payload(id, msg.payload.len());
		self.ctx.ev(json!({"ev":"delivered","s":self.side,"id":id,"size":msg.payload.len()+2,"ok":ok,"what":"custom"}));
		Ok(())
	}
	fn get_and_clear_pending_msg(&self) -> Vec<(PublicKey, CMsg)> {
		self.take(false)
			.into_iter()
			.map(|(pk, p)| (pk, CMsg { ty: CUSTOM_BASE + p.id as u16, payload: gen_payload(p.id, p.size - 2) }))
			.collect()
	}
	fn peer_disconnected(&self, _their_node_id: PublicKey) {
		*self.peer.lock().unwrap() = None;
		self.ctx.ev(json!({"ev":"peer_disconnected","s":self.side}));
	}
	fn peer_connected(&self, their_node_id: PublicKey, _msg: &Init, _inbound: bool) -> Result<(), ()> {
		*self.peer.lock().unwrap() = Some(their_node_id);
		self.ctx.ev(json!({"ev":"peer_connected","s":self.side}));
		Ok(())
	}
	fn provided_node_features(&self) -> NodeFeatures {
		NodeFeatures::empty()
	}
	fn provided_init_features(&self, _their_node_id: PublicKey) -> InitFeatures {
		InitFeatures::empty()
	}
}

/// Channel-message role of the same recorder (separate type because both handler traits have
/// methods of the same name).
struct ChanH(Arc<Handler>);
impl BaseMessageHandler for ChanH {
	fn get_and_clear_pending_msg_events(&self) -> Vec<MessageSendEvent> {
		self.0
			.take(true)
			.into_iter()
			.map(|(pk, p)| MessageSendEvent::SendChannelReady { node_id: pk, msg: chan_ready(p.id) })
			.collect()
	}
	fn peer_disconnected(&self, _their_node_id: PublicKey) {}
	fn provided_node_features(&self) -> NodeFeatures {
		NodeFeatures::empty()
	}
	fn provided_init_features(&self, _their_node_id: PublicKey) -> InitFeatures {
		InitFeatures::empty()
	}
	fn peer_connected(&self, _their_node_id: PublicKey, _msg: &Init, _inbound: bool) -> Result<(), ()> {
		Ok(())
	}
}
/// every callback that is handed one message records it as `delivered` (id and content read back
/// from the message itself)
macro_rules! record_ref {
	($($name:ident : $ty:ty => $cls:expr),* $(,)?) => {
		$(fn $name(&self, _their_node_id: PublicKey, msg: &$ty) { self.0.deliver(stringify!($name), $cls, enc_of(msg)); })*
	};
}
macro_rules! record_val {
	($($name:ident : $ty:ty => $cls:expr),* $(,)?) => {
		$(fn $name(&self, _their_node_id: PublicKey, msg: $ty) { self.0.deliver(stringify!($name), $cls, enc_of(&msg)); })*
	};
}
impl ChannelMessageHandler for ChanH {
	record_ref! {
		handle_open_channel: msgs::OpenChannel => "open_channel",
		handle_open_channel_v2: msgs::OpenChannelV2 => "open_channel_v2",
		handle_accept_channel: msgs::AcceptChannel => "accept_channel",
		handle_accept_channel_v2: msgs::AcceptChannelV2 => "accept_channel_v2",
		handle_funding_created: msgs::FundingCreated => "funding_created",
		handle_funding_signed: msgs::FundingSigned => "funding_signed",
		handle_channel_ready: msgs::ChannelReady => "channel_ready",
		handle_shutdown: msgs::Shutdown => "shutdown",
		handle_closing_signed: msgs::ClosingSigned => "closing_signed",
		handle_stfu: msgs::Stfu => "stfu",
		handle_splice_init: msgs::SpliceInit => "splice_init",
		handle_splice_ack: msgs::SpliceAck => "splice_ack",
		handle_splice_locked: msgs::SpliceLocked => "splice_locked",
		handle_tx_add_input: msgs::TxAddInput => "tx_add_input",
		handle_tx_add_output: msgs::TxAddOutput => "tx_add_output",
		handle_tx_remove_input: msgs::TxRemoveInput => "tx_remove_input",
		handle_tx_remove_output: msgs::TxRemoveOutput => "tx_remove_output",
		handle_tx_complete: msgs::TxComplete => "tx_complete",
		handle_tx_signatures: msgs::TxSignatures => "tx_signatures",
		handle_tx_init_rbf: msgs::TxInitRbf => "tx_init_rbf",
		handle_tx_ack_rbf: msgs::TxAckRbf => "tx_ack_rbf",
		handle_tx_abort: msgs::TxAbort => "tx_abort",
		handle_update_add_htlc: msgs::UpdateAddHTLC => "update_add_htlc",
		handle_update_fail_htlc: msgs::UpdateFailHTLC => "update_fail_htlc",
		handle_update_fail_malformed_htlc: msgs::UpdateFailMalformedHTLC => "update_fail_malformed_htlc",
		handle_commitment_signed: msgs::CommitmentSigned => "commitment_signed",
		handle_revoke_and_ack: msgs::RevokeAndACK => "revoke_and_ack",
		handle_update_fee: msgs::UpdateFee => "update_fee",
		handle_announcement_signatures: msgs::AnnouncementSignatures => "announcement_signatures",
		handle_channel_reestablish: msgs::ChannelReestablish => "channel_reestablish",
	}
	record_val! {
		handle_peer_storage: msgs::PeerStorage => "peer_storage",
		handle_peer_storage_retrieval: msgs::PeerStorageRetrieval => "peer_storage_retrieval",
		handle_update_fulfill_htlc: msgs::UpdateFulfillHTLC => "update_fulfill_htlc",
	}
	fn handle_commitment_signed_batch(&self, _n: PublicKey, _c: ChannelId, _b: Vec<msgs::CommitmentSigned>) {
		self.0.callback("chan", "handle_commitment_signed_batch");
	}
	fn handle_error(&self, _their_node_id: PublicKey, _msg: &msgs::ErrorMessage) {
		self.0.callback("chan", "handle_error");
	}
	// the channel handler's copy of a gossip message (the delivery is recorded by the routing handler)
	fn handle_channel_update(&self, _their_node_id: PublicKey, _msg: &msgs::ChannelUpdate) {
		self.0.callback("chan", "handle_channel_update");
	}
	fn get_chain_hashes(&self) -> Option<Vec<ChainHash>> {
		None
	}
	// (not a callback for a particular message: not recorded)
	fn message_received(&self) {}
}

macro_rules! base_handler {
	($t:ty) => {
		impl BaseMessageHandler for $t {
			fn get_and_clear_pending_msg_events(&self) -> Vec<MessageSendEvent> {
				Vec::new()
			}
			fn peer_disconnected(&self, _their_node_id: PublicKey) {}
			fn provided_node_features(&self) -> NodeFeatures {
				NodeFeatures::empty()
			}
			fn provided_init_features(&self, _their_node_id: PublicKey) -> InitFeatures {
				InitFeatures::empty()
			}
			fn peer_connected(&self, _their_node_id: PublicKey, _msg: &Init, _inbound: bool) -> Result<(), ()> {
				Ok(())
			}
		}
	};
}

/// Routing-message role of the recorder
struct RouteH(Arc<Handler>);
base_handler!(RouteH);
impl RoutingMessageHandler for RouteH {
	fn handle_node_announcement(&self, _n: Option<PublicKey>, msg: &msgs::NodeAnnouncement) -> Result<bool, LightningError> {
		self.0.deliver("handle_node_announcement", "node_announcement", enc_of(msg));
		Ok(false)
	}
	fn handle_channel_announcement(&self, _n: Option<PublicKey>, msg: &msgs::ChannelAnnouncement) -> Result<bool, LightningError> {
		self.0.deliver("handle_channel_announcement", "channel_announcement", enc_of(msg));
		Ok(false)
	}
	fn handle_channel_update(
		&self, _n: Option<PublicKey>, msg: &msgs::ChannelUpdate,
	) -> Result<Option<(NodeId, NodeId)>, LightningError> {
		self.0.deliver("handle_channel_update", "channel_update", enc_of(msg));
		Ok(None)
	}
	fn get_next_channel_announcement(
		&self, _starting_point: u64,
	) -> Option<(msgs::ChannelAnnouncement, Option<msgs::ChannelUpdate>, Option<msgs::ChannelUpdate>)> {
		None
	}
	fn get_next_node_announcement(&self, _starting_point: Option<&NodeId>) -> Option<msgs::NodeAnnouncement> {
		None
	}
	fn handle_reply_channel_range(&self, _n: PublicKey, msg: msgs::ReplyChannelRange) -> Result<(), LightningError> {
		self.0.deliver("handle_reply_channel_range", "reply_channel_range", enc_of(&msg));
		Ok(())
	}
	fn handle_reply_short_channel_ids_end(&self, _n: PublicKey, msg: msgs::ReplyShortChannelIdsEnd) -> Result<(), LightningError> {
		self.0.deliver("handle_reply_short_channel_ids_end", "reply_short_channel_ids_end", enc_of(&msg));
		Ok(())
	}
	fn handle_query_channel_range(&self, _n: PublicKey, msg: msgs::QueryChannelRange) -> Result<(), LightningError> {
		self.0.deliver("handle_query_channel_range", "query_channel_range", enc_of(&msg));
		Ok(())
	}
	fn handle_query_short_channel_ids(&self, _n: PublicKey, msg: msgs::QueryShortChannelIds) -> Result<(), LightningError> {
		self.0.deliver("handle_query_short_channel_ids", "query_short_channel_ids", enc_of(&msg));
		Ok(())
	}
	fn processing_queue_high(&self) -> bool {
		false
	}
}

/// Onion-message role of the recorder
struct OnionH(Arc<Handler>);
base_handler!(OnionH);
impl OnionMessageHandler for OnionH {
	fn handle_onion_message(&self, _peer_node_id: PublicKey, msg: &msgs::OnionMessage) {
		self.0.deliver("handle_onion_message", "onion_message", enc_of(msg));
	}
	fn next_onion_message_for_peer(&self, _peer_node_id: PublicKey) -> Option<msgs::OnionMessage> {
		None
	}
	fn timer_tick_occurred(&self) {}
}

type PM = PeerManager<
	Sock,
	Arc<ChanH>,
	Arc<RouteH>,
	Arc<OnionH>,
	Arc<NoLog>,
	Arc<Handler>,
	Arc<TestNodeSigner>,
	IgnoringMessageHandler,
>;

fn node_secret(side: usize) -> SecretKey {
	SecretKey::from_slice(&[0x40 + side as u8; 32]).unwrap()
}
fn node_id(side: usize) -> PublicKey {
	PublicKey::from_secret_key(&Secp256k1::new(), &node_secret(side))
}

fn make_pm(side: usize, h: &Arc<Handler>, salt: u64) -> PM {
	let mut eph = [side as u8; 32];
	eph[8..16].copy_from_slice(&salt.to_le_bytes());
	PeerManager::new(
		MessageHandler {
			chan_handler: Arc::new(ChanH(h.clone())),
			route_handler: Arc::new(RouteH(h.clone())),
			onion_message_handler: Arc::new(OnionH(h.clone())),
			custom_message_handler: h.clone(),
			send_only_message_handler: IgnoringMessageHandler {},
		},
		0,
		&eph,
		Arc::new(NoLog),
		Arc::new(TestNodeSigner::new(node_secret(side))),
	)
}

// --------------------------------------------------------------------------------------- layout

#[derive(Clone, Copy, PartialEq, Debug)]
enum UK {
	Act1,
	Act2,
	Act3,
	Hdr,
	Body,
	Blob, // region of unknown structure
}
#[derive(Clone, Debug)]
struct Frame {
	kind: &'static str, // act1 act2 act3 init msg chan ping pong unknown garbage
	len: usize,         // total bytes
}
#[derive(Clone, Debug)]
struct Unit {
	start: usize,
	len: usize,
	kind: UK,
}
fn units_of(frames: &[Frame]) -> Vec<Unit> {
	let mut pos = 0;
	let mut us = Vec::new();
	for f in frames {
		match f.kind {
			"act1" => us.push(Unit { start: pos, len: f.len, kind: UK::Act1 }),
			"act2" => us.push(Unit { start: pos, len: f.len, kind: UK::Act2 }),
			"act3" => us.push(Unit { start: pos, len: f.len, kind: UK::Act3 }),
			"unknown" | "garbage" => us.push(Unit { start: pos, len: f.len, kind: UK::Blob }),
			_ => {
				us.push(Unit { start: pos, len: HDR, kind: UK::Hdr });
				us.push(Unit { start: pos + HDR, len: f.len - HDR, kind: UK::Body });
			},
		}
		pos += f.len;
	}
	us
}
/// Grid of a unit: abstract position o (0..=n) -> byte offset inside the unit. Abstract byte b is
/// the real byte range [grid[b], grid[b+1]).
fn grid(u: &Unit) -> Vec<usize> {
	let l = u.len;
	let g = match u.kind {
		UK::Act1 | UK::Act2 => vec![0, 1, 34, l.saturating_sub(1), l],
		UK::Act3 => vec![0, 1, 50, l.saturating_sub(1), l],
		UK::Hdr => vec![0, 1, 2, 9, 17, 18],
		UK::Body => vec![0, 1, l.saturating_sub(TAG), l.saturating_sub(1), l],
		UK::Blob => vec![0, 1, l / 2, l.saturating_sub(1), l],
	};
	// keep it monotone for degenerate lengths
	let mut out = Vec::new();
	let mut last = 0;
	for x in g {
		let x = x.min(l).max(last);
		out.push(x);
		last = x;
	}
	out
}
fn class_of(u: &Unit, b: usize) -> &'static str {
	match (u.kind, b) {
		(UK::Act1, 0) | (UK::Act2, 0) | (UK::Act3, 0) => "act_version",
		(UK::Act1, 1) | (UK::Act2, 1) => "act_key",
		(UK::Act3, 1) => "act_enckey",
		(UK::Act1, _) | (UK::Act2, _) | (UK::Act3, _) => "act_mac",
		(UK::Hdr, 0) | (UK::Hdr, 1) => "len",
		(UK::Hdr, _) => "hdr_mac",
		(UK::Body, 0) | (UK::Body, 1) => "body",
		(UK::Body, _) => "body_mac",
		(UK::Blob, _) => "unknown",
	}
}

// ------------------------------------------------------------------------------------ direction

struct Dir {
	inflight: VecDeque<u8>, // bytes on the wire towards the receiver (after tampering)
	pulled: usize,          // authentic bytes already moved onto the wire
	given: usize,           // bytes handed to the receiver so far
	cut: bool,              // truncated: nothing more flows
	frames: Vec<Frame>,     // (best-knowledge) frame layout of the authentic stream
	mark_len: usize,
	mark_idx: usize,
	raw_auth: Vec<u8>, // raw sender only: the authentic stream
}
impl Dir {
	fn new() -> Dir {
		Dir { inflight: VecDeque::new(), pulled: 0, given: 0, cut: false, frames: Vec::new(), mark_len: 0, mark_idx: 0, raw_auth: Vec::new() }
	}
}

struct Raw {
	enc: PeerChannelEncryptor,
	signer: TestNodeSigner,
	step: u8, // initiator: 0 need act1, 1 wait act2, 2 done ; responder: 0 wait act1, 1 wait act3, 2 done
	inbuf: Vec<u8>,
	init_sent: bool,
	batch_left: usize, // commitment_signed messages still belonging to the batch opened by our start_batch
	batch_id: u64,
}

struct Conn {
	mode: String,
	ctx: Ctx,
	pm: [Option<PM>; 2],
	h: [Arc<Handler>; 2],
	sock: [Option<Sock>; 2],
	up: [bool; 2],
	raw: Option<(usize, Raw)>, // (side, state)
	dir: [Dir; 2],
	next_id: u64,
	rng: StdRng,
	init_len: usize,
	stats: Stats,
	first: Option<(String, usize)>, // class and stream end offset of the raw peer's first message, if sent before its Init
}

#[derive(Default, Clone)]
struct Stats {
	queued: usize,
	delivered: usize,
	reads: usize,
	tampers: usize,
	partial: usize,
	skipped: usize,
	ops: usize,
}

impl Conn {
	fn new(mode: &str, ctx: Ctx, seed: u64, init_len: usize) -> Conn {
		let h = [Arc::new(Handler::new(1, ctx.clone())), Arc::new(Handler::new(2, ctx.clone()))];
		let raw_side = match mode {
			"raw1" => Some(1),
			"raw2" => Some(2),
			_ => None,
		};
		let mut pm: [Option<PM>; 2] = [None, None];
		let mut sock: [Option<Sock>; 2] = [None, None];
		for s in 1..=2usize {
			if raw_side == Some(s) {
				continue;
			}
			pm[s - 1] = Some(make_pm(s, &h[s - 1], ctx.run));
			sock[s - 1] = Some(Sock {
				uid: ctx.run * 2 + s as u64,
				side: s,
				st: Arc::new(Mutex::new(Pipe { budget: None, auth: Vec::new(), need_wsa: false, paused: false, pm_disc: false })),
				ctx: ctx.clone(),
			});
		}
		let secp = Secp256k1::new();
		let raw = raw_side.map(|s| {
			let signer = TestNodeSigner::new(node_secret(s));
			let eph = SecretKey::from_slice(&[0x77; 32]).unwrap();
			let enc = if s == 1 {
				PeerChannelEncryptor::new_outbound(node_id(2), eph)
			} else {
				PeerChannelEncryptor::new_inbound(&&signer)
			};
			(s, Raw { enc, signer, step: 0, inbuf: Vec::new(), init_sent: false, batch_left: 0, batch_id: 0 })
		});
		let _ = secp;
		let mut c = Conn {
			mode: mode.to_string(),
			ctx,
			pm,
			h,
			sock,
			up: [true, true],
			raw,
			dir: [Dir::new(), Dir::new()],
			next_id: 1,
			rng: StdRng::seed_from_u64(seed),
			init_len,
			stats: Stats::default(),
			first: None,
		};
		c.ctx.ev(json!({"ev":"reset","mode":c.mode}));
		c.connect();
		c
	}

	fn is_raw(&self, s: usize) -> bool {
		self.raw.as_ref().map(|r| r.0 == s).unwrap_or(false)
	}

	fn connect(&mut self) {
		// initiator side 1
		if self.is_raw(1) {
			// the raw initiator sends act one (or garbage) when the script says so
		} else {
			let sock = self.sock[0].clone().unwrap();
			let act1 = self.pm[0].as_ref().unwrap().new_outbound_connection(node_id(2), sock.clone(), None);
			match act1 {
				Ok(bytes) => {
					self.ctx.ev(json!({"ev":"act_one","s":1,"len":bytes.len()}));
					sock.st.lock().unwrap().auth.extend_from_slice(&bytes);
				},
				Err(_) => {
					self.ctx.ev(json!({"ev":"connect_err","s":1}));
					self.up[0] = false;
				},
			}
			self.dir[0].frames = vec![
				Frame { kind: "act1", len: 50 },
				Frame { kind: "act3", len: 66 },
				Frame { kind: "init", len: self.init_len },
			];
		}
		if !self.is_raw(2) {
			let sock = self.sock[1].clone().unwrap();
			if self.pm[1].as_ref().unwrap().new_inbound_connection(sock, None).is_err() {
				self.ctx.ev(json!({"ev":"connect_err","s":2}));
				self.up[1] = false;
			}
			self.dir[1].frames = vec![Frame { kind: "act2", len: 50 }, Frame { kind: "init", len: self.init_len }];
		}
	}

	// ------------------------------------------------------------------ stream plumbing

	fn auth_len(&self, s: usize) -> usize {
		if self.is_raw(s) {
			self.dir[s - 1].raw_auth.len()
		} else {
			self.sock[s - 1].as_ref().unwrap().st.lock().unwrap().auth.len()
		}
	}
	/// move newly written authentic bytes of stream d onto the wire
	fn sync(&mut self, d: usize) {
		let dir = &mut self.dir[d - 1];
		if dir.cut {
			return;
		}
		if self.raw.as_ref().map(|r| r.0 == d).unwrap_or(false) {
			let n = dir.raw_auth.len();
			let from = dir.pulled;
			for i in from..n {
				let b = dir.raw_auth[i];
				dir.inflight.push_back(b);
			}
			dir.pulled = n;
		} else {
			let st = self.sock[d - 1].as_ref().unwrap().st.lock().unwrap();
			for b in &st.auth[dir.pulled..] {
				dir.inflight.push_back(*b);
			}
			dir.pulled = st.auth.len();
		}
	}

	/// best-knowledge layout maintenance for a PeerManager-written stream (driver heuristics only)
	fn relayout(&mut self, s: usize) {
		if self.is_raw(s) {
			return;
		}
		let (need_wsa, alen) = {
			let st = self.sock[s - 1].as_ref().unwrap().st.lock().unwrap();
			(st.need_wsa, st.auth.len())
		};
		// append frames of messages handed over since the last look
		let handed = self.h[s - 1].handed.lock().unwrap().clone();
		let dir = &mut self.dir[s - 1];
		let known_msgs = dir.frames.iter().filter(|f| f.kind == "msg" || f.kind == "chan").count();
		for p in handed.iter().skip(known_msgs) {
			dir.frames.push(Frame { kind: if p.chan { "chan" } else { "msg" }, len: HDR + p.size + TAG });
		}
		if need_wsa {
			return;
		}
		let expected: usize = dir.frames[dir.mark_idx..].iter().map(|f| f.len).sum();
		let actual = alen - dir.mark_len;
		if actual < expected {
			return; // handshake not finished yet (act3/init predicted but not yet written)
		}
		let delta = actual - expected;
		if delta > 0 {
			let mut rest = delta;
			if rest == 38 || rest == 142 {
				dir.frames.insert(dir.mark_idx, Frame { kind: "pong", len: 38 });
				rest -= 38;
			}
			if rest == 104 {
				dir.frames.push(Frame { kind: "ping", len: 104 });
				rest = 0;
			}
			if rest > 0 {
				dir.frames.push(Frame { kind: "unknown", len: rest });
			}
		}
		dir.mark_idx = dir.frames.len();
		dir.mark_len = alen;
	}

	fn after_pm_call(&mut self, s: usize) {
		// a PeerManager API call on side s returned: notice a disconnect_socket
		if self.is_raw(s) {
			return;
		}
		let disc = self.sock[s - 1].as_ref().unwrap().st.lock().unwrap().pm_disc;
		if disc && self.up[s - 1] {
			self.up[s - 1] = false;
			self.close_other(s);
		}
		self.relayout(s);
	}

	/// side s dropped the connection: the TCP connection is gone, tell the other PeerManager
	fn close_other(&mut self, s: usize) {
		let o = 3 - s;
		if self.is_raw(o) || !self.up[o - 1] {
			self.up[o - 1] = false;
			return;
		}
		self.up[o - 1] = false;
		self.ctx.ev(json!({"ev":"socket_disconnected","s":o}));
		let sock = self.sock[o - 1].clone().unwrap();
		self.pm[o - 1].as_ref().unwrap().socket_disconnected(&sock);
	}

	// ------------------------------------------------------------------------------ ops

	fn op_queue(&mut self, d: usize, size: usize, kind: &str) {
		let chan = kind == "chan";
		let size = if chan { CHAN_READY_SIZE } else { size.max(2).min(65535) };
		let id = self.next_id;
		if id >= 32000 {
			return;
		}
		if self.is_raw(d) {
			self.next_id += 1;
			self.raw_send_cls(id, size, if chan { "channel_ready" } else { kind });
			return;
		}
		if !self.up[d - 1] {
			self.stats.skipped += 1;
			return;
		}
		self.next_id += 1;
		self.stats.queued += 1;
		self.h[d - 1].pending.lock().unwrap().push_back(Pending { id, size, chan });
		let _ = kind;
	}

	fn op_pe(&mut self, s: usize) {
		if self.is_raw(s) {
			self.raw_handshake();
			return;
		}
		if !self.up[s - 1] {
			self.stats.skipped += 1;
			return;
		}
		self.ctx.ev(json!({"ev":"op","op":"pe","s":s}));
		self.pm[s - 1].as_ref().unwrap().process_events();
		self.after_pm_call(s);
	}

	fn op_budget(&mut self, s: usize, k: i64) {
		if self.is_raw(s) || !self.up[s - 1] {
			self.stats.skipped += 1;
			return;
		}
		let mut sock = self.sock[s - 1].clone().unwrap();
		let need = {
			let mut st = sock.st.lock().unwrap();
			st.budget = if k < 0 { None } else { Some(k as usize) };
			let need = st.need_wsa && k != 0;
			if need {
				st.need_wsa = false;
			}
			need
		};
		self.ctx.ev(json!({"ev":"op","op":"budget","s":s,"k":k}));
		if need {
			self.stats.partial += 1;
			let r = self.pm[s - 1].as_ref().unwrap().write_buffer_space_avail(&mut sock);
			self.ctx.ev(json!({"ev":"wsa","s":s,"ok":r.is_ok()}));
			if r.is_err() {
				self.up[s - 1] = false;
				self.close_other(s);
			}
			self.after_pm_call(s);
		}
	}

	fn resolve(&self, d: usize, u: usize, o: usize) -> Option<usize> {
		let mut frames = self.dir[d - 1].frames.clone();
		if !self.is_raw(d) {
			// frames of messages the handler has not handed over yet
			let known = frames.iter().filter(|f| f.kind == "msg" || f.kind == "chan").count();
			let handed = self.h[d - 1].handed.lock().unwrap();
			for p in handed.iter().skip(known) {
				frames.push(Frame { kind: "msg", len: HDR + p.size + TAG });
			}
			for p in self.h[d - 1].pending.lock().unwrap().iter() {
				frames.push(Frame { kind: "msg", len: HDR + p.size + TAG });
			}
		}
		let us = units_of(&frames);
		let unit = us.get(u)?;
		let g = grid(unit);
		Some(unit.start + g[o.min(g.len() - 1)])
	}

	/// hand k bytes of stream d to its receiver
	fn op_read(&mut self, d: usize, k: usize) {
		let r = 3 - d;
		self.sync(d);
		let k = k.min(self.dir[d - 1].inflight.len());
		if k == 0 {
			self.stats.skipped += 1;
			return;
		}
		if self.is_raw(r) {
			let bytes: Vec<u8> = self.dir[d - 1].inflight.drain(..k).collect();
			self.dir[d - 1].given += k;
			self.raw.as_mut().unwrap().1.inbuf.extend_from_slice(&bytes);
			self.raw_handshake();
			return;
		}
		if !self.up[r - 1] {
			self.stats.skipped += 1;
			return;
		}
		let paused = self.sock[r - 1].as_ref().unwrap().st.lock().unwrap().paused;
		if paused {
			self.stats.skipped += 1;
			return;
		}
		let bytes: Vec<u8> = self.dir[d - 1].inflight.drain(..k).collect();
		self.dir[d - 1].given += k;
		self.stats.reads += 1;
		self.ctx.ev(json!({"ev":"read_begin","s":r,"len":k}));
		let mut sock = self.sock[r - 1].clone().unwrap();
		let res = self.pm[r - 1].as_ref().unwrap().read_event(&mut sock, &bytes);
		self.ctx.ev(json!({"ev":"read_end","s":r,"ok":res.is_ok()}));
		if res.is_err() {
			self.up[r - 1] = false;
			self.close_other(r);
		}
		self.after_pm_call(r);
	}

	fn op_read_to(&mut self, d: usize, u: usize, o: usize) {
		match self.resolve(d, u, o) {
			Some(target) if target > self.dir[d - 1].given => {
				let k = target - self.dir[d - 1].given;
				self.op_read(d, k)
			},
			_ => self.stats.skipped += 1,
		}
	}

	/// tamper with the wire bytes of stream d at receiver-stream offset `off`
	fn op_tamper(&mut self, d: usize, off: usize, kind: &str, cls: &str, n: usize) {
		self.sync(d);
		let dir = &mut self.dir[d - 1];
		if off < dir.given || dir.cut {
			self.stats.skipped += 1;
			return;
		}
		let idx = off - dir.given;
		let mut inserted = 0usize;
		match kind {
			"flip" => {
				if idx >= dir.inflight.len() {
					self.stats.skipped += 1;
					return;
				}
				let mask = (self.rng.gen_range(1..=255u32)) as u8;
				dir.inflight[idx] ^= mask;
			},
			"trunc" => {
				if idx > dir.inflight.len() {
					self.stats.skipped += 1;
					return;
				}
				dir.inflight.truncate(idx);
				dir.cut = true;
			},
			"inject" | "replay" => {
				if idx > dir.inflight.len() {
					self.stats.skipped += 1;
					return;
				}
				let bytes: Vec<u8> = if kind == "replay" {
					// copy of an earlier, already transmitted part of the authentic stream
					let auth: Vec<u8> = if self.raw.as_ref().map(|r| r.0 == d).unwrap_or(false) {
						dir.raw_auth.clone()
					} else {
						self.sock[d - 1].as_ref().unwrap().st.lock().unwrap().auth.clone()
					};
					let us = units_of(&dir.frames);
					// the last complete message frame that ends at or before `off`
					let mut src: Option<(usize, usize)> = None;
					let mut i = 0;
					while i + 1 < us.len() {
						if us[i].kind == UK::Hdr && us[i + 1].kind == UK::Body {
							let (a, b) = (us[i].start, us[i + 1].start + us[i + 1].len);
							if b <= off && b <= auth.len() {
								src = Some((a, b));
							}
							i += 2;
						} else {
							i += 1;
						}
					}
					match src {
						Some((a, b)) => auth[a..b].to_vec(),
						None => {
							self.stats.skipped += 1;
							return;
						},
					}
				} else {
					(0..n.max(1)).map(|_| self.rng.gen()).collect()
				};
				// the stream must really differ AT `off` (the logged position): an inserted first byte equal
				// to the byte it displaces would be an insertion one byte later
				let mut bytes = bytes;
				if idx < dir.inflight.len() && bytes[0] == dir.inflight[idx] {
					if kind == "replay" {
						self.stats.skipped += 1;
						return;
					}
					bytes[0] ^= 0x55;
				}
				inserted = bytes.len();
				let tail: Vec<u8> = dir.inflight.drain(idx..).collect();
				dir.inflight.extend(bytes);
				dir.inflight.extend(tail);
			},
			_ => return,
		}
		self.stats.tampers += 1;
		self.ctx.ev(json!({"ev":"tamper","d":d,"off":off,"kind":kind,"cls":cls,"n":inserted}));
	}

	fn op_tamper_at(&mut self, d: usize, u: usize, b: usize, kind: &str) {
		self.sync(d);
		let us = units_of(&self.dir[d - 1].frames);
		let unit = match us.get(u) {
			Some(x) => x.clone(),
			None => {
				self.stats.skipped += 1;
				return;
			},
		};
		let g = grid(&unit);
		let b = b.min(g.len() - 2);
		let (lo, hi) = (unit.start + g[b], unit.start + g[b + 1]);
		let cls = class_of(&unit, b);
		let off = match kind {
			"flip" => {
				if hi <= lo {
					self.stats.skipped += 1;
					return;
				}
				// any byte of the class that is still unread
				let lo2 = lo.max(self.dir[d - 1].given);
				if lo2 >= hi {
					self.stats.skipped += 1;
					return;
				}
				self.rng.gen_range(lo2..hi)
			},
			_ => lo,
		};
		let n = self.rng.gen_range(1..100);
		self.op_tamper(d, off, kind, cls, n);
	}

	/// tamper somewhere in the bytes currently in flight (pick in 0..1000 selects the place)
	fn op_tamper_pick(&mut self, d: usize, pick: usize, kind: &str, snap: bool) {
		self.sync(d);
		let (given, n) = (self.dir[d - 1].given, self.dir[d - 1].inflight.len());
		if n == 0 {
			self.stats.skipped += 1;
			return;
		}
		let mut off = given + pick * n / 1000;
		let us = units_of(&self.dir[d - 1].frames);
		if snap || kind == "replay" {
			// move to the next (best-knowledge) frame boundary that is still in flight
			let mut best = None;
			for (i, u) in us.iter().enumerate() {
				let frame_start = u.kind != UK::Body && !(i > 0 && us[i - 1].kind == UK::Hdr && u.kind == UK::Body);
				if frame_start && u.kind != UK::Body && u.start >= off && u.start <= given + n {
					best = Some(u.start);
					break;
				}
			}
			match best {
				Some(b) => off = b,
				None if kind == "replay" => {
					self.stats.skipped += 1;
					return;
				},
				None => {},
			}
		}
		let mut cls = "unknown";
		for u in us.iter() {
			if off >= u.start && off < u.start + u.len {
				let g = grid(u);
				for b in 0..g.len() - 1 {
					if off - u.start >= g[b] && off - u.start < g[b + 1] {
						cls = class_of(u, b);
					}
				}
			}
		}
		let cnt = self.rng.gen_range(1..100);
		self.op_tamper(d, off, kind, cls, cnt);
	}

	fn op_disc(&mut self, s: usize) {
		if self.is_raw(s) {
			// the raw peer closes the connection
			self.up[s - 1] = false;
			self.close_other(s);
			return;
		}
		if !self.up[s - 1] {
			self.stats.skipped += 1;
			return;
		}
		self.up[s - 1] = false;
		self.ctx.ev(json!({"ev":"socket_disconnected","s":s}));
		let sock = self.sock[s - 1].clone().unwrap();
		self.pm[s - 1].as_ref().unwrap().socket_disconnected(&sock);
		self.close_other(s);
	}

	fn op_drain(&mut self) {
		let mut complete = true;
		for _round in 0..100000 {
			let mut progress = false;
			for s in 1..=2usize {
				if self.is_raw(s) {
					self.raw_handshake();
					continue;
				}
				if !self.up[s - 1] {
					continue;
				}
				let before = self.auth_len(s);
				self.op_budget(s, -1);
				if self.up[s - 1] {
					self.pm[s - 1].as_ref().unwrap().process_events();
					self.after_pm_call(s);
				}
				if self.auth_len(s) != before {
					progress = true;
				}
			}
			for d in 1..=2usize {
				self.sync(d);
				let r = 3 - d;
				let n = self.dir[d - 1].inflight.len();
				if n > 0 && (self.is_raw(r) || self.up[r - 1]) {
					let g0 = self.dir[d - 1].given;
					let chunk = if self.rng.gen_bool(0.5) { n } else { self.rng.gen_range(1..=n.min(5000)) };
					self.op_read(d, chunk);
					if self.dir[d - 1].given != g0 {
						progress = true;
					}
				}
				if self.dir[d - 1].cut && self.dir[d - 1].inflight.is_empty() && (self.up[0] || self.up[1]) {
					// the truncated stream ends: the connection is closed by the network
					if self.up[r - 1] && !self.is_raw(r) {
						self.op_disc(r);
					} else {
						self.op_disc(d);
					}
					progress = true;
				}
			}
			if !progress {
				break;
			}
		}
		for d in 1..=2usize {
			self.sync(d);
			let r = 3 - d;
			if !self.dir[d - 1].inflight.is_empty() && self.up[r - 1] && !self.is_raw(r) {
				complete = false; // the receiver stayed paused
			}
			if !self.is_raw(d) && self.up[d - 1] && self.sock[d - 1].as_ref().unwrap().st.lock().unwrap().need_wsa {
				complete = false;
			}
		}
		self.ctx.ev(json!({"ev":"quiesce","complete":complete}));
	}

	// ------------------------------------------------------------------------- raw peer

	fn raw_push(&mut self, s: usize, kind: &'static str, id: i64, size: usize, bytes: Vec<u8>) {
		self.raw_push_cls(s, kind, kind, id, size, bytes)
	}
	fn raw_push_cls(&mut self, s: usize, kind: &'static str, cls: &str, id: i64, size: usize, bytes: Vec<u8>) {
		self.ctx.ev(json!({"ev":"raw_send","s":s,"kind":kind,"cls":cls,"id":id,"size":size,"len":bytes.len()}));
		let dir = &mut self.dir[s - 1];
		dir.frames.push(Frame { kind, len: bytes.len() });
		dir.raw_auth.extend_from_slice(&bytes);
	}

	/// advance the raw peer's side of the handshake as far as its input allows
	fn raw_handshake(&mut self) {
		let (s, mut raw) = match self.raw.take() {
			Some(x) => x,
			None => return,
		};
		let secp = Secp256k1::new();
		if !self.up[s - 1] {
			self.raw = Some((s, raw));
			return;
		}
		if s == 1 {
			if raw.step == 0 {
				let act1 = raw.enc.get_act_one(&secp);
				raw.step = 1;
				self.raw_push(1, "act1", -1, 0, act1.to_vec());
			}
			if raw.step == 1 && raw.inbuf.len() >= 50 {
				let act2: Vec<u8> = raw.inbuf.drain(..50).collect();
				match raw.enc.process_act_two(&act2, &&raw.signer) {
					Ok((act3, _)) => {
						raw.step = 2;
						self.raw_push(1, "act3", -1, 0, act3.to_vec());
					},
					Err(_) => raw.step = 9,
				}
			}
		} else {
			if raw.step == 0 && raw.inbuf.len() >= 50 {
				let act1: Vec<u8> = raw.inbuf.drain(..50).collect();
				let eph = SecretKey::from_slice(&[0x78; 32]).unwrap();
				match raw.enc.process_act_one_with_keys(&act1, &&raw.signer, eph, &secp) {
					Ok(act2) => {
						raw.step = 1;
						self.raw_push(2, "act2", -1, 0, act2.to_vec());
					},
					Err(_) => raw.step = 9,
				}
			}
			if raw.step == 1 && raw.inbuf.len() >= 66 {
				let act3: Vec<u8> = raw.inbuf.drain(..66).collect();
				match raw.enc.process_act_three(&act3) {
					Ok(_) => raw.step = 2,
					Err(_) => raw.step = 9,
				}
			}
		}
		self.raw = Some((s, raw));
	}

	fn raw_ready(&self) -> bool {
		self.raw.as_ref().map(|r| r.1.step == 2 && self.up[r.0 - 1]).unwrap_or(false)
	}

	fn raw_encrypt(&mut self, encoded: &[u8]) -> Vec<u8> {
		let raw = &mut self.raw.as_mut().unwrap().1;
		raw.enc.encrypt_buffer(MessageBuf::from_encoded(encoded).unwrap())
	}

	fn raw_send_init(&mut self) {
		if !self.raw_ready() {
			self.stats.skipped += 1;
			return;
		}
		let s = self.raw.as_ref().unwrap().0;
		let init = Init { features: InitFeatures::empty(), networks: None, remote_network_address: None };
		let mut enc = vec![0u8, 16];
		enc.extend_from_slice(&init.encode());
		let size = enc.len();
		let bytes = self.raw_encrypt(&enc);
		self.raw.as_mut().unwrap().1.init_sent = true;
		self.raw_push(s, "init", -1, size, bytes);
	}

	/// the raw peer sends one message of class `cls` (any wire message type; "custom" = a test
	/// message of `size` bytes)
	fn raw_send_cls(&mut self, id: u64, size: usize, cls: &str) {
		if !self.raw_ready() {
			self.stats.skipped += 1;
			return;
		}
		let s = self.raw.as_ref().unwrap().0;
		let init_sent = self.raw.as_ref().unwrap().1.init_sent;
		// kind "msg"/"chan": the message has exactly one handler callback, "typed": it has none of its own
		let mut kind: &'static str = if cls == "custom" {
			"msg"
		} else if DELIVERABLE.contains(&cls) {
			"chan"
		} else {
			"typed"
		};
		let enc: Vec<u8> = if cls == "custom" {
			let mut v = (CUSTOM_BASE + id as u16).to_be_bytes().to_vec();
			v.extend_from_slice(&gen_payload(id, size - 2));
			v
		} else if cls == "commitment_signed" && init_sent && self.raw.as_ref().unwrap().1.batch_left > 0 {
			// belongs to the batch announced by our start_batch: handed over with the whole batch
			let raw = &mut self.raw.as_mut().unwrap().1;
			raw.batch_left -= 1;
			kind = "typed";
			enc_of(&commitment_signed(raw.batch_id))
		} else {
			match build_typed(cls, id) {
				Some(v) => v,
				None => {
					self.stats.skipped += 1;
					return;
				},
			}
		};
		if cls == "start_batch" && init_sent {
			// (a start_batch sent before Init is never acted on)
			let raw = &mut self.raw.as_mut().unwrap().1;
			if raw.batch_left == 0 {
				raw.batch_left = 2;
				raw.batch_id = id;
			}
		}
		let size = enc.len();
		let bytes = self.raw_encrypt(&enc);
		if kind != "typed" {
			self.stats.queued += 1;
		}
		let idj = if kind == "typed" { -1 } else { id as i64 };
		self.raw_push_cls(s, kind, cls, idj, size, bytes);
		if !init_sent && self.first.is_none() {
			self.first = Some((cls.to_string(), self.dir[s - 1].raw_auth.len()));
		}
	}

	/// class of the raw peer's first message if it was sent before Init and handed to the PeerManager
	/// completely (driver statistics)
	fn first_read(&self) -> Option<String> {
		let s = self.raw.as_ref()?.0;
		match &self.first {
			Some((cls, end)) if self.dir[s - 1].given >= *end => Some(cls.clone()),
			_ => None,
		}
	}

	/// a well-formed frame that is not one of our test messages: an empty / one-byte message, or a
	/// message of a standard (non channel-handler) type with arbitrary content
	fn raw_send_junk(&mut self, ty: u64, len: usize, short: bool) {
		if !self.raw_ready() {
			self.stats.skipped += 1;
			return;
		}
		let s = self.raw.as_ref().unwrap().0;
		let enc: Vec<u8> = if short {
			(0..len.min(1)).map(|_| self.rng.gen()).collect()
		} else {
			let mut v = (ty as u16).to_be_bytes().to_vec();
			match ty {
				18 => {
					// ping: ponglen, byteslen, padding
					let ponglen: u16 = *[0u16, 1, 100, 65531, 65532, 65535].get(self.rng.gen_range(0..6)).unwrap();
					let pad = len.min(2000);
					v.extend_from_slice(&ponglen.to_be_bytes());
					v.extend_from_slice(&(pad as u16).to_be_bytes());
					v.extend((0..pad).map(|_| 0u8));
				},
				_ => v.extend((0..len.min(65533)).map(|_| self.rng.gen::<u8>())),
			}
			v
		};
		let size = enc.len();
		if !short {
			self.h[2 - s].junk_types.lock().unwrap().insert(ty as u16);
		}
		let bytes = self.raw_encrypt(&enc);
		self.raw_push(s, if short { "short" } else { "junk" }, ty as i64, size, bytes);
	}

	fn raw_send_garbage(&mut self, n: usize, flavour: u64) {
		let s = match self.raw.as_ref() {
			Some(r) if self.up[r.0 - 1] => r.0,
			_ => return,
		};
		let mut bytes: Vec<u8> = (0..n).map(|_| self.rng.gen()).collect();
		if flavour % 3 == 1 && n >= 34 {
			// plausible act one: version 0 and a valid public key, bad MAC
			bytes[0] = 0;
			bytes[1..34].copy_from_slice(&node_id(1).serialize());
		} else if flavour % 3 == 2 && n >= 1 {
			bytes[0] = 0;
		}
		// the raw peer does not follow the handshake any further
		self.raw.as_mut().unwrap().1.step = 9;
		self.raw_push(s, "garbage", -1, 0, bytes);
	}

	// -------------------------------------------------------------------------- script

	fn run_op(&mut self, op: &Value) {
		self.stats.ops += 1;
		let name = op["op"].as_str().unwrap_or("");
		let gu = |k: &str| op[k].as_u64().unwrap_or(0) as usize;
		match name {
			"queue" => self.op_queue(gu("d"), gu("size"), op["kind"].as_str().unwrap_or("custom")),
			"pe" => self.op_pe(gu("s")),
			"budget" => {
				if op.get("u").is_some() {
					// the socket takes bytes up to a position of the stream
					let s = gu("s");
					match self.resolve(s, gu("u"), gu("o")) {
						Some(target) if !self.is_raw(s) && target > self.auth_len(s) => {
							let k = (target - self.auth_len(s)) as i64;
							self.op_budget(s, k)
						},
						_ => self.stats.skipped += 1,
					}
				} else {
					self.op_budget(gu("s"), op["k"].as_i64().unwrap_or(-1))
				}
			},
			"read" => {
				if op.get("u").is_some() {
					self.op_read_to(gu("d"), gu("u"), gu("o"))
				} else if op["k"].as_i64() == Some(-1) {
					self.op_read(gu("d"), usize::MAX)
				} else {
					self.op_read(gu("d"), gu("k"))
				}
			},
			"tamper" => {
				let kind = op["kind"].as_str().unwrap_or("flip").to_string();
				if op.get("u").is_some() {
					self.op_tamper_at(gu("d"), gu("u"), gu("b"), &kind)
				} else if op.get("pick").is_some() {
					self.op_tamper_pick(gu("d"), gu("pick"), &kind, op["snap"].as_bool().unwrap_or(false))
				} else {
					let n = gu("n");
					self.op_tamper(gu("d"), gu("off"), &kind, "offset", n)
				}
			},
			"disc" => self.op_disc(gu("s")),
			"raw_init" => self.raw_send_init(),
			"raw_garbage" => self.raw_send_garbage(gu("n"), op["flavour"].as_u64().unwrap_or(0)),
			"raw_junk" => self.raw_send_junk(op["ty"].as_u64().unwrap_or(18), gu("len"), false),
			"raw_short" => self.raw_send_junk(0, gu("len"), true),
			"drain" => self.op_drain(),
			_ => {},
		}
	}
}

// --------------------------------------------------------------------------------- calibration

/// length of the Init frame a PeerManager with our handlers sends (driver knowledge only)
fn calibrate() -> usize {
	let ctx = Ctx { log: Arc::new(Mutex::new(Vec::new())), run: 0 };
	let mut c = Conn::new("pm", ctx, 0, 40);
	c.op_drain();
	let l = c.auth_len(2);
	if l > 50 + 34 {
		l - 50
	} else {
		40
	}
}

// ------------------------------------------------------------------------------ random scripts

fn rnd_size(rng: &mut StdRng) -> usize {
	match rng.gen_range(0..100) {
		0..=14 => 2,
		15..=24 => 3,
		25..=54 => rng.gen_range(2..80),
		55..=74 => rng.gen_range(80..2100),
		75..=84 => rng.gen_range(2000..9000),
		85..=92 => rng.gen_range(9000..65535),
		93..=96 => 65535,
		_ => 65534,
	}
}

fn any_class(rng: &mut StdRng) -> &'static str {
	let n = DELIVERABLE.len() + NODELIVER.len();
	let k = rng.gen_range(0..n);
	if k < DELIVERABLE.len() {
		DELIVERABLE[k]
	} else {
		NODELIVER[k - DELIVERABLE.len()]
	}
}

fn handshake_ops(rng: &mut StdRng, ops: &mut Vec<Value>, clean_cuts: bool) {
	// enough alternations to finish the handshake and the Init exchange under any cutting
	for _ in 0..6 {
		for d in [1usize, 2] {
			if clean_cuts && rng.gen_bool(0.5) {
				let mut left = 3;
				while left > 0 {
					ops.push(json!({"op":"read","d":d,"k":rng.gen_range(1..70)}));
					left -= 1;
				}
			}
			ops.push(json!({"op":"read","d":d,"k":-1}));
			ops.push(json!({"op":"pe","s":3-d}));
		}
	}
}

/// a general random script: handshake, then queue / write / read / back-pressure / tamper ops
fn random_script(rng: &mut StdRng) -> Value {
	let mut ops: Vec<Value> = Vec::new();
	let mode = match rng.gen_range(0..10) {
		0..=5 => "pm",
		6..=8 => "raw1",
		_ => "raw2",
	};
	let raw_side = match mode {
		"raw1" => 1,
		"raw2" => 2,
		_ => 0,
	};
	let tampering = rng.gen_bool(0.45);
	if raw_side == 1 && rng.gen_bool(0.12) {
		// arbitrary bytes instead of a handshake
		ops.push(json!({"op":"raw_garbage","n": *[1usize, 10, 49, 50, 51, 116, 300].get(rng.gen_range(0..7)).unwrap(), "flavour": rng.gen_range(0..3)}));
		for _ in 0..rng.gen_range(1..4) {
			ops.push(json!({"op":"read","d":1,"k":rng.gen_range(1..120)}));
		}
		ops.push(json!({"op":"drain"}));
		return json!({"mode":mode,"ops":ops});
	}
	ops.push(json!({"op":"pe","s":1}));
	if rng.gen_bool(0.25) {
		// back-pressure during the handshake
		ops.push(json!({"op":"budget","s":rng.gen_range(1..=2),"k":rng.gen_range(0..60)}));
	}
	handshake_ops(rng, &mut ops, true);
	if raw_side != 0 {
		let pre = rng.gen_bool(0.3);
		if pre {
			// messages of any type before Init
			match rng.gen_range(0..10) {
				0 => {
					for cls in ["start_batch", "commitment_signed", "commitment_signed"] {
						ops.push(json!({"op":"queue","d":raw_side,"size":2,"kind":cls}));
					}
				},
				1..=2 => ops.push(json!({"op":"queue","d":raw_side,"size":rnd_size(rng),"kind":"custom"})),
				_ => {
					for _ in 0..rng.gen_range(1..3) {
						ops.push(json!({"op":"queue","d":raw_side,"size":rnd_size(rng),"kind":any_class(rng)}));
					}
				},
			}
			if rng.gen_bool(0.5) {
				ops.push(json!({"op":"read","d":raw_side,"k": if rng.gen_bool(0.7) { -1 } else { rng.gen_range(1..120) }}));
			}
		}
		ops.push(json!({"op":"raw_init"}));
		ops.push(json!({"op":"read","d":raw_side,"k":-1}));
	}
	ops.push(json!({"op":"budget","s":1,"k":-1}));
	ops.push(json!({"op":"budget","s":2,"k":-1}));
	let nsteps = rng.gen_range(4..60);
	let big = rng.gen_bool(0.3);
	let mut tampered = false;
	for _ in 0..nsteps {
		match rng.gen_range(0..100) {
			0..=29 => {
				let d = rng.gen_range(1..=2);
				let n = if rng.gen_bool(0.2) { rng.gen_range(2..20) } else { 1 };
				for _ in 0..n {
					let size = if big { rnd_size(rng) } else { rng.gen_range(2..60) };
					let kind = if d == raw_side && rng.gen_bool(0.25) {
						// any message type that has a handler callback
						DELIVERABLE[rng.gen_range(0..DELIVERABLE.len())]
					} else if rng.gen_bool(0.1) {
						"chan"
					} else {
						"custom"
					};
					ops.push(json!({"op":"queue","d":d,"size":size,"kind":kind}));
				}
				if rng.gen_bool(0.8) {
					ops.push(json!({"op":"pe","s":d}));
				}
			},
			30..=39 => ops.push(json!({"op":"pe","s":rng.gen_range(1..=2)})),
			40..=54 => {
				let k: i64 = match rng.gen_range(0..6) {
					0 => 0,
					1 => 1,
					2 => rng.gen_range(2..40),
					3 => rng.gen_range(40..3000),
					4 => rng.gen_range(3000..70000),
					_ => -1,
				};
				ops.push(json!({"op":"budget","s":rng.gen_range(1..=2),"k":k}));
			},
			55..=84 => {
				let k: i64 = match rng.gen_range(0..7) {
					0 => 1,
					1 => 17,
					2 => 18,
					3 => 19,
					4 => rng.gen_range(1..100),
					5 => rng.gen_range(100..70000),
					_ => -1,
				};
				ops.push(json!({"op":"read","d":rng.gen_range(1..=2),"k":k}));
			},
			85..=92 if tampering && !tampered => {
				tampered = rng.gen_bool(0.8);
				let d = if raw_side != 0 && rng.gen_bool(0.8) { raw_side } else { rng.gen_range(1..=2) };
				let kind = ["flip", "flip", "flip", "trunc", "inject", "replay"][rng.gen_range(0..6)];
				if rng.gen_bool(0.3) {
					ops.push(json!({"op":"tamper","d":d,"kind":kind,"u":rng.gen_range(0..24),"b":rng.gen_range(0..5)}));
				} else {
					// make sure something is in flight, then tamper with it
					for _ in 0..rng.gen_range(1..4) {
						let size = if big { rnd_size(rng) } else { rng.gen_range(2..60) };
						ops.push(json!({"op":"queue","d":d,"size":size,"kind":"custom"}));
					}
					ops.push(json!({"op":"pe","s":d}));
					if rng.gen_bool(0.3) {
						ops.push(json!({"op":"read","d":d,"k":rng.gen_range(1..60)}));
					}
					ops.push(json!({"op":"tamper","d":d,"kind":kind,"pick":rng.gen_range(0..1000),"snap":rng.gen_bool(0.3)}));
					for _ in 0..rng.gen_range(0..4) {
						ops.push(json!({"op":"read","d":d,"k":rng.gen_range(1..90)}));
					}
				}
			},
			93..=94 if tampering => ops.push(json!({"op":"disc","s":rng.gen_range(1..=2)})),
			95..=97 if raw_side != 0 && tampering => {
				// well-formed frames of other kinds: must never panic the node
				if rng.gen_bool(0.2) {
					ops.push(json!({"op":"raw_short","len":rng.gen_range(0..2)}));
				} else if rng.gen_bool(0.4) {
					// a well-formed message without a callback of its own; a commitment_signed batch
					let cls = NODELIVER[rng.gen_range(0..NODELIVER.len())];
					ops.push(json!({"op":"queue","d":raw_side,"size":2,"kind":cls}));
					if cls == "start_batch" {
						for _ in 0..rng.gen_range(1..3) {
							ops.push(json!({"op":"queue","d":raw_side,"size":2,"kind":"commitment_signed"}));
						}
					}
				} else {
					let ty = [1u64, 17, 18, 18, 19, 101, 102, 256, 257, 258, 261, 263, 264, 265, 513, 32767][rng.gen_range(0..16)];
					let len = if rng.gen_bool(0.8) { rng.gen_range(0..300) } else { rng.gen_range(300..65534) };
					ops.push(json!({"op":"raw_junk","ty":ty,"len":len}));
				}
				ops.push(json!({"op":"read","d":raw_side,"k":-1}));
				ops.push(json!({"op":"pe","s":3-raw_side}));
			},
			_ => {
				let d = rng.gen_range(1..=2);
				ops.push(json!({"op":"read","d":d,"u":rng.gen_range(0..24),"o":rng.gen_range(0..6)}));
			},
		}
	}
	ops.push(json!({"op":"drain"}));
	json!({"mode":mode,"ops":ops})
}

/// many small messages through key rotations (every 500 messages per direction), with stream cuts
/// and partial socket accepts concentrated around each rotation
fn rotation_script(rng: &mut StdRng, msgs: usize, variant: usize) -> Value {
	let mut ops: Vec<Value> = Vec::new();
	let mode = ["pm", "pm", "raw1", "raw2"][variant % 4];
	let raw_side = match mode {
		"raw1" => 1,
		"raw2" => 2,
		_ => 0,
	};
	ops.push(json!({"op":"pe","s":1}));
	handshake_ops(rng, &mut ops, false);
	if raw_side != 0 {
		ops.push(json!({"op":"raw_init"}));
		ops.push(json!({"op":"read","d":raw_side,"k":-1}));
	}
	let main_d = if raw_side != 0 { raw_side } else { 1 + variant / 4 % 2 };
	let mut sent = [0usize; 3];
	while sent[main_d] < msgs {
		let d = if raw_side == 0 && rng.gen_bool(0.15) { 3 - main_d } else { main_d };
		// the Init message used two nonces: message j (1-based) of a direction starts a new key
		// epoch when 2*j is a multiple of 1000, i.e. j = 499 (with Init), 999, ...
		// (a PeerManager also spends nonces on the pings it interleaves every 32 messages, which moves
		// its rotations forward by an unknown amount: use a wide window, or cut everywhere)
		let pos = (sent[d] + 1) % 500;
		let near = if variant % 3 == 0 {
			true
		} else if raw_side != 0 {
			pos >= 495 || pos <= 4
		} else {
			pos >= 450 || pos <= 4
		};
		let batch = if near { 1 } else { rng.gen_range(1..12) };
		let mut sizes = Vec::new();
		for _ in 0..batch {
			let size = if near { rng.gen_range(2..30) } else { rng.gen_range(2..50) };
			sizes.push(size);
			ops.push(json!({"op":"queue","d":d,"size":size,"kind":"custom"}));
			sent[d] += 1;
		}
		if near && raw_side != d && rng.gen_bool(0.6) {
			// partial accepts of the socket around the rotation
			ops.push(json!({"op":"budget","s":d,"k":rng.gen_range(0..40)}));
			ops.push(json!({"op":"pe","s":d}));
			for _ in 0..rng.gen_range(1..4) {
				ops.push(json!({"op":"read","d":d,"k":rng.gen_range(1..30)}));
				ops.push(json!({"op":"budget","s":d,"k":rng.gen_range(1..40)}));
			}
			ops.push(json!({"op":"budget","s":d,"k":-1}));
		} else {
			ops.push(json!({"op":"pe","s":d}));
		}
		if near {
			// cuts at the frame boundaries +-1 and inside header / body
			let f: usize = 34 + sizes[0];
			for k in [1usize, 16, 1, 1, f.saturating_sub(21).max(1), 1, 1] {
				if rng.gen_bool(0.8) {
					ops.push(json!({"op":"read","d":d,"k":k}));
				}
			}
			ops.push(json!({"op":"read","d":d,"k":-1}));
		} else if rng.gen_bool(0.7) {
			ops.push(json!({"op":"read","d":d,"k": if rng.gen_bool(0.5) { -1 } else { rng.gen_range(1..400) }}));
		}
		if rng.gen_bool(0.1) {
			// let the other side answer pings
			ops.push(json!({"op":"pe","s":3-d}));
			ops.push(json!({"op":"read","d":3-d,"k":-1}));
		}
	}
	ops.push(json!({"op":"drain"}));
	json!({"mode":mode,"ops":ops})
}

fn main() {
	let args: Vec<String> = std::env::args().collect();
	let mut scripts_path = None;
	let mut out = String::from("trace.ndjson");
	let mut random = 0usize;
	let mut rot: Vec<(usize, usize)> = Vec::new();
	let mut seed = 1u64;
	let mut i = 1;
	while i < args.len() {
		match args[i].as_str() {
			"--scripts" => {
				scripts_path = Some(args[i + 1].clone());
				i += 1
			},
			"--out" => {
				out = args[i + 1].clone();
				i += 1
			},
			"--random" => {
				random = args[i + 1].parse().unwrap();
				i += 1
			},
			"--rot" => {
				let mut it = args[i + 1].split(':');
				let n: usize = it.next().unwrap().parse().unwrap();
				let m: usize = it.next().unwrap().parse().unwrap();
				rot.push((n, m));
				i += 1
			},
			"--seed" => {
				seed = args[i + 1].parse().unwrap();
				i += 1
			},
			_ => {},
		}
		i += 1;
	}
	if args.iter().any(|a| a == "--list-classes") {
		println!("{}", json!({"deliverable": DELIVERABLE, "nodeliver": NODELIVER}));
		return;
	}
	std::panic::set_hook(Box::new(|_| {}));
	let class_errors = check_classes();
	// (driver knowledge only; a panic in here shows up again in every recorded run)
	let init_len = catch_unwind(calibrate).unwrap_or(40);
	let mut scripts: Vec<Value> = Vec::new();
	if let Some(p) = scripts_path {
		for line in std::fs::read_to_string(p).unwrap().lines() {
			if !line.trim().is_empty() {
				scripts.push(serde_json::from_str(line).unwrap());
			}
		}
	}
	let nscripted = scripts.len();
	let mut rng = StdRng::seed_from_u64(seed);
	for _ in 0..random {
		scripts.push(random_script(&mut rng));
	}
	for (n, m) in rot {
		for v in 0..n {
			scripts.push(rotation_script(&mut rng, m, v));
		}
	}
	let mut tw = TraceWriter::create(&out);
	let mut panics = 0;
	let mut tot = Stats::default();
	let mut runs_with_delivery = 0;
	let mut max_delivered_one_run = 0;
	let mut first_classes: BTreeSet<String> = BTreeSet::new();
	let mut delivered_whats: BTreeSet<String> = BTreeSet::new();
	let mut callbacks = 0usize;
	let dump = std::env::var("TRANSPORT_DUMP_SCRIPTS").ok();
	let mut dumpf = dump.map(|p| std::fs::File::create(p).unwrap());
	for (k, s) in scripts.iter().enumerate() {
		let run = k as u64 + 1;
		if k >= nscripted {
			if let Some(f) = dumpf.as_mut() {
				use std::io::Write;
				writeln!(f, "{}", s).unwrap();
			}
		}
		let log = Arc::new(Mutex::new(Vec::new()));
		let ctx = Ctx { log: log.clone(), run };
		let mode = s["mode"].as_str().unwrap_or("pm").to_string();
		let sseed = seed ^ run.wrapping_mul(0x9e3779b97f4a7c15);
		let mut stats = Stats::default();
		let mut first_read = None;
		let r = catch_unwind(AssertUnwindSafe(|| {
			let mut c = Conn::new(&mode, ctx.clone(), sseed, init_len);
			for op in s["ops"].as_array().unwrap() {
				c.run_op(op);
			}
			stats = c.stats.clone();
			first_read = c.first_read();
		}));
		if let Some(cls) = first_read {
			first_classes.insert(cls);
		}
		if r.is_err() {
			panics += 1;
			log.lock().unwrap().push(json!({"run":run,"ev":"panic"}));
		}
		let evs = log.lock().unwrap();
		let mut delivered = 0;
		for e in evs.iter() {
			if e["ev"] == "delivered" {
				delivered += 1;
				if e["ok"] == true {
					delivered_whats.insert(e["what"].as_str().unwrap_or("").to_string());
				}
			}
			if e["ev"] == "callback" {
				callbacks += 1;
			}
			tw.emit(e.clone());
		}
		if delivered > 0 {
			runs_with_delivery += 1;
		}
		max_delivered_one_run = max_delivered_one_run.max(delivered);
		tot.queued += stats.queued;
		tot.delivered += delivered;
		tot.reads += stats.reads;
		tot.tampers += stats.tampers;
		tot.partial += stats.partial;
		tot.skipped += stats.skipped;
		tot.ops += stats.ops;
	}
	tw.flush();
	println!(
		"{}",
		json!({"runs": scripts.len(), "events": tw.lines, "panics": panics, "queued": tot.queued,
			"delivered": tot.delivered, "reads": tot.reads, "tampers": tot.tampers, "partial_writes": tot.partial,
			"skipped_ops": tot.skipped, "ops": tot.ops, "runs_with_delivery": runs_with_delivery,
			"max_delivered_one_run": max_delivered_one_run, "init_frame_len": init_len,
			"first_message_classes_read": first_classes, "delivered_callbacks": delivered_whats,
			"other_callbacks": callbacks, "class_table_errors": class_errors})
	);
}
