//! Engine `wirecodec` (C13): runs the real peer-message codecs of `lightning::ln::msgs`, the
//! type-id dispatch `ln::wire::read` (through the hook `lightning::verif::codec::wire_read`) and a
//! loop-back `PeerManager` pair on bytes whose *shape* is an abstract message of spec/Wire.tla,
//! and records what was observed (accept / reject / unknown / ignore / panic, the round-trip
//! equalities) as NDJSON.  The engine does not judge: spec/WireTrace.tla does.
//!
//! usage: wirecodec --cases FILE --out TRACE --detail FILE [--seed S] [--seeds N] [--tlv3 N]
//!                  [--trunc N] [--mutate N] [--random N] [--only RUN]

use bitcoin::constants::ChainHash;
use bitcoin::hashes::Hash;
use bitcoin::secp256k1::ecdsa::Signature;
use bitcoin::secp256k1::{Message, PublicKey, Secp256k1, SecretKey};
use bitcoin::{absolute, transaction, Amount, OutPoint, ScriptBuf, Sequence, Transaction, TxIn, TxOut, Txid, Witness};
use lightning::blinded_path::message::BlindedMessagePath;
use lightning::blinded_path::BlindedHop;
use lightning::io;
use lightning::ln::msgs::*;
use lightning::ln::types::ChannelId;
use lightning::ln::wire::Type;
use lightning::routing::gossip::{NodeAlias, NodeId};
use lightning::types::features::{ChannelFeatures, ChannelTypeFeatures, InitFeatures, NodeFeatures};
use lightning::types::payment::{PaymentHash, PaymentPreimage};
use lightning::util::ser::{Hostname, LengthLimitedRead, LengthReadable, Readable, Writeable};
use rand::rngs::StdRng;
use rand::{Rng, RngCore, SeedableRng};
use serde_json::{json, Value};
use std::cell::RefCell;
use std::fmt::Debug;
use std::panic::{catch_unwind, AssertUnwindSafe};
use std::rc::Rc;
use vharness::trace::TraceWriter;

// ------------------------------------------------------------------------------------------
// counting reader

/// A length-limited reader over `buf[..declared]`; the backing buffer continues with canary bytes.
/// `over` is set if a byte at or beyond `declared` was ever handed out.
struct CountingReader<'a> {
	buf: &'a [u8],
	declared: usize,
	pos: usize,
	over: bool,
}
impl<'a> io::Read for CountingReader<'a> {
	fn read(&mut self, out: &mut [u8]) -> io::Result<usize> {
		let avail = self.declared.saturating_sub(self.pos);
		let n = std::cmp::min(out.len(), avail);
		out[..n].copy_from_slice(&self.buf[self.pos..self.pos + n]);
		self.pos += n;
		if self.pos > self.declared {
			self.over = true;
		}
		Ok(n)
	}
}
impl<'a> LengthLimitedRead for CountingReader<'a> {
	fn remaining_bytes(&self) -> u64 {
		self.declared.saturating_sub(self.pos) as u64
	}
}

thread_local! { static LAST_PANIC: RefCell<String> = RefCell::new(String::new()); }

enum Dec<T> {
	Ok(T),
	Err(String),
	Panic(String),
}

fn decode<T: LengthReadable>(bytes: &[u8]) -> (Dec<T>, usize, bool) {
	let mut backing = bytes.to_vec();
	backing.extend_from_slice(&[0xA5u8; 24]);
	let mut rd = CountingReader { buf: &backing, declared: bytes.len(), pos: 0, over: false };
	let r = catch_unwind(AssertUnwindSafe(|| T::read_from_fixed_length_buffer(&mut rd)));
	let d = match r {
		Ok(Ok(v)) => Dec::Ok(v),
		Ok(Err(e)) => Dec::Err(format!("{:?}", e)),
		Err(_) => Dec::Panic(LAST_PANIC.with(|p| p.borrow().clone())),
	};
	(d, rd.pos, rd.over)
}

#[derive(Clone, Debug)]
struct Obs {
	class: &'static str, // accept | reject | unknown | ignore | panic
	err: String,
	eq: bool,
	rt: bool,
	consumed: usize,
	over: bool,
	/// encode(decoded) == the input bytes
	canon: bool,
}

enum Expect {
	None,
	Mask(u32),
	Excess(u32, Vec<u8>),
}

// ------------------------------------------------------------------------------------------
// seeded value generation

const NV: usize = 4; // size classes: 0 minimal, 1 small, 2 BigSize/u8 boundary, 3 large

struct Pools {
	pka: Vec<PublicKey>, // used for fields that are validated as curve points on decode
	pkb: Vec<PublicKey>, // used for fields kept as raw bytes (NodeId, onion packet key)
	sigs: Vec<Signature>,
}

struct Gen {
	rng: StdRng,
	pools: Rc<Pools>,
}

fn mix(seed: u64, tags: &[u64]) -> u64 {
	let mut h = seed ^ 0x9E3779B97F4A7C15;
	for t in tags {
		h ^= t.wrapping_add(0x9E3779B97F4A7C15).wrapping_add(h << 6).wrapping_add(h >> 2);
		h = h.wrapping_mul(0xBF58476D1CE4E5B9);
		h ^= h >> 29;
	}
	h
}

impl Pools {
	fn new(seed: u64) -> Pools {
		let secp = Secp256k1::new();
		let mut rng = StdRng::seed_from_u64(mix(seed, &[77]));
		let mut sk = || loop {
			let mut b = [0u8; 32];
			rng.fill_bytes(&mut b);
			if let Ok(k) = SecretKey::from_slice(&b) {
				return k;
			}
		};
		let mut pka = Vec::new();
		let mut pkb = Vec::new();
		let mut sigs = Vec::new();
		for _ in 0..48 {
			pka.push(PublicKey::from_secret_key(&secp, &sk()));
			pkb.push(PublicKey::from_secret_key(&secp, &sk()));
		}
		for i in 0..48u8 {
			let k = sk();
			let m = Message::from_digest([i.wrapping_mul(7).wrapping_add(1); 32]);
			sigs.push(secp.sign_ecdsa(&m, &k));
		}
		Pools { pka, pkb, sigs }
	}
}

impl Gen {
	fn new(pools: &Rc<Pools>, seed: u64, tags: &[u64]) -> Gen {
		Gen { rng: StdRng::seed_from_u64(mix(seed, tags)), pools: pools.clone() }
	}
	fn pk(&mut self) -> PublicKey {
		let i = self.rng.gen_range(0..self.pools.pka.len());
		self.pools.pka[i]
	}
	fn pkb(&mut self) -> PublicKey {
		let i = self.rng.gen_range(0..self.pools.pkb.len());
		self.pools.pkb[i]
	}
	fn sig(&mut self) -> Signature {
		let i = self.rng.gen_range(0..self.pools.sigs.len());
		self.pools.sigs[i]
	}
	fn a32(&mut self) -> [u8; 32] {
		let mut b = [0u8; 32];
		self.rng.fill_bytes(&mut b);
		b
	}
	fn cid(&mut self) -> ChannelId {
		ChannelId(self.a32())
	}
	fn txid(&mut self) -> Txid {
		Txid::from_byte_array(self.a32())
	}
	fn chain(&mut self) -> ChainHash {
		ChainHash::from(self.a32())
	}
	fn node_id(&mut self) -> NodeId {
		NodeId::from_pubkey(&self.pkb())
	}
	fn bytes(&mut self, n: usize) -> Vec<u8> {
		let mut v = vec![0u8; n];
		self.rng.fill_bytes(&mut v);
		v
	}
	/// length by size class
	fn vlen(&mut self, var: usize, small: usize, boundary: usize, large: usize) -> usize {
		match var {
			0 => 0,
			1 => self.rng.gen_range(1..=small),
			2 => boundary + self.rng.gen_range(0..2),
			_ => large,
		}
	}
	fn vbytes(&mut self, var: usize, small: usize, boundary: usize, large: usize) -> Vec<u8> {
		let n = self.vlen(var, small, boundary, large);
		self.bytes(n)
	}
	fn script(&mut self, var: usize) -> ScriptBuf {
		ScriptBuf::from_bytes(self.vbytes(var, 34, 252, 1500))
	}
	fn flags(&mut self, var: usize) -> Vec<u8> {
		self.vbytes(var, 7, 252, 600)
	}
	fn string(&mut self, var: usize) -> String {
		let n = self.vlen(var, 40, 252, 30000);
		let mut s = String::new();
		while s.len() < n {
			let c = match self.rng.gen_range(0..10) {
				0 => 'é',
				1 => '€',
				2 => '😀',
				_ => (self.rng.gen_range(0x20u8..0x7f)) as char,
			};
			if s.len() + c.len_utf8() <= n {
				s.push(c);
			} else {
				s.push('x');
			}
		}
		s
	}
	fn hostname(&mut self, n: usize) -> Hostname {
		const CH: &[u8] = b"abcdefghijklmnopqrstuvwxyzABCDEFGHIJKLMNOPQRSTUVWXYZ0123456789.-_";
		let s: String = (0..n).map(|_| CH[self.rng.gen_range(0..CH.len())] as char).collect();
		Hostname::try_from(s).unwrap()
	}
	fn addr(&mut self, ty: usize, var: usize) -> SocketAddress {
		match ty % 5 {
			0 => {
				let mut a = [0u8; 4];
				self.rng.fill_bytes(&mut a);
				SocketAddress::TcpIpV4 { addr: a, port: self.rng.gen() }
			},
			1 => {
				let mut a = [0u8; 16];
				self.rng.fill_bytes(&mut a);
				SocketAddress::TcpIpV6 { addr: a, port: self.rng.gen() }
			},
			2 => {
				let mut a = [0u8; 12];
				self.rng.fill_bytes(&mut a);
				SocketAddress::OnionV2(a)
			},
			3 => SocketAddress::OnionV3 {
				ed25519_pubkey: self.a32(),
				checksum: self.rng.gen(),
				version: self.rng.gen(),
				port: self.rng.gen(),
			},
			_ => {
				let n = match var {
					0 => 0,
					1 => self.rng.gen_range(1..30),
					2 => 255,
					_ => 254,
				};
				SocketAddress::Hostname { hostname: self.hostname(n), port: self.rng.gen() }
			},
		}
	}
	fn tx(&mut self, var: usize) -> Transaction {
		let nin = if var == 3 { 20 } else { self.rng.gen_range(1..3) };
		let nout = if var == 3 { 20 } else { self.rng.gen_range(1..3) };
		let segwit = self.rng.gen_bool(0.5);
		let input = (0..nin)
			.map(|_| TxIn {
				previous_output: OutPoint { txid: self.txid(), vout: self.rng.gen() },
				script_sig: ScriptBuf::from_bytes(self.vbytes(var.min(2), 20, 252, 0)),
				sequence: Sequence(self.rng.gen()),
				witness: if segwit {
					{ let n = self.rng.gen_range(0..73); Witness::from_slice(&[self.bytes(n), self.bytes(33)]) }
				} else {
					Witness::new()
				},
			})
			.collect();
		let output = (0..nout)
			.map(|_| TxOut {
				value: Amount::from_sat(self.rng.gen_range(0..21_000_000 * 100_000_000u64)),
				script_pubkey: ScriptBuf::from_bytes(self.vbytes(var.min(2), 34, 252, 0)),
			})
			.collect();
		Transaction {
			version: transaction::Version(self.rng.gen_range(1..4)),
			lock_time: absolute::LockTime::from_consensus(self.rng.gen()),
			input,
			output,
		}
	}
}

// ------------------------------------------------------------------------------------------
// message kinds

#[derive(Clone, Copy, PartialEq)]
enum BadRule {
	/// every byte string is a value of the type
	None,
	/// the type has a fixed / self-delimiting size: one byte less or one byte more is out of range
	Len,
	/// additionally: 33 bytes that are not a curve point
	Pk,
	/// additionally: 64 bytes that are not a compact signature
	Sig,
}

struct Def<T> {
	name: &'static str,
	/// the codec ends in a TLV stream (impl_writeable_msg! or a hand-written decode_tlv_stream!)
	tlv: bool,
	/// dispatched by wire::read in this build
	wire: bool,
	/// out-of-range rule of each optional TLV, ascending type order
	bad: &'static [BadRule],
	build: fn(&mut Gen, usize) -> Result<T, String>,
	clear: fn(&mut T, usize),
	set_excess: Option<fn(&mut T, Vec<u8>)>,
	/// (name, offset in the fixed part, out-of-range byte)
	extra: &'static [(&'static str, usize, u8)],
	/// manipulations of inner declared lengths, built from the value
	inner: Option<fn(&T, &mut Gen) -> Vec<InnerCase>>,
}

/// One manipulation of an inner declared length: `class` is the InnerClass of spec/Wire.tla that
/// the element boundaries of the builder's own value imply; `base` is the unmanipulated encoding.
struct InnerCase {
	name: String,
	class: &'static str,
	bytes: Vec<u8>,
	base: Vec<u8>,
}

/// A variable-length field of a message kind: `set` makes it hold exactly `n` elements of `unit`
/// encoded bytes each (false: the field's type cannot hold that many).
struct SF<T> {
	name: &'static str,
	unit: usize,
	set: fn(&mut T, &mut Gen, usize) -> bool,
}
/// The variable-length fields of a message kind (size family; classes from spec/Wire.tla)
trait HasSized: Sized {
	fn sized() -> Vec<SF<Self>> {
		Vec::new()
	}
}

trait Kind {
	fn name(&self) -> &'static str;
	fn tlv(&self) -> bool;
	fn wire(&self) -> bool;
	fn nk(&self) -> usize;
	fn bad(&self) -> &'static [BadRule];
	fn has_excess(&self) -> bool;
	fn extra(&self) -> &'static [(&'static str, usize, u8)];
	fn instantiate(&self, g: &mut Gen, var: usize) -> Result<Box<dyn Inst>, String>;
	/// decode arbitrary bytes with this kind's codec (no expectation)
	fn observe_raw(&self, bytes: &[u8]) -> Obs;
}

trait Inst {
	fn type_id(&self) -> u16;
	fn enc(&self, mask: u32) -> Vec<u8>;
	fn enc_excess(&self, mask: u32, excess: &[u8]) -> Vec<u8>;
	fn observe(&self, bytes: &[u8], expect: &Expect) -> Obs;
	fn observe_wire(&self, bytes: &[u8], expect: &Expect) -> Obs;
	fn inner_cases(&self, g: &mut Gen) -> Vec<InnerCase>;
	/// (name, unit) of the kind's variable-length fields
	fn sized_fields(&self) -> Vec<(&'static str, usize)>;
	/// a copy of this value whose field `fi` holds `n` elements
	fn with_size(&self, fi: usize, n: usize, g: &mut Gen) -> Option<Box<dyn Inst>>;
}

struct InstT<T: 'static> {
	def: &'static Def<T>,
	full: T,
}

fn observe_t<T: Writeable + LengthReadable + PartialEq + Debug>(bytes: &[u8], expect: Option<&T>) -> Obs {
	let (d, consumed, over) = decode::<T>(bytes);
	match d {
		Dec::Panic(m) => Obs { class: "panic", err: m, eq: false, rt: false, consumed, over, canon: false },
		Dec::Err(e) => Obs { class: "reject", err: e, eq: false, rt: false, consumed, over, canon: false },
		Dec::Ok(v) => {
			let eq = expect.map(|e| *e == v).unwrap_or(false);
			// decode(encode(decode(b))) == decode(b)
			let r = catch_unwind(AssertUnwindSafe(|| {
				let e2 = v.encode();
				let canon = e2[..] == bytes[..];
				let (d2, _, over2) = decode::<T>(&e2);
				match d2 {
					Dec::Ok(v2) => (v2 == v, String::new(), over2, canon),
					Dec::Err(e) => (false, format!("re-decode: {}", e), over2, canon),
					Dec::Panic(m) => (false, format!("re-decode panic: {}", m), over2, canon),
				}
			}));
			match r {
				Ok((rt, err, over2, canon)) => Obs { class: "accept", err, eq, rt, consumed, over: over || over2, canon },
				Err(_) => Obs {
					class: "panic",
					err: format!("encode panic: {}", LAST_PANIC.with(|p| p.borrow().clone())),
					eq,
					rt: false,
					consumed,
					over,
					canon: false,
				},
			}
		},
	}
}

impl<T: Writeable + LengthReadable + PartialEq + Debug + Clone + Type + 'static> InstT<T> {
	fn value(&self, mask: u32) -> T {
		let mut v = self.full.clone();
		for i in 0..self.def.bad.len() {
			if (mask >> i) & 1 == 0 {
				(self.def.clear)(&mut v, i);
			}
		}
		v
	}
	fn expected(&self, expect: &Expect) -> Option<T> {
		match expect {
			Expect::None => None,
			Expect::Mask(m) => Some(self.value(*m)),
			Expect::Excess(m, x) => {
				let mut v = self.value(*m);
				(self.def.set_excess.expect("excess"))(&mut v, x.clone());
				Some(v)
			},
		}
	}
}

impl<T: Writeable + LengthReadable + PartialEq + Debug + Clone + Type + HasSized + 'static> Inst for InstT<T> {
	fn type_id(&self) -> u16 {
		self.full.type_id()
	}
	fn sized_fields(&self) -> Vec<(&'static str, usize)> {
		T::sized().iter().map(|f| (f.name, f.unit)).collect()
	}
	fn with_size(&self, fi: usize, n: usize, g: &mut Gen) -> Option<Box<dyn Inst>> {
		let fs = T::sized();
		let mut v = self.full.clone();
		if (fs[fi].set)(&mut v, g, n) {
			Some(Box::new(InstT { def: self.def, full: v }))
		} else {
			None
		}
	}
	fn enc(&self, mask: u32) -> Vec<u8> {
		self.value(mask).encode()
	}
	fn enc_excess(&self, mask: u32, excess: &[u8]) -> Vec<u8> {
		let mut v = self.value(mask);
		(self.def.set_excess.expect("excess"))(&mut v, excess.to_vec());
		v.encode()
	}
	fn observe(&self, bytes: &[u8], expect: &Expect) -> Obs {
		let e = self.expected(expect);
		observe_t::<T>(bytes, e.as_ref())
	}
	fn inner_cases(&self, g: &mut Gen) -> Vec<InnerCase> {
		match self.def.inner {
			Some(f) => f(&self.full, g),
			None => vec![],
		}
	}
	/// `bytes` is the payload; the 2-byte type of this kind is prepended and the whole is given to
	/// wire::read.  eq: dispatched to this kind and the re-encoding decodes to the expected value;
	/// rt: the re-encoding decodes (with this kind's codec) to what the payload decodes to.
	fn observe_wire(&self, bytes: &[u8], expect: &Expect) -> Obs {
		let mut full = self.type_id().to_be_bytes().to_vec();
		full.extend_from_slice(bytes);
		let r = catch_unwind(AssertUnwindSafe(|| lightning::verif::codec::wire_read(&full)));
		match r {
			Err(_) => Obs {
				class: "panic",
				err: LAST_PANIC.with(|p| p.borrow().clone()),
				eq: false,
				rt: false,
				consumed: 0,
				over: false,
				canon: false,
			},
			Ok(Err((e, _))) => Obs { class: "reject", err: format!("{:?}", e), eq: false, rt: false, consumed: 0, over: false, canon: false },
			Ok(Ok((tid, dbg, reenc))) => {
				if dbg.starts_with("Unknown(") {
					return Obs { class: "unknown", err: dbg, eq: false, rt: false, consumed: 0, over: false, canon: false };
				}
				let e = self.expected(expect);
				let (d_re, _, o1) = decode::<T>(&reenc[2..]);
				let (d_b, _, o2) = decode::<T>(bytes);
				let (eq, rt) = match (d_re, d_b) {
					(Dec::Ok(a), Dec::Ok(b)) => {
						(tid == self.type_id() && e.map(|e| e == a).unwrap_or(false), tid == self.type_id() && a == b)
					},
					_ => (false, false),
				};
				Obs { class: "accept", err: String::new(), eq, rt, consumed: 0, over: o1 || o2, canon: false }
			},
		}
	}
}

impl<T: Writeable + LengthReadable + PartialEq + Debug + Clone + Type + HasSized + 'static> Kind for &'static Def<T> {
	fn name(&self) -> &'static str {
		self.name
	}
	fn tlv(&self) -> bool {
		self.tlv
	}
	fn wire(&self) -> bool {
		self.wire
	}
	fn nk(&self) -> usize {
		self.bad.len()
	}
	fn bad(&self) -> &'static [BadRule] {
		self.bad
	}
	fn has_excess(&self) -> bool {
		self.set_excess.is_some()
	}
	fn extra(&self) -> &'static [(&'static str, usize, u8)] {
		self.extra
	}
	fn instantiate(&self, g: &mut Gen, var: usize) -> Result<Box<dyn Inst>, String> {
		let build = self.build;
		let r = catch_unwind(AssertUnwindSafe(|| build(g, var)));
		match r {
			Ok(Ok(full)) => Ok(Box::new(InstT { def: *self, full })),
			Ok(Err(e)) => Err(e),
			Err(_) => Err(format!("panic: {}", LAST_PANIC.with(|p| p.borrow().clone()))),
		}
	}
	fn observe_raw(&self, bytes: &[u8]) -> Obs {
		observe_t::<T>(bytes, None)
	}
}

fn kind<T: Writeable + LengthReadable + PartialEq + Debug + Clone + Type + HasSized + 'static>(d: Def<T>) -> Box<dyn Kind> {
	let r: &'static Def<T> = Box::leak(Box::new(d));
	Box::new(r)
}

fn from_bytes<T: LengthReadable>(b: &[u8]) -> Result<T, String> {
	let mut s = b;
	T::read_from_fixed_length_buffer(&mut s).map_err(|e| format!("hand-made valid bytes rejected: {:?}", e))
}


// ------------------------------------------------------------------------------------------
// inner declared lengths

fn get_u16(b: &[u8], off: usize) -> u16 {
	u16::from_be_bytes([b[off], b[off + 1]])
}
fn with_u16(b: &[u8], off: usize, v: i64) -> Option<Vec<u8>> {
	if v < 0 || v > 0xffff || off + 2 > b.len() {
		return None;
	}
	let mut o = b.to_vec();
	o[off..off + 2].copy_from_slice(&(v as u16).to_be_bytes());
	Some(o)
}
fn ic(name: String, class: &'static str, base: &[u8], bytes: Option<Vec<u8>>, out: &mut Vec<InnerCase>) {
	if let Some(bytes) = bytes {
		if bytes[..] != base[..] {
			out.push(InnerCase { name, class, bytes, base: base.to_vec() });
		}
	}
}
/// A u16-prefixed opaque region (data / padding / script) that is the last thing in the message:
/// declared longer => it extends beyond the message (overrun); declared shorter => bytes shift.
fn opaque_last(what: &str, base: &[u8], off: usize, out: &mut Vec<InnerCase>) {
	let l = get_u16(base, off) as i64;
	for d in [1i64, 2, 300] {
		ic(format!("{} len+{}", what, d), "overrun", base, with_u16(base, off, l + d), out);
	}
	for d in [1i64, 2] {
		ic(format!("{} len-{}", what, d), "short_opaque", base, with_u16(base, off, l - d), out);
	}
}
/// A region that must be filled exactly by one self-delimiting element (prevtx, a witness).
fn strict_region(what: &str, base: &[u8], off: usize, out: &mut Vec<InnerCase>) {
	let l = get_u16(base, off) as i64;
	for d in [-1i64, 1, -2, 2, -(l / 2).max(1), 7] {
		if l + d > 0 {
			ic(format!("{} len{:+}", what, d), "mismatch", base, with_u16(base, off, l + d), out);
		}
	}
}
/// encoded_short_ids: 1 encoding byte + 8 bytes per id, the last thing in the message
fn scid_region(base: &[u8], off: usize, out: &mut Vec<InnerCase>) {
	let l = get_u16(base, off) as i64;
	for d in [-1i64, 1, -3, 4, -7, 7] {
		ic(format!("encoded_short_ids len{:+}", d), "mismatch", base, with_u16(base, off, l + d), out);
	}
	for d in [8i64, 16, 800] {
		ic(format!("encoded_short_ids len+{}", d), "overrun", base, with_u16(base, off, l + d), out);
	}
	if l >= 9 {
		ic("encoded_short_ids len-8".into(), "short_opaque", base, with_u16(base, off, l - 8), out);
	}
}

fn addr_wire_len(a: &SocketAddress) -> usize {
	a.encode().len() // 1 descriptor byte + body
}

/// node_announcement `addrlen` against the addresses it contains: each of the five address types
/// alone and after another address.
fn node_announcement_inner(v: &NodeAnnouncement, g: &mut Gen) -> Vec<InnerCase> {
	let mut out = Vec::new();
	let off = 64 + 2 + v.contents.features.le_flags().len() + 4 + 33 + 3 + 32;
	for ty in 0..5 {
		for after in [false, true] {
			let mut val = v.clone();
			let mut addrs = Vec::new();
			if after {
				{ let t = g.rng.gen_range(0..5); addrs.push(g.addr(t, 1)); }
			}
			let lv = if g.rng.gen_bool(0.5) { 1 } else { 2 };
			let last = g.addr(ty, lv);
			addrs.push(last.clone());
			val.contents.addresses = addrs;
			val.contents.excess_address_data = vec![];
			let alen = addr_wire_len(&last) as i64; // incl. descriptor byte
			let tag = format!("{}{}", ["ipv4", "ipv6", "onionv2", "onionv3", "hostname"][ty], if after { " after another" } else { " alone" });

			// (1) addrlen shortened: the last address starts inside the region and ends beyond it
			val.contents.excess_data = { let n = g.rng.gen_range(0..12); g.bytes(n) };
			let base = val.encode();
			let l = get_u16(&base, off) as i64;
			for d in [1i64, 2, alen / 2, alen - 1] {
				if d >= 1 && d < alen {
					ic(format!("addrlen-{} ({})", d, tag), "overrun", &base, with_u16(&base, off, l - d), &mut out);
				}
			}
			// (2) addrlen ends exactly before the last address: its bytes are excess data (canonical)
			ic(format!("addrlen-{} = boundary ({})", alen, tag), "boundary", &base, with_u16(&base, off, l - alen), &mut out);

			// (3) addrlen lengthened over data that starts with an address type this version does not
			// know: retained verbatim as excess address data (canonical)
			let k = g.rng.gen_range(1..16usize);
			let mut x = vec![if g.rng.gen_bool(0.3) { 0u8 } else { g.rng.gen_range(6..=255) }];
			{ let n = k + g.rng.gen_range(0..5); x.extend_from_slice(&g.bytes(n)); }
			val.contents.excess_data = x;
			let base = val.encode();
			for d in [1i64, 2, k as i64, k as i64 + 1] {
				ic(format!("addrlen+{} over unknown descriptor ({})", d, tag), "retained", &base, with_u16(&base, off, l + d), &mut out);
			}
			// ... and beyond the end of the message
			ic(format!("addrlen+{} beyond the message ({})", k + 40, tag), "overrun", &base, with_u16(&base, off, l + k as i64 + 40), &mut out);

			// (4) addrlen lengthened over part of a further (known-type) address
			let nt = g.rng.gen_range(0..5);
			let next = g.addr(nt, 1);
			let nlen = addr_wire_len(&next) as i64;
			let mut x = next.encode();
			{ let n = g.rng.gen_range(0..6); x.extend_from_slice(&g.bytes(n)); }
			val.contents.excess_data = x;
			let base = val.encode();
			for d in [1i64, 2, nlen - 1] {
				if d >= 1 && d < nlen {
					ic(format!("addrlen+{} covers part of a following address ({})", d, tag), "overrun", &base, with_u16(&base, off, l + d), &mut out);
				}
			}
			// the whole following address: canonical (it simply is an address)
			ic(format!("addrlen+{} covers a following address ({})", nlen, tag), "boundary", &base, with_u16(&base, off, l + nlen), &mut out);
		}
	}
	// (5) a hostname whose own length byte is one too large: the address overruns addrlen by one
	for after in [false, true] {
		let mut val = v.clone();
		let mut addrs = Vec::new();
		if after {
			{ let t = g.rng.gen_range(0..4); addrs.push(g.addr(t, 1)); }
		}
		let n = g.rng.gen_range(1..40);
		addrs.push(SocketAddress::Hostname { hostname: g.hostname(n), port: 0x6162 });
		val.contents.addresses = addrs;
		val.contents.excess_address_data = vec![];
		val.contents.excess_data = g.bytes(6);
		let base = val.encode();
		let l = get_u16(&base, off) as usize;
		let hpos = off + 2 + l - (1 + n + 2); // the hostname's length byte
		if base[hpos] as usize == n {
			let mut b = base.clone();
			b[hpos] += 1;
			ic(format!("hostname len+1 inside addrlen ({})", if after { "after another" } else { "alone" }), "overrun", &base, Some(b), &mut out);
		}
	}
	out
}

// ------------------------------------------------------------------------------------------
// the kinds: one seeded builder per message wire.rs dispatches (all optional TLVs present; the
// presence subset is applied by `clear`)

use BadRule::{Len, Pk, Sig};
const B0: &[BadRule] = &[];

fn common_open(g: &mut Gen, var: usize) -> CommonOpenChannelFields {
	CommonOpenChannelFields {
		chain_hash: g.chain(),
		temporary_channel_id: g.cid(),
		funding_satoshis: g.rng.gen(),
		dust_limit_satoshis: g.rng.gen(),
		max_htlc_value_in_flight_msat: g.rng.gen(),
		htlc_minimum_msat: g.rng.gen(),
		commitment_feerate_sat_per_1000_weight: g.rng.gen(),
		to_self_delay: g.rng.gen(),
		max_accepted_htlcs: g.rng.gen(),
		funding_pubkey: g.pk(),
		revocation_basepoint: g.pk(),
		payment_basepoint: g.pk(),
		delayed_payment_basepoint: g.pk(),
		htlc_basepoint: g.pk(),
		first_per_commitment_point: g.pk(),
		channel_flags: g.rng.gen(),
		shutdown_scriptpubkey: Some(g.script(var)),
		channel_type: Some(ChannelTypeFeatures::from_le_bytes(g.flags(var))),
	}
}
fn common_accept(g: &mut Gen, var: usize) -> CommonAcceptChannelFields {
	CommonAcceptChannelFields {
		temporary_channel_id: g.cid(),
		dust_limit_satoshis: g.rng.gen(),
		max_htlc_value_in_flight_msat: g.rng.gen(),
		htlc_minimum_msat: g.rng.gen(),
		minimum_depth: g.rng.gen(),
		to_self_delay: g.rng.gen(),
		max_accepted_htlcs: g.rng.gen(),
		funding_pubkey: g.pk(),
		revocation_basepoint: g.pk(),
		payment_basepoint: g.pk(),
		delayed_payment_basepoint: g.pk(),
		htlc_basepoint: g.pk(),
		first_per_commitment_point: g.pk(),
		shutdown_scriptpubkey: Some(g.script(var)),
		channel_type: Some(ChannelTypeFeatures::from_le_bytes(g.flags(var))),
	}
}

fn attribution_bytes(g: &mut Gen) -> Vec<u8> {
	g.bytes(920) // MAX_HOPS*HOLD_TIME_LEN + HMAC_LEN*HMAC_COUNT = 80 + 840
}

fn all_kinds() -> Vec<Box<dyn Kind>> {
	let mut k: Vec<Box<dyn Kind>> = Vec::new();
	k.push(kind(Def::<Init> {
		name: "Init", tlv: true, wire: true, bad: &[Len, Len],
		build: |g, var| {
			let n = g.vlen(var, 3, 8, 40);
			let ty = g.rng.gen_range(0..5);
			Ok(Init {
				features: InitFeatures::from_le_bytes(g.flags(var)),
				networks: Some((0..n).map(|_| g.chain()).collect()),
				remote_network_address: Some(g.addr(ty, var)),
			})
		},
		clear: |v, i| match i { 0 => v.networks = None, _ => v.remote_network_address = None },
		set_excess: None, extra: &[], inner: Some(|v, _| { let mut o = vec![]; let mut w = v.clone(); w.networks = None; w.remote_network_address = None; let b = w.encode(); let off = 2 + get_u16(&b, 0) as usize; opaque_last("features len", &b, off, &mut o); o }),
	}));
	k.push(kind(Def::<ErrorMessage> {
		name: "ErrorMessage", tlv: false, wire: true, bad: B0,
		build: |g, var| Ok(ErrorMessage { channel_id: g.cid(), data: g.string(var) }),
		clear: |_, _| {}, set_excess: None, extra: &[("invalid_utf8", 34, 0xff)], inner: Some(|v, _| { let mut o = vec![]; let b = v.encode(); opaque_last("data", &b, 32, &mut o); o }),
	}));
	k.push(kind(Def::<WarningMessage> {
		name: "WarningMessage", tlv: false, wire: true, bad: B0,
		build: |g, var| Ok(WarningMessage { channel_id: g.cid(), data: g.string(var) }),
		clear: |_, _| {}, set_excess: None, extra: &[("invalid_utf8", 34, 0xff)], inner: Some(|v, _| { let mut o = vec![]; let b = v.encode(); opaque_last("data", &b, 32, &mut o); o }),
	}));
	k.push(kind(Def::<Ping> {
		name: "Ping", tlv: false, wire: true, bad: B0,
		build: |g, var| Ok(Ping { ponglen: g.rng.gen(), byteslen: g.vlen(var, 64, 252, 65000) as u16 }),
		clear: |_, _| {}, set_excess: None, extra: &[], inner: Some(|v, _| { let mut o = vec![]; let b = v.encode(); opaque_last("byteslen", &b, 2, &mut o); o }),
	}));
	k.push(kind(Def::<Pong> {
		name: "Pong", tlv: false, wire: true, bad: B0,
		build: |g, var| Ok(Pong { byteslen: g.vlen(var, 64, 252, 65000) as u16 }),
		clear: |_, _| {}, set_excess: None, extra: &[], inner: Some(|v, _| { let mut o = vec![]; let b = v.encode(); opaque_last("byteslen", &b, 0, &mut o); o }),
	}));
	k.push(kind(Def::<PeerStorage> {
		name: "PeerStorage", tlv: true, wire: true, bad: B0,
		build: |g, var| Ok(PeerStorage { data: g.vbytes(var, 64, 252, 65000) }),
		clear: |_, _| {}, set_excess: None, extra: &[], inner: Some(|v, _| { let mut o = vec![]; let b = v.encode(); opaque_last("data", &b, 0, &mut o); o }),
	}));
	k.push(kind(Def::<PeerStorageRetrieval> {
		name: "PeerStorageRetrieval", tlv: true, wire: true, bad: B0,
		build: |g, var| Ok(PeerStorageRetrieval { data: g.vbytes(var, 64, 252, 65000) }),
		clear: |_, _| {}, set_excess: None, extra: &[], inner: Some(|v, _| { let mut o = vec![]; let b = v.encode(); opaque_last("data", &b, 0, &mut o); o }),
	}));
	k.push(kind(Def::<OpenChannel> {
		name: "OpenChannel", tlv: true, wire: true, bad: &[BadRule::None, BadRule::None],
		build: |g, var| Ok(OpenChannel {
			common_fields: common_open(g, var), push_msat: g.rng.gen(), channel_reserve_satoshis: g.rng.gen(),
		}),
		clear: |v, i| match i { 0 => v.common_fields.shutdown_scriptpubkey = None, _ => v.common_fields.channel_type = None },
		set_excess: None, extra: &[], inner: None,
	}));
	k.push(kind(Def::<OpenChannelV2> {
		name: "OpenChannelV2", tlv: true, wire: true, bad: &[BadRule::None, BadRule::None, Len, Len],
		build: |g, var| Ok(OpenChannelV2 {
			common_fields: common_open(g, var),
			funding_feerate_sat_per_1000_weight: g.rng.gen(),
			locktime: g.rng.gen(),
			second_per_commitment_point: g.pk(),
			require_confirmed_inputs: Some(()),
			disable_channel_reserve: Some(()),
		}),
		clear: |v, i| match i {
			0 => v.common_fields.shutdown_scriptpubkey = None,
			1 => v.common_fields.channel_type = None,
			2 => v.require_confirmed_inputs = None,
			_ => v.disable_channel_reserve = None,
		},
		set_excess: None, extra: &[], inner: None,
	}));
	k.push(kind(Def::<AcceptChannel> {
		name: "AcceptChannel", tlv: true, wire: true, bad: &[BadRule::None, BadRule::None],
		build: |g, var| Ok(AcceptChannel { common_fields: common_accept(g, var), channel_reserve_satoshis: g.rng.gen() }),
		clear: |v, i| match i { 0 => v.common_fields.shutdown_scriptpubkey = None, _ => v.common_fields.channel_type = None },
		set_excess: None, extra: &[], inner: None,
	}));
	k.push(kind(Def::<AcceptChannelV2> {
		name: "AcceptChannelV2", tlv: true, wire: true, bad: &[BadRule::None, BadRule::None, Len, Len],
		build: |g, var| Ok(AcceptChannelV2 {
			common_fields: common_accept(g, var),
			funding_satoshis: g.rng.gen(),
			second_per_commitment_point: g.pk(),
			require_confirmed_inputs: Some(()),
			disable_channel_reserve: Some(()),
		}),
		clear: |v, i| match i {
			0 => v.common_fields.shutdown_scriptpubkey = None,
			1 => v.common_fields.channel_type = None,
			2 => v.require_confirmed_inputs = None,
			_ => v.disable_channel_reserve = None,
		},
		set_excess: None, extra: &[], inner: None,
	}));
	k.push(kind(Def::<FundingCreated> {
		name: "FundingCreated", tlv: true, wire: true, bad: B0,
		build: |g, _| Ok(FundingCreated {
			temporary_channel_id: g.cid(), funding_txid: g.txid(), funding_output_index: g.rng.gen(), signature: g.sig(),
		}),
		clear: |_, _| {}, set_excess: None, extra: &[], inner: None,
	}));
	k.push(kind(Def::<FundingSigned> {
		name: "FundingSigned", tlv: true, wire: true, bad: B0,
		build: |g, _| Ok(FundingSigned { channel_id: g.cid(), signature: g.sig() }),
		clear: |_, _| {}, set_excess: None, extra: &[], inner: None,
	}));
	k.push(kind(Def::<ChannelReady> {
		name: "ChannelReady", tlv: true, wire: true, bad: &[Len],
		build: |g, _| Ok(ChannelReady {
			channel_id: g.cid(), next_per_commitment_point: g.pk(), short_channel_id_alias: Some(g.rng.gen()),
		}),
		clear: |v, _| v.short_channel_id_alias = None, set_excess: None, extra: &[], inner: None,
	}));
	k.push(kind(Def::<Stfu> {
		name: "Stfu", tlv: true, wire: true, bad: B0,
		build: |g, _| Ok(Stfu { channel_id: g.cid(), initiator: g.rng.gen() }),
		clear: |_, _| {}, set_excess: None, extra: &[("bool_2", 32, 2)], inner: None,
	}));
	k.push(kind(Def::<SpliceInit> {
		name: "SpliceInit", tlv: true, wire: true, bad: &[Len],
		build: |g, _| Ok(SpliceInit {
			channel_id: g.cid(), funding_contribution_satoshis: g.rng.gen(), funding_feerate_per_kw: g.rng.gen(),
			locktime: g.rng.gen(), funding_pubkey: g.pk(), require_confirmed_inputs: Some(()),
		}),
		clear: |v, _| v.require_confirmed_inputs = None, set_excess: None, extra: &[], inner: None,
	}));
	k.push(kind(Def::<SpliceAck> {
		name: "SpliceAck", tlv: true, wire: true, bad: &[Len],
		build: |g, _| Ok(SpliceAck {
			channel_id: g.cid(), funding_contribution_satoshis: g.rng.gen(), funding_pubkey: g.pk(),
			require_confirmed_inputs: Some(()),
		}),
		clear: |v, _| v.require_confirmed_inputs = None, set_excess: None, extra: &[], inner: None,
	}));
	k.push(kind(Def::<SpliceLocked> {
		name: "SpliceLocked", tlv: true, wire: true, bad: B0,
		build: |g, _| Ok(SpliceLocked { channel_id: g.cid(), splice_txid: g.txid() }),
		clear: |_, _| {}, set_excess: None, extra: &[], inner: None,
	}));
	k.push(kind(Def::<TxAddInput> {
		name: "TxAddInput", tlv: true, wire: true, bad: &[Len],
		build: |g, var| Ok(TxAddInput {
			channel_id: g.cid(), serial_id: g.rng.gen(),
			prevtx: if var == 0 { None } else { Some(g.tx(var)) },
			prevtx_out: g.rng.gen(), sequence: g.rng.gen(), shared_input_txid: Some(g.txid()),
		}),
		clear: |v, _| v.shared_input_txid = None, set_excess: None, extra: &[], inner: Some(|v, _| { let mut o = vec![]; if v.prevtx.is_some() { let b = v.encode(); strict_region("prevtx_len", &b, 40, &mut o); } o }),
	}));
	k.push(kind(Def::<TxAddOutput> {
		name: "TxAddOutput", tlv: true, wire: true, bad: B0,
		build: |g, var| Ok(TxAddOutput { channel_id: g.cid(), serial_id: g.rng.gen(), sats: g.rng.gen(), script: g.script(var) }),
		clear: |_, _| {}, set_excess: None, extra: &[], inner: Some(|v, _| { let mut o = vec![]; let b = v.encode(); opaque_last("script len", &b, 48, &mut o); o }),
	}));
	k.push(kind(Def::<TxRemoveInput> {
		name: "TxRemoveInput", tlv: true, wire: true, bad: B0,
		build: |g, _| Ok(TxRemoveInput { channel_id: g.cid(), serial_id: g.rng.gen() }),
		clear: |_, _| {}, set_excess: None, extra: &[], inner: None,
	}));
	k.push(kind(Def::<TxRemoveOutput> {
		name: "TxRemoveOutput", tlv: true, wire: true, bad: B0,
		build: |g, _| Ok(TxRemoveOutput { channel_id: g.cid(), serial_id: g.rng.gen() }),
		clear: |_, _| {}, set_excess: None, extra: &[], inner: None,
	}));
	k.push(kind(Def::<TxComplete> {
		name: "TxComplete", tlv: true, wire: true, bad: B0,
		build: |g, _| Ok(TxComplete { channel_id: g.cid() }),
		clear: |_, _| {}, set_excess: None, extra: &[], inner: None,
	}));
	k.push(kind(Def::<TxSignatures> {
		name: "TxSignatures", tlv: true, wire: true, bad: &[Sig],
		build: |g, var| {
			let n = g.vlen(var, 3, 4, 40);
			let witnesses = (0..n)
				.map(|_| {
					let m = g.rng.gen_range(0..4);
					let el: Vec<Vec<u8>> = (0..m).map(|_| { let l = g.vlen(var.max(1), 73, 252, 300); g.bytes(l) }).collect();
					Witness::from_slice(&el)
				})
				.collect();
			Ok(TxSignatures { channel_id: g.cid(), tx_hash: g.txid(), witnesses, shared_input_signature: Some(g.sig()) })
		},
		clear: |v, _| v.shared_input_signature = None, set_excess: None, extra: &[], inner: Some(|v, _| {
			let mut o = vec![];
			let b = v.encode();
			let mut off = 66;
			for (i, w) in v.witnesses.iter().enumerate().take(3) {
				strict_region(&format!("witness[{}] len", i), &b, off, &mut o);
				off += 2 + w.size();
			}
			o
		}),
	}));
	k.push(kind(Def::<TxInitRbf> {
		name: "TxInitRbf", tlv: true, wire: true, bad: &[Len],
		build: |g, _| Ok(TxInitRbf {
			channel_id: g.cid(), locktime: g.rng.gen(), feerate_sat_per_1000_weight: g.rng.gen(),
			funding_output_contribution: Some(g.rng.gen()),
		}),
		clear: |v, _| v.funding_output_contribution = None, set_excess: None, extra: &[], inner: None,
	}));
	k.push(kind(Def::<TxAckRbf> {
		name: "TxAckRbf", tlv: true, wire: true, bad: &[Len],
		build: |g, _| Ok(TxAckRbf { channel_id: g.cid(), funding_output_contribution: Some(g.rng.gen()) }),
		clear: |v, _| v.funding_output_contribution = None, set_excess: None, extra: &[], inner: None,
	}));
	k.push(kind(Def::<TxAbort> {
		name: "TxAbort", tlv: true, wire: true, bad: B0,
		build: |g, var| Ok(TxAbort { channel_id: g.cid(), data: g.vbytes(var, 64, 252, 30000) }),
		clear: |_, _| {}, set_excess: None, extra: &[], inner: Some(|v, _| { let mut o = vec![]; let b = v.encode(); opaque_last("data", &b, 32, &mut o); o }),
	}));
	k.push(kind(Def::<Shutdown> {
		name: "Shutdown", tlv: true, wire: true, bad: B0,
		build: |g, var| Ok(Shutdown { channel_id: g.cid(), scriptpubkey: g.script(var) }),
		clear: |_, _| {}, set_excess: None, extra: &[], inner: Some(|v, _| { let mut o = vec![]; let b = v.encode(); opaque_last("scriptpubkey len", &b, 32, &mut o); o }),
	}));
	k.push(kind(Def::<ClosingSigned> {
		name: "ClosingSigned", tlv: true, wire: true, bad: &[Len],
		build: |g, _| Ok(ClosingSigned {
			channel_id: g.cid(), fee_satoshis: g.rng.gen(), signature: g.sig(),
			fee_range: Some(ClosingSignedFeeRange { min_fee_satoshis: g.rng.gen(), max_fee_satoshis: g.rng.gen() }),
		}),
		clear: |v, _| v.fee_range = None, set_excess: None, extra: &[], inner: None,
	}));
	k.push(kind(Def::<ClosingComplete> {
		name: "ClosingComplete", tlv: true, wire: false, bad: &[Sig, Sig, Sig],
		build: |g, var| Ok(ClosingComplete {
			channel_id: g.cid(), closer_scriptpubkey: g.script(var), closee_scriptpubkey: g.script(var),
			fee_satoshis: g.rng.gen(), locktime: g.rng.gen(),
			closer_output_only: Some(g.sig()), closee_output_only: Some(g.sig()), closer_and_closee_outputs: Some(g.sig()),
		}),
		clear: |v, i| match i { 0 => v.closer_output_only = None, 1 => v.closee_output_only = None, _ => v.closer_and_closee_outputs = None },
		set_excess: None, extra: &[], inner: None,
	}));
	k.push(kind(Def::<ClosingSig> {
		name: "ClosingSig", tlv: true, wire: false, bad: &[Sig, Sig, Sig],
		build: |g, var| Ok(ClosingSig {
			channel_id: g.cid(), closer_scriptpubkey: g.script(var), closee_scriptpubkey: g.script(var),
			fee_satoshis: g.rng.gen(), locktime: g.rng.gen(),
			closer_output_only: Some(g.sig()), closee_output_only: Some(g.sig()), closer_and_closee_outputs: Some(g.sig()),
		}),
		clear: |v, i| match i { 0 => v.closer_output_only = None, 1 => v.closee_output_only = None, _ => v.closer_and_closee_outputs = None },
		set_excess: None, extra: &[], inner: None,
	}));
	k.push(kind(Def::<OnionMessage> {
		name: "OnionMessage", tlv: false, wire: true, bad: B0,
		build: |g, var| Ok(OnionMessage {
			blinding_point: g.pk(),
			onion_routing_packet: lightning::onion_message::packet::Packet {
				version: g.rng.gen(), public_key: g.pk(), hop_data: g.vbytes(var, 100, 1300, 32768), hmac: g.a32(),
			},
		}),
		clear: |_, _| {}, set_excess: None, extra: &[], inner: Some(|v, _| { let mut o = vec![]; let b = v.encode(); opaque_last("onion packet len", &b, 33, &mut o); o }),
	}));
	k.push(kind(Def::<StartBatch> {
		name: "StartBatch", tlv: true, wire: true, bad: &[Len],
		build: |g, _| Ok(StartBatch { channel_id: g.cid(), batch_size: g.rng.gen(), message_type: Some(g.rng.gen()) }),
		clear: |v, _| v.message_type = None, set_excess: None, extra: &[], inner: None,
	}));
	k.push(kind(Def::<UpdateAddHTLC> {
		name: "UpdateAddHTLC", tlv: true, wire: true, bad: &[Pk, Len, Len, Len],
		build: |g, var| {
			let mut hop_data = [0u8; 1300];
			g.rng.fill_bytes(&mut hop_data);
			Ok(UpdateAddHTLC {
				channel_id: g.cid(), htlc_id: g.rng.gen(), amount_msat: g.rng.gen(), payment_hash: PaymentHash(g.a32()),
				cltv_expiry: g.rng.gen(), skimmed_fee_msat: Some(g.rng.gen()),
				onion_routing_packet: OnionPacket {
					version: g.rng.gen(),
					public_key: if var == 0 { Err(bitcoin::secp256k1::Error::InvalidPublicKey) } else { Ok(g.pkb()) },
					hop_data, hmac: g.a32(),
				},
				blinding_point: Some(g.pk()), hold_htlc: Some(()), accountable: Some(g.rng.gen()),
			})
		},
		clear: |v, i| match i { 0 => v.blinding_point = None, 1 => v.skimmed_fee_msat = None, 2 => v.hold_htlc = None, _ => v.accountable = None },
		set_excess: None, extra: &[], inner: None,
	}));
	k.push(kind(Def::<UpdateFulfillHTLC> {
		name: "UpdateFulfillHTLC", tlv: true, wire: true, bad: &[Len],
		build: |g, _| {
			let ab = attribution_bytes(g);
			Ok(UpdateFulfillHTLC {
				channel_id: g.cid(), htlc_id: g.rng.gen(), payment_preimage: PaymentPreimage(g.a32()),
				attribution_data: Some(Readable::read(&mut &ab[..]).map_err(|e| format!("attribution data: {:?}", e))?),
			})
		},
		clear: |v, _| v.attribution_data = None, set_excess: None, extra: &[], inner: None,
	}));
	k.push(kind(Def::<UpdateFailHTLC> {
		// `reason` is crate-private: the value is obtained by decoding hand-made valid bytes
		name: "UpdateFailHTLC", tlv: true, wire: true, bad: &[Len],
		build: |g, var| {
			let mut b = g.bytes(40);
			let reason = g.vbytes(var, 64, 292, 4000);
			b.extend_from_slice(&(reason.len() as u16).to_be_bytes());
			b.extend_from_slice(&reason);
			b.extend_from_slice(&[0x01, 0xfd, 0x03, 0x98]);
			b.extend_from_slice(&attribution_bytes(g));
			from_bytes(&b)
		},
		clear: |v, _| v.attribution_data = None, set_excess: None, extra: &[], inner: Some(|v, _| { let mut o = vec![]; let mut w = v.clone(); w.attribution_data = None; let b = w.encode(); opaque_last("reason len", &b, 40, &mut o); o }),
	}));
	k.push(kind(Def::<UpdateFailMalformedHTLC> {
		name: "UpdateFailMalformedHTLC", tlv: true, wire: true, bad: B0,
		build: |g, _| { let b = g.bytes(32 + 8 + 32 + 2); from_bytes(&b) },
		clear: |_, _| {}, set_excess: None, extra: &[], inner: None,
	}));
	k.push(kind(Def::<CommitmentSigned> {
		name: "CommitmentSigned", tlv: true, wire: true, bad: &[Len],
		build: |g, var| {
			let n = g.vlen(var, 5, 4, 483);
			Ok(CommitmentSigned {
				channel_id: g.cid(), signature: g.sig(), htlc_signatures: (0..n).map(|_| g.sig()).collect(),
				funding_txid: Some(g.txid()),
			})
		},
		clear: |v, _| v.funding_txid = None, set_excess: None, extra: &[], inner: None,
	}));
	k.push(kind(Def::<RevokeAndACK> {
		name: "RevokeAndACK", tlv: true, wire: true, bad: &[Len],
		build: |g, var| {
			let n = 1 + g.vlen(var, 2, 3, 12);
			let paths = (0..n)
				.map(|_| {
					let nh = g.rng.gen_range(1..4);
					let hops = (0..nh)
						.map(|_| BlindedHop { blinded_node_id: g.pk(), encrypted_payload: g.vbytes(var.max(1), 60, 252, 400) })
						.collect();
					(g.rng.gen::<u64>(), BlindedMessagePath::from_blinded_path(g.pk(), g.pk(), hops))
				})
				.collect();
			Ok(RevokeAndACK {
				channel_id: g.cid(), per_commitment_secret: g.a32(), next_per_commitment_point: g.pk(),
				release_htlc_message_paths: paths,
			})
		},
		clear: |v, _| v.release_htlc_message_paths.clear(), set_excess: None, extra: &[], inner: None,
	}));
	k.push(kind(Def::<UpdateFee> {
		name: "UpdateFee", tlv: true, wire: true, bad: B0,
		build: |g, _| Ok(UpdateFee { channel_id: g.cid(), feerate_per_kw: g.rng.gen() }),
		clear: |_, _| {}, set_excess: None, extra: &[], inner: None,
	}));
	k.push(kind(Def::<ChannelReestablish> {
		name: "ChannelReestablish", tlv: true, wire: true, bad: &[Len, Len],
		build: |g, _| Ok(ChannelReestablish {
			channel_id: g.cid(), next_local_commitment_number: g.rng.gen(), next_remote_commitment_number: g.rng.gen(),
			your_last_per_commitment_secret: g.a32(), my_current_per_commitment_point: g.pk(),
			next_funding: Some(NextFunding { txid: g.txid(), retransmit_flags: g.rng.gen() }),
			my_current_funding_locked: Some(FundingLocked { txid: g.txid(), retransmit_flags: g.rng.gen() }),
		}),
		clear: |v, i| match i { 0 => v.next_funding = None, _ => v.my_current_funding_locked = None },
		set_excess: None, extra: &[], inner: None,
	}));
	k.push(kind(Def::<AnnouncementSignatures> {
		name: "AnnouncementSignatures", tlv: true, wire: true, bad: B0,
		build: |g, _| Ok(AnnouncementSignatures {
			channel_id: g.cid(), short_channel_id: g.rng.gen(), node_signature: g.sig(), bitcoin_signature: g.sig(),
		}),
		clear: |_, _| {}, set_excess: None, extra: &[], inner: None,
	}));
	k.push(kind(Def::<ChannelAnnouncement> {
		name: "ChannelAnnouncement", tlv: false, wire: true, bad: B0,
		build: |g, var| Ok(ChannelAnnouncement {
			node_signature_1: g.sig(), node_signature_2: g.sig(), bitcoin_signature_1: g.sig(), bitcoin_signature_2: g.sig(),
			contents: UnsignedChannelAnnouncement {
				features: ChannelFeatures::from_le_bytes(g.flags(var)), chain_hash: g.chain(), short_channel_id: g.rng.gen(),
				node_id_1: g.node_id(), node_id_2: g.node_id(), bitcoin_key_1: g.node_id(), bitcoin_key_2: g.node_id(),
				excess_data: g.vbytes(var, 40, 252, 3000),
			},
		}),
		clear: |_, _| {}, set_excess: Some(|v, x| v.contents.excess_data = x), extra: &[], inner: None,
	}));
	k.push(kind(Def::<NodeAnnouncement> {
		name: "NodeAnnouncement", tlv: false, wire: true, bad: B0,
		build: |g, var| {
			let mut addresses = Vec::new();
			match var {
				0 => {},
				1 => for ty in 0..5 { if g.rng.gen_bool(0.5) { addresses.push(g.addr(ty, 1)); } },
				2 => for ty in 0..5 { addresses.push(g.addr(ty, 2)); },
				_ => { for _ in 0..30 { addresses.push(g.addr(0, 1)); } for ty in 1..5 { addresses.push(g.addr(ty, 3)); } },
			}
			// data we "do not yet understand": starts with an address descriptor this version does not know
			let excess_address_data = if var == 1 || var == 3 {
				let mut x = vec![if g.rng.gen_bool(0.3) { 0 } else { g.rng.gen_range(6..=255) }];
				let n = g.rng.gen_range(0..20);
				x.extend_from_slice(&g.bytes(n));
				x
			} else {
				Vec::new()
			};
			let mut rgb = [0u8; 3];
			g.rng.fill_bytes(&mut rgb);
			Ok(NodeAnnouncement {
				signature: g.sig(),
				contents: UnsignedNodeAnnouncement {
					features: NodeFeatures::from_le_bytes(g.flags(var)), timestamp: g.rng.gen(), node_id: g.node_id(), rgb,
					alias: NodeAlias(g.a32()), addresses, excess_address_data, excess_data: g.vbytes(var, 40, 252, 3000),
				},
			})
		},
		clear: |_, _| {}, set_excess: Some(|v, x| v.contents.excess_data = x), extra: &[], inner: Some(node_announcement_inner),
	}));
	k.push(kind(Def::<ChannelUpdate> {
		name: "ChannelUpdate", tlv: false, wire: true, bad: B0,
		build: |g, var| Ok(ChannelUpdate {
			signature: g.sig(),
			contents: UnsignedChannelUpdate {
				chain_hash: g.chain(), short_channel_id: g.rng.gen(), timestamp: g.rng.gen(),
				// the library only constructs updates with the must-be-one bit set
				message_flags: g.rng.gen::<u8>() | 1, channel_flags: g.rng.gen(), cltv_expiry_delta: g.rng.gen(),
				htlc_minimum_msat: g.rng.gen(), htlc_maximum_msat: g.rng.gen(), fee_base_msat: g.rng.gen(),
				fee_proportional_millionths: g.rng.gen(), excess_data: g.vbytes(var, 40, 252, 3000),
			},
		}),
		clear: |_, _| {}, set_excess: Some(|v, x| v.contents.excess_data = x), extra: &[("must_be_one_clear", 108, 0)], inner: None,
	}));
	k.push(kind(Def::<QueryShortChannelIds> {
		name: "QueryShortChannelIds", tlv: false, wire: true, bad: B0,
		build: |g, var| {
			let n = g.vlen(var, 5, 32, 8000);
			Ok(QueryShortChannelIds { chain_hash: g.chain(), short_channel_ids: (0..n).map(|_| g.rng.gen()).collect() })
		},
		clear: |_, _| {}, set_excess: None, extra: &[("zlib_encoding", 34, 1)], inner: Some(|v, _| { let mut o = vec![]; let b = v.encode(); scid_region(&b, 32, &mut o); o }),
	}));
	k.push(kind(Def::<ReplyShortChannelIdsEnd> {
		name: "ReplyShortChannelIdsEnd", tlv: true, wire: true, bad: B0,
		build: |g, _| Ok(ReplyShortChannelIdsEnd { chain_hash: g.chain(), full_information: g.rng.gen() }),
		clear: |_, _| {}, set_excess: None, extra: &[("bool_2", 32, 2)], inner: None,
	}));
	k.push(kind(Def::<QueryChannelRange> {
		name: "QueryChannelRange", tlv: true, wire: true, bad: B0,
		build: |g, _| Ok(QueryChannelRange { chain_hash: g.chain(), first_blocknum: g.rng.gen(), number_of_blocks: g.rng.gen() }),
		clear: |_, _| {}, set_excess: None, extra: &[], inner: None,
	}));
	k.push(kind(Def::<ReplyChannelRange> {
		name: "ReplyChannelRange", tlv: false, wire: true, bad: B0,
		build: |g, var| {
			let n = g.vlen(var, 5, 32, 8000);
			Ok(ReplyChannelRange {
				chain_hash: g.chain(), first_blocknum: g.rng.gen(), number_of_blocks: g.rng.gen(), sync_complete: g.rng.gen(),
				short_channel_ids: (0..n).map(|_| g.rng.gen()).collect(),
			})
		},
		clear: |_, _| {}, set_excess: None, extra: &[("bool_2", 40, 2), ("zlib_encoding", 43, 1)], inner: Some(|v, _| { let mut o = vec![]; let b = v.encode(); scid_region(&b, 41, &mut o); o }),
	}));
	k.push(kind(Def::<GossipTimestampFilter> {
		name: "GossipTimestampFilter", tlv: true, wire: true, bad: B0,
		build: |g, _| Ok(GossipTimestampFilter { chain_hash: g.chain(), first_timestamp: g.rng.gen(), timestamp_range: g.rng.gen() }),
		clear: |_, _| {}, set_excess: None, extra: &[], inner: None,
	}));
	k
}

// ------------------------------------------------------------------------------------------
// the variable-length fields of every kind (length-prefixed or rest-of-message byte strings,
// counted lists, values of known TLVs); built with the library's own types only

/// n random bytes whose last byte is non-zero (feature flags compare modulo trailing zeros)
fn bytes_nz(g: &mut Gen, n: usize) -> Vec<u8> {
	let mut v = g.bytes(n);
	if let Some(l) = v.last_mut() {
		*l |= 1;
	}
	v
}
fn ascii(g: &mut Gen, n: usize) -> String {
	(0..n).map(|_| g.rng.gen_range(0x20u8..0x7f) as char).collect()
}
/// a transaction whose consensus encoding has exactly n bytes
fn tx_of_size(g: &mut Gen, n: usize) -> Option<Transaction> {
	// version 4 + #in 1 + (outpoint 36 + script_sig len 1 + s + sequence 4) + #out 1 + (value 8 + varint(l) + l) + locktime 4
	for s in 0..4usize {
		if n < 59 + s + 1 {
			return None;
		}
		let r = n - 59 - s;
		let l = if (1..=253).contains(&r) { r - 1 } else if r >= 256 { r - 3 } else { continue };
		let tx = Transaction {
			version: transaction::Version(2),
			lock_time: absolute::LockTime::from_consensus(g.rng.gen()),
			input: vec![TxIn {
				previous_output: OutPoint { txid: g.txid(), vout: g.rng.gen() },
				script_sig: ScriptBuf::from_bytes(g.bytes(s)),
				sequence: Sequence(g.rng.gen()),
				witness: Witness::new(),
			}],
			output: vec![TxOut { value: Amount::from_sat(g.rng.gen_range(0..21_000_000 * 100_000_000u64)), script_pubkey: ScriptBuf::from_bytes(g.bytes(l)) }],
		};
		if bitcoin::consensus::serialize(&tx).len() == n {
			return Some(tx);
		}
	}
	None
}
fn msg_path(g: &mut Gen, payload: usize) -> (u64, BlindedMessagePath) {
	let hops = vec![BlindedHop { blinded_node_id: g.pk(), encrypted_payload: g.bytes(payload) }];
	(g.rng.gen::<u64>(), BlindedMessagePath::from_blinded_path(g.pk(), g.pk(), hops))
}

macro_rules! sized {
	($t:ty) => { impl HasSized for $t {} };
	($t:ty, $(($name:expr, $unit:expr, $set:expr)),+ $(,)?) => {
		impl HasSized for $t {
			fn sized() -> Vec<SF<Self>> {
				vec![$(SF { name: $name, unit: $unit, set: $set }),+]
			}
		}
	};
}
macro_rules! open_accept_sized {
	($($t:ty),*) => { $(sized!($t,
		("shutdown_scriptpubkey (TLV)", 1, |v, g, n| { v.common_fields.shutdown_scriptpubkey = Some(ScriptBuf::from_bytes(g.bytes(n))); true }),
		("channel_type flags (TLV)", 1, |v, g, n| { v.common_fields.channel_type = Some(ChannelTypeFeatures::from_le_bytes(bytes_nz(g, n))); true }),
	);)* };
}
macro_rules! closing_sized {
	($($t:ty),*) => { $(sized!($t,
		("closer_scriptpubkey", 1, |v, g, n| { v.closer_scriptpubkey = ScriptBuf::from_bytes(g.bytes(n)); true }),
		("closee_scriptpubkey", 1, |v, g, n| { v.closee_scriptpubkey = ScriptBuf::from_bytes(g.bytes(n)); true }),
	);)* };
}
sized!(Init,
	("features", 1, |v, g, n| { v.features = InitFeatures::from_le_bytes(bytes_nz(g, n)); true }),
	("networks (TLV)", 32, |v, g, n| { v.networks = Some((0..n).map(|_| g.chain()).collect()); true }),
	("remote_network_address hostname (TLV)", 1, |v, g, n| {
		if n > 255 { return false; }
		v.remote_network_address = Some(SocketAddress::Hostname { hostname: g.hostname(n), port: g.rng.gen() });
		true
	}),
);
sized!(ErrorMessage, ("data", 1, |v, g, n| { v.data = ascii(g, n); true }));
sized!(WarningMessage, ("data", 1, |v, g, n| { v.data = ascii(g, n); true }));
sized!(Ping, ("byteslen", 1, |v, _, n| { if n > 0xffff { return false; } v.byteslen = n as u16; true }));
sized!(Pong, ("byteslen", 1, |v, _, n| { if n > 0xffff { return false; } v.byteslen = n as u16; true }));
sized!(PeerStorage, ("data", 1, |v, g, n| { v.data = g.bytes(n); true }));
sized!(PeerStorageRetrieval, ("data", 1, |v, g, n| { v.data = g.bytes(n); true }));
open_accept_sized!(OpenChannel, OpenChannelV2, AcceptChannel, AcceptChannelV2);
sized!(TxAddInput, ("prevtx", 1, |v, g, n| {
	if n == 0 { v.prevtx = None; return true; }
	match tx_of_size(g, n) { Some(tx) => { v.prevtx = Some(tx); true }, None => false }
}));
sized!(TxAddOutput, ("script", 1, |v, g, n| { v.script = ScriptBuf::from_bytes(g.bytes(n)); true }));
sized!(TxSignatures,
	// u16 length + witness (element count 1 + element length 1 + 1 byte)
	("witnesses", 5, |v, g, n| { v.witnesses = (0..n).map(|_| Witness::from_slice(&[g.bytes(1)])).collect(); true }),
	("witness element", 1, |v, g, n| { v.witnesses = vec![Witness::from_slice(&[g.bytes(n)])]; true }),
);
sized!(TxAbort, ("data", 1, |v, g, n| { v.data = g.bytes(n); true }));
sized!(Shutdown, ("scriptpubkey", 1, |v, g, n| { v.scriptpubkey = ScriptBuf::from_bytes(g.bytes(n)); true }));
closing_sized!(ClosingComplete, ClosingSig);
sized!(OnionMessage, ("onion_routing_packet.hop_data", 1, |v, g, n| { v.onion_routing_packet.hop_data = g.bytes(n); true }));
sized!(UpdateFailHTLC, ("reason", 1, |v, g, n| {
	// `reason` is crate-private: the value is the library's decoding of the same message with the
	// reason replaced (channel_id . htlc_id . u16 len . reason . attribution TLV)
	if n > 0xffff { return false; }
	let old = v.encode();
	let l = get_u16(&old, 40) as usize;
	let mut b = old[..40].to_vec();
	b.extend_from_slice(&(n as u16).to_be_bytes());
	b.extend_from_slice(&g.bytes(n));
	b.extend_from_slice(&old[42 + l..]);
	match from_bytes::<UpdateFailHTLC>(&b) { Ok(x) => { *v = x; true }, Err(_) => false }
}));
sized!(CommitmentSigned, ("htlc_signatures", 64, |v, g, n| { v.htlc_signatures = (0..n).map(|_| g.sig()).collect(); true }));
sized!(RevokeAndACK,
	// u64 + introduction node 33 + blinding point 33 + hop count 1 + (node id 33 + u16 length + 0 bytes)
	("release_htlc_message_paths (TLV)", 110, |v, g, n| { v.release_htlc_message_paths = (0..n).map(|_| msg_path(g, 0)).collect(); true }),
	("release_htlc_message_paths[0] encrypted_payload (TLV)", 1, |v, g, n| { v.release_htlc_message_paths = vec![msg_path(g, n)]; true }),
);
sized!(ChannelAnnouncement,
	("features", 1, |v, g, n| { v.contents.features = ChannelFeatures::from_le_bytes(bytes_nz(g, n)); true }),
	("excess_data", 1, |v, g, n| { v.contents.excess_data = g.bytes(n); true }),
);
sized!(NodeAnnouncement,
	("features", 1, |v, g, n| { v.contents.features = NodeFeatures::from_le_bytes(bytes_nz(g, n)); true }),
	("addresses", 7, |v, g, n| { v.contents.addresses = (0..n).map(|_| g.addr(0, 1)).collect(); true }),
	("addresses hostname", 1, |v, g, n| {
		if n > 255 { return false; }
		v.contents.addresses = vec![SocketAddress::Hostname { hostname: g.hostname(n), port: g.rng.gen() }];
		true
	}),
	("excess_address_data", 1, |v, g, n| {
		// data this version does not understand starts with an unknown address descriptor
		let mut x = g.bytes(n);
		if n > 0 { x[0] = if g.rng.gen_bool(0.3) { 0 } else { g.rng.gen_range(6..=255) }; }
		v.contents.excess_address_data = x;
		true
	}),
	("excess_data", 1, |v, g, n| { v.contents.excess_data = g.bytes(n); true }),
);
sized!(ChannelUpdate, ("excess_data", 1, |v, g, n| { v.contents.excess_data = g.bytes(n); true }));
sized!(QueryShortChannelIds, ("short_channel_ids", 8, |v, g, n| { v.short_channel_ids = (0..n).map(|_| g.rng.gen()).collect(); true }));
sized!(ReplyChannelRange, ("short_channel_ids", 8, |v, g, n| { v.short_channel_ids = (0..n).map(|_| g.rng.gen()).collect(); true }));
// kinds without a variable-length field
sized!(FundingCreated); sized!(FundingSigned); sized!(ChannelReady); sized!(Stfu); sized!(SpliceInit); sized!(SpliceAck);
sized!(SpliceLocked); sized!(TxRemoveInput); sized!(TxRemoveOutput); sized!(TxComplete); sized!(TxInitRbf); sized!(TxAckRbf);
sized!(ClosingSigned); sized!(StartBatch); sized!(UpdateAddHTLC); sized!(UpdateFulfillHTLC); sized!(UpdateFailMalformedHTLC);
sized!(UpdateFee); sized!(ChannelReestablish); sized!(AnnouncementSignatures); sized!(ReplyShortChannelIdsEnd);
sized!(QueryChannelRange); sized!(GossipTimestampFilter);

// ------------------------------------------------------------------------------------------
// abstract messages (spec/Wire.tla) and their concretisation

#[derive(Clone, Debug)]
struct ARec {
	t: i64,
	enc: String,
	fit: String,
	val: String,
}
#[derive(Clone, Debug)]
struct AMsg {
	opaque: bool,
	tlvkind: bool,
	nk: usize,
	tid: String,
	fixed: String,
	inner: String,
	recs: Vec<ARec>,
	tail: String,
	size: ASize,
}
/// size class of one variable-length field (SizeClass of spec/Wire.tla)
#[derive(Clone, Debug, PartialEq)]
struct ASize {
	at: String,
	bnd: u64,
	pos: String,
}
impl ASize {
	fn none() -> ASize {
		ASize { at: "none".into(), bnd: 0, pos: "none".into() }
	}
	fn is_none(&self) -> bool {
		self.pos == "none"
	}
	/// SizeN of spec/Wire.tla for the determinate classes
	fn n(&self) -> Option<usize> {
		let b = self.bnd as usize;
		match self.pos.as_str() {
			"zero" => Some(0),
			"one" => Some(1),
			"bm1" => Some(b - 1),
			"b" => Some(b),
			"bp1" => Some(b + 1),
			"2bm1" => Some(2 * b - 1),
			"2b" => Some(2 * b),
			"2bp1" => Some(2 * b + 1),
			_ => None,
		}
	}
}
impl ARec {
	fn clean(t: i64) -> ARec {
		ARec { t, enc: "min".into(), fit: "exact".into(), val: "ok".into() }
	}
}
impl AMsg {
	fn base(tlvkind: bool, nk: usize) -> AMsg {
		AMsg { opaque: false, tlvkind, nk, tid: "known".into(), fixed: "complete".into(), inner: "none".into(), recs: vec![], tail: "none".into(), size: ASize::none() }
	}
	fn opaque() -> AMsg {
		let mut m = AMsg::base(false, 0);
		m.opaque = true;
		m
	}
	fn json(&self) -> Value {
		json!({"opaque": self.opaque, "tlvkind": self.tlvkind, "nk": self.nk, "tid": self.tid, "fixed": self.fixed, "inner": self.inner,
			"recs": self.recs.iter().map(|r| json!({"t": r.t, "enc": r.enc, "fit": r.fit, "val": r.val})).collect::<Vec<_>>(),
			"tail": self.tail, "size": {"at": self.size.at, "bnd": self.size.bnd, "pos": self.size.pos}})
	}
	fn from_json(v: &Value) -> AMsg {
		AMsg {
			opaque: v["opaque"].as_bool().unwrap(),
			tlvkind: v["tlvkind"].as_bool().unwrap(),
			nk: v["nk"].as_u64().unwrap() as usize,
			tid: v["tid"].as_str().unwrap().into(),
			fixed: v["fixed"].as_str().unwrap().into(),
			inner: v["inner"].as_str().unwrap_or("none").into(),
			recs: v["recs"].as_array().unwrap().iter().map(|r| ARec {
				t: r["t"].as_i64().unwrap(),
				enc: r["enc"].as_str().unwrap().into(),
				fit: r["fit"].as_str().unwrap().into(),
				val: r["val"].as_str().unwrap().into(),
			}).collect(),
			tail: v["tail"].as_str().unwrap().into(),
			size: match v.get("size") {
				Some(z) if z.is_object() => ASize {
					at: z["at"].as_str().unwrap().into(),
					bnd: z["bnd"].as_u64().unwrap(),
					pos: z["pos"].as_str().unwrap().into(),
				},
				_ => ASize::none(),
			},
		}
	}
}
fn known_t(i: usize) -> i64 {
	3 * (2 * i as i64 - 1)
}

fn bigsize(x: u64) -> Vec<u8> {
	if x < 0xFD {
		vec![x as u8]
	} else if x <= 0xFFFF {
		let mut v = vec![0xFD];
		v.extend_from_slice(&(x as u16).to_be_bytes());
		v
	} else if x <= 0xFFFF_FFFF {
		let mut v = vec![0xFE];
		v.extend_from_slice(&(x as u32).to_be_bytes());
		v
	} else {
		let mut v = vec![0xFF];
		v.extend_from_slice(&x.to_be_bytes());
		v
	}
}
/// a wider-than-necessary encoding of x
fn bigsize_nonmin(x: u64, g: &mut Gen) -> Option<Vec<u8>> {
	let mut forms: Vec<Vec<u8>> = Vec::new();
	if x < 0xFD {
		let mut v = vec![0xFD];
		v.extend_from_slice(&(x as u16).to_be_bytes());
		forms.push(v);
	}
	if x <= 0xFFFF {
		let mut v = vec![0xFE];
		v.extend_from_slice(&(x as u32).to_be_bytes());
		forms.push(v);
	}
	if x <= 0xFFFF_FFFF {
		let mut v = vec![0xFF];
		v.extend_from_slice(&x.to_be_bytes());
		forms.push(v);
	}
	if forms.is_empty() {
		None
	} else {
		let i = g.rng.gen_range(0..forms.len());
		Some(forms.swap_remove(i))
	}
}
fn read_bigsize(b: &[u8]) -> Option<(u64, usize)> {
	let f = *b.first()?;
	match f {
		0xFF => Some((u64::from_be_bytes(b.get(1..9)?.try_into().ok()?), 9)),
		0xFE => Some((u32::from_be_bytes(b.get(1..5)?.try_into().ok()?) as u64, 5)),
		0xFD => Some((u16::from_be_bytes(b.get(1..3)?.try_into().ok()?) as u64, 3)),
		n => Some((n as u64, 1)),
	}
}
#[derive(Clone, Debug)]
struct RecSpan {
	t: u64,
	start: usize,
	tl: usize,
	ll: usize,
	vl: usize,
}
fn parse_records(s: &[u8]) -> Option<Vec<RecSpan>> {
	let mut out = Vec::new();
	let mut p = 0;
	while p < s.len() {
		let (t, tl) = read_bigsize(&s[p..])?;
		let (l, ll) = read_bigsize(&s[p + tl..])?;
		let vl = l as usize;
		if p + tl + ll + vl > s.len() {
			return None;
		}
		out.push(RecSpan { t, start: p, tl, ll, vl });
		p += tl + ll + vl;
	}
	Some(out)
}

/// Substitutes concrete type numbers, values and header encodings for an abstract TLV stream.
/// Returns the stream bytes and the presence mask of the known records, or None if the kind's
/// known type numbers leave no room for the abstract types used (or no out-of-range value exists).
fn concretize(m: &AMsg, known: &[(u64, Vec<u8>)], bad: &[BadRule], g: &mut Gen) -> Option<(Vec<u8>, u32)> {
	let nk = known.len();
	let has_nonmin_type = m.recs.iter().any(|r| r.enc == "nonmin_type");
	// unknown numbers per gap
	let mut even_no = vec![None; nk + 1];
	let mut odd_no = vec![None; nk + 1];
	for j in 0..=nk {
		let use_e = m.recs.iter().any(|r| r.t == 3 * 2 * j as i64 + 1);
		let use_o = m.recs.iter().any(|r| r.t == 3 * 2 * j as i64 + 2);
		if !use_e && !use_o {
			continue;
		}
		let lo: u64 = if j == 0 { 0 } else { known[j - 1].0.checked_add(1)? };
		let hi: u64 = if j == nk { u64::MAX - 8 } else { known[j].0.checked_sub(1)? };
		if lo > hi {
			return None;
		}
		let start = if j == nk {
			match g.rng.gen_range(0..8) {
				0 => lo.max(0xFA),
				1 => lo.max(0xFFFC),
				2 if !has_nonmin_type => lo.max(0xFFFF_FFFC),
				3 if !has_nonmin_type => lo.max(1u64 << 40) + g.rng.gen_range(0..1000),
				4 => lo + g.rng.gen_range(0..200),
				_ => lo,
			}
		} else if hi - lo > 10 {
			lo + g.rng.gen_range(0..(hi - lo - 4))
		} else {
			lo
		};
		let e = if start % 2 == 0 { start } else { start + 1 };
		let o = if use_e { e + 1 } else if start % 2 == 1 { start } else { start + 1 };
		if use_e {
			if e > hi {
				return None;
			}
			even_no[j] = Some(e);
		}
		if use_o {
			if o > hi {
				return None;
			}
			odd_no[j] = Some(o);
		}
	}
	// records
	let mut mask = 0u32;
	let mut parts: Vec<(u64, Vec<u8>, &ARec)> = Vec::new();
	let mut maxno = known.last().map(|k| k.0).unwrap_or(0);
	for r in &m.recs {
		let slot = (r.t / 3) as usize;
		let sub = r.t % 3;
		let (tn, val) = if sub == 0 {
			let i = (slot + 1) / 2; // 1-based
			let (tn, v) = &known[i - 1];
			mask |= 1 << (i - 1);
			let mut v = v.clone();
			if r.val == "bad" {
				let rule = bad[i - 1];
				let choice = g.rng.gen_range(0..3);
				match (rule, choice) {
					(BadRule::None, _) => return None,
					(BadRule::Pk, 2) => v = { let mut x = vec![0x05u8]; x.extend_from_slice(&g.bytes(32)); x },
					(BadRule::Sig, 2) => v = vec![0xff; 64],
					(_, 0) if !v.is_empty() => { v.pop(); },
					_ => v.push(g.rng.gen()),
				}
			}
			(*tn, v)
		} else {
			let j = slot / 2;
			let tn = if sub == 1 { even_no[j]? } else { odd_no[j]? };
			let n = match g.rng.gen_range(0..10) { 0 => 0, 1 => 253, 2 => 70000, _ => g.rng.gen_range(1..12) };
			(tn, g.bytes(n))
		};
		maxno = maxno.max(tn);
		parts.push((tn, val, r));
	}
	// tail
	let tail_t = { let t = maxno.checked_add(1)?; if t % 2 == 1 { t } else { t + 1 } };
	let tail: Vec<u8> = match m.tail.as_str() {
		"none" => vec![],
		"type_only" => bigsize(tail_t),
		"partial_type" => {
			let full = bigsize(tail_t.max(0xFD + g.rng.gen_range(0..2) * 0x10000));
			let n = g.rng.gen_range(1..full.len());
			full[..n].to_vec()
		},
		"partial_len" => {
			let mut v = bigsize(tail_t);
			let l = bigsize(if g.rng.gen_bool(0.5) { 0x100 } else { 0x10000 });
			let n = g.rng.gen_range(1..l.len());
			v.extend_from_slice(&l[..n]);
			v
		},
		_ => return None,
	};
	// assemble back to front (an overrun length depends on what follows)
	let mut suffix: Vec<u8> = tail;
	for (tn, val, r) in parts.iter().rev() {
		let declared = if r.fit == "overrun" {
			(val.len() + suffix.len() + 1 + g.rng.gen_range(0..3)) as u64
		} else {
			val.len() as u64
		};
		let tb = if r.enc == "nonmin_type" { bigsize_nonmin(*tn, g)? } else { bigsize(*tn) };
		let lb = if r.enc == "nonmin_len" { bigsize_nonmin(declared, g)? } else { bigsize(declared) };
		let mut rec = tb;
		rec.extend_from_slice(&lb);
		rec.extend_from_slice(val);
		rec.extend_from_slice(&suffix);
		suffix = rec;
	}
	Some((suffix, mask))
}

// ------------------------------------------------------------------------------------------
// output

fn hex(b: &[u8]) -> String {
	let mut s = String::with_capacity(b.len() * 2);
	for x in b {
		s.push_str(&format!("{:02x}", x));
	}
	s
}

struct Out {
	tw: TraceWriter,
	dw: TraceWriter,
	run: usize,
	only: Option<usize>,
	by_src: std::collections::BTreeMap<String, usize>,
	by_obs: std::collections::BTreeMap<String, usize>,
	panics: usize,
	skipped: usize,
	/// measured (n, unit, total) of the sized field of the next record (size family only)
	sz: (usize, usize, usize),
	size_skipped: usize,
	peer_failures: usize,
}
impl Out {
	fn emit(&mut self, kind: &str, level: &str, src: &str, m: &AMsg, obs: &Obs, exp: bool, bytes: &[u8], info: Value) {
		self.emit_c(kind, level, src, m, obs, exp, false, bytes, info)
	}
	#[allow(clippy::too_many_arguments)]
	fn emit_c(&mut self, kind: &str, level: &str, src: &str, m: &AMsg, obs: &Obs, exp: bool, cexp: bool, bytes: &[u8], info: Value) {
		self.run += 1;
		*self.by_src.entry(src.to_string()).or_insert(0) += 1;
		*self.by_obs.entry(obs.class.to_string()).or_insert(0) += 1;
		if obs.class == "panic" {
			self.panics += 1;
		}
		if let Some(o) = self.only {
			if o != self.run {
				return;
			}
		}
		let ev = if obs.class == "panic" { "panic" } else { "case" };
		self.tw.emit(json!({"run": self.run, "ev": ev, "kind": kind, "level": level, "src": src, "m": m.json(),
			"obs": obs.class, "exp": exp, "eq": obs.eq, "rt": obs.rt, "over": obs.over, "cexp": cexp, "canon": obs.canon,
			"n": self.sz.0, "unit": self.sz.1, "total": self.sz.2}));
		let full = self.only.is_some() || bytes.len() <= 160;
		self.dw.emit(json!({"run": self.run, "kind": kind, "level": level, "src": src, "err": obs.err, "len": bytes.len(),
			"consumed": obs.consumed, "hex": if full { hex(bytes) } else { format!("{}...", hex(&bytes[..160])) }, "info": info}));
	}
}

// ------------------------------------------------------------------------------------------
// running the families

struct Ctx {
	inst: Box<dyn Inst>,
	var: usize,
	nk: usize,
	full: Vec<u8>,
	/// length of the fixed part (everything before the TLV stream / the retained excess data)
	f: usize,
	/// (type, value) of each optional TLV as the real encoder writes it; None if the encoding of
	/// the value with all TLVs is not "fixed part ++ nk records"
	known: Option<Vec<(u64, Vec<u8>)>>,
	/// out-of-range patches of the fixed part: (name, offset, bytes)
	patches: Vec<(String, usize, Vec<u8>)>,
}

fn find(hay: &[u8], needle: &[u8]) -> Vec<usize> {
	let mut r = Vec::new();
	if needle.len() > hay.len() {
		return r;
	}
	for i in 0..=(hay.len() - needle.len()) {
		if hay[i] == needle[0] && &hay[i..i + needle.len()] == needle {
			r.push(i);
		}
	}
	r
}

fn make_ctx(k: &dyn Kind, g: &mut Gen, var: usize) -> Result<Ctx, String> {
	let inst = k.instantiate(g, var)?;
	let nk = k.nk();
	let all = (1u32 << nk) - 1;
	let full = inst.enc(all);
	let mut known = None;
	let f;
	if k.tlv() {
		let none = inst.enc(0);
		f = none.len();
		if full.len() >= f && full[..f] == none[..] {
			if let Some(recs) = parse_records(&full[f..]) {
				if recs.len() == nk {
					known = Some(recs.iter().map(|r| {
						let vs = f + r.start + r.tl + r.ll;
						(r.t, full[vs..vs + r.vl].to_vec())
					}).collect());
				}
			}
		}
	} else if k.has_excess() {
		f = inst.enc_excess(all, &[]).len();
	} else {
		f = full.len();
	}
	let mut patches = Vec::new();
	let lim = f.min(full.len()).min(4096);
	for pk in g.pools.pka.iter() {
		for off in find(&full[..lim], &pk.serialize()) {
			patches.push(("invalid_point".to_string(), off, vec![0x05]));
		}
	}
	for sg in g.pools.sigs.iter() {
		for off in find(&full[..lim], &sg.serialize_compact()) {
			patches.push(("invalid_signature".to_string(), off, vec![0xff; 64]));
		}
	}
	for (name, off, b) in k.extra() {
		if *off < f.min(full.len()) {
			patches.push((name.to_string(), *off, vec![*b]));
		}
	}
	Ok(Ctx { inst, var, nk, full, f, known, patches })
}

/// abstract records of the known TLVs present in `mask` (clean)
fn present_recs(mask: u32, nk: usize) -> Vec<ARec> {
	(0..nk).filter(|i| (mask >> i) & 1 == 1).map(|i| ARec::clean(known_t(i + 1))).collect()
}

fn fam_roundtrip(k: &dyn Kind, c: &Ctx, out: &mut Out, info: &Value) {
	for mask in 0..(1u32 << c.nk) {
		let bytes = c.inst.enc(mask);
		let mut m = AMsg::base(k.tlv(), c.nk);
		m.recs = present_recs(mask, c.nk);
		let o = c.inst.observe(&bytes, &Expect::Mask(mask));
		out.emit(k.name(), "codec", "roundtrip", &m, &o, true, &bytes, json!({"ctx": info, "mask": mask}));
		if k.wire() {
			let o = c.inst.observe_wire(&bytes, &Expect::Mask(mask));
			out.emit(k.name(), "wire", "roundtrip", &m, &o, true, &bytes, json!({"ctx": info, "mask": mask}));
		}
	}
}

/// every (or `budget` sampled) strict prefix of a valid encoding, classified by where the cut falls
fn fam_trunc(k: &dyn Kind, c: &Ctx, g: &mut Gen, budget: usize, out: &mut Out, info: &Value) {
	let all = (1u32 << c.nk) - 1;
	let mut masks = vec![all];
	if c.nk > 0 {
		masks.push(g.rng.gen_range(0..all));
	}
	for mask in masks {
		let bytes = c.inst.enc(mask);
		let spans = if k.tlv() {
			match parse_records(&bytes[c.f.min(bytes.len())..]) {
				Some(s) => s,
				None => continue,
			}
		} else {
			vec![]
		};
		let present: Vec<usize> = (0..c.nk).filter(|i| (mask >> i) & 1 == 1).collect();
		if k.tlv() && (c.known.is_none() || spans.len() != present.len()) {
			continue;
		}
		let mut pos: Vec<usize> = if bytes.len() <= budget {
			(0..bytes.len()).collect()
		} else {
			let mut p: Vec<usize> = (0..budget / 4).collect();
			p.extend((bytes.len() - budget / 4)..bytes.len());
			for d in 0..6 {
				if c.f >= 3 && c.f + 3 <= bytes.len() {
					p.push(c.f - 3 + d);
				}
			}
			for s in &spans {
				for d in [0, 1, s.tl, s.tl + s.ll, s.tl + s.ll + s.vl - s.vl.min(1)] {
					p.push((c.f + s.start + d).min(bytes.len() - 1));
				}
			}
			for _ in 0..budget / 2 {
				p.push(g.rng.gen_range(0..bytes.len()));
			}
			p.sort();
			p.dedup();
			p
		};
		pos.retain(|p| *p < bytes.len());
		for p in pos {
			let cut = &bytes[..p];
			let mut m = AMsg::base(k.tlv(), c.nk);
			let mut expect = Expect::None;
			if p < c.f {
				m.fixed = "truncated".into();
			} else if !k.tlv() {
				// only kinds that retain excess data get here
				m.tail = "excess".into();
				expect = Expect::Excess(mask, bytes[c.f..p].to_vec());
			} else {
				let q = p - c.f;
				let mut sub = 0u32;
				for (n, s) in spans.iter().enumerate() {
					let end = s.start + s.tl + s.ll + s.vl;
					if end <= q {
						m.recs.push(ARec::clean(known_t(present[n] + 1)));
						sub |= 1 << present[n];
					} else if s.start < q {
						let d = q - s.start;
						if d < s.tl {
							m.tail = "partial_type".into();
						} else if d == s.tl {
							m.tail = "type_only".into();
						} else if d < s.tl + s.ll {
							m.tail = "partial_len".into();
						} else {
							let mut r = ARec::clean(known_t(present[n] + 1));
							r.fit = "overrun".into();
							m.recs.push(r);
						}
						break;
					} else {
						break;
					}
				}
				expect = Expect::Mask(sub);
			}
			let exp = !matches!(expect, Expect::None);
			let o = c.inst.observe(cut, &expect);
			out.emit(k.name(), "codec", "truncate", &m, &o, exp, cut, json!({"ctx": info, "mask": mask, "cut": p, "of": bytes.len()}));
		}
	}
}

/// inner declared lengths vs the element boundaries of the builder's own value
fn fam_inner(k: &dyn Kind, c: &Ctx, g: &mut Gen, out: &mut Out, info: &Value) {
	for ic in c.inst.inner_cases(g) {
		let mut m = AMsg::base(k.tlv(), 0);
		m.inner = ic.class.into();
		// is the unmanipulated encoding itself canonical (re-encodes byte for byte)?
		let o0 = c.inst.observe(&ic.base, &Expect::None);
		let cexp = o0.class == "accept" && o0.canon;
		let o = c.inst.observe(&ic.bytes, &Expect::None);
		out.emit_c(k.name(), "codec", "inner_length", &m, &o, false, cexp, &ic.bytes, json!({"ctx": info, "what": ic.name}));
	}
}

fn fam_fixedbad(k: &dyn Kind, c: &Ctx, g: &mut Gen, out: &mut Out, info: &Value) {
	let all = (1u32 << c.nk) - 1;
	for (name, off, b) in &c.patches {
		let mask = if c.nk > 0 { g.rng.gen_range(0..=all) } else { 0 };
		let mut bytes = c.inst.enc(mask);
		if off + b.len() > bytes.len() {
			continue;
		}
		bytes[*off..off + b.len()].copy_from_slice(b);
		let mut m = AMsg::base(k.tlv(), c.nk);
		m.fixed = "badvalue".into();
		let o = c.inst.observe(&bytes, &Expect::None);
		out.emit(k.name(), "codec", "fixed_badvalue", &m, &o, false, &bytes, json!({"ctx": info, "mask": mask, "patch": name, "offset": off}));
	}
}

fn fam_mutate(k: &dyn Kind, c: &Ctx, g: &mut Gen, n: usize, out: &mut Out, info: &Value) {
	let all = (1u32 << c.nk) - 1;
	for i in 0..n {
		let mask = if c.nk > 0 { g.rng.gen_range(0..=all) } else { 0 };
		let mut bytes = c.inst.enc(mask);
		if bytes.is_empty() {
			continue;
		}
		// bias towards the structured region (start, and the TLV stream at the end)
		let p = match g.rng.gen_range(0..4) {
			0 => g.rng.gen_range(0..bytes.len().min(64)),
			1 => bytes.len() - 1 - g.rng.gen_range(0..bytes.len().min(48)),
			_ => g.rng.gen_range(0..bytes.len()),
		};
		let x: u8 = if g.rng.gen_bool(0.5) { 1 << g.rng.gen_range(0..8) } else { g.rng.gen_range(1..=255) };
		bytes[p] ^= x;
		let m = AMsg::opaque();
		let wire = k.wire() && i % 4 == 3;
		let o = if wire { c.inst.observe_wire(&bytes, &Expect::None) } else { c.inst.observe(&bytes, &Expect::None) };
		out.emit(k.name(), if wire { "wire" } else { "codec" }, "mutate", &m, &o, false, &bytes, json!({"ctx": info, "mask": mask, "pos": p, "xor": x}));
	}
}

/// the abstract messages TLC enumerated, applied to one kind
#[allow(clippy::too_many_arguments)]
fn fam_tlc(k: &dyn Kind, ki: usize, ctxs: &[Ctx], cases: &[(usize, AMsg)], accepts: &std::collections::HashSet<usize>, tlv3: usize, seed: u64, pools: &Rc<Pools>, out: &mut Out) {
	if ctxs.is_empty() {
		return;
	}
	let nk = k.nk();
	let strict = !k.tlv() && !k.has_excess();
	let mut sel: Vec<&(usize, AMsg)> = Vec::new();
	let mut three: Vec<&(usize, AMsg)> = Vec::new();
	for c in cases {
		let m = &c.1;
		if m.tid != "known" || m.tlvkind != k.tlv() || m.nk != nk || m.inner != "none" || !m.size.is_none() {
			continue;
		}
		if m.recs.len() >= 3 {
			three.push(c);
		} else {
			sel.push(c);
		}
	}
	if three.len() > tlv3 {
		let mut g = Gen::new(pools, seed, &[ki as u64, 9]);
		for i in 0..tlv3 {
			let j = g.rng.gen_range(i..three.len());
			three.swap(i, j);
		}
		three.truncate(tlv3);
	}
	sel.extend(three);
	// scheduling only: the (few) shapes the model accepts are run on every built value, the
	// others on one
	let mut sched: Vec<(usize, &(usize, AMsg))> = Vec::new();
	for (n, c) in sel.iter().enumerate() {
		if accepts.contains(&c.0) {
			for x in 0..ctxs.len() {
				sched.push((x, c));
			}
		} else {
			sched.push(((n + c.0) % ctxs.len(), c));
		}
	}
	for (x, (ci, m)) in sched.iter().map(|(x, c)| (*x, *c)) {
		let c = &ctxs[x];
		let mut g = Gen::new(pools, seed, &[ki as u64, *ci as u64, x as u64, 5]);
		let info = json!({"tlc_case": ci, "var": c.var});
		let all = (1u32 << nk) - 1;
		match m.fixed.as_str() {
			"truncated" => {
				let mask = if nk > 0 { g.rng.gen_range(0..=all) } else { 0 };
				let bytes = c.inst.enc(mask);
				if c.f == 0 {
					out.skipped += 1;
					continue;
				}
				let p = g.rng.gen_range(0..c.f.min(bytes.len()));
				let o = c.inst.observe(&bytes[..p], &Expect::None);
				out.emit(k.name(), "codec", "tlc", m, &o, false, &bytes[..p], json!({"ctx": info, "cut": p}));
			},
			"badvalue" => {
				if c.patches.is_empty() {
					out.skipped += 1;
					continue;
				}
				let (name, off, b) = &c.patches[g.rng.gen_range(0..c.patches.len())];
				let mask = if nk > 0 { g.rng.gen_range(0..=all) } else { 0 };
				let mut bytes = c.inst.enc(mask);
				bytes[*off..off + b.len()].copy_from_slice(b);
				let o = c.inst.observe(&bytes, &Expect::None);
				out.emit(k.name(), "codec", "tlc", m, &o, false, &bytes, json!({"ctx": info, "patch": name, "offset": off}));
			},
			_ if !k.tlv() => match m.tail.as_str() {
				"none" => {}, // = round trip
				"excess" if k.has_excess() => {
					let n = [0usize, 1, 7, 300][g.rng.gen_range(0..4)];
					let x = g.bytes(n);
					let bytes = c.inst.enc_excess(0, &x);
					let o = c.inst.observe(&bytes, &Expect::Excess(0, x));
					out.emit(k.name(), "codec", "tlc", m, &o, true, &bytes, json!({"ctx": info}));
				},
				"garbage" if strict => {
					let mut bytes = c.inst.enc(0);
					let n = g.rng.gen_range(1..20);
					bytes.extend_from_slice(&g.bytes(n));
					let o = c.inst.observe(&bytes, &Expect::None);
					out.emit(k.name(), "codec", "tlc", m, &o, false, &bytes, json!({"ctx": info}));
				},
				_ => {},
			},
			_ => {
				let known = match &c.known {
					Some(kn) => kn,
					None => {
						out.skipped += 1;
						continue;
					},
				};
				match concretize(m, known, k.bad(), &mut g) {
					None => out.skipped += 1,
					Some((stream, mask)) => {
						let mut bytes = c.full[..c.f].to_vec();
						bytes.extend_from_slice(&stream);
						let o = c.inst.observe(&bytes, &Expect::Mask(mask));
						out.emit(k.name(), "codec", "tlc", m, &o, true, &bytes, json!({"ctx": info, "mask": mask}));
					},
				}
			},
		}
	}
}

fn same_recs(a: &[ARec], b: &[ARec]) -> bool {
	a.len() == b.len() && a.iter().zip(b).all(|(x, y)| x.t == y.t && x.enc == y.enc && x.fit == y.fit && x.val == y.val)
}

/// number of elements for a size class that fixes it / leaves it open ("rand")
fn size_n(sz: &ASize, g: &mut Gen) -> Option<usize> {
	match sz.pos.as_str() {
		"rand" => Some(2f64.powf(g.rng.gen_range(1.0..16.0)) as usize),
		_ => sz.n(),
	}
}

/// The size classes TLC enumerated, applied to every variable-length field of one kind (the value
/// is built with the library's own types, encoded with its own encoder) and to the value of an
/// unknown odd TLV record after the known ones.
fn fam_size(k: &dyn Kind, ki: usize, x: usize, c: &Ctx, cases: &[(usize, AMsg)], seed: u64, pools: &Rc<Pools>, out: &mut Out) {
	const MAX_PAYLOAD: usize = 65535 - 2;
	let nk = k.nk();
	let all = (1u32 << nk) - 1;
	let fields = c.inst.sized_fields();
	for (ci, m) in cases {
		if m.size.is_none() || m.tid != "known" || m.tlvkind != k.tlv() || m.nk != nk {
			continue;
		}
		// the shape the model gives a sized message: complete, all known TLVs present (+ one
		// unknown odd record after them)
		let mut want = present_recs(all, nk);
		let odd = m.size.at == "odd_tlv";
		if odd {
			want.push(ARec::clean(3 * 2 * nk as i64 + 2));
		}
		if !same_recs(&m.recs, &want) || m.fixed != "complete" || m.tail != "none" || m.inner != "none" || (odd && c.known.is_none()) {
			out.size_skipped += 1;
			continue;
		}
		let targets: Vec<(usize, &'static str, usize)> = if odd {
			vec![(usize::MAX, "value of an unknown odd TLV", 1)]
		} else {
			fields.iter().enumerate().map(|(i, (n, u))| (i, *n, *u)).collect()
		};
		let reps = if m.size.pos == "rand" { 3 } else { 1 };
		for (fi, fname, unit) in targets {
			for rep in 0..reps {
				let mut g = Gen::new(pools, seed, &[ki as u64, *ci as u64, fi as u64, rep as u64, x as u64, 23]);
				let odd_t: u64 = {
					let lo = c.known.as_ref().and_then(|kn| kn.last().map(|x| x.0 + 1)).unwrap_or(0);
					let t = match g.rng.gen_range(0..4) { 0 => lo.max(0xFC), 1 => lo.max(0xFFFE), 2 => lo.max(1u64 << 33), _ => lo };
					t | 1
				};
				let build_raw = |n: usize, g: &mut Gen| -> Option<(Option<Box<dyn Inst>>, Vec<u8>)> {
					// n elements of `unit` bytes cannot be part of a message (Wire.tla: n * unit + 2 <= total <= MaxMsg)
					if n.saturating_mul(unit) > MAX_PAYLOAD {
						return None;
					}
					if odd {
						let mut b = c.inst.enc(all);
						b.extend_from_slice(&bigsize(odd_t));
						b.extend_from_slice(&bigsize(n as u64));
						b.extend_from_slice(&g.bytes(n));
						Some((None, b))
					} else {
						let i2 = c.inst.with_size(fi, n, g)?;
						let b = i2.enc(all);
						Some((Some(i2), b))
					}
				};
				// a panic of the library's encoder on a value that could fit is data
				let mut enc_panic: Option<(usize, String)> = None;
				let mut build = |n: usize, g: &mut Gen| -> Option<(Option<Box<dyn Inst>>, Vec<u8>)> {
					match catch_unwind(AssertUnwindSafe(|| build_raw(n, g))) {
						Ok(r) => r,
						Err(_) => {
							enc_panic = Some((n, LAST_PANIC.with(|p| p.borrow().clone())));
							None
						},
					}
				};
				let built = if m.size.pos == "max" {
					// the largest n with which the message still fits: estimate from a small feasible n, then
					// step down while a widened length prefix pushes it over
					let mut found = None;
					for n0 in [0usize, 1, 64, 100, 400] {
						if let Some((_, b0)) = build(n0, &mut g) {
							if b0.len() > MAX_PAYLOAD {
								break;
							}
							let mut n = n0 + (MAX_PAYLOAD - b0.len()) / unit;
							for _ in 0..24 {
								match build(n, &mut g) {
									None => break,
									Some((i2, b)) => {
										if b.len() <= MAX_PAYLOAD {
											found = Some((n, i2, b));
											break;
										}
										let excess = b.len() - MAX_PAYLOAD;
										n = n.saturating_sub((excess + unit - 1) / unit);
									},
								}
							}
							break;
						}
					}
					found
				} else {
					size_n(&m.size, &mut g).and_then(|n| build(n, &mut g).map(|(i2, b)| (n, i2, b)))
				};
				if let Some((n, msg)) = enc_panic {
					let o = Obs { class: "panic", err: format!("encode panic: {}", msg), eq: false, rt: false, consumed: 0, over: false, canon: false };
					out.sz = (n, unit, 0);
					out.emit(k.name(), "codec", "size", m, &o, true, &[], json!({"ctx": {"tlc_case": ci, "var": c.var}, "field": fname, "n": n, "unit": unit}));
					out.sz = (0, 1, 0);
					continue;
				}
				let (n, i2, bytes) = match built {
					Some(x) if x.2.len() <= MAX_PAYLOAD => x,
					_ => {
						// the field's type cannot hold that many elements / the message would not be a message
						out.size_skipped += 1;
						continue;
					},
				};
				let inst: &dyn Inst = match &i2 { Some(b) => b.as_ref(), None => c.inst.as_ref() };
				let info = json!({"ctx": {"tlc_case": ci, "var": c.var}, "field": fname, "n": n, "unit": unit});
				out.sz = (n, unit, bytes.len() + 2);
				let o = inst.observe(&bytes, &Expect::Mask(all));
				out.emit(k.name(), "codec", "size", m, &o, true, &bytes, info.clone());
				if k.wire() {
					let o = inst.observe_wire(&bytes, &Expect::Mask(all));
					out.emit(k.name(), "wire", "size", m, &o, true, &bytes, info);
				}
				out.sz = (0, 1, 0);
			}
		}
	}
}

/// size classes of the payload of a message of an unknown type: wire::read and the PeerManager pair
fn fam_size_typeid(known_ids: &[u16], cases: &[(usize, AMsg)], seed: u64, pools: &Rc<Pools>, out: &mut Out) {
	for (ci, m) in cases {
		if m.size.is_none() || m.tid == "known" || m.size.at != "field" {
			continue;
		}
		let mut g = Gen::new(pools, seed, &[*ci as u64, 29]);
		let tid: u16 = loop {
			let base: u16 = if m.tid.starts_with("custom") { g.rng.gen_range(32768..=65535) } else { g.rng.gen_range(0..32768) };
			let t = if m.tid.ends_with("even") { base & !1 } else { base | 1 };
			if !known_ids.contains(&t) {
				break t;
			}
		};
		let n = if m.size.pos == "max" { 65535 - 2 } else { match size_n(&m.size, &mut g) { Some(n) => n, None => continue } };
		if n + 2 > 65535 {
			out.size_skipped += 1;
			continue;
		}
		let payload = g.bytes(n);
		let mut full = tid.to_be_bytes().to_vec();
		full.extend_from_slice(&payload);
		out.sz = (n, 1, full.len());
		let o = wire_obs(&full);
		out.emit("-", "wire", "size", m, &o, false, &full, json!({"ctx": {"tlc_case": ci}, "type": tid, "n": n}));
		let (class_obs, diag) = peer::inject(tid, &payload);
		if class_obs == "tool" {
			// the loop-back pair could not be set up: no observation (reported as a tool error by the check)
			eprintln!("peer harness failure: {}", diag);
			out.peer_failures += 1;
			out.sz = (0, 1, 0);
			continue;
		}
		let o = Obs { class: class_obs, err: diag, eq: false, rt: false, consumed: 0, over: false, canon: false };
		out.emit("-", "peer", "size", m, &o, false, &full, json!({"ctx": {"tlc_case": ci}, "type": tid, "n": n}));
		out.sz = (0, 1, 0);
	}
}

fn wire_obs(full: &[u8]) -> Obs {
	let r = catch_unwind(AssertUnwindSafe(|| lightning::verif::codec::wire_read(full)));
	let mut o = Obs { class: "reject", err: String::new(), eq: false, rt: false, consumed: 0, over: false, canon: false };
	match r {
		Err(_) => {
			o.class = "panic";
			o.err = LAST_PANIC.with(|p| p.borrow().clone());
		},
		Ok(Err((e, _))) => o.err = format!("{:?}", e),
		Ok(Ok((tid, dbg, reenc))) => {
			if dbg.starts_with("Unknown(") {
				o.class = "unknown";
				o.err = dbg;
			} else {
				o.class = "accept";
				// re-encoding is stable: wire::read(reenc) gives the same message again
				let r2 = catch_unwind(AssertUnwindSafe(|| lightning::verif::codec::wire_read(&reenc)));
				match r2 {
					Ok(Ok((tid2, dbg2, _))) => o.rt = tid2 == tid && dbg2 == dbg,
					Ok(Err((e, _))) => o.err = format!("re-decode: {:?}", e),
					Err(_) => {
						o.class = "panic";
						o.err = LAST_PANIC.with(|p| p.borrow().clone());
					},
				}
			}
		},
	}
	o
}

/// message-type classes at the wire::read level
fn fam_typeid(kinds: &[Box<dyn Kind>], known_ids: &[u16], cases: &[(usize, AMsg)], n: usize, seed: u64, pools: &Rc<Pools>, out: &mut Out) {
	for (ci, m) in cases {
		if m.tid == "known" || m.inner != "none" || !m.size.is_none() {
			continue;
		}
		for i in 0..n {
			let mut g = Gen::new(pools, seed, &[*ci as u64, i as u64, 11]);
			let tid: u16 = loop {
				let base: u16 = if m.tid.starts_with("custom") { g.rng.gen_range(32768..=65535) } else { g.rng.gen_range(0..32768) };
				let t = if m.tid.ends_with("even") { base & !1 } else { base | 1 };
				if !known_ids.contains(&t) {
					break t;
				}
			};
			// payload: nothing, random bytes, or the valid encoding of some known message
			let payload = match i % 3 {
				0 => vec![],
				1 => { let n = g.rng.gen_range(1..200); g.bytes(n) },
				_ => {
					let k = &kinds[g.rng.gen_range(0..kinds.len())];
					match k.instantiate(&mut g, 1) { Ok(inst) => inst.enc(0), Err(_) => vec![] }
				},
			};
			let mut full = tid.to_be_bytes().to_vec();
			full.extend_from_slice(&payload);
			let o = wire_obs(&full);
			out.emit("-", "wire", "typeid", m, &o, false, &full, json!({"tlc_case": ci, "type": tid}));
		}
	}
}

/// arbitrary byte strings: per-kind codecs and wire::read
fn fam_random(kinds: &[Box<dyn Kind>], known_ids: &[u16], n: usize, seed: u64, pools: &Rc<Pools>, out: &mut Out) {
	let m = AMsg::opaque();
	for (ki, k) in kinds.iter().enumerate() {
		for i in 0..n {
			let mut g = Gen::new(pools, seed, &[ki as u64, i as u64, 13]);
			let len = match g.rng.gen_range(0..6) {
				0 => g.rng.gen_range(0..8),
				1 | 2 => g.rng.gen_range(0..120),
				3 | 4 => g.rng.gen_range(0..1500),
				_ => g.rng.gen_range(0..66000),
			};
			let mut bytes = g.bytes(len);
			// some strings are low-entropy (many zero / small bytes make lengths and counts plausible)
			match g.rng.gen_range(0..3) {
				0 => for b in bytes.iter_mut() { *b &= 0x03; },
				1 => for b in bytes.iter_mut() { if g.rng.gen_bool(0.7) { *b = 0; } },
				_ => {},
			}
			let o = k.observe_raw(&bytes);
			out.emit(k.name(), "codec", "random", &m, &o, false, &bytes, json!({"i": i}));
		}
	}
	for i in 0..(n * 8) {
		let mut g = Gen::new(pools, seed, &[i as u64, 17]);
		let tid: u16 = if g.rng.gen_bool(0.8) { known_ids[g.rng.gen_range(0..known_ids.len())] } else { g.rng.gen() };
		let len = if g.rng.gen_bool(0.8) { g.rng.gen_range(0..400) } else { g.rng.gen_range(0..66000) };
		let mut full = if g.rng.gen_bool(0.05) { vec![] } else if g.rng.gen_bool(0.05) { vec![tid as u8] } else { tid.to_be_bytes().to_vec() };
		full.extend_from_slice(&g.bytes(len));
		let o = wire_obs(&full);
		out.emit("-", "wire", "random", &m, &o, false, &full, json!({"i": i, "type": tid}));
	}
}

fn arg(args: &[String], name: &str) -> Option<String> {
	args.iter().position(|a| a == name).and_then(|i| args.get(i + 1).cloned())
}

fn main() {
	std::panic::set_hook(Box::new(|info| {
		let msg = if let Some(s) = info.payload().downcast_ref::<&str>() {
			s.to_string()
		} else if let Some(s) = info.payload().downcast_ref::<String>() {
			s.clone()
		} else {
			"?".to_string()
		};
		let loc = info.location().map(|l| format!("{}:{}", l.file(), l.line())).unwrap_or_default();
		if std::env::var("WIRECODEC_PANICS").is_ok() {
			eprintln!("panic: {} @ {}", msg, loc);
		}
		LAST_PANIC.with(|p| *p.borrow_mut() = format!("{} @ {}", msg, loc));
	}));
	let args: Vec<String> = std::env::args().collect();
	let seed: u64 = arg(&args, "--seed").map(|s| s.parse().unwrap()).unwrap_or(1);
	let seeds: u64 = arg(&args, "--seeds").map(|s| s.parse().unwrap()).unwrap_or(1);
	let tlv3: usize = arg(&args, "--tlv3").map(|s| s.parse().unwrap()).unwrap_or(300);
	let trunc: usize = arg(&args, "--trunc").map(|s| s.parse().unwrap()).unwrap_or(200);
	let mutate: usize = arg(&args, "--mutate").map(|s| s.parse().unwrap()).unwrap_or(40);
	let random: usize = arg(&args, "--random").map(|s| s.parse().unwrap()).unwrap_or(60);
	let peer: usize = arg(&args, "--peer").map(|s| s.parse().unwrap()).unwrap_or(6);
	let only: Option<usize> = arg(&args, "--only").map(|s| s.parse().unwrap());
	let cases_path = arg(&args, "--cases").expect("--cases");
	let out_path = arg(&args, "--out").expect("--out");
	let detail_path = arg(&args, "--detail").expect("--detail");

	let raw_cases: Vec<Value> = std::fs::read_to_string(&cases_path)
		.expect("cases")
		.lines()
		.filter(|l| !l.trim().is_empty())
		.map(|l| serde_json::from_str::<Value>(l).unwrap())
		.collect();
	let cases: Vec<(usize, AMsg)> = raw_cases.iter().enumerate().map(|(i, v)| (i, AMsg::from_json(&v["m"]))).collect();
	let accepts: std::collections::HashSet<usize> =
		raw_cases.iter().enumerate().filter(|(_, v)| v["v"] == "accept").map(|(i, _)| i).collect();

	let pools = Rc::new(Pools::new(seed));
	let kinds = all_kinds();
	let mut out = Out {
		tw: TraceWriter::create(&out_path),
		dw: TraceWriter::create(&detail_path),
		run: 0,
		only,
		by_src: Default::default(),
		by_obs: Default::default(),
		panics: 0,
		skipped: 0,
		sz: (0, 1, 0),
		size_skipped: 0,
		peer_failures: 0,
	};
	let mut known_ids: Vec<u16> = Vec::new();
	let mut tlv_kinds_bound = 0usize;
	let mut kinds_built = 0usize;

	for (ki, k) in kinds.iter().enumerate() {
		// a panic that escapes the per-case guards (the library's encoder on a built value) is data too
		let r = catch_unwind(AssertUnwindSafe(|| {
		let mut ctxs: Vec<Ctx> = Vec::new();
		for s in 0..seeds {
			for var in 0..NV {
				let mut g = Gen::new(&pools, seed, &[ki as u64, s, var as u64, 1]);
				let info = json!({"seed": seed, "s": s, "var": var});
				match make_ctx(k.as_ref(), &mut g, var) {
					Err(e) => {
						// hand-made valid bytes (or a value builder) failed: a complete, clean message was refused
						let m = AMsg::base(k.tlv(), k.nk());
						let o = Obs { class: if e.starts_with("panic") { "panic" } else { "reject" }, err: e, eq: false, rt: false, consumed: 0, over: false, canon: false };
						out.emit(k.name(), "codec", "construct", &m, &o, false, &[], json!({"ctx": info}));
					},
					Ok(c) => {
						if s == 0 && var == 0 {
							kinds_built += 1;
							if k.wire() {
								known_ids.push(c.inst.type_id());
							}
							if k.tlv() && c.known.is_some() {
								tlv_kinds_bound += 1;
							}
						}
						fam_roundtrip(k.as_ref(), &c, &mut out, &info);
						fam_trunc(k.as_ref(), &c, &mut g, trunc, &mut out, &info);
						fam_fixedbad(k.as_ref(), &c, &mut g, &mut out, &info);
						fam_inner(k.as_ref(), &c, &mut g, &mut out, &info);
						fam_mutate(k.as_ref(), &c, &mut g, mutate, &mut out, &info);
						ctxs.push(c);
					},
				}
			}
		}
		fam_tlc(k.as_ref(), ki, &ctxs, &cases, &accepts, tlv3, seed, &pools, &mut out);
		// size classes: on the value with small fields everywhere else
		for (x, c) in ctxs.iter().filter(|c| c.var == 1).enumerate() {
			fam_size(k.as_ref(), ki, x, c, &cases, seed, &pools, &mut out);
		}
		}));
		if r.is_err() {
			let m = AMsg::base(k.tlv(), k.nk());
			let o = Obs { class: "panic", err: format!("encode panic: {}", LAST_PANIC.with(|p| p.borrow().clone())), eq: false, rt: false, consumed: 0, over: false, canon: false };
			out.sz = (0, 1, 0);
			out.emit(k.name(), "codec", "construct", &m, &o, false, &[], json!({"ctx": {"seed": seed}}));
		}
	}
	fam_size_typeid(&known_ids, &cases, seed, &pools, &mut out);
	fam_typeid(&kinds, &known_ids, &cases, 12, seed, &pools, &mut out);
	fam_random(&kinds, &known_ids, random, seed, &pools, &mut out);
	fam_peer(&kinds, &known_ids, peer, seed, &pools, &mut out);
	out.tw.flush();
	out.dw.flush();
	println!(
		"{}",
		json!({"cases": out.run, "kinds": kinds.len(), "kinds_built": kinds_built, "tlv_kinds": kinds.iter().filter(|k| k.tlv()).count(),
			"tlv_kinds_bound": tlv_kinds_bound, "wire_kinds": known_ids.len(), "by_src": out.by_src, "by_obs": out.by_obs,
			"panics": out.panics, "unconcretizable": out.skipped, "size_unconcretizable": out.size_skipped, "peer_failures": out.peer_failures,
			"tlc_cases": cases.len()})
	);
}


// ------------------------------------------------------------------------------------------
// peer level: a loop-back PeerManager pair; A injects a message of an arbitrary type

mod peer {
	use super::*;
	use lightning::ln::peer_handler::{CustomMessageHandler, ErroringMessageHandler, IgnoringMessageHandler, MessageHandler, PeerManager, SocketDescriptor};
	use lightning::ln::wire::CustomMessageReader;
	use lightning::sign::{KeysManager, NodeSigner, Recipient};
	use lightning::util::logger::{Logger, Record};
	use std::sync::{Arc, Mutex};

	#[derive(Debug, Clone)]
	pub struct Raw {
		pub tid: u16,
		pub payload: Vec<u8>,
	}
	impl Writeable for Raw {
		fn write<W: lightning::util::ser::Writer>(&self, w: &mut W) -> Result<(), io::Error> {
			w.write_all(&self.payload)
		}
	}
	impl Type for Raw {
		fn type_id(&self) -> u16 {
			self.tid
		}
	}
	pub struct Inject {
		pub queue: Mutex<Vec<(PublicKey, Raw)>>,
	}
	impl CustomMessageReader for Inject {
		type CustomMessage = Raw;
		fn read<R: LengthLimitedRead>(&self, _t: u16, _b: &mut R) -> Result<Option<Raw>, DecodeError> {
			Ok(None)
		}
	}
	impl CustomMessageHandler for Inject {
		fn handle_custom_message(&self, _m: Raw, _s: PublicKey) -> Result<(), LightningError> {
			Ok(())
		}
		fn get_and_clear_pending_msg(&self) -> Vec<(PublicKey, Raw)> {
			self.queue.lock().unwrap().drain(..).collect()
		}
		fn peer_disconnected(&self, _n: PublicKey) {}
		fn peer_connected(&self, _n: PublicKey, _m: &Init, _i: bool) -> Result<(), ()> {
			Ok(())
		}
		fn provided_node_features(&self) -> NodeFeatures {
			NodeFeatures::empty()
		}
		fn provided_init_features(&self, _n: PublicKey) -> InitFeatures {
			InitFeatures::empty()
		}
	}
	pub struct NoLog;
	impl Logger for NoLog {
		fn log(&self, _r: Record) {}
	}
	#[derive(Clone)]
	pub struct Sock {
		pub id: u16,
		pub out: Arc<Mutex<Vec<u8>>>,
		pub closed: Arc<Mutex<bool>>,
	}
	impl PartialEq for Sock {
		fn eq(&self, o: &Self) -> bool {
			self.id == o.id
		}
	}
	impl Eq for Sock {}
	impl std::hash::Hash for Sock {
		fn hash<H: std::hash::Hasher>(&self, h: &mut H) {
			self.id.hash(h)
		}
	}
	impl SocketDescriptor for Sock {
		fn send_data(&mut self, data: &[u8], _c: bool) -> usize {
			self.out.lock().unwrap().extend_from_slice(data);
			data.len()
		}
		fn disconnect_socket(&mut self) {
			*self.closed.lock().unwrap() = true;
		}
	}
	type PM<'a> = PeerManager<Sock, ErroringMessageHandler, IgnoringMessageHandler, IgnoringMessageHandler, &'a NoLog, &'a Inject, &'a KeysManager, IgnoringMessageHandler>;

	fn mk<'a>(inj: &'a Inject, km: &'a KeysManager, log: &'a NoLog, eph: u8) -> PM<'a> {
		PeerManager::new(
			MessageHandler {
				chan_handler: ErroringMessageHandler::new(),
				route_handler: IgnoringMessageHandler {},
				onion_message_handler: IgnoringMessageHandler {},
				custom_message_handler: inj,
				send_only_message_handler: IgnoringMessageHandler {},
			},
			0,
			&[eph; 32],
			log,
			km,
		)
	}

	/// Returns ("ignore" | "reject" | "panic", diagnostic)
	pub fn inject(tid: u16, payload: &[u8]) -> (&'static str, String) {
		let r = catch_unwind(AssertUnwindSafe(|| {
			let log = NoLog;
			let km_a = KeysManager::new(&[11; 32], 1, 1, true);
			let km_b = KeysManager::new(&[22; 32], 1, 1, true);
			let inj_a = Inject { queue: Mutex::new(vec![]) };
			let inj_b = Inject { queue: Mutex::new(vec![]) };
			let a = mk(&inj_a, &km_a, &log, 1);
			let b = mk(&inj_b, &km_b, &log, 2);
			let id_a = km_a.get_node_id(Recipient::Node).unwrap();
			let id_b = km_b.get_node_id(Recipient::Node).unwrap();
			let mut fa = Sock { id: 1, out: Default::default(), closed: Default::default() };
			let mut fb = Sock { id: 1, out: Default::default(), closed: Default::default() };
			let drain = |s: &Sock| -> Vec<u8> { s.out.lock().unwrap().split_off(0) };
			// noise handshake + init exchange
			let act1 = a.new_outbound_connection(id_b, fa.clone(), None).map_err(|_| "outbound")?;
			b.new_inbound_connection(fb.clone(), None).map_err(|_| "inbound")?;
			b.read_event(&mut fb, &act1).map_err(|_| "act1")?;
			b.process_events();
			let d = drain(&fb);
			a.read_event(&mut fa, &d).map_err(|_| "act2")?;
			a.process_events();
			let d = drain(&fa);
			b.read_event(&mut fb, &d).map_err(|_| "act3+init")?;
			b.process_events();
			let d = drain(&fb);
			a.read_event(&mut fa, &d).map_err(|_| "init")?;
			a.process_events();
			let _ = drain(&fa);
			if a.peer_by_node_id(&id_b).is_none() || b.peer_by_node_id(&id_a).is_none() {
				return Err("handshake incomplete");
			}
			// the message under test
			inj_a.queue.lock().unwrap().push((id_b, Raw { tid, payload: payload.to_vec() }));
			a.process_events();
			let d = drain(&fa);
			if d.is_empty() {
				return Err("nothing sent");
			}
			let r1 = b.read_event(&mut fb, &d);
			b.process_events();
			let _ = drain(&fb);
			if r1.is_err() || b.peer_by_node_id(&id_a).is_none() {
				return Ok(("reject", format!("disconnected (read_event err={})", r1.is_err())));
			}
			// still alive? a ping must be answered
			inj_a.queue.lock().unwrap().push((id_b, Raw { tid: 18, payload: vec![0, 4, 0, 0] }));
			a.process_events();
			let d = drain(&fa);
			let r2 = b.read_event(&mut fb, &d);
			b.process_events();
			let pong = drain(&fb);
			if r2.is_ok() && !pong.is_empty() && b.peer_by_node_id(&id_a).is_some() {
				Ok(("ignore", "connection kept, ping answered".to_string()))
			} else {
				Ok(("reject", "connection not usable afterwards".to_string()))
			}
		}));
		match r {
			Ok(Ok((c, d))) => (c, d),
			Ok(Err(e)) => ("tool", e.to_string()),
			Err(_) => ("panic", LAST_PANIC.with(|p| p.borrow().clone())),
		}
	}
}

/// message-type classes end to end: B must keep the connection on an unknown odd type and drop it
/// on an unknown even one
fn fam_peer(kinds: &[Box<dyn Kind>], known_ids: &[u16], n: usize, seed: u64, pools: &Rc<Pools>, out: &mut Out) {
	for (ci, class) in ["unknown_even", "unknown_odd", "custom_even", "custom_odd"].iter().enumerate() {
		for i in 0..n {
			let mut g = Gen::new(pools, seed, &[ci as u64, i as u64, 19]);
			let tid: u16 = loop {
				let base: u16 = if class.starts_with("custom") { g.rng.gen_range(32768..=65535) } else { g.rng.gen_range(0..32768) };
				let t = if class.ends_with("even") { base & !1 } else { base | 1 };
				if !known_ids.contains(&t) {
					break t;
				}
			};
			let payload = match i % 3 {
				0 => vec![],
				1 => { let n = g.rng.gen_range(1..200); g.bytes(n) },
				_ => {
					let k = &kinds[g.rng.gen_range(0..kinds.len())];
					match k.instantiate(&mut g, 1) { Ok(inst) => inst.enc(0), Err(_) => vec![] }
				},
			};
			let (class_obs, diag) = peer::inject(tid, &payload);
			if class_obs == "tool" {
				eprintln!("peer harness failure: {}", diag);
				out.peer_failures += 1;
				continue;
			}
			let mut m = AMsg::base(false, 0);
			m.tid = class.to_string();
			let o = Obs { class: class_obs, err: diag, eq: false, rt: false, consumed: 0, over: false, canon: false };
			let mut full = tid.to_be_bytes().to_vec();
			full.extend_from_slice(&payload);
			out.emit("-", "peer", "peer_typeid", &m, &o, false, &full, json!({"type": tid}));
		}
	}
}
