//! Engine `kvstore` (C19).
//!
//! mode `fs`  : drives the real `FilesystemStore` (v1) / `FilesystemStoreV2` through `KVStoreSync`
//!              in a scratch directory -- sequential scripts (from TLC) and seeded multi-threaded
//!              drivers -- and records call / return events (with a global atomic sequence taken
//!              at call and at return) for validation against spec/KVStore.tla.
//! mode `mup` : captures REAL monitor + ChannelMonitorUpdate histories from a 2-node network
//!              (lightning::ln::functional_test_utils), replays them into the real
//!              `MonitorUpdatingPersister` over a recording, fault-injecting in-memory store,
//!              and at every crash point (after every mutating store operation) x subset of
//!              landed lazy deletes runs the real `read_all_channel_monitors_with_updates` on a
//!              clone of the store; everything is recorded for validation against
//!              spec/MUPAbstract.tla.  The engine contains no oracle: it only records.
//!
//! mode `cm`  : the caller's side: a REAL `ChainMonitor` whose persister is the real
//!              `MonitorUpdatingPersister` over the same recording store is given a real monitor
//!              (watch_channel) and real `ChannelMonitorUpdate`s (update_channel) -- pre-close
//!              updates, ChannelForceClosed, payment preimages, in any order a script asks for,
//!              including pre-close updates after a block took the monitor on chain, which the
//!              monitor refuses --, block connections, deferred completions
//!              (channel_monitor_updated), clean-ups, archiving, crashes + restarts
//!              (load_existing_monitor of what the real recovery returned).  Recording and crash
//!              point recoveries as in mode `mup`.
//!
//! usage: kvstore --mode fs  --out TRACE --dir SCRATCH [--scripts FILE] [--random N] [--seed S] [--ops K]
//!        kvstore --mode mup --out TRACE [--scripts FILE] [--histories H] [--random N] [--seed S]

use bitcoin::hashes::{sha256, Hash};
use bitcoin::{Block, Transaction};
use lightning::chain::chainmonitor::Persist;
use lightning::chain::channelmonitor::{ChannelMonitor, ChannelMonitorUpdate};
use lightning::chain::{BlockLocator, ChannelMonitorUpdateStatus};
use lightning::io;
use lightning::ln::functional_test_utils::*;
use lightning::util::persist::{
	KVStore,
	KVStoreSync, MonitorName, MonitorUpdatingPersister,
	CHANNEL_MONITOR_PERSISTENCE_PRIMARY_NAMESPACE, CHANNEL_MONITOR_PERSISTENCE_SECONDARY_NAMESPACE,
	CHANNEL_MONITOR_UPDATE_PERSISTENCE_PRIMARY_NAMESPACE, KVSTORE_NAMESPACE_KEY_MAX_LEN,
	MONITOR_UPDATING_PERSISTER_PREPEND_SENTINEL,
};
use lightning::util::ser::{ReadableArgs, Writeable};
use lightning::util::test_channel_signer::TestChannelSigner;
use lightning::util::test_utils::{
	TestBroadcaster, TestChainMonitor, TestFeeEstimator, TestKeysInterface,
};
use lightning_persister::fs_store::v1::FilesystemStore;
use lightning_persister::fs_store::v2::FilesystemStoreV2;
use rand::rngs::StdRng;
use rand::seq::SliceRandom;
use rand::{Rng, SeedableRng};
use serde_json::{json, Value};
use std::collections::{BTreeMap, BTreeSet, HashMap};
use std::panic::{catch_unwind, AssertUnwindSafe};
use std::future::Future;
use std::path::PathBuf;
use std::pin::Pin;
use std::sync::atomic::{AtomicU64, Ordering};
use std::sync::{Arc, Barrier, Mutex};
use vharness::trace::TraceWriter;

// ------------------------------------------------------------------------------------------------
// args

struct Args {
	mode: String,
	out: String,
	dir: String,
	scripts: Option<String>,
	random: usize,
	histories: usize,
	seed: u64,
	ops: usize,
	summary: Option<String>,
	async_random: usize,
}

fn parse_args() -> Args {
	let mut a = Args {
		mode: "fs".into(),
		out: "trace.ndjson".into(),
		dir: "/verif/work/C19/fs".into(),
		scripts: None,
		random: 0,
		histories: 2,
		seed: 1,
		ops: 40,
		summary: None,
		async_random: 0,
	};
	let v: Vec<String> = std::env::args().collect();
	let mut i = 1;
	while i < v.len() {
		let nxt = || v.get(i + 1).cloned().unwrap_or_default();
		match v[i].as_str() {
			"--mode" => a.mode = nxt(),
			"--out" => a.out = nxt(),
			"--dir" => a.dir = nxt(),
			"--scripts" => a.scripts = Some(nxt()),
			"--random" => a.random = nxt().parse().unwrap(),
			"--histories" => a.histories = nxt().parse().unwrap(),
			"--seed" => a.seed = nxt().parse().unwrap(),
			"--ops" => a.ops = nxt().parse().unwrap(),
			"--summary" => a.summary = Some(nxt()),
			"--async-random" => a.async_random = nxt().parse().unwrap(),
			x => panic!("unknown argument {}", x),
		}
		i += 2;
	}
	a
}

fn put_summary(a: &Args, v: Value) {
	if let Some(p) = &a.summary {
		std::fs::write(p, v.to_string()).expect("summary");
	}
	println!("{}", v);
}

fn read_scripts(path: &Option<String>) -> Vec<Value> {
	match path {
		None => Vec::new(),
		Some(p) => std::fs::read_to_string(p)
			.expect("scripts file")
			.lines()
			.filter(|l| !l.trim().is_empty())
			.map(|l| serde_json::from_str(l).expect("script json"))
			.collect(),
	}
}

// ================================================================================================
// part (a): FilesystemStore / FilesystemStoreV2
// ================================================================================================

#[derive(Clone)]
struct KeySpec {
	pns: String,
	sns: String,
	key: String,
	ns: usize, // 1-based namespace index
}

/// Key layouts: <= 4 keys, including empty namespaces and maximum-length names.
fn layout(n: usize) -> (Vec<KeySpec>, Vec<(String, String)>) {
	let m = |c: char| -> String { std::iter::repeat(c).take(KVSTORE_NAMESPACE_KEY_MAX_LEN).collect() };
	let (nss, keys): (Vec<(String, String)>, Vec<(usize, String)>) = match n % 4 {
		// all-empty namespace, a primary-only namespace and a full namespace
		0 => (
			vec![("".into(), "".into()), ("p".into(), "".into()), ("p".into(), "s".into())],
			vec![(1, "a".into()), (1, m('z')), (2, "a".into()), (3, "a".into())],
		),
		// one namespace shared by all keys (as the monitor namespace is)
		1 => (
			vec![("monitors".into(), "".into())],
			vec![(1, "k1".into()), (1, "k2".into()), (1, m('K')), (1, "0".into())],
		),
		// maximum-length namespaces and keys
		2 => (
			vec![(m('P'), m('S')), (m('P'), "".into()), ("".into(), "".into())],
			vec![(1, m('k')), (1, "b".into()), (2, m('c')), (3, "d-_9".into())],
		),
		// two keys per namespace, numeric keys as the update files use
		_ => (
			vec![("monitor_updates".into(), m('a')), ("monitor_updates".into(), "b".into())],
			vec![(1, "1".into()), (1, "2".into()), (2, "1".into()), (2, "18446744073709551615".into())],
		),
	};
	let ks = keys
		.into_iter()
		.map(|(ns, key)| KeySpec { pns: nss[ns - 1].0.clone(), sns: nss[ns - 1].1.clone(), key, ns })
		.collect();
	(ks, nss)
}

/// Distinguishable values: value `id` (>= 1) has a length and content determined by `id`, so any
/// partial or mixed content decodes to -1.
fn value_len(id: u32, big: bool) -> usize {
	let m = if big { 300_000 } else { 96 };
	8 + ((id as u64).wrapping_mul(2654435761) % m) as usize
}
fn value_bytes(id: u32, big: bool) -> Vec<u8> {
	let len = value_len(id, big);
	let pat = id.to_le_bytes();
	(0..len).map(|i| if i < 4 { pat[i] } else { pat[i % 4].wrapping_add((i / 4) as u8) }).collect()
}
fn decode_value(b: &[u8], big: bool) -> i64 {
	if b.len() < 8 {
		return -1;
	}
	let id = u32::from_le_bytes([b[0], b[1], b[2], b[3]]);
	if id == 0 || id > 1_000_000 {
		return -1;
	}
	if value_bytes(id, big) == b {
		id as i64
	} else {
		-1
	}
}

#[derive(Clone, Debug)]
enum FsOp {
	Write(usize, u32),
	Read(usize),
	Remove(usize, bool),
	List(usize),
}

struct FsEv {
	g: u64,
	v: Value,
}

fn exec_fs_op(
	store: &dyn KVStoreSync, keys: &[KeySpec], nss: &[(String, String)], op: &FsOp, big: bool,
	t: usize, ts: usize, gseq: &AtomicU64, out: &mut Vec<FsEv>,
) {
	let (name, k, v, lazy) = match op {
		FsOp::Write(k, v) => ("write", *k, *v as i64, false),
		FsOp::Read(k) => ("read", *k, 0, false),
		FsOp::Remove(k, l) => ("remove", *k, 0, *l),
		FsOp::List(n) => ("list", *n, 0, false),
	};
	let g0 = gseq.fetch_add(1, Ordering::SeqCst);
	out.push(FsEv { g: g0, v: json!({"ev":"call","t":t,"ts":ts,"op":name,"k":k,"v":v,"lazy":lazy,"tk":0,"g":g0}) });
	let r = catch_unwind(AssertUnwindSafe(|| -> (i64, Vec<i64>) {
		match op {
			FsOp::Write(k, v) => {
				let ks = &keys[*k - 1];
				match store.write(&ks.pns, &ks.sns, &ks.key, value_bytes(*v, big)) {
					Ok(()) => (0, vec![]),
					Err(_) => (-2, vec![]),
				}
			},
			FsOp::Read(k) => {
				let ks = &keys[*k - 1];
				match store.read(&ks.pns, &ks.sns, &ks.key) {
					Ok(b) => (decode_value(&b, big), vec![]),
					Err(e) if e.kind() == io::ErrorKind::NotFound => (0, vec![]),
					Err(_) => (-2, vec![]),
				}
			},
			FsOp::Remove(k, lazy) => {
				let ks = &keys[*k - 1];
				match store.remove(&ks.pns, &ks.sns, &ks.key, *lazy) {
					Ok(()) => (0, vec![]),
					Err(_) => (-2, vec![]),
				}
			},
			FsOp::List(n) => {
				// namespace 0 = a namespace nothing was ever written to
				let unknown = ("unknown_ns".to_string(), "".to_string());
				let (p, s) = if *n == 0 { &unknown } else { &nss[*n - 1] };
				match store.list(p, s) {
					Ok(names) => {
						let mut idx: Vec<i64> = names
							.iter()
							.map(|nm| {
								keys.iter()
									.position(|ks| ks.ns == *n && &ks.key == nm)
									.map(|i| i as i64 + 1)
									.unwrap_or(-1)
							})
							.collect();
						idx.sort();
						(0, idx)
					},
					Err(_) => (-2, vec![]),
				}
			},
		}
	}));
	let g1 = gseq.fetch_add(1, Ordering::SeqCst);
	match r {
		Ok((res, ks)) => out.push(FsEv {
			g: g1,
			v: json!({"ev":"ret","t":t,"ts":ts,"op":name,"k":k,"res":res,"keys":ks,"g":g1}),
		}),
		Err(_) => out.push(FsEv { g: g1, v: json!({"ev":"panic","t":t,"ts":ts,"g":g1}) }),
	}
}

fn open_store(kind: &str, dir: &PathBuf) -> Arc<dyn KVStoreSync + Send + Sync> {
	let _ = std::fs::remove_dir_all(dir);
	if kind == "v1" {
		Arc::new(FilesystemStore::new(dir.clone()))
	} else {
		Arc::new(FilesystemStoreV2::new(dir.clone()).expect("v2 store"))
	}
}

fn parse_fs_op(o: &Value) -> FsOp {
	let k = o["k"].as_u64().unwrap_or(1) as usize;
	match o["op"].as_str().unwrap() {
		"write" => FsOp::Write(k, o["v"].as_u64().unwrap() as u32),
		"read" => FsOp::Read(k),
		"remove" => FsOp::Remove(k, o["lazy"].as_bool().unwrap_or(false)),
		"list" => FsOp::List(k),
		x => panic!("bad op {}", x),
	}
}

fn emit_fs_run(
	tw: &mut TraceWriter, run: usize, kind: &str, lay: usize, threads: usize, big: bool,
	keys: &[KeySpec], mut evs: Vec<FsEv>,
) {
	emit_fs_run_mode(tw, run, kind, lay, threads, big, keys, &mut evs, "sync")
}

fn emit_fs_run_mode(
	tw: &mut TraceWriter, run: usize, kind: &str, lay: usize, threads: usize, big: bool,
	keys: &[KeySpec], evs: &mut Vec<FsEv>, mode: &str,
) {
	let mut evs = std::mem::take(evs);
	evs.sort_by_key(|e| e.g);
	let ns: Vec<usize> = keys.iter().map(|k| k.ns).collect();
	tw.emit(json!({"run":run,"ev":"reset","store":kind,"layout":lay,"threads":threads,"big":big,
		"nk":keys.len(),"ns":ns,"mode":mode}));
	for e in evs {
		let mut v = e.v;
		v["run"] = json!(run);
		tw.emit(v);
	}
}


// ---- the asynchronous KVStore API: operations are ISSUED (the call that creates the future) in
// ---- one order and their futures are driven in another

const ASYNC_SLOTS: usize = 6;
type OpFut = Pin<Box<dyn Future<Output = (i64, Vec<i64>)> + Send>>;

fn issue_async<S: KVStore>(store: &S, keys: &[KeySpec], nss: &[(String, String)], op: &FsOp, big: bool) -> OpFut {
	match op {
		FsOp::Write(k, v) => {
			let ks = &keys[*k - 1];
			let f = KVStore::write(store, &ks.pns, &ks.sns, &ks.key, value_bytes(*v, big));
			Box::pin(async move {
				match f.await {
					Ok(()) => (0, vec![]),
					Err(_) => (-2, vec![]),
				}
			})
		},
		FsOp::Read(k) => {
			let ks = &keys[*k - 1];
			let f = KVStore::read(store, &ks.pns, &ks.sns, &ks.key);
			Box::pin(async move {
				match f.await {
					Ok(b) => (decode_value(&b, big), vec![]),
					Err(e) if e.kind() == io::ErrorKind::NotFound => (0, vec![]),
					Err(_) => (-2, vec![]),
				}
			})
		},
		FsOp::Remove(k, lazy) => {
			let ks = &keys[*k - 1];
			let f = KVStore::remove(store, &ks.pns, &ks.sns, &ks.key, *lazy);
			Box::pin(async move {
				match f.await {
					Ok(()) => (0, vec![]),
					Err(_) => (-2, vec![]),
				}
			})
		},
		FsOp::List(n) => {
			let unknown = ("unknown_ns".to_string(), "".to_string());
			let (p, s) = if *n == 0 { &unknown } else { &nss[*n - 1] };
			let f = KVStore::list(store, p, s);
			let keys: Vec<KeySpec> = keys.to_vec();
			let n = *n;
			Box::pin(async move {
				match f.await {
					Ok(names) => {
						let mut idx: Vec<i64> = names
							.iter()
							.map(|nm| {
								keys.iter()
									.position(|ks| ks.ns == n && &ks.key == nm)
									.map(|i| i as i64 + 1)
									.unwrap_or(-1)
							})
							.collect();
						idx.sort();
						(0, idx)
					},
					Err(_) => (-2, vec![]),
				}
			})
		},
	}
}

struct Issued {
	slot: usize,
	name: &'static str,
	k: usize,
	fut: Option<OpFut>,
}

/// One asynchronous run: `plan` is a list of steps, Issue(op) or Drive(indices of issued
/// operations, concurrently?).  Every issue gets the next ticket `tk` (the issue order).
enum AStep {
	Issue(FsOp),
	Drive(Vec<usize>, bool), // indices into the issue list (0-based); true = spawn all, then join
}

fn run_async<S: KVStore + Send + Sync + 'static>(
	rt: &tokio::runtime::Runtime, store: Arc<S>, keys: &[KeySpec], nss: &[(String, String)], plan: &[AStep],
	big: bool, evs: &mut Vec<FsEv>,
) -> usize {
	let gseq = Arc::new(AtomicU64::new(1));
	let mut issued: Vec<Issued> = Vec::new();
	let mut busy = [false; ASYNC_SLOTS + 1];
	let mut nops = 0;
	for step in plan {
		match step {
			AStep::Issue(op) => {
				let slot = match (1..=ASYNC_SLOTS).find(|s| !busy[*s]) {
					Some(s) => s,
					None => continue,
				};
				busy[slot] = true;
				nops += 1;
				let (name, k, v, lazy) = match op {
					FsOp::Write(k, v) => ("write", *k, *v as i64, false),
					FsOp::Read(k) => ("read", *k, 0, false),
					FsOp::Remove(k, l) => ("remove", *k, 0, *l),
					FsOp::List(n) => ("list", *n, 0, false),
				};
				let tk = issued.len() + 1;
				let g0 = gseq.fetch_add(1, Ordering::SeqCst);
				evs.push(FsEv { g: g0, v: json!({"ev":"call","t":slot,"ts":tk,"op":name,"k":k,"v":v,"lazy":lazy,"tk":tk,"g":g0}) });
				let fut = match catch_unwind(AssertUnwindSafe(|| issue_async(&*store, keys, nss, op, big))) {
					Ok(f) => Some(f),
					Err(_) => {
						let g = gseq.fetch_add(1, Ordering::SeqCst);
						evs.push(FsEv { g, v: json!({"ev":"panic","t":slot,"ts":tk,"g":g}) });
						None
					},
				};
				issued.push(Issued { slot, name, k, fut });
			},
			AStep::Drive(idx, concurrent) => {
				let mut handles = Vec::new();
				for i in idx {
					if *i >= issued.len() {
						continue;
					}
					let fut = match issued[*i].fut.take() {
						Some(f) => f,
						None => continue,
					};
					let gs = Arc::clone(&gseq);
					let wrapped = async move {
						let r = fut.await;
						let g = gs.fetch_add(1, Ordering::SeqCst);
						(r, g)
					};
					if *concurrent {
						handles.push((*i, rt.spawn(wrapped)));
					} else {
						let r = catch_unwind(AssertUnwindSafe(|| rt.block_on(wrapped)));
						finish_async(&mut issued[*i], *i + 1, r.ok(), &gseq, evs);
						busy[issued[*i].slot] = false;
					}
				}
				for (i, h) in handles {
					let r = catch_unwind(AssertUnwindSafe(|| rt.block_on(h)));
					let r = match r {
						Ok(Ok(x)) => Some(x),
						_ => None,
					};
					finish_async(&mut issued[i], i + 1, r, &gseq, evs);
					busy[issued[i].slot] = false;
				}
			},
		}
	}
	nops
}

fn finish_async(
	is: &mut Issued, tk: usize, r: Option<((i64, Vec<i64>), u64)>, gseq: &AtomicU64, evs: &mut Vec<FsEv>,
) {
	match r {
		Some(((res, ks), g)) => evs.push(FsEv {
			g,
			v: json!({"ev":"ret","t":is.slot,"ts":tk,"op":is.name,"k":is.k,"res":res,"keys":ks,"g":g}),
		}),
		None => {
			let g = gseq.fetch_add(1, Ordering::SeqCst);
			evs.push(FsEv { g, v: json!({"ev":"panic","t":is.slot,"ts":tk,"g":g}) });
		},
	}
}

fn run_async_on(
	rt: &tokio::runtime::Runtime, kind: &str, dir: &PathBuf, keys: &[KeySpec], nss: &[(String, String)],
	plan: &[AStep], big: bool, evs: &mut Vec<FsEv>,
) -> usize {
	let _ = std::fs::remove_dir_all(dir);
	if kind == "v1" {
		run_async(rt, Arc::new(FilesystemStore::new(dir.clone())), keys, nss, plan, big, evs)
	} else {
		run_async(rt, Arc::new(FilesystemStoreV2::new(dir.clone()).expect("v2 store")), keys, nss, plan, big, evs)
	}
}

/// plan of a TLC script: {"op":"await","k":i} drives the operation issued by ops[i-1]
fn async_plan_of_script(s: &Value, nkeys: usize, nns: usize) -> Option<Vec<AStep>> {
	let ops = s["ops"].as_array().unwrap();
	let mut issue_no: HashMap<usize, usize> = HashMap::new(); // position in ops -> index of issue
	let mut plan = Vec::new();
	let mut n = 0usize;
	for (i, o) in ops.iter().enumerate() {
		if o["op"] == "await" {
			let pos = o["k"].as_u64().unwrap() as usize - 1;
			plan.push(AStep::Drive(vec![*issue_no.get(&pos)?], false));
		} else {
			let op = parse_fs_op(o);
			let valid = match &op {
				FsOp::List(x) => *x <= nns,
				FsOp::Write(k, _) | FsOp::Read(k) | FsOp::Remove(k, _) => *k >= 1 && *k <= nkeys,
			};
			if !valid {
				return None;
			}
			issue_no.insert(i, n);
			n += 1;
			plan.push(AStep::Issue(op));
		}
	}
	Some(plan)
}

/// seeded plan: batches of operations (mostly on one hot key) issued in one order and driven in
/// reverse / permuted order, one by one or all at once
fn random_async_plan(rng: &mut StdRng, nkeys: usize, nns: usize, hot: usize, hot_ns: usize, batches: usize) -> Vec<AStep> {
	let mut plan = Vec::new();
	let mut issued = 0usize;
	let mut v = 1u32;
	for _ in 0..batches {
		let n = rng.gen_range(2..=5);
		let first = issued;
		for _ in 0..n {
			let k = if rng.gen_bool(0.75) { hot } else { rng.gen_range(1..=nkeys) };
			let op = match rng.gen_range(0..100) {
				0..=44 => {
					v += 1;
					FsOp::Write(k, v)
				},
				45..=64 => FsOp::Remove(k, rng.gen_bool(0.5)),
				65..=84 => FsOp::Read(k),
				_ => FsOp::List(if rng.gen_bool(0.7) { hot_ns } else { rng.gen_range(0..=nns) }),
			};
			plan.push(AStep::Issue(op));
			issued += 1;
		}
		let mut order: Vec<usize> = (first..issued).collect();
		match rng.gen_range(0..4) {
			0 => order.reverse(),
			1 => order.shuffle(rng),
			2 => {
				order.reverse();
				plan.push(AStep::Drive(order.clone(), true));
				order.clear();
			},
			_ => {
				order.shuffle(rng);
				plan.push(AStep::Drive(order.clone(), true));
				order.clear();
			},
		}
		for i in order {
			plan.push(AStep::Drive(vec![i], false));
		}
		// look at the result of the batch
		plan.push(AStep::Issue(FsOp::Read(hot)));
		plan.push(AStep::Drive(vec![issued], false));
		issued += 1;
		plan.push(AStep::Issue(FsOp::List(hot_ns)));
		plan.push(AStep::Drive(vec![issued], false));
		issued += 1;
	}
	plan
}

fn fs_main(a: &Args) {
	let mut tw = TraceWriter::create(&a.out);
	let scripts = read_scripts(&a.scripts);
	let mut run = 0usize;
	let mut nops = 0usize;
	let mut npanics = 0usize;
	let mut concurrent_runs = 0usize;
	let base = PathBuf::from(&a.dir);
	let _ = std::fs::create_dir_all(&base);

	let rt = tokio::runtime::Builder::new_multi_thread().worker_threads(4).build().expect("tokio runtime");
	let mut async_runs = 0usize;
	let mut async_ops = 0usize;

	// ---- sequential scripts (each on both store versions)
	for (si, s) in scripts.iter().enumerate() {
		if s["async"] == json!(true) {
			continue;
		}
		for kind in ["v1", "v2"] {
			run += 1;
			let lay = s["layout"].as_u64().map(|x| x as usize).unwrap_or(si % 4);
			let (keys, nss) = layout(lay);
			let dir = base.join(format!("s{}", run));
			let store = open_store(kind, &dir);
			let gseq = AtomicU64::new(1);
			let mut evs = Vec::new();
			for (i, o) in s["ops"].as_array().unwrap().iter().enumerate() {
				let op = parse_fs_op(o);
				let valid = match &op {
					FsOp::List(n) => *n <= nss.len(),
					FsOp::Write(k, _) | FsOp::Read(k) | FsOp::Remove(k, _) => *k >= 1 && *k <= keys.len(),
				};
				if !valid {
					eprintln!("script {} does not fit layout {}", si, lay);
					std::process::exit(3);
				}
				exec_fs_op(&*store, &keys, &nss, &op, false, 1, i + 1, &gseq, &mut evs);
				nops += 1;
			}
			npanics += evs.iter().filter(|e| e.v["ev"] == "panic").count();
			emit_fs_run(&mut tw, run, kind, lay, 1, false, &keys, evs);
			drop(store);
			let _ = std::fs::remove_dir_all(&dir);
		}
	}

	// ---- asynchronous scripts (issue order / drive order from TLC), each on both store versions
	for (si, s) in scripts.iter().enumerate() {
		if s["async"] != json!(true) {
			continue;
		}
		for kind in ["v1", "v2"] {
			run += 1;
			async_runs += 1;
			let lay = s["layout"].as_u64().map(|x| x as usize).unwrap_or(si % 4);
			let (keys, nss) = layout(lay);
			let plan = match async_plan_of_script(s, keys.len(), nss.len()) {
				Some(p) => p,
				None => {
					eprintln!("async script {} does not fit layout {}", si, lay);
					std::process::exit(3);
				},
			};
			let dir = base.join(format!("a{}", run));
			let mut evs = Vec::new();
			async_ops += run_async_on(&rt, kind, &dir, &keys, &nss, &plan, false, &mut evs);
			npanics += evs.iter().filter(|e| e.v["ev"] == "panic").count();
			emit_fs_run_mode(&mut tw, run, kind, lay, ASYNC_SLOTS, false, &keys, &mut evs, "async");
			let _ = std::fs::remove_dir_all(&dir);
		}
	}

	// ---- seeded asynchronous runs
	let mut arng = StdRng::seed_from_u64(a.seed ^ 0xA51C);
	for ri in 0..a.async_random {
		run += 1;
		async_runs += 1;
		let kind = if ri % 2 == 0 { "v1" } else { "v2" };
		let lay = (ri / 2) % 4;
		let (keys, nss) = layout(lay);
		let hot = arng.gen_range(1..=keys.len());
		let plan = random_async_plan(&mut arng, keys.len(), nss.len(), hot, keys[hot - 1].ns, 6);
		let big = ri % 4 >= 2;
		let dir = base.join(format!("ar{}", run));
		let mut evs = Vec::new();
		async_ops += run_async_on(&rt, kind, &dir, &keys, &nss, &plan, big, &mut evs);
		npanics += evs.iter().filter(|e| e.v["ev"] == "panic").count();
		emit_fs_run_mode(&mut tw, run, kind, lay, ASYNC_SLOTS, big, &keys, &mut evs, "async");
		let _ = std::fs::remove_dir_all(&dir);
	}
	nops += async_ops;

	// ---- seeded multi-threaded drivers
	let mut rng = StdRng::seed_from_u64(a.seed ^ 0xC19);
	for ri in 0..a.random {
		run += 1;
		concurrent_runs += 1;
		let kind = if ri % 2 == 0 { "v1" } else { "v2" };
		let lay = (ri / 2) % 4;
		let (keys, nss) = layout(lay);
		let threads = 2 + (ri % 3);
		let big = ri % 4 >= 2;
		let dir = base.join(format!("r{}", run));
		let store = open_store(kind, &dir);
		let gseq = Arc::new(AtomicU64::new(1));
		let vctr = Arc::new(AtomicU64::new(1));
		let barrier = Arc::new(Barrier::new(threads));
		let hot = rng.gen_range(1..=keys.len());
		let nkeys = keys.len();
		let nns = nss.len();
		let mut handles = Vec::new();
		for t in 1..=threads {
			let store = Arc::clone(&store);
			let gseq = Arc::clone(&gseq);
			let vctr = Arc::clone(&vctr);
			let barrier = Arc::clone(&barrier);
			let keys = keys.clone();
			let nss = nss.clone();
			let tseed: u64 = rng.gen();
			let ops = a.ops;
			handles.push(std::thread::spawn(move || {
				let mut rng = StdRng::seed_from_u64(tseed);
				let mut evs = Vec::new();
				barrier.wait();
				for i in 0..ops {
					let k = if rng.gen_bool(0.6) { hot } else { rng.gen_range(1..=nkeys) };
					let op = match rng.gen_range(0..100) {
						0..=39 => FsOp::Write(k, vctr.fetch_add(1, Ordering::SeqCst) as u32),
						40..=69 => FsOp::Read(k),
						70..=84 => FsOp::Remove(k, rng.gen_bool(0.5)),
						_ => FsOp::List(if rng.gen_bool(0.6) { keys[hot - 1].ns } else { rng.gen_range(0..=nns) }),
					};
					exec_fs_op(&*store, &keys, &nss, &op, big, t, i + 1, &gseq, &mut evs);
					if evs.last().map(|e| e.v["ev"] == "panic").unwrap_or(false) {
						break;
					}
				}
				evs
			}));
		}
		let mut evs = Vec::new();
		for h in handles {
			match h.join() {
				Ok(e) => evs.extend(e),
				Err(_) => {
					let g = gseq.fetch_add(1, Ordering::SeqCst);
					evs.push(FsEv { g, v: json!({"ev":"panic","t":0,"ts":0,"g":g}) });
				},
			}
		}
		// quiescent check: read every key, list every namespace
		let mut ts = a.ops + 1;
		for k in 1..=nkeys {
			exec_fs_op(&*store, &keys, &nss, &FsOp::Read(k), big, 1, ts, &gseq, &mut evs);
			ts += 1;
		}
		for n in 1..=nns {
			exec_fs_op(&*store, &keys, &nss, &FsOp::List(n), big, 1, ts, &gseq, &mut evs);
			ts += 1;
		}
		nops += evs.iter().filter(|e| e.v["ev"] == "call").count();
		npanics += evs.iter().filter(|e| e.v["ev"] == "panic").count();
		emit_fs_run(&mut tw, run, kind, lay, threads, big, &keys, evs);
		drop(store);
		let _ = std::fs::remove_dir_all(&dir);
	}
	tw.flush();
	let _ = std::fs::remove_dir_all(&base);
	put_summary(
		a,
		json!({"runs":run,"ops":nops,"panics":npanics,"concurrent_runs":concurrent_runs,
			"script_runs":run-concurrent_runs-async_runs,"async_runs":async_runs,"async_ops":async_ops,
			"events":tw.lines})
	);
}

// ================================================================================================
// part (b): MonitorUpdatingPersister over a recording, fault-injecting store
// ================================================================================================

type Key = (String, String, String);

#[derive(Clone, Copy, PartialEq, Debug)]
enum Fault {
	NoEffect, // the operation fails and has no effect
	Applied,  // the operation takes effect but reports failure
}

#[derive(Clone)]
struct StoreState {
	base: BTreeMap<Key, Arc<Vec<u8>>>, // durable contents, lazily removed keys still included
	pending: BTreeSet<Key>,            // lazily removed, not known to have landed
	/// mode `cm`: the in-memory monitor as it was handed to the persister, per update id, as of
	/// this point of the run (what a recovery here is compared with)
	snaps: Arc<BTreeMap<u64, Arc<Vec<u8>>>>,
}

impl StoreState {
	fn live_get(&self, k: &Key) -> Option<&Arc<Vec<u8>>> {
		if self.pending.contains(k) {
			None
		} else {
			self.base.get(k)
		}
	}
}

enum Item {
	Ev(Value),
	/// a mutating store operation: event + the durable state after it
	Mut(Value, StoreState),
}

struct RecInner {
	st: StoreState,
	nmut: usize,
	nread: usize,
	faults: HashMap<usize, Fault>,
	read_faults: BTreeSet<usize>,
	dead_after: Option<usize>,
	dead: bool,
	items: Vec<Item>,
	list_rng: StdRng,
	ids: Ids,
}

/// content identification (by hash of the bytes): which captured snapshot / update is this?
#[derive(Clone, Default)]
struct Ids {
	mon: HashMap<[u8; 32], (usize, u64)>, // -> (snapshot index, update id)
	upd: HashMap<[u8; 32], u64>,
	mon_key: String,
	keys: Option<&'static TestKeysInterface>,
}

fn h256(b: &[u8]) -> [u8; 32] {
	sha256::Hash::hash(b).to_byte_array()
}

struct RecStore {
	inner: Mutex<RecInner>,
}

impl RecStore {
	fn new(ids: Ids, seed: u64) -> RecStore {
		RecStore {
			inner: Mutex::new(RecInner {
				st: StoreState {
					base: BTreeMap::new(),
					pending: BTreeSet::new(),
					snaps: Arc::new(BTreeMap::new()),
				},
				nmut: 0,
				nread: 0,
				faults: HashMap::new(),
				read_faults: BTreeSet::new(),
				dead_after: None,
				dead: false,
				items: Vec::new(),
				list_rng: StdRng::seed_from_u64(seed),
				ids,
			}),
		}
	}
	fn push(&self, v: Value) {
		self.inner.lock().unwrap().items.push(Item::Ev(v));
	}
	/// classify a key: ("mon"|"upd"|"other", update-key-number)
	fn classify(ids: &Ids, k: &Key) -> (&'static str, i64) {
		if k.0 == CHANNEL_MONITOR_PERSISTENCE_PRIMARY_NAMESPACE
			&& k.1 == CHANNEL_MONITOR_PERSISTENCE_SECONDARY_NAMESPACE
			&& k.2 == ids.mon_key
		{
			("mon", 0)
		} else if k.0 == CHANNEL_MONITOR_UPDATE_PERSISTENCE_PRIMARY_NAMESPACE && k.1 == ids.mon_key {
			match k.2.parse::<u64>() {
				Ok(n) if n < 1_000_000 => ("upd", n as i64),
				_ => ("other", -1),
			}
		} else {
			("other", -1)
		}
	}
	fn content_id(ids: &Ids, class: &str, buf: &[u8]) -> (i64, i64) {
		// -> (content update id, snapshot index) ; -1 = unknown bytes
		match class {
			"mon" => {
				let body = if buf.starts_with(MONITOR_UPDATING_PERSISTER_PREPEND_SENTINEL) {
					&buf[MONITOR_UPDATING_PERSISTER_PREPEND_SENTINEL.len()..]
				} else {
					buf
				};
				// monitors do not serialise byte-identically (hash map order): the content id is
				// the update id of the monitor the bytes decode to
				match ids.mon.get(&h256(body)) {
					Some((idx, id)) => (*id as i64, *idx as i64),
					None => match ids.keys.and_then(|k| catch_unwind(AssertUnwindSafe(|| read_mon(body, k))).ok().flatten()) {
						Some(m) => (m.get_latest_update_id() as i64, -1),
						None => (-1, -1),
					},
				}
			},
			"upd" => match ids.upd.get(&h256(buf)) {
				Some(id) => (*id as i64, -1),
				None => match catch_unwind(AssertUnwindSafe(|| {
					<ChannelMonitorUpdate as lightning::util::ser::Readable>::read(&mut &buf[..]).ok()
				}))
				.ok()
				.flatten()
				{
					Some(u) if u.update_id < 1_000_000 => (u.update_id as i64, -1),
					_ => (-1, -1),
				},
			},
			_ => (-1, -1),
		}
	}
}

fn io_err() -> io::Error {
	io::Error::new(io::ErrorKind::Other, "injected failure")
}

impl KVStoreSync for RecStore {
	fn read(&self, p: &str, s: &str, k: &str) -> Result<Vec<u8>, io::Error> {
		let mut g = self.inner.lock().unwrap();
		if g.dead {
			return Err(io_err());
		}
		g.nread += 1;
		let n = g.nread;
		let key = (p.to_string(), s.to_string(), k.to_string());
		let (class, kn) = RecStore::classify(&g.ids, &key);
		if g.read_faults.contains(&n) {
			g.items.push(Item::Ev(json!({"ev":"sq","op":"read","class":class,"k":kn,"ok":false})));
			return Err(io_err());
		}
		let r = g.st.live_get(&key).map(|b| (**b).clone());
		g.items.push(Item::Ev(json!({"ev":"sq","op":"read","class":class,"k":kn,"ok":true})));
		r.ok_or_else(|| io::Error::new(io::ErrorKind::NotFound, "not found"))
	}
	fn write(&self, p: &str, s: &str, k: &str, buf: Vec<u8>) -> Result<(), io::Error> {
		let mut g = self.inner.lock().unwrap();
		if g.dead {
			return Err(io_err());
		}
		g.nmut += 1;
		let n = g.nmut;
		let key = (p.to_string(), s.to_string(), k.to_string());
		let (class, kn) = RecStore::classify(&g.ids, &key);
		let (cid, snap) = RecStore::content_id(&g.ids, class, &buf);
		let fault = g.faults.get(&n).copied();
		let applied = fault != Some(Fault::NoEffect);
		if applied {
			g.st.base.insert(key.clone(), Arc::new(buf));
			g.st.pending.remove(&key);
		}
		let ev = json!({"ev":"sop","op":"write","class":class,"k":kn,"cid":cid,"snap":snap,
			"lazy":false,"ok":fault.is_none(),"applied":applied,"n":n});
		let st = g.st.clone();
		g.items.push(Item::Mut(ev, st));
		if g.dead_after == Some(n) {
			g.dead = true;
		}
		if fault.is_some() {
			Err(io_err())
		} else {
			Ok(())
		}
	}
	fn remove(&self, p: &str, s: &str, k: &str, lazy: bool) -> Result<(), io::Error> {
		let mut g = self.inner.lock().unwrap();
		if g.dead {
			return Err(io_err());
		}
		g.nmut += 1;
		let n = g.nmut;
		let key = (p.to_string(), s.to_string(), k.to_string());
		let (class, kn) = RecStore::classify(&g.ids, &key);
		let fault = g.faults.get(&n).copied();
		let applied = fault != Some(Fault::NoEffect);
		if applied {
			if lazy {
				if g.st.base.contains_key(&key) {
					g.st.pending.insert(key.clone());
				}
			} else {
				g.st.base.remove(&key);
				g.st.pending.remove(&key);
			}
		}
		let ev = json!({"ev":"sop","op":"remove","class":class,"k":kn,"cid":-1,"snap":-1,
			"lazy":lazy,"ok":fault.is_none(),"applied":applied,"n":n});
		let st = g.st.clone();
		g.items.push(Item::Mut(ev, st));
		if g.dead_after == Some(n) {
			g.dead = true;
		}
		if fault.is_some() {
			Err(io_err())
		} else {
			Ok(())
		}
	}
	fn list(&self, p: &str, s: &str) -> Result<Vec<String>, io::Error> {
		let mut g = self.inner.lock().unwrap();
		if g.dead {
			return Err(io_err());
		}
		g.nread += 1;
		let n = g.nread;
		if g.read_faults.contains(&n) {
			g.items.push(Item::Ev(json!({"ev":"sq","op":"list","class":p,"k":-1,"ok":false})));
			return Err(io_err());
		}
		let mut r: Vec<String> = g
			.st
			.base
			.keys()
			.filter(|k| k.0 == p && k.1 == s && !g.st.pending.contains(*k))
			.map(|k| k.2.clone())
			.collect();
		// a KVStore returns keys in arbitrary order
		let mut lr = g.list_rng.clone();
		r.shuffle(&mut lr);
		g.list_rng = lr;
		g.items.push(Item::Ev(json!({"ev":"sq","op":"list","class":p,"k":r.len(),"ok":true})));
		Ok(r)
	}
}

/// plain store used for the recovery at a crash point (optionally failing its n-th read/list)
struct CrashStore {
	map: BTreeMap<Key, Arc<Vec<u8>>>,
	fail_at: Option<usize>,
	nread: Mutex<usize>,
	rng: Mutex<StdRng>,
}

impl KVStoreSync for CrashStore {
	fn read(&self, p: &str, s: &str, k: &str) -> Result<Vec<u8>, io::Error> {
		let mut n = self.nread.lock().unwrap();
		*n += 1;
		if self.fail_at == Some(*n) {
			return Err(io_err());
		}
		self.map
			.get(&(p.to_string(), s.to_string(), k.to_string()))
			.map(|b| (**b).clone())
			.ok_or_else(|| io::Error::new(io::ErrorKind::NotFound, "not found"))
	}
	fn write(&self, _: &str, _: &str, _: &str, _: Vec<u8>) -> Result<(), io::Error> {
		Err(io_err())
	}
	fn remove(&self, _: &str, _: &str, _: &str, _: bool) -> Result<(), io::Error> {
		Err(io_err())
	}
	fn list(&self, p: &str, s: &str) -> Result<Vec<String>, io::Error> {
		let mut n = self.nread.lock().unwrap();
		*n += 1;
		if self.fail_at == Some(*n) {
			return Err(io_err());
		}
		let mut r: Vec<String> =
			self.map.keys().filter(|k| k.0 == p && k.1 == s).map(|k| k.2.clone()).collect();
		r.shuffle(&mut *self.rng.lock().unwrap());
		Ok(r)
	}
}

// ---- capture of a real history

#[derive(Clone, Copy, PartialEq, Debug)]
enum CapKind {
	New,
	Upd,
	Full,
}

#[derive(Clone)]
struct Cap {
	kind: CapKind,
	name: MonitorName,
	upd: Option<Vec<u8>>,
	upd_id: u64,
	mon: Vec<u8>,
	mon_id: u64,
}

struct Capture {
	calls: Mutex<Vec<Cap>>,
}

impl Persist<TestChannelSigner> for Capture {
	fn persist_new_channel(
		&self, name: MonitorName, monitor: &ChannelMonitor<TestChannelSigner>,
	) -> ChannelMonitorUpdateStatus {
		self.calls.lock().unwrap().push(Cap {
			kind: CapKind::New,
			name,
			upd: None,
			upd_id: monitor.get_latest_update_id(),
			mon: monitor.encode(),
			mon_id: monitor.get_latest_update_id(),
		});
		ChannelMonitorUpdateStatus::Completed
	}
	fn update_persisted_channel(
		&self, name: MonitorName, update: Option<&ChannelMonitorUpdate>,
		monitor: &ChannelMonitor<TestChannelSigner>,
	) -> ChannelMonitorUpdateStatus {
		self.calls.lock().unwrap().push(Cap {
			kind: if update.is_some() { CapKind::Upd } else { CapKind::Full },
			name,
			upd: update.map(|u| u.encode()),
			upd_id: update.map(|u| u.update_id).unwrap_or(monitor.get_latest_update_id()),
			mon: monitor.encode(),
			mon_id: monitor.get_latest_update_id(),
		});
		ChannelMonitorUpdateStatus::Completed
	}
	fn archive_persisted_channel(&self, _name: MonitorName) {}
}

/// The persister under test and the recovered monitors log into the void (TestLogger prints).
struct QuietLogger;
impl lightning::util::logger::Logger for QuietLogger {
	fn log(&self, _record: lightning::util::logger::Record) {}
}
static QUIET: QuietLogger = QuietLogger;

struct History {
	caps: Vec<Cap>,
	keys: &'static TestKeysInterface,
	broadcaster: &'static TestBroadcaster,
	fee: &'static TestFeeEstimator,
	blocks: Vec<(Block, u32)>,
	ids: Ids,
	/// per update id: index of the last captured snapshot with that id
	last_snap: HashMap<u64, usize>,
	hid: usize,
	node: usize,
	desc: Vec<String>,
}

fn gen_histories(seed: u64, hid: usize) -> Vec<History> {
	let mut rng = StdRng::seed_from_u64(seed.wrapping_mul(1_000_003).wrapping_add(hid as u64));
	let chanmon_cfgs: &'static Vec<TestChanMonCfg> = Box::leak(Box::new(create_chanmon_cfgs(2)));
	let caps: &'static Vec<Capture> = Box::leak(Box::new(vec![
		Capture { calls: Mutex::new(Vec::new()) },
		Capture { calls: Mutex::new(Vec::new()) },
	]));
	let mut node_cfgs = create_node_cfgs(2, chanmon_cfgs);
	for i in 0..2 {
		node_cfgs[i].chain_monitor = TestChainMonitor::new(
			Some(&chanmon_cfgs[i].chain_source),
			&chanmon_cfgs[i].tx_broadcaster,
			&chanmon_cfgs[i].logger,
			&chanmon_cfgs[i].fee_estimator,
			&caps[i],
			&chanmon_cfgs[i].keys_manager,
		);
	}
	let node_cfgs: &'static Vec<NodeCfg<'static>> = Box::leak(Box::new(node_cfgs));
	let chanmgrs = Box::leak(Box::new(create_node_chanmgrs(2, node_cfgs, &[None, None])));
	let nodes = Box::leak(Box::new(create_network(2, node_cfgs, chanmgrs)));
	for n in nodes.iter() {
		*n.connect_style.borrow_mut() = ConnectStyle::FullBlockViaListen;
	}
	let desc: Mutex<Vec<String>> = Mutex::new(Vec::new());
	// a panic of the test utilities half-way still leaves a valid (shorter) captured history
	let _ = catch_unwind(AssertUnwindSafe(|| {
		let chan = create_announced_chan_between_nodes_with_value(nodes, 0, 1, 1_000_000, 400_000_000);
		let nact = rng.gen_range(2..6);
		// A ChannelForceClosed update schedules claims relative to the height it is applied at; a
		// recovered monitor applies it at the stored monitor's (older) tip and is connected to the
		// newer blocks afterwards, which leaves different claim bookkeeping than in memory.  So a
		// history either connects blocks or ends in a force-close, not both.
		let with_blocks = rng.gen_bool(0.6);
		send_payment(&nodes[0], &[&nodes[1]], 2_000_000);
		desc.lock().unwrap().push("pay0>1:2000000".into());
		let mut held: Vec<(usize, lightning::types::payment::PaymentPreimage, lightning::types::payment::PaymentHash)> = Vec::new();
		for _ in 0..nact {
			match rng.gen_range(0..12) {
				0..=2 => {
					let amt = rng.gen_range(1_000_000..5_000_000);
					send_payment(&nodes[0], &[&nodes[1]], amt);
					desc.lock().unwrap().push(format!("pay0>1:{}", amt));
				},
				3..=4 => {
					let amt = rng.gen_range(1_000_000..3_000_000);
					send_payment(&nodes[1], &[&nodes[0]], amt);
					desc.lock().unwrap().push(format!("pay1>0:{}", amt));
				},
				5..=6 => {
					let from = rng.gen_range(0..2);
					let amt = rng.gen_range(1_000_000..2_000_000);
					let (pre, hash, _, _) = route_payment(&nodes[from], &[&nodes[1 - from]], amt);
					held.push((from, pre, hash));
					desc.lock().unwrap().push(format!("route{}:{}", from, amt));
				},
				7 => {
					if let Some((from, pre, hash)) = held.pop() {
						if rng.gen_bool(0.5) {
							claim_payment(&nodes[from], &[&nodes[1 - from]], pre);
							desc.lock().unwrap().push("claim".into());
						} else {
							fail_payment(&nodes[from], &[&nodes[1 - from]], hash);
							desc.lock().unwrap().push("fail".into());
						}
					}
				},
				_ if !with_blocks => {},
				_ => {
					let n = rng.gen_range(1..7);
					connect_blocks(&nodes[0], n);
					connect_blocks(&nodes[1], n);
					desc.lock().unwrap().push(format!("blocks:{}", n));
				},
			}
		}
		if !with_blocks {
			let peer = nodes[1].node.get_our_node_id();
			let _ = nodes[0].node.force_close_broadcasting_latest_txn(&chan.2, &peer, "verif".to_owned());
			desc.lock().unwrap().push("force_close0".into());
		}
	}));
	let desc = desc.lock().map(|d| d.clone()).unwrap_or_default();
	let mut res = Vec::new();
	for i in 0..2 {
		let c = match caps[i].calls.lock() {
			Ok(c) => c.clone(),
			Err(e) => e.into_inner().clone(),
		};
		if c.is_empty() {
			continue;
		}
		let mut ids = Ids::default();
		let mut last_snap = HashMap::new();
		for (j, cap) in c.iter().enumerate() {
			ids.mon.insert(h256(&cap.mon), (j, cap.mon_id));
			if let Some(u) = &cap.upd {
				ids.upd.insert(h256(u), cap.upd_id);
			}
			last_snap.insert(cap.mon_id, j);
		}
		ids.mon_key = c[0].name.to_string();
		ids.keys = Some(&chanmon_cfgs[i].keys_manager);
		res.push(History {
			caps: c,
			keys: &chanmon_cfgs[i].keys_manager,
			broadcaster: &chanmon_cfgs[i].tx_broadcaster,
			fee: &chanmon_cfgs[i].fee_estimator,
			blocks: nodes[i].blocks.lock().unwrap().clone(),
			ids,
			last_snap,
			hid,
			node: i,
			desc: desc.clone(),
		});
	}
	res
}

fn read_mon(bytes: &[u8], keys: &TestKeysInterface) -> Option<ChannelMonitor<TestChannelSigner>> {
	let mut c = io::Cursor::new(bytes);
	<(BlockLocator, ChannelMonitor<TestChannelSigner>)>::read(&mut c, (keys, keys)).ok().map(|x| x.1)
}

type Mup<'a> = MonitorUpdatingPersister<
	&'a dyn KVStoreSync,
	&'a QuietLogger,
	&'a TestKeysInterface,
	&'a TestKeysInterface,
	&'a TestBroadcaster,
	&'a TestFeeEstimator,
>;

fn mk_mup<'a>(h: &'a History, store: &'a dyn KVStoreSync, maxp: u64) -> Mup<'a> {
	MonitorUpdatingPersister::new(store, &QUIET, maxp, h.keys, h.keys, h.broadcaster, h.fee)
}

/// Brings `mon` to the tip `height` by connecting the blocks the node itself connected.
fn advance(h: &History, mon: &ChannelMonitor<TestChannelSigner>, height: u32) {
	let mut cur = mon.current_best_block().height;
	while cur < height {
		let (b, ht) = match h.blocks.iter().find(|(_, x)| *x == cur + 1) {
			Some(x) => x,
			None => return,
		};
		let txdata: Vec<(usize, &Transaction)> = b.txdata.iter().enumerate().collect();
		mon.block_connected(&b.header, &txdata, *ht, h.broadcaster, h.fee, &QUIET);
		cur += 1;
	}
}

struct RecoverStats {
	recoveries: usize,
	panics: usize,
}

/// Runs the real recovery on `map`; returns the `rec` event body.
fn recover(
	h: &History, map: &BTreeMap<Key, Arc<Vec<u8>>>, maxp: u64, fail_at: Option<usize>, seed: u64,
	snaps: &mut HashMap<usize, ChannelMonitor<TestChannelSigner>>, stats: &mut RecoverStats,
) -> Value {
	stats.recoveries += 1;
	let cs = CrashStore {
		map: map.clone(),
		fail_at,
		nread: Mutex::new(0),
		rng: Mutex::new(StdRng::seed_from_u64(seed)),
	};
	let r = catch_unwind(AssertUnwindSafe(|| {
		let p = mk_mup(h, &cs, maxp);
		p.read_all_channel_monitors_with_updates()
	}));
	let rf = fail_at.map(|n| *cs.nread.lock().unwrap() >= n).unwrap_or(false);
	match r {
		Err(_) => {
			stats.panics += 1;
			json!({"kind":"panic","rid":-1,"eq":false,"rf":rf,"n":0})
		},
		Ok(Err(_)) => json!({"kind":"err","rid":-1,"eq":false,"rf":rf,"n":0}),
		Ok(Ok(v)) if v.is_empty() => json!({"kind":"none","rid":-1,"eq":false,"rf":rf,"n":0}),
		Ok(Ok(v)) => {
			let n = v.len();
			let mon = &v[0].1;
			let rid = mon.get_latest_update_id();
			// library `==` against the in-memory monitor recorded at that update id, both at the
			// same chain tip
			let eq = match h.last_snap.get(&rid) {
				None => false,
				Some(idx) => {
					if !snaps.contains_key(idx) {
						if let Some(m) = read_mon(&h.caps[*idx].mon, h.keys) {
							snaps.insert(*idx, m);
						}
					}
					match snaps.get(idx) {
						None => false,
						Some(target) => {
							let r2 = catch_unwind(AssertUnwindSafe(|| {
								let th = target.current_best_block().height;
								advance(h, mon, th);
								mon == target
							}));
							r2.unwrap_or(false)
						},
					}
				},
			};
			json!({"kind":"ok","rid":rid,"eq":eq,"rf":rf,"n":n})
		},
	}
}

fn subsets(pending: &[Key], cap: usize, rng: &mut StdRng) -> Vec<Vec<bool>> {
	let n = pending.len();
	if n <= 20 && (1usize << n) <= cap {
		(0..(1usize << n)).map(|m| (0..n).map(|i| m >> i & 1 == 1).collect()).collect()
	} else {
		let mut v: Vec<Vec<bool>> = vec![vec![false; n], vec![true; n]];
		for i in 0..n {
			let mut one = vec![false; n];
			one[i] = true;
			v.push(one);
			let mut allbut = vec![true; n];
			allbut[i] = false;
			v.push(allbut);
		}
		while v.len() < cap {
			v.push((0..n).map(|_| rng.gen_bool(0.5)).collect());
		}
		v
	}
}

#[derive(Clone, Debug)]
enum MOp {
	Upd,                 // next captured update call (script mode) / next captured call (history mode)
	Sync,                // chain-sync style full write of the current in-memory monitor
	Cleanup(bool),       // cleanup_stale_updates(lazy)
	Crash(usize, usize), // the NEXT call dies after its k-th mutating store op (0 = crash now); landing bitmask
}

struct MupRun {
	maxp: u64,
	ops: Vec<MOp>,
	faults: HashMap<usize, Fault>,
	read_faults: BTreeSet<usize>,
	follow_history: bool, // Upd = next captured call of any kind (New/Upd/Full as captured)
	rec_fail: bool,       // additionally run recoveries with one failing read
	label: Value,
}

fn status_str(s: ChannelMonitorUpdateStatus) -> &'static str {
	match s {
		ChannelMonitorUpdateStatus::Completed => "completed",
		ChannelMonitorUpdateStatus::InProgress => "inprogress",
		ChannelMonitorUpdateStatus::UnrecoverableError => "error",
	}
}

fn land_ids(ids: &Ids, pending: &[Key], mask: &[bool]) -> (Vec<i64>, bool) {
	// -> update-key numbers landed, whether the monitor key itself landed
	let mut ks = Vec::new();
	let mut mon = false;
	for (i, k) in pending.iter().enumerate() {
		if mask[i] {
			let (class, kn) = RecStore::classify(ids, k);
			match class {
				"upd" => ks.push(kn),
				"mon" => mon = true,
				_ => {},
			}
		}
	}
	(ks, mon)
}

fn run_mup(
	h: &History, run: usize, r: &MupRun, seed: u64, tw: &mut TraceWriter,
	snaps: &mut HashMap<usize, ChannelMonitor<TestChannelSigner>>, stats: &mut RecoverStats,
	mons: &mut HashMap<usize, ChannelMonitor<TestChannelSigner>>,
) -> usize {
	let mut rng = StdRng::seed_from_u64(seed);
	let store = RecStore::new(h.ids.clone(), seed ^ 0x55);
	{
		let mut g = store.inner.lock().unwrap();
		g.faults = r.faults.clone();
		g.read_faults = r.read_faults.clone();
	}
	// the captured calls this run feeds: script mode uses New + Upd only
	let feed: Vec<usize> = (0..h.caps.len())
		.filter(|i| r.follow_history || h.caps[*i].kind != CapKind::Full)
		.collect();
	let mut pos = 0usize; // next index into feed
	let mut cur_id: Option<u64> = None; // in-memory monitor's update id
	let mut pending_crash: Option<(usize, usize)> = None;
	let mut halted = false;
	let mut calls = 0usize;

	let body = catch_unwind(AssertUnwindSafe(|| {
		let mut persister = mk_mup(h, &store, r.maxp);
		let mut oi = 0usize;
		let todo: Vec<MOp> = r.ops.clone();
		while oi < todo.len() {
			let op = todo[oi].clone();
			oi += 1;
			if halted && !matches!(op, MOp::Crash(_, _)) {
				break;
			}
			// arm a pending mid-call crash
			if let Some((k, _)) = pending_crash {
				if k > 0 {
					let mut g = store.inner.lock().unwrap();
					g.dead_after = Some(g.nmut + k);
				}
			}
			match op {
				MOp::Crash(k, mask) => {
					if k == 0 || halted {
						do_crash(h, &store, mask, r.maxp, &mut cur_id, &mut rng);
						halted = false;
						drop(persister);
						persister = mk_mup(h, &store, r.maxp);
						pending_crash = None;
						pos = match cur_id {
							Some(id) => feed
								.iter()
								.position(|ci| h.caps[*ci].kind == CapKind::Upd && h.caps[*ci].upd_id == id + 1)
								.unwrap_or(feed.len()),
							None => 0,
						};
					} else {
						pending_crash = Some((k, mask));
					}
					continue;
				},
				MOp::Upd => {
					if pos >= feed.len() {
						break;
					}
					// after a crash the history continues from the recovered monitor's id
					let ci = feed[pos];
					pos += 1;
					let cap = &h.caps[ci];
					if !mons.contains_key(&ci) {
						match read_mon(&cap.mon, h.keys) {
							Some(m) => {
								mons.insert(ci, m);
							},
							None => break,
						}
					}
					let mon = &mons[&ci];
					calls += 1;
					let kind = match cap.kind {
						CapKind::New => "new",
						CapKind::Upd => "upd",
						CapKind::Full => "full",
					};
					store.push(json!({"ev":"call","kind":kind,"id":cap.upd_id,"lazy":false}));
					let st = match cap.kind {
						CapKind::New => Persist::<TestChannelSigner>::persist_new_channel(&persister, cap.name, mon),
						CapKind::Upd => {
							let upd = <ChannelMonitorUpdate as lightning::util::ser::Readable>::read(
								&mut &cap.upd.as_ref().unwrap()[..],
							)
							.unwrap();
							Persist::<TestChannelSigner>::update_persisted_channel(&persister, cap.name, Some(&upd), mon)
						},
						CapKind::Full => Persist::<TestChannelSigner>::update_persisted_channel(&persister, cap.name, None, mon),
					};
					cur_id = Some(cap.mon_id);
					if !store.inner.lock().unwrap().dead {
						store.push(json!({"ev":"ret","kind":kind,"id":cap.upd_id,"status":status_str(st)}));
						if st != ChannelMonitorUpdateStatus::Completed {
							halted = true;
						}
					}
				},
				MOp::Sync => {
					let id = match cur_id {
						Some(x) => x,
						None => continue,
					};
					let ci = h.last_snap[&id];
					let cap = &h.caps[ci];
					if !mons.contains_key(&ci) {
						match read_mon(&cap.mon, h.keys) {
							Some(m) => {
								mons.insert(ci, m);
							},
							None => break,
						}
					}
					let mon = &mons[&ci];
					calls += 1;
					store.push(json!({"ev":"call","kind":"full","id":id,"lazy":false}));
					let st = Persist::<TestChannelSigner>::update_persisted_channel(&persister, cap.name, None, mon);
					if !store.inner.lock().unwrap().dead {
						store.push(json!({"ev":"ret","kind":"full","id":id,"status":status_str(st)}));
						if st != ChannelMonitorUpdateStatus::Completed {
							halted = true;
						}
					}
				},
				MOp::Cleanup(lazy) => {
					calls += 1;
					store.push(json!({"ev":"call","kind":"cleanup","id":0,"lazy":lazy}));
					let res = persister.cleanup_stale_updates(lazy);
					if !store.inner.lock().unwrap().dead {
						store.push(json!({"ev":"ret","kind":"cleanup","id":0,
							"status": if res.is_ok() {"completed"} else {"error"}}));
					}
				},
			}
			// a mid-call crash fired (or did not because the call had fewer store operations)
			if let Some((_, mask)) = pending_crash {
				let dead = store.inner.lock().unwrap().dead;
				store.inner.lock().unwrap().dead_after = None;
				if dead {
					do_crash(h, &store, mask, r.maxp, &mut cur_id, &mut rng);
					halted = false;
					drop(persister);
					persister = mk_mup(h, &store, r.maxp);
					// the history continues after the recovered monitor's id
					if let Some(id) = cur_id {
						pos = feed
							.iter()
							.position(|ci| h.caps[*ci].kind == CapKind::Upd && h.caps[*ci].upd_id == id + 1)
							.unwrap_or(feed.len());
					} else {
						pos = 0;
					}
				}
				pending_crash = None;
			}
		}
	}));
	let paniced = body.is_err();

	// ---- emit: events in order; after every mutating store operation the crash-point recoveries
	let items = std::mem::take(&mut store.inner.lock().unwrap().items);
	tw.emit(json!({"run":run,"ev":"reset","maxp":r.maxp,"hist":h.hid,"node":h.node,
		"nsnap":h.caps.len(),"label":r.label}));
	// crash before anything was written
	let empty = BTreeMap::new();
	let mut v = recover(h, &empty, r.maxp, None, seed, snaps, stats);
	v["run"] = json!(run);
	v["ev"] = json!("rec");
	v["land"] = json!([]);
	v["landmon"] = json!(false);
	tw.emit(v);
	for it in items {
		match it {
			Item::Ev(mut v) => {
				v["run"] = json!(run);
				tw.emit(v);
			},
			Item::Mut(mut v, st) => {
				v["run"] = json!(run);
				tw.emit(v);
				let pend: Vec<Key> = st.pending.iter().cloned().collect();
				for (si, mask) in subsets(&pend, 32, &mut rng).iter().enumerate() {
					let mut map = st.base.clone();
					for (i, k) in pend.iter().enumerate() {
						if mask[i] {
							map.remove(k);
						}
					}
					let (land, landmon) = land_ids(&h.ids, &pend, mask);
					let mut v = recover(h, &map, r.maxp, None, seed ^ si as u64, snaps, stats);
					v["run"] = json!(run);
					v["ev"] = json!("rec");
					v["land"] = json!(land);
					v["landmon"] = json!(landmon);
					tw.emit(v);
					if r.rec_fail && si == 0 {
						// the same recovery with its n-th store read failing
						for fa in 1..=4usize {
							let mut v = recover(h, &map, r.maxp, Some(fa), seed, snaps, stats);
							if v["rf"] == json!(false) {
								break;
							}
							v["run"] = json!(run);
							v["ev"] = json!("rec");
							v["land"] = json!(land);
							v["landmon"] = json!(landmon);
							tw.emit(v);
						}
					}
				}
			},
		}
	}
	if paniced {
		tw.emit(json!({"run":run,"ev":"panic"}));
	}
	calls
}

/// crash-and-continue: un-landed lazy deletes are lost, a new persister recovers from the store
fn do_crash(
	h: &History, store: &RecStore, mask: usize, maxp: u64, cur_id: &mut Option<u64>, _rng: &mut StdRng,
) {
	let (land, landmon) = {
		let mut g = store.inner.lock().unwrap();
		let pend: Vec<Key> = g.st.pending.iter().cloned().collect();
		let m: Vec<bool> = (0..pend.len()).map(|i| mask >> (i % 16) & 1 == 1).collect();
		for (i, k) in pend.iter().enumerate() {
			if m[i] {
				g.st.base.remove(k);
			}
		}
		g.st.pending.clear();
		g.dead = false;
		g.dead_after = None;
		let ids = g.ids.clone();
		land_ids(&ids, &pend, &m)
	};
	let st = store.inner.lock().unwrap().st.clone();
	store.inner.lock().unwrap().items.push(Item::Mut(
		json!({"ev":"crash","land":land,"landmon":landmon}),
		st,
	));
	// the restarted node reads its monitor back with the real recovery
	let p = mk_mup(h, store, maxp);
	let r = catch_unwind(AssertUnwindSafe(|| p.read_all_channel_monitors_with_updates()));
	let rid: i64 = match r {
		Ok(Ok(v)) if !v.is_empty() => v[0].1.get_latest_update_id() as i64,
		_ => -1,
	};
	store.push(json!({"ev":"restart","rid":rid}));
	*cur_id = if rid >= 0 { Some(rid as u64) } else { None };
}

fn parse_mup_script(s: &Value) -> MupRun {
	let mut ops = Vec::new();
	for o in s["ops"].as_array().unwrap() {
		match o["op"].as_str().unwrap() {
			"new" | "upd" => ops.push(MOp::Upd),
			"sync" => ops.push(MOp::Sync),
			"cleanup" => ops.push(MOp::Cleanup(o["lazy"].as_bool().unwrap_or(true))),
			"crash" => ops.push(MOp::Crash(
				o["after"].as_u64().unwrap_or(0) as usize,
				o["land"].as_u64().unwrap_or(0) as usize,
			)),
			_ => {},
		}
	}
	let mut faults = HashMap::new();
	if let Some(fs) = s["faults"].as_array() {
		for f in fs {
			let mode = if f["mode"] == "applied" { Fault::Applied } else { Fault::NoEffect };
			faults.insert(f["n"].as_u64().unwrap() as usize, mode);
		}
	}
	MupRun {
		maxp: s["maxp"].as_u64().unwrap(),
		ops,
		faults,
		read_faults: BTreeSet::new(),
		follow_history: false,
		rec_fail: false,
		label: json!({"script": s}),
	}
}

fn mup_main(a: &Args) {
	// the functional test utilities print every block connection to stderr
	let mut tw = TraceWriter::create(&a.out);
	let scripts = read_scripts(&a.scripts);
	let mut hists: Vec<History> = Vec::new();
	let mut gen_fail = 0usize;
	for hid in 0..a.histories {
		match catch_unwind(AssertUnwindSafe(|| gen_histories(a.seed, hid))) {
			Ok(hs) => hists.extend(hs),
			Err(_) => gen_fail += 1,
		}
	}
	if hists.is_empty() {
		eprintln!("no history could be generated");
		std::process::exit(3);
	}
	let mut stats = RecoverStats { recoveries: 0, panics: 0 };
	let mut run = 0usize;
	let mut calls = 0usize;
	let mut rng = StdRng::seed_from_u64(a.seed ^ 0xC19C19);
	let mut snaps: Vec<HashMap<usize, ChannelMonitor<TestChannelSigner>>> =
		hists.iter().map(|_| HashMap::new()).collect();
	let mut mons: Vec<HashMap<usize, ChannelMonitor<TestChannelSigner>>> =
		hists.iter().map(|_| HashMap::new()).collect();
	let mut hist_info = Vec::new();
	for h in &hists {
		let nupd = h.caps.iter().filter(|c| c.kind == CapKind::Upd).count();
		let nfull = h.caps.iter().filter(|c| c.kind == CapKind::Full).count();
		hist_info.push(json!({"hist":h.hid,"node":h.node,"calls":h.caps.len(),"updates":nupd,
			"chain_sync_writes":nfull,"actions":h.desc}));
	}

	// ---- scripts derived from the TLC model
	for (si, s) in scripts.iter().enumerate() {
		run += 1;
		let hi = si % hists.len();
		let r = parse_mup_script(s);
		calls += run_mup(&hists[hi], run, &r, a.seed ^ run as u64, &mut tw, &mut snaps[hi], &mut stats, &mut mons[hi]);
	}

	// ---- the captured histories as they happened, for many maximum_pending_updates, with seeded
	//      clean-ups, crashes and store failures in between
	let maxps: [u64; 8] = [0, 1, 2, 3, 4, 5, 7, 11];
	for ri in 0..a.random {
		run += 1;
		let hi = ri % hists.len();
		let h = &hists[hi];
		let maxp = maxps[(ri / hists.len()) % maxps.len()];
		let variant = ri / (hists.len() * maxps.len());
		let mut ops = Vec::new();
		let mut faults = HashMap::new();
		let ncalls = h.caps.len();
		let p_cleanup = if variant == 0 { 0.0 } else { 0.15 };
		let p_sync = if variant == 0 { 0.0 } else { 0.15 };
		let p_crash = if variant == 0 { 0.0 } else { 0.12 };
		for _ in 0..ncalls {
			if rng.gen_bool(p_crash) {
				ops.push(MOp::Crash(rng.gen_range(0..4), rng.gen_range(0..65536)));
			}
			ops.push(MOp::Upd);
			if rng.gen_bool(p_sync) {
				ops.push(MOp::Sync);
			}
			if rng.gen_bool(p_cleanup) {
				ops.push(MOp::Cleanup(rng.gen_bool(0.5)));
			}
		}
		ops.push(MOp::Cleanup(true));
		if variant >= 2 && rng.gen_bool(0.7) {
			// one failing store operation somewhere
			let n = rng.gen_range(1..(2 * ncalls + 2));
			faults.insert(n, if rng.gen_bool(0.5) { Fault::NoEffect } else { Fault::Applied });
			// a crash right after it lets the run continue
		}
		let label = json!({"random_index": ri, "maxp": maxp, "variant": variant,
			"ops": format!("{:?}", ops), "faults": format!("{:?}", faults)});
		let r = MupRun {
			maxp,
			ops,
			faults,
			read_faults: BTreeSet::new(),
			follow_history: true,
			rec_fail: variant == 1,
			label,
		};
		calls += run_mup(h, run, &r, a.seed ^ (run as u64) << 8, &mut tw, &mut snaps[hi], &mut stats, &mut mons[hi]);
	}
	tw.flush();
	put_summary(
		a,
		json!({"runs":run,"persister_calls":calls,"recoveries":stats.recoveries,
			"recovery_panics":stats.panics,"histories":hist_info,"history_failures":gen_fail,
			"events":tw.lines,"script_runs":scripts.len()})
	);
	// nodes created by create_network check for pending messages on drop; everything is leaked and
	// the trace is flushed, so end the process here
	std::process::exit(0);
}

// ================================================================================================
// part (c): the caller's side -- a real ChainMonitor driving the real MonitorUpdatingPersister
// ================================================================================================

/// What a 2-node network gave us for node 0's channel: a monitor with an outbound HTLC pending
/// (so that a block far enough ahead takes it on chain), the pre-close updates that followed it,
/// a ChannelForceClosed update and a post-close payment preimage update.
struct CmHist {
	keys: &'static TestKeysInterface,
	fee: &'static TestFeeEstimator,
	chan_id: lightning::ln::types::ChannelId,
	name: MonitorName,
	base_mon: Vec<u8>,
	base_id: u64,
	pre: Vec<Vec<u8>>,
	fc: Option<Vec<u8>>,
	pp: Option<Vec<u8>>,
	hid: usize,
	desc: Vec<String>,
}

fn upd_kind(u: &ChannelMonitorUpdate) -> &'static str {
	use lightning::verif::monitor::{steps, StepView};
	let st = steps(u);
	if st.len() == 1 {
		match st[0] {
			StepView::ChannelForceClosed { .. } => return "fc",
			StepView::PaymentPreimage { .. } => return "pp",
			StepView::ReleasePaymentComplete => return "other",
			_ => {},
		}
	}
	if st.iter().any(|x| {
		matches!(
			x,
			StepView::HolderCommitment { .. }
				| StepView::CounterpartyCommitment { .. }
				| StepView::CommitmentSecret { .. }
		)
	}) {
		"pre"
	} else {
		"other"
	}
}

fn read_upd(b: &[u8]) -> ChannelMonitorUpdate {
	<ChannelMonitorUpdate as lightning::util::ser::Readable>::read(&mut &b[..]).unwrap()
}

fn gen_cm_history(seed: u64, hid: usize) -> Option<CmHist> {
	let mut rng = StdRng::seed_from_u64(seed.wrapping_mul(1_000_033).wrapping_add(7 * hid as u64 + 1));
	let chanmon_cfgs: &'static Vec<TestChanMonCfg> = Box::leak(Box::new(create_chanmon_cfgs(2)));
	let caps: &'static Vec<Capture> = Box::leak(Box::new(vec![
		Capture { calls: Mutex::new(Vec::new()) },
		Capture { calls: Mutex::new(Vec::new()) },
	]));
	let mut node_cfgs = create_node_cfgs(2, chanmon_cfgs);
	for i in 0..2 {
		node_cfgs[i].chain_monitor = TestChainMonitor::new(
			Some(&chanmon_cfgs[i].chain_source),
			&chanmon_cfgs[i].tx_broadcaster,
			&chanmon_cfgs[i].logger,
			&chanmon_cfgs[i].fee_estimator,
			&caps[i],
			&chanmon_cfgs[i].keys_manager,
		);
	}
	let node_cfgs: &'static Vec<NodeCfg<'static>> = Box::leak(Box::new(node_cfgs));
	let chanmgrs = Box::leak(Box::new(create_node_chanmgrs(2, node_cfgs, &[None, None])));
	let nodes = Box::leak(Box::new(create_network(2, node_cfgs, chanmgrs)));
	let desc: Mutex<Vec<String>> = Mutex::new(Vec::new());
	let base_idx: Mutex<Option<usize>> = Mutex::new(None);
	let chan_id: Mutex<Option<lightning::ln::types::ChannelId>> = Mutex::new(None);
	let _ = catch_unwind(AssertUnwindSafe(|| {
		let chan = create_announced_chan_between_nodes_with_value(nodes, 0, 1, 1_000_000, 400_000_000);
		*chan_id.lock().unwrap() = Some(chan.2);
		if rng.gen_bool(0.5) {
			send_payment(&nodes[0], &[&nodes[1]], rng.gen_range(1_000_000..4_000_000));
		}
		// stays pending: it is what takes node 0's monitor on chain when its expiry passes
		let (_p_out, _h_out, _, _) = route_payment(&nodes[0], &[&nodes[1]], rng.gen_range(3_000_000..9_000_000));
		// node 0 knows this one's preimage
		let (p_in, _h_in, _, _) = route_payment(&nodes[1], &[&nodes[0]], rng.gen_range(1_000_000..2_000_000));
		*base_idx.lock().unwrap() = Some(caps[0].calls.lock().unwrap().len());
		desc.lock().unwrap().push("open; route0>1 held; route1>0 held; BASE".into());
		let n = rng.gen_range(3..5);
		for _ in 0..n {
			let amt = rng.gen_range(1_000_000..3_000_000);
			if rng.gen_bool(0.6) {
				send_payment(&nodes[0], &[&nodes[1]], amt);
				desc.lock().unwrap().push(format!("pay0>1:{}", amt));
			} else {
				send_payment(&nodes[1], &[&nodes[0]], amt);
				desc.lock().unwrap().push(format!("pay1>0:{}", amt));
			}
		}
		let peer = nodes[1].node.get_our_node_id();
		let _ = nodes[0].node.force_close_broadcasting_latest_txn(&chan.2, &peer, "verif".to_owned());
		desc.lock().unwrap().push("force_close0".into());
		nodes[0].node.claim_funds(p_in);
		desc.lock().unwrap().push("claim-after-close0".into());
	}));
	let c = match caps[0].calls.lock() {
		Ok(c) => c.clone(),
		Err(e) => e.into_inner().clone(),
	};
	let base_idx = base_idx.lock().map(|g| *g).unwrap_or(None)?;
	let chan_id = chan_id.lock().map(|g| *g).unwrap_or(None)?;
	if base_idx == 0 || base_idx > c.len() {
		return None;
	}
	let base = &c[base_idx - 1];
	let mut pre = Vec::new();
	let mut fc = None;
	let mut pp = None;
	for cap in c[base_idx..].iter() {
		if let Some(u) = &cap.upd {
			match upd_kind(&read_upd(u)) {
				"pre" if fc.is_none() => pre.push(u.clone()),
				"fc" if fc.is_none() => fc = Some(u.clone()),
				"pp" if fc.is_some() && pp.is_none() => pp = Some(u.clone()),
				_ => {},
			}
		}
	}
	let desc = desc.lock().map(|d| d.clone()).unwrap_or_default();
	// The monitor handed to the ChainMonitor under test is an EARLIER state of node 0's monitor, and
	// TestChannelSigner shares its "already revoked" bookkeeping between all signers one
	// TestKeysInterface derives: a second key manager with node 0's seed, bookkeeping off.
	let mut km = TestKeysInterface::with_settings(&[0u8; 32], bitcoin::Network::Testnet, false, None);
	km.disable_all_state_policy_checks = true;
	let km: &'static TestKeysInterface = Box::leak(Box::new(km));
	Some(CmHist {
		keys: km,
		fee: &chanmon_cfgs[0].fee_estimator,
		chan_id,
		name: base.name,
		base_mon: base.mon.clone(),
		base_id: base.mon_id,
		pre,
		fc,
		pp,
		hid,
		desc,
	})
}

fn mk_mup2<'a>(
	store: &'a dyn KVStoreSync, maxp: u64, keys: &'a TestKeysInterface, bc: &'a TestBroadcaster,
	fee: &'a TestFeeEstimator,
) -> Mup<'a> {
	MonitorUpdatingPersister::new(store, &QUIET, maxp, keys, keys, bc, fee)
}

fn far_broadcaster() -> TestBroadcaster {
	// its "chain" is far ahead: time-locked claims of a monitor that went on chain may be broadcast
	let g = bitcoin::constants::genesis_block(bitcoin::Network::Testnet);
	TestBroadcaster::with_blocks(Arc::new(Mutex::new(vec![(g, 2_000_000)])))
}

/// The persister the ChainMonitor sees: the real MonitorUpdatingPersister, with the calls, what
/// it returned and the monitor it was handed recorded; on request it tells the ChainMonitor
/// InProgress for a persistence that did complete (the completion is delivered later through
/// channel_monitor_updated).
struct Tap<'a> {
	inner: &'a Mup<'a>,
	store: &'a RecStore,
	defer_next: Mutex<bool>,
	deferred: Mutex<Vec<u64>>,
	calls: Mutex<usize>,
	fulls: Mutex<usize>,
	saw_error: Mutex<bool>,
}
unsafe impl<'a> Sync for Tap<'a> {}
unsafe impl<'a> Send for Tap<'a> {}

impl<'a> Tap<'a> {
	fn before(&self, kind: &str, id: u64, monitor: &ChannelMonitor<TestChannelSigner>) {
		*self.calls.lock().unwrap() += 1;
		if kind == "full" {
			*self.fulls.lock().unwrap() += 1;
		}
		let mid = monitor.get_latest_update_id();
		let bytes = Arc::new(monitor.encode());
		let mut g = self.store.inner.lock().unwrap();
		let mut m = (*g.st.snaps).clone();
		m.insert(mid, bytes);
		g.st.snaps = Arc::new(m);
		g.items.push(Item::Ev(json!({"ev":"call","kind":kind,"id":id,"lazy":false})));
	}
	fn after(&self, kind: &str, id: u64, st: ChannelMonitorUpdateStatus) -> ChannelMonitorUpdateStatus {
		if st == ChannelMonitorUpdateStatus::UnrecoverableError {
			*self.saw_error.lock().unwrap() = true;
		}
		if self.store.inner.lock().unwrap().dead {
			return st; // the node died during the call: nothing was reported to anyone
		}
		let mut out = st;
		let mut d = self.defer_next.lock().unwrap();
		if *d && st == ChannelMonitorUpdateStatus::Completed && (kind == "new" || kind == "upd") {
			out = ChannelMonitorUpdateStatus::InProgress;
			self.deferred.lock().unwrap().push(id);
		}
		*d = false;
		self.store.push(json!({"ev":"ret","kind":kind,"id":id,"status":status_str(out)}));
		out
	}
}

impl<'a> Persist<TestChannelSigner> for Tap<'a> {
	fn persist_new_channel(
		&self, name: MonitorName, monitor: &ChannelMonitor<TestChannelSigner>,
	) -> ChannelMonitorUpdateStatus {
		let id = monitor.get_latest_update_id();
		self.before("new", id, monitor);
		let st = Persist::<TestChannelSigner>::persist_new_channel(self.inner, name, monitor);
		self.after("new", id, st)
	}
	fn update_persisted_channel(
		&self, name: MonitorName, update: Option<&ChannelMonitorUpdate>,
		monitor: &ChannelMonitor<TestChannelSigner>,
	) -> ChannelMonitorUpdateStatus {
		let (kind, id) = match update {
			Some(u) => ("upd", u.update_id),
			None => ("full", monitor.get_latest_update_id()),
		};
		self.before(kind, id, monitor);
		let st = Persist::<TestChannelSigner>::update_persisted_channel(self.inner, name, update, monitor);
		self.after(kind, id, st)
	}
	fn archive_persisted_channel(&self, name: MonitorName) {
		Persist::<TestChannelSigner>::archive_persisted_channel(self.inner, name)
	}
}

#[derive(Clone, Debug)]
enum COp {
	New(bool),              // watch_channel (defer: the persister's completion is reported later)
	Upd(&'static str, bool), // update_channel with the next update of that kind (defer)
	Close,                  // a block far enough ahead: the pending HTLC timed out, the monitor goes on chain
	Sync,                   // blocks until the ChainMonitor persists the monitor from chain sync
	Cleanup(bool),
	Archive,
	Complete,               // channel_monitor_updated for the oldest deferred completion
	Crash(usize, usize, bool), // the NEXT call dies after its k-th mutating store op (0 = now); landing mask; monitor key landed
}

struct CmRun {
	maxp: u64,
	ops: Vec<COp>,
	faults: HashMap<usize, Fault>,
	label: Value,
}

#[derive(Default)]
struct CmStats {
	calls: usize,
	updates: usize,
	refused_mult: usize,
	refused_nonmult: usize,
	refused_seen_as_full: usize,
	closes: usize,
	archives: usize,
	deferred: usize,
	completed: usize,
	restarts: usize,
	unexpected_panics: usize,
}

fn advance_cm(
	c: &CmHist, bc: &TestBroadcaster, blocks: &[(Block, u32)], mon: &ChannelMonitor<TestChannelSigner>,
	height: u32,
) {
	for (b, ht) in blocks.iter() {
		if *ht > mon.current_best_block().height && *ht <= height {
			let txdata: Vec<(usize, &Transaction)> = b.txdata.iter().enumerate().collect();
			mon.block_connected(&b.header, &txdata, *ht, bc, c.fee, &QUIET);
		}
	}
}

fn recover_cm(
	c: &CmHist, st: &StoreState, map: &BTreeMap<Key, Arc<Vec<u8>>>, maxp: u64, seed: u64,
	blocks: &[(Block, u32)], cache: &mut HashMap<[u8; 32], ChannelMonitor<TestChannelSigner>>,
	stats: &mut RecoverStats,
) -> Value {
	stats.recoveries += 1;
	let cs = CrashStore {
		map: map.clone(),
		fail_at: None,
		nread: Mutex::new(0),
		rng: Mutex::new(StdRng::seed_from_u64(seed)),
	};
	let bc = far_broadcaster();
	let r = catch_unwind(AssertUnwindSafe(|| {
		let p = mk_mup2(&cs, maxp, c.keys, &bc, c.fee);
		p.read_all_channel_monitors_with_updates()
	}));
	match r {
		Err(_) => {
			stats.panics += 1;
			json!({"kind":"panic","rid":-1,"eq":false,"rf":false,"n":0})
		},
		Ok(Err(_)) => json!({"kind":"err","rid":-1,"eq":false,"rf":false,"n":0}),
		Ok(Ok(v)) if v.is_empty() => json!({"kind":"none","rid":-1,"eq":false,"rf":false,"n":0}),
		Ok(Ok(v)) => {
			let n = v.len();
			let mon = &v[0].1;
			let rid = mon.get_latest_update_id();
			// library `==` against the in-memory monitor as it was last handed to the persister at
			// that update id, both at the same chain tip
			let eq = match st.snaps.get(&rid) {
				None => false,
				Some(bytes) => {
					let hk = h256(bytes);
					if !cache.contains_key(&hk) {
						if let Some(m) = read_mon(bytes, c.keys) {
							cache.insert(hk, m);
						}
					}
					match cache.get(&hk) {
						None => false,
						Some(target) => catch_unwind(AssertUnwindSafe(|| {
							let th = target.current_best_block().height;
							advance_cm(c, &bc, blocks, mon, th);
							mon == target
						}))
						.unwrap_or(false),
					}
				},
			};
			json!({"kind":"ok","rid":rid,"eq":eq,"rf":false,"n":n})
		},
	}
}

fn cm_land(ids: &Ids, pend: &[Key], mask: usize, landmon: bool) -> Vec<bool> {
	let mut ui = 0usize;
	pend.iter()
		.map(|k| match RecStore::classify(ids, k).0 {
			"mon" => landmon,
			_ => {
				let b = mask >> (ui % 16) & 1 == 1;
				ui += 1;
				b
			},
		})
		.collect()
}

fn run_cm(
	c: &CmHist, run: usize, r: &CmRun, seed: u64, tw: &mut TraceWriter,
	cache: &mut HashMap<[u8; 32], ChannelMonitor<TestChannelSigner>>, stats: &mut RecoverStats,
	cs: &mut CmStats,
) {
	use lightning::chain::{Listen, Watch};
	let mut rng = StdRng::seed_from_u64(seed);
	let mut ids = Ids::default();
	ids.mon_key = c.name.to_string();
	ids.keys = Some(c.keys);
	let store = RecStore::new(ids.clone(), seed ^ 0x55);
	store.inner.lock().unwrap().faults = r.faults.clone();
	let bc = far_broadcaster();
	let mup = mk_mup2(&store, r.maxp, c.keys, &bc, c.fee);
	let tap = Tap {
		inner: &mup,
		store: &store,
		defer_next: Mutex::new(false),
		deferred: Mutex::new(Vec::new()),
		calls: Mutex::new(0),
		fulls: Mutex::new(0),
		saw_error: Mutex::new(false),
	};
	let chain_source = lightning::util::test_utils::TestChainSource::new(bitcoin::Network::Testnet);
	let logger = lightning::util::test_utils::TestLogger::new();
	let mk_cm = || TestChainMonitor::new(Some(&chain_source), &bc, &logger, c.fee, &tap, c.keys);

	let mut blocks: Vec<(Block, u32)> = Vec::new();
	let base_tip = read_mon(&c.base_mon, c.keys).map(|m| m.current_best_block().height).unwrap_or(0);
	let mut tip = base_tip;
	let mut kinds: Vec<&'static str> = Vec::new(); // kinds of the updates base_id+1.. of the live monitor
	let mut exists = false;
	let mut gone = false;
	let mut halted = false;
	let mut closed = false; // a closing block is part of the chain
	let mut pending_crash: Option<(usize, usize, bool)> = None;
	let mut unexpected = false;

	let mut cm = Some(mk_cm());
	let todo = r.ops.clone();
	let mut oi = 0usize;
	while oi < todo.len() && !unexpected {
		let op = todo[oi].clone();
		oi += 1;
		if halted && !matches!(op, COp::Crash(_, _, _)) {
			break;
		}
		let mut crash_now: Option<(usize, bool)> = None;
		if let COp::Crash(k, mask, lm) = op {
			if k == 0 || halted {
				crash_now = Some((mask, lm));
			} else {
				pending_crash = Some((k, mask, lm));
				continue;
			}
		} else {
			if let Some((k, _, _)) = pending_crash {
				let mut g = store.inner.lock().unwrap();
				g.dead_after = Some(g.nmut + k);
			}
			*tap.saw_error.lock().unwrap() = false;
			let off = kinds.iter().any(|k| *k == "fc");
			let live = cm.as_ref().unwrap();
			let res = catch_unwind(AssertUnwindSafe(|| match op {
				COp::New(defer) => {
					if exists || gone {
						return;
					}
					if let Some(m) = read_mon(&c.base_mon, c.keys) {
						*tap.defer_next.lock().unwrap() = defer;
						let _ = live.chain_monitor.watch_channel(c.chan_id, m);
						*tap.defer_next.lock().unwrap() = false;
						exists = true;
					}
				},
				COp::Upd(kind, defer) => {
					if !exists || gone {
						return;
					}
					let npre = kinds.iter().filter(|k| **k == "pre").count();
					let bytes = match kind {
						"pre" if !off && npre < c.pre.len() => &c.pre[npre],
						"fc" if !off => match &c.fc {
							Some(b) => b,
							None => return,
						},
						"pp" => match &c.pp {
							Some(b) => b,
							None => return,
						},
						_ => return,
					};
					let mut u = read_upd(bytes);
					let cur = live.chain_monitor.get_monitor(c.chan_id).unwrap().get_latest_update_id();
					u.update_id = cur + 1;
					cs.updates += 1;
					if kind == "pre" && closed {
						if r.maxp != 0 && u.update_id % r.maxp == 0 {
							cs.refused_mult += 1;
						} else {
							cs.refused_nonmult += 1;
						}
					}
					kinds.push(kind);
					let f0 = *tap.fulls.lock().unwrap();
					*tap.defer_next.lock().unwrap() = defer;
					let _ = live.chain_monitor.update_channel(c.chan_id, &u);
					*tap.defer_next.lock().unwrap() = false;
					if *tap.fulls.lock().unwrap() > f0 {
						cs.refused_seen_as_full += 1;
					}
				},
				COp::Close => {
					if !exists || gone || closed {
						return;
					}
					tip += 200;
					let b = create_dummy_block(bitcoin::BlockHash::all_zeros(), tip, Vec::new());
					blocks.push((b.clone(), tip));
					closed = true;
					cs.closes += 1;
					live.chain_monitor.block_connected(&b, tip);
				},
				COp::Sync => {
					if !exists || gone {
						return;
					}
					let c0 = *tap.calls.lock().unwrap();
					for _ in 0..6 {
						tip += 1;
						let b = create_dummy_block(bitcoin::BlockHash::all_zeros(), tip, Vec::new());
						blocks.push((b.clone(), tip));
						live.chain_monitor.block_connected(&b, tip);
						if *tap.calls.lock().unwrap() > c0 {
							break;
						}
					}
				},
				COp::Cleanup(lazy) => {
					*tap.calls.lock().unwrap() += 1;
					store.push(json!({"ev":"call","kind":"cleanup","id":0,"lazy":lazy}));
					let res = mup.cleanup_stale_updates(lazy);
					if !store.inner.lock().unwrap().dead {
						store.push(json!({"ev":"ret","kind":"cleanup","id":0,
							"status": if res.is_ok() {"completed"} else {"error"}}));
					}
				},
				COp::Archive => {
					// ChainMonitor::archive_fully_resolved_channel_monitors, for a monitor it found
					// fully resolved: archive_persisted_channel, then the monitor is forgotten
					if !exists || gone || !(closed || off) {
						return;
					}
					*tap.calls.lock().unwrap() += 1;
					cs.archives += 1;
					store.push(json!({"ev":"archive"}));
					store.push(json!({"ev":"call","kind":"archive","id":0,"lazy":true}));
					Persist::<TestChannelSigner>::archive_persisted_channel(&tap, c.name);
					if !store.inner.lock().unwrap().dead {
						store.push(json!({"ev":"ret","kind":"archive","id":0,"status":"completed"}));
					}
					let _ = live.chain_monitor.remove_monitor(&c.chan_id);
					gone = true;
				},
				COp::Complete => {
					if !exists || gone {
						return;
					}
					let id = {
						let mut d = tap.deferred.lock().unwrap();
						if d.is_empty() {
							return;
						}
						d.remove(0)
					};
					cs.completed += 1;
					store.push(json!({"ev":"complete","id":id}));
					let _ = live.chain_monitor.channel_monitor_updated(c.chan_id, id);
				},
				COp::Crash(_, _, _) => {},
			}));
			let dead = store.inner.lock().unwrap().dead;
			store.inner.lock().unwrap().dead_after = None;
			if res.is_err() {
				// the ChainMonitor panics when its persister returns UnrecoverableError: the node stops
				if dead || *tap.saw_error.lock().unwrap() {
					halted = true;
				} else {
					unexpected = true;
				}
			}
			if let Some((_, mask, lm)) = pending_crash {
				if dead {
					crash_now = Some((mask, lm));
				}
				pending_crash = None;
			}
		}
		if let Some((mask, lm)) = crash_now {
			// ---- crash: un-landed lazy removals are lost; the restarted node recovers with the real
			// recovery, hands the monitor to a fresh ChainMonitor and syncs it to the chain tip
			cs.restarts += 1;
			cm = None;
			{
				let mut g = store.inner.lock().unwrap();
				let pend: Vec<Key> = g.st.pending.iter().cloned().collect();
				let m = cm_land(&ids, &pend, mask, lm);
				for (i, k) in pend.iter().enumerate() {
					if m[i] {
						g.st.base.remove(k);
					}
				}
				g.st.pending.clear();
				g.dead = false;
				g.dead_after = None;
				let (land, landmon) = land_ids(&ids, &pend, &m);
				let st = g.st.clone();
				g.items.push(Item::Mut(json!({"ev":"crash","land":land,"landmon":landmon}), st));
			}
			tap.deferred.lock().unwrap().clear();
			*tap.defer_next.lock().unwrap() = false;
			pending_crash = None;
			let rec = catch_unwind(AssertUnwindSafe(|| mup.read_all_channel_monitors_with_updates()));
			let mon = match rec {
				Ok(Ok(mut v)) if v.len() == 1 => Some(v.remove(0).1),
				Ok(Ok(v)) if v.is_empty() => None,
				_ => {
					store.push(json!({"ev":"restart","rid":-2}));
					halted = true;
					exists = false;
					continue;
				},
			};
			halted = false;
			let fresh = mk_cm();
			match mon {
				None => {
					store.push(json!({"ev":"restart","rid":-1}));
					exists = false;
					kinds.clear();
					// an archived channel stays archived
				},
				Some(m) => {
					let rid = m.get_latest_update_id();
					store.push(json!({"ev":"restart","rid":rid}));
					kinds.truncate((rid.saturating_sub(c.base_id)) as usize);
					exists = true;
					if gone {
						// the removal of the archived monitor's key did not land: it is loaded again
						gone = false;
					}
					let mtip = m.current_best_block().height;
					let sync = catch_unwind(AssertUnwindSafe(|| {
						let _ = fresh.chain_monitor.load_existing_monitor(c.chan_id, m);
						for (b, ht) in blocks.iter() {
							if *ht > mtip {
								fresh.chain_monitor.block_connected(b, *ht);
							}
						}
					}));
					if sync.is_err() {
						if store.inner.lock().unwrap().dead || *tap.saw_error.lock().unwrap() {
							halted = true;
						} else {
							unexpected = true;
						}
					}
				},
			}
			cm = Some(fresh);
		}
	}
	cs.calls += *tap.calls.lock().unwrap();
	if unexpected {
		cs.unexpected_panics += 1;
	}
	drop(cm);

	// ---- emit: events in order; after every mutating store operation the crash-point recoveries
	let items = std::mem::take(&mut store.inner.lock().unwrap().items);
	tw.emit(json!({"run":run,"ev":"reset","maxp":r.maxp,"hist":c.hid,"node":0,"nsnap":0,"label":r.label}));
	let empty_st = StoreState {
		base: BTreeMap::new(),
		pending: BTreeSet::new(),
		snaps: Arc::new(BTreeMap::new()),
	};
	let mut v = recover_cm(c, &empty_st, &empty_st.base, r.maxp, seed, &blocks, cache, stats);
	v["run"] = json!(run);
	v["ev"] = json!("rec");
	v["land"] = json!([]);
	v["landmon"] = json!(false);
	tw.emit(v);
	for it in items {
		match it {
			Item::Ev(mut v) => {
				v["run"] = json!(run);
				tw.emit(v);
			},
			Item::Mut(mut v, st) => {
				v["run"] = json!(run);
				tw.emit(v);
				let pend: Vec<Key> = st.pending.iter().cloned().collect();
				for (si, mask) in subsets(&pend, 16, &mut rng).iter().enumerate() {
					let mut map = st.base.clone();
					for (i, k) in pend.iter().enumerate() {
						if mask[i] {
							map.remove(k);
						}
					}
					let (land, landmon) = land_ids(&ids, &pend, mask);
					let mut v = recover_cm(c, &st, &map, r.maxp, seed ^ si as u64, &blocks, cache, stats);
					v["run"] = json!(run);
					v["ev"] = json!("rec");
					v["land"] = json!(land);
					v["landmon"] = json!(landmon);
					tw.emit(v);
				}
			},
		}
	}
	if unexpected {
		tw.emit(json!({"run":run,"ev":"panic"}));
	}
	if cache.len() > 4000 {
		cache.clear();
	}
}

fn parse_cm_script(s: &Value) -> CmRun {
	let mut ops = Vec::new();
	for o in s["ops"].as_array().unwrap() {
		let defer = o["defer"].as_bool().unwrap_or(false);
		match o["op"].as_str().unwrap() {
			"new" => ops.push(COp::New(defer)),
			"upd" => ops.push(COp::Upd(
				match o["kind"].as_str().unwrap_or("pre") {
					"fc" => "fc",
					"pp" => "pp",
					_ => "pre",
				},
				defer,
			)),
			"close" => ops.push(COp::Close),
			"sync" => ops.push(COp::Sync),
			"cleanup" => ops.push(COp::Cleanup(o["lazy"].as_bool().unwrap_or(true))),
			"archive" => ops.push(COp::Archive),
			"complete" => ops.push(COp::Complete),
			"crash" => ops.push(COp::Crash(
				o["after"].as_u64().unwrap_or(0) as usize,
				o["land"].as_u64().unwrap_or(0) as usize,
				o["landmon"].as_bool().unwrap_or(false),
			)),
			_ => {},
		}
	}
	let mut faults = HashMap::new();
	if let Some(fs) = s["faults"].as_array() {
		for f in fs {
			let mode = if f["mode"] == "applied" { Fault::Applied } else { Fault::NoEffect };
			faults.insert(f["n"].as_u64().unwrap() as usize, mode);
		}
	}
	CmRun { maxp: s["maxp"].as_u64().unwrap(), ops, faults, label: json!({"script": s}) }
}

fn cm_main(a: &Args) {
	let mut tw = TraceWriter::create(&a.out);
	let scripts = read_scripts(&a.scripts);
	let mut hists: Vec<CmHist> = Vec::new();
	let mut gen_fail = 0usize;
	for hid in 0..a.histories {
		match catch_unwind(AssertUnwindSafe(|| gen_cm_history(a.seed, hid))) {
			Ok(Some(h)) if h.pre.len() >= 6 => hists.push(h),
			_ => gen_fail += 1,
		}
	}
	if hists.is_empty() {
		eprintln!("no history could be generated");
		std::process::exit(3);
	}
	let mut stats = RecoverStats { recoveries: 0, panics: 0 };
	let mut cs = CmStats::default();
	let mut run = 0usize;
	let mut rng = StdRng::seed_from_u64(a.seed ^ 0xC19C0DE);
	let mut caches: Vec<HashMap<[u8; 32], ChannelMonitor<TestChannelSigner>>> =
		hists.iter().map(|_| HashMap::new()).collect();
	let hist_info: Vec<Value> = hists
		.iter()
		.map(|h| {
			json!({"hist":h.hid,"base_id":h.base_id,"pre_updates":h.pre.len(),
				"force_close_update":h.fc.is_some(),"preimage_update":h.pp.is_some(),"actions":h.desc})
		})
		.collect();

	for (si, s) in scripts.iter().enumerate() {
		run += 1;
		let hi = si % hists.len();
		let r = parse_cm_script(s);
		run_cm(&hists[hi], run, &r, a.seed ^ run as u64, &mut tw, &mut caches[hi], &mut stats, &mut cs);
	}

	// ---- seeded runs: longer update sequences for more values of maximum_pending_updates
	let maxps: [u64; 8] = [0, 1, 2, 3, 4, 5, 7, 11];
	for ri in 0..a.random {
		run += 1;
		let hi = ri % hists.len();
		let maxp = maxps[(ri / hists.len()) % maxps.len()];
		let mut ops = vec![COp::New(rng.gen_bool(0.15))];
		let nupd = rng.gen_range(3..9);
		let close_at = rng.gen_range(0..nupd);
		let mut faults = HashMap::new();
		for i in 0..nupd {
			if i == close_at {
				ops.push(COp::Close);
			}
			if rng.gen_bool(0.10) {
				ops.push(COp::Crash(rng.gen_range(0..3), rng.gen_range(0..65536), rng.gen_bool(0.5)));
			}
			let kind = match rng.gen_range(0..10) {
				0 => "fc",
				1..=2 => "pp",
				_ => "pre",
			};
			ops.push(COp::Upd(kind, rng.gen_bool(0.15)));
			if rng.gen_bool(0.15) {
				ops.push(COp::Sync);
			}
			if rng.gen_bool(0.12) {
				ops.push(COp::Cleanup(rng.gen_bool(0.5)));
			}
			if rng.gen_bool(0.15) {
				ops.push(COp::Complete);
			}
		}
		ops.push(COp::Crash(0, rng.gen_range(0..65536), false));
		ops.push(COp::Upd("pp", false));
		if rng.gen_bool(0.3) {
			ops.push(COp::Archive);
			ops.push(COp::Crash(0, 0, rng.gen_bool(0.5)));
		}
		if rng.gen_bool(0.25) {
			let n = rng.gen_range(1..(2 * nupd + 2));
			faults.insert(n, if rng.gen_bool(0.5) { Fault::NoEffect } else { Fault::Applied });
		}
		let label = json!({"random_index": ri, "maxp": maxp, "ops": format!("{:?}", ops),
			"faults": format!("{:?}", faults)});
		let r = CmRun { maxp, ops, faults, label };
		run_cm(&hists[hi], run, &r, a.seed ^ (run as u64) << 8, &mut tw, &mut caches[hi], &mut stats, &mut cs);
	}
	tw.flush();
	put_summary(
		a,
		json!({"runs":run,"persister_calls":cs.calls,"recoveries":stats.recoveries,
			"recovery_panics":stats.panics,"histories":hist_info,"history_failures":gen_fail,
			"events":tw.lines,"script_runs":scripts.len(),"updates":cs.updates,
			"refused_at_multiple":cs.refused_mult,"refused_at_non_multiple":cs.refused_nonmult,
			"refused_persisted_as_full_monitor":cs.refused_seen_as_full,
			"closes":cs.closes,"archives":cs.archives,"completions":cs.completed,
			"restarts":cs.restarts,"unexpected_panics":cs.unexpected_panics})
	);
	std::process::exit(0);
}

fn main() {
	// keep panic messages of caught panics out of the way unless asked for
	if std::env::var("VERIF_PANIC_MSG").is_err() {
		std::panic::set_hook(Box::new(|_| {}));
	}
	let a = parse_args();
	match a.mode.as_str() {
		"fs" => fs_main(&a),
		"mup" => mup_main(&a),
		"cm" => cm_main(&a),
		x => panic!("unknown mode {}", x),
	}
}
